/-
C09 model: statistics units, hourly rollover, restart, retention window and the
numbers reported by GET /control/stats.

Transcribes internal/stats/stats.go (New, Close, Update, flush/flushDB,
deleteOldUnits, loadUnits, setLimit, clear), unit.go (validate, add,
serialize/deserialize, dataFromUnits, fillCollectedStats(Daily), countHours)
and http.go (handleStats, handleStatsConfig, handlePutStatsConfig,
handleStatsReset).

Only the counters the property is about are modelled: `nTotal` and `nResult`.
Top-N lists, processing-time averages and the ignore engine are not.  Counters
are unbounded naturals (uint64 overflow is out of scope); unit ids are uint32
and wrap exactly where the Go code wraps (`sub32`/`add32`).  The bbolt file is
an association list from bucket id to the decoded unit, kept in key order
(bbolt iterates buckets in byte order of the 8-byte big-endian name, which is
numeric order of the id).  Go panics are explicit (`Fault`).
-/
namespace AGH.C09

/-- 2^32: unit ids are `uint32`. -/
def U32 : Nat := 4294967296

/-- `a - b` on `uint32` (for `a < 2^32`). -/
def sub32 (a b : Nat) : Nat := (a + U32 - b % U32) % U32

/-- `a + b` on `uint32`. -/
def add32 (a b : Nat) : Nat := (a + b) % U32

def msPerHour : Nat := 3600000

/-- `timeutil.Day * 365` in milliseconds. -/
def maxLimitMs : Nat := 365 * 24 * msPerHour

inductive Fault where
  | indexOutOfRange   -- slice index out of range
  | sliceBounds       -- slice bounds out of range
  | unitsLen          -- loadUnits: "loaded %d units when the desired number is %d"
  deriving DecidableEq, Repr

/-- The part of `stats.Entry` that `validate`/`add` look at for the counters. -/
structure Entry where
  /-- `e.Result` (a Go `int`) -/
  result : Int
  /-- `e.Domain == ""` -/
  domainEmpty : Bool
  /-- `e.Client == ""` -/
  clientEmpty : Bool

/-- `(*Entry).validate() == nil`.  NB: a negative `Result` passes. -/
def Entry.valid (e : Entry) : Bool :=
  if e.result == 0 then false
  else if e.result ≥ 6 then false
  else if e.domainEmpty then false
  else if e.clientEmpty then false
  else true

/-- Counters of `unitDB` (what is gob-encoded into a bucket).  `nResult i` is
`NResult[i]`; the slice always has length `resultLast = 6`. -/
structure UnitDB where
  nTotal : Nat
  nResult : Nat → Nat

/-- `&unitDB{NResult: make([]uint64, resultLast)}` -/
def UnitDB.empty : UnitDB := ⟨0, fun _ => 0⟩

/-- Counters of the in-memory `unit`. -/
structure MemUnit where
  id : Nat
  nTotal : Nat
  nResult : Nat → Nat

/-- `newUnit(id)` -/
def newUnit (id : Nat) : MemUnit := ⟨id, 0, fun _ => 0⟩

/-- `(*unit).serialize` -/
def MemUnit.serialize (u : MemUnit) : UnitDB := ⟨u.nTotal, u.nResult⟩

/-- `(*unit).deserialize(udb)`; `none` is the nil pointer. -/
def MemUnit.deserialize (u : MemUnit) : Option UnitDB → MemUnit
  | none => u
  | some d => { u with nTotal := d.nTotal, nResult := d.nResult }

/-- `(*unit).add(e)`: `u.nResult[e.Result]++` is the first statement, so an
index panic leaves `u` untouched. -/
def MemUnit.add (u : MemUnit) (r : Int) : Except Fault MemUnit :=
  if r < 0 ∨ r ≥ 6 then .error .indexOutOfRange
  else .ok { u with
    nResult := fun i => if i = r.toNat then u.nResult i + 1 else u.nResult i
    nTotal := u.nTotal + 1 }

/-! ### the bbolt file -/

abbrev DB := List (Nat × UnitDB)

/-- `tx.Bucket(idToUnitName(k))` + gob decode; `none` = no such bucket. -/
def DB.get : DB → Nat → Option UnitDB
  | [], _ => none
  | (k', v) :: rest, k => if k' = k then some v else DB.get rest k

/-- `CreateBucketIfNotExists(k)` + `Put({0}, v)`, keeping key order. -/
def DB.put (k : Nat) (v : UnitDB) : DB → DB
  | [] => [(k, v)]
  | (k', v') :: rest =>
    if k < k' then (k, v) :: (k', v') :: rest
    else if k = k' then (k, v) :: rest
    else (k', v') :: DB.put k v rest

/-- `tx.DeleteBucket(idToUnitName(k))` (ErrBucketNotFound is ignored). -/
def DB.del (k : Nat) : DB → DB
  | [] => []
  | (k', v') :: rest => if k' = k then DB.del k rest else (k', v') :: DB.del k rest

/-- `deleteOldUnits(tx, firstID)`: walk the buckets in key order, delete until
the first one with `nameID >= firstID`, then stop. -/
def deleteOldUnits (firstID : Nat) : DB → DB
  | [] => []
  | (k, v) :: rest => if k ≥ firstID then (k, v) :: rest else deleteOldUnits firstID rest

/-! ### the context -/

structure State where
  db : DB
  curr : MemUnit
  /-- `s.limit` in milliseconds -/
  limit : Nat
  enabled : Bool
  /-- what `s.unitIDGen()` returns now (`uint32`) -/
  clock : Nat

/-- `uint32(s.limit.Hours())` -/
def State.limitHours (s : State) : Nat := s.limit / msPerHour

/-- `validateIvl(ivl) == nil` -/
def validIvl (ms : Nat) : Bool := !(ms < msPerHour) && !(ms > maxLimitMs)

/-- `New(conf)` on an existing database file; `none` = New returns an error. -/
def new (db : DB) (clock limitMs : Nat) (enabled : Bool) : Option State :=
  if !validIvl limitMs then none
  else
    let id := clock
    let db' := deleteOldUnits (sub32 (sub32 id (limitMs / msPerHour)) 1) db
    let udb := db'.get id
    some { db := db', curr := (newUnit id).deserialize udb, limit := limitMs, enabled := enabled, clock := clock }

/-- `Close()`: the current unit is written under its own id. -/
def close (s : State) : DB := s.db.put s.curr.id s.curr.serialize

/-- `Update(e)`.  The panic (negative `Result`) happens before any mutation. -/
def update (s : State) (e : Entry) : Except Fault State :=
  if !s.enabled || s.limit == 0 then .ok s
  else if !e.valid then .ok s
  else match s.curr.add e.result with
    | .ok u => .ok { s with curr := u }
    | .error f => .error f

/-- `n` calls of `Update(e)`; returns the number of calls that panicked. -/
def updateN (s : State) (e : Entry) : Nat → State × Nat
  | 0 => (s, 0)
  | n + 1 =>
    match update s e with
    | .ok s' => updateN s' e n
    | .error _ => let (s', p) := updateN s e n; (s', p + 1)

/-- `flush()` + `flushDB`: swap in a fresh unit for the new hour, store the old
one under its id, delete bucket `id - limit`. -/
def flush (s : State) : State :=
  let id := s.clock
  let limit := s.limitHours
  if limit = 0 ∨ s.curr.id = id then s
  else
    let db1 := s.db.put s.curr.id s.curr.serialize
    let db2 := db1.del (sub32 id limit)
    { s with curr := newUnit id, db := db2 }

/-- The clock moves to hour `id` and the periodic flush sees it. -/
def tick (s : State) (id : Nat) : State := flush { s with clock := id }

/-- `clear()`: the file is removed and recreated, a fresh current unit. -/
def clear (s : State) : State := { s with db := [], curr := newUnit s.clock }

/-- `checkInterval(days)` -/
def checkInterval (days : Nat) : Bool := days == 0 || days == 1 || days == 7 || days == 30 || days == 90

/-- POST /control/stats_config: `handleStatsConfig` + `setLimit`. -/
def setLimitDays (s : State) (days : Nat) : State :=
  if !checkInterval days then s
  else if days * 24 * msPerHour ≠ 0 then { s with enabled := true, limit := days * 24 * msPerHour }
  else clear { s with enabled := false }

/-- PUT /control/stats/config/update: `handlePutStatsConfig`. -/
def putConf (s : State) (ms : Nat) (enabled : Bool) : State :=
  if !validIvl ms then s else { s with limit := ms, enabled := enabled }

/-- `Close()` followed by `New(conf)` on the same file at clock `id`. -/
def restart (s : State) (id limitMs : Nat) (enabled : Bool) : Option State :=
  new (close s) id limitMs enabled

/-! The parts of a restart, and time passing without the flush noticing.
`Close` writes the unit under THE UNIT'S id (`s.curr.id`), whatever
`unitIDGen()` says at that moment; `New` loads the bucket of the hour
`unitIDGen()` returns then. -/

/-- The UnitID generator moves to hour `h`; the once-a-second flush has not run
yet (or the process is down). -/
def advance (s : State) (h : Nat) : State := { s with clock := h }

/-- `Close()`: afterwards only the file matters. -/
def closeOp (s : State) : State := { s with db := close s }

/-- `New(conf)` on the file at the hour the generator shows now. -/
def openOp (s : State) (limitMs : Nat) (enabled : Bool) : Option State := new s.db s.clock limitMs enabled

/-! ### GET /control/stats -/

/-- `loadUnits(limit)`: `limit - 1` stored units (missing = empty) + current. -/
def loadUnits (s : State) (limit : Nat) : Except Fault (List UnitDB × Nat) :=
  let curID := s.curr.id
  let firstID := add32 (sub32 curID limit) 1
  -- `for i := firstID; i != curID; i++` runs `(curID - firstID) mod 2^32` times
  let stored := (List.range (sub32 curID firstID)).map
    fun k => (s.db.get (add32 firstID k)).getD UnitDB.empty
  let units := stored ++ [s.curr.serialize]
  if units.length ≠ limit then .error .unitsLen else .ok (units, curID)

/-- `acc[i] += x`, index checked. -/
def addAt : List Nat → Nat → Nat → Option (List Nat)
  | [], _, _ => none
  | a :: rest, 0, x => some ((a + x) :: rest)
  | a :: rest, i + 1, x => (addAt rest i x).map (a :: ·)

/-- `for i, u := range units { acc[slot i] += f u }` starting at index `i`. -/
def accum (f : UnitDB → Nat) (slot : Nat → Nat) : List UnitDB → Nat → List Nat → Except Fault (List Nat)
  | [], _, acc => .ok acc
  | u :: us, i, acc =>
    match addAt acc (slot i) (f u) with
    | some acc' => accum f slot us (i + 1) acc'
    | none => .error .indexOutOfRange

/-! `accum` walks a list for every `acc[i] += x`; the compiled driver uses the
array version below instead, which is proved equal (`@[csimp]`, kernel-checked —
no trust added). -/

theorem addAt_eq (acc : List Nat) (k x : Nat) :
    addAt acc k x = if h : k < acc.length then some (acc.set k (acc[k] + x)) else none := by
  induction acc generalizing k with
  | nil => simp [addAt]
  | cons a rest ih =>
    cases k with
    | zero => simp [addAt]
    | succ k =>
      simp only [addAt, ih]
      by_cases h : k < rest.length <;> simp [h]

def accumA (f : UnitDB → Nat) (slot : Nat → Nat) : List UnitDB → Nat → Array Nat → Except Fault (Array Nat)
  | [], _, acc => .ok acc
  | u :: us, i, acc =>
    if h : slot i < acc.size then accumA f slot us (i + 1) (acc.set (slot i) (acc[slot i] + f u))
    else .error .indexOutOfRange

def accumFast (f : UnitDB → Nat) (slot : Nat → Nat) (us : List UnitDB) (i : Nat) (acc : List Nat) :
    Except Fault (List Nat) :=
  match accumA f slot us i acc.toArray with
  | .ok a => .ok a.toList
  | .error e => .error e

theorem accum_eq_fast (f : UnitDB → Nat) (slot : Nat → Nat) (us : List UnitDB) (i : Nat) (acc : List Nat) :
    accum f slot us i acc = accumFast f slot us i acc := by
  induction us generalizing i acc with
  | nil => simp [accum, accumFast, accumA]
  | cons u us ih =>
    unfold accumFast
    simp only [accum, accumA, addAt_eq]
    by_cases h : slot i < acc.length
    · simp only [h, dite_true, List.size_toArray]
      rw [ih]
      unfold accumFast
      simp
    · simp [h]

@[csimp] theorem accum_csimp : @accum = @accumFast := by
  funext f slot us i acc
  exact accum_eq_fast f slot us i acc

/-- `countHours(curHour, days)` -/
def countHours (curHour days : Nat) : Nat :=
  let hoursInCurDay := if curHour % 24 = 0 then 24 else curHour % 24
  (days - 1) * 24 + hoursInCurDay

/-- One per-time-unit series of `fillCollectedStats` (+`Daily`): returns
(`time_units == "days"`, series). -/
def fillSeries (f : UnitDB → Nat) (units : List UnitDB) (curID : Nat) : Except Fault (Bool × List Nat) :=
  let size := units.length
  let daysCount := size / 24
  if daysCount > 7 then
    let hours := countHours curID daysCount
    if hours > units.length then .error .sliceBounds
    else
      match accum f (· / 24) (units.drop (units.length - hours)) 0 (List.replicate daysCount 0) with
      | .ok a => .ok (true, a)
      | .error e => .error e
  else
    match accum f id units 0 (List.replicate size 0) with
    | .ok a => .ok (false, a)
    | .error e => .error e

/-- What the property looks at in `StatsResp`. -/
structure Resp where
  /-- `time_units == "days"` -/
  days : Bool
  dnsQueries : List Nat
  blockedFiltering : List Nat
  replacedSafebrowsing : List Nat
  replacedParental : List Nat
  numDNSQueries : Nat
  numBlockedFiltering : Nat
  numReplacedSafebrowsing : Nat
  numReplacedSafesearch : Nat
  numReplacedParental : Nat

def sumBy (f : UnitDB → Nat) (units : List UnitDB) : Nat := (units.map f).sum

/-- `dataFromUnits(units, curID)` -/
def dataFromUnits (units : List UnitDB) (curID : Nat) : Except Fault Resp := do
  let (d, q) ← fillSeries (·.nTotal) units curID
  let (_, b) ← fillSeries (·.nResult 2) units curID
  let (_, sb) ← fillSeries (·.nResult 3) units curID
  let (_, p) ← fillSeries (·.nResult 5) units curID
  pure {
    days := d, dnsQueries := q, blockedFiltering := b, replacedSafebrowsing := sb, replacedParental := p
    numDNSQueries := sumBy (·.nTotal) units
    numBlockedFiltering := sumBy (·.nResult 2) units
    numReplacedSafebrowsing := sumBy (·.nResult 3) units
    numReplacedSafesearch := sumBy (·.nResult 4) units
    numReplacedParental := sumBy (·.nResult 5) units }

/-- `getData(limit)` as called by `handleStats` with `uint32(s.limit.Hours())`
(`ok` is always true while the database is open). -/
def getData (s : State) : Except Fault Resp :=
  let limit := s.limitHours
  if limit = 0 then
    .ok { days := true, dnsQueries := [], blockedFiltering := [], replacedSafebrowsing := [], replacedParental := []
          numDNSQueries := 0, numBlockedFiltering := 0, numReplacedSafebrowsing := 0
          numReplacedSafesearch := 0, numReplacedParental := 0 }
  else
    match loadUnits s limit with
    | .error e => .error e
    | .ok (units, curID) => dataFromUnits units curID

/-! ### operations -/

inductive Op where
  | upd (e : Entry) (n : Nat)
  | tick (id : Nat)
  | advance (h : Nat)
  | restart (id limitMs : Nat) (enabled : Bool)
  | setDays (days : Nat)
  | putConf (ms : Nat) (enabled : Bool)
  | clear
  | read

/-- One operation on the implementation state.  `restart` with a configuration
that `New` rejects is outside the model (`none`). -/
def step (s : State) : Op → Option State
  | .upd e n => some (updateN s e n).1
  | .tick id => some (tick s id)
  | .advance h => some (advance s h)
  | .restart id l en => restart s id l en
  | .setDays d => some (setLimitDays s d)
  | .putConf ms en => some (putConf s ms en)
  | .clear => some (clear s)
  | .read => some s

end AGH.C09
