/-
C13, independence from partial runs: the erasure `er` (what re-encoding and
re-reading does to the document in memory), the invariant `inv` (where
Go-typed values may live) and their basic lemmas.  Core Lean only.

Between two partial runs the document is written and read again: a
`timeutil.Duration` comes back as a string, a `[]string` as a sequence, an
`UpstreamMode` as a string; every other value comes back as itself provided
re-encoding does not change the type of a scalar (`clean`: the hypothesis that
excludes the known finding — an integral float comes back as an int).
-/
import AGH.Lemmas.Migrate
namespace AGH.C13
open AGH

/-! ### erasure -/

mutual
/-- The document as it is read back after having been written. -/
def er (o : Oracles) : YVal → YVal
  | .arr xs => .arr (erList o xs)
  | .obj es => .obj (erEnts o es)
  | .dur n => .str ((o.fmtDays n).getD [])
  | .strs xs => .arr (xs.map .str)
  | .umode s => .str s
  | v => v
def erList (o : Oracles) : List YVal → List YVal
  | [] => []
  | x :: xs => er o x :: erList o xs
def erEnts (o : Oracles) : List (Key × YVal) → List (Key × YVal)
  | [] => []
  | (k, v) :: es => (k, er o v) :: erEnts o es
end

mutual
/-- No Go-typed value inside, and every non-generic scalar is read back as itself. -/
def clean (o : Oracles) : YVal → Bool
  | .opaque k p =>
    match o.rt k p with
    | some (.opaque k' p') => k' == k && p' == p
    | _ => false
  | .arr xs => cleanList o xs
  | .obj es => cleanEnts o es
  | .dur _ => false
  | .strs _ => false
  | .umode _ => false
  | _ => true
def cleanList (o : Oracles) : List YVal → Bool
  | [] => true
  | x :: xs => clean o x && cleanList o xs
def cleanEnts (o : Oracles) : List (Key × YVal) → Bool
  | [] => true
  | (_, v) :: es => clean o v && cleanEnts o es
end

def isTypedLeaf : YVal → Bool
  | .dur _ => true
  | .strs _ => true
  | .umode _ => true
  | _ => false

/-- What may sit at a place where a step leaves a Go-typed value. -/
def excOK (o : Oracles) (v : YVal) : Bool := clean o v || isTypedLeaf v

/-- `v` is clean except, when it is a map, at the keys `ex`. -/
def subOK (o : Oracles) (ex : List Key) : YVal → Bool
  | .obj ws => ws.all (fun e => if e.1 ∈ ex then excOK o e.2 else clean o e.2)
  | v => clean o v

/-- The keys of a top-level section at which Go-typed values may sit:
`dns.querylog_interval` (v12), `dns.upstream_mode` (v28), `querylog.interval`
(moved there by v15), `statistics.interval` (v20), `filtering.safe_fs_patterns` (v29). -/
def exc (k : Key) : List Key :=
  if k = kDns then [kQuerylogInterval, kUpstreamMode]
  else if k = kQuerylog then [kInterval]
  else if k = kStatistics then [kInterval]
  else if k = kFiltering then [kSafeFsPatterns]
  else []

/-- The invariant of the document in memory between steps. -/
def inv (o : Oracles) : YVal → Bool
  | .obj es => es.all (fun e => subOK o (exc e.1) e.2)
  | _ => false

/-- Hypothesis of path independence: the decoded document holds no scalar whose
re-encoding changes its type (decidable over the shipped round-trip oracle). -/
def ReencodeStable (o : Oracles) (doc : YVal) : Bool := clean o doc

/-- `timeutil.Duration.String` is total. -/
def FmtTotal (o : Oracles) : Prop := ∀ n, (o.fmtDays n).isSome = true

/-! ### er: equations, idempotence, maps -/

@[simp] theorem er_null (o) : er o .null = .null := by simp [er]
@[simp] theorem er_bool (o b) : er o (.bool b) = .bool b := by simp [er]
@[simp] theorem er_int (o i) : er o (.int i) = .int i := by simp [er]
@[simp] theorem er_str (o s) : er o (.str s) = .str s := by simp [er]
@[simp] theorem er_opaque (o k p) : er o (.opaque k p) = .opaque k p := by simp [er]
@[simp] theorem er_arr (o xs) : er o (.arr xs) = .arr (erList o xs) := by simp [er]
@[simp] theorem er_obj (o es) : er o (.obj es) = .obj (erEnts o es) := by simp [er]
@[simp] theorem er_dur (o n) : er o (.dur n) = .str ((o.fmtDays n).getD []) := by simp [er]
@[simp] theorem er_strs (o xs) : er o (.strs xs) = .arr (xs.map .str) := by simp [er]
@[simp] theorem er_umode (o s) : er o (.umode s) = .str s := by simp [er]
@[simp] theorem erList_nil (o) : erList o [] = [] := by simp [erList]
@[simp] theorem erList_cons (o x xs) : erList o (x :: xs) = er o x :: erList o xs := by simp [erList]
@[simp] theorem erEnts_nil (o) : erEnts o [] = [] := by simp [erEnts]
@[simp] theorem erEnts_cons (o k v es) : erEnts o ((k, v) :: es) = (k, er o v) :: erEnts o es := by simp [erEnts]

@[simp] theorem erEnts_cons' (o : Oracles) (e : Key × YVal) (es) :
    erEnts o (e :: es) = (e.1, er o e.2) :: erEnts o es := by
  obtain ⟨k, v⟩ := e; simp

theorem erList_strs (o : Oracles) (xs : List Bytes) : erList o (xs.map .str) = xs.map .str := by
  induction xs with
  | nil => rfl
  | cons x xs ih => simp [ih]

mutual
theorem er_idem (o : Oracles) : ∀ v, er o (er o v) = er o v
  | .null => by simp
  | .bool _ => by simp
  | .int _ => by simp
  | .str _ => by simp
  | .opaque _ _ => by simp
  | .arr xs => by simp [erList_idem o xs]
  | .obj es => by simp [erEnts_idem o es]
  | .dur _ => by simp
  | .strs xs => by simp [erList_strs]
  | .umode _ => by simp
theorem erList_idem (o : Oracles) : ∀ xs, erList o (erList o xs) = erList o xs
  | [] => by simp
  | x :: xs => by simp [er_idem o x, erList_idem o xs]
theorem erEnts_idem (o : Oracles) : ∀ es, erEnts o (erEnts o es) = erEnts o es
  | [] => by simp
  | (k, v) :: es => by simp [er_idem o v, erEnts_idem o es]
end

mutual
theorem er_of_clean (o : Oracles) : ∀ v, clean o v = true → er o v = v
  | .null, _ => by simp
  | .bool _, _ => by simp
  | .int _, _ => by simp
  | .str _, _ => by simp
  | .opaque _ _, _ => by simp
  | .arr xs, h => by simp [clean] at h; simp [erList_of_clean o xs h]
  | .obj es, h => by simp [clean] at h; simp [erEnts_of_clean o es h]
  | .dur _, h => by simp [clean] at h
  | .strs _, h => by simp [clean] at h
  | .umode _, h => by simp [clean] at h
theorem erList_of_clean (o : Oracles) : ∀ xs, cleanList o xs = true → erList o xs = xs
  | [], _ => by simp
  | x :: xs, h => by
    simp [cleanList] at h
    simp [er_of_clean o x h.1, erList_of_clean o xs h.2]
theorem erEnts_of_clean (o : Oracles) : ∀ es, cleanEnts o es = true → erEnts o es = es
  | [], _ => by simp
  | (k, v) :: es, h => by
    simp [cleanEnts] at h
    simp [er_of_clean o v h.1, erEnts_of_clean o es h.2]
end

theorem lookup_erEnts (o : Oracles) (k : Key) (es : List (Key × YVal)) :
    lookup k (erEnts o es) = (lookup k es).map (er o) := by
  induction es with
  | nil => simp [lookup]
  | cons e es ih =>
    obtain ⟨k', v⟩ := e
    by_cases h : k' = k <;> simp [lookup, h, ih]

theorem erEnts_insert (o : Oracles) (k : Key) (v : YVal) (es : List (Key × YVal)) :
    erEnts o (insert k v es) = insert k (er o v) (erEnts o es) := by
  induction es with
  | nil => simp [insert]
  | cons e es ih =>
    obtain ⟨k', v'⟩ := e
    by_cases h : k' = k <;> simp [insert, h, ih]

theorem erEnts_erase (o : Oracles) (k : Key) (es : List (Key × YVal)) :
    erEnts o (erase k es) = erase k (erEnts o es) := by
  induction es with
  | nil => simp [erase]
  | cons e es ih =>
    obtain ⟨k', v'⟩ := e
    by_cases h : k' = k <;> simp [erase, h, ih]

theorem erList_map (o : Oracles) (f : YVal → YVal) (hf : ∀ x, er o (f x) = f (er o x)) (xs : List YVal) :
    erList o (xs.map f) = (erList o xs).map f := by
  induction xs with
  | nil => rfl
  | cons x xs ih => simp [hf, ih]

/-- `er` never produces a map from a non-map, nor the other way round. -/
theorem getK_er (o : Oracles) (m : YVal) (k : Key) : getK (er o m) k = (getK m k).map (er o) := by
  cases m <;> simp [getK, lookup_erEnts]

theorem er_putK (o : Oracles) (m : YVal) (k : Key) (v : YVal) :
    er o (putK m k v) = putK (er o m) k (er o v) := by
  cases m <;> simp [putK, erEnts_insert]

theorem er_delK (o : Oracles) (m : YVal) (k : Key) : er o (delK m k) = delK (er o m) k := by
  cases m <;> simp [delK, erEnts_erase]

theorem isEmptyObj_er (o : Oracles) (m : YVal) : isEmptyObj (er o m) = isEmptyObj m := by
  cases m with
  | obj es => cases es with
    | nil => simp [isEmptyObj]
    | cons e es => obtain ⟨k, v⟩ := e; simp [isEmptyObj]
  | _ => simp [isEmptyObj]

/-! ### fieldVal on the re-read document -/

def FV.er (o : Oracles) (r : FV) : FV := ⟨C13.er o r.v, r.ok, r.err⟩

@[simp] theorem FV.er_v (o : Oracles) (r : FV) : (r.er o).v = C13.er o r.v := rfl
@[simp] theorem FV.er_ok (o : Oracles) (r : FV) : (r.er o).ok = r.ok := rfl
@[simp] theorem FV.er_err (o : Oracles) (r : FV) : (r.er o).err = r.err := rfl

@[simp] theorem er_zeroOf (o : Oracles) (T : Ty) : er o (zeroOf T) = zeroOf T := by
  cases T <;> simp [zeroOf]

/-- Reading a field of the re-read map gives the re-read field, unless a string
(sequence) is asked for where a Go-typed duration or mode (string list) sits. -/
theorem fieldVal_er (o : Oracles) (T : Ty) (m : YVal) (k : Key)
    (h : T = .str ∨ T = .arr → ∀ c, getK m k = some c → isTypedLeaf c = false) :
    fieldVal T (er o m) k = (fieldVal T m k).er o := by
  unfold fieldVal
  rw [getK_er]
  cases hg : getK m k with
  | none => simp [FV.er]
  | some c =>
    have hc := fun hT => h hT c hg
    cases T <;> cases c <;> simp_all [FV.er, hasTy, zeroOf, isTypedLeaf]

theorem fieldVal_er_int (o : Oracles) (m : YVal) (k : Key) :
    fieldVal .int (er o m) k = (fieldVal .int m k).er o := fieldVal_er o _ m k (by simp)
theorem fieldVal_er_bool (o : Oracles) (m : YVal) (k : Key) :
    fieldVal .bool (er o m) k = (fieldVal .bool m k).er o := fieldVal_er o _ m k (by simp)
theorem fieldVal_er_obj (o : Oracles) (m : YVal) (k : Key) :
    fieldVal .obj (er o m) k = (fieldVal .obj m k).er o := fieldVal_er o _ m k (by simp)
theorem fieldVal_er_any (o : Oracles) (m : YVal) (k : Key) :
    fieldVal .any (er o m) k = (fieldVal .any m k).er o := fieldVal_er o _ m k (by simp)

theorem isTypedLeaf_of_clean (o : Oracles) (c : YVal) (h : clean o c = true) : isTypedLeaf c = false := by
  cases c <;> simp_all [clean, isTypedLeaf]

/-- Reading a string or a sequence where the value is clean. -/
theorem fieldVal_er_clean (o : Oracles) (T : Ty) (m : YVal) (k : Key)
    (h : ∀ c, getK m k = some c → clean o c = true) :
    fieldVal T (er o m) k = (fieldVal T m k).er o :=
  fieldVal_er o T m k (fun _ c hc => isTypedLeaf_of_clean o c (h c hc))

/-! ### agreement of two results up to re-reading -/

/-- Same fault, or documents that are read back equal. -/
def Sim (o : Oracles) (r r' : M YVal) : Prop :=
  match r, r' with
  | .ok a, .ok b => er o a = er o b
  | .error e, .error e' => e = e'
  | _, _ => False

theorem Sim.refl (o : Oracles) (r : M YVal) : Sim o r r := by
  cases r <;> simp [Sim]

theorem Sim.symm {o : Oracles} {r r' : M YVal} (h : Sim o r r') : Sim o r' r := by
  cases r <;> cases r' <;> simp_all [Sim]

theorem Sim.trans {o : Oracles} {r1 r2 r3 : M YVal} (h1 : Sim o r1 r2) (h2 : Sim o r2 r3) : Sim o r1 r3 := by
  cases r1 <;> cases r2 <;> cases r3 <;> simp_all [Sim]

/-! ### what the invariant says about the values a step reads -/

theorem mem_of_lookup {k : Key} {v : YVal} {es : List (Key × YVal)} (h : lookup k es = some v) : (k, v) ∈ es := by
  induction es with
  | nil => simp [lookup] at h
  | cons e es ih =>
    obtain ⟨k', v'⟩ := e
    by_cases hk : k' = k
    · simp [lookup, hk] at h; simp [hk, h]
    · simp [lookup, hk] at h; simp [ih h]

theorem clean_zeroOf (o : Oracles) (T : Ty) : clean o (zeroOf T) = true := by
  cases T <;> simp [zeroOf, clean, cleanList]

theorem subOK_of_clean (o : Oracles) (ex : List Key) (v : YVal) (h : clean o v = true) : subOK o ex v = true := by
  cases v <;> simp_all [subOK]
  rename_i es
  simp only [clean] at h
  induction es with
  | nil => simp
  | cons e es ih =>
    obtain ⟨k, w⟩ := e
    simp [cleanEnts] at h
    intro a b hab
    simp at hab
    rcases hab with ⟨rfl, rfl⟩ | hab
    · simp [excOK, h.1]
    · exact ih h.2 a b hab

theorem subOK_nil (o : Oracles) (v : YVal) : subOK o [] v = clean o v := by
  cases v <;> simp [subOK]
  rename_i es
  simp only [clean]
  induction es with
  | nil => simp [cleanEnts]
  | cons e es ih => obtain ⟨k, w⟩ := e; simp [cleanEnts, ih]

/-- The section under the top-level key `k`. -/
theorem inv_sub {o : Oracles} {D : YVal} (h : inv o D = true) {k : Key} {v : YVal} (hg : getK D k = some v) :
    subOK o (exc k) v = true := by
  cases D <;> simp [inv, getK] at h hg
  exact h k v (mem_of_lookup hg)

/-- `fieldVal` hands out the field itself or a zero value. -/
theorem fv_v_cases (T : Ty) (m : YVal) (k : Key) :
    (fieldVal T m k).v = zeroOf T ∨ getK m k = some (fieldVal T m k).v := by
  unfold fieldVal
  cases hg : getK m k with
  | none => simp
  | some c =>
    by_cases hn : c = .null
    · subst hn; by_cases hT : T = .obj <;> simp [hT]
    · by_cases hty : hasTy T c = true
      · right; cases c <;> simp_all
      · left; cases c <;> simp_all

/-- The value `fieldVal` hands out for a top-level key: the section, or a zero value. -/
theorem fv_sub {o : Oracles} {D : YVal} (h : inv o D = true) (T : Ty) (k : Key) :
    subOK o (exc k) (fieldVal T D k).v = true := by
  rcases fv_v_cases T D k with hz | hg
  · rw [hz]; exact subOK_of_clean o _ _ (clean_zeroOf o T)
  · exact inv_sub h hg

/-- A field of a section, outside the keys where Go-typed values may sit, is clean. -/
theorem sub_kid {o : Oracles} {ex : List Key} {m : YVal} (h : subOK o ex m = true) {k : Key} (hk : k ∉ ex)
    {c : YVal} (hg : getK m k = some c) : clean o c = true := by
  cases m <;> simp [getK] at hg
  simp [subOK] at h
  have := h k c (mem_of_lookup hg)
  simpa [hk] using this

/-- … and so is what `fieldVal` hands out for it. -/
theorem fv_kid {o : Oracles} {ex : List Key} {m : YVal} (h : subOK o ex m = true) {k : Key} (hk : k ∉ ex)
    (T : Ty) : clean o (fieldVal T m k).v = true := by
  rcases fv_v_cases T m k with hz | hg
  · rw [hz]; exact clean_zeroOf o T
  · exact sub_kid h hk hg

theorem clean_kid {o : Oracles} {m : YVal} (h : clean o m = true) {k : Key} {c : YVal} (hg : getK m k = some c) :
    clean o c = true :=
  sub_kid (ex := []) (by rw [subOK_nil]; exact h) (by simp) hg

end AGH.C13
