/-
C04 lemmas, part 9: what `SetIDs` makes of a list of strings.  Core Lean only.
-/
import AGH.Lemmas.ClientsSpec
namespace AGH.C04
open AGH AGH.Bytes
open AGH.C03 (IP Prefix)

/-- The identifier a string stands for: an address if it parses as one, else a
CIDR, else a MAC, else — if it is a valid label — the lower-cased ClientID. -/
def IDString.ident (id : IDString) : Option Ident :=
  if id.raw = [] then none
  else match id.asIP with
    | some ip => some (.ip ip)
    | none => match id.asPrefix with
      | some p => some (.subnet p)
      | none => match id.asMAC with
        | some m => some (.mac m)
        | none => if C16.validLabel id.raw then some (.cid (Bytes.lower id.raw)) else none

theorem mem_insertSorted {α : Type} (lt : α → α → Bool) (x y : α) (l : List α) :
    y ∈ insertSorted lt x l ↔ y = x ∨ y ∈ l := by
  induction l with
  | nil => simp [insertSorted]
  | cons a rest ih =>
    unfold insertSorted
    split
    · simp
    · simp only [List.mem_cons, ih]
      constructor
      · rintro (h | h | h)
        · exact Or.inr (Or.inl h)
        · exact Or.inl h
        · exact Or.inr (Or.inr h)
      · rintro (h | h | h)
        · exact Or.inr (Or.inl h)
        · exact Or.inl h
        · exact Or.inr (Or.inr h)

theorem mem_sortBy {α : Type} (lt : α → α → Bool) (y : α) (l : List α) : y ∈ sortBy lt l ↔ y ∈ l := by
  unfold sortBy
  induction l with
  | nil => simp
  | cons a rest ih => simp only [List.foldr_cons, mem_insertSorted, ih, List.mem_cons]

theorem setID_spec {c c' : Client} {id : IDString} (h : setID c id = .ok c') :
    c'.name = c.name ∧ c'.uid = c.uid ∧ ∃ k, id.ident = some k ∧ ∀ x, x ∈ c'.idents ↔ (x ∈ c.idents ∨ x = k) := by
  unfold setID at h
  unfold IDString.ident
  by_cases he : id.raw = []
  · simp [he] at h
  · simp only [he, if_false] at h ⊢
    cases hip : id.asIP with
    | some ip =>
      rw [hip] at h
      simp only [Except.ok.injEq] at h
      subst h
      refine ⟨rfl, rfl, _, rfl, ?_⟩
      intro x
      cases x <;> simp [Client.idents, or_comm]
    | none =>
      rw [hip] at h
      simp only at h ⊢
      cases hp : id.asPrefix with
      | some p =>
        rw [hp] at h
        simp only [Except.ok.injEq] at h
        subst h
        refine ⟨rfl, rfl, _, rfl, ?_⟩
        intro x
        cases x <;> simp [Client.idents, or_comm]
      | none =>
        rw [hp] at h
        simp only at h ⊢
        cases hm : id.asMAC with
        | some m =>
          rw [hm] at h
          simp only [Except.ok.injEq] at h
          subst h
          refine ⟨rfl, rfl, _, rfl, ?_⟩
          intro x
          cases x <;> simp [Client.idents, or_comm]
        | none =>
          rw [hm] at h
          simp only at h ⊢
          by_cases hv : C16.validLabel id.raw = true
          · simp only [hv, if_true, Except.ok.injEq] at h ⊢
            subst h
            refine ⟨rfl, rfl, _, rfl, ?_⟩
            intro x
            cases x <;> simp [Client.idents, or_comm]
          · simp [hv] at h

theorem setID_error {c : Client} {id : IDString} {e : SetErr} (h : setID c id = .error e) :
    id.ident = none := by
  unfold setID at h
  unfold IDString.ident
  by_cases he : id.raw = []
  · simp [he]
  · simp only [he, if_false] at h ⊢
    cases hip : id.asIP with
    | some ip => rw [hip] at h; cases h
    | none =>
      rw [hip] at h
      simp only at h ⊢
      cases hp : id.asPrefix with
      | some p => rw [hp] at h; cases h
      | none =>
        rw [hp] at h
        simp only at h ⊢
        cases hm : id.asMAC with
        | some m => rw [hm] at h; cases h
        | none =>
          rw [hm] at h
          simp only at h ⊢
          by_cases hv : C16.validLabel id.raw = true
          · simp [hv] at h
          · simp [hv]

theorem setIDsLoop_spec {c c' : Client} {ids : List IDString} (h : setIDsLoop c ids = .ok c') :
    c'.name = c.name ∧ c'.uid = c.uid ∧ (∀ id ∈ ids, id.ident.isSome = true) ∧
    ∀ x, x ∈ c'.idents ↔ (x ∈ c.idents ∨ ∃ id ∈ ids, id.ident = some x) := by
  induction ids generalizing c with
  | nil =>
    simp only [setIDsLoop, Except.ok.injEq] at h
    subst h
    simp
  | cons id rest ih =>
    unfold setIDsLoop at h
    cases hs : setID c id with
    | error e => rw [hs] at h; cases h
    | ok c1 =>
      rw [hs] at h
      obtain ⟨hn1, hu1, k, hk, hmem1⟩ := setID_spec hs
      obtain ⟨hn, hu, hall, hmem⟩ := ih h
      refine ⟨hn.trans hn1, hu.trans hu1, ?_, ?_⟩
      · intro i hi
        rcases List.mem_cons.mp hi with rfl | hi
        · simp [hk]
        · exact hall i hi
      · intro x
        rw [hmem x, hmem1 x]
        constructor
        · rintro ((h1 | h1) | ⟨i, hi, hix⟩)
          · exact Or.inl h1
          · exact Or.inr ⟨id, List.mem_cons_self, by rw [hk, h1]⟩
          · exact Or.inr ⟨i, List.mem_cons_of_mem _ hi, hix⟩
        · rintro (h1 | ⟨i, hi, hix⟩)
          · exact Or.inl (Or.inl h1)
          · rcases List.mem_cons.mp hi with rfl | hi
            · rw [hk] at hix
              exact Or.inl (Or.inr (Option.some.inj hix).symm)
            · exact Or.inr ⟨i, hi, hix⟩

theorem setIDsLoop_error {c : Client} {ids : List IDString} {e : SetErr} (h : setIDsLoop c ids = .error e) :
    ∃ id ∈ ids, id.ident = none := by
  induction ids generalizing c with
  | nil => simp [setIDsLoop] at h
  | cons id rest ih =>
    unfold setIDsLoop at h
    cases hs : setID c id with
    | error e' => exact ⟨id, List.mem_cons_self, setID_error hs⟩
    | ok c1 =>
      rw [hs] at h
      obtain ⟨i, hi, hin⟩ := ih h
      exact ⟨i, List.mem_cons_of_mem _ hi, hin⟩

/-- Sorting the four lists does not change who the client is known by. -/
theorem idents_sorted (c : Client) (x : Ident) :
    x ∈ ({ c with
      ips := sortBy ipLt c.ips
      subnets := sortBy (fun x y => subnetCompare x y == .lt) c.subnets
      macs := sortBy (fun x y => compare x y == .lt) c.macs
      cids := sortBy (fun x y => compare x y == .lt) c.cids } : Client).idents ↔ x ∈ c.idents := by
  cases x <;> simp [Client.idents, mem_sortBy]

end AGH.C04
