/-
C04 lemmas, part 5: `Storage.Add` / `Update` / `RemoveByName` under the
invariant.  Core Lean only.
-/
import AGH.Lemmas.ClientsStep
namespace AGH.C04
open AGH AGH.Bytes
open AGH.C03 (IP Prefix)

theorem free_none {κ : Type} {m : FMap κ} {cl : List Client} {ids : Client → List κ}
    (hm : MapInv m cl ids) {uid : UID} (hfresh : ∀ d ∈ cl, d.uid ≠ uid) {ks : List κ}
    (hf : FreeFor m uid ks) : ∀ k ∈ ks, m k = none := by
  intro k hk
  cases hv : m k with
  | none => rfl
  | some u =>
    have hu := hf k hk u hv
    obtain ⟨c, hc, hcu, _⟩ := (hm k u).mp hv
    exact absurd (hcu.trans hu) (hfresh c hc)

theorem free_after_remove {κ : Type} [DecidableEq κ] {m : FMap κ} {cl : List Client}
    {ids : Client → List κ} (hm : MapInv m cl ids) (hu : UidsDistinct cl) {stored : Client}
    (hs : stored ∈ cl) {ks : List κ} (hf : FreeFor m stored.uid ks) :
    ∀ k ∈ ks, (m.delAll (ids stored)) k = none := by
  intro k hk
  rw [FMap.delAll_apply]
  by_cases hks : k ∈ ids stored
  · simp [hks]
  · simp only [hks, if_false]
    cases hv : m k with
    | none => rfl
    | some u =>
      have hu' := hf k hk u hv
      obtain ⟨c, hc, hcu, hkc⟩ := (hm k u).mp hv
      have : c = stored := hu.eq_of_uid hc hs (hcu.trans hu')
      subst this
      exact absurd hkc hks

/-- `Storage.Add` that succeeded. -/
theorem Storage.add_ok {s s' : Storage} {p : Client} (h : Inv s.index) (hs : s.add p = (s', .ok)) :
    p.validate = none ∧ (∀ d ∈ s.index.clients, d.uid ≠ p.uid) ∧ NoClash s.index p ∧
    Inv s'.index ∧ s'.index.clients = s.index.clients ++ [p] ∧ s'.dhcp = s.dhcp := by
  unfold Storage.add at hs
  cases hv : p.validate with
  | some e => rw [hv] at hs; simp at hs
  | none =>
    rw [hv] at hs
    simp only at hs
    cases hc : s.index.client p.uid with
    | some c => rw [hc] at hs; simp at hs
    | none =>
      rw [hc] at hs
      simp only [Option.isSome_none, Bool.false_eq_true, if_false] at hs
      have hfresh := Index.client_eq_none.mp hc
      cases hcl : s.index.clashes p with
      | err e => rw [hcl] at hs; simp at hs
      | panic => rw [hcl] at hs; simp at hs
      | ok =>
        rw [hcl] at hs
        simp only [Prod.mk.injEq, and_true] at hs
        subst hs
        have hnc := ((h.clashes_spec p).1.mp hcl).1
        have := h.add p hfresh
          (by have := free_none h.names hfresh hnc.name; exact this p.name (by simp))
          (free_none h.cids hfresh hnc.cids) (free_none h.ips hfresh hnc.ips)
          (free_none h.subs hfresh hnc.subs) (free_none h.macs hfresh hnc.macs)
        exact ⟨rfl, hfresh, hnc, this.1, this.2, rfl⟩

/-- A rejected (or crashed) `Add` leaves the storage as it was. -/
theorem Storage.add_rejected (s : Storage) (p : Client) (h : (s.add p).2 ≠ .ok) : (s.add p).1 = s := by
  unfold Storage.add at h ⊢
  cases hv : p.validate with
  | some e => rfl
  | none =>
    simp only [hv] at h ⊢
    cases hc : (s.index.client p.uid).isSome with
    | true => simp
    | false =>
      simp only [hc, Bool.false_eq_true, if_false] at h ⊢
      cases hcl : s.index.clashes p with
      | ok => rw [hcl] at h; simp at h
      | err e => rfl
      | panic => rfl

theorem Storage.add_panic {s : Storage} {p : Client} (h : Inv s.index) (hp : (s.add p).2 = .panic) :
    ∃ m ∈ p.macs, macOK m = false := by
  unfold Storage.add at hp
  cases hv : p.validate with
  | some e => rw [hv] at hp; simp at hp
  | none =>
    simp only [hv] at hp
    cases hc : (s.index.client p.uid).isSome with
    | true => simp [hc] at hp
    | false =>
      simp only [hc, Bool.false_eq_true, if_false] at hp
      cases hcl : s.index.clashes p with
      | ok => rw [hcl] at hp; simp at hp
      | err e => rw [hcl] at hp; simp at hp
      | panic => exact (h.clashes_spec p).2 hcl

/-- `Storage.Update` that succeeded. -/
theorem Storage.update_ok {s s' : Storage} {n : Bytes} {p : Client} (h : Inv s.index)
    (hs : s.update n p = (s', .ok)) :
    ∃ stored, stored ∈ s.index.clients ∧ stored.name = n ∧ p.validate = none ∧
      NoClash s.index { p with uid := stored.uid } ∧ Inv s'.index ∧
      s'.index.clients =
        s.index.clients.filter (·.uid != stored.uid) ++ [{ p with uid := stored.uid }] ∧
      s'.dhcp = s.dhcp := by
  unfold Storage.update at hs
  cases hv : p.validate with
  | some e => rw [hv] at hs; simp at hs
  | none =>
    rw [hv] at hs
    simp only at hs
    have hnm := h.deref_name (n := n)
    cases hf : s.index.findByName n with
    | none => rw [hf] at hs; simp at hs
    | dangling => exact absurd hf hnm.2.2
    | found stored =>
      rw [hf] at hs
      simp only at hs
      have hst := (hnm.2.1 stored).mp hf
      cases hcl : s.index.clashes { p with uid := stored.uid } with
      | err e => rw [hcl] at hs; simp at hs
      | panic => rw [hcl] at hs; simp at hs
      | ok =>
        rw [hcl] at hs
        simp only at hs
        have hnc := ((h.clashes_spec { p with uid := stored.uid }).1.mp hcl).1
        obtain ⟨ci1, hr, hi1, hcl1, hn1, hc1, hip1, hm1, hs1⟩ := h.remove hst.1
        rw [hr] at hs
        simp only [Prod.mk.injEq, and_true] at hs
        subst hs
        have hfresh : ∀ d ∈ ci1.clients, d.uid ≠ ({ p with uid := stored.uid } : Client).uid := by
          intro d hd
          rw [hcl1] at hd
          have := (List.mem_filter.mp hd).2
          simpa using this
        have hadd := hi1.add { p with uid := stored.uid } hfresh
          (by rw [hn1]
              exact free_after_remove (ids := fun c => [c.name]) h.names h.uids hst.1 hnc.name p.name (by simp))
          (by rw [hc1]; exact free_after_remove h.cids h.uids hst.1 hnc.cids)
          (by rw [hip1]; exact free_after_remove h.ips h.uids hst.1 hnc.ips)
          (by rw [hs1]; exact free_after_remove h.subs h.uids hst.1 hnc.subs)
          (by rw [hm1]; exact free_after_remove h.macs h.uids hst.1 hnc.macs)
        refine ⟨stored, hst.1, hst.2, rfl, hnc, hadd.1, ?_, rfl⟩
        rw [hadd.2, hcl1]

theorem Storage.update_rejected (s : Storage) (n : Bytes) (p : Client) (h : (s.update n p).2 ≠ .ok) :
    (s.update n p).1 = s := by
  unfold Storage.update at h ⊢
  cases hv : p.validate with
  | some e => rfl
  | none =>
    simp only [hv] at h ⊢
    cases hf : s.index.findByName n with
    | none => rfl
    | dangling => rfl
    | found stored =>
      simp only [hf] at h ⊢
      cases hcl : s.index.clashes { p with uid := stored.uid } with
      | err e => rfl
      | panic => rfl
      | ok =>
        simp only [hcl] at h ⊢
        cases hr : s.index.remove stored with
        | none => rfl
        | some idx => rw [hr] at h; simp at h

theorem Storage.update_panic {s : Storage} {n : Bytes} {p : Client} (h : Inv s.index)
    (hp : (s.update n p).2 = .panic) : ∃ m ∈ p.macs, macOK m = false := by
  unfold Storage.update at hp
  cases hv : p.validate with
  | some e => rw [hv] at hp; simp at hp
  | none =>
    simp only [hv] at hp
    have hnm := h.deref_name (n := n)
    cases hf : s.index.findByName n with
    | none => rw [hf] at hp; simp at hp
    | dangling => exact absurd hf hnm.2.2
    | found stored =>
      simp only [hf] at hp
      have hst := (hnm.2.1 stored).mp hf
      cases hcl : s.index.clashes { p with uid := stored.uid } with
      | err e => rw [hcl] at hp; simp at hp
      | panic => exact (h.clashes_spec { p with uid := stored.uid }).2 hcl
      | ok =>
        simp only [hcl] at hp
        obtain ⟨ci1, hr, _⟩ := h.remove hst.1
        rw [hr] at hp; simp at hp

/-- `Storage.RemoveByName` that found the client. -/
theorem Storage.remove_ok {s s' : Storage} {n : Bytes} (h : Inv s.index)
    (hs : s.removeByName n = (s', .ok)) :
    ∃ stored, stored ∈ s.index.clients ∧ stored.name = n ∧ Inv s'.index ∧
      s'.index.clients = s.index.clients.filter (·.uid != stored.uid) ∧ s'.dhcp = s.dhcp := by
  unfold Storage.removeByName at hs
  have hnm := h.deref_name (n := n)
  cases hf : s.index.findByName n with
  | none => rw [hf] at hs; simp at hs
  | dangling => exact absurd hf hnm.2.2
  | found stored =>
    rw [hf] at hs
    simp only at hs
    have hst := (hnm.2.1 stored).mp hf
    obtain ⟨ci1, hr, hi1, hcl1, _⟩ := h.remove hst.1
    rw [hr] at hs
    simp only [Prod.mk.injEq, and_true] at hs
    subst hs
    exact ⟨stored, hst.1, hst.2, hi1, hcl1, rfl⟩

theorem Storage.remove_rejected (s : Storage) (n : Bytes) (h : (s.removeByName n).2 ≠ .ok) :
    (s.removeByName n).1 = s := by
  unfold Storage.removeByName at h ⊢
  cases hf : s.index.findByName n with
  | none => rfl
  | dangling => rfl
  | found stored =>
    simp only [hf] at h ⊢
    cases hr : s.index.remove stored with
    | none => rfl
    | some idx => rw [hr] at h; simp at h

theorem Storage.remove_res {s : Storage} {n : Bytes} (h : Inv s.index) :
    (s.removeByName n).2 = .ok ∨ (s.removeByName n).2 = .err .notFound := by
  unfold Storage.removeByName
  have hnm := h.deref_name (n := n)
  cases hf : s.index.findByName n with
  | none => simp
  | dangling => exact absurd hf hnm.2.2
  | found stored =>
    simp only
    have hst := (hnm.2.1 stored).mp hf
    obtain ⟨ci1, hr, _⟩ := h.remove hst.1
    rw [hr]; simp

/-- Every operation keeps the invariant. -/
theorem step_inv {s : Storage} (h : Inv s.index) (op : Op) : Inv (step s op).1.index := by
  cases op with
  | add c =>
    simp only [step]
    cases hr : (s.add c).2 with
    | ok =>
      have : s.add c = ((s.add c).1, .ok) := by rw [← hr]
      exact (Storage.add_ok h this).2.2.2.1
    | err e => rw [Storage.add_rejected s c (by rw [hr]; simp)]; exact h
    | panic => rw [Storage.add_rejected s c (by rw [hr]; simp)]; exact h
  | update n c =>
    simp only [step]
    cases hr : (s.update n c).2 with
    | ok =>
      have : s.update n c = ((s.update n c).1, .ok) := by rw [← hr]
      obtain ⟨_, _, _, _, _, hi, _⟩ := Storage.update_ok h this
      exact hi
    | err e => rw [Storage.update_rejected s n c (by rw [hr]; simp)]; exact h
    | panic => rw [Storage.update_rejected s n c (by rw [hr]; simp)]; exact h
  | remove n =>
    simp only [step]
    cases hr : (s.removeByName n).2 with
    | ok =>
      have : s.removeByName n = ((s.removeByName n).1, .ok) := by rw [← hr]
      obtain ⟨_, _, _, hi, _⟩ := Storage.remove_ok h this
      exact hi
    | err e => rw [Storage.remove_rejected s n (by rw [hr]; simp)]; exact h
    | panic => rw [Storage.remove_rejected s n (by rw [hr]; simp)]; exact h
  | dhcpSet ip mac => exact h
  | dhcpDel ip => exact h

theorem run_inv {s : Storage} (h : Inv s.index) (ops : List Op) : Inv (run s ops).index := by
  induction ops generalizing s with
  | nil => exact h
  | cons op rest ih => exact ih (step_inv h op)

end AGH.C04
