/-
C10 — helper lemmas, part 10: the hostname index stays COMPLETE (every named
lease is what its name resolves to) as long as `commitLease` does not fall
back to a generated name that is already indexed for another lease (R3).
-/
import AGH.Lemmas.DHCPStatics
namespace AGH.C10
open AGH

/-- Every named lease of the table is what its name resolves to. -/
def HostComplete (s : State) : Prop := ∀ l ∈ s.leases, l.host ≠ [] → s.hosts l.host = some l.id

/-- Invariant and complete hostname index together. -/
def Inv2 (c : Conf) (s : State) : Prop := Inv c s ∧ HostComplete s

theorem HC_congr {s s' : State} (h : HostComplete s) (h1 : s'.leases = s.leases) (h2 : s'.hosts = s.hosts) :
    HostComplete s' := by
  unfold HostComplete at *
  rw [h1, h2]; exact h

theorem Inv2_congr {c : Conf} {s s' : State} (h : Inv2 c s)
    (h1 : s'.leases = s.leases) (h2 : s'.bits = s.bits) (h3 : s'.ips = s.ips) (h4 : s'.hosts = s.hosts)
    (h5 : s'.nextId = s.nextId) (h6 : s'.disk = s.disk) : Inv2 c s' :=
  ⟨Inv_congr h.1 h1 h2 h3 h4 h5 h6, HC_congr h.2 h1 h4⟩

theorem Inv2_store {c : Conf} {s : State} (h : Inv2 c s) : Inv2 c s.store :=
  ⟨Inv_store h.1, HC_congr h.2 rfl rfl⟩

theorem Inv2_fresh {c : Conf} {s : State} (h : Inv2 c s) : Inv2 c s.fresh.2 :=
  ⟨Inv_fresh h.1, HC_congr h.2 rfl rfl⟩

theorem Inv2_rm {c : Conf} {s : State} {A B : List Lease} {l : Lease} (X : List Lease)
    (h : Inv2 c { s with leases := A ++ l :: B }) : Inv2 c { rmSide c l X s with leases := A ++ B } := by
  refine ⟨Inv_rm X h.1, ?_⟩
  intro y hy hne
  have hid := (nodup_map_middle h.1.idNodup).2 y hy
  have hyc := h.2 y (mem_middle.2 (.inr hy)) hne
  show setFn s.hosts l.host none y.host = some y.id
  by_cases hk : y.host = l.host
  · exfalso
    have hlc := h.2 l (mem_middle.2 (.inl rfl)) (by rw [← hk]; exact hne)
    have h1 : s.hosts y.host = some y.id := hyc
    have h2 : s.hosts l.host = some l.id := hlc
    rw [hk, h2] at h1
    exact hid (by simpa using h1.symm)
  · rw [setFn_other _ _ _ hk]; exact hyc

theorem Inv2_clear {c : Conf} {s : State} {A B : List Lease} {l : Lease}
    (h : Inv2 c { s with leases := A ++ l :: B }) :
    Inv2 c { (if l.host ≠ [] ∧ s.hosts l.host = some l.id then s.delHost l.host else s) with
      leases := A ++ { l with host := [] } :: B } := by
  refine ⟨Inv_clear h.1, ?_⟩
  intro y hy hne
  rcases mem_middle.1 hy with rfl | hy'
  · exact absurd rfl hne
  · have hid := (nodup_map_middle h.1.idNodup).2 y hy'
    have hyc : s.hosts y.host = some y.id := h.2 y (mem_middle.2 (.inr hy')) hne
    by_cases hd : l.host ≠ [] ∧ s.hosts l.host = some l.id
    · rw [if_pos hd]
      show setFn s.hosts l.host none y.host = some y.id
      by_cases hk : y.host = l.host
      · exfalso
        rw [hk, hd.2] at hyc
        exact hid (by simpa using hyc.symm)
      · rw [setFn_other _ _ _ hk]; exact hyc
    · rw [if_neg hd]; exact hyc

theorem Inv2_add {c : Conf} {s s' : State} {l : Lease} (h : Inv2 c s)
    (hadd : addLease c l s = .ok s')
    (hip : ∀ y ∈ s.leases, y.ip ≠ l.ip) (hmac : ∀ y ∈ s.leases, y.mac ≠ l.mac)
    (hidlt : l.id < s.nextId) (hidfresh : ∀ y ∈ s.leases, y.id ≠ l.id) :
    Inv2 c s' := by
  refine ⟨Inv_add h.1 hadd hip hmac hidlt hidfresh, ?_⟩
  have hfree : l.host ≠ [] → s.hosts l.host = none := by
    intro hne
    unfold addLease at hadd
    by_cases h3 : l.host ≠ [] ∧ (s.hosts l.host).isSome
    · simp only [h3, ne_eq, not_false_eq_true, and_self, if_true] at hadd
      split at hadd
      · cases hadd
      · split at hadd <;> cases hadd
    · cases hh : s.hosts l.host with
      | none => rfl
      | some _ => exact absurd ⟨hne, by simp [hh]⟩ h3
  obtain ⟨_, rfl⟩ := addLease_ok hadd
  intro y hy hne
  have hy' : y ∈ s.leases ∨ y = l := by
    have : y ∈ s.leases ++ [l] := hy
    simpa using this
  show (if l.host ≠ [] then setFn s.hosts l.host (some l.id) else s.hosts) y.host = some y.id
  rcases hy' with hy' | rfl
  · have hyc := h.2 y hy' hne
    by_cases hl : l.host ≠ []
    · rw [if_pos hl]
      have : y.host ≠ l.host := by
        intro e; rw [e, hfree hl] at hyc; cases hyc
      rw [setFn_other _ _ _ this]; exact hyc
    · rw [if_neg hl]; exact hyc
  · rw [if_pos hne, setFn_same]

theorem Inv2_setMac {c : Conf} {s : State} {A B : List Lease} {l : Lease} (m : Bytes)
    (h : Inv2 c { s with leases := A ++ l :: B }) (hm : ∀ y ∈ A ++ B, y.mac ≠ m) :
    Inv2 c { s with leases := A ++ { l with mac := m } :: B } := by
  refine ⟨Inv_setMac m h.1 hm, ?_⟩
  intro y hy hne
  rcases mem_middle.1 hy with rfl | hy'
  · exact h.2 l (mem_middle.2 (.inl rfl)) hne
  · exact h.2 y (mem_middle.2 (.inr hy')) hne

/-- Renaming keeps the index complete when the new name is free or already this lease's. -/
theorem Inv2_rename {c : Conf} {s : State} {l : Lease} (hn : Bytes) (e : Nat) (h : Inv2 c s) (hl : l ∈ s.leases)
    (hfree : hn = [] ∨ s.hosts hn = none ∨ s.hosts hn = some l.id) : Inv2 c (renameLease l hn e s) := by
  refine ⟨renameLease_inv hn e h.1 hl, ?_⟩
  obtain ⟨A, B, hs⟩ := List.append_of_mem hl
  have hidn : ((A ++ l :: B).map (·.id)).Nodup := by rw [← hs]; exact h.1.idNodup
  have hle : (renameLease l hn e s).leases = A ++ { l with host := hn, exp := e } :: B := by
    rw [(renameLease_frame l hn e).1, hs, mapId_split hidn]
  have hho : (renameLease l hn e s).hosts =
      if hn ≠ [] then setFn (if l.host ≠ [] ∧ l.host ≠ hn then setFn s.hosts l.host none else s.hosts) hn (some l.id)
      else (if l.host ≠ [] ∧ l.host ≠ hn then setFn s.hosts l.host none else s.hosts) := by
    unfold renameLease
    simp only []
    by_cases hd : l.host ≠ [] ∧ l.host ≠ hn <;> by_cases hne : hn ≠ [] <;>
      simp [State.setHost, State.delHost, State.update, hd, hne]
  intro y hy hne
  rw [hle] at hy
  rw [hho]
  rcases mem_middle.1 hy with rfl | hy'
  · have hne' : hn ≠ [] := hne
    rw [if_pos hne', setFn_same]
  · have hid := (nodup_map_middle hidn).2 y hy'
    have hyin : y ∈ s.leases := by rw [hs]; exact mem_middle.2 (.inr hy')
    have hyc : s.hosts y.host = some y.id := h.2 y hyin hne
    have hstep1 : (if l.host ≠ [] ∧ l.host ≠ hn then setFn s.hosts l.host none else s.hosts) y.host = some y.id := by
      by_cases hd : l.host ≠ [] ∧ l.host ≠ hn
      · rw [if_pos hd]
        have : y.host ≠ l.host := by
          intro e1
          have hlc := h.2 l hl hd.1
          rw [e1, hlc] at hyc
          exact hid (by simpa using hyc.symm)
        rw [setFn_other _ _ _ this]; exact hyc
      · rw [if_neg hd]; exact hyc
    by_cases hnn : hn ≠ []
    · rw [if_pos hnn]
      have : y.host ≠ hn := by
        intro e1
        rcases hfree with hf | hf | hf
        · exact hnn hf
        · rw [e1, hf] at hyc; cases hyc
        · rw [e1, hf] at hyc; exact hid (by simpa using hyc.symm)
      rw [setFn_other _ _ _ this]; exact hstep1
    · rw [if_neg hnn]; exact hstep1

theorem Inv2_setIP_same {c : Conf} {s : State} (h : Inv2 c s) {y : Lease} (hy : y ∈ s.leases) :
    Inv2 c (s.setIP y.ip y.id) := ⟨Inv_setIP_same h.1 hy, HC_congr h.2 rfl rfl⟩

/-! ### loops -/

theorem rmDynLoop_inv2 (c : Conf) (mac : Bytes) (ip : Nat) (host : Bytes) :
    ∀ (todo pre : List Lease) (s : State), Inv2 c { s with leases := pre ++ todo } →
      Inv2 c (rmDynLoop c mac ip host pre todo s).1 := by
  intro todo
  induction todo with
  | nil => intro pre s h; simpa [rmDynLoop] using h
  | cons l rest ih =>
    intro pre s h
    unfold rmDynLoop
    split
    · split
      · exact h
      · exact ih pre _ (Inv2_rm _ h)
    · split
      · have := Inv2_clear h
        refine ih (pre ++ [{ l with host := [] }]) _ ?_
        simpa [List.append_assoc] using this
      · refine ih (pre ++ [l]) s ?_
        simpa [List.append_assoc] using h

theorem rmDynamicLease_inv2 {c : Conf} {s : State} (mac : Bytes) (ip : Nat) (host : Bytes) (h : Inv2 c s) :
    Inv2 c (rmDynamicLease c mac ip host s).1 :=
  rmDynLoop_inv2 c mac ip host s.leases [] s (by simpa using h)

/-- `rmDynamicLease` only deletes index entries. -/
theorem rmDynLoop_hosts_none (c : Conf) (mac : Bytes) (ip : Nat) (host : Bytes) (k : Bytes) :
    ∀ (todo pre : List Lease) (s : State), s.hosts k = none → (rmDynLoop c mac ip host pre todo s).1.hosts k = none := by
  intro todo
  induction todo with
  | nil => intro pre s h; simpa [rmDynLoop] using h
  | cons l rest ih =>
    intro pre s h
    unfold rmDynLoop
    split
    · split
      · exact h
      · refine ih pre _ ?_
        show setFn s.hosts l.host none k = none
        by_cases hk : k = l.host
        · rw [hk, setFn_same]
        · rw [setFn_other _ _ _ hk]; exact h
    · split
      · refine ih _ _ ?_
        split
        · show setFn s.hosts l.host none k = none
          by_cases hk : k = l.host
          · rw [hk, setFn_same]
          · rw [setFn_other _ _ _ hk]; exact h
        · exact h
      · exact ih _ _ h

/-- After an error-free `rmDynamicLease` for a lease of the table, that lease's name is free. -/
theorem rmDynLoop_frees_name (c : Conf) (mac : Bytes) (ip : Nat) (host : Bytes) (old : Lease) :
    ∀ (todo pre : List Lease) (s : State), old ∈ todo → old.mac = mac →
      (rmDynLoop c mac ip host pre todo s).2 = false →
      (rmDynLoop c mac ip host pre todo s).1.hosts old.host = none := by
  intro todo
  induction todo with
  | nil => intro pre s h; cases h
  | cons l rest ih =>
    intro pre s hmem hmac
    unfold rmDynLoop
    rcases List.mem_cons.1 hmem with rfl | hmem'
    · have : (old.mac == mac || old.ip == ip) = true := by simp [hmac]
      rw [if_pos this]
      split
      · intro hf; cases hf
      · intro _
        apply rmDynLoop_hosts_none
        show setFn s.hosts old.host none old.host = none
        rw [setFn_same]
    · split
      · split
        · intro hf; cases hf
        · exact ih pre _ hmem' hmac
      · split
        · exact ih _ _ hmem' hmac
        · exact ih _ _ hmem' hmac

/-! ### operations -/

theorem allocate_inv2 {c : Conf} {s : State} {mac : Bytes} (h : Inv2 c s)
    (hmac : ∀ y ∈ s.leases, y.mac ≠ mac) :
    Inv2 c (allocateLease c mac s).1 ∧ (allocateLease c mac s).1.hosts = s.hosts := by
  unfold allocateLease
  cases hn : nextIP c s with
  | none =>
    simp only []
    cases hf : findExpired s.now s.leases with
    | none => exact ⟨h, rfl⟩
    | some l =>
      simp only []
      obtain ⟨hl, _, _⟩ := findExpired_some hf
      obtain ⟨A, B, hs⟩ := List.append_of_mem hl
      have hupd : (s.update l.id (fun x => { x with mac := mac })) =
          { s with leases := A ++ { l with mac := mac } :: B } := by
        unfold State.update
        rw [hs, mapId_split (by rw [← hs]; exact h.1.idNodup)]
      have h' : Inv2 c { s with leases := A ++ l :: B } := by rw [← hs]; exact h
      have hAB : ∀ y ∈ A ++ B, y.mac ≠ mac := fun y hy => hmac y (by rw [hs]; exact mem_middle.2 (.inr hy))
      rw [hupd]
      exact ⟨Inv2_setMac mac h' hAB, rfl⟩
  | some ip =>
    simp only []
    unfold nextIP at hn
    cases hfc : firstClear s.bits (c.stop + 1 - c.start) 0 with
    | none => rw [hfc] at hn; cases hn
    | some o =>
      rw [hfc] at hn
      simp only [Option.map_some, Option.some.injEq] at hn
      obtain ⟨_, ho2, ho3⟩ := firstClear_some s.bits _ _ _ hfc
      have hip1 : c.start ≤ ip := by omega
      have hip2 : ip ≤ c.stop := by omega
      have hfree : ∀ y ∈ s.leases, y.ip ≠ ip := by
        intro y hy he
        have : s.bits o = true := (h.1.bitsIff o).2 ⟨y, hy, by omega, by omega⟩
        rw [ho3] at this; cases this
      have hoff : offset c ip = some (ip - c.start) := offset_eq_some.2 ⟨hip1, hip2, rfl⟩
      have hadd : addLease c { id := s.nextId, mac := mac, ip := ip, host := [], static := false, exp := 0 } s.fresh.2 =
          .ok (addLeaseOK c { id := s.nextId, mac := mac, ip := ip, host := [], static := false, exp := 0 } s.fresh.2) := by
        unfold addLease
        simp [hoff]
      rw [hadd]
      simp only []
      refine ⟨Inv2_add (Inv2_fresh h) hadd hfree hmac (by simp [State.fresh]) ?_, ?_⟩
      · intro y hy
        have : y.id < s.nextId := h.1.idLt y hy
        show y.id ≠ s.nextId
        omega
      · simp [addLeaseOK, State.fresh]

theorem commitLease_inv2 {O : Oracle} {c : Conf} {s : State} {l : Lease} (hostname : Bytes) (h : Inv2 c s)
    (hl : l ∈ s.leases)
    (hfree : commitName O c l hostname s = [] ∨ s.hosts (commitName O c l hostname s) = none ∨
      s.hosts (commitName O c l hostname s) = some l.id) : Inv2 c (commitLease O c l hostname s) := by
  unfold commitLease
  have hi := Inv2_rename (commitName O c l hostname s) (s.now + c.leaseTime) h hl hfree
  obtain ⟨A, B, hs⟩ := List.append_of_mem hl
  have hle := (renameLease_frame (s := s) l (commitName O c l hostname s) (s.now + c.leaseTime)).1
  rw [hs, mapId_split (by rw [← hs]; exact h.1.idNodup)] at hle
  have hmem : ({ l with host := commitName O c l hostname s, exp := s.now + c.leaseTime } : Lease) ∈
      (renameLease l (commitName O c l hostname s) (s.now + c.leaseTime) s).leases := by
    rw [hle]; exact mem_middle.2 (.inl rfl)
  exact Inv2_setIP_same hi (y := { l with host := commitName O c l hostname s, exp := s.now + c.leaseTime }) hmem

/-- The R3 pattern: a REQUEST commits a lease that has no name yet, the name
the client asks for (or the generated one, for an empty request) is taken, and
the generated name `commitLease` falls back to is indexed for another lease. -/
def R3at (O : Oracle) (c : Conf) (s : State) : Op → Prop
  | .request mac sid rp rip ci hn =>
    ∃ l, (handleByRequestType c mac sid rp rip ci { s with stale := [] }).1 = some l ∧ l.static = false ∧ l.host = [] ∧
      (s.hosts (validHost O hn l.ip)).isSome = true ∧ ∃ id, s.hosts (genHost l.ip) = some id ∧ id ≠ l.id
  | _ => False

theorem handleDiscover_inv2 {c : Conf} {s : State} {mac : Bytes} (h : Inv2 c s) :
    Inv2 c (handleDiscover c mac s).1 := by
  unfold handleDiscover
  cases hf : findLease mac s with
  | some l => exact Inv2_store h
  | none =>
    simp only []
    have hsp := (allocate_inv2 h (findLease_none hf)).1
    rcases hal : allocateLease c mac s with ⟨s1, r⟩
    rw [hal] at hsp
    rcases r with _ | _ | l <;> exact Inv2_store hsp

theorem handleRequest_inv2 {O : Oracle} {c : Conf} {s : State} {mac : Bytes} {sid : Nat} {rp : Bool} {rip ci : Nat}
    {hn : Bytes} (h : Inv2 c s)
    (hno : c.fixR3 = true ∨ ¬ ∃ l, (handleByRequestType c mac sid rp rip ci s).1 = some l ∧ l.static = false ∧ l.host = [] ∧
      (s.hosts (validHost O hn l.ip)).isSome = true ∧ ∃ id, s.hosts (genHost l.ip) = some id ∧ id ≠ l.id) :
    Inv2 c (handleRequest O c mac sid rp rip ci hn s).1 := by
  unfold handleRequest
  rcases hb : handleByRequestType c mac sid rp rip ci s with ⟨lo, b⟩
  rw [hb] at hno
  rcases lo with _ | l
  · cases b <;> exact h
  · simp only []
    obtain ⟨hl, _⟩ := hbrt_some hb
    split
    · exact Inv2_store h
    · next hs =>
      have hd : l.static = false := by simpa using hs
      refine Inv2_store (commitLease_inv2 hn h hl ?_)
      unfold commitName
      simp only []
      by_cases htaken : (s.hosts (validHost O hn l.ip)).isSome = true
      · rw [if_pos htaken]
        by_cases hlh : l.host = []
        · rw [if_pos hlh]
          cases hg : s.hosts (genHost l.ip) with
          | none =>
            simp only [Bool.and_false, Bool.false_eq_true, if_false]
            exact .inr (.inl hg)
          | some id =>
            simp only []
            by_cases hid : id = l.id
            · have : (id != l.id) = false := by simp [hid]
              simp only [this, Bool.and_false, Bool.false_eq_true, if_false]
              exact .inr (.inr (by rw [hg, hid]))
            · have : (id != l.id) = true := by simpa using hid
              cases hfx : c.fixR3
              · simp only [this, Bool.false_and, Bool.false_eq_true, if_false]
                rcases hno with hno | hno
                · rw [hfx] at hno; cases hno
                · exact absurd ⟨l, rfl, hd, hlh, htaken, id, hg, hid⟩ hno
              · simp only [this, Bool.and_self, if_true]
                exact .inl trivial
        · rw [if_neg hlh]
          exact .inr (.inr (h.2 l hl hlh))
      · rw [if_neg htaken]
        cases hv : s.hosts (validHost O hn l.ip) with
        | none => exact .inr (.inl rfl)
        | some _ => exact absurd (by simp [hv]) htaken

theorem handleDecline_inv2 {c : Conf} {s : State} {mac : Bytes} {rp : Bool} {rip ci : Nat} (h : Inv2 c s) : Inv2 c (handleDecline c mac rp rip ci s).1 := by
  unfold handleDecline
  simp only []
  cases hf : s.leases.find? (fun l => l.mac == mac && l.ip == msgIP rp rip ci) with
  | none => exact Inv2_store h
  | some old =>
    simp only []
    have hold : old.mac = mac := by
      have := List.find?_some hf
      simp only [Bool.and_eq_true, beq_iff_eq] at this
      exact this.1
    have holdmem : old ∈ s.leases := List.mem_of_find?_eq_some hf
    have hi1 := rmDynamicLease_inv2 old.mac old.ip old.host h
    have hclean := rmDynLoop_clean c old.mac old.ip old.host s.leases [] s (by intro x hx; cases hx)
    have hfreed := rmDynLoop_frees_name c old.mac old.ip old.host old s.leases [] s holdmem rfl
    rcases hr : rmDynamicLease c old.mac old.ip old.host s with ⟨s1, e⟩
    rw [hr] at hi1
    cases e with
    | true => exact Inv2_store hi1
    | false =>
      simp only []
      have hm1 : ∀ y ∈ s1.leases, y.mac ≠ mac := by
        intro y hy
        have := hclean (by unfold rmDynamicLease at hr; rw [hr]) y (by unfold rmDynamicLease at hr; rw [hr]; exact hy)
        rw [← hold]; exact this.1
      have hname : s1.hosts old.host = none := by
        have := hfreed (by unfold rmDynamicLease at hr; rw [hr])
        unfold rmDynamicLease at hr; rw [hr] at this; exact this
      have hsp := allocate_spec hi1.1 hm1
      have hsp2 := allocate_inv2 hi1 hm1
      rcases hal : allocateLease c mac s1 with ⟨s2, r⟩
      rw [hal] at hsp hsp2
      obtain ⟨_, _, _, hor⟩ := hsp
      obtain ⟨hi2, hhosts⟩ := hsp2
      rcases r with _ | _ | nl
      · exact Inv2_store hi2
      · exact Inv2_store hi2
      · simp only []
        rcases hor with ⟨hx, _⟩ | ⟨l, A, B, hl1, hl2, _⟩
        · cases hx
        · simp only [Option.some.injEq] at hl1
          subst hl1
          refine Inv2_store (Inv2_rename _ _ hi2 (by rw [hl2]; exact mem_middle.2 (.inl rfl)) ?_)
          exact .inr (.inl (by show s2.hosts old.host = none; rw [hhosts]; exact hname))

theorem releaseLoop_inv2 (c : Conf) (mac : Bytes) (ip : Nat) : ∀ (n k : Nat) (s : State), Inv2 c s →
    Inv2 c (releaseLoop c mac ip n k s).1 := by
  intro n
  induction n with
  | zero => intro k s h; exact h
  | succ n ih =>
    intro k s h
    unfold releaseLoop
    split
    · exact ih _ _ h
    · split
      · exact ih _ _ h
      · next l _ =>
        split
        · exact ih _ _ h
        · have hi := rmDynamicLease_inv2 l.mac l.ip l.host h
          rcases hr : rmDynamicLease c l.mac l.ip l.host s with ⟨s1, e⟩
          rw [hr] at hi
          cases e
          · exact ih _ _ hi
          · exact hi

theorem handleRelease_inv2 {c : Conf} {s : State} {mac : Bytes} {rp : Bool} {rip ci : Nat} (h : Inv2 c s) :
    Inv2 c (handleRelease c mac rp rip ci s).1 := by
  unfold handleRelease
  simp only []
  have h0 : Inv2 c { s with stale := [] } := Inv2_congr h rfl rfl rfl rfl rfl rfl
  have hi := releaseLoop_inv2 c mac (msgIP rp rip ci) s.leases.length 0 _ h0
  rcases hr : releaseLoop c mac (msgIP rp rip ci) s.leases.length 0 { s with stale := [] } with ⟨s1, e⟩
  rw [hr] at hi
  cases e <;> exact Inv2_store hi

theorem addStaticCore_inv2 {c : Conf} {s : State} {mac : Bytes} {ip : Nat} {host : Bytes} (h : Inv2 c s) : Inv2 c (addStaticCore c mac ip host s).1 := by
  unfold addStaticCore
  have hi1 := rmDynamicLease_inv2 mac ip host h
  have hclean := rmDynLoop_clean c mac ip host s.leases [] s (by intro x hx; cases hx)
  rcases hr : rmDynamicLease c mac ip host s with ⟨s1, e⟩
  rw [hr] at hi1
  cases e with
  | true => exact Inv2_store hi1
  | false =>
    simp only []
    have hcl : ∀ y ∈ s1.leases, y.mac ≠ mac ∧ y.ip ≠ ip := by
      intro y hy
      exact hclean (by unfold rmDynamicLease at hr; rw [hr]) y (by unfold rmDynamicLease at hr; rw [hr]; exact hy)
    cases hadd : addLease c { id := s1.nextId, mac := mac, ip := ip, host := host, static := true, exp := 0 } s1.fresh.2 with
    | error e => exact Inv2_store (Inv2_fresh hi1)
    | ok s2 =>
      refine Inv2_store (Inv2_add (Inv2_fresh hi1) hadd ?_ ?_ ?_ ?_)
      · intro y hy; exact (hcl y hy).2
      · intro y hy; exact (hcl y hy).1
      · simp [State.fresh]
      · intro y hy
        have : y.id < s1.nextId := hi1.1.idLt y hy
        show y.id ≠ s1.nextId
        omega

theorem rmLease_inv2 {c : Conf} {s s' : State} (mac : Bytes) (ip : Nat) (host : Bytes) (h : Inv2 c s)
    (hr : rmLease c mac ip host s = .ok s') : Inv2 c s' := by
  by_cases hne : s.leases = []
  · unfold rmLease at hr
    rw [hne] at hr
    simp only [List.isEmpty_nil, if_true, Except.ok.injEq] at hr
    rw [← hr]; exact h
  · obtain ⟨A, B, l, hs, _, _, _, hs1⟩ := rmLease_spec hr hne
    rw [hs1]
    have : Inv2 c { s with leases := A ++ l :: B } := by rw [← hs]; exact h
    exact Inv2_rm _ this

theorem updStaticCore_inv2 {c : Conf} {s : State} {mac : Bytes} {ip : Nat} {host : Bytes} {found : Lease}
    (h : Inv2 c s) (hfound : findLease mac s = some found)
    (hdh : heldByOther s (s.hosts host) mac = false) (hdi : heldByOther s (s.ips ip) mac = false)
    (hsub : inSubnet c ip = true) : Inv2 c (updStaticCore c found mac ip host s).1 := by
  unfold updStaticCore
  split
  · exact h
  · exact h
  · next s1 hr =>
    obtain ⟨hcl, _, _, _⟩ := updStatic_add_ok (host := host) h.1 hfound hdh hdi hsub hr
    have hi1 := rmLease_inv2 _ _ _ h hr
    cases hadd : addLease c { id := s1.nextId, mac := mac, ip := ip, host := host, static := true, exp := 0 } s1.fresh.2 with
    | error e => exact Inv2_fresh hi1
    | ok s2 =>
      refine Inv2_store (Inv2_add (Inv2_fresh hi1) hadd ?_ ?_ ?_ ?_)
      · intro y hy; exact (hcl y hy).2
      · intro y hy; exact (hcl y hy).1
      · simp [State.fresh]
      · intro y hy
        have : y.id < s1.nextId := hi1.1.idLt y hy
        show y.id ≠ s1.nextId
        omega

theorem resetLoop_inv2 (O : Oracle) (c : Conf) : ∀ (d : List DLease) (s : State), Inv2 c s →
    (d.map (·.ip)).Nodup → (d.map (·.mac)).Nodup →
    (∀ x ∈ d, x.static = false → c.start ≤ x.ip ∧ x.ip ≤ c.stop) →
    (∀ x ∈ d, ∀ y ∈ s.leases, y.ip ≠ x.ip ∧ y.mac ≠ x.mac) →
    Inv2 c (resetLoop O c d s) := by
  intro d
  induction d with
  | nil => intro s h _ _ _ _; exact h
  | cons x rest ih =>
    intro s h hip hmac hpool hfresh
    rw [List.map_cons, List.nodup_cons] at hip hmac
    unfold resetLoop
    have hrest : ∀ z ∈ rest, ∀ y ∈ s.fresh.2.leases, y.ip ≠ z.ip ∧ y.mac ≠ z.mac :=
      fun z hz y hy => hfresh z (List.mem_cons_of_mem _ hz) y hy
    cases hadd : addLease c (loadLease O c x s.nextId) s.fresh.2 with
    | error e =>
      exact ih _ (Inv2_fresh h) hip.2 hmac.2 (fun z hz => hpool z (List.mem_cons_of_mem _ hz)) hrest
    | ok s' =>
      have hi : Inv2 c s' := by
        refine Inv2_add (Inv2_fresh h) hadd ?_ ?_ ?_ ?_
        · intro y hy; exact (hfresh x List.mem_cons_self y hy).1
        · intro y hy; exact (hfresh x List.mem_cons_self y hy).2
        · simp [State.fresh, loadLease]
        · intro y hy
          have : y.id < s.nextId := h.1.idLt y hy
          show y.id ≠ s.nextId
          omega
      refine ih _ hi hip.2 hmac.2 (fun z hz => hpool z (List.mem_cons_of_mem _ hz)) ?_
      intro z hz y hy
      rw [(addLease_leases hadd).1] at hy
      rcases List.mem_append.1 hy with hy | hy
      · exact hrest z hz y hy
      · simp only [List.mem_singleton] at hy
        subst hy
        constructor
        · intro e; exact hip.1 (List.mem_map.2 ⟨z, hz, e.symm⟩)
        · intro e; exact hmac.1 (List.mem_map.2 ⟨z, hz, e.symm⟩)

theorem restart_inv2 {O : Oracle} {c : Conf} {s : State} (h : Inv c s) : Inv2 c (restart O c s) := by
  unfold restart
  have h0 : Inv2 c { State.init with nextId := s.nextId, now := s.now, disk := s.disk } := by
    refine ⟨?_, ?_⟩
    · constructor <;> simp [State.init]
      exact h.disk
    · intro l hl; simp [State.init] at hl
  simp only []
  cases hd : s.disk with
  | none => simpa [hd] using h0
  | some d =>
    simp only []
    obtain ⟨d1, d2, d3⟩ := h.disk d hd
    have := resetLoop_inv2 O c d _ h0 d1 d2 d3 (by intro x _ y hy; simp [State.init] at hy)
    simpa [hd] using this

/-- The hostname index stays complete over every step that is not an instance of R3. -/
theorem Inv2_step {O : Oracle} {c : Conf} {s : State} {op : Op} (h : Inv2 c s)
    (hno : c.fixR3 = true ∨ ¬ R3at O c s op) : Inv2 c (step O c s op).1 := by
  have h0 : Inv2 c { s with stale := [] } := Inv2_congr h rfl rfl rfl rfl rfl rfl
  unfold step
  simp only []
  cases op with
  | discover mac =>
    simp only []
    split
    · exact h0
    · exact handleDiscover_inv2 h0
  | request mac sid rp rip ci hn =>
    simp only []
    split
    · exact h0
    · exact handleRequest_inv2 h0 hno
  | decline mac rp rip ci =>
    simp only []
    split
    · exact h0
    · exact handleDecline_inv2 h0
  | release mac rp rip ci =>
    simp only []
    split
    · exact h0
    · exact handleRelease_inv2 h0
  | addStatic mac ip hn =>
    simp only []
    unfold addStatic
    split
    · exact h0
    split
    · exact h0
    split
    · exact h0
    · exact addStaticCore_inv2 h0
  | updStatic mac ip hn =>
    simp only []
    unfold updStatic
    cases hf : findLease mac { s with stale := [] } with
    | none => exact h0
    | some found =>
      simp only []
      split
      · exact h0
      · next host _ =>
        split
        · exact h0
        · next hchk =>
          obtain ⟨h1, h2, _, h4⟩ := updStaticCheck_none hchk
          exact updStaticCore_inv2 h0 hf h1 h2 h4
  | rmStatic mac ip hn =>
    simp only []
    unfold rmStatic
    split
    · exact h0
    · split
      · exact h0
      · exact h0
      · next s1 hr => exact Inv2_store (rmLease_inv2 _ _ _ h0 hr)
  | sleep d => exact Inv2_congr h0 rfl rfl rfl rfl rfl rfl
  | restart => exact restart_inv2 h0.1
  | resetLeases => exact ⟨resetAll_inv h0.1, by intro l hl; simp [resetAll, State.store, State.init] at hl⟩
  | reorder d => exact ⟨Inv_reorder d h0.1, HC_congr h0.2 (reorderDisk_spec d _).1 (reorderDisk_spec d _).2.2.2.1⟩

/-- No step of the history is an instance of R3. -/
def NoR3 (O : Oracle) (c : Conf) : State → List Op → Prop
  | _, [] => True
  | s, op :: rest => (c.fixR3 = true ∨ ¬ R3at O c s op) ∧ NoR3 O c (step O c s op).1 rest

theorem run_inv2 {O : Oracle} {c : Conf} : ∀ (ops : List Op) (s : State), Inv2 c s →
    NoR3 O c s ops → Inv2 c (run O c s ops) := by
  intro ops
  induction ops with
  | nil => intro s h _; exact h
  | cons op rest ih =>
    intro s h hno
    unfold run
    exact ih _ (Inv2_step h hno.1) hno.2

end AGH.C10
