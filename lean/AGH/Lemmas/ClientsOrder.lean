/-
C04 lemmas, part 1: `subnetCompare` is a strict total order (longer prefix
first, then IPv4 before IPv6, then the smaller address).  Core Lean only.
-/
import AGH.Model.Clients
namespace AGH.C04
open AGH AGH.Bytes
open AGH.C03 (IP Prefix)

/-- `x` sorts strictly before `y`. -/
def plt (x y : Prefix) : Prop :=
  x.bits > y.bits ∨
    (x.bits = y.bits ∧ ((x.is6 = false ∧ y.is6 = true) ∨ (x.is6 = y.is6 ∧ x.addr < y.addr)))

instance (x y : Prefix) : Decidable (plt x y) := by unfold plt; infer_instance

theorem prefix_ext {x y : Prefix} (h1 : x.is6 = y.is6) (h2 : x.addr = y.addr) (h3 : x.bits = y.bits) :
    x = y := by
  cases x; cases y; simp_all

theorem plt_irrefl (x : Prefix) : ¬ plt x x := by
  unfold plt
  intro h
  rcases h with h | ⟨_, h | ⟨_, h⟩⟩
  · omega
  · cases h.1 ▸ h.2
  · omega

theorem plt_trans {x y z : Prefix} (h1 : plt x y) (h2 : plt y z) : plt x z := by
  unfold plt at *
  rcases h1 with h1 | ⟨e1, h1⟩ <;> rcases h2 with h2 | ⟨e2, h2⟩
  · left; omega
  · left; omega
  · left; omega
  · right
    refine ⟨by omega, ?_⟩
    rcases h1 with ⟨a1, b1⟩ | ⟨a1, b1⟩ <;> rcases h2 with ⟨a2, b2⟩ | ⟨a2, b2⟩
    · rw [b1] at a2; cases a2
    · left; exact ⟨a1, by rw [← a2]; exact b1⟩
    · left; exact ⟨by rw [a1]; exact a2, b2⟩
    · right; exact ⟨by rw [a1]; exact a2, by omega⟩

theorem plt_trichotomy (x y : Prefix) : x = y ∨ plt x y ∨ plt y x := by
  unfold plt
  by_cases hb : x.bits = y.bits
  · by_cases h6 : x.is6 = y.is6
    · by_cases ha : x.addr = y.addr
      · left; exact prefix_ext h6 ha hb
      · right
        rcases Nat.lt_or_gt_of_ne ha with h | h
        · left; right; exact ⟨hb, Or.inr ⟨h6, h⟩⟩
        · right; right; exact ⟨hb.symm, Or.inr ⟨h6.symm, h⟩⟩
    · right
      cases hx : x.is6 <;> cases hy : y.is6 <;> simp_all
  · right
    rcases Nat.lt_or_gt_of_ne hb with h | h
    · right; left; exact h
    · left; left; exact h

theorem plt_asymm {x y : Prefix} (h : plt x y) : ¬ plt y x :=
  fun h' => plt_irrefl x (plt_trans h h')

theorem addrCompare_lt {x y : Prefix} :
    addrCompare x y = .lt ↔ ((x.is6 = false ∧ y.is6 = true) ∨ (x.is6 = y.is6 ∧ x.addr < y.addr)) := by
  unfold addrCompare
  cases hx : x.is6 <;> cases hy : y.is6 <;> simp [Nat.compare_eq_lt]

theorem addrCompare_eq {x y : Prefix} :
    addrCompare x y = .eq ↔ (x.is6 = y.is6 ∧ x.addr = y.addr) := by
  unfold addrCompare
  cases hx : x.is6 <;> cases hy : y.is6 <;> simp

theorem subnetCompare_lt {x y : Prefix} : subnetCompare x y = .lt ↔ plt x y := by
  unfold subnetCompare
  by_cases he : x = y
  · subst he
    simp only [if_true]
    constructor
    · intro h; cases h
    · intro h; exact absurd h (plt_irrefl x)
  · simp only [he, if_false]
    by_cases hb : x.bits = y.bits
    · simp only [hb, if_true, addrCompare_lt, plt]
      constructor
      · intro h; right; exact ⟨trivial, h⟩
      · rintro (h | ⟨_, h⟩)
        · omega
        · exact h
    · simp only [hb, if_false]
      by_cases hg : x.bits > y.bits
      · simp only [hg, if_true, true_iff]; left; exact hg
      · simp only [hg, if_false]
        constructor
        · intro h; cases h
        · rintro (h | ⟨h, _⟩)
          · exact absurd h hg
          · exact absurd h hb

theorem subnetCompare_eq {x y : Prefix} : subnetCompare x y = .eq ↔ x = y := by
  unfold subnetCompare
  by_cases he : x = y
  · simp [he]
  · simp only [he, if_false, iff_false]
    by_cases hb : x.bits = y.bits
    · simp only [hb, if_true, addrCompare_eq]
      rintro ⟨h6, ha⟩
      exact he (prefix_ext h6 ha hb)
    · simp only [hb, if_false]
      split <;> simp

/-- A list of prefixes in strictly increasing `subnetCompare` order. -/
def Sorted (keys : List Prefix) : Prop := keys.Pairwise plt

theorem Sorted.nodup {keys : List Prefix} (h : Sorted keys) : keys.Nodup := by
  unfold Sorted at h
  exact h.imp (fun {a b} hab (he : a = b) => plt_irrefl a (by rw [← he] at hab; exact hab))

end AGH.C04
