/-
C06: the live table over a history of configuration operations is `prepare` of
the edited configured list.
-/
import AGH.Lemmas.RewritesMonitor
namespace AGH.C06
open AGH AGH.Bytes

theorem replaceFirst_prepare (p : Entry → Bool) (u : Raw) (rs : List Raw) :
    replaceFirst p (normalize u) (prepare rs) =
      (Spec.replaceFirstRaw (fun r => p (normalize r)) u rs).map prepare := by
  induction rs with
  | nil => rfl
  | cons r rs ih =>
    simp only [prepare, List.map_cons, replaceFirst, Spec.replaceFirstRaw]
    by_cases hp : p (normalize r) = true
    · simp [hp, prepare]
    · simp only [hp, Bool.false_eq_true, if_false]
      have ih' := ih
      simp only [prepare] at ih'
      rw [ih']
      cases Spec.replaceFirstRaw (fun r => p (normalize r)) u rs <;> simp [prepare]

theorem stepTable_prepare (rs : List Raw) (op : TableOp) :
    (stepTable (prepare rs) op).1 = prepare (Spec.editRaws rs op) := by
  cases op with
  | write => rfl
  | add r => simp [stepTable, Spec.editRaws, prepare]
  | del d a =>
    simp only [stepTable, Spec.editRaws, prepare, List.filter_map]
    rfl
  | upd td ta u =>
    simp only [stepTable, Spec.editRaws]
    rw [replaceFirst_prepare]
    cases Spec.replaceFirstRaw (fun r => sameKey td ta (normalize r)) u rs <;> simp

theorem runTable_prepare (rs : List Raw) (ops : List TableOp) :
    runTable (prepare rs) ops = prepare (ops.foldl Spec.editRaws rs) := by
  unfold runTable
  induction ops generalizing rs with
  | nil => rfl
  | cons op ops ih =>
    simp only [List.foldl_cons]
    rw [stepTable_prepare, ih]

end AGH.C06
