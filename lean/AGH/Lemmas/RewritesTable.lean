/-
C06: the live table over a history of configuration operations is `prepare` of
the edited configured list.
-/
import AGH.Lemmas.RewritesMonitor
namespace AGH.C06
open AGH AGH.Bytes

theorem replaceFirst_prepare (p : Entry → Bool) (u : Raw) (rs : List Raw) :
    replaceFirst p (normalize u) (prepare rs) =
      (Spec.replaceFirstRaw (fun r => p (normalize r)) u rs).map prepare := by
  induction rs with
  | nil => rfl
  | cons r rs ih =>
    simp only [prepare, List.map_cons, replaceFirst, Spec.replaceFirstRaw]
    by_cases hp : p (normalize r) = true
    · simp [hp, prepare]
    · simp only [hp, Bool.false_eq_true, if_false]
      have ih' := ih
      simp only [prepare] at ih'
      rw [ih']
      cases Spec.replaceFirstRaw (fun r => p (normalize r)) u rs <;> simp [prepare]

theorem lower_ne_strA (s : Bytes) : lower s ≠ strA ∧ lower s ≠ strAAAA := by
  have h65 : ∀ b ∈ lower s, b ≠ 65 := by
    intro b hb
    unfold lower at hb
    obtain ⟨c, _, rfl⟩ := List.mem_map.mp hb
    unfold lowerB isUpperB
    by_cases h1 : 65 ≤ c <;> by_cases h2 : c ≤ 90 <;> simp [h1, h2] <;> omega
  constructor
  · intro h; exact h65 65 (by rw [h]; simp [strA]) rfl
  · intro h; exact h65 65 (by rw [h]; simp [strAAAA]) rfl

/-- Reading a normalized entry back from the saved configuration gives the same entry. -/
theorem normalize_reraw (r : Raw) : normalize (reraw (normalize r)) = normalize r := by
  by_cases h4 : r.answer = strAAAA
  · have e : normalize r = ⟨lower r.domain, r.answer, .AAAA, none⟩ := by simp [normalize, h4]
    rw [e]
    simp [normalize, reraw, h4, lower_idem]
  · by_cases h1 : r.answer = strA
    · have e : normalize r = ⟨lower r.domain, r.answer, .A, none⟩ := by
        simp [normalize, h1, strA, strAAAA]
      rw [e]
      simp [normalize, reraw, h1, lower_idem, strA, strAAAA]
    · cases hp : r.parsed with
      | none =>
        have e : normalize r = ⟨lower r.domain, lower r.answer, .CNAME, none⟩ := by
          simp [normalize, h4, h1, hp]
        have := lower_ne_strA r.answer
        rw [e]
        simp [normalize, reraw, this.1, this.2, lower_idem]
      | some pr =>
        obtain ⟨is4, ip⟩ := pr
        have e : normalize r = ⟨lower r.domain, r.answer, if is4 then .A else .AAAA, some ip⟩ := by
          simp [normalize, h4, h1, hp]
        rw [e]
        cases is4 <;> simp [normalize, reraw, h4, h1, lower_idem]

theorem reload_prepare (rs : List Raw) : prepare ((prepare rs).map reraw) = prepare rs := by
  unfold prepare
  rw [List.map_map, List.map_map]
  apply List.map_congr_left
  intro r _
  exact normalize_reraw r

theorem stepTable_prepare (rs : List Raw) (op : TableOp) :
    (stepTable (prepare rs) op).1 = prepare (Spec.editRaws rs op) := by
  cases op with
  | write => rfl
  | add r => simp [stepTable, Spec.editRaws, prepare]
  | del d a =>
    simp only [stepTable, Spec.editRaws, prepare, List.filter_map]
    rfl
  | upd td ta u =>
    simp only [stepTable, Spec.editRaws]
    rw [replaceFirst_prepare]
    cases Spec.replaceFirstRaw (fun r => sameKey td ta (normalize r)) u rs <;> simp
  | reload => exact reload_prepare rs
  | bad => rfl

theorem runTable_prepare (rs : List Raw) (ops : List TableOp) :
    runTable (prepare rs) ops = prepare (ops.foldl Spec.editRaws rs) := by
  unfold runTable
  induction ops generalizing rs with
  | nil => rfl
  | cons op ops ih =>
    simp only [List.foldl_cons]
    rw [stepTable_prepare, ih]

/-- `replaceFirst` replaces the first element satisfying `p`, in place. -/
theorem replaceFirst_spec (p : Entry → Bool) (n : Entry) (l : List Entry) :
    (∃ pre e post, l = pre ++ e :: post ∧ p e = true ∧ (∀ x ∈ pre, p x = false) ∧
        replaceFirst p n l = some (pre ++ n :: post)) ∨
    ((∀ x ∈ l, p x = false) ∧ replaceFirst p n l = none) := by
  induction l with
  | nil => right; simp [replaceFirst]
  | cons x xs ih =>
    by_cases hx : p x = true
    · left
      exact ⟨[], x, xs, rfl, hx, by simp, by simp [replaceFirst, hx]⟩
    · have hxf : p x = false := by simpa using hx
      rcases ih with ⟨pre, e, post, h1, h2, h3, h4⟩ | ⟨h1, h2⟩
      · left
        refine ⟨x :: pre, e, post, by rw [h1]; rfl, h2, ?_, ?_⟩
        · intro y hy
          rcases List.mem_cons.mp hy with rfl | hy
          · exact hxf
          · exact h3 y hy
        · simp [replaceFirst, hxf, h4]
      · right
        refine ⟨?_, by simp [replaceFirst, hxf, h2]⟩
        intro y hy
        rcases List.mem_cons.mp hy with rfl | hy
        · exact hxf
        · exact h1 y hy

end AGH.C06
