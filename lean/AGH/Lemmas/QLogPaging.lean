/-
Lemmas for C07: following the returned `older_than` cursor partitions the
visible sequence.  Core Lean only.
-/
import AGH.Lemmas.QLogMonitor
namespace AGH.C07
open AGH AGH.Bytes

def withOlder (p : Params) (ot : Option Int) : Params := { p with olderThan := ot }

/-- Follow the returned cursor for at most `fuel` requests: the pages, and
whether the end (no cursor) was reported. -/
def pageChain (s : State) (p : Params) : Nat → Option Int → List (List Entry) × Bool
  | 0, _ => ([], false)
  | fuel + 1, ot =>
    match search s (withOlder p ot) with
    | .ok (D, some c) => (D :: (pageChain s p fuel (some c)).1, (pageChain s p fuel (some c)).2)
    | .ok (D, none) => ([D], true)
    | .error _ => ([], false)

theorem keepMem_withOlder (c : Conf) (p : Params) (t : Int) (e : Entry) :
    keepMem c (withOlder p (some t)) e = (decide (e.ts < t) && keepMem c (withOlder p none) e) := by
  simp only [keepMem, matchE, withOlder]
  cases isIgnored c e.host <;> cases clientIgnored c e.cid e.ip <;> cases decide (e.ts < t) <;> simp

theorem vis_withOlder (s : State) (p : Params) (t : Int) :
    vis s (withOlder p (some t)) = (vis s (withOlder p none)).filter (fun e => decide (e.ts < t)) := by
  unfold vis
  rw [List.filter_filter]
  congr 1
  funext e
  have : (withOlder p (some t)) = withOlder p (some t) := rfl
  show keepMem (s.conf) (withOlder p (some t)) e = _
  rw [keepMem_withOlder]

theorem desc_filter_split (L : List Entry) (c : Int) (h : Desc L) :
    L.filter (fun e => decide (e.ts ≥ c)) ++ L.filter (fun e => decide (e.ts < c)) = L := by
  induction L with
  | nil => rfl
  | cons x xs ih =>
    have h' := List.pairwise_cons.mp h
    by_cases hx : x.ts ≥ c
    · have h1 : decide (x.ts ≥ c) = true := by simpa using hx
      have h2 : decide (x.ts < c) = false := by simp; omega
      simp only [List.filter_cons, h1, h2, if_true, Bool.false_eq_true, if_false, List.cons_append]
      rw [ih h'.2]
    · have h1 : decide (x.ts ≥ c) = false := by simpa using hx
      have h2 : decide (x.ts < c) = true := by simp; omega
      have hall : xs.filter (fun e => decide (e.ts ≥ c)) = [] := by
        apply List.filter_eq_nil_iff.mpr
        intro a ha
        have := h'.1 a ha
        simp; omega
      have hall2 : xs.filter (fun e => decide (e.ts < c)) = xs := by
        apply List.filter_eq_self.mpr
        intro a ha
        have := h'.1 a ha
        simp; omega
      simp only [List.filter_cons, h1, h2, if_true, Bool.false_eq_true, if_false, hall, hall2, List.nil_append]

theorem filter_length_lt (l : List Entry) (p q : Entry → Bool) (hpq : ∀ e, p e = true → q e = true)
    (hex : ∃ e ∈ l, q e = true ∧ p e = false) : (l.filter p).length < (l.filter q).length := by
  induction l with
  | nil => obtain ⟨e, he, _⟩ := hex; simp at he
  | cons x xs ih =>
    have hle : (xs.filter p).length ≤ (xs.filter q).length := by
      clear ih hex
      induction xs with
      | nil => simp
      | cons y ys ih2 =>
        simp only [List.filter_cons]
        cases hp : p y with
        | true => simp [hpq y hp]; exact ih2
        | false => cases q y <;> simp <;> omega
    obtain ⟨e, he, hq, hp⟩ := hex
    simp only [List.mem_cons] at he
    rcases he with rfl | he
    · simp only [List.filter_cons, hq, hp, if_true, Bool.false_eq_true, if_false, List.length_cons]
      omega
    · have := ih ⟨e, he, hq, hp⟩
      simp only [List.filter_cons]
      cases hpx : p x with
      | true => simp [hpq x hpx]; exact this
      | false => cases q x <;> simp <;> omega

/-- Number of requests the cursor `ot` still needs at most. -/
def remaining (s : State) : Option Int → Nat
  | none => (s.rot ++ s.cur ++ s.mem).length + 1
  | some t => ((s.rot ++ s.cur ++ s.mem).filter (fun e => decide (e.ts < t))).length

theorem validP_withOlder (p : Params) (ot : Option Int) (hv : ValidP p) : ValidP (withOlder p ot) :=
  ⟨hv.off, hv.lim, hv.sum⟩

/-- CURSOR PARTITION, general step: from any cursor that is absent or the time
of a log entry, following the returned cursors ends and the pages concatenate
to exactly the visible entries older than the cursor. -/
theorem pageChain_spec (s : State) (p : Params) (hi : Inv s) (hv : ValidP p) (hoff : p.offset = 0)
    (hscan : 2 ≤ p.scan ∨ p.scan ≤ 0) :
    ∀ (fuel : Nat) (ot : Option Int), CursorOK s (withOlder p ot) → remaining s ot < fuel →
      (pageChain s p fuel ot).2 = true ∧ (pageChain s p fuel ot).1.flatten = vis s (withOlder p ot) := by
  intro fuel
  induction fuel with
  | zero => intro ot _ h; omega
  | succ fuel ih =>
    intro ot hc hrem
    obtain ⟨D, O, hs, _, hnone, hsome⟩ :=
      search_cursor s (withOlder p ot) hi (validP_withOlder p ot hv) hoff hc
    cases hO : O with
    | none =>
      rw [hO] at hs
      simp only [pageChain, hs]
      exact ⟨by simp, by simp [hnone hO]⟩
    | some c =>
      rw [hO] at hs
      obtain ⟨hpage, hprog, hstamp⟩ := hsome c hO
      simp only [pageChain, hs]
      -- the next cursor is known and strictly closer to the end
      have hc' : CursorOK s (withOlder p (some c)) := by
        unfold CursorOK; simpa [withOlder] using hstamp
      have hlt : ∀ t, ot = some t → c < t := fun t ht => hprog t (by simp [withOlder, ht]) hscan
      have hrem' : remaining s (some c) < fuel := by
        obtain ⟨e, he, hec⟩ := hstamp
        cases hot : ot with
        | none =>
          rw [hot] at hrem
          simp only [remaining] at hrem ⊢
          have := List.length_filter_le (fun e => decide (e.ts < c)) (s.rot ++ s.cur ++ s.mem)
          have hlt2 : ((s.rot ++ s.cur ++ s.mem).filter (fun e => decide (e.ts < c))).length
              < (s.rot ++ s.cur ++ s.mem).length := by
            have h0 := filter_length_lt (s.rot ++ s.cur ++ s.mem) (fun e => decide (e.ts < c)) (fun _ => true)
              (by intros; rfl) ⟨e, he, rfl, by simp; omega⟩
            have hall : (s.rot ++ s.cur ++ s.mem).filter (fun _ => true) = s.rot ++ s.cur ++ s.mem :=
              List.filter_eq_self.mpr (by intros; rfl)
            rw [hall] at h0
            exact h0
          omega
        | some t =>
          rw [hot] at hrem
          simp only [remaining] at hrem ⊢
          have hct := hlt t hot
          have := filter_length_lt (s.rot ++ s.cur ++ s.mem) (fun e => decide (e.ts < c))
            (fun e => decide (e.ts < t)) (by intro e he'; simp at he' ⊢; omega)
            ⟨e, he, by simp; omega, by simp; omega⟩
          omega
      obtain ⟨hend, hflat⟩ := ih (some c) hc' hrem'
      refine ⟨hend, ?_⟩
      simp only [List.flatten_cons, hflat, hpage]
      -- D ++ (visible older than c) = visible older than ot
      have hd := desc_vis s (withOlder p ot) hi
      have hvc : vis s (withOlder p (some c)) =
          (vis s (withOlder p ot)).filter (fun e => decide (e.ts < c)) := by
        rw [vis_withOlder]
        cases hot : ot with
        | none => rfl
        | some t =>
          rw [vis_withOlder, List.filter_filter]
          congr 1
          funext e
          have := hlt t hot
          by_cases h1 : e.ts < c
          · have : e.ts < t := by omega
            simp [h1, this]
          · simp [h1]
      rw [hvc]
      exact desc_filter_split _ c hd


end AGH.C07
