/-
C09: the concrete programs are well-formed critical sections under the lock
facts, and each one, run alone, does what the sequential model's operation does.
-/
import AGH.Lemmas.StatsConcSer
import AGH.Spec.StatsLocks
import AGH.Spec.Stats
namespace AGH.C09

theorem updBody_effect (F : LockFacts) (e : Entry) (s : State) :
    (execBody (updBody F e) (s, Loc.init)).1 = (updateN s e 1).1 := by
  have hU : (updateN s e 1).1 = match update s e with | .ok s' => s' | .error _ => s := by
    simp only [updateN]; cases update s e <;> rfl
  rw [hU]
  cases hF : F.updCurr <;>
  · simp only [updBody, hF, optLock, optUnlock, execBody, List.cons_append, List.nil_append, List.append_nil,
      List.foldl_cons, List.foldl_nil, execI, Loc.init, update]
    by_cases h1 : (!s.enabled || s.limit == 0) = true
    · simp [h1]
    · by_cases hv : e.valid = true
      · by_cases hr : e.result < 0 ∨ e.result ≥ 6
        · simp [h1, hv, hr, MemUnit.add]
        · simp [h1, hv, hr, MemUnit.add]
          funext i
          by_cases hi : i = e.result.toNat <;> simp [hi]
      · have hv' : e.valid = false := by simpa using hv
        simp [h1, hv']

theorem flushBody_effect (F : LockFacts) (id : Nat) (s : State) :
    (execBody (flushBody F id) (s, Loc.init)).1 = tick s id := by
  cases hF : F.flushCurr <;>
  · simp only [flushBody, hF, optLock, optUnlock, execBody, List.cons_append, List.nil_append, List.append_nil,
      List.foldl_cons, List.foldl_nil, execI, Loc.init, tick, flush]
    by_cases hc : s.limitHours = 0 ∨ s.curr.id = id
    · have hb : (s.limitHours == 0 || s.curr.id == id) = true := by
        rcases hc with hc | hc <;> simp [hc]
      have hc' : ({ s with clock := id } : State).limitHours = 0 ∨ s.curr.id = id := hc
      simp only [hb, Bool.not_true, Bool.false_eq_true, if_false]
      rw [if_pos hc']
    · have hb : (s.limitHours == 0 || s.curr.id == id) = false := by
        have h1 : ¬ s.limitHours = 0 := fun h => hc (Or.inl h)
        have h2 : ¬ s.curr.id = id := fun h => hc (Or.inr h)
        simp [h1, h2]
      have hc' : ¬ (({ s with clock := id } : State).limitHours = 0 ∨ s.curr.id = id) := hc
      simp only [hb, Bool.not_false, if_true]
      rw [if_neg hc']
      rfl

theorem execBody_cons {L : Type} (i : Instr L) (b : List (Instr L)) (p : State × L) :
    execBody (i :: b) p = execBody b (execI i p) := rfl

theorem execBody_nil {L : Type} (p : State × L) : execBody ([] : List (Instr L)) p = p := rfl

theorem readBody_effect (F : LockFacts) (s : State) :
    (execBody (readBody F) (s, Loc.init)).1 = s ∧
    (execBody (readBody F) (s, Loc.init)).2.result = some (getData s) := by
  by_cases h0 : s.limitHours = 0
  · have hb : (s.limitHours == 0) = true := by simp [h0]
    have hg : getData s = .ok emptyResp := by simp only [getData, h0, if_true]; rfl
    rw [hg]
    cases hF : F.loadCurr <;>
      simp [readBody, hF, optLock, optUnlock, execBody_cons, execBody_nil, execI, Loc.init, hb]
  · have hb : (s.limitHours == 0) = false := by simp [h0]
    have hg : getData s = match loadUnits s s.limitHours with
        | .error e => .error e
        | .ok (units, curID) => dataFromUnits units curID := by
      simp only [getData, h0, if_false]
    rw [hg]
    cases hF : F.loadCurr <;>
    · simp only [readBody, hF, optLock, optUnlock, List.cons_append, List.nil_append, List.append_nil,
        execBody_cons, execBody_nil, execI, Loc.init, hb, Bool.not_false, if_true, Bool.false_eq_true, if_false,
        loadUnits, true_and]
      by_cases hl : ((List.range (sub32 s.curr.id (add32 (sub32 s.curr.id s.limitHours) 1))).map
          (fun k => (s.db.get (add32 (add32 (sub32 s.curr.id s.limitHours) 1) k)).getD UnitDB.empty) ++
          [s.curr.serialize]).length = s.limitHours
      · have hb2 : (((List.range (sub32 s.curr.id (add32 (sub32 s.curr.id s.limitHours) 1))).map
          (fun k => (s.db.get (add32 (add32 (sub32 s.curr.id s.limitHours) 1) k)).getD UnitDB.empty) ++
          [s.curr.serialize]).length != s.limitHours) = false := by simp [hl]
        have hn : ¬ ((List.range (sub32 s.curr.id (add32 (sub32 s.curr.id s.limitHours) 1))).map
          (fun k => (s.db.get (add32 (add32 (sub32 s.curr.id s.limitHours) 1) k)).getD UnitDB.empty) ++
          [s.curr.serialize]).length ≠ s.limitHours := by simp [hl]
        simp only [hb2, Bool.false_eq_true, if_false]
        rw [if_neg hn]
      · have hb2 : (((List.range (sub32 s.curr.id (add32 (sub32 s.curr.id s.limitHours) 1))).map
          (fun k => (s.db.get (add32 (add32 (sub32 s.curr.id s.limitHours) 1) k)).getD UnitDB.empty) ++
          [s.curr.serialize]).length != s.limitHours) = true := by simp [hl]
        simp only [hb2, if_true]
        rw [if_pos hl]

theorem setDaysBody_effect (F : LockFacts) (d : Nat) (s : State) (hd : checkInterval d = true) :
    (execBody (setDaysBody F d) (s, Loc.init)).1 = setLimitDays s d := by
  by_cases hz : d * 24 * msPerHour ≠ 0
  · simp [setDaysBody, hz, execBody, execI, setLimitDays, hd]
  · cases hF : F.clearCurr <;>
      simp [setDaysBody, hz, clearSteps, hF, optLock, optUnlock, execBody, execI, setLimitDays, hd, clear]

theorem putConfBody_effect (ms : Nat) (en : Bool) (s : State) (hv : validIvl ms = true) :
    (execBody (putConfBody ms en) (s, Loc.init)).1 = putConf s ms en := by
  simp [putConfBody, execBody, execI, putConf, hv]

theorem clearSteps_effect (F : LockFacts) (s : State) :
    (execBody (clearSteps F) (s, Loc.init)).1 = clear s := by
  cases hF : F.clearCurr <;> simp [clearSteps, hF, optLock, optUnlock, execBody, execI, clear]

/-- Run alone, an operation's critical section does what the sequential model's
operation does. -/
theorem bodyOf_effect (F : LockFacts) (op : COp) (s : State) (hr : rejected op = false) :
    step s op.toOp = some (execBody (bodyOf F op) (s, Loc.init)).1 := by
  cases op with
  | upd e => simp [COp.toOp, step, bodyOf, updBody_effect]
  | flush id => simp [COp.toOp, step, bodyOf, flushBody_effect]
  | read => simp [COp.toOp, step, bodyOf, (readBody_effect F s).1]
  | setDays d =>
    have : checkInterval d = true := by simpa [rejected] using hr
    simp [COp.toOp, step, bodyOf, setDaysBody_effect F d s this]
  | putConf ms en =>
    have : validIvl ms = true := by simpa [rejected] using hr
    simp [COp.toOp, step, bodyOf, putConfBody_effect ms en s this]
  | reset => simp [COp.toOp, step, bodyOf, clearSteps_effect]

theorem rejected_step (op : COp) (s : State) (hr : rejected op = true) : step s op.toOp = some s := by
  cases op with
  | setDays d =>
    have : checkInterval d = false := by simpa [rejected] using hr
    simp [COp.toOp, step, setLimitDays, this]
  | putConf ms en =>
    have : validIvl ms = false := by simpa [rejected] using hr
    simp [COp.toOp, step, putConf, this]
  | upd e => simp [rejected] at hr
  | flush id => simp [rejected] at hr
  | read => simp [rejected] at hr
  | reset => simp [rejected] at hr

end AGH.C09
