/-
C09: the concrete programs are well-formed critical sections under the lock
facts, and each one, run alone, does what the sequential model's operation does.
-/
import AGH.Lemmas.StatsConcSer
import AGH.Spec.StatsLocks
import AGH.Spec.Stats
namespace AGH.C09

theorem execBody_cons {L : Type} (i : Instr L) (b : List (Instr L)) (p : State × L) :
    execBody (i :: b) p = execBody b (execI i p) := rfl

theorem execBody_nil {L : Type} (p : State × L) : execBody ([] : List (Instr L)) p = p := rfl

theorem updBody_effect (F : LockFacts) (e : Entry) (s : State) :
    (execBody (updBody F e) (s, Loc.init)).1 = (updateN s e 1).1 := by
  have hU : (updateN s e 1).1 = match update s e with | .ok s' => s' | .error _ => s := by
    simp only [updateN]; cases update s e <;> rfl
  rw [hU]
  cases hF : F.updCurr <;>
  · simp only [updBody, hF, optLock, optUnlock, execBody, List.cons_append, List.nil_append, List.append_nil,
      List.foldl_cons, List.foldl_nil, execI, Loc.init, update]
    by_cases h1 : (!s.enabled || s.limit == 0) = true
    · simp [h1]
    · by_cases hv : e.valid = true
      · by_cases hr : e.result < 0 ∨ e.result ≥ 6
        · simp [h1, hv, hr, MemUnit.add]
        · simp [h1, hv, hr, MemUnit.add]
          funext i
          by_cases hi : i = e.result.toNat <;> simp [hi]
      · have hv' : e.valid = false := by simpa using hv
        simp [h1, hv']

theorem flushBody_effect (F : LockFacts) (id : Nat) (s : State) :
    (execBody (flushBody F id) (s, Loc.init)).1 = tick s id := by
  cases hF : F.flushCurr <;>
  · simp only [flushBody, hF, optLock, optUnlock, List.cons_append, List.nil_append, List.append_nil, tick, flush]
    repeat (rw [execBody_cons]; simp only [execI, Loc.init])
    rw [execBody_nil]
    have hlh : ({ s with clock := id } : State).limitHours = s.limitHours := rfl
    simp only [hlh]
    generalize s.limitHours = n
    by_cases hc : n = 0 ∨ s.curr.id = id
    · have hb : (n == 0 || s.curr.id == id) = true := by
        rcases hc with hc | hc <;> simp [hc]
      simp only [hb, Bool.not_true, Bool.false_eq_true, if_false]
      rw [if_pos hc]
    · have hb : (n == 0 || s.curr.id == id) = false := by
        have h1 : ¬ n = 0 := fun h => hc (Or.inl h)
        have h2 : ¬ s.curr.id = id := fun h => hc (Or.inr h)
        simp [h1, h2]
      simp only [hb, Bool.not_false, if_true]
      rw [if_neg hc]

theorem getData_unfold (s : State) :
    getData s = if s.limitHours = 0 then .ok emptyResp else
      match loadUnits s s.limitHours with
      | .error e => .error e
      | .ok (units, curID) => dataFromUnits units curID := rfl

theorem loadUnits_unfold (s : State) (L : Nat) :
    loadUnits s L =
      if ((lookups s.db s.curr.id L ++ [s.curr.serialize]).length != L) = true then .error .unitsLen
      else .ok (lookups s.db s.curr.id L ++ [s.curr.serialize], s.curr.id) := by
  unfold loadUnits lookups
  simp only [bne_iff_ne]

theorem readBody_effect (F : LockFacts) (s : State) :
    (execBody (readBody F) (s, Loc.init)).1 = s ∧
    (execBody (readBody F) (s, Loc.init)).2.result = some (getData s) := by
  rw [getData_unfold, loadUnits_unfold]
  cases hF : F.loadCurr <;>
  · simp only [readBody, hF, optLock, optUnlock, List.cons_append, List.nil_append, List.append_nil]
    rw [execBody_cons]
    simp only [execI, Loc.init]
    generalize s.limitHours = n
    by_cases h0 : n = 0
    · subst h0
      simp [execBody_cons, execBody_nil, execI]
    · have hb : (n == 0) = false := by simp [h0]
      simp only [hb, h0, Bool.not_false, if_false, Bool.false_eq_true]
      repeat (rw [execBody_cons]; simp only [execI, eq_self, ↓reduceIte])
      simp only [execBody_nil, true_and]
      generalize lookups s.db s.curr.id n ++ [s.curr.serialize] = units
      cases hb2 : (units.length != n) <;> simp

theorem setDaysBody_effect (F : LockFacts) (d : Nat) (s : State) (hd : checkInterval d = true) :
    (execBody (setDaysBody F d) (s, Loc.init)).1 = setLimitDays s d := by
  by_cases hz : d * 24 * msPerHour ≠ 0
  · simp [setDaysBody, hz, execBody, execI, setLimitDays, hd]
  · cases hF : F.clearCurr <;>
      simp [setDaysBody, hz, clearSteps, hF, optLock, optUnlock, execBody, execI, setLimitDays, hd, clear]

theorem putConfBody_effect (ms : Nat) (en : Bool) (s : State) (hv : validIvl ms = true) :
    (execBody (putConfBody ms en) (s, Loc.init)).1 = putConf s ms en := by
  simp [putConfBody, execBody, execI, putConf, hv]

theorem clearSteps_effect (F : LockFacts) (s : State) :
    (execBody (clearSteps F) (s, Loc.init)).1 = clear s := by
  cases hF : F.clearCurr <;> simp [clearSteps, hF, optLock, optUnlock, execBody, execI, clear]

/-- Run alone, an operation's critical section does what the sequential model's
operation does. -/
theorem bodyOf_effect (F : LockFacts) (op : COp) (s : State) (hr : rejected op = false) :
    step s op.toOp = some (execBody (bodyOf F op) (s, Loc.init)).1 := by
  cases op with
  | upd e => simp [COp.toOp, step, bodyOf, updBody_effect]
  | flush id => simp [COp.toOp, step, bodyOf, flushBody_effect]
  | read => simp [COp.toOp, step, bodyOf, (readBody_effect F s).1]
  | setDays d =>
    have : checkInterval d = true := by simpa [rejected] using hr
    simp [COp.toOp, step, bodyOf, setDaysBody_effect F d s this]
  | putConf ms en =>
    have : validIvl ms = true := by simpa [rejected] using hr
    simp [COp.toOp, step, bodyOf, putConfBody_effect ms en s this]
  | reset => simp [COp.toOp, step, bodyOf, clearSteps_effect]

theorem rejected_step (op : COp) (s : State) (hr : rejected op = true) : step s op.toOp = some s := by
  cases op with
  | setDays d =>
    have : checkInterval d = false := by simpa [rejected] using hr
    simp [COp.toOp, step, setLimitDays, this]
  | putConf ms en =>
    have : validIvl ms = false := by simpa [rejected] using hr
    simp [COp.toOp, step, putConf, this]
  | upd e => simp [rejected] at hr
  | flush id => simp [rejected] at hr
  | read => simp [rejected] at hr
  | reset => simp [rejected] at hr

end AGH.C09
