/-
C06: facts about runs of the CNAME loop (ghost state, provenance of
addresses) and about what `findRewrites` keeps, for every sorter.
-/
import AGH.Lemmas.RewritesSpec
namespace AGH.C06
open AGH AGH.Bytes

theorem find_mem_candidates (srt : Sorter) (tbl : List Entry) (host : Bytes) (qt : Nat) :
    ∀ e ∈ (findRewritesWith srt tbl host qt).1, e ∈ candidates tbl host qt := by
  intro e he
  rcases (find_view srt tbl host qt).2 with ⟨_, hfr⟩ | ⟨a, rest, hsort, hfr, _, _⟩
  · rw [hfr] at he; cases he
  · rw [hfr] at he
    have := cut_subset _ e he
    rw [← hsort] at this
    exact (srt.perm _).subset this

theorem unvisited_le (tbl : List Entry) (visited : List Bytes) : unvisited tbl visited ≤ tbl.length := by
  unfold unvisited
  exact List.length_filter_le _ _

/-- Ghost state of a run: the visited names are distinct answers of CNAME
entries of the table, and their number is bounded by the termination measure. -/
theorem chase_ghost (srt : Bytes → Sorter) (tbl : List Entry) (qt : Nat) (orig : Bytes)
    (host : Bytes) (visited : List Bytes) (canon : Bytes) :
    let r := chase srt tbl qt orig host visited canon
    r.visited.length + unvisited tbl r.visited ≤ visited.length + unvisited tbl visited ∧
    (visited.Nodup → r.visited.Nodup) ∧
    (∀ v ∈ r.visited, v ∈ visited ∨ ∃ e ∈ tbl, e.typ = .CNAME ∧ e.answer = v) := by
  induction host, visited, canon using chase.induct srt tbl qt orig with
  | case1 host visited canon fr hnil =>
    rw [chase_nil _ _ _ _ _ _ _ hnil]
    exact ⟨Nat.le_refl _, id, fun v hv => Or.inl hv⟩
  | case2 host visited canon fr rw tl heq hc hexc =>
    rw [chase_cons _ _ _ _ _ _ _ rw tl heq, if_pos hc, if_pos hexc]
    exact ⟨Nat.le_refl _, id, fun v hv => Or.inl hv⟩
  | case3 host visited canon fr rw tl heq hc hexc hself =>
    rw [chase_cons _ _ _ _ _ _ _ rw tl heq, if_pos hc, if_neg hexc, if_pos hself]
    exact ⟨Nat.le_refl _, id, fun v hv => Or.inl hv⟩
  | case4 host visited canon fr rw tl heq hc hexc hself hv =>
    rw [chase_cons _ _ _ _ _ _ _ rw tl heq, if_pos hc, if_neg hexc, if_neg hself, if_pos hv]
    exact ⟨Nat.le_refl _, id, fun v hv => Or.inl hv⟩
  | case5 host visited canon fr rw tl heq hc hexc hself hv ih =>
    rw [chase_cons _ _ _ _ _ _ _ rw tl heq, if_pos hc, if_neg hexc, if_neg hself, if_neg hv]
    have hmem : rw ∈ tbl := findRewritesWith_subset (srt host) tbl host qt rw (by rw [heq]; simp)
    have hvf : visited.contains rw.answer = false := by simpa using hv
    have hlt := unvisited_lt tbl visited rw hmem hvf
    obtain ⟨h1, h2, h3⟩ := ih
    refine ⟨?_, ?_, ?_⟩
    · simp only [List.length_cons] at h1; omega
    · intro hnd
      apply h2
      rw [List.nodup_cons]
      refine ⟨?_, hnd⟩
      simpa using hvf
    · intro v hv'
      rcases h3 v hv' with h | h
      · rcases List.mem_cons.mp h with rfl | h
        · exact Or.inr ⟨rw, hmem, hc.2, rfl⟩
        · exact Or.inl h
      · exact Or.inr h
  | case6 host visited canon fr rw tl heq hc =>
    rw [chase_cons _ _ _ _ _ _ _ rw tl heq, if_neg hc]
    exact ⟨Nat.le_refl _, id, fun v hv => Or.inl hv⟩

/-- Every address in the result is the address of a table entry of the
requested type whose pattern covers the finally resolved name. -/
theorem chase_ips (srt : Bytes → Sorter) (tbl : List Entry) (qt : Nat) (orig : Bytes)
    (host : Bytes) (visited : List Bytes) (canon : Bytes) (ip : Bytes) :
    ip ∈ (chase srt tbl qt orig host visited canon).out.ips →
      ∃ e ∈ tbl, e.ip = some ip ∧ e.typ.code = qt ∧ (qt = qA ∨ qt = qAAAA) ∧
        matchesHost e (chase srt tbl qt orig host visited canon).final = true := by
  have key : ∀ (host canon' : Bytes) (l : List Entry),
      (∀ e ∈ l, e ∈ candidates tbl host qt) →
      ip ∈ (setRewriteResult ⟨true, canon', []⟩ l qt).ips →
      ∃ e ∈ tbl, e.ip = some ip ∧ e.typ.code = qt ∧ (qt = qA ∨ qt = qAAAA) ∧
        matchesHost e host = true := by
    intro host canon' l hl hip
    rcases setRewriteResult_ips _ l qt ip hip with h | ⟨e, he, h1, h2, h3⟩
    · cases h
    · obtain ⟨m1, m2, _⟩ := mem_candidates.mp (hl e he)
      exact ⟨e, m1, h1, h2, h3, m2⟩
  induction host, visited, canon using chase.induct srt tbl qt orig with
  | case1 host visited canon fr hnil =>
    rw [chase_nil _ _ _ _ _ _ _ hnil]
    intro h; cases h
  | case2 host visited canon fr rw tl heq hc hexc =>
    rw [chase_cons _ _ _ _ _ _ _ rw tl heq, if_pos hc, if_pos hexc]
    intro h; cases h
  | case3 host visited canon fr rw tl heq hc hexc hself =>
    rw [chase_cons _ _ _ _ _ _ _ rw tl heq, if_pos hc, if_neg hexc, if_pos hself]
    intro h
    exact key host host (rw :: tl) (by rw [← heq]; exact find_mem_candidates _ _ _ _) h
  | case4 host visited canon fr rw tl heq hc hexc hself hv =>
    rw [chase_cons _ _ _ _ _ _ _ rw tl heq, if_pos hc, if_neg hexc, if_neg hself, if_pos hv]
    intro h; cases h
  | case5 host visited canon fr rw tl heq hc hexc hself hv ih =>
    rw [chase_cons _ _ _ _ _ _ _ rw tl heq, if_pos hc, if_neg hexc, if_neg hself, if_neg hv]
    exact ih
  | case6 host visited canon fr rw tl heq hc =>
    rw [chase_cons _ _ _ _ _ _ _ rw tl heq, if_neg hc]
    intro h
    exact key host canon (rw :: tl) (by rw [← heq]; exact find_mem_candidates _ _ _ _) h

/-- Where the canonical name of a result comes from. -/
theorem chase_canon_src (srt : Bytes → Sorter) (tbl : List Entry) (qt : Nat) (orig : Bytes)
    (host : Bytes) (visited : List Bytes) (canon : Bytes) :
    (chase srt tbl qt orig host visited canon).out.canon = canon ∨
    (chase srt tbl qt orig host visited canon).out.canon = [] ∨
    ∃ e ∈ tbl, e.typ = .CNAME ∧ e.answer = (chase srt tbl qt orig host visited canon).out.canon := by
  induction host, visited, canon using chase.induct srt tbl qt orig with
  | case1 host visited canon fr hnil =>
    rw [chase_nil _ _ _ _ _ _ _ hnil]; exact Or.inl rfl
  | case2 host visited canon fr rw tl heq hc hexc =>
    rw [chase_cons _ _ _ _ _ _ _ rw tl heq, if_pos hc, if_pos hexc]; exact Or.inr (Or.inl rfl)
  | case3 host visited canon fr rw tl heq hc hexc hself =>
    rw [chase_cons _ _ _ _ _ _ _ rw tl heq, if_pos hc, if_neg hexc, if_pos hself]
    right; right
    refine ⟨rw, findRewritesWith_subset (srt host) tbl host qt rw (by rw [heq]; simp), hc.2, ?_⟩
    simp only [setRewriteResult_canon]
    exact hself.1.symm
  | case4 host visited canon fr rw tl heq hc hexc hself hv =>
    rw [chase_cons _ _ _ _ _ _ _ rw tl heq, if_pos hc, if_neg hexc, if_neg hself, if_pos hv]
    exact Or.inl rfl
  | case5 host visited canon fr rw tl heq hc hexc hself hv ih =>
    rw [chase_cons _ _ _ _ _ _ _ rw tl heq, if_pos hc, if_neg hexc, if_neg hself, if_neg hv]
    rcases ih with h | h | h
    · right; right
      exact ⟨rw, findRewritesWith_subset (srt host) tbl host qt rw (by rw [heq]; simp), hc.2, h.symm⟩
    · exact Or.inr (Or.inl h)
    · exact Or.inr (Or.inr h)
  | case6 host visited canon fr rw tl heq hc =>
    rw [chase_cons _ _ _ _ _ _ _ rw tl heq, if_neg hc]
    left
    simp only [setRewriteResult_canon]

theorem lowerNames_map {tbl : List Entry} (hl : Spec.LowerNames tbl) : tbl.map Spec.foldEntry = tbl := by
  have : tbl.map Spec.foldEntry = tbl.map id := List.map_congr_left (fun e he => hl e he)
  rw [this, List.map_id]

theorem lowerNames_answer {tbl : List Entry} (hl : Spec.LowerNames tbl) {e : Entry} (he : e ∈ tbl)
    (hc : e.typ = .CNAME) : lower e.answer = e.answer := by
  have := congrArg Entry.answer (hl e he)
  simpa [Spec.foldEntry, hc] using this

/-- With lower-case names in the table the canonical name of a result is in
lower case. -/
theorem process_canon_lower (srt : Bytes → Sorter) (tbl : List Entry) (h : Bytes) (q : Nat)
    (hl : Spec.LowerNames tbl) :
    Spec.foldOut (processRewritesWith srt tbl h q) = processRewritesWith srt tbl h q := by
  have hc : lower (processRewritesWith srt tbl h q).canon = (processRewritesWith srt tbl h q).canon := by
    unfold processRewritesWith processRun
    split
    · rfl
    · rcases chase_canon_src srt tbl q h h [] [] with h1 | h1 | ⟨e, he, hc, h1⟩
      · rw [h1]; rfl
      · rw [h1]; rfl
      · rw [← h1]; exact lowerNames_answer hl he hc
  unfold Spec.foldOut
  rw [hc]

theorem normalize_domain (r : Raw) : (normalize r).domain = lower r.domain := by
  unfold normalize
  simp only
  split
  · rfl
  · split
    · rfl
    · split <;> rfl

/-- `normalize` leaves every prepared entry in case-folded form: the pattern is
lower-cased, and so is the answer of a CNAME entry (repair 3bb3ec2). -/
theorem foldEntry_normalize (r : Raw) : Spec.foldEntry (normalize r) = normalize r := by
  unfold normalize Spec.foldEntry
  simp only
  split
  · simp [lower_idem]
  · split
    · simp [lower_idem]
    · split
      · simp [lower_idem]
      · next is4 ip _ => cases is4 <;> simp [lower_idem]

/-- Every table that went through `prepareRewrites` has lower-case names. -/
theorem prepare_lowerNames (rs : List Raw) : Spec.LowerNames (prepare rs) := by
  intro e he
  unfold prepare at he
  obtain ⟨r, _, rfl⟩ := List.mem_map.mp he
  exact foldEntry_normalize r

/-- A non-rewritten result is judged by the spec on its `rewritten` flag alone. -/
theorem finalOK_not_rewritten (tbl : List Entry) (qt : Nat) (cur : Bytes) (hopped : Bool) (o : Out)
    (ho : o.rewritten = false) (h : Spec.finalOK tbl qt cur hopped o = true) :
    Spec.finalOK tbl qt cur hopped Out.empty = true := by
  unfold Spec.finalOK at h ⊢
  have hne : ∀ c : Bytes, (o == (⟨true, c, []⟩ : Out)) = false := by
    intro c
    rw [beq_eq_false_iff_ne]
    intro heq; rw [heq] at ho; cases ho
  have hne' : ∀ c : Bytes, (Out.empty == (⟨true, c, []⟩ : Out)) = false := by
    intro c
    rw [beq_eq_false_iff_ne]
    intro heq; cases heq
  simp only [ho, hne, Out.empty, hne'] at h ⊢
  simpa using h

theorem allowedFrom_not_rewritten (tbl : List Entry) (qt : Nat) (h : Bytes) (o : Out)
    (ho : o.rewritten = false) :
    ∀ fuel cur seen, Spec.allowedFrom tbl qt h fuel cur seen o = true →
      Spec.allowedFrom tbl qt h fuel cur seen Out.empty = true := by
  intro fuel
  induction fuel with
  | zero => intro _ _ h; simp [Spec.allowedFrom] at h
  | succ n ih =>
    intro cur seen hal
    simp only [Spec.allowedFrom] at hal ⊢
    split
    · next hc =>
      rw [if_pos hc] at hal
      exact finalOK_not_rewritten _ _ _ _ _ ho hal
    · next hc =>
      rw [if_neg hc] at hal
      rw [List.any_eq_true] at hal ⊢
      obtain ⟨e, he, hal⟩ := hal
      refine ⟨e, he, ?_⟩
      have hne : ∀ c : Bytes, (o == (⟨true, c, []⟩ : Out)) = false := by
        intro c
        rw [beq_eq_false_iff_ne]
        intro heq; rw [heq] at ho; cases ho
      split
      · rfl
      · next h1 =>
        rw [if_neg h1] at hal
        split
        · next h2 => rw [if_pos h2, hne] at hal; cases hal
        · next h2 =>
          rw [if_neg h2] at hal
          split
          · next h3 => rw [if_pos h3, ho] at hal; simp at hal
          · next h3 =>
            rw [if_neg h3] at hal
            exact ih _ _ hal

/-! ### what `findRewrites` keeps -/

theorem find_cname_first (s : Sorter) (tbl : List Entry) (host : Bytes) (qt : Nat)
    (h : ∃ e ∈ tbl, e.typ = .CNAME ∧ matchesHost e host = true) :
    ∃ c tl, (findRewritesWith s tbl host qt).1 = c :: tl ∧ c.typ = .CNAME ∧ c ∈ tbl ∧
      matchesHost c host = true ∧
      (∀ e ∈ tbl, e.typ = .CNAME → matchesHost e host = true →
        (isWildcard e.domain = false → isWildcard c.domain = false) ∧
        (isWildcard c.domain = true → e.domain.length ≤ c.domain.length)) := by
  obtain ⟨e0, he0, hc0, hm0⟩ := h
  have hcand0 : e0 ∈ candidates tbl host qt := mem_candidates.mpr ⟨he0, hm0, matchesQType_cname hc0 qt⟩
  rcases (find_view s tbl host qt).2 with ⟨hnil, _⟩ | ⟨a, rest, hsort, hfr, hamem, hmin⟩
  · rw [hnil] at hcand0; cases hcand0
  · obtain ⟨tl, htl⟩ := cut_cons_head a rest
    have hac : a.typ = .CNAME := cname_of_le_cname (hmin e0 hcand0) hc0
    obtain ⟨m1, m2, _⟩ := mem_candidates.mp hamem
    refine ⟨a, tl, by rw [hfr, htl], hac, m1, m2, ?_⟩
    intro e he hc hm
    have hcand : e ∈ candidates tbl host qt := mem_candidates.mpr ⟨he, hm, matchesQType_cname hc qt⟩
    have hk : (a.typ = .CNAME ↔ e.typ = .CNAME) := ⟨fun _ => hc, fun _ => hac⟩
    have h1 : isWildcard e.domain = false → isWildcard a.domain = false :=
      not_wild_of_le_not_wild (hmin e hcand) hk
    refine ⟨h1, ?_⟩
    intro hw
    have hwe : isWildcard e.domain = true := by
      cases hwe : isWildcard e.domain
      · have := h1 hwe; rw [hw] at this; cases this
      · rfl
    exact len_le_of_le_same (hmin e hcand) hk (by rw [hw, hwe])

theorem find_exact_perm (s : Sorter) (tbl : List Entry) (host : Bytes) (qt : Nat)
    (hno : ∀ e ∈ tbl, matchesHost e host = true → e.typ ≠ .CNAME)
    (hex : ∃ e ∈ candidates tbl host qt, isWildcard e.domain = false) :
    (findRewritesWith s tbl host qt).1.Perm
      ((candidates tbl host qt).filter (fun e => !isWildcard e.domain)) := by
  obtain ⟨e0, he0, hw0⟩ := hex
  have hcn : ∀ e ∈ candidates tbl host qt, e.typ ≠ .CNAME := by
    intro e he
    obtain ⟨m1, m2, _⟩ := mem_candidates.mp he
    exact hno e m1 m2
  rcases (find_view s tbl host qt).2 with ⟨hnil, _⟩ | ⟨a, rest, hsort, hfr, hamem, hmin⟩
  · rw [hnil] at he0; cases he0
  · have hperm : (a :: rest).Perm (candidates tbl host qt) := by rw [← hsort]; exact s.perm _
    have hsorted : (a :: rest).Pairwise (fun x y => cmp x y ≤ 0) := by
      rw [← hsort]; exact s.sorted _
    have hcn' : ∀ e ∈ a :: rest, e.typ ≠ .CNAME := fun e he => hcn e (hperm.subset he)
    have hk : (a.typ = .CNAME ↔ e0.typ = .CNAME) :=
      ⟨fun h => absurd h (hcn a hamem), fun h => absurd h (hcn e0 he0)⟩
    have hwa : isWildcard a.domain = false := not_wild_of_le_not_wild (hmin e0 he0) hk hw0
    have hcut : cut (a :: rest) = (a :: rest).filter (fun r => !isWildcard r.domain) := by
      rw [← takeWhile_eq_filter_of_sorted _ hsorted hcn']
      simp [cut, hwa, List.takeWhile_cons]
    rw [hfr, hcut]
    exact hperm.filter _

theorem find_wild_single (s : Sorter) (tbl : List Entry) (host : Bytes) (qt : Nat)
    (hno : ∀ e ∈ tbl, matchesHost e host = true → e.typ ≠ .CNAME)
    (hall : ∀ e ∈ candidates tbl host qt, isWildcard e.domain = true)
    (hne : candidates tbl host qt ≠ []) :
    ∃ w, (findRewritesWith s tbl host qt).1 = [w] ∧ w ∈ candidates tbl host qt ∧
      ∀ e ∈ candidates tbl host qt, e.domain.length ≤ w.domain.length := by
  have hcn : ∀ e ∈ candidates tbl host qt, e.typ ≠ .CNAME := by
    intro e he
    obtain ⟨m1, m2, _⟩ := mem_candidates.mp he
    exact hno e m1 m2
  rcases (find_view s tbl host qt).2 with ⟨hnil, _⟩ | ⟨a, rest, hsort, hfr, hamem, hmin⟩
  · exact absurd hnil hne
  · have hwa := hall a hamem
    refine ⟨a, by rw [hfr]; simp [cut, hwa], hamem, ?_⟩
    intro e he
    have hk : (a.typ = .CNAME ↔ e.typ = .CNAME) :=
      ⟨fun h => absurd h (hcn a hamem), fun h => absurd h (hcn e he)⟩
    exact len_le_of_le_same (hmin e he) hk (by rw [hwa, hall e he])

end AGH.C06
