/-
C08 lemmas: the sequential client lookups of the code (`findMultiple` with
`FindLoose`, `shouldCountClient` with `Find`, both over the id list
`[clientID, realIP]`) always land in the declarative owner set `ownersAt`.
-/
import AGH.Spec.Record
set_option linter.unusedSimpArgs false
set_option linter.unusedVariables false
namespace AGH.C08
open AGH AGH.Bytes

/-! ## `bestNet` picks a minimum of `subnetCompare` -/

theorem before_iff (x y : Prefix) :
    x.before y = true ↔ (x.bits > y.bits ∨ (x.bits = y.bits ∧ toNat x.addr < toNat y.addr)) := by
  simp [Prefix.before]

theorem bestNet_none {l : List (Prefix × PClient)} : bestNet l = none ↔ l = [] := by
  cases l with
  | nil => simp [bestNet]
  | cons x rest =>
    simp only [bestNet]
    cases h : bestNet rest with
    | none => simp
    | some y => by_cases hb : y.1.before x.1 = true <;> simp [hb]

theorem bestNet_some {l : List (Prefix × PClient)} {x : Prefix × PClient} (h : bestNet l = some x) :
    x ∈ l ∧ ∀ y ∈ l, y.1.before x.1 = false := by
  induction l generalizing x with
  | nil => simp [bestNet] at h
  | cons z rest ih =>
    simp only [bestNet] at h
    cases hr : bestNet rest with
    | none =>
      rw [hr] at h
      have hrest : rest = [] := bestNet_none.mp hr
      subst hrest
      simp at h
      subst h
      constructor
      · simp
      · intro y hy
        simp at hy
        subst hy
        cases hb : y.1.before y.1
        · rfl
        · have := (before_iff y.1 y.1).mp hb
          omega
    | some w =>
      rw [hr] at h
      obtain ⟨hw, hmin⟩ := ih hr
      by_cases hb : w.1.before z.1 = true
      · simp [hb] at h
        subst h
        refine ⟨List.mem_cons_of_mem _ hw, ?_⟩
        intro y hy
        rcases List.mem_cons.mp hy with rfl | hy
        · -- z is not before w because w is before z
          cases hzw : y.1.before w.1
          · rfl
          · have h1 := (before_iff _ _).mp hb
            have h2 := (before_iff _ _).mp hzw
            omega
        · exact hmin y hy
      · simp [hb] at h
        subst h
        refine ⟨List.mem_cons_self .., ?_⟩
        intro y hy
        rcases List.mem_cons.mp hy with rfl | hy
        · cases hyy : y.1.before y.1
          · rfl
          · have := (before_iff _ _).mp hyy
            omega
        · -- y is not before w, w is not before z, hence y is not before z
          have h1 := hmin y hy
          cases hyz : y.1.before z.1
          · rfl
          · have a1 := (before_iff _ _).mp hyz
            have n1 : ¬ (y.1.bits > w.1.bits ∨ (y.1.bits = w.1.bits ∧ toNat y.1.addr < toNat w.1.addr)) := by
              intro hh; have := (before_iff _ _).mpr hh; simp [h1] at this
            have n2 : ¬ (w.1.bits > z.1.bits ∨ (w.1.bits = z.1.bits ∧ toNat w.1.addr < toNat z.1.addr)) := by
              intro hh; exact hb ((before_iff _ _).mpr hh)
            omega

/-! ## The id list and the sequential searches -/

/-- `ids` as built from a ClientID and an address. -/
def idsOf (cid a : Bytes) : List QID := if cid ≠ [] then [.cid cid, .ip a] else [.ip a]

theorem queryIDs_eq (q : Query) : queryIDs q = idsOf q.cid (canon q.addr) := rfl

/-- For a ClientID `FindLoose` finds exactly what `Find` finds. -/
theorem storageFindLoose_cid (cs : List PClient) (ls : Leases) (c : Bytes) :
    storageFindLoose cs ls (.cid c) = storageFind cs ls (.cid c) := by
  simp only [storageFindLoose]
  cases storageFind cs ls (.cid c) <;> simp [Option.orElse]

theorem storageFindLoose_ip (cs : List PClient) (ls : Leases) (a : Bytes) :
    storageFindLoose cs ls (.ip a) =
      (match storageFind cs ls (.ip a) with
       | some c => some c
       | none => if (macByIP ls a).isSome then none else byIPZoned cs a) := by
  simp only [storageFindLoose]
  cases storageFind cs ls (.ip a) <;> simp [Option.orElse]

/-- What `Find` finds for the ids of `(cid, a)`. -/
def modelOwner (cs : List PClient) (ls : Leases) (cid a : Bytes) : Option PClient :=
  match (if cid ≠ [] then storageFind cs ls (.cid cid) else none) with
  | some c => some c
  | none => storageFind cs ls (.ip a)

/-- What `FindLoose` finds for them: the same, else a holder of the address under
some zone. -/
def modelOwnerL (cs : List PClient) (ls : Leases) (cid a : Bytes) : Option PClient :=
  match modelOwner cs ls cid a with
  | some c => some c
  | none => if (macByIP ls a).isSome then none else byIPZoned cs a

/-- The owner the statistics' checker uses. -/
def statOwner (loose : Bool) (cs : List PClient) (ls : Leases) (cid a : Bytes) : Option PClient :=
  if loose then modelOwnerL cs ls cid a else modelOwner cs ls cid a

theorem shouldCountClient_eq (loose : Bool) (cs : List PClient) (ls : Leases) (cid a : Bytes) :
    shouldCountClient loose cs ls (idsOf cid a) =
      (match statOwner loose cs ls cid a with | some c => !c.ignStat | none => true) := by
  unfold idsOf statOwner modelOwnerL modelOwner
  cases loose
  · by_cases hc : cid ≠ []
    · rw [if_pos hc, if_pos hc]
      simp only [shouldCountClient, Bool.false_eq_true, if_false]
      cases h1 : storageFind cs ls (.cid cid) with
      | some c => simp
      | none => cases h2 : storageFind cs ls (.ip a) <;> simp
    · rw [if_neg hc, if_neg hc]
      simp only [shouldCountClient, Bool.false_eq_true, if_false]
      cases h2 : storageFind cs ls (.ip a) <;> simp
  · by_cases hc : cid ≠ []
    · rw [if_pos hc, if_pos hc]
      simp only [shouldCountClient, if_true, storageFindLoose_cid, storageFindLoose_ip]
      cases h1 : storageFind cs ls (.cid cid) with
      | some c => simp
      | none =>
        cases h2 : storageFind cs ls (.ip a) with
        | some c => simp
        | none => cases h4 : (macByIP ls a).isSome <;> cases h3 : byIPZoned cs a <;> simp
    · rw [if_neg hc, if_neg hc]
      simp only [shouldCountClient, if_true, storageFindLoose_ip]
      cases h2 : storageFind cs ls (.ip a) with
      | some c => simp
      | none => cases h4 : (macByIP ls a).isSome <;> cases h3 : byIPZoned cs a <;> simp

theorem findMultiple_eq (cs : List PClient) (ls : Leases) (cid a : Bytes) :
    findMultiple cs ls (idsOf cid a) = (modelOwnerL cs ls cid a).map (·.ignLog) := by
  unfold idsOf modelOwnerL modelOwner
  by_cases hc : cid ≠ []
  · rw [if_pos hc, if_pos hc]
    simp only [findMultiple, storageFindLoose_cid, storageFindLoose_ip]
    cases h1 : storageFind cs ls (.cid cid) with
    | some c => simp
    | none =>
      cases h2 : storageFind cs ls (.ip a) with
      | some c => simp
      | none => cases h4 : (macByIP ls a).isSome <;> cases h3 : byIPZoned cs a <;> simp
  · rw [if_neg hc, if_neg hc]
    simp only [findMultiple, storageFindLoose_ip]
    cases h2 : storageFind cs ls (.ip a) with
    | some c => simp
    | none => cases h4 : (macByIP ls a).isSome <;> cases h3 : byIPZoned cs a <;> simp

/-- With the repair both stores attribute every request to the same client. -/
theorem log_stat_same_owner (cs : List PClient) (ls : Leases) (cid a : Bytes) :
    statOwner true cs ls cid a = modelOwnerL cs ls cid a := rfl

/-! ## The searches land in the owner set -/

theorem find?_mem_pred {α : Type} {p : α → Bool} {l : List α} {x : α} (h : l.find? p = some x) :
    x ∈ l ∧ p x = true := ⟨List.mem_of_find?_eq_some h, List.find?_some h⟩

theorem find?_none_of {α : Type} {p : α → Bool} {l : List α} (h : l.find? p = none) :
    ∀ x ∈ l, p x = false := by
  intro x hx
  have := List.find?_eq_none.mp h x hx
  simpa using this

theorem find?_isSome_of {α : Type} {p : α → Bool} {l : List α} {x : α} (hx : x ∈ l) (hp : p x = true) :
    (l.find? p).isSome = true := by
  cases h : l.find? p with
  | some y => rfl
  | none => have := find?_none_of h x hx; simp [hp] at this

/-- The ClientID stage: what it finds is identified by the ClientID; if it finds
nothing, no client is. -/
theorem cidStage_some {cs : List PClient} {ls : Leases} {cid : Bytes} {c : PClient}
    (hc : cid ≠ []) (h : storageFind cs ls (.cid cid) = some c) : c ∈ cs ∧ cidMatch c cid = true := by
  simp only [storageFind, indexFind] at h
  cases h1 : byCid cs cid with
  | some c1 =>
    rw [h1] at h
    simp [Option.orElse] at h
    subst h
    obtain ⟨hm, hp⟩ := find?_mem_pred h1
    refine ⟨hm, ?_⟩
    simp [cidMatch, hc]
    left; simpa using hp
  | none =>
    rw [h1] at h
    simp only [Option.orElse] at h
    cases h2 : parseMAC6 cid with
    | none => rw [h2] at h; simp at h
    | some m =>
      rw [h2] at h
      simp only [Option.bind] at h
      cases h3 : byMAC cs m with
      | none => rw [h3] at h; simp at h
      | some c3 =>
        rw [h3] at h
        simp at h
        subst h
        obtain ⟨hm, hp⟩ := find?_mem_pred h3
        refine ⟨hm, ?_⟩
        simp [cidMatch, hc, h2]
        right; simpa using hp

theorem cidStage_none {cs : List PClient} {ls : Leases} {cid : Bytes}
    (h : storageFind cs ls (.cid cid) = none) : ∀ c ∈ cs, cidMatch c cid = false := by
  intro c hcs
  simp only [storageFind, indexFind] at h
  cases h1 : byCid cs cid with
  | some c1 => rw [h1] at h; simp [Option.orElse] at h
  | none =>
    rw [h1] at h
    simp only [Option.orElse] at h
    have n1 := find?_none_of h1 c hcs
    cases h2 : parseMAC6 cid with
    | none => simp [cidMatch, h2]; intro _; simpa using n1
    | some m =>
      rw [h2] at h
      simp only [Option.bind] at h
      cases h3 : byMAC cs m with
      | some c3 => rw [h3] at h; simp at h
      | none =>
        have n3 := find?_none_of h3 c hcs
        simp [cidMatch, h2]
        intro _
        exact ⟨by simpa using n1, by simpa using n3⟩

theorem filter_eq_nil_of {α : Type} {p : α → Bool} {l : List α} (h : ∀ x ∈ l, p x = false) :
    l.filter p = [] := by
  apply List.filter_eq_nil_iff.mpr
  intro x hx
  simp [h x hx]

theorem mem_filter_of {α : Type} {p : α → Bool} {l : List α} {x : α} (hx : x ∈ l) (hp : p x = true) :
    x ∈ l.filter p := List.mem_filter.mpr ⟨hx, hp⟩

/-- The address stages. -/
theorem ipStage_mem {cs : List PClient} {ls : Leases} {a : Bytes} {c : PClient}
    (h : storageFind cs ls (.ip a) = some c) : c ∈ ownersByAddr cs ls a := by
  unfold ownersByAddr
  simp only [storageFind, indexFind, findByIP] at h
  cases h2 : byIP cs a with
  | some c2 =>
    rw [h2] at h
    simp [Option.orElse] at h
    subst h
    obtain ⟨hm, hp⟩ := find?_mem_pred h2
    have hin : c2 ∈ cs.filter (·.ips.contains a) := mem_filter_of hm hp
    have hne : (cs.filter (·.ips.contains a)).isEmpty = false := by
      cases hl : cs.filter (·.ips.contains a) with
      | nil => rw [hl] at hin; simp at hin
      | cons _ _ => rfl
    simp only [hne]
    simpa using hin
  | none =>
    rw [h2] at h
    simp only [Option.orElse] at h
    have hl2 : cs.filter (·.ips.contains a) = [] := filter_eq_nil_of (find?_none_of h2)
    simp only [hl2, List.isEmpty_nil, Bool.not_true, Bool.false_eq_true, if_false]
    cases h3 : bestNet (netCands cs a) with
    | some pc =>
      simp only [bySubnet, h3, Option.map] at h
      simp at h
      subst h
      obtain ⟨hm, hmin⟩ := bestNet_some h3
      have hne : (netCands cs a).isEmpty = false := by
        cases hl : netCands cs a with
        | nil => rw [hl] at hm; simp at hm
        | cons _ _ => rfl
      simp only [hne, Bool.not_false, if_true]
      apply List.mem_map.mpr
      refine ⟨pc, ?_, rfl⟩
      apply mem_filter_of hm
      apply List.all_eq_true.mpr
      intro y hy
      simp [hmin y hy]
    | none =>
      have hn : netCands cs a = [] := bestNet_none.mp h3
      simp only [bySubnet, h3, Option.map] at h
      simp only [hn, List.isEmpty_nil, Bool.not_true, Bool.false_eq_true, if_false]
      cases h4 : macByIP ls a with
      | none => rw [h4] at h; simp at h
      | some m =>
        rw [h4] at h
        simp only [Option.bind] at h
        obtain ⟨hm, hp⟩ := find?_mem_pred h
        apply mem_filter_of hm
        simp [macMatch, h4]
        simpa using hp

/-- Membership: whatever the sequential search finds is one of the declarative owners. -/
theorem modelOwner_mem {cs : List PClient} {ls : Leases} {cid a : Bytes} {c : PClient}
    (h : modelOwner cs ls cid a = some c) : c ∈ ownersAt cs ls cid a := by
  unfold modelOwner at h
  unfold ownersAt
  by_cases hc : cid ≠ []
  · rw [if_pos hc] at h
    cases h1 : storageFind cs ls (.cid cid) with
    | some c1 =>
      rw [h1] at h
      simp at h
      subst h
      obtain ⟨hm, hp⟩ := cidStage_some hc h1
      have hin : c1 ∈ cs.filter (cidMatch · cid) := mem_filter_of hm hp
      have hne : (cs.filter (cidMatch · cid)).isEmpty = false := by
        cases hl : cs.filter (cidMatch · cid) with
        | nil => rw [hl] at hin; simp at hin
        | cons _ _ => rfl
      simp only [hne]
      simpa using hin
    | none =>
      rw [h1] at h
      have hl1 : cs.filter (cidMatch · cid) = [] := filter_eq_nil_of (cidStage_none h1)
      simp only [hl1, List.isEmpty_nil, Bool.not_true, Bool.false_eq_true, if_false]
      exact ipStage_mem h
  · rw [if_neg hc] at h
    have hcid : cid = [] := by simpa using hc
    have hl1 : cs.filter (cidMatch · cid) = [] := by
      apply filter_eq_nil_of
      intro x _
      simp [cidMatch, hcid]
    simp only [hl1, List.isEmpty_nil, Bool.not_true, Bool.false_eq_true, if_false]
    exact ipStage_mem h

/-- If the address stages find nothing, no client is identified by the address. -/
theorem ipStage_none {cs : List PClient} {ls : Leases} {a : Bytes}
    (h : storageFind cs ls (.ip a) = none) : ownersByAddr cs ls a = [] := by
  unfold ownersByAddr
  simp only [storageFind, indexFind, findByIP] at h
  cases h2 : byIP cs a with
  | some c2 => rw [h2] at h; simp [Option.orElse] at h
  | none =>
    rw [h2] at h
    simp only [Option.orElse] at h
    have hl2 : cs.filter (·.ips.contains a) = [] := filter_eq_nil_of (find?_none_of h2)
    simp only [hl2, List.isEmpty_nil, Bool.not_true, Bool.false_eq_true, if_false]
    cases h3 : bestNet (netCands cs a) with
    | some pc => simp [bySubnet, h3] at h
    | none =>
      have hn : netCands cs a = [] := bestNet_none.mp h3
      simp only [bySubnet, h3, Option.map] at h
      simp only [hn, List.isEmpty_nil, Bool.not_true, Bool.false_eq_true, if_false]
      apply filter_eq_nil_of
      intro c hc
      cases h4 : macByIP ls a with
      | none => simp [macMatch, h4]
      | some m =>
        rw [h4] at h
        simp only [Option.bind] at h
        have := find?_none_of h c hc
        simp [macMatch, h4]
        simpa using this

/-- Completeness: if some client is identified, the sequential search finds one. -/
theorem modelOwner_isSome {cs : List PClient} {ls : Leases} {cid a : Bytes}
    (h : ownersAt cs ls cid a ≠ []) : ∃ c, modelOwner cs ls cid a = some c := by
  cases hm : modelOwner cs ls cid a with
  | some c => exact ⟨c, rfl⟩
  | none =>
    exfalso
    apply h
    unfold modelOwner at hm
    unfold ownersAt
    by_cases hc : cid ≠ []
    · rw [if_pos hc] at hm
      cases h1 : storageFind cs ls (.cid cid) with
      | some c1 => rw [h1] at hm; simp at hm
      | none =>
        rw [h1] at hm
        have hl1 : cs.filter (cidMatch · cid) = [] := filter_eq_nil_of (cidStage_none h1)
        simp only [hl1, List.isEmpty_nil, Bool.not_true, Bool.false_eq_true, if_false]
        exact ipStage_none hm
    · rw [if_neg hc] at hm
      have hcid : cid = [] := by simpa using hc
      have hl1 : cs.filter (cidMatch · cid) = [] := by
        apply filter_eq_nil_of
        intro x _
        simp [cidMatch, hcid]
      simp only [hl1, List.isEmpty_nil, Bool.not_true, Bool.false_eq_true, if_false]
      exact ipStage_none hm

/-- No zoned identifiers: nothing is identified through a zone. -/
theorem zonedOwners_nil_of {cs : List PClient} (h : ∀ p ∈ cs, p.zips = []) (ls : Leases) (a z : Bytes) :
    zonedOwners cs ls a z = [] := by
  have : cs.filter (fun c => c.zips.any (·.1 == a)) = [] := by
    apply filter_eq_nil_of
    intro p hp
    simp [h p hp]
  simp [zonedOwners, this]

/-- The owner the loose search finds is flagged whenever the declarative owner
set is non-empty and all flagged. -/
theorem ownersZ_found {cs : List PClient} {ls : Leases} {cid a z : Bytes} {f : PClient → Bool}
    (hne : (ownersZ cs ls cid a z).isEmpty = false) (hall : ∀ o ∈ ownersZ cs ls cid a z, f o = true) :
    ∃ o, modelOwnerL cs ls cid a = some o ∧ f o = true ∧
      (ownersAt cs ls cid a ≠ [] → modelOwner cs ls cid a = some o) := by
  unfold ownersZ at hne hall
  by_cases ho : (ownersAt cs ls cid a).isEmpty = true
  · -- only a zoned address identifies
    have hoe : ownersAt cs ls cid a = [] := by simpa using ho
    simp only [ho, Bool.not_true, Bool.false_eq_true, if_false] at hne hall
    have hm : modelOwner cs ls cid a = none := by
      cases hm : modelOwner cs ls cid a with
      | none => rfl
      | some c => have := modelOwner_mem hm; rw [hoe] at this; simp at this
    unfold zonedOwners at hne hall
    by_cases hz : (z != [] && (macByIP ls a).isNone && (cs.filter (fun c => c.zips.any (·.1 == a))).all
        (fun c => c.zips.contains (a, z))) = true
    · simp only [hz, if_true] at hne hall
      cases hf : cs.find? (fun c => c.zips.any (·.1 == a)) with
      | none =>
        have := filter_eq_nil_of (find?_none_of hf)
        rw [this] at hne; simp at hne
      | some o =>
        obtain ⟨hmem, hp⟩ := find?_mem_pred hf
        refine ⟨o, ?_, hall o (mem_filter_of hmem hp), fun h => absurd hoe h⟩
        have hl : (macByIP ls a).isSome = false := by
          simp only [Bool.and_eq_true] at hz
          cases hh : macByIP ls a with
          | none => rfl
          | some _ => rw [hh] at hz; simp at hz
        simp [modelOwnerL, hm, byIPZoned, hf, hl]
    · simp only [hz] at hne
      simp at hne
  · have ho' : (ownersAt cs ls cid a).isEmpty = false := by simpa using ho
    simp only [ho', Bool.not_false, if_true] at hne hall
    have hne' : ownersAt cs ls cid a ≠ [] := by
      intro he; rw [he] at ho'; simp at ho'
    obtain ⟨o, hmo⟩ := modelOwner_isSome hne'
    exact ⟨o, by simp [modelOwnerL, hmo], hall o (modelOwner_mem hmo), fun _ => hmo⟩

/-- A query from an ignored client (declaratively, real address with zone) is
found ignored by the query log's finder. -/
theorem fromIgnoredLog_findMultiple {c : Conf} {cid a z : Bytes} (h : fromIgnoredLog c cid a z = true) :
    findMultiple c.clients c.leases (idsOf cid a) = some true := by
  simp only [fromIgnoredLog, Bool.and_eq_true, Bool.not_eq_true', List.all_eq_true] at h
  obtain ⟨o, ho, hf, _⟩ := ownersZ_found h.1 h.2
  rw [findMultiple_eq, ho]
  simp [hf]

/-- The tree carries the repair, or no client is configured with a zoned address. -/
def ZoneOK (c : Conf) : Prop := c.fixZone = true ∨ ∀ p ∈ c.clients, p.zips = []

/-- … and is not counted by the statistics' checker. -/
theorem fromIgnoredStat_shouldCount {c : Conf} {cid a z : Bytes} (hz : ZoneOK c)
    (h : fromIgnoredStat c cid a z = true) :
    shouldCountClient c.fixZone c.clients c.leases (idsOf cid a) = false := by
  simp only [fromIgnoredStat, Bool.and_eq_true, Bool.not_eq_true', List.all_eq_true] at h
  obtain ⟨o, ho, hf, hstrict⟩ := ownersZ_found h.1 h.2
  rw [shouldCountClient_eq]
  rcases hz with hfix | hnz
  · simp [statOwner, hfix, ho, hf]
  · have hown : ownersAt c.clients c.leases cid a ≠ [] := by
      intro he
      have h1 := h.1
      simp [ownersZ, he, zonedOwners_nil_of hnz] at h1
    cases hfz : c.fixZone
    · simp [statOwner, hstrict hown, hf]
    · simp [statOwner, ho, hf]

end AGH.C08
