/-
C17 helper lemmas: `filepath.Clean` on absolute paths is kernel path
resolution in a symlink-free tree; its result has only plain components and
is a fixed point of `Clean`.
-/
import AGH.Spec.SafeFS
namespace AGH.C17
open AGH AGH.Bytes

theorem cleanStack_walk : ∀ (cs acc : List Bytes), (∀ c ∈ acc, c ≠ dotdotC) →
    cleanStack true cs acc = (walk acc.reverse cs).reverse := by
  intro cs
  induction cs with
  | nil => intro acc _; simp [cleanStack, walk]
  | cons c cs ih =>
    intro acc hacc
    unfold cleanStack walk
    by_cases h1 : c = [] ∨ c = dotC
    · rw [if_pos h1, if_pos h1]; exact ih acc hacc
    · rw [if_neg h1, if_neg h1]
      by_cases h2 : c = dotdotC
      · rw [if_pos h2, if_pos h2]
        cases acc with
        | nil => simp only [List.reverse_nil, List.dropLast_nil]; exact ih [] (by simp)
        | cons top st =>
          have htop : top ≠ dotdotC := hacc top (by simp)
          simp only [if_neg htop, List.reverse_cons, List.dropLast_concat]
          exact ih st (fun c hc => hacc c (by simp [hc]))
      · rw [if_neg h2, if_neg h2]
        have := ih (c :: acc) (by
          intro x hx
          simp only [List.mem_cons] at hx
          rcases hx with rfl | hx
          · exact h2
          · exact hacc x hx)
        simpa using this

theorem walk_plain : ∀ (cs cur : List Bytes), (∀ c ∈ cur, plainComp c) → (∀ c ∈ cs, slash ∉ c) →
    ∀ c ∈ walk cur cs, plainComp c := by
  intro cs
  induction cs with
  | nil => intro cur hcur _; simpa [walk] using hcur
  | cons c cs ih =>
    intro cur hcur hcs
    unfold walk
    have hcs' : ∀ c ∈ cs, slash ∉ c := fun x hx => hcs x (by simp [hx])
    by_cases h1 : c = [] ∨ c = dotC
    · rw [if_pos h1]; exact ih cur hcur hcs'
    · rw [if_neg h1]
      by_cases h2 : c = dotdotC
      · rw [if_pos h2]
        exact ih _ (fun x hx => hcur x (List.dropLast_subset _ hx)) hcs'
      · rw [if_neg h2]
        refine ih _ ?_ hcs'
        intro x hx
        simp only [List.mem_append, List.mem_singleton] at hx
        rcases hx with hx | rfl
        · exact hcur x hx
        · simp only [not_or] at h1
          exact ⟨h1.1, h1.2, h2, hcs x (by simp)⟩

theorem walk_of_plain : ∀ (cs cur : List Bytes), (∀ c ∈ cs, plainComp c) → walk cur cs = cur ++ cs := by
  intro cs
  induction cs with
  | nil => intro cur _; simp [walk]
  | cons c cs ih =>
    intro cur h
    have hc := h c (by simp)
    unfold walk
    rw [if_neg (by simp only [not_or]; exact ⟨hc.1, hc.2.1⟩), if_neg hc.2.2.1]
    rw [ih _ (fun x hx => h x (by simp [hx]))]
    simp

theorem splitOn_cons_sep (sep : Nat) (rest : Bytes) : splitOn sep (sep :: rest) = [] :: splitOn sep rest := by
  simp [splitOn]

theorem splitOn_cons_ne {sep b : Nat} {rest : Bytes} (h : b ≠ sep) {p : Bytes} {ps : List Bytes}
    (hs : splitOn sep rest = p :: ps) : splitOn sep (b :: rest) = (b :: p) :: ps := by
  simp [splitOn, h, hs]

theorem splitOn_free (sep : Nat) : ∀ a : Bytes, sep ∉ a → splitOn sep a = [a] := by
  intro a
  induction a with
  | nil => intro _; simp [splitOn]
  | cons b a ih =>
    intro h
    simp only [List.mem_cons, not_or] at h
    exact splitOn_cons_ne (fun hh => h.1 hh.symm) (ih h.2)

theorem splitOn_free_sep (sep : Nat) (rest : Bytes) : ∀ a : Bytes, sep ∉ a →
    splitOn sep (a ++ sep :: rest) = a :: splitOn sep rest := by
  intro a
  induction a with
  | nil => intro _; simp [splitOn]
  | cons b a ih =>
    intro h
    simp only [List.mem_cons, not_or] at h
    rw [List.cons_append]
    exact splitOn_cons_ne (fun hh => h.1 hh.symm) (ih h.2)

theorem splitOn_joinWith (sep : Nat) : ∀ st : List Bytes, st ≠ [] → (∀ c ∈ st, sep ∉ c) →
    splitOn sep (joinWith sep st) = st := by
  intro st
  induction st with
  | nil => intro h; exact absurd rfl h
  | cons a st ih =>
    intro _ h
    cases st with
    | nil => simpa [joinWith] using splitOn_free sep a (h a (by simp))
    | cons b st' =>
      simp only [joinWith]
      rw [splitOn_free_sep sep _ a (h a (by simp))]
      rw [ih (by simp) (fun c hc => h c (by simp [hc]))]

theorem comps_root_join (st : List Bytes) (h : ∀ c ∈ st, plainComp c) :
    comps (slash :: joinWith slash st) = st := by
  unfold comps
  rw [splitOn_cons_sep]
  cases st with
  | nil => simp [joinWith, splitOn]
  | cons a st' =>
    rw [splitOn_joinWith slash (a :: st') (by simp) (fun c hc => (h c hc).2.2.2)]
    simp only [bne_self_eq_false, Bool.false_eq_true, not_false_eq_true, List.filter_cons_of_neg]
    rw [List.filter_eq_self]
    intro c hc
    simpa using (h c hc).1

theorem pathClean_abs {p : Bytes} (h : isAbs p = true) :
    pathClean p = slash :: joinWith slash (resolve p) := by
  cases p with
  | nil => simp [isAbs] at h
  | cons b rest =>
    have hb : b = slash := by simpa [isAbs] using h
    subst hb
    simp only [pathClean, beq_self_eq_true, if_true]
    rw [cleanStack_walk _ [] (by simp)]
    simp [resolve]

theorem resolve_plain (p : Bytes) : ∀ c ∈ resolve p, plainComp c :=
  walk_plain _ [] (by simp) (splitOn_no_sep slash p)

theorem walk_skip_empty (cur : List Bytes) (cs : List Bytes) : walk cur ([] :: cs) = walk cur cs := by
  simp [walk]

theorem walk_filter_empty : ∀ (cs cur : List Bytes), walk cur (cs.filter (· != [])) = walk cur cs := by
  intro cs
  induction cs with
  | nil => intro cur; rfl
  | cons c cs ih =>
    intro cur
    by_cases hc : c = []
    · subst hc
      rw [List.filter_cons]
      simp only [bne_self_eq_false, Bool.false_eq_true, if_false]
      rw [walk_skip_empty]; exact ih cur
    · have : (c != []) = true := by simpa using hc
      rw [List.filter_cons]
      simp only [this, if_true]
      unfold walk
      by_cases h1 : c = [] ∨ c = dotC
      · rw [if_pos h1, if_pos h1]; exact ih cur
      · rw [if_neg h1, if_neg h1]
        by_cases h2 : c = dotdotC
        · rw [if_pos h2, if_pos h2]; exact ih _
        · rw [if_neg h2, if_neg h2]; exact ih _

theorem pathClean_idem {p : Bytes} (h : isAbs p = true) : pathClean (pathClean p) = pathClean p := by
  have h1 := pathClean_abs h
  have habs : isAbs (pathClean p) = true := by rw [h1]; simp [isAbs]
  rw [pathClean_abs habs]
  conv => rhs; rw [h1]
  congr 1; congr 1
  -- resolve (clean p) = resolve p
  unfold resolve
  rw [← walk_filter_empty]
  have := comps_root_join (resolve p) (resolve_plain p)
  unfold comps at this
  rw [h1, this]
  rw [walk_of_plain _ _ (resolve_plain p)]
  simp [resolve]

end AGH.C17
