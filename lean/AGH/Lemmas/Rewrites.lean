/-
Helper lemmas for C06 (rewrites): structure of a sorted permutation of the
candidates, the cut, `setRewriteResult`, and the bridge between the model's
vocabulary and the spec's.  Core Lean only.
-/
import AGH.Spec.Rewrites
namespace AGH.C06
open AGH AGH.Bytes

/-- ASCII literal for the examples. -/
def asc (str : String) : Bytes := str.toList.map Char.toNat

/-- A configured entry `domain → answer`, normalized as the code does; `ip` is
the parsed address (`none` for a name, with the flag saying IPv4). -/
def ent (domain answer : String) (ip : Option Bool := none) : Entry :=
  normalize ⟨asc domain, asc answer, ip.map (fun is4 => (is4, asc answer))⟩

/-! ### wildcard patterns, covering -/

theorem isWildcard_iff (d : Bytes) : isWildcard d = true ↔ ∃ rest, d = 42 :: 46 :: rest := by
  unfold isWildcard
  split
  · simp
  · next h =>
    simp only [Bool.false_eq_true, false_iff]
    rintro ⟨rest, hr⟩
    exact h rest hr

theorem wildSuffix_of_wild {d rest : Bytes} (h : d = 42 :: 46 :: rest) :
    Spec.wildSuffix d = some (46 :: rest) := by
  subst h; rfl

theorem wildSuffix_none_of_not_wild {d : Bytes} (h : isWildcard d = false) :
    Spec.wildSuffix d = none := by
  unfold Spec.wildSuffix
  split
  · next rest => simp [isWildcard] at h
  · rfl

theorem isWild_eq (e : Entry) : Spec.isWild e = isWildcard e.domain := by
  unfold Spec.isWild
  cases h : isWildcard e.domain
  · rw [wildSuffix_none_of_not_wild h]; rfl
  · obtain ⟨rest, hr⟩ := (isWildcard_iff _).mp h
    rw [wildSuffix_of_wild hr]; rfl

theorem covers_eq (e : Entry) (n : Bytes) : Spec.covers e n = matchesHost e n := by
  unfold Spec.covers matchesHost matchDomainWildcard
  cases h : isWildcard e.domain
  · rw [wildSuffix_none_of_not_wild h]; simp
  · obtain ⟨rest, hr⟩ := (isWildcard_iff _).mp h
    rw [wildSuffix_of_wild hr, hr]
    simp [hasSuffix]

theorem covers_fun_eq (n : Bytes) : (fun e => Spec.covers e n) = (fun e => matchesHost e n) := by
  funext e; exact covers_eq e n

/-- A non-wildcard entry covers exactly its own name. -/
theorem domain_eq_of_matches_not_wild {e : Entry} {n : Bytes}
    (hm : matchesHost e n = true) (hw : isWildcard e.domain = false) : e.domain = n := by
  unfold matchesHost matchDomainWildcard at hm
  simpa [hw] using hm

/-- Two wildcard patterns of the same length covering the same name are equal. -/
theorem wild_domain_eq {e f : Entry} {n : Bytes}
    (he : matchesHost e n = true) (hf : matchesHost f n = true)
    (hwe : isWildcard e.domain = true) (hwf : isWildcard f.domain = true)
    (hl : e.domain.length = f.domain.length) : e.domain = f.domain := by
  obtain ⟨re, hre⟩ := (isWildcard_iff _).mp hwe
  obtain ⟨rf, hrf⟩ := (isWildcard_iff _).mp hwf
  have suf : ∀ {g : Entry} {r : Bytes}, g.domain = 42 :: 46 :: r → matchesHost g n = true →
      (46 :: r) <:+ n := by
    intro g r hg hm
    unfold matchesHost matchDomainWildcard at hm
    rcases Bool.or_eq_true _ _ |>.mp hm with h | h
    · have : g.domain = n := by simpa using h
      rw [← this, hg]
      exact List.suffix_cons 42 _
    · have h2 := (Bool.and_eq_true _ _ |>.mp h).2
      rw [hg] at h2
      simpa [hasSuffix] using h2
  have s1 := suf hre he
  have s2 := suf hrf hf
  have hlen : (46 :: re).length = (46 :: rf).length := by
    rw [hre, hrf] at hl; simpa using hl
  have : (46 :: re) = (46 :: rf) := by
    obtain ⟨p1, hp1⟩ := s1
    obtain ⟨p2, hp2⟩ := s2
    have hpl : p1.length = p2.length := by
      have h1 := congrArg List.length hp1
      have h2 := congrArg List.length hp2
      simp only [List.length_append] at h1 h2
      omega
    have := hp1.trans hp2.symm
    exact (List.append_inj this hpl).2
  rw [hre, hrf]
  simp at this
  simp [this]

/-! ### sorted permutations -/

theorem cmp_self (a : Entry) : cmp a a ≤ 0 := by
  rw [cmp_le_iff]; omega

theorem head_le_all {a : Entry} {rest : List Entry}
    (hs : (a :: rest).Pairwise (fun x y => cmp x y ≤ 0)) : ∀ e ∈ a :: rest, cmp a e ≤ 0 := by
  intro e he
  rcases List.mem_cons.mp he with rfl | h
  · exact cmp_self _
  · exact (List.pairwise_cons.mp hs).1 e h

theorem cut_cons_head (a : Entry) (rest : List Entry) : ∃ tl, cut (a :: rest) = a :: tl := by
  simp only [cut]
  split
  · exact ⟨[], rfl⟩
  · exact ⟨_, rfl⟩

/-- What `findRewrites` returns, in terms of the candidates and the minimal
element the sort put first. -/
theorem find_view (srt : Sorter) (tbl : List Entry) (host : Bytes) (qt : Nat) :
    (findRewritesWith srt tbl host qt).2 = tbl.any (matchesHost · host) ∧
    ((candidates tbl host qt = [] ∧ (findRewritesWith srt tbl host qt).1 = []) ∨
     (∃ a rest, srt.sort (candidates tbl host qt) = a :: rest ∧
        (findRewritesWith srt tbl host qt).1 = cut (a :: rest) ∧
        a ∈ candidates tbl host qt ∧ (∀ e ∈ candidates tbl host qt, cmp a e ≤ 0))) := by
  unfold findRewritesWith
  simp only
  by_cases hc : candidates tbl host qt = []
  · simp [hc]
  · have hne : (candidates tbl host qt).isEmpty = false := by
      cases h : candidates tbl host qt with
      | nil => exact absurd h hc
      | cons _ _ => rfl
    rw [hne]
    simp only [Bool.false_eq_true, if_false, true_and]
    right
    cases hs : srt.sort (candidates tbl host qt) with
    | nil =>
      have := (srt.perm (candidates tbl host qt)).length_eq
      rw [hs] at this
      cases h : candidates tbl host qt with
      | nil => exact absurd h hc
      | cons _ _ => rw [h] at this; simp at this
    | cons a rest =>
      refine ⟨a, rest, rfl, rfl, ?_, ?_⟩
      · exact (srt.perm _).subset (by rw [hs]; simp)
      · intro e he
        have hsorted := srt.sorted (candidates tbl host qt)
        rw [hs] at hsorted
        have : e ∈ a :: rest := by rw [← hs]; exact (srt.perm _).symm.subset he
        exact head_le_all hsorted e this

theorem mem_candidates {tbl : List Entry} {host : Bytes} {qt : Nat} {e : Entry} :
    e ∈ candidates tbl host qt ↔ e ∈ tbl ∧ matchesHost e host = true ∧ matchesQType e qt = true := by
  unfold candidates
  simp only [List.mem_filter]
  constructor
  · rintro ⟨⟨h1, h2⟩, h3⟩; exact ⟨h1, h2, h3⟩
  · rintro ⟨h1, h2, h3⟩; exact ⟨⟨h1, h2⟩, h3⟩

theorem matchesQType_cname {e : Entry} (h : e.typ = .CNAME) (qt : Nat) : matchesQType e qt = true := by
  simp [matchesQType, h]

/-- For address-kind entries the code's `matchesQType` is the spec's `applies`. -/
theorem matchesQType_eq_applies {e : Entry} (h : e.typ ≠ .CNAME) (qt : Nat) :
    matchesQType e qt = Spec.applies e qt := by
  unfold matchesQType Spec.applies Spec.isCNAME Spec.family qA qAAAA
  simp only [h, if_false]
  by_cases h1 : qt = 1
  · subst h1
    cases ht : e.typ <;> cases hip : e.ip <;> simp [RType.code, ht] at h ⊢ <;> rfl
  · by_cases h28 : qt = 28
    · subst h28
      cases ht : e.typ <;> cases hip : e.ip <;> simp [RType.code, ht] at h ⊢ <;> rfl
    · simp [h1, h28]

theorem code_eq_iff_family {e : Entry} (h : e.typ ≠ .CNAME) (qt : Nat) :
    e.typ.code = qt → (qt = qA ∨ qt = qAAAA) := by
  intro hc
  cases ht : e.typ <;> simp [RType.code, ht, qA, qAAAA] at h hc ⊢ <;> omega

/-! ### keys of tied / ordered entries -/

theorem cname_of_le_cname {a e : Entry} (h : cmp a e ≤ 0) (he : e.typ = .CNAME) : a.typ = .CNAME := by
  rw [cmp_le_iff] at h
  unfold key at h
  by_cases ha : a.typ = .CNAME
  · exact ha
  · simp [ha, he] at h

theorem not_wild_of_le_not_wild {a e : Entry} (h : cmp a e ≤ 0)
    (hk : (a.typ = .CNAME ↔ e.typ = .CNAME)) (he : isWildcard e.domain = false) :
    isWildcard a.domain = false := by
  rw [cmp_le_iff] at h
  unfold key at h
  cases hw : isWildcard a.domain
  · rfl
  · by_cases ha : a.typ = .CNAME
    · have := hk.mp ha; simp [ha, this, hw, he] at h
    · have : ¬ e.typ = .CNAME := fun x => ha (hk.mpr x)
      simp [ha, this, hw, he] at h

theorem len_le_of_le_same {a e : Entry} (h : cmp a e ≤ 0)
    (hk : (a.typ = .CNAME ↔ e.typ = .CNAME)) (hw : isWildcard a.domain = isWildcard e.domain) :
    e.domain.length ≤ a.domain.length := by
  rw [cmp_le_iff] at h
  unfold key at h
  by_cases ha : a.typ = .CNAME
  · have := hk.mp ha
    simp [ha, this, hw] at h
    exact h
  · have : ¬ e.typ = .CNAME := fun x => ha (hk.mpr x)
    simp [ha, this, hw] at h
    exact h

/-! ### multisets of addresses -/

theorem subMultiset_of_perm {a b : List Bytes} (h : a.Perm b) : Spec.subMultiset a b = true := by
  induction a generalizing b with
  | nil => rfl
  | cons x xs ih =>
    have hx : x ∈ b := h.subset (by simp)
    have hp : xs.Perm (b.erase x) := (List.cons_perm_iff_perm_erase.mp h).2
    simp [Spec.subMultiset, hx, ih hp]

theorem sameMultiset_of_perm {a b : List Bytes} (h : a.Perm b) : Spec.sameMultiset a b = true := by
  simp [Spec.sameMultiset, h.length_eq, subMultiset_of_perm h]

/-! ### setRewriteResult -/

theorem setRewriteResult_view (res : Out) (l : List Entry) (qt : Nat)
    (hl : ∀ e ∈ l, e.typ ≠ .CNAME) :
    (l.any (Spec.passesFamily · qt) = true → (setRewriteResult res l qt).rewritten = false) ∧
    (l.any (Spec.passesFamily · qt) = false →
      setRewriteResult res l qt = { res with ips := res.ips ++ l.filterMap (Spec.value · qt) }) := by
  induction l generalizing res with
  | nil => simp [setRewriteResult]
  | cons e es ih =>
    have hes : ∀ x ∈ es, x.typ ≠ .CNAME := fun x hx => hl x (List.mem_cons_of_mem _ hx)
    have hne : e.typ ≠ .CNAME := hl e (by simp)
    unfold setRewriteResult
    by_cases hc : e.typ.code = qt
    · have hq := code_eq_iff_family hne qt hc
      rw [if_pos ⟨hc, hq⟩]
      cases hip : e.ip with
      | none =>
        simp [Spec.passesFamily, hip, hc]
      | some ip =>
        have hpf : Spec.passesFamily e qt = false := by simp [Spec.passesFamily, hip]
        have hv : Spec.value e qt = some ip := by simp [Spec.value, hc, hip]
        simp only [List.any_cons, hpf, Bool.false_or, List.filterMap_cons, hv]
        refine ⟨(ih _ hes).1, ?_⟩
        intro hno
        rw [(ih _ hes).2 hno]
        simp
    · have hcond : ¬ (e.typ.code = qt ∧ (qt = qA ∨ qt = qAAAA)) := fun h => hc h.1
      rw [if_neg hcond]
      have hpf : Spec.passesFamily e qt = false := by simp [Spec.passesFamily, hc]
      have hv : Spec.value e qt = none := by simp [Spec.value, hc]
      simp only [List.any_cons, hpf, Bool.false_or, List.filterMap_cons, hv]
      exact ih _ hes

/-- Addresses in the result come from entries of the list with the requested type. -/
theorem setRewriteResult_ips (res : Out) (l : List Entry) (qt : Nat) (ip : Bytes)
    (h : ip ∈ (setRewriteResult res l qt).ips) :
    ip ∈ res.ips ∨ ∃ e ∈ l, e.ip = some ip ∧ e.typ.code = qt ∧ (qt = qA ∨ qt = qAAAA) := by
  induction l generalizing res with
  | nil => left; simpa [setRewriteResult] using h
  | cons e es ih =>
    unfold setRewriteResult at h
    split at h
    · next hc =>
      split at h
      · left; simpa using h
      · next ipv hip =>
        rcases ih _ h with h' | ⟨x, hx, hx2⟩
        · simp at h'
          rcases h' with h' | h'
          · left; exact h'
          · right; exact ⟨e, by simp, by rw [hip, h'], hc.1, hc.2⟩
        · right; exact ⟨x, List.mem_cons_of_mem _ hx, hx2⟩
    · rcases ih _ h with h' | ⟨x, hx, hx2⟩
      · left; exact h'
      · right; exact ⟨x, List.mem_cons_of_mem _ hx, hx2⟩

theorem setRewriteResult_canon (res : Out) (l : List Entry) (qt : Nat) :
    (setRewriteResult res l qt).canon = res.canon := by
  induction l generalizing res with
  | nil => simp [setRewriteResult]
  | cons e es ih =>
    unfold setRewriteResult
    split
    · split
      · rfl
      · rw [ih]
    · rw [ih]

/-! ### the cut of a sorted list without CNAME entries -/

theorem takeWhile_eq_filter_of_sorted (s : List Entry)
    (hs : s.Pairwise (fun x y => cmp x y ≤ 0)) (hn : ∀ e ∈ s, e.typ ≠ .CNAME) :
    s.takeWhile (fun r => !isWildcard r.domain) = s.filter (fun r => !isWildcard r.domain) := by
  induction s with
  | nil => rfl
  | cons x xs ih =>
    have hp := List.pairwise_cons.mp hs
    have hxs : ∀ e ∈ xs, e.typ ≠ .CNAME := fun e he => hn e (List.mem_cons_of_mem _ he)
    cases hw : isWildcard x.domain
    · simp [List.takeWhile_cons, List.filter_cons, hw, ih hp.2 hxs]
    · simp only [List.takeWhile_cons, List.filter_cons, hw, Bool.not_true, Bool.false_eq_true, if_false]
      symm
      rw [List.filter_eq_nil_iff]
      intro y hy
      have hxy := hp.1 y hy
      have hk : (x.typ = .CNAME ↔ y.typ = .CNAME) :=
        ⟨fun h => absurd h (hn x (by simp)), fun h => absurd h (hxs y hy)⟩
      cases hwy : isWildcard y.domain
      · have := not_wild_of_le_not_wild hxy hk hwy
        rw [hw] at this; cases this
      · simp

end AGH.C06
