/-
C05 — lemmas about the lock machine, part 4: ranked lock order WITH GATE LOCKS
(`rankOKg`).  An acquisition of a gated lock whose gate is held exclusively
can only be delayed by a LEAF holder (a goroutine whose next event releases the
lock), never by a goroutine that itself waits, so it is exempt from the rank
rule; everything else is as in `AGH.Lemmas.LocksProgress`.  Proved here, for all programs and all
interleavings: progress (`order_sound_gated`), no wait-for cycle
(`no_wait_cycle_gated`), table obligations + conformance give the discipline
(`rank_of_conforms_gated`), and the ungated discipline is the special case
without gates (`rankOKg_none`).  Core Lean only.
-/
import AGH.Lemmas.LocksExec
namespace AGH.C05

/-! ### the ungated discipline is the special case without gates -/

theorem relOK_none (held : List (Lock × Mode)) : relOK (fun _ => none) held = true := by
  unfold relOK
  rw [List.all_eq_true]
  intro h _
  rfl

theorem rankOKg_none (rank : Lock → Nat) (held : List (Lock × Mode)) (t : List Event) :
    rankOKg rank (fun _ => none) held t = rankOK rank held t := by
  induction t generalizing held with
  | nil => rfl
  | cons e r ih =>
    cases e with
    | acq l m =>
      show ((gateHeldOK (fun _ => none) held l || leafNext l m r) &&
          (exemptB (fun _ => none) held l || held.all (fun h => rank h.1 < rank l)) &&
          rankOKg rank (fun _ => none) ((l, m) :: held) r) =
        (held.all (fun h => rank h.1 < rank l) && rankOK rank ((l, m) :: held) r)
      rw [ih]
      show (true && (false || held.all (fun h => rank h.1 < rank l)) &&
          rankOK rank ((l, m) :: held) r) = _
      rw [Bool.false_or, Bool.true_and]
    | rel l m =>
      show (held.contains (l, m) && relOK (fun _ => none) (held.erase (l, m)) &&
          rankOKg rank (fun _ => none) (held.erase (l, m)) r) =
        (held.contains (l, m) && rankOK rank (held.erase (l, m)) r)
      rw [ih, relOK_none, Bool.and_true]
    | rd x => exact ih held
    | wr x => exact ih held

theorem progRankedG_none (rank : Lock → Nat) (p : Prog) :
    progRankedG rank (fun _ => none) p = progRanked rank p := by
  unfold progRankedG progRanked
  congr 1
  funext t
  exact rankOKg_none rank [] t

/-! ### gate facts about one `held` list -/

theorem gateHeldOK_iff {gate : Lock → Option Lock} {held : List (Lock × Mode)} {l : Lock} :
    gateHeldOK gate held l = true ↔
      ∀ g, gate l = some g → held.any (fun h => h.1 == g) = true := by
  unfold gateHeldOK
  cases gate l with
  | none => simp
  | some g => simp

theorem exemptB_iff {gate : Lock → Option Lock} {held : List (Lock × Mode)} {l : Lock} :
    exemptB gate held l = true ↔
      ∃ g, gate l = some g ∧ held.contains (g, Mode.excl) = true ∧
        held.any (fun h => h.1 == l) = false := by
  unfold exemptB
  cases gate l with
  | none => simp
  | some g => simp

theorem gateHeldOK_cons {gate : Lock → Option Lock} {held : List (Lock × Mode)} {l : Lock}
    (x : Lock × Mode) (h : gateHeldOK gate held l = true) :
    gateHeldOK gate (x :: held) l = true := by
  rw [gateHeldOK_iff] at h ⊢
  intro g hg
  rw [List.any_cons, h g hg, Bool.or_true]

/-! ### the gated discipline is maintained -/

/-- Every gated lock held has its gate held, or is a leaf hold: the thread's
next event releases it. -/
def leafInv (gate : Lock → Option Lock) (t : Thread) : Bool :=
  t.held.all (fun h => gateHeldOK gate t.held h.1 || t.rest.head? == some (Event.rel h.1 h.2))

/-- The per-thread invariant: the remaining events obey the gated rank
discipline, and every gated lock held has its gate held or is a leaf hold. -/
def GOK (rank : Lock → Nat) (gate : Lock → Option Lock) (t : Thread) : Prop :=
  rankOKg rank gate t.held t.rest = true ∧ leafInv gate t = true

/-- Unless the thread is about to release, every gated lock held has its gate held. -/
theorem leafInv_not_rel {gate : Lock → Option Lock} {t : Thread}
    (h : leafInv gate t = true) (hnr : ∀ l m, t.rest.head? ≠ some (Event.rel l m)) :
    ∀ x ∈ t.held, gateHeldOK gate t.held x.1 = true := by
  intro x hx
  unfold leafInv at h
  have := List.all_eq_true.1 h x hx
  rw [Bool.or_eq_true] at this
  rcases this with h1 | h2
  · exact h1
  · exact absurd (by simpa using h2) (hnr x.1 x.2)

theorem gok_advance (rank : Lock → Nat) (gate : Lock → Option Lock) (t : Thread)
    (h : GOK rank gate t) : GOK rank gate (advance t) := by
  obtain ⟨h1, h2⟩ := h
  cases hrest : t.rest with
  | nil =>
    have : advance t = t := by unfold advance; rw [hrest]
    rw [this]; exact ⟨h1, h2⟩
  | cons e r =>
    cases e with
    | acq l m =>
      have hold := leafInv_not_rel h2 (by intro l' m'; rw [hrest]; simp)
      have hadv : advance t = { held := (l, m) :: t.held, announced := false, rest := r } := by
        unfold advance; rw [hrest]
      rw [hrest] at h1
      simp only [rankOKg, Bool.and_eq_true, Bool.or_eq_true] at h1
      rw [hadv]
      refine ⟨h1.2, ?_⟩
      unfold leafInv
      simp only
      rw [List.all_cons, Bool.and_eq_true]
      constructor
      · rw [Bool.or_eq_true]
        rcases h1.1.1 with hg | hl
        · exact Or.inl (gateHeldOK_cons _ hg)
        · exact Or.inr hl
      · rw [List.all_eq_true]
        intro x hx
        rw [gateHeldOK_cons _ (hold x hx), Bool.true_or]
    | rel l m =>
      have hadv : advance t = { t with held := t.held.erase (l, m), rest := r } := by
        unfold advance; rw [hrest]
      rw [hrest] at h1
      simp only [rankOKg, Bool.and_eq_true] at h1
      rw [hadv]
      refine ⟨h1.2, ?_⟩
      unfold leafInv
      simp only
      rw [List.all_eq_true]
      intro x hx
      have := List.all_eq_true.1 h1.1.2 x hx
      rw [this, Bool.true_or]
    | rd y =>
      have hold := leafInv_not_rel h2 (by intro l' m'; rw [hrest]; simp)
      have hadv : advance t = { t with rest := r } := by unfold advance; rw [hrest]
      rw [hrest] at h1
      rw [hadv]
      refine ⟨h1, ?_⟩
      unfold leafInv
      simp only
      rw [List.all_eq_true]
      intro x hx
      rw [hold x hx, Bool.true_or]
    | wr y =>
      have hold := leafInv_not_rel h2 (by intro l' m'; rw [hrest]; simp)
      have hadv : advance t = { t with rest := r } := by unfold advance; rw [hrest]
      rw [hrest] at h1
      rw [hadv]
      refine ⟨h1, ?_⟩
      unfold leafInv
      simp only
      rw [List.all_eq_true]
      intro x hx
      rw [hold x hx, Bool.true_or]

theorem gok_reach (rank : Lock → Nat) (gate : Lock → Option Lock) (p : Prog)
    (h : progRankedG rank gate p = true) :
    ∀ s, Reach (init p) s → ∀ t ∈ s, GOK rank gate t := by
  apply reach_forall_thread (GOK rank gate)
  · intro t ht
    unfold init at ht
    obtain ⟨evs, hevs, rfl⟩ := List.mem_map.1 ht
    exact ⟨List.all_eq_true.1 h evs hevs, rfl⟩
  · exact gok_advance rank gate
  · intro t ht; exact ht

/-! ### what the gated discipline says about one thread -/

/-- In front of an acquisition: the acquisition is exempt or every lock held
has a smaller rank. -/
theorem gok_acq {rank : Lock → Nat} {gate : Lock → Option Lock} {t : Thread} {l : Lock} {m : Mode}
    {r : List Event} (h : rankOKg rank gate t.held t.rest = true) (hr : t.rest = Event.acq l m :: r) :
    exemptB gate t.held l = true ∨ ∀ l' : Lock, holdsAny t l' = true → rank l' < rank l := by
  rw [hr] at h
  simp only [rankOKg, Bool.and_eq_true, Bool.or_eq_true] at h
  rcases h.1.2 with hex | hall
  · exact Or.inl hex
  · right
    intro l' hl'
    obtain ⟨m', hm'⟩ := holdsAny_iff.1 hl'
    have := List.all_eq_true.1 hall (l', m') hm'
    simpa using this

theorem rankg_finished {rank : Lock → Nat} {gate : Lock → Option Lock} {t : Thread}
    (h : rankOKg rank gate t.held t.rest = true) (hr : t.rest = []) : t.held = [] := by
  rw [hr] at h
  simp only [rankOKg] at h
  exact List.isEmpty_iff.1 h

/-- A holder of a gated lock holds its gate, or is about to release the lock. -/
theorem holder_gate_or_leaf {gate : Lock → Option Lock} {t : Thread} {l g : Lock}
    (h : leafInv gate t = true) (hl : holdsAny t l = true) (hg : gate l = some g) :
    holdsAny t g = true ∨ ∃ m r, (l, m) ∈ t.held ∧ t.rest = Event.rel l m :: r := by
  obtain ⟨m, hm⟩ := holdsAny_iff.1 hl
  unfold leafInv at h
  have := List.all_eq_true.1 h (l, m) hm
  rw [Bool.or_eq_true] at this
  rcases this with h1 | h2
  · exact Or.inl (gateHeldOK_iff.1 h1 g hg)
  · right
    cases hrest : t.rest with
    | nil => rw [hrest] at h2; simp at h2
    | cons e r =>
      rw [hrest] at h2
      simp only [List.head?_cons, beq_iff_eq, Option.some.injEq] at h2
      exact ⟨m, r, hm, by rw [h2]⟩

theorem blocked_cases_g {rank : Lock → Nat} {gate : Lock → Option Lock} {s : State} {t : Thread}
    (h : rankOKg rank gate t.held t.rest = true) (hb : enabled s t = false) :
    t.rest = [] ∨ ∃ l m r, t.rest = Event.acq l m :: r ∧ canAcq s l m = false := by
  obtain ⟨held, ann, rest⟩ := t
  cases rest with
  | nil => exact Or.inl rfl
  | cons e r =>
    cases e with
    | acq l m => exact Or.inr ⟨l, m, r, rfl, hb⟩
    | rel l m =>
      simp only [rankOKg, Bool.and_eq_true] at h
      simp only [enabled] at hb
      rw [h.1.1] at hb; cases hb
    | rd x => simp [enabled] at hb
    | wr x => simp [enabled] at hb

/-! ### exempt acquisitions are only delayed by leaf holders -/

/-- KEY LEMMA.  In a state where mutual exclusion and the gated discipline hold,
a holder of a lock that another thread is about to acquire under the exemption
(gate held exclusively, lock not held by that thread itself) is a leaf holder:
its next event releases the lock (otherwise it would hold the gate too). -/
theorem exempt_holder_leaf {rank : Lock → Nat} {gate : Lock → Option Lock} {s : State}
    (hmx : MutexInv s) (hg : ∀ t ∈ s, GOK rank gate t)
    {i k : Nat} {ti tk : Thread} {l : Lock}
    (hi : s[i]? = some ti) (hex : exemptB gate ti.held l = true)
    (hk : s[k]? = some tk) (hl : holdsAny tk l = true) :
    ∃ m r, (l, m) ∈ tk.held ∧ tk.rest = Event.rel l m :: r := by
  obtain ⟨g, hgl, hge, hnl⟩ := exemptB_iff.1 hex
  have hexcl : holdsExcl ti g = true := hge
  have hnl' : holdsAny ti l = false := hnl
  have hik : i ≠ k := by
    intro hik
    subst hik
    rw [hi] at hk
    have : ti = tk := Option.some.inj hk
    subst this
    rw [hl] at hnl'; cases hnl'
  rcases holder_gate_or_leaf (hg tk (List.mem_of_getElem? hk)).2 hl hgl with h1 | h2
  · have h2 := hmx i k ti tk g hik hi hk hexcl
    rw [h1] at h2; cases h2
  · exact h2

/-- A leaf holder can move. -/
theorem leaf_enabled {s : State} {t : Thread} {l : Lock} {m : Mode} {r : List Event}
    (hm : (l, m) ∈ t.held) (hr : t.rest = Event.rel l m :: r) : enabled s t = true := by
  unfold enabled
  rw [hr]
  exact List.contains_iff_mem.2 hm

/-- When nobody can move, exempt acquisitions are not refused, so a thread whose
acquisition is refused holds only locks of smaller rank. -/
theorem rank_waiting_g {rank : Lock → Nat} {gate : Lock → Option Lock} {s : State}
    (hmx : MutexInv s) (hg : ∀ t ∈ s, GOK rank gate t) (hall : ∀ t ∈ s, enabled s t = false)
    {i : Nat} {ti : Thread} {l : Lock} {m : Mode} {r : List Event}
    (hi : s[i]? = some ti) (hr : ti.rest = Event.acq l m :: r) (hc : canAcq s l m = false) :
    ∀ l' : Lock, holdsAny ti l' = true → rank l' < rank l := by
  rcases gok_acq (hg ti (List.mem_of_getElem? hi)).1 hr with hex | h
  · exfalso
    obtain ⟨u, hu, hul⟩ := refused_has_holder hall hc
    obtain ⟨k, hk⟩ := List.mem_iff_getElem?.1 hu
    obtain ⟨mu, ru, hmu, hru⟩ := exempt_holder_leaf hmx hg hi hex hk hul
    have := hall u hu
    rw [leaf_enabled hmu hru] at this; cases this
  · exact h

/-- When nobody can move, a thread that holds `l` waits for a lock of strictly
larger rank. -/
theorem holder_waits_higher_g {rank : Lock → Nat} {gate : Lock → Option Lock} {s : State}
    (hmx : MutexInv s) (hg : ∀ t ∈ s, GOK rank gate t) (hall : ∀ t ∈ s, enabled s t = false)
    {u : Thread} {l : Lock} (hu : u ∈ s) (hl : holdsAny u l = true) :
    ∃ l' m' r', u.rest = Event.acq l' m' :: r' ∧ rank l < rank l' := by
  rcases blocked_cases_g (hg u hu).1 (hall u hu) with hnil | ⟨l', m', r', hr, hc⟩
  · have := rankg_finished (hg u hu).1 hnil
    obtain ⟨m, hm⟩ := holdsAny_iff.1 hl
    rw [this] at hm; cases hm
  · obtain ⟨k, hk⟩ := List.mem_iff_getElem?.1 hu
    exact ⟨l', m', r', hr, rank_waiting_g hmx hg hall hk hr hc l hl⟩

/-! ### progress -/

/-- 2g. Ranked lock order with gate locks + balanced releases is sufficient for
deadlock freedom (progress). -/
theorem order_sound_gated (rank : Lock → Nat) (gate : Lock → Option Lock) (p : Prog)
    (h : progRankedG rank gate p = true) : ∀ s, Reach (init p) s → ¬ Deadlock s := by
  intro s hr hdl
  have hg := gok_reach rank gate p h s hr
  have hmx := mutexInv_reach p s hr
  obtain ⟨hunf, hnone⟩ := hdl
  have hall := all_blocked_of_deadlock hnone
  unfold unfinished at hunf
  obtain ⟨t0, ht0, hne0⟩ := List.any_eq_true.1 hunf
  have hsne : s ≠ [] := by intro hs; rw [hs] at ht0; cases ht0
  obtain ⟨a, ha, hmax⟩ := exists_max (awaitKey rank) s hsne
  have hk0 : 1 ≤ awaitKey rank t0 := by
    rcases blocked_cases_g (hg t0 ht0).1 (hall t0 ht0) with hnil | ⟨l, m, r, hr0, _⟩
    · rw [hnil] at hne0; simp at hne0
    · rw [awaitKey_acq hr0]; exact Nat.succ_le_succ (Nat.zero_le _)
  have hka : 1 ≤ awaitKey rank a := Nat.le_trans hk0 (hmax t0 ht0)
  rcases blocked_cases_g (hg a ha).1 (hall a ha) with hnil | ⟨l, m, r, hra, hca⟩
  · unfold awaitKey at hka; rw [hnil] at hka; cases hka
  · obtain ⟨u, hu, hul⟩ := refused_has_holder hall hca
    obtain ⟨l', m', r', hru, hlt⟩ := holder_waits_higher_g hmx hg hall hu hul
    have := hmax u hu
    rw [awaitKey_acq hra, awaitKey_acq hru] at this
    omega

/-! ### no wait-for cycle -/

/-- A thread that waits for a thread that itself waits is at a NON-exempt
acquisition: the holder it waits for is not a leaf holder. -/
theorem waiter_rank_g {rank : Lock → Nat} {gate : Lock → Option Lock} {s : State}
    (hmx : MutexInv s) (hg : ∀ t ∈ s, GOK rank gate t) {i k k' : Nat}
    (h1 : WaitsFor s i k) (h2 : WaitsFor s k k') :
    ∃ ti l m r, s[i]? = some ti ∧ ti.rest = Event.acq l m :: r ∧
      ∀ l' : Lock, holdsAny ti l' = true → rank l' < rank l := by
  obtain ⟨ti, tk, l, m, r, hi, hk, hri, _, hhold⟩ := h1
  obtain ⟨tk', _, l', m', r', hk', _, hrk', _, _⟩ := h2
  rw [hk] at hk'
  have : tk = tk' := Option.some.inj hk'
  subst this
  refine ⟨ti, l, m, r, hi, hri, ?_⟩
  rcases gok_acq (hg ti (List.mem_of_getElem? hi)).1 hri with hex | h
  · exfalso
    obtain ⟨mk, rk, _, hrel⟩ := exempt_holder_leaf hmx hg hi hex hk hhold
    rw [hrk'] at hrel; cases hrel
  · exact h

theorem waitsFor_rank_lt_g {rank : Lock → Nat} {gate : Lock → Option Lock} {s : State}
    (hmx : MutexInv s) (hg : ∀ t ∈ s, GOK rank gate t) {i k k' k'' : Nat}
    (h1 : WaitsFor s i k) (h2 : WaitsFor s k k') (h3 : WaitsFor s k' k'') :
    awaited rank s i < awaited rank s k := by
  obtain ⟨tk', l', m', r', hk', hrk', hlt⟩ := waiter_rank_g (rank := rank) hmx hg h2 h3
  obtain ⟨ti, tk, l, m, r, hi, hk, hri, _, hhold⟩ := h1
  rw [hk] at hk'
  have : tk = tk' := Option.some.inj hk'
  subst this
  have hlt := hlt l hhold
  unfold awaited
  rw [hi, hk]
  simp only
  rw [awaitKey_acq hri, awaitKey_acq hrk']
  omega

/-- The first two edges of a chain whose end point waits too. -/
theorem waitChain_first_two {s : State} {i j : Nat} (h : WaitChain s i j)
    (hj : ∃ j', WaitsFor s j j') : ∃ k k', WaitsFor s i k ∧ WaitsFor s k k' := by
  cases h with
  | one h =>
    obtain ⟨j', hj'⟩ := hj
    exact ⟨_, j', h, hj'⟩
  | cons h hc =>
    obtain ⟨k', hk'⟩ := waitChain_first hc
    exact ⟨_, k', h, hk'⟩

theorem waitChain_rank_lt_g {rank : Lock → Nat} {gate : Lock → Option Lock} {s : State}
    (hmx : MutexInv s) (hg : ∀ t ∈ s, GOK rank gate t) {i j : Nat}
    (h : WaitChain s i j) :
    ∀ j' j'', WaitsFor s j j' → WaitsFor s j' j'' → awaited rank s i < awaited rank s j := by
  induction h with
  | one h => intro j' j'' hj hj'; exact waitsFor_rank_lt_g hmx hg h hj hj'
  | cons h hc ih =>
    intro j' j'' hj hj'
    obtain ⟨k', k'', hk', hk''⟩ := waitChain_first_two hc ⟨j', hj⟩
    exact Nat.lt_trans (waitsFor_rank_lt_g hmx hg h hk' hk'') (ih j' j'' hj hj')

/-- 3g. ... and no wait-for cycle in any reachable state. -/
theorem no_wait_cycle_gated (rank : Lock → Nat) (gate : Lock → Option Lock) (p : Prog)
    (h : progRankedG rank gate p = true) : ∀ s, Reach (init p) s → ∀ i, ¬ WaitChain s i i := by
  intro s hr i hc
  have hg := gok_reach rank gate p h s hr
  have hmx := mutexInv_reach p s hr
  obtain ⟨k, k', hk, hk'⟩ := waitChain_first_two hc (waitChain_first hc)
  exact Nat.lt_irrefl _ (waitChain_rank_lt_g hmx hg hc k k' hk hk')

/-! ### table obligations + conformance give the gated discipline -/

theorem rank_of_conforms_gated (ranks edges gates : List (Nat × Nat)) (acqs : List AcqRow)
    (he : edgesRanked ranks edges = true) (hg : acqsGated gates acqs = true) :
    ∀ (t : List LEvent) (held : List (Lock × Mode)), conformsOrdG edges gates acqs held t = true →
      rankOKg (rankOf ranks) (gateFn gates) held (eraseLabels t) = true := by
  intro t
  induction t with
  | nil => intro held hc; exact hc
  | cons ev r ih =>
    intro held hc
    obtain ⟨e, σ⟩ := ev
    cases e with
    | acq l m =>
      simp only [conformsOrdG, Bool.and_eq_true, Bool.or_eq_true] at hc
      obtain ⟨⟨hgate, hrk⟩, hrest⟩ := hc
      show ((gateHeldOK (gateFn gates) held l || leafNext l m (eraseLabels r)) &&
          (exemptB (gateFn gates) held l ||
            held.all (fun h => rankOf ranks h.1 < rankOf ranks l)) &&
          rankOKg (rankOf ranks) (gateFn gates) ((l, m) :: held) (eraseLabels r)) = true
      rw [ih _ hrest, Bool.and_true, Bool.and_eq_true]
      constructor
      · -- the gate is held, or the hold is a leaf hold
        rw [Bool.or_eq_true]
        cases hgl : lookup gates l with
        | none =>
          left
          rw [gateHeldOK_iff]
          intro g hg'
          have hg'' : lookup gates l = some g := hg'
          rw [hgl] at hg''; cases hg''
        | some g =>
          rcases hgate with hnone | hany
          · rw [hgl] at hnone; cases hnone
          · obtain ⟨a, ha, hrow⟩ := List.any_eq_true.1 hany
            simp only [Bool.and_eq_true, Bool.or_eq_true] at hrow
            obtain ⟨⟨⟨⟨⟨_, hlock⟩, hk⟩, hleaf⟩, hsh⟩, hexh⟩ := hrow
            have hlock' : a.lock = l := by simpa using hlock
            have hk' : a.known = false := by simpa using hk
            cases hlf : a.leaf with
            | true =>
              right
              rcases hleaf with hleaf | hleaf
              · rw [hlf] at hleaf; cases hleaf
              · exact hleaf
            | false =>
              left
              rw [gateHeldOK_iff]
              intro g' hg'
              have hg'' : lookup gates l = some g' := hg'
              rw [hgl] at hg''
              have : g = g' := Option.some.inj hg''
              subst this
              have hrow := List.all_eq_true.1 hg a ha
              rw [hk', hlf, Bool.false_or, Bool.false_or, hlock', hgl] at hrow
              simp only [Bool.or_eq_true] at hrow
              rcases hrow with hin | hin
              · have := List.all_eq_true.1 hsh g (List.contains_iff_mem.1 hin)
                simp only [holdsMode, Bool.or_eq_true] at this
                rcases this with hm | hm
                · exact List.any_eq_true.2 ⟨_, List.contains_iff_mem.1 hm, by simp⟩
                · exact List.any_eq_true.2 ⟨_, List.contains_iff_mem.1 hm, by simp⟩
              · have := List.all_eq_true.1 hexh g (List.contains_iff_mem.1 hin)
                simp only [holdsMode] at this
                exact List.any_eq_true.2 ⟨_, List.contains_iff_mem.1 this, by simp⟩
      · rw [Bool.or_eq_true]
        rcases hrk with hex | hed
        · exact Or.inl hex
        · right
          rw [List.all_eq_true]
          intro h hh
          have hmem := List.contains_iff_mem.1 (List.all_eq_true.1 hed h hh)
          have := List.all_eq_true.1 he _ hmem
          simpa using this
    | rel l m =>
      simp only [conformsOrdG, Bool.and_eq_true] at hc
      show (held.contains (l, m) && relOK (gateFn gates) (held.erase (l, m)) &&
          rankOKg (rankOf ranks) (gateFn gates) (held.erase (l, m)) (eraseLabels r)) = true
      rw [hc.1.1, hc.1.2, ih _ hc.2]
      rfl
    | rd x => exact ih _ hc
    | wr x => exact ih _ hc

end AGH.C05
