/-
C20 helper lemmas, part 9: every model step keeps the simulation between the
spec promise and the reader state, and its observation passes the monitor.
Core only.
-/
import AGH.Lemmas.QLogSimA
namespace AGH.C20
open AGH

/-! ### the number of file states never changes -/

theorem rSeekStart_length (fs : List File) (r : RState) :
    (rSeekStart fs r).files.length = r.files.length := by
  unfold rSeekStart
  split <;> simp

theorem rReadLoop_length (P : Params) (fs : List File) :
    ∀ (c : Nat) (files : List QState), (rReadLoop P fs files c).1.files.length = files.length := by
  intro c
  induction c with
  | zero => intro files; simp [rReadLoop]
  | succ c ih =>
    intro files
    rw [rReadLoop]
    split
    · simp
    · split
      · simp
      · rw [ih]; simp

theorem rReadNext_length (P : Params) (fs : List File) (r : RState) :
    (rReadNext P fs r).1.files.length = r.files.length := by
  unfold rReadNext
  split
  · rfl
  · exact rReadLoop_length P fs _ _

theorem rReadMany_length (P : Params) (fs : List File) :
    ∀ (n : Nat) (r : RState) (acc : List (Nat × Nat × Nat)),
      (rReadMany P fs n r acc).1.files.length = r.files.length := by
  intro n
  induction n with
  | zero => intro r acc; simp [rReadMany]
  | succ n ih =>
    intro r acc
    rw [rReadMany]
    have := rReadNext_length P fs r
    split
    · next r' x heq => rw [ih]; rw [heq] at this; exact this
    · next r' e heq => rw [heq] at this; exact this

theorem rSeekLoop_length (P : Params) (fs : List File) (tsOf : Bytes → Int) (target : Int) :
    ∀ (i : Nat) (r : RState), (rSeekLoop P fs tsOf target i r).1.files.length = r.files.length := by
  intro i
  induction i with
  | zero => intro r; simp [rSeekLoop]
  | succ i ih =>
    intro r
    rw [rSeekLoop]
    split
    · simp
    · split
      · rw [ih]; simp
      · rw [rSeekStart_length]; simp
      · simp

theorem modelStep_length (P : Params) (fs : List File) (tsOf : Bytes → Int) (r : RState) (op : Op) :
    (modelStep P fs tsOf r op).1.files.length = r.files.length := by
  cases op with
  | start => exact rSeekStart_length fs r
  | next n =>
    have := rReadMany_length P fs n r []
    simp only [modelStep]
    exact this
  | seek ts =>
    have := rSeekLoop_length P fs tsOf ts fs.length r
    simp only [modelStep, rSeekTS]
    split
    · next r' u heq => rw [heq] at this; exact this
    · next r' e heq => rw [heq] at this; exact this
  | fstart k => simp [modelStep]
  | fnext k n =>
    simp only [modelStep]
    simp
  | fseek k ts =>
    simp only [modelStep]
    split <;> simp

/-! ### the simulation -/

/-- Every promise of the spec state is backed by the reader state. -/
structure Sim (P : Params) (ds : List FileDesc) (sp : SpecState) (r : RState) : Prop where
  flen : r.files.length = ds.length
  fcur : ∀ k rem, sp.fcur.getD k none = some rem →
    ∃ d c, ds[k]? = some d ∧ readable d = true ∧ FilePos P d.lines c (r.files.getD k {}) ∧
      rem = (d.lines.take c).reverse
  rcur : ∀ rem, sp.rcur = some rem → (∀ d ∈ ds, readable d = true) ∧ RPos P ds r rem

theorem getD_set_some {α : Type} (l : List (Option α)) (k : Nat) (x : Option α) (rem : α)
    (h : (l.set k x).getD k none = some rem) : x = some rem := by
  rw [getD_set] at h
  split at h
  · exact h
  · next hc =>
    have : ¬ (k < l.length) := fun hk => hc ⟨rfl, hk⟩
    rw [List.getD_eq_getElem?_getD, List.getElem?_eq_none (by omega)] at h
    cases h

section
variable (P : Params) (tsOf : Bytes → Int) (ds : List FileDesc)

/-- A step that touches only file `k` and clears the reader-level promise. -/
theorem sim_file (sp : SpecState) (r : RState) (h : Sim P ds sp r) (k : Nat) (q : QState)
    (fc' : List (Option (List Bytes)))
    (hother : ∀ k', k' ≠ k → fc'.getD k' none = sp.fcur.getD k' none)
    (hk : ∀ rem, fc'.getD k none = some rem →
      ∃ d c, ds[k]? = some d ∧ readable d = true ∧ FilePos P d.lines c q ∧
        rem = (d.lines.take c).reverse) :
    Sim P ds ⟨fc', none⟩ { r with files := r.files.set k q } := by
  refine ⟨by simp [h.flen], ?_, by intro rem hr; cases hr⟩
  intro k' rem hr
  by_cases hkk : k' = k
  · subst hkk
    obtain ⟨d, c, hd, hrd, hq, hrem⟩ := hk rem hr
    refine ⟨d, c, hd, hrd, ?_, hrem⟩
    show FilePos P d.lines c ((r.files.set k' q).getD k' {})
    rw [getD_set_eq _ _ _ _ (by rw [h.flen]; exact (List.getElem?_eq_some_iff.1 hd).1)]
    exact hq
  · rw [hother k' hkk] at hr
    obtain ⟨d, c, hd, hrd, hq, hrem⟩ := h.fcur k' rem hr
    refine ⟨d, c, hd, hrd, ?_, hrem⟩
    show FilePos P d.lines c ((r.files.set k q).getD k' {})
    rw [getD_set_ne _ _ _ _ _ (fun h => hkk h.symm)]
    exact hq

/-- A step that leaves no promise behind. -/
theorem sim_none (r : RState) (hlen : r.files.length = ds.length) :
    Sim P ds ⟨noPromise ds.length, none⟩ r :=
  ⟨hlen, (by intro k rem h; rw [getD_noPromise] at h; cases h), (by intro rem h; cases h)⟩

/-- A reader-level step that leaves the promise `rem`. -/
theorem sim_reader (r : RState) (hlen : r.files.length = ds.length) (rem : List Bytes)
    (hrd : ∀ d ∈ ds, readable d = true) (hpos : RPos P ds r rem) :
    Sim P ds ⟨noPromise ds.length, some rem⟩ r :=
  ⟨hlen, (by intro k rem h; rw [getD_noPromise] at h; cases h),
   (by intro rem' h; cases h; exact ⟨hrd, hpos⟩)⟩

abbrev fsOf (ds : List FileDesc) : List File := ds.map fileOfDesc

theorem step_fstart (sp : SpecState) (r : RState) (h : Sim P ds sp r) (k : Nat) :
    (specStep (mkCtx tsOf ds) sp (.fstart k)
      (obsOf (fsOf ds) (modelStep P (fsOf ds) tsOf r (.fstart k)).2)).1 = none ∧
    Sim P ds (specStep (mkCtx tsOf ds) sp (.fstart k)
      (obsOf (fsOf ds) (modelStep P (fsOf ds) tsOf r (.fstart k)).2)).2
      (modelStep P (fsOf ds) tsOf r (.fstart k)).1 := by
  simp only [modelStep, obsOf, specStep, mkCtx_ds]
  by_cases hr : (mkCtx tsOf ds).readableF.getD k false = true
  · obtain ⟨d, hd, hrd⟩ := mkCtx_readableF tsOf ds k hr
    simp only [hr, if_true]
    refine ⟨by first | trivial | rfl, ?_⟩
    apply sim_file P ds sp r h
    · intro k' hk'; rw [getD_set_ne _ _ _ _ _ (fun h => hk' h.symm)]
    · intro rem hrem
      have := getD_set_some _ _ _ _ hrem
      rw [getD_ds ds k d hd] at this
      refine ⟨d, d.lines.length, hd, hrd, ?_, by simp at this; simp [this]⟩
      rw [getD_fs ds k d hd hrd]
      exact filePos_seekStart P d.lines _
  · simp only [hr, Bool.false_eq_true, if_false]
    refine ⟨by first | trivial | rfl, ?_⟩
    apply sim_file P ds sp r h
    · intro k' hk'; rw [getD_set_ne _ _ _ _ _ (fun h => hk' h.symm)]
    · intro rem hrem
      have := getD_set_some _ _ _ _ hrem
      cases this

theorem step_start (hne : ds ≠ []) (sp : SpecState) (r : RState) (h : Sim P ds sp r) :
    (specStep (mkCtx tsOf ds) sp .start
      (obsOf (fsOf ds) (modelStep P (fsOf ds) tsOf r .start).2)).1 = none ∧
    Sim P ds (specStep (mkCtx tsOf ds) sp .start
      (obsOf (fsOf ds) (modelStep P (fsOf ds) tsOf r .start).2)).2
      (modelStep P (fsOf ds) tsOf r .start).1 := by
  simp only [modelStep, obsOf, specStep, mkCtx_ds]
  by_cases hr : (mkCtx tsOf ds).allReadable = true
  · have hrd := (mkCtx_allReadable tsOf ds).1 hr
    obtain ⟨hp, hl⟩ := rSeekStart_rpos P ds hne r h.flen hrd
    simp only [hr, if_true]
    exact ⟨by first | trivial | rfl, sim_reader P ds _ hl _ hrd hp⟩
  · simp only [hr, Bool.false_eq_true, if_false]
    exact ⟨by first | trivial | rfl, sim_none P ds _ (by rw [rSeekStart_length]; exact h.flen)⟩

theorem drop_take_reverse (lines : List Bytes) (c n : Nat) (hc : c ≤ lines.length) :
    ((lines.take c).reverse).drop n = (lines.take (c - n)).reverse := by
  rw [List.drop_reverse, List.take_take, List.length_take]
  congr 2
  omega

theorem step_fnext (hP1 : entryLimit ≤ P.maxEntry) (hP2 : P.maxEntry ≤ P.bufSize)
    (sp : SpecState) (r : RState) (h : Sim P ds sp r) (k n : Nat) :
    (specStep (mkCtx tsOf ds) sp (.fnext k n)
      (obsOf (fsOf ds) (modelStep P (fsOf ds) tsOf r (.fnext k n)).2)).1 = none ∧
    Sim P ds (specStep (mkCtx tsOf ds) sp (.fnext k n)
      (obsOf (fsOf ds) (modelStep P (fsOf ds) tsOf r (.fnext k n)).2)).2
      (modelStep P (fsOf ds) tsOf r (.fnext k n)).1 := by
  simp only [modelStep, obsOf, specStep]
  cases hf : sp.fcur.getD k none with
  | none =>
    simp only
    refine ⟨by first | trivial | rfl, ?_⟩
    apply sim_file P ds sp r h
    · intro k' _; rfl
    · intro rem hrem; rw [hf] at hrem; cases hrem
  | some rem =>
    obtain ⟨d, c, hd, hrd, hq, hrem⟩ := h.fcur k rem hf
    have hok := ((readable_iff d).1 hrd).2
    obtain ⟨q', rs, h1, h2, h3⟩ := fReadMany_filePos P d.lines hP1 hP2 hok n c _ [] hq
    rw [getD_fs ds k d hd hrd, h1]
    simp only [List.reverse_nil, List.nil_append, List.length_map]
    have hremlen : rem.length = c := by have := hq.1; rw [hrem]; simp; omega
    have hchk : checkNext rem n rs.length (if n > c then some Err.eof else none)
        (hashRanges (fsOf ds) (rs.map (fun x => (k, x.1, x.2)))) = none := by
      have := checkNext_ok (fsOf ds) rem n (rs.map (fun x => (k, x.1, x.2))) (by
        rw [List.map_map, ← hrem] at *
        rw [← h2]
        apply List.map_congr_left
        intro x _
        simp only [Function.comp]
        rw [getD_fs ds k d hd hrd])
      rw [hremlen] at this
      simpa using this
    simp only [hchk, Option.isNone_none, if_true]
    refine ⟨by first | trivial | rfl, ?_⟩
    apply sim_file P ds sp r h
    · intro k' hk'; rw [getD_set_ne _ _ _ _ _ (fun h => hk' h.symm)]
    · intro rem' hrem'
      have := getD_set_some _ _ _ _ hrem'
      simp only [Option.some.injEq] at this
      refine ⟨d, c - n, hd, hrd, h3, ?_⟩
      rw [← this, hrem, drop_take_reverse _ _ _ hq.1]

theorem step_next (hP1 : entryLimit ≤ P.maxEntry) (hP2 : P.maxEntry ≤ P.bufSize)
    (sp : SpecState) (r : RState) (h : Sim P ds sp r) (n : Nat) :
    (specStep (mkCtx tsOf ds) sp (.next n)
      (obsOf (fsOf ds) (modelStep P (fsOf ds) tsOf r (.next n)).2)).1 = none ∧
    Sim P ds (specStep (mkCtx tsOf ds) sp (.next n)
      (obsOf (fsOf ds) (modelStep P (fsOf ds) tsOf r (.next n)).2)).2
      (modelStep P (fsOf ds) tsOf r (.next n)).1 := by
  simp only [modelStep, obsOf, specStep, mkCtx_ds]
  cases hf : sp.rcur with
  | none =>
    simp only
    exact ⟨by first | trivial | rfl, sim_none P ds _ (by rw [rReadMany_length]; exact h.flen)⟩
  | some rem =>
    obtain ⟨hrd, hpos⟩ := h.rcur rem hf
    obtain ⟨r', xs, h1, h2, h3, h4⟩ := rReadMany_spec P ds hP1 hP2 hrd n r rem [] h.flen hpos
    rw [h1]
    simp only [List.reverse_nil, List.nil_append]
    simp only [checkNext_ok (fsOf ds) rem n xs h2, Option.isNone_none, if_true]
    exact ⟨by first | trivial | rfl, sim_reader P ds _ h4 _ hrd h3⟩

def resOf {α : Type} : Except Err α → Option Err
  | .ok _ => none
  | .error e => some e

theorem modelStep_fseek (fs : List File) (r : RState) (k : Nat) (ts : Int) :
    (modelStep P fs tsOf r (.fseek k ts)).1 =
        { r with files := r.files.set k (seekTS P (fs.getD k noFile) tsOf (r.files.getD k {}) ts).1 } ∧
      obsOf fs (modelStep P fs tsOf r (.fseek k ts)).2 =
        .seek (resOf (seekTS P (fs.getD k noFile) tsOf (r.files.getD k {}) ts).2) := by
  simp only [modelStep]
  rcases seekTS P (fs.getD k noFile) tsOf (r.files.getD k {}) ts with ⟨q, e | pd⟩ <;>
    simp [obsOf, resOf]

theorem modelStep_seek (fs : List File) (r : RState) (ts : Int) :
    (modelStep P fs tsOf r (.seek ts)).1 = (rSeekTS P fs tsOf r ts).1 ∧
      obsOf fs (modelStep P fs tsOf r (.seek ts)).2 = .seek (resOf (rSeekTS P fs tsOf r ts).2) := by
  simp only [modelStep]
  rcases rSeekTS P fs tsOf r ts with ⟨q, e | pd⟩ <;> simp [obsOf, resOf]

theorem step_fseek (hP1 : entryLimit ≤ P.maxEntry)
    (hsmall : ∀ d ∈ ds, (render d.lines).length < 2 ^ 63)
    (sp : SpecState) (r : RState) (h : Sim P ds sp r) (k : Nat) (ts : Int) :
    (specStep (mkCtx tsOf ds) sp (.fseek k ts)
      (obsOf (fsOf ds) (modelStep P (fsOf ds) tsOf r (.fseek k ts)).2)).1 = none ∧
    Sim P ds (specStep (mkCtx tsOf ds) sp (.fseek k ts)
      (obsOf (fsOf ds) (modelStep P (fsOf ds) tsOf r (.fseek k ts)).2)).2
      (modelStep P (fsOf ds) tsOf r (.fseek k ts)).1 := by
  obtain ⟨hm1, hm2⟩ := modelStep_fseek P tsOf (fsOf ds) r k ts
  rw [hm1, hm2]
  simp only [specStep, mkCtx_ds]
  by_cases hs : (mkCtx tsOf ds).seekableF.getD k false = true
  · obtain ⟨d, hd, hrd, hst⟩ := mkCtx_seekableF tsOf ds k hs
    have hdm : d ∈ ds := List.mem_of_getElem? hd
    have ctx := seekCtx_of_stampsOK tsOf d.lines ((readable_iff d).1 hrd).2 hst
    simp only [hs, if_true, mkCtx_stamps tsOf ds k d hd, getD_ds ds k d hd]
    rw [getD_fs ds k d hd hrd]
    cases hf : findStampIdx (d.lines.map tsOf) ts with
    | some i =>
      obtain ⟨hi, hts⟩ := findStampIdx_some tsOf d.lines ts i hf
      obtain ⟨dd, _, hseek⟩ := seekTS_found P tsOf ts d.lines hP1 ctx (hsmall d hdm) i hi hts (r.files.getD k {})
      rw [hseek]
      simp only [resOf]
      refine ⟨by first | trivial | rfl, ?_⟩
      apply sim_file P ds sp r h
      · intro k' hk'; rw [getD_set_ne _ _ _ _ _ (fun h => hk' h.symm)]
      · intro rem hrem
        have := getD_set_some _ _ _ _ hrem
        simp only [Option.some.injEq] at this
        exact ⟨d, i + 1, hd, hrd, ⟨by omega, rfl, by intro h; simp at h⟩, this.symm⟩
    | none =>
      have habs := findStampIdx_none tsOf d.lines ts hf
      rw [seekTS_absent P tsOf ts d.lines hP1 ctx (hsmall d hdm) habs (r.files.getD k {})]
      simp only [resOf, absentClassOK_absentErr tsOf ts d.lines ctx.sorted habs, if_true]
      refine ⟨by first | trivial | rfl, ?_⟩
      apply sim_file P ds sp r h
      · intro k' _; rfl
      · intro rem hrem
        obtain ⟨d', c, hd', hrd', hq, hr⟩ := h.fcur k rem hrem
        have : d' = d := by rw [hd] at hd'; exact (Option.some.inj hd').symm
        subst this
        exact ⟨d', c, hd, hrd, filePos_sameBuf P _ _ _ _ hq rfl (Or.inr rfl), hr⟩
  · simp only [hs, Bool.false_eq_true, if_false]
    refine ⟨by first | trivial | rfl, ?_⟩
    apply sim_file P ds sp r h
    · intro k' hk'; rw [getD_set_ne _ _ _ _ _ (fun h => hk' h.symm)]
    · intro rem hrem
      have := getD_set_some _ _ _ _ hrem
      cases this

theorem step_seek (hP1 : entryLimit ≤ P.maxEntry) (hne : ds ≠ [])
    (hsmall : ∀ d ∈ ds, (render d.lines).length < 2 ^ 63)
    (sp : SpecState) (r : RState) (h : Sim P ds sp r) (ts : Int) :
    (specStep (mkCtx tsOf ds) sp (.seek ts)
      (obsOf (fsOf ds) (modelStep P (fsOf ds) tsOf r (.seek ts)).2)).1 = none ∧
    Sim P ds (specStep (mkCtx tsOf ds) sp (.seek ts)
      (obsOf (fsOf ds) (modelStep P (fsOf ds) tsOf r (.seek ts)).2)).2
      (modelStep P (fsOf ds) tsOf r (.seek ts)).1 := by
  obtain ⟨hm1, hm2⟩ := modelStep_seek P tsOf (fsOf ds) r ts
  rw [hm1, hm2]
  have hfl : (fsOf ds).length = ds.length := by simp [fsOf]
  simp only [specStep, mkCtx_ds]
  by_cases hs : (mkCtx tsOf ds).allSeekable = true
  · have g := mkCtx_allSeekable tsOf ds hsmall hs
    simp only [hs, if_true]
    unfold rSeekTS
    rw [hfl]
    cases hf : findStampFilesIdx (mkCtx tsOf ds).stamps ts ds.length with
    | some jk =>
      obtain ⟨j, k⟩ := jk
      obtain ⟨hj, hfk⟩ := findStampFilesIdx_some _ ts ds.length j k hf
      have hd : ds[j]? = some ds[j] := List.getElem?_eq_getElem hj
      rw [mkCtx_stamps tsOf ds j ds[j] hd] at hfk
      obtain ⟨hk, hts⟩ := findStampIdx_some tsOf ds[j].lines ts k hfk
      obtain ⟨r', h1, h2, h3, h4⟩ :=
        rSeekLoop_found P tsOf ts ds hP1 g j k ds[j] hd hk hts ds.length r hj (Nat.le_refl _) h.flen
      rw [h1]
      simp only [resOf]
      refine ⟨by first | trivial | rfl, ?_⟩
      apply sim_reader P ds r' h3 _ g.rd
      right
      refine ⟨j, ds[j], k + 1, h2, hd, h4, ?_⟩
      unfold fromEntry
      rw [getD_ds ds j ds[j] hd]
    | none =>
      have hnone := findStampFilesIdx_none _ ts ds.length hf
      have habs : ∀ d ∈ ds, ∀ l ∈ d.lines, tsOf l ≠ ts := by
        intro d hd
        obtain ⟨j, hj, hje⟩ := List.getElem_of_mem hd
        have hd' : ds[j]? = some d := by rw [List.getElem?_eq_getElem hj, hje]
        have := hnone j hj
        rw [mkCtx_stamps tsOf ds j d hd'] at this
        exact findStampIdx_none tsOf d.lines ts this
      rcases rSeekLoop_absent P tsOf ts ds hP1 g hne habs ds.length r (Nat.le_refl _) h.flen with
        ⟨r', h1, h2⟩ | ⟨r', h1, h2, h3, d, hdm, hdne, hdlt⟩
      · rw [h1]
        simp only [resOf]
        rw [if_pos (by decide)]
        refine ⟨by first | trivial | rfl, ?_⟩
        refine ⟨by rw [h2.2.1]; exact h.flen, ?_, ?_⟩
        · intro k rem hk; rw [getD_noPromise] at hk; cases hk
        · intro rem hrem
          obtain ⟨hrd, hpos⟩ := h.rcur rem hrem
          exact ⟨hrd, rpos_sameBuf P ds r r' rem hpos h2⟩
      · rw [h1]
        simp only [resOf]
        have hany : (mkCtx tsOf ds).stamps.any (fun s => !s.isEmpty && s.all (· < ts)) = true := by
          rw [List.any_eq_true]
          refine ⟨d.lines.map tsOf, ?_, ?_⟩
          · simp only [mkCtx]
            exact List.mem_map_of_mem hdm
          · simp only [Bool.and_eq_true, Bool.not_eq_true', List.isEmpty_eq_false_iff, ne_eq,
              List.map_eq_nil_iff, List.all_eq_true, List.mem_map, decide_eq_true_eq,
              forall_exists_index, and_imp, forall_apply_eq_imp_iff₂]
            exact ⟨hdne, hdlt⟩
        simp only [hany, Bool.or_true, if_true]
        exact ⟨by first | trivial | rfl, sim_reader P ds r' h3 _ g.rd h2⟩
  · simp only [hs, Bool.false_eq_true, if_false]
    refine ⟨by first | trivial | rfl, sim_none P ds _ ?_⟩
    have := rSeekLoop_length P (fsOf ds) tsOf ts (fsOf ds).length r
    unfold rSeekTS
    rw [this]; exact h.flen

/-- Every step of the model passes the monitor and keeps the simulation. -/
theorem step_sim (hP1 : entryLimit ≤ P.maxEntry) (hP2 : P.maxEntry ≤ P.bufSize) (hne : ds ≠ [])
    (hsmall : ∀ d ∈ ds, (render d.lines).length < 2 ^ 63)
    (sp : SpecState) (r : RState) (h : Sim P ds sp r) (op : Op) :
    (specStep (mkCtx tsOf ds) sp op
      (obsOf (fsOf ds) (modelStep P (fsOf ds) tsOf r op).2)).1 = none ∧
    Sim P ds (specStep (mkCtx tsOf ds) sp op
      (obsOf (fsOf ds) (modelStep P (fsOf ds) tsOf r op).2)).2
      (modelStep P (fsOf ds) tsOf r op).1 := by
  cases op with
  | start => exact step_start P tsOf ds hne sp r h
  | next n => exact step_next P tsOf ds hP1 hP2 sp r h n
  | seek ts => exact step_seek P tsOf ds hP1 hne hsmall sp r h ts
  | fstart k => exact step_fstart P tsOf ds sp r h k
  | fnext k n => exact step_fnext P tsOf ds hP1 hP2 sp r h k n
  | fseek k ts => exact step_fseek P tsOf ds hP1 hsmall sp r h k ts

theorem sim_init : Sim P ds (specInit ds.length) (rInit ds.length) :=
  ⟨by simp [rInit], (by intro k rem h; simp [specInit, List.getD_eq_getElem?_getD, List.getElem?_replicate] at h; split at h <;> cases h),
   (by intro rem h; cases h)⟩

/-! ### no file at all (`newQLogReader` found none): every read is `io.EOF`, `SeekStart`
and `seekTS` succeed and change nothing -/

theorem rReadMany_nofiles (n : Nat) :
    rReadMany P [] n ⟨[], 0⟩ [] = (⟨[], 0⟩, [], if n > 0 then some Err.eof else none) := by
  cases n with
  | zero => simp [rReadMany]
  | succ n => simp [rReadMany, rReadNext]

theorem step_nofiles (sp : SpecState)
    (hsp : sp.fcur = [] ∧ (sp.rcur = none ∨ sp.rcur = some [])) (op : Op) :
    (specStep (mkCtx tsOf []) sp op (obsOf [] (modelStep P [] tsOf ⟨[], 0⟩ op).2)).1 = none ∧
    (modelStep P [] tsOf ⟨[], 0⟩ op).1 = ⟨[], 0⟩ ∧
    (specStep (mkCtx tsOf []) sp op (obsOf [] (modelStep P [] tsOf ⟨[], 0⟩ op).2)).2.fcur = [] ∧
    ((specStep (mkCtx tsOf []) sp op (obsOf [] (modelStep P [] tsOf ⟨[], 0⟩ op).2)).2.rcur = none ∨
     (specStep (mkCtx tsOf []) sp op (obsOf [] (modelStep P [] tsOf ⟨[], 0⟩ op).2)).2.rcur = some []) := by
  obtain ⟨hf, hr⟩ := hsp
  cases op with
  | start =>
    simp [modelStep, obsOf, specStep, mkCtx, rSeekStart, noPromise, allRev]
  | next n =>
    simp only [modelStep, rReadMany_nofiles, obsOf, specStep]
    rcases hr with hr | hr
    · simp [hr, mkCtx, noPromise]
    · simp only [hr, mkCtx, noPromise, List.length_nil, List.replicate_zero]
      have : checkNext [] n 0 (if n > 0 then some Err.eof else none) (hashRanges [] []) = none := by
        have := checkNext_ok [] [] n [] (by simp)
        simpa using this
      simp [this]
  | seek ts =>
    simp [modelStep, rSeekTS, rSeekLoop, obsOf, specStep, mkCtx, findStampFilesIdx, noPromise,
      allRev, stampsOK, increasing]
  | fstart k =>
    simp [modelStep, obsOf, specStep, mkCtx, hf]
  | fnext k n =>
    simp [modelStep, obsOf, specStep, hf]
  | fseek k ts =>
    obtain ⟨hm1, hm2⟩ := modelStep_fseek P tsOf [] ⟨[], 0⟩ k ts
    rw [hm1, hm2]
    simp [specStep, mkCtx, hf]

end
end AGH.C20
