/-
C09 helper lemmas: uint32 arithmetic without wrap, the bucket store, weighted
counting of ghost events.
-/
import AGH.Spec.Stats
namespace AGH.C09

/-! ### uint32 arithmetic -/

theorem sub32_eq {a b : Nat} (h : b ≤ a) (ha : a < U32) : sub32 a b = a - b := by
  simp only [sub32, U32] at *; omega

theorem add32_eq {a b : Nat} (h : a + b < U32) : add32 a b = a + b := by
  simp only [add32, U32] at *; omega

/-! ### bucket store -/

theorem DB.get_put (db : DB) (k h : Nat) (v : UnitDB) :
    (DB.put k v db).get h = if k = h then some v else db.get h := by
  induction db with
  | nil => simp [DB.put, DB.get]
  | cons x rest ih =>
    obtain ⟨k', v'⟩ := x
    simp only [DB.put]
    by_cases h1 : k < k'
    · simp only [h1, if_true, DB.get]
    · simp only [h1, if_false]
      by_cases h2 : k = k'
      · subst h2
        simp only [if_true, DB.get]
        by_cases h3 : k = h <;> simp [h3]
      · simp only [h2, if_false, DB.get, ih]
        by_cases h3 : k' = h
        · have : ¬ k = h := by omega
          simp [h3, this]
        · simp [h3]

theorem DB.get_del (db : DB) (k h : Nat) :
    (DB.del k db).get h = if k = h then none else db.get h := by
  induction db with
  | nil => simp [DB.del, DB.get]
  | cons x rest ih =>
    obtain ⟨k', v'⟩ := x
    simp only [DB.del]
    by_cases h1 : k' = k
    · subst h1
      simp only [if_true, ih, DB.get]
      by_cases h3 : k' = h <;> simp [h3]
    · simp only [h1, if_false, DB.get, ih]
      by_cases h3 : k' = h
      · have : ¬ k = h := by omega
        simp [h3, this]
      · simp [h3]

theorem get_deleteOld (db : DB) (f h : Nat) (hf : f ≤ h) :
    (deleteOldUnits f db).get h = db.get h := by
  induction db with
  | nil => simp [deleteOldUnits]
  | cons x rest ih =>
    obtain ⟨k', v'⟩ := x
    simp only [deleteOldUnits]
    by_cases h1 : k' ≥ f
    · simp [h1]
    · have : ¬ k' = h := by omega
      simp only [h1, if_false, ih, DB.get, this]

theorem mem_put {db : DB} {k : Nat} {v : UnitDB} {x : Nat × UnitDB} (hx : x ∈ DB.put k v db) :
    x = (k, v) ∨ x ∈ db := by
  induction db with
  | nil => simp [DB.put] at hx; exact Or.inl hx
  | cons y rest ih =>
    obtain ⟨k', v'⟩ := y
    simp only [DB.put] at hx
    by_cases h1 : k < k'
    · simp only [h1, if_true, List.mem_cons] at hx
      rcases hx with hx | hx | hx
      · exact Or.inl hx
      · exact Or.inr (by simp [hx])
      · exact Or.inr (by simp [hx])
    · simp only [h1, if_false] at hx
      by_cases h2 : k = k'
      · simp only [h2, if_true, List.mem_cons] at hx
        rcases hx with hx | hx
        · exact Or.inl (by simp [hx, h2])
        · exact Or.inr (by simp [hx])
      · simp only [h2, if_false, List.mem_cons] at hx
        rcases hx with hx | hx
        · exact Or.inr (by simp [hx])
        · rcases ih hx with h | h
          · exact Or.inl h
          · exact Or.inr (by simp [h])

theorem mem_del {db : DB} {k : Nat} {x : Nat × UnitDB} (hx : x ∈ DB.del k db) : x ∈ db := by
  induction db with
  | nil => simp [DB.del] at hx
  | cons y rest ih =>
    obtain ⟨k', v'⟩ := y
    simp only [DB.del] at hx
    by_cases h1 : k' = k
    · simp only [h1, if_true] at hx
      exact List.mem_cons_of_mem _ (ih hx)
    · simp only [h1, if_false, List.mem_cons] at hx
      rcases hx with hx | hx
      · simp [hx]
      · exact List.mem_cons_of_mem _ (ih hx)

theorem mem_deleteOld {db : DB} {f : Nat} {x : Nat × UnitDB} (hx : x ∈ deleteOldUnits f db) : x ∈ db := by
  induction db with
  | nil => simp [deleteOldUnits] at hx
  | cons y rest ih =>
    obtain ⟨k', v'⟩ := y
    simp only [deleteOldUnits] at hx
    by_cases h1 : k' ≥ f
    · simpa [h1] using hx
    · simp only [h1, if_false] at hx
      exact List.mem_cons_of_mem _ (ih hx)

theorem get_some_mem {db : DB} {h : Nat} {v : UnitDB} (hg : db.get h = some v) : (h, v) ∈ db := by
  induction db with
  | nil => simp [DB.get] at hg
  | cons y rest ih =>
    obtain ⟨k', v'⟩ := y
    simp only [DB.get] at hg
    by_cases h1 : k' = h
    · simp only [h1, if_true, Option.some.injEq] at hg
      simp [h1, hg]
    · simp only [h1, if_false] at hg
      exact List.mem_cons_of_mem _ (ih hg)

theorem get_none_of_keys {db : DB} {h : Nat} (hk : ∀ x ∈ db, x.1 ≠ h) : db.get h = none := by
  cases hg : db.get h with
  | none => rfl
  | some v => exact absurd rfl (hk _ (get_some_mem hg))

/-! ### weighted counting -/

theorem cnt_le_of_imp {p q : Ev → Bool} (l : List Ev) (h : ∀ e ∈ l, p e = true → q e = true) :
    cnt p l ≤ cnt q l := by
  induction l with
  | nil => simp [cnt]
  | cons e es ih =>
    have ih' := ih (fun e he => h e (List.mem_cons_of_mem _ he))
    have he := h e (List.mem_cons_self ..)
    simp only [cnt]
    cases hp : p e <;> cases hq : q e
    · simp; omega
    · simp; omega
    · rw [he hp] at hq; cases hq
    · simp; omega

theorem cnt_congr {p q : Ev → Bool} (l : List Ev) (h : ∀ e ∈ l, p e = q e) : cnt p l = cnt q l := by
  apply Nat.le_antisymm
  · exact cnt_le_of_imp l (fun e he hp => by rw [← h e he]; exact hp)
  · exact cnt_le_of_imp l (fun e he hq => by rw [h e he]; exact hq)

theorem cnt_false {p : Ev → Bool} (l : List Ev) (h : ∀ e ∈ l, p e = false) : cnt p l = 0 := by
  induction l with
  | nil => simp [cnt]
  | cons e es ih =>
    simp only [cnt, h e (List.mem_cons_self ..), ih (fun e he => h e (List.mem_cons_of_mem _ he))]
    simp

theorem cnt_add_disjoint {p q : Ev → Bool} (l : List Ev) (h : ∀ e ∈ l, ¬ (p e = true ∧ q e = true)) :
    cnt p l + cnt q l = cnt (fun e => p e || q e) l := by
  induction l with
  | nil => simp [cnt]
  | cons e es ih =>
    have ih' := ih (fun e he => h e (List.mem_cons_of_mem _ he))
    have he := h e (List.mem_cons_self ..)
    simp only [cnt]
    rw [← ih']
    rcases Bool.eq_false_or_eq_true (p e) with hp | hp <;>
      rcases Bool.eq_false_or_eq_true (q e) with hq | hq
    · exact absurd ⟨hp, hq⟩ he
    · simp [hp, hq]; omega
    · simp [hp, hq]; omega
    · simp [hp, hq]

theorem cnt_map {p : Ev → Bool} (f : Ev → Ev) (l : List Ev) (hn : ∀ e, (f e).n = e.n) :
    cnt p (l.map f) = cnt (fun e => p (f e)) l := by
  induction l with
  | nil => simp [cnt]
  | cons e es ih => simp only [List.map_cons, cnt, ih, hn]

end AGH.C09
