/-
Helper lemmas for the end-to-end part of C16.
-/
import AGH.Spec.ClientIDE2E
import AGH.Lemmas.ClientID
namespace AGH.C16.E2E
open AGH AGH.Bytes AGH.C16

theorem unescCheck_cons_ne (c : Nat) (rest : Bytes) (h : c ≠ pct) :
    unescCheck (c :: rest) = unescCheck rest := by
  conv => lhs; unfold unescCheck
  simp [h]

theorem unescBuild_cons_ne (c : Nat) (rest : Bytes) (h : c ≠ pct) :
    unescBuild (c :: rest) = c :: unescBuild rest := by
  conv => lhs; unfold unescBuild
  simp [h]

/-- Go's two-loop `unescape` is percent-decoding. -/
theorem unescape_eq_pctDecode (s : Bytes) : unescape s = pctDecode s := by
  unfold unescape pctDecode
  induction s using unescCheck.induct with
  | case1 => simp [unescCheck, unescBuild, pctDecodeAux]
  | case2 a b rest' ih =>
    simp only [unescCheck, unescBuild, pctDecodeAux, if_true]
    by_cases ha : isHex a = true
    · by_cases hb : isHex b = true
      · simp only [ha, hb, Bool.true_and, if_true]
        rw [← ih]
        by_cases hc : unescCheck rest' = true <;> simp [hc]
      · simp [ha, hb]
    · simp [ha]
  | case3 rest hno =>
    simp only [unescCheck, unescBuild, pctDecodeAux, if_true]
    cases rest with
    | nil => simp [pctDecodeAux]
    | cons a t =>
      cases t with
      | nil => by_cases ha : isHex a = true <;> simp [pctDecodeAux, ha]
      | cons b t' => exact absurd rfl (hno a b t')
  | case4 c rest hc ih =>
    rw [unescCheck_cons_ne c rest hc, unescBuild_cons_ne c rest hc]
    simp only [pctDecodeAux, hc, if_false]
    rw [← ih]
    by_cases h : unescCheck rest = true <;> simp [h]

theorem parseRequestURI_spec (e : UrlEnv) (t : Bytes) (u : URL) (h : parseRequestURI e t = some u) :
    specPath e t = some (u.host, u.path) := by
  unfold parseRequestURI at h
  unfold specPath
  split at h
  · cases h
  · next hctl =>
    simp only [hctl]
    split at h
    · cases h
    · next host rp hs =>
      simp only [Bool.false_eq_true, if_false]
      rw [unescape_eq_pctDecode] at h
      cases hd : pctDecode rp with
      | none => rw [hd] at h; cases h
      | some p => rw [hd] at h; cases h; simp [hs, hd]

theorem gateHTTP_ok (cf : Conf) (tr : Tr) (t : Bytes) (d ip : Bool) (u : URL)
    (h : gateHTTP cf tr t d ip = .ok u) : parseRequestURI (envOf cf ip) t = some u := by
  unfold gateHTTP at h
  simp only at h
  split at h
  · cases h
  · split at h
    · cases h
    · split at h
      · cases h
      · next u' hu =>
        split at h
        · cases h
        · split at h
          · cases h
          · split at h
            · cases h
            · split at h
              · cases h
              · cases h; exact hu

theorem gateHTTP_error (cf : Conf) (tr : Tr) (t : Bytes) (d ip : Bool) (o : Out)
    (h : gateHTTP cf tr t d ip = .error o) : (∃ n, o = .http n) ∨ o = .rst := by
  unfold gateHTTP at h
  simp only at h
  repeat' split at h
  all_goals cases h
  all_goals first | exact Or.inl ⟨_, rfl⟩ | exact Or.inr rfl

theorem frontHTTP_ok (cf : Conf) (r : Req) (c : Ctx) (h : frontHTTP cf r = .ok c) :
    ∃ u, gateHTTP cf r.tr r.target r.dnsOK r.ipLitOK = .ok u ∧
      parseRequestURI (envOf cf r.ipLitOK) r.target = some u ∧
      c = mkCtxHTTP cf r u.host u.path ∧ hostFieldOK r.tr r.host = true := by
  unfold frontHTTP at h
  split at h
  · cases h
  · next hh =>
    split at h
    · cases h
    · next u hu =>
      cases h
      exact ⟨u, hu, gateHTTP_ok _ _ _ _ _ _ hu, rfl, by simpa using hh⟩

theorem frontHTTP_error (cf : Conf) (r : Req) (o : Out) (h : frontHTTP cf r = .error o) :
    (∃ n, o = .http n) ∨ o = .rst := by
  unfold frontHTTP at h
  split at h
  · split at h <;> cases h
    · exact Or.inr rfl
    · exact Or.inl ⟨_, rfl⟩
  · split at h
    · next o' ho => cases h; exact gateHTTP_error _ _ _ _ _ _ ho
    · cases h

theorem frontTLS_ok (cf : Conf) (r : Req) (p : Proto) (c : Ctx) (h : frontTLS cf r p = .ok c) :
    c = mkCtxConn cf p (some r.sni) := by
  unfold frontTLS at h
  split at h
  · cases h
  · cases h; rfl

/-- A request that reaches the ClientID stage does so with exactly the context
the spec reads off the request. -/
theorem front_specCtx (cf : Conf) (r : Req) (c : Ctx) (h : front cf r = .ok c) :
    specCtx cf r = some c := by
  unfold front at h
  unfold specCtx
  cases htr : r.tr <;> simp only [htr] at h ⊢
  · cases h; rfl
  · cases h; rfl
  · rw [frontTLS_ok cf r _ c h]; rfl
  · rw [frontTLS_ok cf r _ c h]; rfl
  · obtain ⟨u, _, hu, hc, _⟩ := frontHTTP_ok cf r c h
    rw [parseRequestURI_spec _ _ u hu, hc]; rfl
  · obtain ⟨u, _, hu, hc, _⟩ := frontHTTP_ok cf r c h
    rw [parseRequestURI_spec _ _ u hu, hc]; rfl
  · obtain ⟨u, _, hu, hc, _⟩ := frontHTTP_ok cf r c h
    rw [parseRequestURI_spec _ _ u hu, hc]; rfl
  · cases h; rfl

/-- A refused handshake only comes from strict checking on DoT / DoQ. -/
theorem front_hs (cf : Conf) (r : Req) (h : front cf r = .error .hs) :
    cf.strict = true ∧ (r.tr = .dot ∨ r.tr = .doq) := by
  unfold front at h
  have tls : ∀ p, frontTLS cf r p = .error .hs → cf.strict = true := by
    intro p hp
    unfold frontTLS at hp
    split at hp
    · next hc => simp at hc; exact hc.1
    · cases hp
  have http : frontHTTP cf r ≠ .error .hs := by
    intro hh
    rcases frontHTTP_error cf r _ hh with ⟨n, hn⟩ | hn <;> cases hn
  cases htr : r.tr <;> simp only [htr] at h
  · cases h
  · cases h
  · exact ⟨tls _ h, Or.inl rfl⟩
  · exact ⟨tls _ h, Or.inr rfl⟩
  · exact absurd h http
  · exact absurd h http
  · exact absurd h http
  · cases h

/-- The outcomes of `front` are never `ans` / `servfail`. -/
theorem front_error_cls (cf : Conf) (r : Req) (o : Out) (h : front cf r = .error o) :
    (∃ n, o = .http n) ∨ o = .rst ∨ o = .hs := by
  unfold front at h
  have tls : ∀ p, frontTLS cf r p = .error o → o = .hs := by
    intro p hp
    unfold frontTLS at hp
    split at hp
    · cases hp; rfl
    · cases hp
  have http : frontHTTP cf r = .error o → (∃ n, o = .http n) ∨ o = .rst :=
    fun hh => frontHTTP_error cf r _ hh
  cases htr : r.tr <;> simp only [htr] at h
  · cases h
  · cases h
  · exact Or.inr (Or.inr (tls _ h))
  · exact Or.inr (Or.inr (tls _ h))
  · rcases http h with h' | h'
    · exact Or.inl h'
    · exact Or.inr (Or.inl h')
  · rcases http h with h' | h'
    · exact Or.inl h'
    · exact Or.inr (Or.inl h')
  · rcases http h with h' | h'
    · exact Or.inl h'
    · exact Or.inr (Or.inl h')
  · cases h

theorem parseRequestURI_parts (e : UrlEnv) (t : Bytes) (u : URL) (h : parseRequestURI e t = some u) :
    hasCTL t = false ∧ splitTarget e t = some (u.host, u.rawPath) ∧ unescape u.rawPath = some u.path := by
  unfold parseRequestURI at h
  split at h
  · cases h
  · next hctl =>
    split at h
    · cases h
    · next host rp hs =>
      cases hd : unescape rp with
      | none => rw [hd] at h; cases h
      | some p => rw [hd] at h; cases h; exact ⟨by simpa using hctl, hs, hd⟩

theorem pathClean_rooted_head (t : Bytes) : ∃ u, pathClean (slash :: t) = slash :: u := by
  simp [pathClean]

theorem muxCleanPath_head (x : Bytes) : ∃ u, muxCleanPath x = slash :: u := by
  unfold muxCleanPath
  by_cases hx : x = []
  · simp [hx]
  · simp only [hx, if_false]
    have hp : ∃ t, (if x.head? ≠ some slash then slash :: x else x) = slash :: t := by
      by_cases h : x.head? = some slash
      · cases x with
        | nil => simp at h
        | cons a t => simp at h; subst h; exact ⟨t, by simp⟩
      · exact ⟨x, by simp [h]⟩
    obtain ⟨t, ht⟩ := hp
    rw [ht]
    obtain ⟨u, hu⟩ := pathClean_rooted_head t
    rw [hu]
    split
    · exact ⟨u ++ [slash], rfl⟩
    · exact ⟨u, rfl⟩

theorem unescape_head_slash (t p : Bytes) (h : unescape (slash :: t) = some p) : ∃ u, p = slash :: u := by
  unfold unescape at h
  have hs : slash ≠ pct := by decide
  rw [unescCheck_cons_ne slash t hs, unescBuild_cons_ne slash t hs] at h
  split at h
  · cases h; exact ⟨_, rfl⟩
  · cases h

theorem escapePath_head_slash (p u : Bytes) (h : escapePath p = slash :: u) : ∃ v, p = slash :: v := by
  cases p with
  | nil => simp [escapePath] at h
  | cons c t =>
    unfold escapePath at h
    split at h
    · simp at h; exact ⟨t, by rw [h.1]⟩
    · simp at h; exact absurd h.1 (by decide)

/-- A request that the mux hands to the DoH handler has a rooted decoded path. -/
theorem gate_path_rooted (cf : Conf) (tr : Tr) (t : Bytes) (d ip : Bool) (u : URL)
    (h : gateHTTP cf tr t d ip = .ok u) : ∃ v, u.path = slash :: v := by
  have hu := gateHTTP_ok cf tr t d ip u h
  unfold gateHTTP at h
  simp only at h
  split at h
  · cases h
  · split at h
    · cases h
    · split at h
      · cases h
      · next u' hu' =>
        rw [hu] at hu'; cases hu'
        split at h
        · cases h
        · next hcl =>
          simp only [ne_eq, Decidable.not_not] at hcl
          obtain ⟨w, hw⟩ := muxCleanPath_head (escapedPath u)
          rw [hcl] at hw
          -- escapedPath u starts with a slash
          unfold parseRequestURI at hu
          split at hu
          · cases hu
          · split at hu
            · cases hu
            · next host rp hsp =>
              cases hun : unescape rp with
              | none => rw [hun] at hu; cases hu
              | some p =>
                rw [hun] at hu; cases hu
                unfold escapedPath at hw
                simp only at hw
                split at hw
                · rw [hw] at hun; exact unescape_head_slash _ _ hun
                · exact escapePath_head_slash _ _ hw
def schemeChar (c : Nat) : Prop := isLetter c = true ∨ isSchemeTail c = true

theorem getSchemeAux_spec (raw : Bytes) : ∀ (s acc sc rest : Bytes), raw = acc ++ s →
    (∀ c ∈ acc, schemeChar c) → getSchemeAux raw acc s = some (sc, rest) →
    (sc = [] ∧ rest = raw) ∨ (sc ≠ [] ∧ raw = sc ++ colon :: rest ∧ ∀ c ∈ sc, schemeChar c) := by
  intro s
  induction s with
  | nil => intro acc sc rest _ _ h; simp [getSchemeAux] at h; obtain ⟨h1, h2⟩ := h; subst h1; subst h2; exact Or.inl ⟨rfl, rfl⟩
  | cons c t ih =>
    intro acc sc rest hraw hacc h
    unfold getSchemeAux at h
    have hraw' : raw = (acc ++ [c]) ++ t := by rw [hraw]; simp
    split at h
    · next hl =>
      exact ih (acc ++ [c]) sc rest hraw' (by
        intro x hx; simp at hx; rcases hx with hx | hx
        · exact hacc x hx
        · subst hx; exact Or.inl hl) h
    · split at h
      · next hl ht =>
        split at h
        · simp at h; obtain ⟨h1, h2⟩ := h; subst h1; subst h2; exact Or.inl ⟨rfl, rfl⟩
        · exact ih (acc ++ [c]) sc rest hraw' (by
            intro x hx; simp at hx; rcases hx with hx | hx
            · exact hacc x hx
            · subst hx; exact Or.inr ht) h
      · split at h
        · next hc =>
          split at h
          · cases h
          · next hne =>
            simp at h
            obtain ⟨h1, h2⟩ := h
            subst h1; subst h2
            exact Or.inr ⟨hne, by rw [hraw, hc], hacc⟩
        · simp at h; obtain ⟨h1, h2⟩ := h; subst h1; subst h2; exact Or.inl ⟨rfl, rfl⟩

theorem not_mem_takeWhile_ne (x : Nat) (s : Bytes) : x ∉ s.takeWhile (· != x) := by
  induction s with
  | nil => simp
  | cons a t ih =>
    by_cases ha : a = x
    · simp [List.takeWhile, ha]
    · have : (a != x) = true := by simp [ha]
      simp only [List.takeWhile, this, List.mem_cons, not_or]
      exact ⟨fun h => ha h.symm, ih⟩

theorem dropWhile_ne_head (x : Nat) (s : Bytes) :
    s.dropWhile (· != x) = [] ∨ (s.dropWhile (· != x)).head? = some x := by
  induction s with
  | nil => left; rfl
  | cons a t ih =>
    by_cases ha : a = x
    · right; simp [List.dropWhile, ha]
    · have : (a != x) = true := by simp [ha]
      simp only [List.dropWhile, this]
      exact ih

theorem cutQuery_split (s : Bytes) :
    ∃ q, s = cutQuery s ++ q ∧ qmark ∉ cutQuery s ∧ (q = [] ∨ q.head? = some qmark) :=
  ⟨s.dropWhile (· != qmark), (List.takeWhile_append_dropWhile).symm, not_mem_takeWhile_ne qmark s,
    dropWhile_ne_head qmark s⟩

/-- **Shape of the target split** the spec relies on: the path component is a
literal substring of the target; what follows it is empty or starts with `?`;
what precedes it is empty (origin-form) or `scheme:` or `scheme://authority`
(absolute-form; the authority becomes the Host), or the target is an opaque
`scheme:rootless` URL whose path is empty. -/
theorem target_split_shape (e : UrlEnv) (raw host rp : Bytes) (h : splitTarget e raw = some (host, rp)) :
    ∃ pre q, raw = pre ++ rp ++ q ∧ qmark ∉ rp ∧ (q = [] ∨ q.head? = some qmark) ∧
      ((pre = [] ∧ host = [] ∧ rp.head? = some slash) ∨
       ∃ sc, sc ≠ [] ∧ (∀ c ∈ sc, schemeChar c) ∧
         ((pre = sc ++ [colon] ∧ host = [] ∧ rp.head? = some slash) ∨
          (∃ auth, pre = sc ++ colon :: slash :: slash :: auth ∧ slash ∉ auth ∧
              parseAuthority e (lower sc) auth = some host ∧ (rp = [] ∨ rp.head? = some slash)) ∨
          (rp = [] ∧ host = [] ∧ ∃ o, pre = sc ++ colon :: o ∧ o.head? ≠ some slash))) := by
  unfold splitTarget at h
  split at h
  · cases h
  · split at h
    · cases h
    · next scheme rest0 hgs =>
      have hsch := getSchemeAux_spec raw raw [] scheme rest0 (by simp) (by simp) hgs
      obtain ⟨q, hq, hnq, hqh⟩ := cutQuery_split rest0
      simp only at h
      split at h
      · next hhead =>
        -- rootless
        split at h
        · next hsc =>
          cases h
          rcases hsch with ⟨h1, _⟩ | ⟨_, hraw, hchars⟩
          · exact absurd h1 hsc
          · refine ⟨scheme ++ colon :: cutQuery rest0, q, ?_, by simp, hqh, Or.inr ⟨scheme, hsc, hchars, ?_⟩⟩
            · rw [hraw]; conv => lhs; rw [hq]
              simp
            · exact Or.inr (Or.inr ⟨rfl, rfl, cutQuery rest0, rfl, hhead⟩)
        · cases h
      · next hhead =>
        simp only [ne_eq, Decidable.not_not] at hhead
        split at h
        · next hauth =>
          split at h
          · next hh hpa =>
            cases h
            obtain ⟨hsc, hpre⟩ := hauth
            rcases hsch with ⟨h1, _⟩ | ⟨_, hraw, hchars⟩
            · exact absurd h1 hsc
            · have hsplit : cutQuery rest0 = slash :: slash ::
                  (((cutQuery rest0).drop 2).takeWhile (· != slash) ++ ((cutQuery rest0).drop 2).dropWhile (· != slash)) := by
                rw [List.takeWhile_append_dropWhile]
                conv => lhs; rw [← List.take_append_drop 2 (cutQuery rest0)]
                rw [hpre]; rfl
              refine ⟨scheme ++ colon :: slash :: slash :: ((cutQuery rest0).drop 2).takeWhile (· != slash), q, ?_, ?_, hqh,
                Or.inr ⟨scheme, hsc, hchars, Or.inr (Or.inl ⟨_, rfl, not_mem_takeWhile_ne slash _, hpa, ?_⟩)⟩⟩
              · rw [hraw]; conv => lhs; rw [hq, hsplit]
                simp
              · intro hm
                exact hnq (List.mem_of_mem_drop ((List.dropWhile_sublist _).mem hm))
              · exact dropWhile_ne_head slash _
          · cases h
        · next hauth =>
          cases h
          rcases hsch with ⟨h1, h2⟩ | ⟨hsc, hraw, hchars⟩
          · refine ⟨[], q, ?_, hnq, hqh, Or.inl ⟨rfl, rfl, hhead⟩⟩
            rw [← h2]; simpa using hq
          · refine ⟨scheme ++ [colon], q, ?_, hnq, hqh, Or.inr ⟨scheme, hsc, hchars, Or.inl ⟨rfl, rfl, hhead⟩⟩⟩
            rw [hraw]; conv => lhs; rw [hq]
            simp

end AGH.C16.E2E
