/-
C06: the model satisfies the spec monitor — byte-exact reading for every table,
case-insensitive monitor for every table with lower-case names, at the three
levels (processRewrites, CheckHost, DNS reply).
-/
import AGH.Lemmas.RewritesDns
namespace AGH.C06
open AGH AGH.Bytes

theorem meets_spec_exact (srt : Bytes → Sorter) (tbl : List Entry) (h : Bytes) (q : Nat) :
    Spec.specExact tbl h q (processRewritesWith srt tbl h q) = true := by
  unfold Spec.specExact processRewritesWith processRun
  have hview := find_view (srt h) tbl h q
  split
  · next hm =>
    -- the table does not cover the name: `Result{}`
    rw [hview.1] at hm
    have hno : specCnames tbl h = [] := by
      rw [List.eq_nil_iff_forall_not_mem]
      intro e he
      obtain ⟨h1, h2, _⟩ := mem_specCnames.mp he
      have : tbl.any (matchesHost · h) = true := List.any_eq_true.mpr ⟨e, h1, h2⟩
      rw [hm] at this; cases this
    have hcov : tbl.any (Spec.covers · h) = false := by rw [covers_fun_eq]; exact hm
    simp only [Spec.allowedFrom]
    change (if (Spec.mostSpecific (specCnames tbl h)).isEmpty = true then _ else _) = true
    rw [hno, mostSpecific_nil]
    simp [Spec.finalOK, hcov, Out.empty]
  · next hm =>
    apply chase_allowed
    · have := unvisited_le tbl []
      omega
    · left
      refine ⟨rfl, rfl, rfl, ?_⟩
      rw [← hview.1]
      simpa using hm


theorem monitor_process (srt : Bytes → Sorter) (tbl : List Entry) (h : Bytes) (q : Nat)
    (hl : Spec.LowerNames tbl) (hh : lower h = h) :
    Spec.specOK tbl h q (processRewritesWith srt tbl h q) = true := by
  unfold Spec.specOK
  rw [lowerNames_map hl, hh, process_canon_lower srt tbl h q hl]
  exact meets_spec_exact srt tbl h q

theorem monitor_checkhost (srt : Bytes → Sorter) (tbl : List Entry) (h : Bytes)
    (q : Nat) (hne : h ≠ []) (hl : Spec.LowerNames tbl) :
    Spec.specOK tbl h q (checkHostWith srt tbl h q) = true := by
  unfold checkHostWith
  rw [if_neg hne]
  simp only
  have hspec := monitor_process srt tbl (lower h) q hl (lower_idem h)
  unfold Spec.specOK at hspec ⊢
  rw [lower_idem] at hspec
  split
  · exact hspec
  · next hr =>
    unfold Spec.specExact at hspec ⊢
    have hr' : (Spec.foldOut (processRewritesWith srt tbl (lower h) q)).rewritten = false := by
      simpa [Spec.foldOut] using hr
    exact allowedFrom_not_rewritten _ _ _ _ hr' _ _ _ hspec

theorem monitor_dns (srt : Bytes → Sorter) (tbl : List Entry) (h : Bytes) (q rc : Nat)
    (hne : h ≠ []) (hl : Spec.LowerNames tbl) :
    Spec.dnsSpecOK tbl h q rc (respondWith srt tbl h q rc) = true := by
  unfold Spec.dnsSpecOK respondWith
  rw [obsToOut_render _ h q rc (checkHost_not_rewritten srt tbl h q) (checkHost_ips_family srt tbl h q)]
  have := monitor_checkhost srt tbl h q hne hl
  unfold Spec.specOK at this ⊢
  rw [lower_idem]
  exact this

end AGH.C06
