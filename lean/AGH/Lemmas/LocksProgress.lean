/-
C05 — lemmas about the lock machine, part 2: ranked lock order with balanced
releases gives progress (`order_sound`) and excludes wait-for cycles
(`no_wait_cycle`).  Core Lean only.
-/
import AGH.Lemmas.Locks
namespace AGH.C05

/-! ### the rank discipline is maintained -/

theorem rankOK_advance (rank : Lock → Nat) (t : Thread)
    (h : rankOK rank t.held t.rest = true) :
    rankOK rank (advance t).held (advance t).rest = true := by
  obtain ⟨held, ann, rest⟩ := t
  cases rest with
  | nil => exact h
  | cons e r =>
    cases e with
    | acq l m =>
      simp only [advance, rankOK, Bool.and_eq_true] at h ⊢
      exact h.2
    | rel l m =>
      simp only [advance, rankOK, Bool.and_eq_true] at h ⊢
      exact h.2
    | rd x => simpa [advance, rankOK] using h
    | wr x => simpa [advance, rankOK] using h

theorem rankOK_reach (rank : Lock → Nat) (p : Prog) (h : progRanked rank p = true) :
    ∀ s, Reach (init p) s → ∀ t ∈ s, rankOK rank t.held t.rest = true := by
  apply reach_forall_thread (fun t => rankOK rank t.held t.rest = true)
  · intro t ht
    unfold init at ht
    obtain ⟨evs, hevs, rfl⟩ := List.mem_map.1 ht
    exact List.all_eq_true.1 h evs hevs
  · exact rankOK_advance rank
  · intro t ht; exact ht

/-! ### what the rank discipline says about one thread -/

theorem rank_waiting {rank : Lock → Nat} {t : Thread} {l : Lock} {m : Mode} {r : List Event}
    (h : rankOK rank t.held t.rest = true) (hr : t.rest = Event.acq l m :: r) :
    ∀ l' : Lock, holdsAny t l' = true → rank l' < rank l := by
  rw [hr] at h
  simp only [rankOK, Bool.and_eq_true] at h
  intro l' hl'
  obtain ⟨m', hm'⟩ := holdsAny_iff.1 hl'
  have := List.all_eq_true.1 h.1 (l', m') hm'
  simpa using this

theorem rank_finished {rank : Lock → Nat} {t : Thread}
    (h : rankOK rank t.held t.rest = true) (hr : t.rest = []) : t.held = [] := by
  rw [hr] at h
  simp only [rankOK] at h
  exact List.isEmpty_iff.1 h

/-- A thread that obeys the discipline and cannot move is finished, or sits in
front of an acquisition that is not enabled. -/
theorem blocked_cases {rank : Lock → Nat} {s : State} {t : Thread}
    (h : rankOK rank t.held t.rest = true) (hb : enabled s t = false) :
    t.rest = [] ∨ ∃ l m r, t.rest = Event.acq l m :: r ∧ canAcq s l m = false := by
  obtain ⟨held, ann, rest⟩ := t
  cases rest with
  | nil => exact Or.inl rfl
  | cons e r =>
    cases e with
    | acq l m => exact Or.inr ⟨l, m, r, rfl, hb⟩
    | rel l m =>
      simp only [rankOK, Bool.and_eq_true] at h
      simp only [enabled] at hb
      rw [h.1] at hb; cases hb
    | rd x => simp [enabled] at hb
    | wr x => simp [enabled] at hb

/-- A blocked thread that holds `l` waits for a lock of strictly larger rank. -/
theorem holder_waits_higher {rank : Lock → Nat} {s : State} {u : Thread} {l : Lock}
    (h : rankOK rank u.held u.rest = true) (hb : enabled s u = false)
    (hl : holdsAny u l = true) :
    ∃ l' m' r', u.rest = Event.acq l' m' :: r' ∧ rank l < rank l' := by
  rcases blocked_cases h hb with hnil | ⟨l', m', r', hr, _⟩
  · have := rank_finished h hnil
    obtain ⟨m, hm⟩ := holdsAny_iff.1 hl
    rw [this] at hm; cases hm
  · exact ⟨l', m', r', hr, rank_waiting h hr l hl⟩

/-- If nobody can move and an acquisition of `l` is refused, somebody holds `l`
(a pending writer that blocks readers is itself blocked by a holder). -/
theorem refused_has_holder {s : State} {l : Lock} {m : Mode}
    (hall : ∀ t ∈ s, enabled s t = false) (hc : canAcq s l m = false) :
    ∃ u ∈ s, holdsAny u l = true := by
  have hexcl : canAcq s l Mode.excl = false → ∃ u ∈ s, holdsAny u l = true := by
    intro hc
    unfold canAcq at hc
    rw [List.all_eq_false] at hc
    obtain ⟨u, hu, hp⟩ := hc
    exact ⟨u, hu, by simpa using hp⟩
  cases m with
  | excl => exact hexcl hc
  | shared =>
    unfold canAcq at hc
    rw [List.all_eq_false] at hc
    obtain ⟨u, hu, hp⟩ := hc
    have hp' : holdsExcl u l = true ∨ wantsExcl u l = true := by
      cases h1 : holdsExcl u l with
      | true => exact Or.inl rfl
      | false =>
        cases h2 : wantsExcl u l with
        | true => exact Or.inr rfl
        | false => rw [h1, h2] at hp; exact absurd rfl hp
    rcases hp' with he | hw
    · exact ⟨u, hu, holdsAny_of_holdsExcl he⟩
    · -- `u` is a pending writer; it is blocked, so someone holds `l`
      have hbu := hall u hu
      obtain ⟨held, ann, rest⟩ := u
      cases rest with
      | nil => simp [wantsExcl] at hw
      | cons e r =>
        simp only [wantsExcl, List.head?_cons, Bool.and_eq_true, beq_iff_eq,
          Option.some.injEq] at hw
        obtain ⟨_, rfl⟩ := hw
        exact hexcl hbu

/-! ### argmax over a non-empty list -/

theorem exists_max {α : Type} (f : α → Nat) :
    ∀ s : List α, s ≠ [] → ∃ a ∈ s, ∀ b ∈ s, f b ≤ f a := by
  intro s
  induction s with
  | nil => intro h; exact absurd rfl h
  | cons x xs ih =>
    intro _
    cases xs with
    | nil =>
      refine ⟨x, List.mem_cons_self, ?_⟩
      intro b hb
      rcases List.mem_cons.1 hb with rfl | hb
      · exact Nat.le_refl _
      · cases hb
    | cons y ys =>
      obtain ⟨a, ha, hmax⟩ := ih (by intro h; cases h)
      by_cases hx : f a ≤ f x
      · refine ⟨x, List.mem_cons_self, ?_⟩
        intro b hb
        rcases List.mem_cons.1 hb with rfl | hb
        · exact Nat.le_refl _
        · exact Nat.le_trans (hmax b hb) hx
      · refine ⟨a, List.mem_cons_of_mem _ ha, ?_⟩
        intro b hb
        rcases List.mem_cons.1 hb with rfl | hb
        · exact Nat.le_of_lt (Nat.lt_of_not_le hx)
        · exact hmax b hb

/-- `rank l + 1` if the thread sits in front of an acquisition of `l`, else 0. -/
def awaitKey (rank : Lock → Nat) (t : Thread) : Nat :=
  match t.rest with
  | Event.acq l _ :: _ => rank l + 1
  | _ => 0

theorem awaitKey_acq {rank : Lock → Nat} {t : Thread} {l : Lock} {m : Mode} {r : List Event}
    (hr : t.rest = Event.acq l m :: r) : awaitKey rank t = rank l + 1 := by
  unfold awaitKey; rw [hr]

theorem all_blocked_of_deadlock {s : State} (h : ∀ i, stepThread s i = none) :
    ∀ t ∈ s, enabled s t = false := by
  intro t ht
  obtain ⟨i, hi⟩ := List.mem_iff_getElem?.1 ht
  have := h i
  unfold stepThread at this
  rw [hi] at this
  simp only at this
  cases he : enabled s t with
  | false => rfl
  | true => rw [he] at this; simp at this

/-- 2. Ranked lock order + balanced releases is sufficient for deadlock
freedom (progress). -/
theorem order_sound (rank : Lock → Nat) (p : Prog) (h : progRanked rank p = true) :
    ∀ s, Reach (init p) s → ¬ Deadlock s := by
  intro s hr hdl
  have hrk := rankOK_reach rank p h s hr
  obtain ⟨hunf, hnone⟩ := hdl
  have hall := all_blocked_of_deadlock hnone
  -- an unfinished thread
  unfold unfinished at hunf
  obtain ⟨t0, ht0, hne0⟩ := List.any_eq_true.1 hunf
  have hsne : s ≠ [] := by intro hs; rw [hs] at ht0; cases ht0
  obtain ⟨a, ha, hmax⟩ := exists_max (awaitKey rank) s hsne
  -- `t0` waits for a lock, so the maximiser does too
  have hk0 : 1 ≤ awaitKey rank t0 := by
    rcases blocked_cases (hrk t0 ht0) (hall t0 ht0) with hnil | ⟨l, m, r, hr0, _⟩
    · rw [hnil] at hne0; simp at hne0
    · rw [awaitKey_acq hr0]; exact Nat.succ_le_succ (Nat.zero_le _)
  have hka : 1 ≤ awaitKey rank a := Nat.le_trans hk0 (hmax t0 ht0)
  rcases blocked_cases (hrk a ha) (hall a ha) with hnil | ⟨l, m, r, hra, hca⟩
  · unfold awaitKey at hka; rw [hnil] at hka; cases hka
  · obtain ⟨u, hu, hul⟩ := refused_has_holder hall hca
    obtain ⟨l', m', r', hru, hlt⟩ := holder_waits_higher (hrk u hu) (hall u hu) hul
    have := hmax u hu
    rw [awaitKey_acq hra, awaitKey_acq hru] at this
    omega

/-! ### no wait-for cycle -/

/-- Rank of the lock thread `i` is about to acquire (0 if none). -/
def awaited (rank : Lock → Nat) (s : State) (i : Nat) : Nat :=
  match s[i]? with
  | some t => awaitKey rank t
  | none => 0

theorem waitsFor_rank_lt {rank : Lock → Nat} {s : State}
    (hrk : ∀ t ∈ s, rankOK rank t.held t.rest = true) {i k k' : Nat}
    (h1 : WaitsFor s i k) (h2 : WaitsFor s k k') : awaited rank s i < awaited rank s k := by
  obtain ⟨ti, tk, l, m, r, hi, hk, hri, _, hhold⟩ := h1
  obtain ⟨tk', _, l', m', r', hk', _, hrk', _, _⟩ := h2
  rw [hk] at hk'
  have : tk = tk' := Option.some.inj hk'
  subst this
  have hlt := rank_waiting (hrk tk (List.mem_of_getElem? hk)) hrk' l hhold
  unfold awaited
  rw [hi, hk]
  simp only
  rw [awaitKey_acq hri, awaitKey_acq hrk']
  omega

theorem waitChain_first {s : State} {i j : Nat} (h : WaitChain s i j) : ∃ k, WaitsFor s i k := by
  cases h with
  | one h => exact ⟨_, h⟩
  | cons h _ => exact ⟨_, h⟩

theorem waitChain_rank_lt {rank : Lock → Nat} {s : State}
    (hrk : ∀ t ∈ s, rankOK rank t.held t.rest = true) {i j : Nat}
    (h : WaitChain s i j) : ∀ j', WaitsFor s j j' → awaited rank s i < awaited rank s j := by
  induction h with
  | one h => intro j' hj; exact waitsFor_rank_lt hrk h hj
  | cons h hc ih =>
    intro j' hj
    obtain ⟨k', hk'⟩ := waitChain_first hc
    exact Nat.lt_trans (waitsFor_rank_lt hrk h hk') (ih j' hj)

/-- 3. ... and no wait-for cycle in any reachable state. -/
theorem no_wait_cycle (rank : Lock → Nat) (p : Prog) (h : progRanked rank p = true) :
    ∀ s, Reach (init p) s → ∀ i, ¬ WaitChain s i i := by
  intro s hr i hc
  have hrk := rankOK_reach rank p h s hr
  obtain ⟨k, hk⟩ := waitChain_first hc
  exact Nat.lt_irrefl _ (waitChain_rank_lt hrk hc k hk)

end AGH.C05
