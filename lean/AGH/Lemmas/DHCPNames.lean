/-
C10 — helper lemmas, part 11: every hostname in the table (and in the file)
is empty or a fixed point of normalisation + validation, and every reservation
lies in the subnet — for every history.  With the repairs of R3 and R4 this is
what makes a restart restore exactly the table.
-/
import AGH.Lemmas.DHCPHostIdx
namespace AGH.C10
open AGH

/-- What is assumed of `normalizeHostname` / `ValidateHostname` (checked by the
driver on every oracle table it is given): normalising a normalised name
changes nothing, and generated names are normalised and valid. -/
structure OracleOK (O : Oracle) : Prop where
  idem : ∀ x n, O.norm x = some n → n ≠ [] → O.norm n = some n
  gen : ∀ ip, O.norm (genHost ip) = some (genHost ip) ∧ O.valid (genHost ip) = true

/-- Empty, or left alone by `validHostnameForClient`. -/
def NameOK (O : Oracle) (h : Bytes) : Prop := h = [] ∨ (O.norm h = some h ∧ O.valid h = true)

def GoodLease (O : Oracle) (c : Conf) (st : Bool) (ip : Nat) (h : Bytes) : Prop :=
  NameOK O h ∧ (st = true → inSubnet c ip = true)

def GoodL (O : Oracle) (c : Conf) (L : List Lease) : Prop := ∀ x ∈ L, GoodLease O c x.static x.ip x.host

/-- Table and file. -/
def Inv3 (O : Oracle) (c : Conf) (s : State) : Prop :=
  GoodL O c s.leases ∧ ∀ d, s.disk = some d → ∀ x ∈ d, GoodLease O c x.static x.ip x.host

theorem validHost_ok {O : Oracle} (ho : OracleOK O) (cli : Bytes) (ip : Nat) : NameOK O (validHost O cli ip) := by
  unfold validHost
  simp only []
  generalize hh : (O.norm cli).getD [] = h0
  by_cases he : h0 = []
  · rw [if_pos he]
    by_cases hv : O.valid (genHost ip) = true
    · rw [if_pos hv]; exact .inr ⟨(ho.gen ip).1, hv⟩
    · rw [if_neg hv]; exact .inl rfl
  · rw [if_neg he]
    by_cases hv : O.valid h0 = true
    · rw [if_pos hv]
      have hn : O.norm cli = some h0 := by
        cases hc : O.norm cli with
        | none => rw [hc] at hh; exact absurd hh.symm he
        | some n => rw [hc] at hh; simp only [Option.getD_some] at hh; rw [hh]
      exact .inr ⟨ho.idem cli h0 hn he, hv⟩
    · rw [if_neg hv]; exact .inl rfl

theorem commitName_ok {O : Oracle} (ho : OracleOK O) (c : Conf) (l : Lease) (hn : Bytes) (s : State)
    (hl : NameOK O l.host) : NameOK O (commitName O c l hn s) := by
  unfold commitName
  simp only []
  by_cases h1 : (s.hosts (validHost O hn l.ip)).isSome = true
  · rw [if_pos h1]
    by_cases h2 : l.host = []
    · rw [if_pos h2]
      generalize (c.fixR3 && (match s.hosts (genHost l.ip) with | some id => id != l.id | none => false)) = b
      cases b
      · exact .inr ⟨(ho.gen l.ip).1, (ho.gen l.ip).2⟩
      · exact .inl rfl
    · rw [if_neg h2]; exact hl
  · rw [if_neg h1]; exact validHost_ok ho hn l.ip

theorem GoodL_snoc {O : Oracle} {c : Conf} {L : List Lease} {l : Lease} (h : GoodL O c L)
    (hl : GoodLease O c l.static l.ip l.host) : GoodL O c (L ++ [l]) := by
  intro x hx
  rcases List.mem_append.1 hx with hx | hx
  · exact h x hx
  · simp only [List.mem_singleton] at hx; subst hx; exact hl

theorem GoodL_mapId {O : Oracle} {c : Conf} {L : List Lease} {id : Nat} {f : Lease → Lease} (h : GoodL O c L)
    (hf : ∀ y ∈ L, (f y).static = y.static ∧ (f y).ip = y.ip ∧ ((f y).host = y.host ∨ NameOK O (f y).host)) :
    GoodL O c (mapId id f L) := by
  intro x hx
  unfold mapId at hx
  obtain ⟨y, hy, rfl⟩ := List.mem_map.1 hx
  split
  · obtain ⟨h1, h2, h3⟩ := hf y hy
    rw [h1, h2]
    rcases h3 with h3 | h3
    · rw [h3]; exact h y hy
    · exact ⟨h3, (h y hy).2⟩
  · exact h y hy

theorem rmDynLoop_good (O : Oracle) (c : Conf) (mac : Bytes) (ip : Nat) (host : Bytes) :
    ∀ (todo pre : List Lease) (s : State), GoodL O c (pre ++ todo) →
      GoodL O c (rmDynLoop c mac ip host pre todo s).1.leases := by
  intro todo
  induction todo with
  | nil => intro pre s h; simpa [rmDynLoop] using h
  | cons l rest ih =>
    intro pre s h
    unfold rmDynLoop
    split
    · split
      · exact h
      · refine ih pre _ ?_
        intro x hx
        exact h x (mem_middle.2 (.inr hx))
    · split
      · refine ih _ _ ?_
        intro x hx
        rw [List.append_assoc] at hx
        rcases mem_middle.1 hx with rfl | hx'
        · exact ⟨.inl rfl, (h l (mem_middle.2 (.inl rfl))).2⟩
        · exact h x (mem_middle.2 (.inr hx'))
      · refine ih _ _ ?_
        rw [List.append_assoc]; exact h

theorem rmDynamicLease_good {O : Oracle} {c : Conf} {s : State} (mac : Bytes) (ip : Nat) (host : Bytes)
    (h : GoodL O c s.leases) : GoodL O c (rmDynamicLease c mac ip host s).1.leases :=
  rmDynLoop_good O c mac ip host s.leases [] s (by simpa using h)

theorem allocate_good {O : Oracle} {c : Conf} {s : State} {mac : Bytes} (h : GoodL O c s.leases) :
    GoodL O c (allocateLease c mac s).1.leases := by
  unfold allocateLease
  cases nextIP c s with
  | none =>
    simp only []
    cases findExpired s.now s.leases with
    | none => exact h
    | some l => exact GoodL_mapId h (fun y _ => ⟨rfl, rfl, .inl rfl⟩)
  | some ip =>
    simp only []
    cases hadd : addLease c { id := s.nextId, mac := mac, ip := ip, host := [], static := false, exp := 0 } s.fresh.2 with
    | error e => exact h
    | ok s' =>
      simp only []
      rw [(addLease_leases hadd).1]
      exact GoodL_snoc h ⟨.inl rfl, fun hh => by cases hh⟩

theorem renameLease_good {O : Oracle} {c : Conf} {s : State} (l : Lease) (hn : Bytes) (e : Nat)
    (h : GoodL O c s.leases) (hok : NameOK O hn) : GoodL O c (renameLease l hn e s).leases := by
  rw [(renameLease_frame l hn e).1]
  exact GoodL_mapId h (fun y _ => ⟨rfl, rfl, .inr hok⟩)

theorem addLease_subnet {c : Conf} {s s' : State} {l : Lease} (hadd : addLease c l s = .ok s') (hs : l.static = true) :
    inSubnet c l.ip = true := by
  unfold addLease at hadd
  cases hsub : inSubnet c l.ip
  · simp [hs, hsub] at hadd
  · rfl

theorem Inv3_store {O : Oracle} {c : Conf} {s : State} (h : GoodL O c s.leases) : Inv3 O c s.store := by
  refine ⟨h, ?_⟩
  intro d hd x hx
  simp only [State.store, Option.some.injEq] at hd
  subst hd
  obtain ⟨l, hl, rfl⟩ := List.mem_map.1 ((sortByHost_perm _).mem_iff.1 hx)
  exact h l hl

theorem handleDiscover_good {O : Oracle} {c : Conf} {s : State} {mac : Bytes} (h : GoodL O c s.leases) :
    Inv3 O c (handleDiscover c mac s).1 := by
  unfold handleDiscover
  cases findLease mac s with
  | some l => exact Inv3_store h
  | none =>
    simp only []
    have := allocate_good (mac := mac) h
    rcases hal : allocateLease c mac s with ⟨s1, r⟩
    rw [hal] at this
    rcases r with _ | _ | l <;> exact Inv3_store this

theorem handleRequest_good {O : Oracle} {c : Conf} {s : State} {mac : Bytes} {sid : Nat} {rp : Bool} {rip ci : Nat}
    {hn : Bytes} (ho : OracleOK O) (h : Inv3 O c s) : Inv3 O c (handleRequest O c mac sid rp rip ci hn s).1 := by
  unfold handleRequest
  rcases hb : handleByRequestType c mac sid rp rip ci s with ⟨lo, b⟩
  rcases lo with _ | l
  · cases b <;> exact h
  · simp only []
    obtain ⟨hl, _⟩ := hbrt_some hb
    split
    · exact Inv3_store h.1
    · refine Inv3_store ?_
      show GoodL O c (commitLease O c l hn s).leases
      unfold commitLease
      exact renameLease_good l _ _ h.1 (commitName_ok ho c l hn s (h.1 l hl).1)

theorem handleDecline_good {O : Oracle} {c : Conf} {s : State} {mac : Bytes} {rp : Bool} {rip ci : Nat}
    (h : GoodL O c s.leases) : Inv3 O c (handleDecline c mac rp rip ci s).1 := by
  unfold handleDecline
  simp only []
  cases hf : s.leases.find? (fun l => l.mac == mac && l.ip == msgIP rp rip ci) with
  | none => exact Inv3_store h
  | some old =>
    simp only []
    have hold := (h old (List.mem_of_find?_eq_some hf)).1
    have h1 := rmDynamicLease_good old.mac old.ip old.host h
    rcases hr : rmDynamicLease c old.mac old.ip old.host s with ⟨s1, e⟩
    rw [hr] at h1
    cases e with
    | true => exact Inv3_store h1
    | false =>
      simp only []
      have h2 := allocate_good (mac := mac) h1
      rcases hal : allocateLease c mac s1 with ⟨s2, r⟩
      rw [hal] at h2
      rcases r with _ | _ | nl
      · exact Inv3_store h2
      · exact Inv3_store h2
      · exact Inv3_store (renameLease_good nl _ _ h2 hold)

theorem releaseLoop_good (O : Oracle) (c : Conf) (mac : Bytes) (ip : Nat) : ∀ (n k : Nat) (s : State),
    GoodL O c s.leases → GoodL O c (releaseLoop c mac ip n k s).1.leases := by
  intro n
  induction n with
  | zero => intro k s h; exact h
  | succ n ih =>
    intro k s h
    unfold releaseLoop
    split
    · exact ih _ _ h
    · split
      · exact ih _ _ h
      · next l _ =>
        split
        · exact ih _ _ h
        · have hi := rmDynamicLease_good l.mac l.ip l.host h
          rcases hr : rmDynamicLease c l.mac l.ip l.host s with ⟨s1, e⟩
          rw [hr] at hi
          cases e
          · exact ih _ _ hi
          · exact hi

theorem handleRelease_good {O : Oracle} {c : Conf} {s : State} {mac : Bytes} {rp : Bool} {rip ci : Nat}
    (h : GoodL O c s.leases) : Inv3 O c (handleRelease c mac rp rip ci s).1 := by
  unfold handleRelease
  simp only []
  have hi := releaseLoop_good O c mac (msgIP rp rip ci) s.leases.length 0 { s with stale := [] } h
  rcases hr : releaseLoop c mac (msgIP rp rip ci) s.leases.length 0 { s with stale := [] } with ⟨s1, e⟩
  rw [hr] at hi
  cases e <;> exact Inv3_store hi

theorem staticHost_ok {O : Oracle} (ho : OracleOK O) {raw h : Bytes} (hs : staticHost O raw = some h) : NameOK O h := by
  unfold staticHost at hs
  split at hs
  · cases hs; exact .inl rfl
  · cases hn : O.norm raw with
    | none => rw [hn] at hs; cases hs
    | some n =>
      rw [hn] at hs
      simp only [] at hs
      split at hs
      · next hv =>
        cases hs
        by_cases he : h = []
        · exact .inl he
        · exact .inr ⟨ho.idem raw h hn he, hv⟩
      · cases hs

theorem addStaticCore_good {O : Oracle} {c : Conf} {s : State} {mac : Bytes} {ip : Nat} {host : Bytes}
    (h : GoodL O c s.leases) (hok : NameOK O host) : Inv3 O c (addStaticCore c mac ip host s).1 := by
  unfold addStaticCore
  have h1 := rmDynamicLease_good mac ip host h
  rcases hr : rmDynamicLease c mac ip host s with ⟨s1, e⟩
  rw [hr] at h1
  cases e with
  | true => exact Inv3_store h1
  | false =>
    simp only []
    cases hadd : addLease c { id := s1.nextId, mac := mac, ip := ip, host := host, static := true, exp := 0 } s1.fresh.2 with
    | error e => exact Inv3_store h1
    | ok s2 =>
      refine Inv3_store ?_
      rw [(addLease_leases hadd).1]
      exact GoodL_snoc h1 ⟨hok, fun _ => addLease_subnet hadd rfl⟩

theorem rmLease_good {O : Oracle} {c : Conf} {s s' : State} {mac : Bytes} {ip : Nat} {host : Bytes}
    (h : GoodL O c s.leases) (hr : rmLease c mac ip host s = .ok s') : GoodL O c s'.leases := by
  by_cases hne : s.leases = []
  · unfold rmLease at hr
    rw [hne] at hr
    simp only [List.isEmpty_nil, if_true, Except.ok.injEq] at hr
    rw [← hr]; exact h
  · obtain ⟨A, B, l, hs, _, _, _, hs1⟩ := rmLease_spec hr hne
    rw [hs1]
    intro x hx
    exact h x (by rw [hs]; exact mem_middle.2 (.inr hx))

theorem updStaticCore_good {O : Oracle} {c : Conf} {s : State} {mac : Bytes} {ip : Nat} {host : Bytes} {found : Lease}
    (h : Inv3 O c s) (hok : NameOK O host) : Inv3 O c (updStaticCore c found mac ip host s).1 := by
  unfold updStaticCore
  split
  · exact h
  · exact h
  · next s1 hr =>
    have h1 := rmLease_good h.1 hr
    have hd1 : s1.disk = s.disk := by
      by_cases hne : s.leases = []
      · unfold rmLease at hr
        rw [hne] at hr
        simp only [List.isEmpty_nil, if_true, Except.ok.injEq] at hr
        rw [← hr]
      · obtain ⟨A, B, l, _, _, _, _, hs1⟩ := rmLease_spec hr hne
        rw [hs1]; rfl
    cases hadd : addLease c { id := s1.nextId, mac := mac, ip := ip, host := host, static := true, exp := 0 } s1.fresh.2 with
    | error e => exact ⟨h1, by show ∀ d, s1.disk = some d → _; rw [hd1]; exact h.2⟩
    | ok s2 =>
      refine Inv3_store ?_
      rw [(addLease_leases hadd).1]
      exact GoodL_snoc h1 ⟨hok, fun _ => addLease_subnet hadd rfl⟩

theorem loadHost_ok {O : Oracle} (ho : OracleOK O) (c : Conf) (d : DLease) (hd : NameOK O d.host) :
    NameOK O (loadHost O c d) := by
  unfold loadHost
  split
  · exact hd
  · exact validHost_ok ho _ _

theorem resetLoop_good (O : Oracle) (c : Conf) (ho : OracleOK O) : ∀ (d : List DLease) (s : State),
    GoodL O c s.leases → (∀ x ∈ d, GoodLease O c x.static x.ip x.host) → GoodL O c (resetLoop O c d s).leases := by
  intro d
  induction d with
  | nil => intro s h _; exact h
  | cons x rest ih =>
    intro s h hd
    unfold resetLoop
    cases hadd : addLease c (loadLease O c x s.nextId) s.fresh.2 with
    | error e => exact ih _ h (fun y hy => hd y (List.mem_cons_of_mem _ hy))
    | ok s' =>
      refine ih _ ?_ (fun y hy => hd y (List.mem_cons_of_mem _ hy))
      rw [(addLease_leases hadd).1]
      refine GoodL_snoc h ⟨loadHost_ok ho c x (hd x List.mem_cons_self).1, ?_⟩
      intro hs
      exact addLease_subnet hadd hs

theorem restart_good {O : Oracle} {c : Conf} {s : State} (ho : OracleOK O) (h : Inv3 O c s) : Inv3 O c (restart O c s) := by
  unfold restart
  simp only []
  cases hd : s.disk with
  | none => exact ⟨by intro x hx; simp [State.init] at hx, by intro d hd'; cases hd'⟩
  | some d =>
    simp only []
    have hg := resetLoop_good O c ho d { State.init with nextId := s.nextId, now := s.now, disk := some d }
      (by intro x hx; simp [State.init] at hx) (h.2 d hd)
    refine ⟨hg, ?_⟩
    rw [(resetLoop_disk O c d _).1]
    intro d' hd' x hx
    cases hd'
    exact h.2 d hd x hx

/-- Every operation keeps names normalised and reservations inside the subnet, in the table and in the file. -/
theorem Inv3_step {O : Oracle} {c : Conf} {s : State} {op : Op} (ho : OracleOK O) (h : Inv3 O c s) :
    Inv3 O c (step O c s op).1 := by
  have h0 : Inv3 O c { s with stale := [] } := h
  unfold step
  simp only []
  cases op with
  | discover mac =>
    simp only []
    split
    · exact h0
    · exact handleDiscover_good h0.1
  | request mac sid rp rip ci hn =>
    simp only []
    split
    · exact h0
    · exact handleRequest_good ho h0
  | decline mac rp rip ci =>
    simp only []
    split
    · exact h0
    · exact handleDecline_good h0.1
  | release mac rp rip ci =>
    simp only []
    split
    · exact h0
    · exact handleRelease_good h0.1
  | addStatic mac ip hn =>
    simp only []
    unfold addStatic
    split
    · exact h0
    split
    · exact h0
    split
    · exact h0
    · next host hsh => exact addStaticCore_good h0.1 (staticHost_ok ho hsh)
  | updStatic mac ip hn =>
    simp only []
    unfold updStatic
    cases findLease mac { s with stale := [] } with
    | none => exact h0
    | some found =>
      simp only []
      split
      · exact h0
      · next host hnorm =>
        split
        · exact h0
        · next hchk =>
          have hv : O.valid host = true := by
            unfold updStaticCheck at hchk
            cases hvv : O.valid host
            · simp [hvv] at hchk
            · rfl
          have hok : NameOK O host := by
            by_cases he : host = []
            · exact .inl he
            · exact .inr ⟨ho.idem hn host hnorm he, hv⟩
          exact updStaticCore_good h0 hok
  | rmStatic mac ip hn =>
    simp only []
    unfold rmStatic
    split
    · exact h0
    · split
      · exact h0
      · exact h0
      · next s1 hr => exact Inv3_store (rmLease_good h0.1 hr)
  | sleep d => exact h0
  | restart => exact restart_good ho h0
  | resetLeases => exact Inv3_store (by intro x hx; simp [State.init] at hx)
  | reorder d =>
    obtain ⟨h1, _, _, _, _, _, h7⟩ := reorderDisk_spec d { s with stale := [] }
    refine ⟨by show GoodL O c (reorderDisk d { s with stale := [] }).leases; rw [h1]; exact h0.1, ?_⟩
    show ∀ d', (reorderDisk d { s with stale := [] }).disk = some d' → _
    rcases h7 with h7 | ⟨d0, hd0, hd, hp⟩
    · rw [h7]; exact h0.2
    · intro d' hd' x hx
      rw [hd] at hd'; cases hd'
      exact h0.2 d0 hd0 x (hp.mem_iff.1 hx)

theorem Inv3_init (O : Oracle) (c : Conf) : Inv3 O c State.init := by
  unfold Inv3 GoodL
  exact ⟨by intro x hx; simp [State.init] at hx, by intro d hd; simp [State.init] at hd⟩

theorem run_inv3 {O : Oracle} {c : Conf} (ho : OracleOK O) : ∀ (ops : List Op) (s : State), Inv3 O c s →
    Inv3 O c (run O c s ops) := by
  intro ops
  induction ops with
  | nil => intro s h; exact h
  | cons op rest ih => intro s h; unfold run; exact ih _ (Inv3_step ho h)

/-! ### the repaired tree -/

theorem NoR3_of_fix {O : Oracle} {c : Conf} (hf : c.fixR3 = true) : ∀ (ops : List Op) (s : State), NoR3 O c s ops := by
  intro ops
  induction ops with
  | nil => intro s; trivial
  | cons op rest ih => intro s; exact ⟨.inl hf, ih _⟩

/-- Everything the three invariants give for a reachable state. -/
theorem Reachable.all {O : Oracle} {c : Conf} {s : State} (ho : OracleOK O) (hf : c.fixR3 = true)
    (hr : Reachable O c s) : Inv2 c s ∧ Inv3 O c s := by
  obtain ⟨ops, rfl⟩ := hr
  exact ⟨run_inv2 ops _ ⟨Inv_init c, by intro l hl; cases hl⟩ (NoR3_of_fix hf ops _), run_inv3 ho ops _ (Inv3_init O c)⟩

/-- With both repairs, a restart of ANY state the invariants describe restores
exactly the table the file lists, and the file still mirrors it. -/
theorem restart_restores_fixed {O : Oracle} {c : Conf} {s : State} (ho : OracleOK O) (hf4 : c.fixR4 = true)
    (h2 : Inv2 c s) (h3 : Inv3 O c s) (hm : Mirror s) :
    ((restart O c s).leases.map Lease.toDisk).Perm (s.leases.map Lease.toDisk) ∧ Mirror (restart O c s) := by
  have hres := restart_restores (O := O) h2.1 hm
    (fun l hl hs => (h3.1 l hl).2 hs)
    (by
      intro l hl hs
      unfold loadHost
      have hst : l.toDisk.static = false := by simpa [Lease.toDisk] using hs
      have hh : l.toDisk.host = l.host := rfl
      have hi : l.toDisk.ip = l.ip := rfl
      rw [hst, hh, hi, hf4]
      by_cases he : l.host = []
      · simp [he]
      · have : (l.host == []) = false := by simpa using he
        simp only [this, Bool.false_or, Bool.and_false, Bool.false_eq_true, if_false]
        rcases (h3.1 l hl).1 with hn | ⟨hn1, hn2⟩
        · exact absurd hn he
        · exact validHost_idem he hn1 hn2)
    (by
      intro l₁ h₁ l₂ h₂ he hne
      have e1 := h2.2 l₁ h₁ hne
      have e2 := h2.2 l₂ h₂ (by rw [← he]; exact hne)
      rw [he, e2] at e1
      exact nodup_map_inj h2.1.idNodup h₁ h₂ (by simpa using e1.symm))
  refine ⟨hres.1, ?_⟩
  rcases hm with ⟨d, hd, _⟩ | ⟨hd, hl⟩
  · refine .inl ⟨d, by rw [hres.2.1]; exact hd, ?_⟩
    rw [hres.2.2 d hd]
  · refine .inr ⟨by rw [hres.2.1]; exact hd, ?_⟩
    have := hres.1
    rw [hl] at this
    simpa using this.length_eq

/-- With both repairs the file mirrors the table along EVERY history, restarts included. -/
theorem run_mirror_fixed {O : Oracle} {c : Conf} (ho : OracleOK O) (hf3 : c.fixR3 = true) (hf4 : c.fixR4 = true) :
    ∀ (ops : List Op) (s : State), Inv2 c s → Inv3 O c s → Mirror s → Mirror (run O c s ops) := by
  intro ops
  induction ops with
  | nil => intro s _ _ hm; exact hm
  | cons op rest ih =>
    intro s h2 h3 hm
    unfold run
    refine ih _ (Inv2_step h2 (.inl hf3)) (Inv3_step ho h3) ?_
    by_cases hop : op = .restart
    · subst hop
      exact (restart_restores_fixed ho hf4 ⟨Inv_congr h2.1 rfl rfl rfl rfl rfl rfl, HC_congr h2.2 rfl rfl⟩ h3
        (Mirror_congr hm rfl rfl)).2
    · exact Mirror_step h2.1 hm hop

end AGH.C10
