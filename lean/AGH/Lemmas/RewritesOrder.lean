/-
C06: order independence of `processRewrites` on tie-free tables, for any two
sorters and any two orders of the table.
-/
import AGH.Lemmas.RewritesRun
namespace AGH.C06
open AGH AGH.Bytes AGH.C06.Spec

theorem OutEquiv.refl (a : Out) : OutEquiv a a := ⟨rfl, fun _ => ⟨rfl, List.Perm.refl _⟩⟩

theorem setRewriteResult_perm (canon : Bytes) (l₁ l₂ : List Entry) (qt : Nat)
    (hp : l₁.Perm l₂) (hn : ∀ e ∈ l₁, e.typ ≠ .CNAME) :
    OutEquiv (setRewriteResult ⟨true, canon, []⟩ l₁ qt) (setRewriteResult ⟨true, canon, []⟩ l₂ qt) := by
  have hn₂ : ∀ e ∈ l₂, e.typ ≠ .CNAME := fun e he => hn e (hp.symm.subset he)
  have v₁ := setRewriteResult_view ⟨true, canon, []⟩ l₁ qt hn
  have v₂ := setRewriteResult_view ⟨true, canon, []⟩ l₂ qt hn₂
  have hany := any_eq_of_perm (Spec.passesFamily · qt) hp
  cases h : l₁.any (Spec.passesFamily · qt)
  · rw [v₁.2 h, v₂.2 (hany ▸ h)]
    exact ⟨rfl, fun _ => ⟨rfl, by simpa using hp.filterMap _⟩⟩
  · have r₁ := v₁.1 h
    have r₂ := v₂.1 (hany ▸ h)
    exact ⟨by rw [r₁, r₂], fun hr => by rw [r₁] at hr; cases hr⟩

theorem setRewriteResult_single_congr (res : Out) (a b : Entry) (qt : Nat)
    (ht : a.typ = b.typ) (hi : a.ip = b.ip) :
    setRewriteResult res [a] qt = setRewriteResult res [b] qt := by
  simp [setRewriteResult, ht, hi]

/-- Two entries each minimal w.r.t. the other have the same sort key. -/
theorem tie_facts {a b : Entry} (h1 : cmp a b ≤ 0) (h2 : cmp b a ≤ 0) :
    (a.typ = .CNAME ↔ b.typ = .CNAME) ∧ isWildcard a.domain = isWildcard b.domain ∧
      a.domain.length = b.domain.length := by
  rw [cmp_le_iff] at h1 h2
  unfold key at h1 h2
  by_cases ha : a.typ = .CNAME <;> by_cases hb : b.typ = .CNAME <;>
    cases hwa : isWildcard a.domain <;> cases hwb : isWildcard b.domain <;>
    simp [ha, hb, hwa, hwb] at h1 h2 ⊢ <;> omega

/-- Tied entries covering the same name have the same pattern. -/
theorem tie_domain_eq {a b : Entry} {host : Bytes}
    (ha : matchesHost a host = true) (hb : matchesHost b host = true)
    (hw : isWildcard a.domain = isWildcard b.domain) (hl : a.domain.length = b.domain.length) :
    a.domain = b.domain := by
  cases hwa : isWildcard a.domain
  · have hwb : isWildcard b.domain = false := by rw [← hw, hwa]
    rw [domain_eq_of_matches_not_wild ha hwa, domain_eq_of_matches_not_wild hb hwb]
  · have hwb : isWildcard b.domain = true := by rw [← hw, hwa]
    exact wild_domain_eq ha hb hwa hwb hl

theorem candidates_perm {t₁ t₂ : List Entry} (hp : t₁.Perm t₂) (host : Bytes) (qt : Nat) :
    (candidates t₁ host qt).Perm (candidates t₂ host qt) := by
  unfold candidates
  exact (hp.filter _).filter _

theorem unvisited_perm {t₁ t₂ : List Entry} (hp : t₁.Perm t₂) (visited : List Bytes) :
    unvisited t₁ visited = unvisited t₂ visited := by
  unfold unvisited
  exact (hp.filter _).length_eq

theorem chase_order (srt₁ srt₂ : Bytes → Sorter) (t₁ t₂ : List Entry) (qt : Nat) (orig : Bytes)
    (hp : t₁.Perm t₂) (htf : TieFree t₁ qt) :
    ∀ (fuel : Nat) (host : Bytes) (visited : List Bytes) (canon : Bytes),
      unvisited t₁ visited < fuel →
      OutEquiv (chase srt₁ t₁ qt orig host visited canon).out
        (chase srt₂ t₂ qt orig host visited canon).out := by
  intro fuel
  induction fuel with
  | zero => intro _ _ _ h; omega
  | succ n ih =>
    intro host visited canon hf
    have v₁ := find_view (srt₁ host) t₁ host qt
    have v₂ := find_view (srt₂ host) t₂ host qt
    have hcp := candidates_perm hp host qt
    have hany : t₁.any (matchesHost · host) = t₂.any (matchesHost · host) := any_eq_of_perm _ hp
    rcases v₁.2 with ⟨hnil₁, hfr₁⟩ | ⟨a, rest₁, hsort₁, hfr₁, ha, hmin₁⟩
    · -- no candidates on either side
      have hnil₂ : candidates t₂ host qt = [] := by
        have := hcp.length_eq; rw [hnil₁] at this
        exact List.eq_nil_of_length_eq_zero this.symm
      have hfr₂ : (findRewritesWith (srt₂ host) t₂ host qt).1 = [] := by
        rcases v₂.2 with ⟨_, h⟩ | ⟨b, _, _, _, hb, _⟩
        · exact h
        · rw [hnil₂] at hb; cases hb
      rw [chase_nil _ _ _ _ _ _ _ hfr₁, chase_nil _ _ _ _ _ _ _ hfr₂]
      exact OutEquiv.refl _
    · rcases v₂.2 with ⟨hnil₂, _⟩ | ⟨b, rest₂, hsort₂, hfr₂, hb, hmin₂⟩
      · have := hcp.subset ha; rw [hnil₂] at this; cases this
      · obtain ⟨tl₁, htl₁⟩ := cut_cons_head a rest₁
        obtain ⟨tl₂, htl₂⟩ := cut_cons_head b rest₂
        have heq₁ : (findRewritesWith (srt₁ host) t₁ host qt).1 = a :: tl₁ := by rw [hfr₁, htl₁]
        have heq₂ : (findRewritesWith (srt₂ host) t₂ host qt).1 = b :: tl₂ := by rw [hfr₂, htl₂]
        have hb₁ : b ∈ candidates t₁ host qt := hcp.symm.subset hb
        have ha₂ : a ∈ candidates t₂ host qt := hcp.subset ha
        obtain ⟨hk, hw, hl⟩ := tie_facts (hmin₁ b hb₁) (hmin₂ a ha₂)
        obtain ⟨ma1, ma2, ma3⟩ := mem_candidates.mp ha
        obtain ⟨mb1, mb2, mb3⟩ := mem_candidates.mp hb₁
        have hdom : a.domain = b.domain := tie_domain_eq ma2 mb2 hw hl
        have hm₁ : (findRewritesWith (srt₁ host) t₁ host qt).2 = true := by
          rw [v₁.1]; exact List.any_eq_true.mpr ⟨a, ma1, ma2⟩
        have hm₂ : (findRewritesWith (srt₂ host) t₂ host qt).2 = true := by
          rw [v₂.1, ← hany, ← v₁.1]; exact hm₁
        have hch₁ := chase_cons srt₁ t₁ qt orig host visited canon a tl₁ heq₁
        have hch₂ := chase_cons srt₂ t₂ qt orig host visited canon b tl₂ heq₂
        by_cases hac : a.typ = .CNAME
        · have hbc : b.typ = .CNAME := hk.mp hac
          have hans : a.answer = b.answer := htf.1 a ma1 b mb1 hac hbc hdom
          rw [if_pos (And.intro hm₁ hac)] at hch₁
          rw [if_pos (And.intro hm₂ hbc), ← hans, ← hdom] at hch₂
          by_cases h1 : orig = a.answer ∨ a.domain = a.answer
          · rw [if_pos h1] at hch₁ hch₂
            rw [hch₁, hch₂]; exact OutEquiv.refl _
          · rw [if_neg h1] at hch₁ hch₂
            by_cases h2 : host = a.answer ∧ isWildcard a.domain = true
            · rw [if_pos h2] at hch₁ hch₂
              rw [hch₁, hch₂]
              -- both lists are the single wildcard CNAME entry
              have hwb : isWildcard b.domain = true := by rw [← hdom]; exact h2.2
              have e₁ : tl₁ = [] := by
                have : cut (a :: rest₁) = [a] := by simp [cut, h2.2]
                rw [this] at htl₁; exact (List.cons.inj htl₁).2.symm
              have e₂ : tl₂ = [] := by
                have : cut (b :: rest₂) = [b] := by simp [cut, hwb]
                rw [this] at htl₂; exact (List.cons.inj htl₂).2.symm
              subst e₁; subst e₂
              have hcode : ∀ x : Entry, x.typ = .CNAME → ¬ (x.typ.code = qt ∧ (qt = qA ∨ qt = qAAAA)) := by
                rintro x hx ⟨c1, c2⟩
                rw [hx] at c1
                simp [RType.code, qA, qAAAA] at c1 c2
                omega
              simp only [setRewriteResult, hcode a hac, hcode b hbc, if_false]
              exact OutEquiv.refl _
            · rw [if_neg h2] at hch₁ hch₂
              by_cases h3 : visited.contains a.answer = true
              · rw [if_pos h3] at hch₁ hch₂
                rw [hch₁, hch₂]; exact OutEquiv.refl _
              · rw [if_neg h3] at hch₁ hch₂
                rw [hch₁, hch₂]
                apply ih
                have hvf : visited.contains a.answer = false := by simpa using h3
                have := unvisited_lt t₁ visited a ma1 hvf
                omega
        · have hbc : ¬ b.typ = .CNAME := fun h => hac (hk.mpr h)
          rw [if_neg (fun h => hac h.2)] at hch₁
          rw [if_neg (fun h => hbc h.2)] at hch₂
          rw [hch₁, hch₂, ← heq₁, ← heq₂]
          -- no CNAME entry among the candidates
          have hno₁ : ∀ e ∈ t₁, matchesHost e host = true → e.typ ≠ .CNAME := by
            intro e he hm hc
            have : e ∈ candidates t₁ host qt := mem_candidates.mpr ⟨he, hm, matchesQType_cname hc qt⟩
            exact hac (cname_of_le_cname (hmin₁ e this) hc)
          have hno₂ : ∀ e ∈ t₂, matchesHost e host = true → e.typ ≠ .CNAME :=
            fun e he => hno₁ e (hp.symm.subset he)
          cases hwa : isWildcard a.domain
          · have p₁ := find_exact_perm (srt₁ host) t₁ host qt hno₁ ⟨a, ha, hwa⟩
            have p₂ := find_exact_perm (srt₂ host) t₂ host qt hno₂ ⟨a, ha₂, hwa⟩
            have hpp := p₁.trans ((hcp.filter _).trans p₂.symm)
            apply setRewriteResult_perm _ _ _ _ hpp
            intro e he
            obtain ⟨m1, m2, _⟩ := mem_candidates.mp (find_mem_candidates _ _ _ _ e he)
            exact hno₁ e m1 m2
          · have hwb : isWildcard b.domain = true := by rw [← hw]; exact hwa
            have c₁ : (findRewritesWith (srt₁ host) t₁ host qt).1 = [a] := by
              rw [hfr₁]; simp [cut, hwa]
            have c₂ : (findRewritesWith (srt₂ host) t₂ host qt).1 = [b] := by
              rw [hfr₂]; simp [cut, hwb]
            obtain ⟨ht, hi⟩ := htf.2 a ma1 b mb1 hac hbc hwa hdom ma3 mb3
            rw [c₁, c₂, setRewriteResult_single_congr _ a b qt ht hi]
            exact OutEquiv.refl _

/-- On a tie-free table the result does not depend on the order of the entries
nor on how the sort breaks ties. -/
theorem process_order (srt₁ srt₂ : Bytes → Sorter) (t₁ t₂ : List Entry) (h : Bytes) (qt : Nat)
    (hp : t₁.Perm t₂) (htf : TieFree t₁ qt) :
    OutEquiv (processRewritesWith srt₁ t₁ h qt) (processRewritesWith srt₂ t₂ h qt) := by
  unfold processRewritesWith processRun
  have hany : t₁.any (matchesHost · h) = t₂.any (matchesHost · h) := any_eq_of_perm _ hp
  have e₁ := (find_view (srt₁ h) t₁ h qt).1
  have e₂ := (find_view (srt₂ h) t₂ h qt).1
  rw [e₁, e₂, ← hany]
  split
  · exact OutEquiv.refl _
  · apply chase_order srt₁ srt₂ t₁ t₂ qt h hp htf (t₁.length + 1)
    have := unvisited_le t₁ []
    omega

end AGH.C06
