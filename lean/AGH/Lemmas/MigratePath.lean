/-
C13, independence from partial runs: from the per-step facts (`Sim`, `inv`) to
`upgradeConfigSchema` and to re-encoding.
-/
import AGH.Lemmas.MigrateInv
import AGH.Lemmas.MigrateSpec
namespace AGH.C13
open AGH

/-! ### all steps -/

theorem step_sim (o : Oracles) (n : Nat) (h1 : 1 ≤ n) (h29 : n ≤ 29) (es) (h : inv o (.obj es) = true) :
    Sim o (step o n (.obj es)) (step o n (er o (.obj es))) := by
  have : n = 1 ∨ n = 2 ∨ n = 3 ∨ n = 4 ∨ n = 5 ∨ n = 6 ∨ n = 7 ∨ n = 8 ∨ n = 9 ∨ n = 10 ∨ n = 11 ∨
      n = 12 ∨ n = 13 ∨ n = 14 ∨ n = 15 ∨ n = 16 ∨ n = 17 ∨ n = 18 ∨ n = 19 ∨ n = 20 ∨ n = 21 ∨
      n = 22 ∨ n = 23 ∨ n = 24 ∨ n = 25 ∨ n = 26 ∨ n = 27 ∨ n = 28 ∨ n = 29 := by omega
  rcases this with h | h | h | h | h | h | h | h | h | h | h | h | h | h | h | h | h | h | h | h | h | h | h |
    h | h | h | h | h | h <;> subst h <;> simp only [step]
  · exact step1_sim o es ‹_›
  · exact step2_sim o es ‹_›
  · exact step3_sim o es ‹_›
  · exact step4_sim o es ‹_›
  · exact step5_sim o es ‹_›
  · exact step6_sim o es ‹_›
  · exact step7_sim o es ‹_›
  · exact step8_sim o es ‹_›
  · exact step9_sim o es ‹_›
  · exact step10_sim o es ‹_›
  · exact step11_sim o es ‹_›
  · exact step12_sim o es ‹_›
  · exact step13_sim o es ‹_›
  · exact step14_sim o es ‹_›
  · exact step15_sim o es ‹_›
  · exact step16_sim o es ‹_›
  · exact step17_sim o es ‹_›
  · exact step18_sim o es ‹_›
  · exact step19_sim o es ‹_›
  · exact step20_sim o es ‹_›
  · exact step21_sim o es ‹_›
  · exact step22_sim o es ‹_›
  · exact step23_sim o es ‹_›
  · exact step24_sim o es ‹_›
  · exact step25_sim o es ‹_›
  · exact step26_sim o es ‹_›
  · exact step27_sim o es ‹_›
  · exact step28_sim o es ‹_›
  · exact step29_sim o es ‹_›

theorem step_inv (o : Oracles) (n : Nat) (h1 : 1 ≤ n) (h29 : n ≤ 29) (es) (h : inv o (.obj es) = true) :
    InvOK o (step o n (.obj es)) := by
  have : n = 1 ∨ n = 2 ∨ n = 3 ∨ n = 4 ∨ n = 5 ∨ n = 6 ∨ n = 7 ∨ n = 8 ∨ n = 9 ∨ n = 10 ∨ n = 11 ∨
      n = 12 ∨ n = 13 ∨ n = 14 ∨ n = 15 ∨ n = 16 ∨ n = 17 ∨ n = 18 ∨ n = 19 ∨ n = 20 ∨ n = 21 ∨
      n = 22 ∨ n = 23 ∨ n = 24 ∨ n = 25 ∨ n = 26 ∨ n = 27 ∨ n = 28 ∨ n = 29 := by omega
  rcases this with h | h | h | h | h | h | h | h | h | h | h | h | h | h | h | h | h | h | h | h | h | h | h |
    h | h | h | h | h | h <;> subst h <;> simp only [step]
  · exact step1_inv o es ‹_›
  · exact step2_inv o es ‹_›
  · exact step3_inv o es ‹_›
  · exact step4_inv o es ‹_›
  · exact step5_inv o es ‹_›
  · exact step6_inv o es ‹_›
  · exact step7_inv o es ‹_›
  · exact step8_inv o es ‹_›
  · exact step9_inv o es ‹_›
  · exact step10_inv o es ‹_›
  · exact step11_inv o es ‹_›
  · exact step12_inv o es ‹_›
  · exact step13_inv o es ‹_›
  · exact step14_inv o es ‹_›
  · exact step15_inv o es ‹_›
  · exact step16_inv o es ‹_›
  · exact step17_inv o es ‹_›
  · exact step18_inv o es ‹_›
  · exact step19_inv o es ‹_›
  · exact step20_inv o es ‹_›
  · exact step21_inv o es ‹_›
  · exact step22_inv o es ‹_›
  · exact step23_inv o es ‹_›
  · exact step24_inv o es ‹_›
  · exact step25_inv o es ‹_›
  · exact step26_inv o es ‹_›
  · exact step27_inv o es ‹_›
  · exact step28_inv o es ‹_›
  · exact step29_inv o es ‹_›

/-- A step on two documents in memory that are read back equal. -/
theorem step_sim2 (o : Oracles) (n : Nat) (h1 : 1 ≤ n) (h29 : n ≤ 29) (as bs : List (Key × YVal))
    (ha : inv o (.obj as) = true) (hb : inv o (.obj bs) = true) (he : er o (.obj as) = er o (.obj bs)) :
    Sim o (step o n (.obj as)) (step o n (.obj bs)) := by
  have s1 := step_sim o n h1 h29 as ha
  have s2 := step_sim o n h1 h29 bs hb
  rw [he] at s1
  exact s1.trans s2.symm

/-! ### upgradeConfigSchema -/

/-- Two runs of `upgradeConfigSchema` agree: same fault at the same step, or results read back equal. -/
def USim (o : Oracles) (r r' : Except (Fault × Nat) YVal) : Prop :=
  match r, r' with
  | .ok a, .ok b => er o a = er o b ∧ inv o a = true ∧ inv o b = true
  | .error e, .error e' => e = e'
  | _, _ => False

theorem upgrade_sim (o : Oracles) (cnt : Nat) : ∀ (cur : Nat), cur + cnt ≤ 29 → ∀ (as bs : List (Key × YVal)),
    inv o (.obj as) = true → inv o (.obj bs) = true → er o (.obj as) = er o (.obj bs) →
    USim o (upgrade o cnt cur (.obj as)) (upgrade o cnt cur (.obj bs)) := by
  induction cnt with
  | zero => intro cur _ as bs ha hb he; exact ⟨he, ha, hb⟩
  | succ cnt ih =>
    intro cur hle as bs ha hb he
    have hs := step_sim2 o (cur + 1) (by omega) (by omega) as bs ha hb he
    have hia := step_inv o (cur + 1) (by omega) (by omega) as ha
    have hib := step_inv o (cur + 1) (by omega) (by omega) bs hb
    have hoa := step_ok o (cur + 1) (by omega) (by omega) as
    have hob := step_ok o (cur + 1) (by omega) (by omega) bs
    unfold upgrade
    cases hsa : step o (cur + 1) (.obj as) with
    | error f =>
      cases hsb : step o (cur + 1) (.obj bs) with
      | error f' => rw [hsa, hsb] at hs; simp only [Sim] at hs; simp [USim, hs]
      | ok b' => rw [hsa, hsb] at hs; exact hs.elim
    | ok a' =>
      cases hsb : step o (cur + 1) (.obj bs) with
      | error f' => rw [hsa, hsb] at hs; exact hs.elim
      | ok b' =>
        rw [hsa, hsb] at hs; rw [hsa] at hia hoa; rw [hsb] at hib hob
        obtain ⟨as', rfl⟩ := hoa.1.elim
        obtain ⟨bs', rfl⟩ := hob.1.elim
        exact ih (cur + 1) (by omega) as' bs' hia hib hs

theorem upgrade_inv (o : Oracles) (cnt : Nat) : ∀ (cur : Nat), cur + cnt ≤ 29 → ∀ (es : List (Key × YVal)),
    inv o (.obj es) = true → ∀ d, upgrade o cnt cur (.obj es) = .ok d → inv o d = true := by
  induction cnt with
  | zero => intro cur _ es h d hd; simp [upgrade] at hd; subst hd; exact h
  | succ cnt ih =>
    intro cur hle es h d hd
    have hi := step_inv o (cur + 1) (by omega) (by omega) es h
    have ho := step_ok o (cur + 1) (by omega) (by omega) es
    unfold upgrade at hd
    cases hs : step o (cur + 1) (.obj es) with
    | error f => simp [hs] at hd
    | ok d1 =>
      rw [hs] at hi ho
      obtain ⟨es1, rfl⟩ := ho.1.elim
      simp only [hs] at hd
      exact ih (cur + 1) (by omega) es1 hi d hd

/-! ### re-encoding is `er` on documents that satisfy the invariant -/

mutual
theorem reparse_clean (o : Oracles) : ∀ v, clean o v = true → reparse o v = some v
  | .null, _ => by simp [reparse]
  | .bool _, _ => by simp [reparse]
  | .int _, _ => by simp [reparse]
  | .str _, _ => by simp [reparse]
  | .opaque k p, h => by
    simp only [clean] at h
    simp only [reparse]
    cases hr : o.rt k p with
    | none => simp [hr] at h
    | some w =>
      cases w <;> simp [hr] at h
      obtain ⟨rfl, rfl⟩ := h; rfl
  | .arr xs, h => by simp only [clean] at h; simp [reparse, reparseList_clean o xs h]
  | .obj es, h => by simp only [clean] at h; simp [reparse, reparseEntries_clean o es h]
  | .dur _, h => by simp [clean] at h
  | .strs _, h => by simp [clean] at h
  | .umode _, h => by simp [clean] at h
theorem reparseList_clean (o : Oracles) : ∀ xs, cleanList o xs = true → reparseList o xs = some xs
  | [], _ => by simp [reparseList]
  | x :: xs, h => by
    simp [cleanList] at h
    simp [reparseList, reparse_clean o x h.1, reparseList_clean o xs h.2]
theorem reparseEntries_clean (o : Oracles) : ∀ es, cleanEnts o es = true → reparseEntries o es = some es
  | [], _ => by simp [reparseEntries]
  | (k, v) :: es, h => by
    simp [cleanEnts] at h
    simp [reparseEntries, reparse_clean o v h.1, reparseEntries_clean o es h.2]
end

theorem reparse_excOK (o : Oracles) (hf : FmtTotal o) (v : YVal) (h : excOK o v = true) :
    reparse o v = some (er o v) := by
  simp only [excOK, Bool.or_eq_true] at h
  rcases h with h | h
  · rw [reparse_clean o v h, er_of_clean o v h]
  · cases v <;> simp [isTypedLeaf] at h
    · rename_i n
      have := hf n
      cases hn : o.fmtDays n with
      | none => simp [hn] at this
      | some s => simp [reparse, hn]
    · simp [reparse]
    · simp [reparse]

theorem reparseEntries_all (o : Oracles) : ∀ (es : List (Key × YVal)),
    (∀ e ∈ es, reparse o e.2 = some (er o e.2)) → reparseEntries o es = some (erEnts o es)
  | [], _ => by simp [reparseEntries]
  | (k, v) :: es, h => by
    have hv := h (k, v) (by simp)
    have hes := reparseEntries_all o es (fun e he => h e (by simp [he]))
    simp only at hv
    simp [reparseEntries, hv, hes]

theorem reparse_subOK (o : Oracles) (hf : FmtTotal o) (ex : List Key) (v : YVal) (h : subOK o ex v = true) :
    reparse o v = some (er o v) := by
  cases v with
  | obj ws =>
    simp only [subOK, List.all_eq_true] at h
    have := reparseEntries_all o ws (fun e he => by
      have := h e he
      split at this
      · exact reparse_excOK o hf _ this
      · rw [reparse_clean o _ this, er_of_clean o _ this])
    simp [reparse, this]
  | _ => simp only [subOK] at h; rw [reparse_clean o _ h, er_of_clean o _ h]

/-- Writing and re-reading the document in memory gives `er` of it. -/
theorem reparse_inv (o : Oracles) (hf : FmtTotal o) (d : YVal) (h : inv o d = true) :
    reparse o d = some (er o d) := by
  cases d <;> simp [inv] at h
  rename_i es
  have := reparseEntries_all o es (fun e he => reparse_subOK o hf _ _ (h e.1 e.2 he))
  simp [reparse, this]

/-! ### what is read back is clean -/

theorem clean_er_excOK (o : Oracles) (v : YVal) (h : excOK o v = true) : clean o (er o v) = true := by
  simp only [excOK, Bool.or_eq_true] at h
  rcases h with h | h
  · rw [er_of_clean o v h]; exact h
  · cases v <;> simp [isTypedLeaf] at h
    · simp [clean]
    · rename_i xs
      simp only [er_strs, clean]
      induction xs with
      | nil => rfl
      | cons x xs ih => simp [cleanList, clean, ih]
    · simp [clean]

theorem cleanEnts_all (o : Oracles) : ∀ (es : List (Key × YVal)),
    (∀ e ∈ es, clean o (er o e.2) = true) → cleanEnts o (erEnts o es) = true
  | [], _ => rfl
  | (k, v) :: es, h => by
    have hv := h (k, v) (by simp)
    simp only at hv
    simp [cleanEnts, hv, cleanEnts_all o es (fun e he => h e (by simp [he]))]

theorem clean_er_subOK (o : Oracles) (ex : List Key) (v : YVal) (h : subOK o ex v = true) :
    clean o (er o v) = true := by
  cases v with
  | obj ws =>
    simp only [subOK, List.all_eq_true] at h
    simp only [er_obj, clean]
    exact cleanEnts_all o ws (fun e he => by
      have := h e he
      split at this
      · exact clean_er_excOK o _ this
      · rw [er_of_clean o _ this]; exact this)
  | _ => simp only [subOK] at h; rw [er_of_clean o _ h]; exact h

theorem clean_er_inv (o : Oracles) (d : YVal) (h : inv o d = true) : clean o (er o d) = true := by
  cases d <;> simp [inv] at h
  rename_i es
  simp only [er_obj, clean]
  exact cleanEnts_all o es (fun e he => clean_er_subOK o _ _ (h e.1 e.2 he))

theorem inv_of_clean (o : Oracles) (es : List (Key × YVal)) (h : clean o (.obj es) = true) :
    inv o (.obj es) = true := by
  simp only [inv, List.all_eq_true]
  intro e he
  apply subOK_of_clean
  have : subOK o [] (.obj es) = true := by rw [subOK_nil]; exact h
  simp only [subOK, List.all_eq_true] at this
  simpa using this e he

theorem versionOf_er (o : Oracles) (es : List (Key × YVal)) (k : Nat)
    (h : lookup kSchemaVersion es = some (.int k)) : versionOf (er o (.obj es)) = some k := by
  simp [versionOf, lookupE_eq_lookup, stampKey, lookup_erEnts, h]


/-! ### equality of documents is reflexive -/

mutual
theorem YVal.beq_refl : ∀ v : YVal, YVal.beq v v = true
  | .null => by simp [YVal.beq]
  | .bool _ => by simp [YVal.beq]
  | .int _ => by simp [YVal.beq]
  | .str _ => by simp [YVal.beq]
  | .opaque _ _ => by simp [YVal.beq]
  | .arr xs => by simp [YVal.beq, YVal.beqList_refl xs]
  | .obj es => by simp [YVal.beq, YVal.beqEntries_refl es]
  | .dur _ => by simp [YVal.beq]
  | .strs _ => by simp [YVal.beq]
  | .umode _ => by simp [YVal.beq]
theorem YVal.beqList_refl : ∀ xs : List YVal, YVal.beqList xs xs = true
  | [] => by simp [YVal.beqList]
  | x :: xs => by simp [YVal.beqList, YVal.beq_refl x, YVal.beqList_refl xs]
theorem YVal.beqEntries_refl : ∀ es : List (Key × YVal), YVal.beqEntries es es = true
  | [] => by simp [YVal.beqEntries]
  | (k, v) :: es => by simp [YVal.beqEntries, YVal.beq_refl v, YVal.beqEntries_refl es]
end

theorem YVal.eq_self_beq (v : YVal) : (v == v) = true := YVal.beq_refl v

theorem zip_map_all {α β} (f : α → β) (P : α × β → Bool) : ∀ (l : List α),
    (l.zip (l.map f)).all P = l.all (fun a => P (a, f a))
  | [] => rfl
  | a :: l => by simp [zip_map_all f P l]

end AGH.C13
