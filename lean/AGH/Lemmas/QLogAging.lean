/-
Lemmas for C07: cursors whose entry has aged out, and cursors across
operations between two pages.  Core Lean only.
-/
import AGH.Lemmas.QLogPaging
namespace AGH.C07
open AGH AGH.Bytes

/-- The cursor is the time of an entry of the log, or older than everything that
is left (its entry has aged out by rotation or was cleared). -/
def Known (s : State) (t : Int) : Prop :=
  (∃ e ∈ logOf s, e.ts = t) ∨ (∀ e ∈ logOf s, t < e.ts)

theorem searchFiles_aged (s : State) (p : Params) (t : Int) (hot : p.olderThan = some t)
    (hall : ∀ e ∈ s.rot ++ s.cur, t < e.ts) : (searchFiles s p).2 = none := by
  have hcur : ∀ e ∈ s.cur, t < e.ts := fun e he => hall e (by simp [he])
  have hrot : ∀ e ∈ s.rot, t < e.ts := fun e he => hall e (by simp [he])
  have hsr : seekRot s.rot s.cur t = none := by simp [seekRot, fileSeek_all_gt hrot]
  unfold searchFiles
  rw [hot]
  simp only [seekRecord, seekFiles]
  by_cases hc : s.cur = []
  · by_cases hr : s.rot = []
    · simp only [hc, hr, ne_eq, not_true_eq_false, if_false, readEntries]
      split <;> rfl
    · simp only [hc, hr, ne_eq, not_true_eq_false, if_false, not_false_eq_true, if_true]
      rw [hc] at hsr
      rw [hsr]
  · simp only [ne_eq, hc, not_false_eq_true, if_true, fileSeek_all_gt hcur]
    by_cases hr : s.rot = []
    · simp [hr]
    · simp only [hr, not_false_eq_true, if_true, hsr]

/-- A cursor older than everything left: one empty page without cursor, and
indeed nothing visible is older. -/
theorem search_aged (s : State) (p : Params) (hi : Inv s) (hv : ValidP p) (t : Int)
    (hot : p.olderThan = some t) (hall : ∀ e ∈ logOf s, t < e.ts) :
    search s p = .ok ([], none) ∧ vis s p = [] := by
  have hvis : vis s p = [] := by
    unfold vis
    apply List.filter_eq_nil_iff.mpr
    intro e he hk
    have h1 := keepMem_older s.conf p e t hot hk
    have h2 := hall e (mem_log_of_logRev s e he)
    omega
  refine ⟨?_, hvis⟩
  obtain ⟨D, O, hs, hsub, _⟩ := search_sound s p hi hv
  rw [hvis] at hsub
  have hD : D = [] := List.eq_nil_of_sublist_nil hsub
  subst hD
  have hsf := searchFiles_aged s p t hot (fun e he => hall e (by simp only [logOf, List.mem_append] at he ⊢; exact Or.inl he))
  have heq := search_eq s p hv
  rw [hs] at heq
  simp only [Except.ok.injEq, Prod.mk.injEq] at heq
  obtain ⟨h1, h2⟩ := heq
  rw [hs]
  congr 2
  rw [h2, ← h1]
  simp only [List.getLast?_nil]
  split <;> first | rfl | exact hsf


/-- From a cursor that is known (a log entry's time, or aged out) the chain of
pages ends and is exactly the visible entries older than the cursor. -/
theorem pageChain_known (s : State) (p : Params) (hi : Inv s) (hv : ValidP p) (hoff : p.offset = 0)
    (hscan : 2 ≤ p.scan ∨ p.scan ≤ 0) (t : Int) (hk : Known s t) :
    (pageChain s p ((logOf s).length + 1) (some t)).2 = true ∧
    (pageChain s p ((logOf s).length + 1) (some t)).1.flatten =
      (vis s (withOlder p none)).filter (fun e => decide (e.ts < t)) := by
  rw [← vis_withOlder]
  rcases hk with hst | haged
  · apply pageChain_spec s p hi hv hoff hscan
    · simpa [CursorOK, withOlder, logOf] using hst
    · have := List.length_filter_le (fun e => decide (e.ts < t)) (s.rot ++ s.cur ++ s.mem)
      simp only [remaining, logOf]
      omega
  · obtain ⟨hs, hvis⟩ := search_aged s (withOlder p (some t)) hi (validP_withOlder p _ hv) t rfl haged
    simp [pageChain, hs, hvis]

/-- With file logging on and room in the ring, an operation keeps the log or
cuts off an older part of it, and appends the record it submits (if it is
taken): what is left of the old log is a suffix. -/
theorem suffix_step (s : State) (op : Op) (hq : Quiet s) (hf : s.conf.fileEnabled = true)
    (hcap : s.mem.length < ringCap s.conf) :
    ∃ pre suf, logOf s = pre ++ suf ∧
      (logOf (step s op) = suf ∨ ∃ e, opEntry op = some e ∧ logOf (step s op) = suf ++ [e]) := by
  have hadd : ∀ e, logOf (addEntry s e) = logOf s ++ [e] ∨ logOf (addEntry s e) = logOf s := by
    intro e
    have hp : push (ringCap s.conf) s.mem e = s.mem ++ [e] := by
      rw [push_eq_drop]
      have : (s.mem ++ [e]).length - ringCap s.conf = 0 := by simp; omega
      rw [this]; rfl
    unfold addEntry
    by_cases hen : s.conf.enabled = true
    · left
      simp only [hen, Bool.not_true, Bool.false_eq_true, if_false, hp]
      split
      · rw [logOf_flush]; simp [logOf]
      · simp [logOf]
    · right; simp [hen]
  -- clear / shutdown / restart keep the log or drop all of it
  have hthen : ∀ (s' : State) (t : Then), s'.conf.fileEnabled = true →
      logOf (applyThen s' t) = logOf s' ∨ logOf (applyThen s' t) = [] := by
    intro s' t hf'
    cases t with
    | clear => right; simp [applyThen, clear, logOf]
    | shutdown => left; simp [applyThen, shutdown, hf', logOf_flush]
    | restart m f en =>
      left
      simp only [applyThen, restart, shutdown, hf', if_true]
      have := logOf_flush s'
      unfold flush at this ⊢
      split <;> simp_all [logOf]
  have hfe : ∀ e, (addEntry s e).conf.fileEnabled = true := by
    intro e
    unfold addEntry
    split
    · exact hf
    · dsimp only; split
      · unfold flush; split <;> exact hf
      · exact hf
  have same : ∀ s' : State, logOf s' = logOf s →
      ∃ pre suf, logOf s = pre ++ suf ∧ (logOf s' = suf ∨ ∃ e, opEntry op = some e ∧ logOf s' = suf ++ [e]) :=
    fun s' h => ⟨[], logOf s, rfl, Or.inl h⟩
  have none' : ∀ s' : State, logOf s' = [] →
      ∃ pre suf, logOf s = pre ++ suf ∧ (logOf s' = suf ∨ ∃ e, opEntry op = some e ∧ logOf s' = suf ++ [e]) :=
    fun s' h => ⟨logOf s, [], by simp, Or.inl h⟩
  cases op with
  | add e =>
    simp only [step, runTasks_addRaw s e hq]
    rcases hadd e with h | h
    · exact ⟨[], logOf s, rfl, Or.inr ⟨e, rfl, h⟩⟩
    · exact ⟨[], logOf s, rfl, Or.inl h⟩
  | addThen e t =>
    simp only [step, addThen_confluent s e t hq]
    rcases hthen (addEntry s e) t (hfe e) with h1 | h1
    · rw [h1]
      rcases hadd e with h | h
      · exact ⟨[], logOf s, rfl, Or.inr ⟨e, rfl, h⟩⟩
      · exact ⟨[], logOf s, rfl, Or.inl h⟩
    · exact ⟨logOf s, [], by simp, Or.inl h1⟩
  | shutdown => exact same _ (by simp [step, shutdown, hf, logOf_flush])
  | rotate =>
    simp only [step, rotate]
    split
    · exact same _ rfl
    · exact ⟨s.rot, s.cur ++ s.mem, by simp [logOf], Or.inl (by simp [logOf])⟩
  | rotCheck now =>
    simp only [step, rotCheck]
    split
    · exact same _ rfl
    · split
      · exact same _ rfl
      · simp only [rotate]
        split
        · exact same _ rfl
        · exact ⟨s.rot, s.cur ++ s.mem, by simp [logOf], Or.inl (by simp [logOf])⟩
  | clear => exact none' _ (by simp [step, clear, logOf])
  | restart m f en =>
    rcases hthen s (.restart m f en) hf with h | h
    · exact same _ h
    · exact none' _ h
  | putConf en an ivl ign =>
    simp only [step, putConf]
    split <;> exact same _ rfl
  | setClients tbl => exact same _ rfl

/-- A known cursor stays known: whatever operation happens between two pages
(record, flush, rotation ageing out the oldest file, clear, restart, config
change), with file logging on and a forward-moving clock. -/
theorem known_step (s : State) (last : Int) (op : Op) (t : Int) (hi : InvT s last) (hq : Quiet s)
    (hf : s.conf.fileEnabled = true) (hcap : s.mem.length < ringCap s.conf) (ht : t ≤ last)
    (hclock : ∀ e, opEntry op = some e → last < e.ts) (hk : Known s t) : Known (step s op) t := by
  obtain ⟨pre, suf, hsplit, hlog⟩ := suffix_step s op hq hf hcap
  have hasc : Asc (pre ++ suf) := hsplit ▸ hi.1
  have hpa := List.pairwise_append.mp hasc
  -- what holds of the old suffix
  have hsuf : (∃ e ∈ suf, e.ts = t) ∨ (∀ e ∈ suf, t < e.ts) := by
    rcases hk with ⟨x, hx, hxt⟩ | hall
    · rw [hsplit, List.mem_append] at hx
      rcases hx with hx | hx
      · right
        intro e he
        have := hpa.2.2 x hx e he
        omega
      · exact Or.inl ⟨x, hx, hxt⟩
    · right
      intro e he
      exact hall e (by rw [hsplit]; exact List.mem_append_right _ he)
  rcases hlog with h | ⟨e, he, h⟩
  · rw [Known, h]; exact hsuf
  · have hlt := hclock e he
    rw [Known, h]
    rcases hsuf with ⟨x, hx, hxt⟩ | hall
    · exact Or.inl ⟨x, List.mem_append_left _ hx, hxt⟩
    · right
      intro y hy
      rw [List.mem_append, List.mem_singleton] at hy
      rcases hy with hy | hy
      · exact hall y hy
      · subst hy; omega


end AGH.C07
