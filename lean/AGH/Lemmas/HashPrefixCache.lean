/-
C19 lemmas about the cache: the invariant "every unexpired item holds exactly
the database hashes of its prefix" is kept by `Get`, `Set` (whatever it
evicts or rejects), `findInCache` and `storeInCache`, and makes the cached
verdict equal to the fresh one.
-/
import AGH.Spec.HashPrefix
namespace AGH.C19
open AGH AGH.Bytes

/-- The item holds exactly the database hashes carrying its prefix. -/
def Complete (db : List Hash) (it : Item) : Prop :=
  ∀ x, x ∈ it.hs ↔ (x ∈ db ∧ prefix2 x = it.key)

/-- Cache invariant: every item that has not expired is complete. -/
def Inv (db : List Hash) (now : Nat) (c : Cache) : Prop :=
  ∀ it ∈ c.lru, expired now it = false → Complete db it

/-- The service answered completely and only for the prefixes asked. -/
def Honest (db : List Hash) (toReq recv : List Hash) : Prop :=
  ∀ x, x ∈ recv ↔ (x ∈ db ∧ prefix2 x ∈ toReq.map prefix2)

/-! ### the LRU cache -/

theorem lookup_some {k : Prefix} {l : List Item} {it : Item} (h : lookup k l = some it) :
    it ∈ l ∧ it.key = k := by
  unfold lookup at h
  have h1 := List.mem_of_find?_eq_some h
  have h2 := List.find?_some h
  simp at h2
  exact ⟨h1, h2⟩

theorem get_mem {c : Cache} {k : Prefix} {x : Item} (h : x ∈ (c.get k).2.lru) : x ∈ c.lru := by
  unfold Cache.get at h
  split at h
  · exact h
  · next it hl =>
    simp only [List.mem_append, List.mem_filter, List.mem_singleton] at h
    rcases h with h | h
    · exact h.1
    · rw [h]; exact (lookup_some hl).1

theorem get_some {c : Cache} {k : Prefix} {it : Item} (h : (c.get k).1 = some it) :
    it ∈ c.lru ∧ it.key = k := by
  unfold Cache.get at h
  split at h
  · simp at h
  · next it' hl =>
    simp at h
    rw [← h]; exact lookup_some hl

theorem get_max (c : Cache) (k : Prefix) : (c.get k).2.max = c.max := by
  unfold Cache.get; split <;> rfl

theorem evict_mem {add max : Nat} : ∀ {l : List Item} {x : Item}, x ∈ evict add max l → x ∈ l
  | [], _, h => by simp [evict] at h
  | y :: rest, x, h => by
    unfold evict at h
    split at h
    · exact List.mem_cons_of_mem _ (evict_mem h)
    · exact h

theorem set_mem {c : Cache} {it x : Item} (h : x ∈ (c.set it).lru) : x ∈ c.lru ∨ x = it := by
  unfold Cache.set at h
  split at h
  · exact Or.inl h
  · simp only [List.mem_append, List.mem_filter, List.mem_singleton] at h
    rcases h with h | h
    · exact Or.inl (evict_mem h.1)
    · exact Or.inr h

theorem inv_get {db : List Hash} {now : Nat} {c : Cache} (k : Prefix) (h : Inv db now c) :
    Inv db now (c.get k).2 :=
  fun it hit => h it (get_mem hit)

theorem inv_set {db : List Hash} {now : Nat} {c : Cache} {it : Item} (h : Inv db now c)
    (hc : Complete db it) : Inv db now (c.set it) := by
  intro x hx _
  rcases set_mem hx with hx | hx
  · exact h x hx ‹_›
  · rw [hx]; exact hc

/-! ### findInCache -/

theorem mem_writeAt {pre : List Hash} {hash : Hash} {i : Nat} {y : Hash}
    (h : y ∈ writeAt pre hash i) : y ∈ pre ∨ y = hash := by
  unfold writeAt at h
  rcases List.mem_or_eq_of_mem_set h with h | h
  · simp at h; exact h
  · exact Or.inr h

theorem writeAt_length (pre : List Hash) (hash : Hash) (i : Nat) :
    (writeAt pre hash i).length = pre.length + 1 := by
  simp [writeAt]

theorem writeAt_take : ∀ (pre : List Hash) (hash : Hash) (i : Nat), i ≤ pre.length →
    (writeAt pre hash i).take (i + 1) = pre.take i ++ [hash]
  | [], hash, i, h => by
    have : i = 0 := by simpa using h
    subst this; simp [writeAt]
  | a :: pre, hash, 0, _ => by simp [writeAt]
  | a :: pre, hash, j + 1, h => by
    have ih := writeAt_take pre hash j (by simpa using h)
    simp only [writeAt] at ih ⊢
    simp [List.set_cons_succ, List.take_succ_cons, ih]

theorem findMatch_iff (a b : List Hash) : findMatch a b = true ↔ ∃ y, y ∈ a ∧ y ∈ b := by
  simp [findMatch, List.any_eq_true]

/-- Shape of what `findInCache` asks for, for ANY cache content: a sub-list of
the hashes still to visit, appended to the compacted part. -/
theorem findLoop_ask (now : Nat) : ∀ (rest pre : List Hash) (i : Nat) (c : Cache) (l : List Hash),
    i ≤ pre.length → (findLoop now pre rest i c).1 = .ask l →
    ∃ l', l = pre.take i ++ l' ∧ l'.Sublist rest := by
  intro rest
  induction rest with
  | nil =>
    intro pre i c l _ h
    unfold findLoop at h
    split at h
    · cases h
    · cases h; exact ⟨[], by simp, List.Sublist.refl _⟩
  | cons hash rest ih =>
    intro pre i c l hi h
    unfold findLoop at h
    have miss : ∀ c1, (findLoop now (writeAt pre hash i) rest (i + 1) c1).1 = .ask l →
        ∃ l', l = pre.take i ++ l' ∧ l'.Sublist (hash :: rest) := by
      intro c1 h
      obtain ⟨l', h1, h2⟩ := ih _ _ c1 l (by rw [writeAt_length]; omega) h
      rw [writeAt_take pre hash i hi] at h1
      exact ⟨hash :: l', by rw [h1]; simp, h2.cons_cons _⟩
    split at h
    · exact miss _ h
    · split at h
      · exact miss _ h
      · split at h
        · cases h
        · obtain ⟨l', h1, h2⟩ := ih _ _ _ l (by simp; omega) h
          rw [List.take_append_of_le_length hi] at h1
          exact ⟨l', h1, h2.cons _⟩

/-- What `findInCache` guarantees about its answer (under the invariant). -/
def FindPost (db : List Hash) (pre rest : List Hash) (i : Nat) : Found → Prop
  | .cached true => ∃ y, y ∈ pre ++ rest ∧ y ∈ db
  | .cached false => i = 0 ∧ ∀ y ∈ rest, y ∉ db
  | .ask l => ∃ l', l = pre.take i ++ l' ∧ (∀ y ∈ l', y ∈ rest) ∧ (∀ y ∈ rest, y ∈ l' ∨ y ∉ db)

theorem findPost_miss {db : List Hash} {pre rest : List Hash} {hash : Hash} {i : Nat} {r : Found}
    (hi : i ≤ pre.length) (h : FindPost db (writeAt pre hash i) rest (i + 1) r) :
    FindPost db pre (hash :: rest) i r := by
  cases r with
  | cached b =>
    cases b with
    | true =>
      obtain ⟨y, hy, hdb⟩ := h
      refine ⟨y, ?_, hdb⟩
      rcases List.mem_append.mp hy with hy | hy
      · rcases mem_writeAt hy with hy | hy
        · simp [hy]
        · simp [hy]
      · simp [hy]
    | false =>
      obtain ⟨h0, _⟩ := h
      omega
  | ask l =>
    obtain ⟨l', e, hsub, hcov⟩ := h
    rw [writeAt_take pre hash i hi] at e
    refine ⟨hash :: l', by rw [e]; simp, ?_, ?_⟩
    · intro y hy
      rcases List.mem_cons.mp hy with hy | hy
      · simp [hy]
      · exact List.mem_cons_of_mem _ (hsub y hy)
    · intro y hy
      rcases List.mem_cons.mp hy with hy | hy
      · left; simp [hy]
      · rcases hcov y hy with h | h
        · left; exact List.mem_cons_of_mem _ h
        · right; exact h

theorem findPost_skip {db : List Hash} {pre rest : List Hash} {hash : Hash} {i : Nat} {r : Found}
    (hi : i ≤ pre.length) (hnot : hash ∉ db) (h : FindPost db (pre ++ [hash]) rest i r) :
    FindPost db pre (hash :: rest) i r := by
  cases r with
  | cached b =>
    cases b with
    | true =>
      obtain ⟨y, hy, hdb⟩ := h
      exact ⟨y, by simpa using hy, hdb⟩
    | false =>
      obtain ⟨h0, hall⟩ := h
      refine ⟨h0, ?_⟩
      intro y hy
      rcases List.mem_cons.mp hy with hy | hy
      · rw [hy]; exact hnot
      · exact hall y hy
  | ask l =>
    obtain ⟨l', e, hsub, hcov⟩ := h
    rw [List.take_append_of_le_length hi] at e
    refine ⟨l', e, fun y hy => List.mem_cons_of_mem _ (hsub y hy), ?_⟩
    intro y hy
    rcases List.mem_cons.mp hy with hy | hy
    · right; rw [hy]; exact hnot
    · exact hcov y hy

theorem findLoop_nil (now : Nat) (pre : List Hash) (i : Nat) (c : Cache) :
    findLoop now pre [] i c = (if i = 0 then .cached false else .ask (pre.take i), c) := by
  rw [findLoop]

theorem findLoop_cons_none {now : Nat} {pre : List Hash} {hash : Hash} {rest : List Hash} {i : Nat}
    {c c1 : Cache} (h : c.get (prefix2 hash) = (none, c1)) :
    findLoop now pre (hash :: rest) i c = findLoop now (writeAt pre hash i) rest (i + 1) c1 := by
  rw [findLoop, h]

theorem findLoop_cons_some {now : Nat} {pre : List Hash} {hash : Hash} {rest : List Hash} {i : Nat}
    {c c1 : Cache} {it : Item} (h : c.get (prefix2 hash) = (some it, c1)) :
    findLoop now pre (hash :: rest) i c =
      if expired now it then findLoop now (writeAt pre hash i) rest (i + 1) c1
      else if findMatch (pre ++ hash :: rest) it.hs then (.cached true, c1)
      else findLoop now (pre ++ [hash]) rest i c1 := by
  rw [findLoop, h]

/-- Under the invariant, `findInCache` is sound: a cached positive has a
witness in the database, everything it does not ask about is not in the
database, and the cache keeps the invariant. -/
theorem findLoop_sound (db : List Hash) (now : Nat) : ∀ (rest pre : List Hash) (i : Nat) (c : Cache),
    Inv db now c → i ≤ pre.length →
    Inv db now (findLoop now pre rest i c).2 ∧
    (findLoop now pre rest i c).2.max = c.max ∧
    FindPost db pre rest i (findLoop now pre rest i c).1 := by
  intro rest
  induction rest with
  | nil =>
    intro pre i c hinv _
    rw [findLoop_nil]
    refine ⟨hinv, rfl, ?_⟩
    by_cases h0 : i = 0
    · simp [h0, FindPost]
    · simp only [h0, if_false]
      exact ⟨[], by simp, by simp, by simp⟩
  | cons hash rest ih =>
    intro pre i c hinv hi
    have hget := @get_some c (prefix2 hash)
    have hinv1 : Inv db now (c.get (prefix2 hash)).2 := inv_get _ hinv
    have hmax1 := get_max c (prefix2 hash)
    generalize hg : c.get (prefix2 hash) = g at hget hinv1 hmax1
    obtain ⟨o, c1⟩ := g
    have miss : Inv db now (findLoop now (writeAt pre hash i) rest (i + 1) c1).2 ∧
        (findLoop now (writeAt pre hash i) rest (i + 1) c1).2.max = c.max ∧
        FindPost db pre (hash :: rest) i (findLoop now (writeAt pre hash i) rest (i + 1) c1).1 := by
      obtain ⟨h1, h2, h3⟩ := ih (writeAt pre hash i) (i + 1) c1 hinv1 (by rw [writeAt_length]; omega)
      exact ⟨h1, by rw [h2]; exact hmax1, findPost_miss hi h3⟩
    cases o with
    | none => rw [findLoop_cons_none hg]; exact miss
    | some it =>
      have hit := hget rfl
      rw [findLoop_cons_some hg]
      by_cases hexp : expired now it = true
      · rw [if_pos hexp]; exact miss
      · rw [if_neg hexp]
        have hcomp : Complete db it := hinv it hit.1 (by simpa using hexp)
        by_cases hm : findMatch (pre ++ hash :: rest) it.hs = true
        · rw [if_pos hm]
          refine ⟨hinv1, hmax1, ?_⟩
          obtain ⟨y, hy1, hy2⟩ := (findMatch_iff _ _).mp hm
          exact ⟨y, hy1, ((hcomp y).mp hy2).1⟩
        · rw [if_neg hm]
          have hnot : hash ∉ db := by
            intro hdb
            apply hm
            rw [findMatch_iff]
            exact ⟨hash, by simp, (hcomp hash).mpr ⟨hdb, hit.2.symm⟩⟩
          obtain ⟨h1, h2, h3⟩ := ih (pre ++ [hash]) i c1 hinv1 (by simp; omega)
          exact ⟨h1, by rw [h2]; exact hmax1, findPost_skip hi hnot h3⟩


/-! ### storeInCache -/

theorem inv_setCache {db : List Hash} {now ttl : Nat} {c : Cache} {p : Prefix} {hs : List Hash}
    (h : Inv db now c) (hc : ∀ x, x ∈ hs ↔ (x ∈ db ∧ prefix2 x = p)) :
    Inv db now (setCache now ttl c p hs) :=
  inv_set h hc

theorem mem_groupOf (recv : List Hash) (p : Prefix) (x : Hash) :
    x ∈ groupOf recv p ↔ (x ∈ recv ∧ prefix2 x = p) := by
  simp [groupOf, List.mem_filter]

theorem validGroups_group {recv : List Hash} {gs : List (Prefix × List Hash)} (h : validGroups recv gs = true)
    {g : Prefix × List Hash} (hg : g ∈ gs) : g.2 = groupOf recv g.1 ∧ g.2 ≠ [] := by
  simp only [validGroups, Bool.and_eq_true, List.all_eq_true] at h
  have := h.1.1 g hg
  simp only [beq_iff_eq, Bool.not_eq_true', List.isEmpty_eq_false_iff] at this
  exact this

theorem validGroups_cover {recv : List Hash} {gs : List (Prefix × List Hash)} (h : validGroups recv gs = true)
    {x : Hash} (hx : x ∈ recv) : prefix2 x ∈ gs.map (·.1) := by
  simp only [validGroups, Bool.and_eq_true, List.all_eq_true] at h
  have := h.1.2 x hx
  simp only [List.any_eq_true, beq_iff_eq] at this
  obtain ⟨g, hg, e⟩ := this
  exact List.mem_map.mpr ⟨g, hg, e⟩

/-- A group of an honest answer is complete for its prefix. -/
theorem group_complete {db toReq recv : List Hash} (hh : Honest db toReq recv) {p : Prefix}
    (hne : groupOf recv p ≠ []) (x : Hash) :
    x ∈ groupOf recv p ↔ (x ∈ db ∧ prefix2 x = p) := by
  rw [mem_groupOf, hh x]
  constructor
  · rintro ⟨⟨h1, _⟩, h3⟩; exact ⟨h1, h3⟩
  · rintro ⟨h1, h2⟩
    refine ⟨⟨h1, ?_⟩, h2⟩
    obtain ⟨y, hy⟩ := List.exists_mem_of_ne_nil _ hne
    rw [mem_groupOf, hh y] at hy
    rw [h2, ← hy.2]; exact hy.1.2

theorem inv_foldl_groups {db toReq recv : List Hash} {now ttl : Nat} (hh : Honest db toReq recv) :
    ∀ (gs : List (Prefix × List Hash)) (c : Cache),
      (∀ g ∈ gs, g.2 = groupOf recv g.1 ∧ g.2 ≠ []) → Inv db now c →
      Inv db now (gs.foldl (fun c g => setCache now ttl c g.1 g.2) c)
  | [], c, _, h => h
  | g :: gs, c, hg, h => by
    simp only [List.foldl_cons]
    apply inv_foldl_groups hh gs _ (fun g' hg' => hg g' (List.mem_cons_of_mem _ hg'))
    have := hg g (by simp)
    apply inv_setCache h
    intro x
    rw [this.1]
    exact group_complete hh (by rw [← this.1]; exact this.2) x

theorem inv_storeNeg {db toReq recv : List Hash} {now ttl : Nat} {keys : List Prefix}
    (hh : Honest db toReq recv) (hk : ∀ x ∈ recv, prefix2 x ∈ keys) :
    ∀ (l : List Hash) (c : Cache), (∀ h ∈ l, prefix2 h ∈ toReq.map prefix2) → Inv db now c →
      Inv db now (storeNeg now ttl keys l c)
  | [], c, _, h => h
  | h :: rest, c, hl, hinv => by
    have hrest : ∀ h' ∈ rest, prefix2 h' ∈ toReq.map prefix2 := fun h' hh' => hl h' (List.mem_cons_of_mem _ hh')
    have hinv1 : Inv db now (c.get (prefix2 h)).2 := inv_get _ hinv
    rw [storeNeg]
    generalize c.get (prefix2 h) = g at hinv1
    obtain ⟨o, c1⟩ := g
    cases o with
    | some it => exact inv_storeNeg hh hk rest c1 hrest hinv1
    | none =>
      simp only
      split
      · exact inv_storeNeg hh hk rest c1 hrest hinv1
      · next hc =>
        apply inv_storeNeg hh hk rest _ hrest
        apply inv_setCache hinv1
        intro x
        constructor
        · intro hx; simp at hx
        · rintro ⟨hx, hp⟩
          exfalso
          apply hc
          have : x ∈ recv := (hh x).mpr ⟨hx, by rw [hp]; exact hl h (by simp)⟩
          have := hk x this
          rw [hp] at this
          simpa using this

theorem inv_storeInCache {db toReq recv : List Hash} {now ttl : Nat} {gs : List (Prefix × List Hash)} {c : Cache}
    (hh : Honest db toReq recv) (hv : validGroups recv gs = true) (hinv : Inv db now c) :
    Inv db now (storeInCache now ttl toReq gs c) := by
  unfold storeInCache
  apply inv_storeNeg hh (fun x hx => validGroups_cover hv hx) toReq _
    (fun h hh' => List.mem_map.mpr ⟨h, hh', rfl⟩)
  exact inv_foldl_groups hh gs c (fun g hg => validGroups_group hv hg) hinv

/-! ### every iteration order of the Go map -/

theorem mem_groupKeys (p : Prefix) : ∀ l : List Hash, p ∈ groupKeys l ↔ ∃ h, h ∈ l ∧ prefix2 h = p
  | [] => by simp [groupKeys]
  | h :: rest => by
    simp only [groupKeys, List.mem_cons, List.mem_filter, mem_groupKeys p rest, Bool.not_eq_true',
      beq_eq_false_iff_ne, ne_eq]
    constructor
    · rintro (e | ⟨⟨x, hx, e⟩, _⟩)
      · exact ⟨h, Or.inl rfl, e.symm⟩
      · exact ⟨x, Or.inr hx, e⟩
    · rintro ⟨x, hx | hx, e⟩
      · subst hx; exact Or.inl e.symm
      · by_cases hp : p = prefix2 h
        · exact Or.inl hp
        · exact Or.inr ⟨⟨x, hx, e⟩, hp⟩

theorem nodup_groupKeys : ∀ l : List Hash, (groupKeys l).Nodup
  | [] => by simp [groupKeys]
  | h :: rest => by
    rw [groupKeys, List.nodup_cons]
    refine ⟨?_, (nodup_groupKeys rest).sublist List.filter_sublist⟩
    intro hm
    simp [List.mem_filter] at hm

theorem nodup_of_map_fst : ∀ l : List (Prefix × List Hash), (l.map (·.1)).Nodup → l.Nodup
  | [], _ => List.nodup_nil
  | a :: l, h => by
    rw [List.map_cons, List.nodup_cons] at h
    rw [List.nodup_cons]
    exact ⟨fun ha => h.1 (List.mem_map_of_mem ha), nodup_of_map_fst l h.2⟩

theorem map_fst_canonGroups (recv : List Hash) : (canonGroups recv).map (·.1) = groupKeys recv := by
  simp [canonGroups, List.map_map, Function.comp_def]

/-- `validGroups` spelled out. -/
theorem validGroups_iff (recv : List Hash) (gs : List (Prefix × List Hash)) :
    validGroups recv gs = true ↔
      (∀ g ∈ gs, g.2 = groupOf recv g.1 ∧ g.2 ≠ []) ∧
      (∀ h ∈ recv, prefix2 h ∈ gs.map (·.1)) ∧ (gs.map (·.1)).Nodup := by
  simp only [validGroups, Bool.and_eq_true, List.all_eq_true, beq_iff_eq, Bool.not_eq_true',
    List.isEmpty_eq_false_iff, decide_eq_true_eq, List.any_eq_true, List.mem_map]
  constructor
  · rintro ⟨⟨h1, h2⟩, h3⟩
    exact ⟨h1, fun h hh => by obtain ⟨g, hg, e⟩ := h2 h hh; exact ⟨g, hg, e⟩, h3⟩
  · rintro ⟨h1, h2, h3⟩
    exact ⟨⟨h1, fun h hh => by obtain ⟨g, hg, e⟩ := h2 h hh; exact ⟨g, hg, e⟩⟩, h3⟩

/-- The first-appearance order (the one the driver tries first) is a valid
iteration order of the map built from any list of received hashes. -/
theorem canonGroups_valid (recv : List Hash) : validGroups recv (canonGroups recv) = true := by
  rw [validGroups_iff, map_fst_canonGroups]
  refine ⟨?_, ?_, nodup_groupKeys recv⟩
  · intro g hg
    simp only [canonGroups, List.mem_map] at hg
    obtain ⟨p, hp, rfl⟩ := hg
    refine ⟨rfl, ?_⟩
    obtain ⟨h, hh, e⟩ := (mem_groupKeys p recv).mp hp
    exact List.ne_nil_of_mem ((mem_groupOf recv p h).mpr ⟨hh, e⟩)
  · intro h hh
    exact (mem_groupKeys _ recv).mpr ⟨h, hh, rfl⟩

/-- Every permutation of a valid order is valid: the theorems quantify over
every order in which Go may range over the map. -/
theorem validGroups_perm {recv : List Hash} {gs gs' : List (Prefix × List Hash)}
    (hp : gs'.Perm gs) (h : validGroups recv gs = true) : validGroups recv gs' = true := by
  rw [validGroups_iff] at h ⊢
  obtain ⟨h1, h2, h3⟩ := h
  have hm : (gs'.map (·.1)).Perm (gs.map (·.1)) := hp.map _
  exact ⟨fun g hg => h1 g (hp.mem_iff.mp hg), fun x hx => hm.mem_iff.mpr (h2 x hx), hm.nodup_iff.mpr h3⟩

/-- …and nothing else is: a valid order is a permutation of the canonical one. -/
theorem validGroups_perm_canon {recv : List Hash} {gs : List (Prefix × List Hash)}
    (h : validGroups recv gs = true) : gs.Perm (canonGroups recv) := by
  have hc := canonGroups_valid recv
  rw [validGroups_iff] at h hc
  obtain ⟨h1, h2, h3⟩ := h
  obtain ⟨c1, c2, c3⟩ := hc
  rw [List.perm_ext_iff_of_nodup (nodup_of_map_fst _ h3) (nodup_of_map_fst _ c3)]
  intro g
  constructor
  · intro hg
    obtain ⟨e, hne⟩ := h1 g hg
    obtain ⟨x, hx⟩ := List.exists_mem_of_ne_nil _ hne
    rw [e, mem_groupOf] at hx
    simp only [canonGroups, List.mem_map]
    exact ⟨g.1, (mem_groupKeys _ recv).mpr ⟨x, hx.1, hx.2⟩, by rw [← e]⟩
  · intro hg
    simp only [canonGroups, List.mem_map] at hg
    obtain ⟨p, hp, rfl⟩ := hg
    obtain ⟨x, hx, e⟩ := (mem_groupKeys p recv).mp hp
    have := h2 x hx
    rw [e] at this
    obtain ⟨g', hg', e'⟩ := List.mem_map.mp this
    have e2 := (h1 g' hg').1
    have hg'' : g' = (p, groupOf recv p) := by
      cases g' with
      | mk a b => simp only at e' e2; subst e'; rw [e2]
    rw [← hg'']; exact hg'

/-! ### Check -/

theorem findInCache_sound (db : List Hash) (now : Nat) (hashes : List Hash) (c : Cache) (hinv : Inv db now c) :
    Inv db now (findInCache now hashes c).2 ∧
    (match (findInCache now hashes c).1 with
     | .cached b => b = hashes.any (fun h => db.contains h)
     | .ask l => (∀ y ∈ l, y ∈ hashes) ∧ (∀ y ∈ hashes, y ∈ l ∨ y ∉ db)) := by
  obtain ⟨h1, _, h3⟩ := findLoop_sound db now hashes [] 0 c hinv (by simp)
  refine ⟨h1, ?_⟩
  unfold findInCache
  revert h3
  cases (findLoop now [] hashes 0 c).1 with
  | cached b =>
    cases b with
    | true =>
      rintro ⟨y, hy, hdb⟩
      simp only [List.nil_append] at hy
      show true = _
      symm
      simp only [List.any_eq_true, List.contains_iff_mem]
      exact ⟨y, hy, hdb⟩
    | false =>
      rintro ⟨_, hall⟩
      show false = _
      symm
      rw [List.any_eq_false]
      intro y hy
      simpa using hall y hy
  | ask l =>
    rintro ⟨l', e, hsub, hcov⟩
    simp only [List.take_nil, List.nil_append] at e
    subst e
    exact ⟨hsub, hcov⟩

/-- One `Check` under the invariant: the invariant is kept and a verdict, when
one is given, is the fresh verdict `∃ x ∈ hashes, x ∈ db`.  The environment
assumption `henv` is only about the question actually asked. -/
theorem check_sound (db : List Hash) (cf : Conf) (now : Nat) (hashes : List Hash)
    (exch : Bytes → Option (List RR)) (ord : List Hash → List (Prefix × List Hash)) (c : Cache)
    (hinv : Inv db now c)
    (henv : ∀ toReq answer, (findInCache now hashes c).1 = .ask toReq →
      exch (getQuestion cf.suffix toReq) = some answer →
      Honest db toReq (receivedHashes answer) ∧
      validGroups (receivedHashes answer) (ord (receivedHashes answer)) = true) :
    Inv db now (check cf now hashes exch ord c).2 ∧
    (∀ b, (check cf now hashes exch ord c).1.verdict = .blocked b →
      b = hashes.any (fun h => db.contains h)) ∧
    ((check cf now hashes exch ord c).1.verdict = .upstreamErr →
      ∃ q, (check cf now hashes exch ord c).1.question = some q ∧ exch q = none) := by
  obtain ⟨h1, h2⟩ := findInCache_sound db now hashes c hinv
  unfold check
  generalize findInCache now hashes c = r at h1 h2 henv
  obtain ⟨f, c1⟩ := r
  cases f with
  | cached b =>
    simp only at h2 ⊢
    refine ⟨h1, ?_, ?_⟩
    · intro b' hb; cases hb; exact h2
    · intro h; cases h
  | ask toReq =>
    simp only at h2 ⊢
    cases he : exch (getQuestion cf.suffix toReq) with
    | none =>
      simp only
      refine ⟨h1, ?_, ?_⟩
      · intro b hb; cases hb
      · intro _; exact ⟨_, rfl, he⟩
    | some answer =>
      simp only
      obtain ⟨hh, hv⟩ := henv toReq answer rfl he
      refine ⟨inv_storeInCache hh hv h1, ?_, ?_⟩
      · intro b hb
        cases hb
        rw [Bool.eq_iff_iff, findMatch_iff]
        simp only [List.any_eq_true, List.contains_iff_mem]
        constructor
        · rintro ⟨y, hy1, hy2⟩
          exact ⟨y, h2.1 y hy1, ((hh y).mp hy2).1⟩
        · rintro ⟨y, hy1, hy2⟩
          rcases h2.2 y hy1 with h | h
          · exact ⟨y, h, (hh y).mpr ⟨hy2, List.mem_map.mpr ⟨y, h, rfl⟩⟩⟩
          · exact absurd hy2 h
      · intro h; cases h

/-- Whatever the cache holds, the question sent is `getQuestion` of a sub-list
of the hashes of the name. -/
theorem check_question (cf : Conf) (now : Nat) (hashes : List Hash)
    (exch : Bytes → Option (List RR)) (ord : List Hash → List (Prefix × List Hash)) (c : Cache) (q : Bytes)
    (h : (check cf now hashes exch ord c).1.question = some q) :
    ∃ toReq, toReq.Sublist hashes ∧ q = getQuestion cf.suffix toReq := by
  have hask := findLoop_ask now hashes [] 0 c
  unfold check at h
  unfold findInCache at h
  generalize findLoop now [] hashes 0 c = r at h hask
  obtain ⟨f, c1⟩ := r
  cases f with
  | cached b => simp at h
  | ask toReq =>
    obtain ⟨l', e, hsub⟩ := hask toReq (by simp) rfl
    simp only [List.take_nil, List.nil_append] at e
    subst e
    simp only at h
    cases he : exch (getQuestion cf.suffix toReq) with
    | none => rw [he] at h; simp at h; exact ⟨toReq, hsub, h.symm⟩
    | some a => rw [he] at h; simp at h; exact ⟨toReq, hsub, h.symm⟩

/-! ### fresh lookups (empty cache) -/

theorem set_length_same : ∀ (pre : List Hash) (hash : Hash), (pre ++ [hash]).set pre.length hash = pre ++ [hash]
  | [], _ => rfl
  | a :: pre, hash => by simp [set_length_same pre hash]

theorem findLoop_empty (now max : Nat) : ∀ (rest pre : List Hash),
    findLoop now pre rest pre.length ⟨[], max⟩ =
      (if pre ++ rest = [] then .cached false else .ask (pre ++ rest), ⟨[], max⟩)
  | [], pre => by
    rw [findLoop_nil]
    cases pre with
    | nil => simp
    | cons a pre => simp
  | hash :: rest, pre => by
    have hg : (⟨[], max⟩ : Cache).get (prefix2 hash) = (none, ⟨[], max⟩) := by
      simp [Cache.get, lookup]
    rw [findLoop_cons_none hg]
    have hw : writeAt pre hash pre.length = pre ++ [hash] := set_length_same pre hash
    rw [hw]
    have := findLoop_empty now max rest (pre ++ [hash])
    simp only [List.length_append, List.length_cons, List.length_nil, Nat.zero_add] at this
    rw [this]
    simp

/-- A fresh lookup asks about every hash of the name and blocks exactly when
the answer carries one of them. -/
theorem check_fresh (cf : Conf) (now max : Nat) (hashes : List Hash) (hne : hashes ≠ [])
    (exch : Bytes → Option (List RR)) (ord : List Hash → List (Prefix × List Hash)) :
    (check cf now hashes exch ord ⟨[], max⟩).1 =
      match exch (getQuestion cf.suffix hashes) with
      | none => ⟨.upstreamErr, some (getQuestion cf.suffix hashes)⟩
      | some answer => ⟨.blocked (findMatch hashes (receivedHashes answer)), some (getQuestion cf.suffix hashes)⟩ := by
  unfold check findInCache
  have := findLoop_empty now max hashes []
  simp only [List.length_nil, List.nil_append] at this
  rw [this]
  simp only [hne, if_false]
  cases exch (getQuestion cf.suffix hashes) <;> rfl

/-! ### expired items have no influence -/

/-- The outcome of `Check` as a function of what `findInCache` found. -/
def outcomeOf (cf : Conf) (exch : Bytes → Option (List RR)) : Found → Outcome
  | .cached b => ⟨.blocked b, none⟩
  | .ask toReq =>
    match exch (getQuestion cf.suffix toReq) with
    | none => ⟨.upstreamErr, some (getQuestion cf.suffix toReq)⟩
    | some answer => ⟨.blocked (findMatch toReq (receivedHashes answer)), some (getQuestion cf.suffix toReq)⟩

theorem check_outcome (cf : Conf) (now : Nat) (hashes : List Hash)
    (exch : Bytes → Option (List RR)) (ord : List Hash → List (Prefix × List Hash)) (c : Cache) :
    (check cf now hashes exch ord c).1 = outcomeOf cf exch (findInCache now hashes c).1 := by
  unfold check
  generalize findInCache now hashes c = r
  obtain ⟨f, c1⟩ := r
  cases f with
  | cached b => rfl
  | ask toReq =>
    simp only [outcomeOf]
    cases exch (getQuestion cf.suffix toReq) <;> rfl

theorem findLoop_allExpired (now : Nat) : ∀ (rest pre : List Hash) (c : Cache),
    (∀ it ∈ c.lru, expired now it = true) →
    (findLoop now pre rest pre.length c).1 = if pre ++ rest = [] then .cached false else .ask (pre ++ rest)
  | [], pre, c, _ => by
    rw [findLoop_nil]
    cases pre with
    | nil => simp
    | cons a pre => simp
  | hash :: rest, pre, c, hall => by
    have hw : writeAt pre hash pre.length = pre ++ [hash] := set_length_same pre hash
    have hall1 : ∀ it ∈ (c.get (prefix2 hash)).2.lru, expired now it = true :=
      fun it hit => hall it (get_mem hit)
    have hget := @get_some c (prefix2 hash)
    generalize hg : c.get (prefix2 hash) = g at hall1 hget
    obtain ⟨o, c1⟩ := g
    have ih := findLoop_allExpired now rest (pre ++ [hash]) c1 hall1
    simp only [List.length_append, List.length_cons, List.length_nil, Nat.zero_add] at ih
    cases o with
    | none =>
      rw [findLoop_cons_none hg, hw, ih]; simp
    | some it =>
      rw [findLoop_cons_some hg, if_pos (hall it (hget rfl).1), hw, ih]; simp

end AGH.C19
