/-
C18 helper lemmas for the float64 model (core Lean only): a rational that is a
float64 is rounded to itself; hence `int64(ParseFloat(lit) * 1e6)` is exact on
literals that are float64 values with an integer number of nanoseconds.
-/
import AGH.Spec.ScheduleFloat
import AGH.Lemmas.Schedule
namespace AGH.C18
open AGH

theorem pickShift_ok (P d s : Nat) (h : pickShift P d = some s) : shiftOK P d s = true := by
  unfold pickShift at h
  simp only at h
  split at h
  · next h1 => injection h with h; subst h; exact h1
  · split at h
    · next _ h2 => injection h with h; subst h; exact h2
    · cases h

theorem two_pos (k : Nat) : 0 < 2 ^ k := Nat.pow_pos (by decide)

/-- A rational that IS a float64 (`n·2^j` units, `n < 2^53`) is returned unchanged. -/
theorem roundU_exact (P d n j pw N : Nat) (hd : 0 < d) (hn : n < 2 ^ 53) (hpw : pw = 2 ^ j) (hP : P = n * pw * d)
    (h : roundU P d = .fin N) : N = n * pw := by
  subst hpw
  unfold roundU at h
  by_cases h0 : P = 0
  · simp only [h0, if_true] at h
    injection h with h
    have : n * 2 ^ j * d = 0 := by rw [← hP]; exact h0
    have h2 : n * 2 ^ j = 0 := by
      rcases Nat.mul_eq_zero.mp this with h | h
      · exact h
      · omega
    omega
  · simp only [h0, if_false] at h
    cases hs : pickShift P d with
    | none => rw [hs] at h; cases h
    | some s =>
      rw [hs] at h
      have hok := pickShift_ok P d s hs
      -- s ≤ j
      have hsj : s ≤ j := by
        apply Nat.le_of_not_lt
        intro hlt
        simp only [shiftOK, Bool.and_eq_true, Bool.or_eq_true, decide_eq_true_eq] at hok
        have hs0 : s ≠ 0 := by omega
        rcases hok.1 with h1 | h1
        · exact hs0 h1
        · -- 2^52 * (d * 2^s) ≤ n * 2^j * d
          obtain ⟨t, rfl⟩ : ∃ t, s = j + (t + 1) := ⟨s - j - 1, by omega⟩
          rw [hP] at h1
          have e1 : 2 ^ 52 * (d * 2 ^ (j + (t + 1))) = (2 ^ 52 * 2 ^ (t + 1)) * (2 ^ j * d) := by
            rw [Nat.pow_add]; ac_rfl
          have e2 : n * 2 ^ j * d = n * (2 ^ j * d) := by ac_rfl
          rw [e1, e2] at h1
          have hpos : 0 < 2 ^ j * d := Nat.mul_pos (two_pos j) hd
          have h3 := Nat.le_of_mul_le_mul_right h1 hpos
          have h4 : 2 ^ 52 * 2 ≤ 2 ^ 52 * 2 ^ (t + 1) := by
            apply Nat.mul_le_mul_left
            calc 2 = 2 ^ 1 := rfl
              _ ≤ 2 ^ (t + 1) := Nat.pow_le_pow_right (by decide) (by omega)
          have : (2:Nat) ^ 53 = 2 ^ 52 * 2 := by decide
          omega
      obtain ⟨t, rfl⟩ : ∃ t, j = s + t := ⟨j - s, by omega⟩
      have hPd : P = (n * 2 ^ t) * (d * 2 ^ s) := by
        rw [hP, Nat.pow_add]; ac_rfl
      have hden : 0 < d * 2 ^ s := Nat.mul_pos hd (two_pos s)
      have hdiv : P / (d * 2 ^ s) = n * 2 ^ t := by rw [hPd]; exact Nat.mul_div_cancel _ hden
      have hmod : P % (d * 2 ^ s) = 0 := by rw [hPd]; exact Nat.mul_mod_left _ _
      simp only [hdiv, hmod] at h
      have hno : ¬ (2 * 0 > d * 2 ^ s ∨ 2 * 0 = d * 2 ^ s ∧ n * 2 ^ t % 2 = 1) := by
        intro hh
        rcases hh with hh | ⟨hh, _⟩ <;> omega
      simp only [hno, if_false] at h
      split at h
      · cases h
      · injection h with h
        rw [← h, Nat.pow_add]; ac_rfl

theorem andThen_ok (x : Fl) (e : NsRes) (f : Nat → NsRes) (r : Int) (he : e ≠ .ok r)
    (h : x.andThen e f = .ok r) : ∃ N, x = .fin N ∧ f N = .ok r := by
  cases x with
  | fin N => exact ⟨N, rfl, h⟩
  | inf => exact absurd h he
  | giveUp => cases h

theorem floatMsToNs_exact_aux (U : Nat) (hU : U = 2 ^ 1074) (neg : Bool) (p d n j K : Nat) (r : Int)
    (hd : 0 < d) (hn : n < 2 ^ 53) (hK : K < 2 ^ 53)
    (h1 : p * U = n * 2 ^ j * d) (h2 : p * 1000000 = K * d)
    (h : floatMsToNsU U neg p d = .ok r) :
    r = if neg then -(K : Int) else (K : Int) := by
  unfold floatMsToNsU at h
  have hUpos : 0 < U := by rw [hU]; exact Nat.pow_pos (by decide)
  obtain ⟨N1, hr1, h⟩ := andThen_ok _ _ _ r (by intro hh; cases hh) h
  obtain ⟨N2, hr2, h⟩ := andThen_ok _ _ _ r (by intro hh; cases hh) h
  have hN1 := roundU_exact (p * U) d n j (2 ^ j) N1 hd hn rfl h1 hr1
  have hprod : N1 * 1000000 = K * U * 1 := by
    have e : N1 * 1000000 * d = K * U * d := by
      calc N1 * 1000000 * d = (n * 2 ^ j * d) * 1000000 := by rw [hN1]; ac_rfl
        _ = p * U * 1000000 := by rw [h1]
        _ = (p * 1000000) * U := by ac_rfl
        _ = K * d * U := by rw [h2]
        _ = K * U * d := by ac_rfl
    have := Nat.eq_of_mul_eq_mul_right hd e
    rw [this, Nat.mul_one]
  have hN2 := roundU_exact (N1 * 1000000) 1 K 1074 U N2 (by decide) hK hU hprod hr2
  have hk : N2 / U = K := by
    rw [hN2]; exact Nat.mul_div_cancel K hUpos
  unfold truncNs at h
  simp only [hk] at h
  have hlt : K < 2 ^ 63 := Nat.lt_of_lt_of_le hK (by decide)
  simp only [hlt, if_true] at h
  injection h with h
  exact h.symm

/-- `int64(ParseFloat(lit) * 1e6)` is exact whenever the literal `p/d` ms is itself a
float64 (`n·2^j` units of 2^-1074, `n < 2^53`) and its value in ns is an integer `K < 2^53`. -/
theorem floatMsToNs_exact (neg : Bool) (p d n j K : Nat) (r : Int) (hd : 0 < d) (hn : n < 2 ^ 53) (hK : K < 2 ^ 53)
    (h1 : p * fUnit = n * 2 ^ j * d) (h2 : p * 1000000 = K * d)
    (h : floatMsToNs neg p d = .ok r) : r = if neg then -(K : Int) else (K : Int) := by
  have hU : fUnit = 2 ^ 1074 := by unfold fUnit; rfl
  unfold floatMsToNs at h
  exact floatMsToNs_exact_aux fUnit hU neg p d n j K r hd hn hK h1 h2 h


theorem Dec.frac_den_pos (x : Dec) : 0 < x.frac.2 := by
  unfold Dec.frac
  split
  · exact Nat.one_pos
  · exact Nat.pow_pos (by decide)

end AGH.C18
