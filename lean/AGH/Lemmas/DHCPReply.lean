/-
C10 — helper lemmas, part 6: what a reply says is in the table; a reserved
client only gets its reservation; DISCOVER is answered while an address is free.
-/
import AGH.Lemmas.DHCPMirror
namespace AGH.C10
open AGH

theorem mem_mapId {L : List Lease} {y : Lease} (f : Lease → Lease) (hy : y ∈ L) : f y ∈ mapId y.id f L := by
  unfold mapId
  exact List.mem_map.2 ⟨y, hy, by simp⟩

/-- The address in a positive reply is recorded in the table for that client. -/
theorem handleDiscover_recorded {c : Conf} {s : State} {mac : Bytes} (h : Inv c s)
    (hrc : (handleDiscover c mac s).2.rc = 1) :
    ∃ l ∈ (handleDiscover c mac s).1.leases, l.mac = mac ∧ l.ip = (handleDiscover c mac s).2.yi := by
  unfold handleDiscover at hrc ⊢
  cases hf : findLease mac s with
  | some l =>
    obtain ⟨h1, h2⟩ := findLease_some hf
    exact ⟨l, h1, h2, rfl⟩
  | none =>
    rw [hf] at hrc
    simp only [] at hrc ⊢
    have hsp := allocate_spec h (findLease_none hf)
    rcases hal : allocateLease c mac s with ⟨s1, r⟩
    rw [hal] at hsp hrc
    obtain ⟨_, _, _, hor⟩ := hsp
    rcases r with _ | _ | l
    · simp [Reply.nak] at hrc
    · simp [Reply.nak] at hrc
    · rcases hor with ⟨hx, _⟩ | ⟨l', A, B, hl1, hl2, hl3, _⟩
      · cases hx
      · simp only [Option.some.injEq] at hl1
        subst hl1
        exact ⟨l, by show l ∈ s1.leases; rw [hl2]; exact mem_middle.2 (.inl rfl), hl3, rfl⟩

theorem handleRequest_recorded {O : Oracle} {c : Conf} {s : State} {mac : Bytes} {sid : Nat} {rp : Bool}
    {rip ci : Nat} {hn : Bytes} (hrc : (handleRequest O c mac sid rp rip ci hn s).2.rc = 1) :
    ∃ l ∈ (handleRequest O c mac sid rp rip ci hn s).1.leases, l.mac = mac ∧
      l.ip = (handleRequest O c mac sid rp rip ci hn s).2.yi := by
  unfold handleRequest at hrc ⊢
  rcases hb : handleByRequestType c mac sid rp rip ci s with ⟨lo, b⟩
  rw [hb] at hrc
  rcases lo with _ | l
  · cases b <;> simp [Reply.nak, Reply.drop] at hrc
  · simp only [] at hrc ⊢
    obtain ⟨hl, hm⟩ := hbrt_some hb
    split
    · exact ⟨l, hl, hm, rfl⟩
    · refine ⟨{ l with host := commitName O c l hn s, exp := s.now + c.leaseTime }, ?_, hm, rfl⟩
      show _ ∈ (commitLease O c l hn s).leases
      unfold commitLease
      show _ ∈ (renameLease l (commitName O c l hn s) (s.now + c.leaseTime) s).leases
      rw [(renameLease_frame l _ _).1]
      exact mem_mapId (fun x => { x with host := commitName O c l hn s, exp := s.now + c.leaseTime }) hl

theorem handleDecline_recorded {c : Conf} {s : State} {mac : Bytes} {rp : Bool} {rip ci : Nat} (h : Inv c s) (hrc : (handleDecline c mac rp rip ci s).2.rc = 1)
    (hyi : (handleDecline c mac rp rip ci s).2.yi ≠ 0) :
    ∃ l ∈ (handleDecline c mac rp rip ci s).1.leases, l.mac = mac ∧ l.ip = (handleDecline c mac rp rip ci s).2.yi := by
  unfold handleDecline at hrc hyi ⊢
  simp only [] at hrc hyi ⊢
  cases hf : s.leases.find? (fun l => l.mac == mac && l.ip == msgIP rp rip ci) with
  | none => rw [hf] at hyi; simp at hyi
  | some old =>
    rw [hf] at hrc hyi
    simp only [] at hrc hyi ⊢
    have hold : old.mac = mac := by
      have := List.find?_some hf
      simp only [Bool.and_eq_true, beq_iff_eq] at this
      exact this.1
    have hi1 := rmDynamicLease_inv old.mac old.ip old.host h
    have hclean := rmDynLoop_clean c old.mac old.ip old.host s.leases [] s (by intro x hx; cases hx)
    rcases hr : rmDynamicLease c old.mac old.ip old.host s with ⟨s1, e⟩
    rw [hr] at hi1 hrc hyi
    cases e with
    | true => simp [Reply.nak] at hrc
    | false =>
      simp only [] at hrc hyi ⊢
      have hm1 : ∀ y ∈ s1.leases, y.mac ≠ mac := by
        intro y hy
        have := hclean (by unfold rmDynamicLease at hr; rw [hr]) y (by unfold rmDynamicLease at hr; rw [hr]; exact hy)
        rw [← hold]; exact this.1
      have hsp := allocate_spec hi1 hm1
      rcases hal : allocateLease c mac s1 with ⟨s2, r⟩
      rw [hal] at hsp hrc hyi
      obtain ⟨hi2, _, _, hor⟩ := hsp
      rcases r with _ | _ | nl
      · simp [Reply.nak] at hrc
      · simp at hyi
      · simp only [] at hrc hyi ⊢
        rcases hor with ⟨hx, _⟩ | ⟨l, A, B, hl1, hl2, hl3, _⟩
        · cases hx
        · simp only [Option.some.injEq] at hl1
          subst hl1
          have hmem : nl ∈ s2.leases := by rw [hl2]; exact mem_middle.2 (.inl rfl)
          refine ⟨{ nl with host := old.host, exp := s2.now + c.leaseTime }, ?_, hl3, rfl⟩
          show _ ∈ (renameLease nl old.host (s2.now + c.leaseTime) s2).leases
          rw [(renameLease_frame nl _ _).1]
          exact mem_mapId (fun x => { x with host := old.host, exp := s2.now + c.leaseTime }) hmem

theorem handleRelease_yi (c : Conf) (mac : Bytes) (rp : Bool) (rip ci : Nat) (s : State) :
    (handleRelease c mac rp rip ci s).2.yi = 0 := by
  unfold handleRelease
  simp only []
  rcases releaseLoop c mac (msgIP rp rip ci) s.leases.length 0 { s with stale := [] } with ⟨s1, e⟩
  cases e <;> rfl

theorem step_recorded {O : Oracle} {c : Conf} {s : State} {op : Op} {m : Bytes} (h : Inv c s)
    (hm : op.mac? = some m) (hrc : (step O c s op).2.rc = 1) (hyi : (step O c s op).2.yi ≠ 0) :
    ∃ l ∈ (step O c s op).1.leases, l.mac = m ∧ l.ip = (step O c s op).2.yi := by
  have h0 : Inv c { s with stale := [] } := Inv_congr h rfl rfl rfl rfl rfl rfl
  unfold step at hrc hyi ⊢
  simp only [] at hrc hyi ⊢
  cases op with
  | discover mac =>
    simp only [Op.mac?, Option.some.injEq] at hm
    subst hm
    cases hv : validMAC mac
    · simp [hv, Reply.drop] at hrc
    simp only [hv, Bool.not_true, Bool.false_eq_true, if_false] at hrc hyi ⊢
    exact handleDiscover_recorded h0 hrc
  | request mac sid rp rip ci hn =>
    simp only [Op.mac?, Option.some.injEq] at hm
    subst hm
    cases hv : validMAC mac
    · simp [hv, Reply.drop] at hrc
    simp only [hv, Bool.not_true, Bool.false_eq_true, if_false] at hrc hyi ⊢
    exact handleRequest_recorded hrc
  | decline mac rp rip ci =>
    simp only [Op.mac?, Option.some.injEq] at hm
    subst hm
    cases hv : validMAC mac
    · simp [hv, Reply.drop] at hrc
    simp only [hv, Bool.not_true, Bool.false_eq_true, if_false] at hrc hyi ⊢
    exact handleDecline_recorded h0 hrc hyi
  | release mac rp rip ci =>
    simp only [Op.mac?, Option.some.injEq] at hm
    subst hm
    cases hv : validMAC mac
    · simp [hv, Reply.drop] at hrc
    simp only [hv, Bool.not_true, Bool.false_eq_true, if_false] at hrc hyi ⊢
    exact absurd (handleRelease_yi _ _ _ _ _ _) hyi
  | addStatic mac ip hn => simp [Op.mac?] at hm
  | updStatic mac ip hn => simp [Op.mac?] at hm
  | rmStatic mac ip hn => simp [Op.mac?] at hm
  | sleep d => simp [Op.mac?] at hm
  | restart => simp [Op.mac?] at hm
  | reorder d => simp [Op.mac?] at hm
  | resetLeases => simp [Op.mac?] at hm

/-! ### liveness of DISCOVER -/

theorem handleDiscover_offer {c : Conf} {s : State} {mac : Bytes} (h : Inv c s)
    (hnew : ∀ l ∈ s.leases, l.mac ≠ mac)
    (hfree : ∃ a, c.start ≤ a ∧ a ≤ c.stop ∧ ∀ l ∈ s.leases, l.ip = a → l.static = false ∧ l.exp < s.now) :
    (handleDiscover c mac s).2.rc = 1 ∧ (handleDiscover c mac s).2.typ = 2 ∧
    c.start ≤ (handleDiscover c mac s).2.yi ∧ (handleDiscover c mac s).2.yi ≤ c.stop := by
  have hf : findLease mac s = none := by
    unfold findLease
    exact List.find?_eq_none.2 (fun x hx => by simpa using hnew x hx)
  unfold handleDiscover
  rw [hf]
  simp only []
  have hsp := allocate_spec h hnew
  rcases hal : allocateLease c mac s with ⟨s1, r⟩
  rw [hal] at hsp
  obtain ⟨_, _, _, hor⟩ := hsp
  rcases hor with ⟨hx, hnext, hexp, _⟩ | ⟨l, A, B, hl1, _, _, _, hp1, hp2⟩
  · -- impossible: every bit is set, so the free address carries an expired dynamic lease
    exfalso
    obtain ⟨a, ha1, ha2, hal'⟩ := hfree
    unfold nextIP at hnext
    cases hfc : firstClear s.bits (c.stop + 1 - c.start) 0 with
    | some o => rw [hfc] at hnext; cases hnext
    | none =>
      have hbit := firstClear_none s.bits _ _ hfc (a - c.start) (Nat.zero_le _) (by omega)
      obtain ⟨l, hl, hlip, _⟩ := (h.bitsIff (a - c.start)).1 hbit
      have hla : l.ip = a := by omega
      obtain ⟨hst, hex⟩ := hal' l hl hla
      rcases findExpired_none hexp l hl with hs | he
      · rw [hst] at hs; cases hs
      · omega
  · simp only [] at hl1
    subst hl1
    exact ⟨rfl, rfl, hp1, hp2⟩

end AGH.C10
