/-
C09: a state that satisfies the invariant answers GET /control/stats in a way
the spec monitor accepts; with nothing dropped the totals are exact.
-/
import AGH.Lemmas.StatsWindow
namespace AGH.C09

theorem slotsFrom_of_forall (g : Ghost) (sel : Sel) (len : Nat) (xs : List Nat) (i : Nat)
    (h : ∀ j (hj : j < xs.length),
      between (lowerAt g (g.now + 1 + (i + j) - len) sel) xs[j] (upperAt g (g.now + 1 + (i + j) - len) sel) = true) :
    slotsFrom g sel len xs i = true := by
  induction xs generalizing i with
  | nil => rfl
  | cons x xs ih =>
    simp only [slotsFrom, Bool.and_eq_true]
    have h0 := h 0 (by simp)
    simp only [Nat.add_zero, List.getElem_cons_zero] at h0
    refine ⟨h0, ih (i + 1) ?_⟩
    intro j hj
    have := h (j + 1) (by simp; omega)
    simp only [List.getElem_cons_succ] at this
    rw [show i + 1 + j = i + (j + 1) by omega]
    exact this

/-- The units `loadUnits` returns in an invariant state. -/
def unitsOf (s : State) (L : Nat) : List UnitDB := storedUnits s L ++ [s.curr.serialize]

theorem unitsOf_length {g : Ghost} {s : State} (hi : Inv g s) : (unitsOf s g.limit).length = g.limit := by
  have hr := hi.limit_range
  simp only [unitsOf, storedUnits_eq hi, List.length_append, List.length_map, List.length_range,
    List.length_cons, List.length_nil]
  omega

/-- Slot `j` of the hourly series holds a value between the kept and the
counted queries of its hour. -/
theorem slot_bounds {g : Ghost} {s : State} (hi : Inv g s) (sel : Sel) (j : Nat)
    (hj : j < ((unitsOf s g.limit).map sel.val).length) :
    between (lowerAt g (g.now + 1 + (0 + j) - ((unitsOf s g.limit).map sel.val).length) sel)
      ((unitsOf s g.limit).map sel.val)[j]
      (upperAt g (g.now + 1 + (0 + j) - ((unitsOf s g.limit).map sel.val).length) sel) = true := by
  have hr := hi.limit_range
  have hnl := hi.nowLimit
  have hlen := unitsOf_length hi
  have hj' : j < g.limit := by simpa [hlen] using hj
  simp only [List.length_map, hlen, Nat.zero_add, between, Bool.and_eq_true, decide_eq_true_eq]
  by_cases hlast : j < g.limit - 1
  · have hval : ((unitsOf s g.limit).map sel.val)[j] = optVal sel (s.db.get (g.now + 1 - g.limit + j)) := by
      simp only [unitsOf, storedUnits_eq hi, List.getElem_map]
      rw [List.getElem_append_left (by simp; exact hlast)]
      simp only [List.getElem_map, List.getElem_range]
      exact val_getD sel _
    rw [hval, show g.now + 1 + j - g.limit = g.now + 1 - g.limit + j by omega]
    exact ⟨hi.dbLo _ (by omega) sel, optVal_le_upperAt hi _ sel⟩
  · have hje : j = g.limit - 1 := by omega
    have hval : ((unitsOf s g.limit).map sel.val)[j] = sel.val s.curr.serialize := by
      simp only [unitsOf, storedUnits_eq hi, List.getElem_map]
      rw [List.getElem_append_right (by simp; omega)]
      simp
    rw [hval, show g.now + 1 + j - g.limit = g.now by omega]
    exact ⟨hi.curLo sel, hi.curUp sel⟩

theorem getData_eq {g : Ghost} {s : State} (hi : Inv g s) :
    getData s = dataFromUnits (unitsOf s g.limit) g.now := by
  have hr := hi.limit_range
  have hhi := hi.hi
  have h0 : ¬ g.limit = 0 := by omega
  have hl := (loadUnits_ok s g.limit (by rw [hi.cur]; exact hhi) hr.1 (by simp only [U32]; omega)).1
  simp only [getData, hi.lim, h0, if_false, hl, unitsOf, hi.cur]

/-- What an invariant state reports. -/
theorem inv_read {g : Ghost} {s : State} (hi : Inv g s) :
    ∃ r, getData s = .ok r ∧ totalsOK g r = true ∧ allSeriesOK g r = true ∧
      r.numDNSQueries = sumBy (Sel.val .total) (unitsOf s g.limit) ∧
      r.numBlockedFiltering = sumBy (Sel.val (.cat 2)) (unitsOf s g.limit) ∧
      r.numReplacedSafebrowsing = sumBy (Sel.val (.cat 3)) (unitsOf s g.limit) ∧
      r.numReplacedSafesearch = sumBy (Sel.val (.cat 4)) (unitsOf s g.limit) ∧
      r.numReplacedParental = sumBy (Sel.val (.cat 5)) (unitsOf s g.limit) := by
  obtain ⟨r, hr, t1, t2, t3, t4, t5, hdays, hhours, hdaily⟩ := dataFromUnits_spec (unitsOf s g.limit) g.now
  refine ⟨r, by rw [getData_eq hi]; exact hr, ?_, ?_, t1, t2, t3, t4, t5⟩
  · -- totals
    have b : ∀ sel : Sel, between (lower g sel) (sumBy sel.val (unitsOf s g.limit)) (upper g sel) = true := by
      intro sel
      simp only [between, Bool.and_eq_true, decide_eq_true_eq]
      exact ⟨lower_le_total hi sel, total_le_upper hi sel⟩
    simp only [totalsOK, Bool.and_eq_true]
    refine ⟨⟨⟨⟨?_, ?_⟩, ?_⟩, ?_⟩, ?_⟩
    · rw [t1]; exact b .total
    · rw [t2]; exact b (.cat 2)
    · rw [t3]; exact b (.cat 3)
    · rw [t4]; exact b (.cat 4)
    · rw [t5]; exact b (.cat 5)
  · -- series
    cases hd : r.days with
    | true =>
      obtain ⟨d1, d2, d3, d4, _⟩ := hdaily hd
      simp only [allSeriesOK, seriesOK, hd, if_true, Bool.and_eq_true, decide_eq_true_eq]
      exact ⟨⟨⟨d1, d2⟩, d3⟩, d4⟩
    | false =>
      obtain ⟨s1, s2, s3, s4⟩ := hhours hd
      have one : ∀ (sel : Sel) (series : List Nat) (total : Nat),
          series = (unitsOf s g.limit).map sel.val → total = sumBy sel.val (unitsOf s g.limit) →
          seriesOK g false sel series total = true := by
        intro sel series total hs ht
        subst hs ht
        simp only [seriesOK, Bool.false_eq_true, if_false, Bool.and_eq_true, decide_eq_true_eq]
        refine ⟨rfl, ?_⟩
        unfold slotsOK
        exact slotsFrom_of_forall g sel _ _ 0 (fun j hj => slot_bounds hi sel j hj)
      simp only [allSeriesOK, Bool.and_eq_true, hd]
      exact ⟨⟨⟨one .total _ _ s1 t1, one (.cat 2) _ _ s2 t2⟩, one (.cat 3) _ _ s3 t3⟩, one (.cat 5) _ _ s4 t5⟩

theorem inv_specOK {g : Ghost} {s : State} (hi : Inv g s) : specOK g (getData s) = true := by
  obtain ⟨r, hr, ht, hs, _⟩ := inv_read hi
  simp [specOK, hr, ht, hs]

theorem lower_eq_upper {g : Ghost} (hk : AllKept g) (sel : Sel) : lower g sel = upper g sel := by
  unfold lower upper
  apply cnt_congr
  intro e he
  by_cases hw : inWindow g.now g.limit e.hour = true
  · simp [hw, hk e he hw]
  · have : inWindow g.now g.limit e.hour = false := by simpa using hw
    simp [this]

theorem inv_exact {g : Ghost} {s : State} (hi : Inv g s) (hk : AllKept g) (sel : Sel) :
    sumBy sel.val (unitsOf s g.limit) = upper g sel := by
  have h1 := lower_le_total hi sel
  have h2 := total_le_upper hi sel
  rw [lower_eq_upper hk] at h1
  exact Nat.le_antisymm h2 h1

end AGH.C09
