/-
Helper lemmas for C01 / C02: the model's settings and rule checks expressed in
the spec's vocabulary.
-/
import AGH.Spec.Filter
namespace AGH.Filter
open AGH AGH.Bytes

/-- What urlfilter's `MatchRequest` guarantees about a positive answer, as far
as the pipeline relies on it: nothing matches the empty host name, a positive
hosts-style answer carries at least one rule, `HostRulesV4` holds IPv4
addresses and `HostRulesV6` the others. -/
structure EnginesWF (e : Engines) : Prop where
  allow_empty : ∀ r, r.host = [] → e.allow r = none
  block_empty : ∀ r, r.host = [] → e.block r = none
  allow_hosts : ∀ r v4 v6, e.allow r = some (.hosts v4 v6) → (v4.isEmpty && v6.isEmpty) = false
  block_hosts : ∀ r v4 v6, e.block r = some (.hosts v4 v6) → (v4.isEmpty && v6.isEmpty) = false
  block_v4 : ∀ r v4 v6, e.block r = some (.hosts v4 v6) → ∀ ip ∈ v4, ip.v6 = false
  block_v6 : ∀ r v4 v6, e.block r = some (.hosts v4 v6) → ∀ ip ∈ v6, ip.v6 = true

theorem settings_protection (c : Conf) : (settings c).protection = protectionOn c := by
  unfold settings protectionOn protectionEnabled
  cases c.client <;> cases c.pause <;> rfl

theorem settings_filtering (c : Conf) : (settings c).filtering = filteringOn c := by
  unfold settings filteringOn
  cases c.client <;> rfl

theorem settings_services (c : Conf) : (settings c).services = servicesInForce c := by
  unfold settings servicesInForce
  cases c.client <;> rfl

theorem settings_clientName (c : Conf) : (settings c).clientName = clientNameOf c := by
  unfold settings clientNameOf
  cases c.client <;> rfl

theorem settings_clientIP (c : Conf) : (settings c).clientIP = c.clientIP := by
  unfold settings
  cases c.client <;> rfl

end AGH.Filter

namespace AGH.Filter
open AGH AGH.Bytes

theorem matchHost_eq (e : Engines) (c : Conf) (h : Bytes) (t : Nat) :
    matchHost e h t (settings c) =
      if !filteringOn c then .ok {} else
      match (if protectionOn c then e.allow (reqFor c h t) else none) with
      | some r => processAllowList r
      | none =>
        match e.block (reqFor c h t) with
        | none => .ok {}
        | some r => if !protectionOn c then .ok {} else .ok (processDNSResult t r) := by
  simp only [matchHost, settings_protection, settings_filtering, settings_clientName,
    settings_clientIP, reqFor]
  rfl

theorem matchHost_off (e : Engines) (c : Conf) (h : Bytes) (t : Nat)
    (hoff : (protectionOn c && filteringOn c) = false) :
    matchHost e h t (settings c) = .ok {} := by
  rw [matchHost_eq]
  cases hf : filteringOn c
  · simp
  · cases hp : protectionOn c
    · simp; cases e.block (reqFor c h t) <;> simp
    · simp [hf, hp] at hoff

/-- With protection and filtering on, the model's rule check says exactly what
the spec's vocabulary says. -/
theorem matchHost_on (e : Engines) (hwf : EnginesWF e) (c : Conf) (h : Bytes) (t : Nat)
    (hp : protectionOn c = true) (hf : filteringOn c = true) :
    ∃ r, matchHost e h t (settings c) = .ok r ∧
      r.isFiltered = ruleBlockedName e c h t ∧
      (r.reason == .allowList) = allowedName e c h t ∧
      (r.isFiltered = true → r.reason = .blockList ∧ r.ips = hostRuleIPs e c h t t ∧ r.svcName = []) ∧
      (r.isFiltered = false → (r.reason = .notFound ∨ r.reason = .allowList) ∧ r.svcName = []) := by
  rw [matchHost_eq]
  simp only [hp, hf, Bool.not_true, if_true]
  cases ha : e.allow (reqFor c h t) with
  | some ra =>
    cases ra with
    | net wl =>
      refine ⟨{ reason := .allowList }, ?_⟩
      simp [processAllowList, ruleBlockedName, allowedName, ha]
    | hosts v4 v6 =>
      have := hwf.allow_hosts _ _ _ ha
      refine ⟨{ reason := .allowList }, ?_⟩
      simp [processAllowList, this, ruleBlockedName, allowedName, ha]
  | none =>
    cases hb : e.block (reqFor c h t) with
    | none =>
      refine ⟨{}, ?_⟩
      simp [ruleBlockedName, allowedName, ha, hb]
    | some rb =>
      cases rb with
      | net wl =>
        cases wl
        · refine ⟨{ reason := .blockList, isFiltered := true }, ?_⟩
          simp [processDNSResult, ruleBlockedName, allowedName, ha, hb, hostRuleIPs]
        · refine ⟨{ reason := .allowList }, ?_⟩
          simp [processDNSResult, ruleBlockedName, allowedName, ha, hb]
      | hosts v4 v6 =>
        have hne := hwf.block_hosts _ _ _ hb
        refine ⟨processDNSResult t (.hosts v4 v6), rfl, ?_⟩
        simp only [processDNSResult, hostResultForOtherQType, ruleBlockedName, allowedName, ha, hb,
          hostRuleIPs]
        by_cases h1 : t = tA <;> by_cases h2 : t = tAAAA <;>
          cases hv4 : v4.isEmpty <;> cases hv6 : v6.isEmpty <;>
          simp_all [tA, tAAAA]

end AGH.Filter

namespace AGH.Filter
open AGH AGH.Bytes

theorem lower_eq_nil (h : Bytes) : lower h = [] ↔ h = [] := by
  unfold lower; simp

theorem any_eq_find (l : List Service) (p : Service → Bool) :
    l.any p = (l.find? p).isSome := by
  induction l with
  | nil => rfl
  | cons x xs ih =>
    simp only [List.any_cons, List.find?_cons]
    cases hx : p x <;> simp [ih]

theorem find_some_pred {l : List Service} {p : Service → Bool} {sv : Service}
    (h : l.find? p = some sv) : p sv = true := List.find?_some h

theorem matchBlockedServices_eq (e : Engines) (c : Conf) (H : Bytes) :
    matchBlockedServices e H (settings c) =
      if !protectionOn c then {}
      else match (servicesInForce c).find? (fun sv => e.svc sv H) with
        | some sv => { reason := .blockedService, isFiltered := true, svcName := sv.name }
        | none => {} := by
  simp only [matchBlockedServices, settings_protection, settings_services]
  rfl

/-- The three-way classification of the request-stage check, in the spec's words. -/
theorem checkHost_spec (e : Engines) (hwf : EnginesWF e) (c : Conf) (q : Query) :
    ∃ res, checkHost e (trimDot q.name) q.qtype (settings c) = .ok res ∧
      (blockedByRules e c q = true →
        res.isFiltered = true ∧ (res.reason = .blockList ∨ res.reason = .blockedService) ∧
        res.ips = hostRuleIPs e c (qhost q) q.qtype q.qtype) ∧
      (blockedByRules e c q = false → serviceMayBlock e c q = true →
        res.isFiltered = true ∧ res.reason = .blockedService ∧ res.ips = []) ∧
      (blockedByRules e c q = false → serviceMayBlock e c q = false →
        res.isFiltered = false ∧
        ((res.reason == .allowList) = (protectionOn c && filteringOn c && allowedName e c (qhost q) q.qtype))) := by
  unfold checkHost
  by_cases hh : trimDot q.name = []
  · -- the root name: nothing is checked
    have hq : qhost q = [] := by unfold qhost; rw [hh]; rfl
    refine ⟨{}, by simp [hh], ?_, ?_, ?_⟩
    · simp [blockedByRules, hq]
    · simp [serviceMayBlock, hq]
    · intro _ _
      have h1 := hwf.allow_empty (reqFor c [] q.qtype) rfl
      have h2 := hwf.block_empty (reqFor c [] q.qtype) rfl
      simp [allowedName, hq, h1, h2]
  · have hq : (qhost q != []) = true := by
      unfold qhost; simp [lower_eq_nil, hh]
    simp only [hh, if_false]
    have hqh : lower (trimDot q.name) = qhost q := rfl
    rw [hqh]
    cases hp : protectionOn c
    · -- protection off: nothing is blocked
      have hoff : (protectionOn c && filteringOn c) = false := by simp [hp]
      rw [matchHost_off e c _ _ hoff, matchBlockedServices_eq]
      refine ⟨{}, by simp [hp], ?_, ?_, ?_⟩ <;> simp [blockedByRules, serviceMayBlock, hp]
    · cases hf : filteringOn c
      · -- filtering off for this client: only services can block
        have hoff : (protectionOn c && filteringOn c) = false := by simp [hf]
        rw [matchHost_off e c _ _ hoff, matchBlockedServices_eq]
        simp only [hp, Bool.not_true]
        cases hs : (servicesInForce c).find? (fun sv => e.svc sv (qhost q)) with
        | none =>
          refine ⟨{}, by simp, ?_, ?_, ?_⟩ <;>
            simp [blockedByRules, serviceMayBlock, hp, hf, hq, any_eq_find, hs]
        | some sv =>
          refine ⟨{ reason := .blockedService, isFiltered := true, svcName := sv.name }, by simp, ?_, ?_, ?_⟩ <;>
            simp [blockedByRules, serviceMayBlock, hp, hf, hq, any_eq_find, hs]
      · obtain ⟨r, hr, hfilt, hallow, hblk, hnot⟩ := matchHost_on e hwf c (qhost q) q.qtype hp hf
        rw [hr]
        simp only
        cases hrf : r.isFiltered
        · -- not blocked by the lists
          have hnb : ruleBlockedName e c (qhost q) q.qtype = false := by rw [← hfilt, hrf]
          obtain ⟨hreason, _⟩ := hnot hrf
          rcases hreason with hnf | hal
          · -- no match at all: the services decide
            have hna : allowedName e c (qhost q) q.qtype = false := by rw [← hallow, hnf]; rfl
            rw [matchBlockedServices_eq]
            simp only [hnf, hp, Bool.not_true]
            cases hs : (servicesInForce c).find? (fun sv => e.svc sv (qhost q)) with
            | none =>
              refine ⟨{}, by simp, ?_, ?_, ?_⟩ <;>
                simp [blockedByRules, serviceMayBlock, serviceBlockedName, hp, hf, hq, hnb, hna,
                  any_eq_find, hs]
            | some sv =>
              refine ⟨{ reason := .blockedService, isFiltered := true, svcName := sv.name }, by simp, ?_, ?_, ?_⟩
              · intro _
                refine ⟨rfl, Or.inr rfl, ?_⟩
                -- no hosts-style line matched, so there are no rule addresses
                simp only [ruleBlockedName, hna, Bool.not_false, Bool.true_and] at hnb
                simp only [allowedName, Bool.or_eq_false_iff] at hna
                unfold hostRuleIPs
                cases hb : e.block (reqFor c (qhost q) q.qtype) with
                | none => rfl
                | some rb =>
                  cases rb with
                  | net wl => rfl
                  | hosts v4 v6 =>
                    have := hwf.block_hosts _ _ _ hb
                    simp [hb] at hnb
                    simp_all
              · simp [blockedByRules, serviceBlockedName, hp, hf, hq, hnb, hna, any_eq_find, hs]
              · simp [blockedByRules, serviceBlockedName, hp, hf, hq, hnb, hna, any_eq_find, hs]
          · -- allowed
            have hya : allowedName e c (qhost q) q.qtype = true := by rw [← hallow, hal]; rfl
            refine ⟨r, by simp [hal], ?_, ?_, ?_⟩
            · simp [blockedByRules, serviceBlockedName, hp, hf, hq, hnb, hya]
            · simp [serviceMayBlock, hf]
            · intro _ _
              refine ⟨hrf, ?_⟩
              simp [hal, hp, hf, hya]
        · -- blocked by the lists
          have hyb : ruleBlockedName e c (qhost q) q.qtype = true := by rw [← hfilt, hrf]
          obtain ⟨hreason, hips, _⟩ := hblk hrf
          refine ⟨r, by simp [hreason], ?_, ?_, ?_⟩
          · intro _; exact ⟨hrf, Or.inl hreason, hips⟩
          · simp [blockedByRules, hp, hf, hq, hyb]
          · simp [blockedByRules, hp, hf, hq, hyb]

end AGH.Filter
