/-
Helper lemmas for C01 / C02: the model's settings and rule checks expressed in
the spec's vocabulary.
-/
import AGH.Spec.Filter
set_option linter.unusedSimpArgs false
namespace AGH.Filter
open AGH AGH.Bytes

/-- What urlfilter's `MatchRequest` guarantees about a positive answer, as far
as the pipeline relies on it: nothing matches the empty host name, a positive
hosts-style answer carries at least one rule, `HostRulesV4` holds IPv4
addresses and `HostRulesV6` the others. -/
structure EnginesWF (e : Engines) : Prop where
  allow_empty : ∀ r, r.host = [] → e.allow r = none
  block_empty : ∀ r, r.host = [] → e.block r = none
  allow_hosts : ∀ r v4 v6, e.allow r = some (.hosts v4 v6) → (v4.isEmpty && v6.isEmpty) = false
  block_hosts : ∀ r v4 v6, e.block r = some (.hosts v4 v6) → (v4.isEmpty && v6.isEmpty) = false
  block_v4 : ∀ r v4 v6, e.block r = some (.hosts v4 v6) → ∀ ip ∈ v4, ip.v6 = false
  block_v6 : ∀ r v4 v6, e.block r = some (.hosts v4 v6) → ∀ ip ∈ v6, ip.v6 = true

theorem settings_protection (c : Conf) : (settings c).protection = protectionOn c := by
  unfold settings protectionOn protectionEnabled
  cases c.client <;> cases c.pause <;> rfl

theorem settings_filtering (c : Conf) : (settings c).filtering = filteringOn c := by
  unfold settings filteringOn
  cases c.client <;> rfl

theorem settings_services (c : Conf) : (settings c).services = servicesInForce c := by
  unfold settings servicesInForce
  cases c.client <;> rfl

theorem settings_clientName (c : Conf) : (settings c).clientName = clientNameOf c := by
  unfold settings clientNameOf
  cases c.client <;> rfl

theorem settings_clientIP (c : Conf) : (settings c).clientIP = c.clientIP := by
  unfold settings
  cases c.client <;> rfl

theorem settings_safeBrowsing (c : Conf) : (settings c).safeBrowsing = sbConfigured c := by
  unfold settings sbConfigured
  cases c.client <;> rfl

theorem settings_parental (c : Conf) : (settings c).parental = parentalConfigured c := by
  unfold settings parentalConfigured
  cases c.client <;> rfl

end AGH.Filter

namespace AGH.Filter
open AGH AGH.Bytes

theorem matchHost_eq (e : Engines) (c : Conf) (h : Bytes) (t : Nat) :
    matchHost e h t (settings c) =
      if !filteringOn c then .ok {} else
      match (if protectionOn c then e.allow (reqFor c h t) else none) with
      | some r => processAllowList r
      | none =>
        match e.block (reqFor c h t) with
        | none => .ok {}
        | some r => if !protectionOn c then .ok {} else .ok (processDNSResult t r) := by
  simp only [matchHost, settings_protection, settings_filtering, settings_clientName,
    settings_clientIP, reqFor]
  rfl

theorem matchHost_off (e : Engines) (c : Conf) (h : Bytes) (t : Nat)
    (hoff : (protectionOn c && filteringOn c) = false) :
    matchHost e h t (settings c) = .ok {} := by
  rw [matchHost_eq]
  cases hf : filteringOn c
  · simp
  · cases hp : protectionOn c
    · simp; cases e.block (reqFor c h t) <;> simp
    · simp [hf, hp] at hoff

/-- With protection and filtering on, the model's rule check says exactly what
the spec's vocabulary says. -/
theorem matchHost_on (e : Engines) (hwf : EnginesWF e) (c : Conf) (h : Bytes) (t : Nat)
    (hp : protectionOn c = true) (hf : filteringOn c = true) :
    ∃ r, matchHost e h t (settings c) = .ok r ∧
      r.isFiltered = ruleBlockedName e c h t ∧
      (r.reason == .allowList) = allowedName e c h t ∧
      (r.isFiltered = true → r.reason = .blockList ∧ r.ips = hostRuleIPs e c h t t ∧ r.svcName = []) ∧
      (r.isFiltered = false → (r.reason = .notFound ∨ r.reason = .allowList) ∧ r.svcName = []) := by
  rw [matchHost_eq]
  simp only [hp, hf, Bool.not_true, if_true]
  cases ha : e.allow (reqFor c h t) with
  | some ra =>
    cases ra with
    | net wl =>
      refine ⟨{ reason := .allowList }, ?_⟩
      simp [processAllowList, ruleBlockedName, allowedName, ha]
    | hosts v4 v6 =>
      have := hwf.allow_hosts _ _ _ ha
      refine ⟨{ reason := .allowList }, ?_⟩
      simp [processAllowList, this, ruleBlockedName, allowedName, ha]
  | none =>
    cases hb : e.block (reqFor c h t) with
    | none =>
      refine ⟨{}, ?_⟩
      simp [ruleBlockedName, allowedName, ha, hb]
    | some rb =>
      cases rb with
      | net wl =>
        cases wl
        · refine ⟨{ reason := .blockList, isFiltered := true }, ?_⟩
          simp [processDNSResult, ruleBlockedName, allowedName, ha, hb, hostRuleIPs]
        · refine ⟨{ reason := .allowList }, ?_⟩
          simp [processDNSResult, ruleBlockedName, allowedName, ha, hb]
      | hosts v4 v6 =>
        have hne := hwf.block_hosts _ _ _ hb
        refine ⟨processDNSResult t (.hosts v4 v6), rfl, ?_⟩
        simp only [processDNSResult, hostResultForOtherQType, ruleBlockedName, allowedName, ha, hb,
          hostRuleIPs]
        by_cases h1 : t = tA <;> by_cases h2 : t = tAAAA <;>
          cases hv4 : v4.isEmpty <;> cases hv6 : v6.isEmpty <;>
          simp_all [tA, tAAAA]

end AGH.Filter

namespace AGH.Filter
open AGH AGH.Bytes

theorem lower_eq_nil (h : Bytes) : lower h = [] ↔ h = [] := by
  unfold lower; simp

theorem any_eq_find (l : List Service) (p : Service → Bool) :
    l.any p = (l.find? p).isSome := by
  induction l with
  | nil => rfl
  | cons x xs ih =>
    simp only [List.any_cons, List.find?_cons]
    cases hx : p x <;> simp [ih]

theorem find_some_pred {l : List Service} {p : Service → Bool} {sv : Service}
    (h : l.find? p = some sv) : p sv = true := List.find?_some h

theorem matchBlockedServices_eq (e : Engines) (c : Conf) (H : Bytes) :
    matchBlockedServices e H (settings c) =
      if !protectionOn c then {}
      else match (servicesInForce c).find? (fun sv => e.svc sv H) with
        | some sv => { reason := .blockedService, isFiltered := true, svcName := sv.name }
        | none => {} := by
  simp only [matchBlockedServices, settings_protection, settings_services]
  rfl

/-- the checkers after the rule engines, in the spec's words -/
theorem checkAfterRules_eq (e : Engines) (c : Conf) (H : Bytes) :
    checkAfterRules e H (settings c) =
      if !protectionOn c then {}
      else match (servicesInForce c).find? (fun sv => e.svc sv H) with
        | some sv => { reason := .blockedService, isFiltered := true, svcName := sv.name }
        | none =>
          if sbConfigured c && e.sb H then { reason := .safeBrowsing, isFiltered := true }
          else if parentalConfigured c && e.parental H then { reason := .parental, isFiltered := true }
          else {} := by
  unfold checkAfterRules
  rw [matchBlockedServices_eq]
  simp only [checkSafeBrowsing, checkParental, settings_protection, settings_safeBrowsing, settings_parental]
  cases hp : protectionOn c
  · simp
  · cases hs : (servicesInForce c).find? (fun sv => e.svc sv H) with
    | some sv => simp
    | none =>
      cases h1 : sbConfigured c <;> cases h2 : e.sb H <;> cases h3 : parentalConfigured c <;>
        cases h4 : e.parental H <;> simp

theorem dedupNames_nil_of_nil : dedupNames [] [] = [] := rfl

theorem dedupNames_length (l acc : List Bytes) : acc.length ≤ (dedupNames l acc).length := by
  induction l generalizing acc with
  | nil => simp [dedupNames]
  | cons n rest ih =>
    unfold dedupNames
    split
    · exact ih acc
    · have := ih (n :: acc); simp at this; omega

theorem dedupNames_isEmpty (l : List Bytes) : (dedupNames l []).isEmpty = l.isEmpty := by
  cases l with
  | nil => rfl
  | cons n rest =>
    have h : [n].length ≤ (dedupNames rest [n]).length := dedupNames_length rest [n]
    simp only [dedupNames, List.any_nil, List.isEmpty_cons]
    cases hd : dedupNames rest [n] with
    | nil => rw [hd] at h; simp at h
    | cons _ _ => rfl

theorem rewriteResult_notFiltered (e : Engines) (c : Conf) (h : Bytes) (t : Nat) :
    (rewriteResult e c h t).isFiltered = false := by
  unfold rewriteResult; dsimp only; split <;> rfl

theorem matchSysHosts_reason (e : Engines) (c : Conf) (h : Bytes) (t : Nat) (s : Setts) :
    (matchSysHosts e c h t s).reason = .notFound ∨ (matchSysHosts e c h t s).reason = .autoHosts := by
  unfold matchSysHosts
  repeat' (first | split | dsimp only)
  all_goals first | exact Or.inl rfl | exact Or.inr rfl

theorem matchSysHosts_notFiltered (e : Engines) (c : Conf) (h : Bytes) (t : Nat) (s : Setts) :
    (matchSysHosts e c h t s).isFiltered = false := by
  unfold matchSysHosts
  repeat' (first | split | dsimp only)
  all_goals rfl

theorem flatMap_names_nil (l : List HostsRec) (h : ∀ r ∈ l, r.names = []) : l.flatMap (·.names) = [] := by
  induction l with
  | nil => rfl
  | cons x xs ih =>
    simp only [List.flatMap_cons]
    rw [h x List.mem_cons_self, ih (fun r hr => h r (List.mem_cons_of_mem _ hr))]
    rfl

/-- the hosts container stays silent unless it knows the question -/
theorem matchSysHosts_silent (e : Engines) (c : Conf) (host : Bytes) (qtype : Nat) (s : Setts)
    (h : hostsKnows e c host qtype = false) : (matchSysHosts e c host qtype s).reason = .notFound := by
  unfold hostsKnows at h
  simp only [Bool.or_eq_false_iff, Bool.and_eq_false_iff] at h
  obtain ⟨h1, h2⟩ := h
  unfold matchSysHosts
  cases hf : s.filtering
  · simp
  · simp only [Bool.not_true, Bool.false_eq_true, if_false]
    by_cases hq : qtype = tA ∨ qtype = tAAAA
    · rw [if_pos hq]
      have hany : c.hosts.any (fun r => r.names.any (fun n => lower n == host)) = false := by
        rcases h1 with h1 | h1
        · rcases hq with hq | hq <;> simp [hq, tA, tAAAA] at h1
        · exact h1
      have hfl : c.hosts.filter (fun r => r.names.any (fun n => lower n == host)) = [] := by
        apply List.filter_eq_nil_iff.mpr
        intro r hr
        have := List.any_eq_false.mp hany r hr
        simpa using this
      simp [hostsByName, hfl, dedupIPs]
    · rw [if_neg hq]
      by_cases hp : qtype = tPTR
      · rw [if_pos hp]
        cases ha : e.arpa host with
        | none => rfl
        | some a =>
          have hany : c.hosts.any (fun r => r.addr.same a && !r.names.isEmpty) = false := by
            rcases h2 with h2 | h2
            · simp [hp] at h2
            · simpa [ha] using h2
          have hnil : ((c.hosts.filter (fun r => r.addr.same a)).flatMap (·.names)) = [] := by
            apply flatMap_names_nil
            intro r hr
            obtain ⟨hmem, hsame⟩ := List.mem_filter.mp hr
            have := List.any_eq_false.mp hany r hmem
            simp [hsame] at this
            exact this
          simp [hostsByAddr, hnil, dedupNames]
      · rw [if_neg hp]

/-- When nothing precedes the rule engines, `CheckHost` is the rule check
followed by the later checkers. -/
theorem checkHost_noPre (e : Engines) (c : Conf) (q : Query) (hpre : precededByOther e c q = false)
    (hh : trimDot q.name ≠ []) :
    checkHost e c (trimDot q.name) q.qtype (settings c) =
      match matchHost e (qhost q) q.qtype (settings c) with
      | .error f => .error f
      | .ok r => if r.reason ≠ .notFound then .ok r else .ok (checkAfterRules e (qhost q) (settings c)) := by
  have hq : (qhost q != []) = true := by
    unfold qhost; simp [lower_eq_nil, hh]
  unfold precededByOther at hpre
  simp only [hq, Bool.and_true, Bool.and_eq_false_iff, Bool.or_eq_false_iff] at hpre
  unfold checkHost
  simp only [hh, if_false]
  have hqh : lower (trimDot q.name) = qhost q := rfl
  rw [hqh, settings_filtering]
  cases hf : filteringOn c
  · have hs : (matchSysHosts e c (qhost q) q.qtype (settings c)).reason = .notFound := by
      unfold matchSysHosts; simp [settings_filtering, hf]
    simp [hs]
    rfl
  · rcases hpre with hpre | ⟨hlr, hhk⟩
    · simp [hf] at hpre
    · have hs := matchSysHosts_silent e c (qhost q) q.qtype (settings c) hhk
      have hrw : (rewriteResult e c (qhost q) q.qtype).reason ≠ .rewritten := by
        unfold rewriteResult
        unfold legacyRewritten at hlr
        simp [hlr]
      simp [hrw, hs]
      rfl

/-- The classification of the request-stage check, in the spec's words (no
rewrite and no hosts entry in front). -/
theorem checkHost_spec (e : Engines) (hwf : EnginesWF e) (c : Conf) (q : Query)
    (hpre : precededByOther e c q = false) :
    ∃ res, checkHost e c (trimDot q.name) q.qtype (settings c) = .ok res ∧
      (blockedByRules e c q = true →
        res.isFiltered = true ∧ (res.reason = .blockList ∨ res.reason = .blockedService) ∧
        res.ips = hostRuleIPs e c (qhost q) q.qtype q.qtype) ∧
      (blockedByRules e c q = false → serviceMayBlock e c q = true →
        res.isFiltered = true ∧ res.reason = .blockedService ∧ res.ips = []) ∧
      (blockedByRules e c q = false → serviceMayBlock e c q = false → otherBlocks e c q = false →
        res.isFiltered = false ∧ (res.reason = .notFound ∨ res.reason = .allowList) ∧
        ((res.reason == .allowList) = (protectionOn c && filteringOn c && allowedName e c (qhost q) q.qtype))) ∧
      (blockedByRules e c q = false → serviceMayBlock e c q = false → otherBlocks e c q = true →
        res.isFiltered = true ∧ (res.reason = .safeBrowsing ∨ res.reason = .parental)) := by
  by_cases hh : trimDot q.name = []
  · -- the root name: nothing is checked
    have hq : qhost q = [] := by unfold qhost; rw [hh]; rfl
    refine ⟨{}, by simp [checkHost, hh], ?_, ?_, ?_, ?_⟩
    · simp [blockedByRules, hq]
    · simp [serviceMayBlock, hq]
    · intro _ _ _
      have h1 := hwf.allow_empty (reqFor c [] q.qtype) rfl
      have h2 := hwf.block_empty (reqFor c [] q.qtype) rfl
      simp [allowedName, hq, h1, h2]
    · simp [otherBlocks, hq]
  · have hq : (qhost q != []) = true := by
      unfold qhost; simp [lower_eq_nil, hh]
    rw [checkHost_noPre e c q hpre hh, checkAfterRules_eq]
    cases hp : protectionOn c
    · -- protection off: nothing is blocked
      have hoff : (protectionOn c && filteringOn c) = false := by simp [hp]
      rw [matchHost_off e c _ _ hoff]
      refine ⟨{}, by simp, ?_, ?_, ?_, ?_⟩ <;> simp [blockedByRules, serviceMayBlock, otherBlocks, hp]
    · cases hf : filteringOn c
      · -- filtering off for this client: only services and the other checkers can block
        have hoff : (protectionOn c && filteringOn c) = false := by simp [hf]
        rw [matchHost_off e c _ _ hoff]
        simp only [Bool.not_true]
        cases hs : (servicesInForce c).find? (fun sv => e.svc sv (qhost q)) with
        | none =>
          cases hsb : (sbConfigured c && e.sb (qhost q))
          · cases hpa : (parentalConfigured c && e.parental (qhost q))
            · refine ⟨{}, by simp [hsb, hpa], ?_, ?_, ?_, ?_⟩ <;>
                simp [blockedByRules, serviceMayBlock, otherBlocks, hp, hf, hq, any_eq_find, hs, hsb, hpa]
            · refine ⟨{ reason := .parental, isFiltered := true }, by simp [hsb, hpa], ?_, ?_, ?_, ?_⟩ <;>
                simp [blockedByRules, serviceMayBlock, otherBlocks, hp, hf, hq, any_eq_find, hs, hsb, hpa]
          · refine ⟨{ reason := .safeBrowsing, isFiltered := true }, by simp [hsb], ?_, ?_, ?_, ?_⟩ <;>
              simp [blockedByRules, serviceMayBlock, otherBlocks, hp, hf, hq, any_eq_find, hs, hsb]
        | some sv =>
          refine ⟨{ reason := .blockedService, isFiltered := true, svcName := sv.name }, by simp, ?_, ?_, ?_, ?_⟩ <;>
            simp [blockedByRules, serviceMayBlock, hp, hf, hq, any_eq_find, hs]
      · obtain ⟨r, hr, hfilt, hallow, hblk, hnot⟩ := matchHost_on e hwf c (qhost q) q.qtype hp hf
        rw [hr]
        simp only [Bool.not_true]
        cases hrf : r.isFiltered
        · -- not blocked by the lists
          have hnb : ruleBlockedName e c (qhost q) q.qtype = false := by rw [← hfilt, hrf]
          obtain ⟨hreason, _⟩ := hnot hrf
          rcases hreason with hnf | hal
          · -- no match at all: the later checkers decide
            have hna : allowedName e c (qhost q) q.qtype = false := by rw [← hallow, hnf]; rfl
            simp only [hnf]
            cases hs : (servicesInForce c).find? (fun sv => e.svc sv (qhost q)) with
            | none =>
              cases hsb : (sbConfigured c && e.sb (qhost q))
              · cases hpa : (parentalConfigured c && e.parental (qhost q))
                · refine ⟨{}, by simp [hsb, hpa], ?_, ?_, ?_, ?_⟩ <;>
                    simp [blockedByRules, serviceMayBlock, otherBlocks, serviceBlockedName, hp, hf, hq, hnb, hna,
                      any_eq_find, hs, hsb, hpa]
                · refine ⟨{ reason := .parental, isFiltered := true }, by simp [hsb, hpa], ?_, ?_, ?_, ?_⟩ <;>
                    simp [blockedByRules, serviceMayBlock, otherBlocks, serviceBlockedName, hp, hf, hq, hnb, hna,
                      any_eq_find, hs, hsb, hpa]
              · refine ⟨{ reason := .safeBrowsing, isFiltered := true }, by simp [hsb], ?_, ?_, ?_, ?_⟩ <;>
                  simp [blockedByRules, serviceMayBlock, otherBlocks, serviceBlockedName, hp, hf, hq, hnb, hna,
                    any_eq_find, hs, hsb]
            | some sv =>
              refine ⟨{ reason := .blockedService, isFiltered := true, svcName := sv.name }, by simp, ?_, ?_, ?_, ?_⟩
              · intro _
                refine ⟨rfl, Or.inr rfl, ?_⟩
                -- no hosts-style line matched, so there are no rule addresses
                simp only [ruleBlockedName, hna, Bool.not_false, Bool.true_and] at hnb
                simp only [allowedName, Bool.or_eq_false_iff] at hna
                unfold hostRuleIPs
                cases hb : e.block (reqFor c (qhost q) q.qtype) with
                | none => rfl
                | some rb =>
                  cases rb with
                  | net wl => rfl
                  | hosts v4 v6 =>
                    have := hwf.block_hosts _ _ _ hb
                    simp [hb] at hnb
                    simp_all
              · simp [blockedByRules, serviceBlockedName, hp, hf, hq, hnb, hna, any_eq_find, hs, hpre]
              · simp [blockedByRules, serviceBlockedName, hp, hf, hq, hnb, hna, any_eq_find, hs, hpre]
              · simp [blockedByRules, serviceBlockedName, hp, hf, hq, hnb, hna, any_eq_find, hs, hpre]
          · -- allowed
            have hya : allowedName e c (qhost q) q.qtype = true := by rw [← hallow, hal]; rfl
            refine ⟨r, by simp [hal], ?_, ?_, ?_, ?_⟩
            · simp [blockedByRules, serviceBlockedName, hp, hf, hq, hnb, hya]
            · simp [serviceMayBlock, hf]
            · intro _ _ _
              refine ⟨hrf, Or.inr hal, ?_⟩
              simp [hal, hp, hf, hya]
            · simp [otherBlocks, hf, hya]
        · -- blocked by the lists
          have hyb : ruleBlockedName e c (qhost q) q.qtype = true := by rw [← hfilt, hrf]
          obtain ⟨hreason, hips, _⟩ := hblk hrf
          refine ⟨r, by simp [hreason], ?_, ?_, ?_, ?_⟩
          · intro _; exact ⟨hrf, Or.inl hreason, hips⟩
          · simp [blockedByRules, hp, hf, hq, hyb, hpre]
          · simp [blockedByRules, hp, hf, hq, hyb, hpre]
          · simp [blockedByRules, hp, hf, hq, hyb, hpre]

end AGH.Filter
