/-
C13, independence from partial runs: every step gives, on the re-read
document, a result that is read back equal to the result on the document in
memory (`Sim`), provided Go-typed values sit only where `inv` allows them.
-/
import AGH.Lemmas.MigrateErase
namespace AGH.C13
open AGH

theorem stamp_obj (n : Nat) (es) : stamp n (.obj es) = .ok (.obj (insert kSchemaVersion (.int n) es)) := rfl

theorem stamp_er_obj (o : Oracles) (n : Nat) (es) :
    stamp n (er o (.obj es)) = .ok (er o (.obj (insert kSchemaVersion (.int n) es))) := by
  simp [stamp, setK, erEnts_insert]

theorem mem_insert {e : Key × YVal} {k : Key} {v : YVal} {es : List (Key × YVal)} (he : e ∈ insert k v es) :
    e = (k, v) ∨ e ∈ es := by
  induction es with
  | nil => simp [insert] at he; exact Or.inl he
  | cons e' es ih =>
    obtain ⟨k', v'⟩ := e'
    by_cases hk : k' = k
    · simp [insert, hk] at he; rcases he with h | h
      · exact Or.inl h
      · exact Or.inr (by simp [h])
    · simp [insert, hk] at he; rcases he with h | h
      · exact Or.inr (by simp [h])
      · rcases ih h with h | h
        · exact Or.inl h
        · exact Or.inr (by simp [h])

theorem mem_erase {e : Key × YVal} {k : Key} {es : List (Key × YVal)} (he : e ∈ erase k es) : e ∈ es := by
  induction es with
  | nil => simp [erase] at he
  | cons e' es ih =>
    obtain ⟨k', v'⟩ := e'
    by_cases hk : k' = k
    · simp [erase, hk] at he; simp [ih he]
    · simp [erase, hk] at he; rcases he with h | h
      · simp [h]
      · simp [ih h]

theorem inv_insert {o : Oracles} {es} {k : Key} {v : YVal} (h : inv o (.obj es) = true)
    (hv : subOK o (exc k) v = true) : inv o (.obj (insert k v es)) = true := by
  simp only [inv, List.all_eq_true] at h ⊢
  intro e he
  rcases mem_insert he with rfl | h'
  · exact hv
  · exact h e h'

theorem inv_stamp {o : Oracles} {es} (h : inv o (.obj es) = true) (i : Int) :
    inv o (.obj (insert kSchemaVersion (.int i) es)) = true :=
  inv_insert h (by simp [subOK, clean])

/-- What a top-level read hands out outside the special sections is clean. -/
theorem er_fv_top {o : Oracles} {D : YVal} (hD : inv o D = true) (T : Ty) {k : Key} (hk : exc k = []) :
    er o (fieldVal T D k).v = (fieldVal T D k).v := by
  apply er_of_clean
  have := fv_sub hD T k
  rwa [hk, subOK_nil] at this

theorem top_read {o : Oracles} {D : YVal} (hD : inv o D = true) {k : Key} (hk : exc k = []) :
    ∀ c, getK D k = some c → clean o c = true := by
  intro c hg
  have := inv_sub hD hg
  rwa [hk, subOK_nil] at this

theorem sub_read {o : Oracles} {D : YVal} (hD : inv o D = true) (T : Ty) (k : Key) {k2 : Key} (hk : k2 ∉ exc k) :
    ∀ c, getK (fieldVal T D k).v k2 = some c → clean o c = true :=
  fun _ hg => sub_kid (fv_sub hD T k) hk hg

theorem er_fv_sub {o : Oracles} {D : YVal} (hD : inv o D = true) (T : Ty) (k : Key) {k2 : Key} (hk : k2 ∉ exc k)
    (T2 : Ty) : er o (fieldVal T2 (fieldVal T D k).v k2).v = (fieldVal T2 (fieldVal T D k).v k2).v :=
  er_of_clean _ _ (fv_kid (fv_sub hD T k) hk T2)

theorem fieldVal_insert_ne (T : Ty) (k k' : Key) (v : YVal) (es) (h : k ≠ k') :
    fieldVal T (.obj (insert k v es)) k' = fieldVal T (.obj es) k' := by
  simp [fieldVal, getK, lookup_insert_ne _ _ _ _ h]

theorem fieldVal_putK_ne (T : Ty) (m : YVal) (k k' : Key) (v : YVal) (h : k ≠ k') :
    fieldVal T (putK m k v) k' = fieldVal T m k' := by
  simp [fieldVal, getK_putK_ne _ _ _ _ h]

theorem setK_er_obj (o : Oracles) (es) (k : Key) (v : YVal) :
    setK (er o (.obj es)) k v = .ok (putK (er o (.obj es)) k v) := by
  simp [setK, putK]

theorem setK_obj_putK (es) (k : Key) (v : YVal) : setK (.obj es) k v = .ok (putK (.obj es) k v) := rfl

theorem fieldVal_delK_ne (T : Ty) (m : YVal) (k k' : Key) (h : k ≠ k') :
    fieldVal T (delK m k) k' = fieldVal T m k' := by
  simp [fieldVal, getK_delK_ne _ _ _ h]

theorem isEmptyObj_erEnts (o : Oracles) (es) : isEmptyObj (.obj (erEnts o es)) = isEmptyObj (.obj es) := by
  rw [← er_obj, isEmptyObj_er]

macro "sim_simp" : tactic => `(tactic| (
  simp (config := {decide := true}) [Sim, typeErr, bail, setK, delK, putK, erEnts_insert, erEnts_erase, er_idem,
    erEnts_idem, erList_idem, intOf, bytesOf, boolOf, isEmptyObj_erEnts, isEmptyObj, zeroOf,
    v14Runtime, v14Clients, v15Qlog, v16Stats, safeSearchDefault, scheduleDefault, v25Pprof] at *))

macro "sim_pre" : tactic => `(tactic| (
  simp (config := {decide := true}) [typeErr, bail, setK, delK, putK, intOf, bytesOf, boolOf, isEmptyObj_erEnts, isEmptyObj, zeroOf,
    v14Runtime, v14Clients, v15Qlog, v16Stats, safeSearchDefault, scheduleDefault, v25Pprof]))

macro "sim_fin" : tactic => `(tactic| (
  (try sim_pre) <;> (repeat' split) <;> (try sim_simp) <;> (try rfl) <;> (try (simp_all (config := {decide := true}))) <;>
  (try ((repeat' split) <;> (first | rfl | simp_all (config := {decide := true}))))))

macro "sim_open" : tactic => `(tactic| (
  simp only [migrateTo1, migrateTo2, migrateTo3, migrateTo5, migrateTo8, migrateTo9, migrateTo11, migrateTo12,
    migrateTo13, migrateTo14, migrateTo16, migrateTo17, migrateTo18, migrateTo20, migrateTo21, migrateTo23,
    migrateTo25, migrateTo28, stamp_obj, stamp_er_obj, moveVal, moveSelf]))

/-- Rewrite the reads of the re-read document into the re-read results of the reads;
the arguments are the conditional rewrites (string and sequence reads) of the step. -/
macro "sim_rw" "[" ls:Lean.Parser.Tactic.simpLemma,* "]" : tactic => `(tactic| (
  simp (config := {decide := true}) only [setK_er_obj, setK_obj_putK, fieldVal_putK_ne, fieldVal_delK_ne, ne_eq,
    not_false_eq_true, fieldVal_er_obj, fieldVal_er_int, fieldVal_er_bool, fieldVal_er_any,
    FV.er_v, FV.er_ok, FV.er_err, $ls,*]))

macro "sim_go" "[" ls:Lean.Parser.Tactic.simpLemma,* "]" : tactic => `(tactic| (
  (repeat' ((try sim_rw [$ls,*]) <;> fv_split)) <;> (try sim_rw [$ls,*]) <;> sim_fin))

theorem step1_sim (o : Oracles) (es) (h : inv o (.obj es) = true) :
    Sim o (migrateTo1 (.obj es)) (migrateTo1 (er o (.obj es))) := by
  sim_open
  sim_go []

theorem step2_sim (o : Oracles) (es) (h : inv o (.obj es) = true) :
    Sim o (migrateTo2 (.obj es)) (migrateTo2 (er o (.obj es))) := by
  sim_open
  sim_go []

theorem step3_sim (o : Oracles) (es) (h : inv o (.obj es) = true) :
    Sim o (migrateTo3 (.obj es)) (migrateTo3 (er o (.obj es))) := by
  sim_open
  sim_go []

theorem step5_sim (o : Oracles) (es) (h : inv o (.obj es) = true) :
    Sim o (migrateTo5 (.obj es)) (migrateTo5 (er o (.obj es))) := by
  have hD := inv_stamp h ((5 : Nat) : Int)
  sim_open
  sim_go [fieldVal_er_clean o .str _ kAuthName (top_read hD (by decide)),
    fieldVal_er_clean o .str _ kAuthPass (top_read hD (by decide))]

theorem step8_sim (o : Oracles) (es) (h : inv o (.obj es) = true) :
    Sim o (migrateTo8 (.obj es)) (migrateTo8 (er o (.obj es))) := by
  have hD := inv_stamp h ((8 : Nat) : Int)
  sim_open
  sim_go [fieldVal_er_clean o .str _ kBindHost (sub_read hD .obj kDns (by decide))]

theorem step9_sim (o : Oracles) (es) (h : inv o (.obj es) = true) :
    Sim o (migrateTo9 (.obj es)) (migrateTo9 (er o (.obj es))) := by
  have hD := inv_stamp h ((9 : Nat) : Int)
  sim_open
  sim_go [fieldVal_er_clean o .str _ kAutohostTld (sub_read hD .obj kDns (by decide))]

theorem step11_sim (o : Oracles) (es) (h : inv o (.obj es) = true) :
    Sim o (migrateTo11 (.obj es)) (migrateTo11 (er o (.obj es))) := by
  sim_open
  sim_go []

theorem step12_sim (o : Oracles) (es) (h : inv o (.obj es) = true) :
    Sim o (migrateTo12 (.obj es)) (migrateTo12 (er o (.obj es))) := by
  sim_open
  sim_go []

theorem step13_sim (o : Oracles) (es) (h : inv o (.obj es) = true) :
    Sim o (migrateTo13 (.obj es)) (migrateTo13 (er o (.obj es))) := by
  have hD := inv_stamp h ((13 : Nat) : Int)
  sim_open
  sim_go [fieldVal_er_clean o .str _ kLocalDomainName (sub_read hD .obj kDns (by decide))]

theorem step14_sim (o : Oracles) (es) (h : inv o (.obj es) = true) :
    Sim o (migrateTo14 (.obj es)) (migrateTo14 (er o (.obj es))) := by
  have hD := inv_stamp h ((14 : Nat) : Int)
  sim_open
  sim_go [fieldVal_er_clean o .arr _ kClients (top_read hD (by decide))]

theorem step16_sim (o : Oracles) (es) (h : inv o (.obj es) = true) :
    Sim o (migrateTo16 (.obj es)) (migrateTo16 (er o (.obj es))) := by
  sim_open
  sim_go []

theorem step17_sim (o : Oracles) (es) (h : inv o (.obj es) = true) :
    Sim o (migrateTo17 (.obj es)) (migrateTo17 (er o (.obj es))) := by
  sim_open
  sim_go []

theorem step18_sim (o : Oracles) (es) (h : inv o (.obj es) = true) :
    Sim o (migrateTo18 (.obj es)) (migrateTo18 (er o (.obj es))) := by
  sim_open
  sim_go []

theorem step20_sim (o : Oracles) (es) (h : inv o (.obj es) = true) :
    Sim o (migrateTo20 (.obj es)) (migrateTo20 (er o (.obj es))) := by
  sim_open
  sim_go []

theorem step21_sim (o : Oracles) (es) (h : inv o (.obj es) = true) :
    Sim o (migrateTo21 (.obj es)) (migrateTo21 (er o (.obj es))) := by
  have hD := inv_stamp h ((21 : Nat) : Int)
  sim_open
  sim_go [fieldVal_er_clean o .arr _ kBlockedServices (sub_read hD .obj kDns (by decide))]

theorem step23_sim (o : Oracles) (es) (h : inv o (.obj es) = true) :
    Sim o (migrateTo23 o (.obj es)) (migrateTo23 o (er o (.obj es))) := by
  have hD := inv_stamp h ((23 : Nat) : Int)
  sim_open
  sim_go [fieldVal_er_clean o .str _ kBindHost (top_read hD (by decide))]

theorem step25_sim (o : Oracles) (es) (h : inv o (.obj es) = true) :
    Sim o (migrateTo25 (.obj es)) (migrateTo25 (er o (.obj es))) := by
  sim_open
  sim_go []

theorem step28_sim (o : Oracles) (es) (h : inv o (.obj es) = true) :
    Sim o (migrateTo28 (.obj es)) (migrateTo28 (er o (.obj es))) := by
  sim_open
  sim_go []

/-! ### `errors.Join(moveVal…)` on the re-read document -/

def erT (o : Oracles) (t : YVal × YVal × Bool) : YVal × YVal × Bool := (er o t.1, er o t.2.1, t.2.2)

theorem setK_er (o : Oracles) (m : YVal) (k : Key) (v : YVal) :
    setK (er o m) k (er o v) = (setK m k v).map (er o) := by
  cases m <;> simp [setK, Except.map, erEnts_insert]

theorem moveVal_er (o : Oracles) (T : Ty) (src dst : YVal) (sk dk : Key)
    (h : T = .str ∨ T = .arr → ∀ c, getK src sk = some c → clean o c = true) :
    moveVal T (er o src) (er o dst) sk dk = (moveVal T src dst sk dk).map (erT o) := by
  unfold moveVal
  rw [fieldVal_er o T src sk (fun hT c hc => isTypedLeaf_of_clean o c (h hT c hc))]
  simp only [FV.er_ok, FV.er_v, FV.er_err, setK_er]
  cases hok : (fieldVal T src sk).ok
  · simp [Except.map, erT]
  · cases hs : setK dst dk (fieldVal T src sk).v <;> simp [Except.map, erT, er_delK]

theorem lookup_erase_some {k k' : Key} {c : YVal} : ∀ {es : List (Key × YVal)},
    lookup k' (erase k es) = some c → lookup k' es = some c
  | [], h => by simp [erase, lookup] at h
  | (k'', v) :: es, h => by
    by_cases hk : k'' = k
    · simp only [erase, hk, if_true] at h
      have ih := lookup_erase_some h
      by_cases hk' : k = k'
      · subst hk'
        exfalso
        clear ih
        induction es with
        | nil => simp [erase, lookup] at h
        | cons e es ih2 =>
          obtain ⟨a, b⟩ := e
          by_cases ha : a = k <;> simp [erase, lookup, ha] at h <;> exact ih2 h
      · simp [lookup, hk, hk', ih]
    · simp only [erase, hk, if_false, lookup] at h ⊢
      by_cases hk' : k'' = k'
      · simpa [hk'] using h
      · simp only [hk', if_false] at h ⊢
        exact lookup_erase_some h

theorem getK_delK_some {m : YVal} {k k' : Key} {c : YVal} (h : getK (delK m k) k' = some c) : getK m k' = some c := by
  cases m <;> simp [delK, getK] at h ⊢
  exact lookup_erase_some h

/-- Does the move read a string or a sequence? -/
def strOrArr (T : Ty) : Bool := T == .str || T == .arr

theorem moves_er (o : Oracles) : ∀ (ms : List (Ty × Key × Key)) (src dst : YVal),
    (∀ m ∈ ms, strOrArr m.1 = true → ∀ c, getK src m.2.1 = some c → clean o c = true) →
    moves ms (er o src) (er o dst) = (moves ms src dst).map (erT o)
  | [], src, dst, _ => by simp [moves, Except.map, erT]
  | (T, sk, dk) :: rest, src, dst, h => by
    unfold moves
    rw [moveVal_er o T src dst sk dk (fun hT c hc => h (T, sk, dk) (by simp)
      (by rcases hT with rfl | rfl <;> simp [strOrArr]) c hc)]
    cases hm : moveVal T src dst sk dk with
    | error f => simp [Except.map]
    | ok t =>
      obtain ⟨s, d, e⟩ := t
      have hs : ∀ m ∈ rest, strOrArr m.1 = true → ∀ c, getK s m.2.1 = some c → clean o c = true := by
        intro m hm' hT c hc
        apply h m (by simp [hm']) hT c
        -- `s` is `src` or `src` without `sk`
        unfold moveVal at hm
        dsimp only at hm
        split at hm
        · split at hm
          · simp at hm; rw [← hm.1] at hc; exact getK_delK_some hc
          · simp at hm
        · simp at hm; rw [← hm.1] at hc; exact hc
      simp only [Except.map, erT]
      rw [moves_er o rest s d hs]
      cases moves rest s d with
      | error f => simp [Except.map]
      | ok t' => obtain ⟨s', d', e'⟩ := t'; simp [Except.map, erT]

/-- The same with a destination that is read back as itself (a literal). -/
theorem moves_er' (o : Oracles) (ms : List (Ty × Key × Key)) (src dst : YVal) (hd : er o dst = dst)
    (h : ∀ m ∈ ms, strOrArr m.1 = true → ∀ c, getK src m.2.1 = some c → clean o c = true) :
    moves ms (er o src) dst = (moves ms src dst).map (erT o) := by
  have := moves_er o ms src dst h
  rwa [hd] at this

/-- The condition of `moves_er` from the invariant of the section the moves read. -/
theorem moves_cond {o : Oracles} {ex : List Key} {src : YVal} (hs : subOK o ex src = true)
    (ms : List (Ty × Key × Key)) (hk : ∀ m ∈ ms, strOrArr m.1 = true → m.2.1 ∉ ex) :
    ∀ m ∈ ms, strOrArr m.1 = true → ∀ c, getK src m.2.1 = some c → clean o c = true :=
  fun m hm hT _ hc => sub_kid hs (hk m hm hT) hc

theorem step7_sim (o : Oracles) (es) (h : inv o (.obj es) = true) :
    Sim o (migrateTo7 (.obj es)) (migrateTo7 (er o (.obj es))) := by
  have hD := inv_stamp h ((7 : Nat) : Int)
  have hk := fv_sub hD .obj kDhcp
  simp only [migrateTo7, stamp_obj, stamp_er_obj]
  sim_rw [moves_er' o v7Moves _ (.obj []) (by simp) (moves_cond hk v7Moves (by decide))]
  fv_split
  · rename_i w
    obtain ⟨s', d', e, hm, _, ho⟩ := moves_spec v7Moves (.obj w) []
    obtain ⟨ss, rfl⟩ := (ho trivial).elim
    simp only [hm, Except.map, erT]
    sim_fin
  · sim_fin
  · sim_fin

theorem moves_cond_top {o : Oracles} {D : YVal} (hD : inv o D = true)
    (ms : List (Ty × Key × Key)) (hk : ∀ m ∈ ms, strOrArr m.1 = true → exc m.2.1 = []) :
    ∀ m ∈ ms, strOrArr m.1 = true → ∀ c, getK D m.2.1 = some c → clean o c = true :=
  fun m hm hT c hc => top_read hD (hk m hm hT) c hc

theorem step15_sim (o : Oracles) (es) (h : inv o (.obj es) = true) :
    Sim o (migrateTo15 (.obj es)) (migrateTo15 (er o (.obj es))) := by
  have hD := inv_stamp h ((15 : Nat) : Int)
  have hk := fv_sub hD .obj kDns
  simp only [migrateTo15, stamp_obj, stamp_er_obj]
  sim_rw [moves_er' o v15Moves _ v15Qlog (by simp [v15Qlog]) (moves_cond hk v15Moves (by decide))]
  fv_split
  · rename_i w
    obtain ⟨s', d', e, hm, _, ho⟩ := moves_spec v15Moves (.obj w)
      [(kIgnored, .arr []), (kEnabled, .bool true), (kFileEnabled, .bool true),
        (kInterval, .str s2160h), (kSizeMemory, .int 1000)]
    obtain ⟨ss, rfl⟩ := (ho trivial).elim
    simp only [v15Qlog] at *
    simp only [hm, Except.map, erT]
    sim_fin
  · sim_fin
  · sim_fin

theorem step24_sim (o : Oracles) (es) (h : inv o (.obj es) = true) :
    Sim o (migrateTo24 (.obj es)) (migrateTo24 (er o (.obj es))) := by
  have hD := inv_stamp h ((24 : Nat) : Int)
  simp only [migrateTo24, stamp_obj, stamp_er_obj]
  sim_rw [moves_er' o v24Moves _ (.obj []) (by simp) (moves_cond_top hD v24Moves (by decide))]
  obtain ⟨s', d', e, hm, _, ho⟩ := moves_spec v24Moves (.obj (insert kSchemaVersion (.int ((24 : Nat) : Int)) es)) []
  obtain ⟨ss, rfl⟩ := (ho trivial).elim
  simp only [hm, Except.map, erT]
  cases d' <;> sim_fin

theorem step26_sim (o : Oracles) (es) (h : inv o (.obj es) = true) :
    Sim o (migrateTo26 (.obj es)) (migrateTo26 (er o (.obj es))) := by
  have hD := inv_stamp h ((26 : Nat) : Int)
  have hk := fv_sub hD .obj kDns
  simp only [migrateTo26, stamp_obj, stamp_er_obj]
  sim_rw [moves_er' o v26Moves _ (.obj []) (by simp) (moves_cond hk v26Moves (by decide))]
  fv_split
  · rename_i w
    obtain ⟨s', d', e, hm, _, ho⟩ := moves_spec v26Moves (.obj w) []
    obtain ⟨ss, rfl⟩ := (ho trivial).elim
    simp only [hm, Except.map, erT]
    cases d' <;> sim_fin
  · sim_fin
  · sim_fin

/-! ### steps that loop over a clean sequence: the re-read side runs the same loop -/

theorem getK_er_top {o : Oracles} {D : YVal} (hD : inv o D = true) {k : Key} (hk : exc k = []) :
    getK (er o D) k = getK D k := by
  rw [getK_er]
  cases hg : getK D k with
  | none => rfl
  | some c => simp [er_of_clean o c (top_read hD hk c hg)]

theorem step4_sim (o : Oracles) (es) (h : inv o (.obj es) = true) :
    Sim o (migrateTo4 (.obj es)) (migrateTo4 (er o (.obj es))) := by
  have hD := inv_stamp h ((4 : Nat) : Int)
  simp only [migrateTo4, stamp_obj, stamp_er_obj, getK_er_top hD (k := kClients) (by decide)]
  split
  · rename_i xs _
    cases hm : mapM' v4Client xs <;> sim_fin
  · sim_fin

theorem step6_sim (o : Oracles) (es) (h : inv o (.obj es) = true) :
    Sim o (migrateTo6 (.obj es)) (migrateTo6 (er o (.obj es))) := by
  have hD := inv_stamp h ((6 : Nat) : Int)
  simp only [migrateTo6, stamp_obj, stamp_er_obj]
  sim_rw [fieldVal_er_clean o .arr _ kClients (top_read hD (by decide)), er_fv_top hD .arr (k := kClients) (by decide)]
  fv_split
  · rename_i xs
    cases xs with
    | nil => sim_fin
    | cons x xs => cases hm : mapM' v6Client (x :: xs) <;> sim_fin
  · sim_fin
  · sim_fin

theorem step19_sim (o : Oracles) (es) (h : inv o (.obj es) = true) :
    Sim o (migrateTo19 (.obj es)) (migrateTo19 (er o (.obj es))) := by
  have hD := inv_stamp h ((19 : Nat) : Int)
  simp only [migrateTo19, stamp_obj, stamp_er_obj]
  sim_rw [er_fv_top hD .obj (k := kClients) (by decide)]
  fv_split
  · split
    · rename_i xs _
      cases hm : mapM' v19Client xs <;> sim_fin
    · sim_fin
  · sim_fin
  · sim_fin

theorem step22_sim (o : Oracles) (es) (h : inv o (.obj es) = true) :
    Sim o (migrateTo22 (.obj es)) (migrateTo22 (er o (.obj es))) := by
  have hD := inv_stamp h ((22 : Nat) : Int)
  simp only [migrateTo22, stamp_obj, stamp_er_obj]
  sim_rw [er_fv_top hD .obj (k := kClients) (by decide)]
  fv_split
  · fv_split
    · rename_i xs
      cases xs with
      | nil => sim_fin
      | cons x xs => cases hm : mapM' v22Client (x :: xs) <;> sim_fin
    · sim_fin
    · sim_fin
  · sim_fin
  · sim_fin

theorem step29_sim (o : Oracles) (es) (h : inv o (.obj es) = true) :
    Sim o (migrateTo29 o (.obj es)) (migrateTo29 o (er o (.obj es))) := by
  have hD := inv_stamp h ((29 : Nat) : Int)
  simp only [migrateTo29, stamp_obj, stamp_er_obj]
  sim_rw [fieldVal_er_clean o .arr _ kFilters (top_read hD (by decide)), er_fv_top hD .arr (k := kFilters) (by decide)]
  fv_split
  · rename_i xs
    cases hp : v29Paths xs with
    | error e => sim_fin
    | ok ps => dsimp only; fv_split <;> sim_fin
  · sim_fin
  · sim_fin

/-! ### v10 and v27: two blocks in sequence, each exact on the re-read document -/

theorem v10Ups_clean (o : Oracles) : ∀ (xs ys : List YVal), mapM' (v10Ups o) xs = .ok ys → cleanList o ys = true
  | [], ys, h => by simp [mapM'] at h; subst h; rfl
  | x :: xs, ys, h => by
    unfold mapM' at h
    cases hx : v10Ups o x with
    | error e => simp [hx] at h
    | ok y =>
      cases hxs : mapM' (v10Ups o) xs with
      | error e => simp [hx, hxs] at h
      | ok ys' =>
        simp [hx, hxs] at h; subst h
        have hy : clean o y = true := by
          unfold v10Ups at hx
          cases x <;> simp [typeErr] at hx
          split at hx <;> simp at hx
          subst hx; rfl
        simp [cleanList, hy, v10Ups_clean o xs ys' hxs]

theorem v10Field_er {o : Oracles} {ex : List Key} {w : List (Key × YVal)} (hk : subOK o ex (.obj w) = true)
    {k : Key} (hx : k ∉ ex) :
    v10Field o (er o (.obj w)) k = (v10Field o (.obj w) k).map (er o) := by
  have hc := fv_kid hk hx .arr
  unfold v10Field
  simp only [fieldVal_er_clean o .arr _ k (fun c hg => sub_kid hk hx hg), FV.er_v, FV.er_ok, FV.er_err,
    er_of_clean o _ hc]
  fv_split
  · rename_i xs
    cases hm : mapM' (v10Ups o) xs with
    | error e => simp [Except.map]
    | ok ys =>
      have := erList_of_clean o ys (v10Ups_clean o xs ys hm)
      simp [Except.map, setK, erEnts_insert, this]
  · simp [Except.map]
  · simp [Except.map, typeErr]

/-- A block of v10 keeps the section a map with Go-typed values only where they were. -/
theorem v10Field_sub {o : Oracles} {ex : List Key} {w : List (Key × YVal)} (hk : subOK o ex (.obj w) = true)
    {k : Key} (hx : k ∉ ex) {d : YVal} (h : v10Field o (.obj w) k = .ok d) :
    ∃ w', d = .obj w' ∧ subOK o ex (.obj w') = true := by
  unfold v10Field at h
  dsimp only at h
  split at h
  · simp [typeErr] at h
  · split at h
    · split at h
      · rename_i xs _
        cases hm : mapM' (v10Ups o) xs with
        | error e => simp [hm] at h
        | ok ys =>
          simp [hm, setK] at h
          refine ⟨_, h.symm, ?_⟩
          simp only [subOK, List.all_eq_true] at hk ⊢
          intro e he
          rcases mem_insert he with rfl | he'
          · simp [hx, clean, v10Ups_clean o xs ys hm]
          · exact hk e he'
      · simp at h
    · simp at h; exact ⟨w, h.symm, hk⟩

theorem step10_sim (o : Oracles) (es) (h : inv o (.obj es) = true) :
    Sim o (migrateTo10 o (.obj es)) (migrateTo10 o (er o (.obj es))) := by
  have hD := inv_stamp h ((10 : Nat) : Int)
  have hk := fv_sub hD .obj kDns
  simp only [migrateTo10, stamp_obj, stamp_er_obj]
  sim_rw []
  fv_split
  · rename_i w
    rw [v10Field_er hk (by decide)]
    cases h1 : v10Field o (.obj w) kUpstreamDns with
    | error e => simp [Except.map, Sim]
    | ok d1 =>
      obtain ⟨w1, rfl, hk1⟩ := v10Field_sub hk (by decide) h1
      simp only [Except.map]
      rw [v10Field_er hk1 (by decide)]
      cases h2 : v10Field o (.obj w1) kLocalPtrUpstreams with
      | error e => simp [Except.map, Sim]
      | ok d2 => simp [Except.map, Sim, er_putK, er_idem, erEnts_idem]
  · sim_fin
  · sim_fin

theorem getK_er_kid {o : Oracles} {ex : List Key} {m : YVal} (hk : subOK o ex m = true) {k : Key} (hx : k ∉ ex) :
    getK (er o m) k = getK m k := by
  rw [getK_er]
  cases hg : getK m k with
  | none => rfl
  | some c => simp [er_of_clean o c (sub_kid hk hx hg)]

theorem clean_v27Host (o : Oracles) (x : YVal) (h : clean o x = true) : clean o (v27Host x) = true := by
  unfold v27Host
  cases x <;> simp_all
  split <;> simp [clean]

theorem cleanList_v27Host (o : Oracles) : ∀ xs, cleanList o xs = true → cleanList o (xs.map v27Host) = true
  | [], _ => rfl
  | x :: xs, h => by
    simp [cleanList] at h ⊢
    exact ⟨clean_v27Host o x h.1, cleanList_v27Host o xs h.2⟩

theorem subOK_insert {o : Oracles} {ex : List Key} {ws : List (Key × YVal)} {k : Key} {v : YVal}
    (h : subOK o ex (.obj ws) = true) (hv : (if k ∈ ex then excOK o v else clean o v) = true) :
    subOK o ex (.obj (insert k v ws)) = true := by
  simp only [subOK, List.all_eq_true] at h ⊢
  intro e he
  rcases mem_insert he with rfl | he'
  · exact hv
  · exact h e he'

theorem subOK_erase {o : Oracles} {ex : List Key} {ws : List (Key × YVal)} {k : Key}
    (h : subOK o ex (.obj ws) = true) : subOK o ex (.obj (erase k ws)) = true := by
  simp only [subOK, List.all_eq_true] at h ⊢
  exact fun e he => h e (mem_erase he)

theorem replaceDot_er {o : Oracles} {es : List (Key × YVal)} (hD : inv o (.obj es) = true) (key : Key)
    (hx : kIgnored ∉ exc key) :
    replaceDot (er o (.obj es)) key = (replaceDot (.obj es) key).map (er o) := by
  have hk := fv_sub hD .obj key
  unfold replaceDot
  simp only [fieldVal_er_obj, FV.er_v, FV.er_ok, FV.er_err,
    fieldVal_er_clean o .arr _ kIgnored (fun c hg => sub_kid hk hx hg), getK_er_kid hk hx]
  fv_split
  · rename_i w
    fv_split
    · split
      · rename_i xs hg
        have hc : clean o (.arr xs) = true := sub_kid hk hx hg
        simp only [clean] at hc
        simp [Except.map, er_putK, erList_of_clean o _ (cleanList_v27Host o xs hc)]
      · simp [Except.map]
    · simp [Except.map]
    · simp [Except.map, typeErr]
  · simp [Except.map]
  · simp [Except.map, typeErr]

theorem replaceDot_inv {o : Oracles} {es : List (Key × YVal)} (hD : inv o (.obj es) = true) (key : Key)
    (hx : kIgnored ∉ exc key) {d : YVal} (h : replaceDot (.obj es) key = .ok d) :
    ∃ es', d = .obj es' ∧ inv o (.obj es') = true := by
  have hk := fv_sub hD .obj key
  unfold replaceDot at h
  dsimp only at h
  revert h
  fv_split
  · rename_i w
    fv_split
    · split
      · rename_i xs hg
        intro h
        have hc : clean o (.arr xs) = true := sub_kid hk hx hg
        simp only [clean] at hc
        simp [putK] at h
        refine ⟨_, h.symm, inv_insert hD (subOK_insert hk ?_)⟩
        simp [hx, clean, cleanList_v27Host o xs hc]
      · intro h; simp at h; exact ⟨es, h.symm, hD⟩
    · intro h; simp at h; exact ⟨es, h.symm, hD⟩
    · intro h; simp [typeErr] at h
  · intro h; simp at h; exact ⟨es, h.symm, hD⟩
  · intro h; simp [typeErr] at h

theorem step27_sim (o : Oracles) (es) (h : inv o (.obj es) = true) :
    Sim o (migrateTo27 (.obj es)) (migrateTo27 (er o (.obj es))) := by
  have hD := inv_stamp h ((27 : Nat) : Int)
  simp only [migrateTo27, stamp_obj, stamp_er_obj]
  rw [replaceDot_er hD kQuerylog (by decide)]
  cases h1 : replaceDot (.obj (insert kSchemaVersion (.int ((27 : Nat) : Int)) es)) kQuerylog with
  | error e => simp [Except.map, Sim]
  | ok d1 =>
    obtain ⟨es1, rfl, hD1⟩ := replaceDot_inv hD kQuerylog (by decide) h1
    simp only [Except.map]
    rw [replaceDot_er hD1 kStatistics (by decide)]
    cases h2 : replaceDot (.obj es1) kStatistics with
    | error e => simp [Except.map, Sim]
    | ok d2 => simp [Except.map, Sim, er_idem]

end AGH.C13
