/-
C13, independence from partial runs: every step gives, on the re-read
document, a result that is read back equal to the result on the document in
memory (`Sim`), provided Go-typed values sit only where `inv` allows them.
-/
import AGH.Lemmas.MigrateErase
namespace AGH.C13
open AGH

theorem stamp_obj (n : Nat) (es) : stamp n (.obj es) = .ok (.obj (insert kSchemaVersion (.int n) es)) := rfl

theorem stamp_er_obj (o : Oracles) (n : Nat) (es) :
    stamp n (er o (.obj es)) = .ok (er o (.obj (insert kSchemaVersion (.int n) es))) := by
  simp [stamp, setK, erEnts_insert]

theorem mem_insert {e : Key × YVal} {k : Key} {v : YVal} {es : List (Key × YVal)} (he : e ∈ insert k v es) :
    e = (k, v) ∨ e ∈ es := by
  induction es with
  | nil => simp [insert] at he; exact Or.inl he
  | cons e' es ih =>
    obtain ⟨k', v'⟩ := e'
    by_cases hk : k' = k
    · simp [insert, hk] at he; rcases he with h | h
      · exact Or.inl h
      · exact Or.inr (by simp [h])
    · simp [insert, hk] at he; rcases he with h | h
      · exact Or.inr (by simp [h])
      · rcases ih h with h | h
        · exact Or.inl h
        · exact Or.inr (by simp [h])

theorem mem_erase {e : Key × YVal} {k : Key} {es : List (Key × YVal)} (he : e ∈ erase k es) : e ∈ es := by
  induction es with
  | nil => simp [erase] at he
  | cons e' es ih =>
    obtain ⟨k', v'⟩ := e'
    by_cases hk : k' = k
    · simp [erase, hk] at he; simp [ih he]
    · simp [erase, hk] at he; rcases he with h | h
      · simp [h]
      · simp [ih h]

theorem inv_insert {o : Oracles} {es} {k : Key} {v : YVal} (h : inv o (.obj es) = true)
    (hv : subOK o (exc k) v = true) : inv o (.obj (insert k v es)) = true := by
  simp only [inv, List.all_eq_true] at h ⊢
  intro e he
  rcases mem_insert he with rfl | h'
  · exact hv
  · exact h e h'

theorem inv_stamp {o : Oracles} {es} (h : inv o (.obj es) = true) (i : Int) :
    inv o (.obj (insert kSchemaVersion (.int i) es)) = true :=
  inv_insert h (by simp [subOK, clean])

/-- What a top-level read hands out outside the special sections is clean. -/
theorem er_fv_top {o : Oracles} {D : YVal} (hD : inv o D = true) (T : Ty) {k : Key} (hk : exc k = []) :
    er o (fieldVal T D k).v = (fieldVal T D k).v := by
  apply er_of_clean
  have := fv_sub hD T k
  rwa [hk, subOK_nil] at this

theorem top_read {o : Oracles} {D : YVal} (hD : inv o D = true) {k : Key} (hk : exc k = []) :
    ∀ c, getK D k = some c → clean o c = true := by
  intro c hg
  have := inv_sub hD hg
  rwa [hk, subOK_nil] at this

theorem sub_read {o : Oracles} {D : YVal} (hD : inv o D = true) (T : Ty) (k : Key) {k2 : Key} (hk : k2 ∉ exc k) :
    ∀ c, getK (fieldVal T D k).v k2 = some c → clean o c = true :=
  fun _ hg => sub_kid (fv_sub hD T k) hk hg

theorem er_fv_sub {o : Oracles} {D : YVal} (hD : inv o D = true) (T : Ty) (k : Key) {k2 : Key} (hk : k2 ∉ exc k)
    (T2 : Ty) : er o (fieldVal T2 (fieldVal T D k).v k2).v = (fieldVal T2 (fieldVal T D k).v k2).v :=
  er_of_clean _ _ (fv_kid (fv_sub hD T k) hk T2)

theorem fieldVal_insert_ne (T : Ty) (k k' : Key) (v : YVal) (es) (h : k ≠ k') :
    fieldVal T (.obj (insert k v es)) k' = fieldVal T (.obj es) k' := by
  simp [fieldVal, getK, lookup_insert_ne _ _ _ _ h]

theorem fieldVal_putK_ne (T : Ty) (m : YVal) (k k' : Key) (v : YVal) (h : k ≠ k') :
    fieldVal T (putK m k v) k' = fieldVal T m k' := by
  simp [fieldVal, getK_putK_ne _ _ _ _ h]

theorem setK_er_obj (o : Oracles) (es) (k : Key) (v : YVal) :
    setK (er o (.obj es)) k v = .ok (putK (er o (.obj es)) k v) := by
  simp [setK, putK]

theorem setK_obj_putK (es) (k : Key) (v : YVal) : setK (.obj es) k v = .ok (putK (.obj es) k v) := rfl

theorem fieldVal_delK_ne (T : Ty) (m : YVal) (k k' : Key) (h : k ≠ k') :
    fieldVal T (delK m k) k' = fieldVal T m k' := by
  simp [fieldVal, getK_delK_ne _ _ _ h]

macro "sim_simp" : tactic => `(tactic| (
  simp (config := {decide := true}) [Sim, typeErr, bail, setK, delK, putK, erEnts_insert, erEnts_erase, er_idem,
    erEnts_idem, erList_idem, intOf, bytesOf, boolOf, isEmptyObj, zeroOf,
    v14Runtime, v14Clients, v15Qlog, v16Stats, safeSearchDefault, scheduleDefault, v25Pprof] at *))

macro "sim_fin" : tactic => `(tactic| (
  (try sim_simp) <;> (repeat' split) <;> (try sim_simp) <;> (try (simp_all (config := {decide := true})))))

macro "sim_open" : tactic => `(tactic| (
  simp only [migrateTo1, migrateTo2, migrateTo3, migrateTo5, migrateTo8, migrateTo9, migrateTo11, migrateTo12,
    migrateTo13, migrateTo14, migrateTo16, migrateTo17, migrateTo18, migrateTo20, migrateTo21, migrateTo23,
    migrateTo25, migrateTo28, stamp_obj, stamp_er_obj, moveVal, moveSelf]))

/-- Rewrite the reads of the re-read document into the re-read results of the reads. -/
macro "sim_rw" : tactic => `(tactic| (
  simp (config := {decide := true}) only [setK_er_obj, setK_obj_putK, fieldVal_putK_ne, fieldVal_delK_ne, ne_eq,
    not_false_eq_true, fieldVal_er_obj, fieldVal_er_int, fieldVal_er_bool, fieldVal_er_any,
    FV.er_v, FV.er_ok, FV.er_err, *]))

macro "sim_go" : tactic => `(tactic| (
  (repeat' ((try sim_rw) <;> fv_split)) <;> (try sim_rw) <;> sim_fin))

theorem step1_sim (o : Oracles) (es) (h : inv o (.obj es) = true) :
    Sim o (migrateTo1 (.obj es)) (migrateTo1 (er o (.obj es))) := by
  sim_open
  sim_go

theorem step2_sim (o : Oracles) (es) (h : inv o (.obj es) = true) :
    Sim o (migrateTo2 (.obj es)) (migrateTo2 (er o (.obj es))) := by
  sim_open
  sim_go

theorem step3_sim (o : Oracles) (es) (h : inv o (.obj es) = true) :
    Sim o (migrateTo3 (.obj es)) (migrateTo3 (er o (.obj es))) := by
  sim_open
  sim_go

theorem step5_sim (o : Oracles) (es) (h : inv o (.obj es) = true) :
    Sim o (migrateTo5 (.obj es)) (migrateTo5 (er o (.obj es))) := by
  have hD := inv_stamp h ((5 : Nat) : Int)
  have r0 := fieldVal_er_clean o .str _ kAuthName (top_read hD (by decide))
  have r1 := fieldVal_er_clean o .str _ kAuthPass (top_read hD (by decide))
  sim_open
  sim_go

theorem step8_sim (o : Oracles) (es) (h : inv o (.obj es) = true) :
    Sim o (migrateTo8 (.obj es)) (migrateTo8 (er o (.obj es))) := by
  have hD := inv_stamp h ((8 : Nat) : Int)
  have r0 := fieldVal_er_clean o .str _ kBindHost (sub_read hD .obj kDns (by decide))
  sim_open
  sim_go

theorem step9_sim (o : Oracles) (es) (h : inv o (.obj es) = true) :
    Sim o (migrateTo9 (.obj es)) (migrateTo9 (er o (.obj es))) := by
  have hD := inv_stamp h ((9 : Nat) : Int)
  have r0 := fieldVal_er_clean o .str _ kAutohostTld (sub_read hD .obj kDns (by decide))
  sim_open
  sim_go

theorem step11_sim (o : Oracles) (es) (h : inv o (.obj es) = true) :
    Sim o (migrateTo11 (.obj es)) (migrateTo11 (er o (.obj es))) := by
  sim_open
  sim_go

theorem step12_sim (o : Oracles) (es) (h : inv o (.obj es) = true) :
    Sim o (migrateTo12 (.obj es)) (migrateTo12 (er o (.obj es))) := by
  sim_open
  sim_go

theorem step13_sim (o : Oracles) (es) (h : inv o (.obj es) = true) :
    Sim o (migrateTo13 (.obj es)) (migrateTo13 (er o (.obj es))) := by
  have hD := inv_stamp h ((13 : Nat) : Int)
  have r0 := fieldVal_er_clean o .str _ kLocalDomainName (sub_read hD .obj kDns (by decide))
  sim_open
  sim_go

theorem step14_sim (o : Oracles) (es) (h : inv o (.obj es) = true) :
    Sim o (migrateTo14 (.obj es)) (migrateTo14 (er o (.obj es))) := by
  have hD := inv_stamp h ((14 : Nat) : Int)
  have r0 := fieldVal_er_clean o .arr _ kClients (top_read hD (by decide))
  sim_open
  sim_go

theorem step16_sim (o : Oracles) (es) (h : inv o (.obj es) = true) :
    Sim o (migrateTo16 (.obj es)) (migrateTo16 (er o (.obj es))) := by
  sim_open
  sim_go

theorem step17_sim (o : Oracles) (es) (h : inv o (.obj es) = true) :
    Sim o (migrateTo17 (.obj es)) (migrateTo17 (er o (.obj es))) := by
  sim_open
  sim_go

theorem step18_sim (o : Oracles) (es) (h : inv o (.obj es) = true) :
    Sim o (migrateTo18 (.obj es)) (migrateTo18 (er o (.obj es))) := by
  sim_open
  sim_go

theorem step20_sim (o : Oracles) (es) (h : inv o (.obj es) = true) :
    Sim o (migrateTo20 (.obj es)) (migrateTo20 (er o (.obj es))) := by
  sim_open
  sim_go

theorem step21_sim (o : Oracles) (es) (h : inv o (.obj es) = true) :
    Sim o (migrateTo21 (.obj es)) (migrateTo21 (er o (.obj es))) := by
  have hD := inv_stamp h ((21 : Nat) : Int)
  have r0 := fieldVal_er_clean o .arr _ kBlockedServices (sub_read hD .obj kDns (by decide))
  sim_open
  sim_go

theorem step23_sim (o : Oracles) (es) (h : inv o (.obj es) = true) :
    Sim o (migrateTo23 o (.obj es)) (migrateTo23 o (er o (.obj es))) := by
  have hD := inv_stamp h ((23 : Nat) : Int)
  have r0 := fieldVal_er_clean o .str _ kBindHost (top_read hD (by decide))
  sim_open
  sim_go

theorem step25_sim (o : Oracles) (es) (h : inv o (.obj es) = true) :
    Sim o (migrateTo25 (.obj es)) (migrateTo25 (er o (.obj es))) := by
  sim_open
  sim_go

theorem step28_sim (o : Oracles) (es) (h : inv o (.obj es) = true) :
    Sim o (migrateTo28 (.obj es)) (migrateTo28 (er o (.obj es))) := by
  sim_open
  sim_go

end AGH.C13
