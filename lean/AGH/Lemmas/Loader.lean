/-
C13 loader acceptance: lemmas about the `UniqChecker` model and `addPorts`.
-/
import AGH.Spec.Loader
namespace AGH.C13L

theorem mem_insertSorted (x p : Nat) (l : List Nat) : x ∈ insertSorted p l ↔ x = p ∨ x ∈ l := by
  induction l with
  | nil => simp [insertSorted]
  | cons q qs ih =>
    unfold insertSorted
    split
    · simp
    · split
      · rename_i _ h; subst h; simp
      · simp [ih]; constructor
        · rintro (h | h | h) <;> simp [h]
        · rintro (h | h | h) <;> simp [h]

/-- every element is below everything in the list -/
def Below (p : Nat) (l : List Nat) : Prop := ∀ x ∈ l, p < x

theorem sorted_insertSorted (p : Nat) (l : List Nat) (h : l.Pairwise (· < ·)) :
    (insertSorted p l).Pairwise (· < ·) := by
  induction l with
  | nil => simp [insertSorted]
  | cons q qs ih =>
    have hq := List.pairwise_cons.1 h
    unfold insertSorted
    split
    · rename_i hpq
      refine List.pairwise_cons.2 ⟨fun x hx => ?_, h⟩
      simp at hx
      rcases hx with rfl | hx
      · exact hpq
      · exact Nat.lt_trans hpq (hq.1 x hx)
    · split
      · exact h
      · rename_i h1 h2
        refine List.pairwise_cons.2 ⟨fun x hx => ?_, ih hq.2⟩
        rw [mem_insertSorted] at hx
        rcases hx with rfl | hx
        · omega
        · exact hq.1 x hx

theorem mem_sortAll (x : Nat) (l : List Nat) : x ∈ l.foldr insertSorted [] ↔ x ∈ l := by
  induction l with
  | nil => simp
  | cons q qs ih => simp [mem_insertSorted, ih]

theorem sorted_sortAll (l : List Nat) : (l.foldr insertSorted []).Pairwise (· < ·) := by
  induction l with
  | nil => simp
  | cons q qs ih => exact sorted_insertSorted q _ ih

/-- `Validate` reports exactly the elements added more than once … -/
theorem mem_ucDups (uc : UniqChecker) (p : Nat) : p ∈ ucDups uc ↔ 1 < uc.count p := by
  unfold ucDups
  rw [mem_sortAll, List.mem_filter]
  simp only [decide_eq_true_eq]
  constructor
  · exact fun h => h.2
  · intro h
    exact ⟨List.count_pos_iff.1 (by omega), h⟩

/-- … each once, in ascending order. -/
theorem sorted_ucDups (uc : UniqChecker) : (ucDups uc).Pairwise (· < ·) := sorted_sortAll _

/-- No error exactly when nothing was added twice. -/
theorem ucDups_nil_iff (uc : UniqChecker) : ucDups uc = [] ↔ uc.Nodup := by
  rw [List.nodup_iff_count]
  constructor
  · intro h a
    have hn : ¬ 1 < uc.count a := fun hc => by
      have := (mem_ucDups uc a).2 hc
      simp [h] at this
    omega
  · intro h
    apply List.eq_nil_iff_forall_not_mem.2
    intro a ha
    have := (mem_ucDups uc a).1 ha
    have := h a
    omega

/-- `addPorts` adds the non-zero ports, in order. -/
theorem addPorts_eq (uc : UniqChecker) (ps : List Nat) : addPorts uc ps = uc ++ ps.filter (· != 0) := by
  induction ps generalizing uc with
  | nil => simp [addPorts]
  | cons p ps ih =>
    unfold addPorts
    by_cases hp : p = 0
    · simp [hp, ih]
    · simp [hp, ih, ucAdd]

/-- What `validateConfig` registers for TCP is the ports of the active TCP listeners. -/
def tcpRegs (i : LoaderIn) : UniqChecker :=
  if i.tlsEnabled then addPorts (addPorts [] [i.httpPort]) [i.portHTTPS, i.portDoT, i.portDNSCrypt]
  else addPorts [] [i.httpPort]

def udpRegs (i : LoaderIn) : UniqChecker :=
  if i.tlsEnabled then addPorts (addPorts [] [i.dnsPort]) [i.portDoQ] else addPorts [] [i.dnsPort]

theorem tcpRegs_eq (i : LoaderIn) : tcpRegs i = activePorts (tcpListeners i) := by
  unfold tcpRegs activePorts tcpListeners
  cases i.tlsEnabled <;> simp [addPorts_eq, Listener.active, List.filter_cons] <;>
    (repeat' split) <;> simp_all

theorem udpRegs_eq (i : LoaderIn) : udpRegs i = activePorts (udpListeners i) := by
  unfold udpRegs activePorts udpListeners
  cases i.tlsEnabled <;> simp [addPorts_eq, Listener.active, List.filter_cons] <;>
    (repeat' split) <;> simp_all

theorem firstInvalid_none (bs : List Bool) (n : Nat) : firstInvalid bs n = none ↔ bs.all id = true := by
  induction bs generalizing n with
  | nil => simp [firstInvalid]
  | cons b bs ih => cases b <;> simp [firstInvalid, ih]

theorem validateConfig_eq (i : LoaderIn) : validateConfig i =
    (if !i.httpValid then .bindHTTP else
     match firstInvalid i.bindValid 0 with
     | some idx => .bindDNS idx
     | none =>
       if ucDups (tcpRegs i) ≠ [] then .tcpDup (ucDups (tcpRegs i))
       else if ucDups (udpRegs i) ≠ [] then .udpDup (ucDups (udpRegs i))
       else .ok) := by
  unfold validateConfig tcpRegs udpRegs
  cases i.tlsEnabled <;> rfl

/-- The stages before the port check went through. -/
def upToPorts (i : LoaderIn) : Prop :=
  i.migrated = true ∧ i.unmarshalled = true ∧ i.httpValid = true ∧ i.bindValid.all id = true

theorem parseConfig_eq (i : LoaderIn) (h : upToPorts i) : parseConfig i =
    (if ucDups (tcpRegs i) ≠ [] then .tcpDup (ucDups (tcpRegs i))
     else if ucDups (udpRegs i) ≠ [] then .udpDup (ucDups (udpRegs i))
     else if i.ciphersOK then .ok else .ciphers) := by
  obtain ⟨h1, h2, h3, h4⟩ := h
  have hf := (firstInvalid_none i.bindValid 0).2 h4
  unfold parseConfig
  rw [validateConfig_eq]
  simp only [h1, h2, h3, hf, Bool.not_true, Bool.false_eq_true, if_false]
  by_cases ht : ucDups (tcpRegs i) = []
  · by_cases hu : ucDups (udpRegs i) = []
    · cases i.ciphersOK <;> simp [ht, hu]
    · simp [ht, hu]
  · simp [ht]


end AGH.C13L
