/-
C12: the model simulates the spec monitor — one step, then whole histories.
-/
import AGH.Lemmas.AuthThrottle
import AGH.Lemmas.AuthSession
namespace AGH.C12

def Sim (st : St) (sp : Spec) (now : Nat) : Prop := SimThr st sp now ∧ SimSess st sp now

theorem sim_init (ma bm ttl now : Nat) : Sim (St.init ma bm ttl) (Spec.init ma bm ttl) now := by
  constructor
  · unfold SimThr St.init Spec.init
    by_cases h : ma > 0 ∧ bm > 0
    · simp only [h, and_self, if_true, decide_true, true_and]
      intro a
      simp [liveRec, FMap.empty, failsOf, specRec, stillCounts]
    · simp [h]
  · refine ⟨rfl, Nat.mod_lt _ (by decide), rfl, fun _ => rfl, fun _ _ => rfl, fun _ _ => rfl, ?_⟩
    intro t i hi
    simp [Spec.init, FMap.empty] at hi

theorem sim_advance {st : St} {sp : Spec} {now : Nat} (d : Nat) (h : Sim st sp now) : Sim st sp (now + d) :=
  ⟨simThr_advance d h.1, simSess_advance d h.2⟩

theorem simThr_of_exact {l : Limiter} {sp : Spec} {now : Nat} (hen : sp.enabled = true)
    (hmax : l.max = sp.max) (hbd : l.blockDur = sp.blockDur)
    (h : ∀ a, l.recs a = specRec sp now (failsOf sp a)) (st : St) (hst : st.rl = some l) :
    SimThr st sp now := by
  unfold SimThr
  rw [hst]
  exact ⟨hen, hmax, hbd, fun a => by rw [h a, liveRec_specRec]⟩

/-- Ghost counter: a login evaluates the password exactly when it is not
answered with 429. -/
theorem login_evals (st : St) (now addr : Nat) (good : Bool) (user : Nat) :
    (login st now addr good user).2.evals =
      match (login st now addr good user).1 with
      | .tooMany _ => st.evals
      | _ => st.evals + 1 := by
  unfold login
  cases st.rl with
  | none => simp only [evalLogin]; split <;> rfl
  | some l =>
    simp only
    split
    · rfl
    · simp only [evalLogin]; split <;> rfl

theorem login_none {st : St} (h : st.rl = none) (now addr : Nat) (good : Bool) (user : Nat) :
    login st now addr good user = evalLogin st none now addr good user := by
  unfold login; rw [h]

theorem login_blocked {st : St} {l : Limiter} (h : st.rl = some l) {now addr : Nat}
    (hl : (l.check addr now).1 > 0) (good : Bool) (user : Nat) :
    login st now addr good user =
      (.tooMany ((l.check addr now).1 / nsPerSec), { st with rl := some (l.check addr now).2 }) := by
  unfold login; rw [h]; simp only [hl, if_true]

theorem login_pass {st : St} {l : Limiter} (h : st.rl = some l) {now addr : Nat}
    (hl : ¬ (l.check addr now).1 > 0) (good : Bool) (user : Nat) :
    login st now addr good user = evalLogin st (some (l.check addr now).2) now addr good user := by
  unfold login; rw [h]; simp only [hl, if_false]

theorem evalLogin_good (st : St) (rl : Option Limiter) (now addr user : Nat) :
    evalLogin st rl now addr true user =
      (.ok st.nextTok,
       { st with
         rl := rl.map (fun x => x.remove addr),
         mem := st.mem.set st.nextTok ⟨user, (now32 now + st.ttl) % u32⟩,
         db := st.db.set st.nextTok ⟨user, (now32 now + st.ttl) % u32⟩,
         nextTok := st.nextTok + 1, evals := st.evals + 1 }) := rfl

theorem evalLogin_bad (st : St) (rl : Option Limiter) (now addr user : Nat) :
    evalLogin st rl now addr false user =
      (.forbidden, { st with rl := rl.map (fun x => x.inc addr now), evals := st.evals + 1 }) := rfl

theorem handleLogin_eq (st : St) (now : Nat) (r : Req) (good : Bool) (user : Nat) :
    handleLogin st now r good user = login st now r.peer good user := rfl

theorem sim_login {st : St} {sp : Spec} {now : Nat} (h : Sim st sp now) (hw : noWrap sp now = true)
    (req : Req) (good : Bool) (user : Nat) :
    (specStep sp now (.login req good user) (.login (login st now req.peer good user).1)).1 = true ∧
    Sim (login st now req.peer good user).2
      (specStep sp now (.login req good user) (.login (login st now req.peer good user).1)).2 now := by
  obtain ⟨addr, hdr, tr⟩ := req
  show (specStep sp now (.login ⟨addr, hdr, tr⟩ good user) (.login (login st now addr good user).1)).1 = true ∧
    Sim (login st now addr good user).2
      (specStep sp now (.login ⟨addr, hdr, tr⟩ good user) (.login (login st now addr good user).1)).2 now
  obtain ⟨hthr, hsess⟩ := h
  have newTok : ∀ (r : Option Limiter) (f : FMap (List Nat)),
      SimSess { st with rl := r, mem := st.mem.set st.nextTok ⟨user, (now32 now + st.ttl) % u32⟩,
                        db := st.db.set st.nextTok ⟨user, (now32 now + st.ttl) % u32⟩,
                        nextTok := st.nextTok + 1, evals := st.evals + 1 }
        { sp with fails := f, toks := sp.toks.set st.nextTok ⟨nowS now, nowS now, false⟩,
                  issued := sp.issued + 1 } now :=
    fun r f => sess_newToken hsess hw user f rfl rfl rfl rfl
  cases hrl : st.rl with
  | none =>
    unfold SimThr at hthr
    rw [hrl] at hthr
    have hrej : mustReject sp addr now = false := by simp [mustReject, hthr]
    rw [login_none hrl]
    cases good with
    | true =>
      rw [evalLogin_good]
      simp only [specStep, attemptAddr, hrej]
      refine ⟨by simp [hsess.issued], ?_, newTok _ _⟩
      unfold SimThr; simp only [Option.map]; exact hthr
    | false =>
      rw [evalLogin_bad]
      simp only [specStep, attemptAddr, hrej]
      refine ⟨by simp, ?_, simSess_congr hsess rfl rfl rfl rfl rfl rfl rfl⟩
      unfold SimThr; simp only [Option.map]; exact hthr
  | some l =>
    unfold SimThr at hthr
    rw [hrl] at hthr
    obtain ⟨hen, hmax, hbd, hrecs⟩ := hthr
    obtain ⟨c1, c2, c3, c4⟩ := check_spec hen hmax hbd hrecs addr
    by_cases hleft : (l.check addr now).1 > 0
    · have hrej : mustReject sp addr now = true := by rw [← c4]; simp [hleft]
      rw [login_blocked hrl hleft]
      simp only [specStep, attemptAddr, hrej]
      exact ⟨by simp, simThr_of_exact hen c2 c3 c1 _ rfl, simSess_congr hsess rfl rfl rfl rfl rfl rfl rfl⟩
    · have hrej : mustReject sp addr now = false := by rw [← c4]; simp [hleft]
      rw [login_pass hrl hleft]
      cases good with
      | true =>
        rw [evalLogin_good]
        simp only [specStep, attemptAddr, hrej]
        refine ⟨by simp [hsess.issued], ?_, newTok _ _⟩
        refine simThr_of_exact (l := (l.check addr now).2.remove addr) ?_ ?_ ?_ ?_ _ rfl
        · exact hen
        · exact c2
        · exact c3
        · exact remove_spec c1 addr _ _
      | false =>
        rw [evalLogin_bad]
        simp only [specStep, attemptAddr, hrej]
        refine ⟨by simp, ?_, simSess_congr hsess rfl rfl rfl rfl rfl rfl rfl⟩
        refine simThr_of_exact (l := (l.check addr now).2.inc addr now) ?_ ?_ ?_ ?_ _ rfl
        · exact hen
        · exact c2
        · exact c3
        · exact inc_spec c2 c3 c1 addr

theorem basic_none {st : St} (h : st.rl = none) (now : Nat) (r : Req) (good : Bool) :
    basicAuthX true st now r good =
      ((if good then .passed else .forbidden), { st with evals := st.evals + 1 }) := by
  simp [basicAuthX, h]

theorem basic_blocked {st : St} {l : Limiter} (h : st.rl = some l) {now : Nat} {r : Req}
    (hl : (l.check r.peer now).1 > 0) (good : Bool) :
    basicAuthX true st now r good =
      (.tooMany ((l.check r.peer now).1 / nsPerSec), { st with rl := some (l.check r.peer now).2 }) := by
  have hl' : (l.check (checkAddr r) now).1 > 0 := hl
  simp only [basicAuthX, h, Bool.not_true, Bool.false_eq_true, if_false, hl', if_true]
  rfl

theorem basic_pass {st : St} {l : Limiter} (h : st.rl = some l) {now : Nat} {r : Req}
    (hl : ¬ (l.check r.peer now).1 > 0) (good : Bool) :
    basicAuthX true st now r good =
      if good then (.passed, { st with rl := some ((l.check r.peer now).2.remove r.peer), evals := st.evals + 1 })
      else (.forbidden, { st with rl := some ((l.check r.peer now).2.inc r.peer now), evals := st.evals + 1 }) := by
  have hl' : ¬ (l.check (checkAddr r) now).1 > 0 := hl
  simp only [basicAuthX, h, Bool.not_true, Bool.false_eq_true, if_false, hl']
  rfl

/-- HTTP Basic credentials (with the repair): same gate and bookkeeping. -/
theorem sim_basic {st : St} {sp : Spec} {now : Nat} (h : Sim st sp now) (req : Req) (good : Bool) :
    (specStep sp now (.basic req good) (.login (basicAuthX true st now req good).1)).1 = true ∧
    Sim (basicAuthX true st now req good).2
      (specStep sp now (.basic req good) (.login (basicAuthX true st now req good).1)).2 now := by
  obtain ⟨addr, hdr, tr⟩ := req
  obtain ⟨hthr, hsess⟩ := h
  cases hrl : st.rl with
  | none =>
    unfold SimThr at hthr
    rw [hrl] at hthr
    have hrej : mustReject sp addr now = false := by simp [mustReject, hthr]
    rw [basic_none hrl]
    cases good with
    | true =>
      simp only [if_true, specStep, attemptAddr, hrej]
      refine ⟨by simp, ?_, simSess_congr hsess rfl rfl rfl rfl rfl rfl rfl⟩
      unfold SimThr; rw [hrl]; exact hthr
    | false =>
      simp only [Bool.false_eq_true, if_false, specStep, attemptAddr, hrej]
      refine ⟨by simp, ?_, simSess_congr hsess rfl rfl rfl rfl rfl rfl rfl⟩
      unfold SimThr; rw [hrl]; exact hthr
  | some l =>
    unfold SimThr at hthr
    rw [hrl] at hthr
    obtain ⟨hen, hmax, hbd, hrecs⟩ := hthr
    obtain ⟨c1, c2, c3, c4⟩ := check_spec hen hmax hbd hrecs addr
    by_cases hleft : (l.check addr now).1 > 0
    · have hrej : mustReject sp addr now = true := by rw [← c4]; simp [hleft]
      rw [basic_blocked hrl hleft]
      simp only [specStep, attemptAddr, hrej]
      exact ⟨by simp, simThr_of_exact hen c2 c3 c1 _ rfl, simSess_congr hsess rfl rfl rfl rfl rfl rfl rfl⟩
    · have hrej : mustReject sp addr now = false := by rw [← c4]; simp [hleft]
      rw [basic_pass hrl hleft]
      cases good with
      | true =>
        simp only [if_true, specStep, attemptAddr, hrej]
        refine ⟨by simp, ?_, simSess_congr hsess rfl rfl rfl rfl rfl rfl rfl⟩
        refine simThr_of_exact (l := (l.check addr now).2.remove addr) ?_ ?_ ?_ ?_ _ rfl
        · exact hen
        · exact c2
        · exact c3
        · exact remove_spec c1 addr sp.toks sp.issued
      | false =>
        simp only [Bool.false_eq_true, if_false, specStep, attemptAddr, hrej]
        refine ⟨by simp, ?_, simSess_congr hsess rfl rfl rfl rfl rfl rfl rfl⟩
        refine simThr_of_exact (l := (l.check addr now).2.inc addr now) ?_ ?_ ?_ ?_ _ rfl
        · exact hen
        · exact c2
        · exact c3
        · exact inc_spec c2 c3 c1 addr

/-- **One step**: the model's observation is accepted by the monitor and the
simulation relation is kept. -/
theorem sim_step {st : St} {sp : Spec} {now : Nat} (h : Sim st sp now) (hw : noWrap sp now = true) (op : Op) :
    (specStep sp now op (step st now op).1).1 = true ∧
    Sim (step st now op).2 (specStep sp now op (step st now op).1).2 now := by
  cases op with
  | login req good user => exact sim_login h hw req good user
  | basic req good => exact sim_basic h req good
  | request tok =>
    obtain ⟨h1, h2⟩ := sess_request h.2 hw tok
    refine ⟨h1, ?_, h2⟩
    -- the limiter and the failure lists are untouched
    have hrl : (checkSession st now tok).2.rl = st.rl := by
      unfold checkSession
      cases st.mem tok with
      | none => rfl
      | some s =>
        simp only
        by_cases h1 : s.expire ≤ now32 now
        · simp only [h1, if_true]
        · simp only [h1, if_false]
          by_cases h2 : s.expire / daySec = (now32 now + st.ttl) % u32 / daySec
          · simp [h2]
          · simp [h2]
    have hsp : ∀ b, (specStep sp now (.request tok) (.auth b)).2.enabled = sp.enabled ∧
        (specStep sp now (.request tok) (.auth b)).2.max = sp.max ∧
        (specStep sp now (.request tok) (.auth b)).2.blockDur = sp.blockDur ∧
        (specStep sp now (.request tok) (.auth b)).2.fails = sp.fails := by
      intro b
      simp only [specStep]
      split
      · exact ⟨rfl, rfl, rfl, rfl⟩
      · split <;> exact ⟨rfl, rfl, rfl, rfl⟩
    have hthr := h.1
    simp only [step]
    unfold SimThr at hthr ⊢
    rw [hrl]
    obtain ⟨e1, e2, e3, e4⟩ := hsp ((checkSession st now tok).1 == .ok)
    cases hl : st.rl with
    | none => rw [hl] at hthr; simp only; rw [e1]; exact hthr
    | some l =>
      rw [hl] at hthr
      simp only
      refine ⟨by rw [e1]; exact hthr.1, by rw [e2]; exact hthr.2.1, by rw [e3]; exact hthr.2.2.1, ?_⟩
      intro a
      have := hthr.2.2.2 a
      simp only [specRec, stillCounts, untilOf, failsOf, e2, e3, e4] at this ⊢
      exact this
  | logout tok =>
    refine ⟨rfl, ?_, sess_logout h.2 tok⟩
    have hthr := h.1
    simp only [step, specStep]
    unfold SimThr at hthr ⊢
    cases hi : sp.toks tok with
    | none => exact hthr
    | some i =>
      simp only [logout]
      cases hl : st.rl with
      | none => rw [hl] at hthr; exact hthr
      | some l =>
        rw [hl] at hthr
        exact ⟨hthr.1, hthr.2.1, hthr.2.2.1, fun a => by
          have := hthr.2.2.2 a
          simp only [specRec, stillCounts, untilOf, failsOf] at this ⊢
          exact this⟩
  | restart =>
    refine ⟨rfl, ?_, sess_restart h.2 hw⟩
    have hthr := h.1
    simp only [step, specStep, restart]
    unfold SimThr at hthr ⊢
    cases hl : st.rl with
    | none => rw [hl] at hthr; exact hthr
    | some l =>
      rw [hl] at hthr
      simp only [Option.map]
      refine ⟨hthr.1, hthr.2.1, hthr.2.2.1, fun a => ?_⟩
      simp [liveRec, FMap.empty, failsOf, specRec, stillCounts]

theorem specStep_ttl (sp : Spec) (now : Nat) (o : Op) (obs : Obs) : (specStep sp now o obs).2.ttl = sp.ttl := by
  cases o with
  | login addr good user =>
    cases obs with
    | login r => simp only [specStep]; split <;> rfl
    | auth b => rfl
    | done => rfl
  | basic req good =>
    cases obs with
    | login r => simp only [specStep]; split <;> rfl
    | auth b => rfl
    | done => rfl
  | request tok =>
    cases obs with
    | login r => rfl
    | auth b =>
      simp only [specStep]
      split
      · rfl
      · split <;> rfl
    | done => rfl
  | logout tok =>
    cases obs with
    | login r => rfl
    | auth b => rfl
    | done => simp only [specStep]; split <;> rfl
  | restart =>
    cases obs <;> rfl

theorem noWrapAll_congr : ∀ (evs : List Ev) (now : Nat) (sp sp' : Spec), sp'.ttl = sp.ttl →
    noWrapAll sp now evs → noWrapAll sp' now evs := by
  intro evs
  induction evs with
  | nil => intros; trivial
  | cons e evs ih =>
    intro now sp sp' ht hn
    cases e with
    | advance d => exact ih _ _ _ ht hn
    | op o' => exact ⟨by simpa [noWrap, ht] using hn.1, ih _ _ _ ht hn.2⟩

/-- **Whole histories**: from related states, every observation of the model
is accepted by the monitor. -/
theorem allOK_of_sim : ∀ (evs : List Ev) (st : St) (sp : Spec) (now : Nat),
    Sim st sp now → noWrapAll sp now evs → allOK st sp now evs
  | [], _, _, _, _, _ => trivial
  | .advance d :: evs, st, sp, now, h, hw => allOK_of_sim evs st sp (now + d) (sim_advance d h) hw
  | .op o :: evs, st, sp, now, h, hw => by
    obtain ⟨hw1, hw2⟩ := hw
    obtain ⟨h1, h2⟩ := sim_step h hw1 o
    exact ⟨by simp [specOK, hw1, h1],
      allOK_of_sim evs _ _ now h2 (noWrapAll_congr evs now sp _ (specStep_ttl _ _ _ _) hw2)⟩

/-- Model and monitor run in lockstep over a history (the monitor is fed the
model's observations); result: final model state, monitor state, time. -/
def runLock : St → Spec → Nat → List Ev → St × Spec × Nat
  | st, sp, now, [] => (st, sp, now)
  | st, sp, now, .advance d :: evs => runLock st sp (now + d) evs
  | st, sp, now, .op o :: evs =>
    runLock (step st now o).2 (specStep sp now o (step st now o).1).2 now evs

theorem sim_runLock : ∀ (evs : List Ev) (st : St) (sp : Spec) (now : Nat),
    Sim st sp now → noWrapAll sp now evs →
    Sim (runLock st sp now evs).1 (runLock st sp now evs).2.1 (runLock st sp now evs).2.2
  | [], _, _, _, h, _ => h
  | .advance d :: evs, st, sp, now, h, hw => sim_runLock evs st sp (now + d) (sim_advance d h) hw
  | .op o :: evs, st, sp, now, h, hw =>
    sim_runLock evs _ _ now (sim_step h hw.1 o).2
      (noWrapAll_congr evs now sp _ (specStep_ttl _ _ _ _) hw.2)

theorem runLock_ttl : ∀ (evs : List Ev) (st : St) (sp : Spec) (now : Nat),
    (runLock st sp now evs).2.1.ttl = sp.ttl
  | [], _, _, _ => rfl
  | .advance d :: evs, st, sp, now => runLock_ttl evs st sp (now + d)
  | .op o :: evs, st, sp, now => by
    simp only [runLock]
    rw [runLock_ttl evs, specStep_ttl]

/-- a token the spec knows as logged out stays so along every history -/
theorem loggedOut_runLock (tok : Nat) : ∀ (evs : List Ev) (st : St) (sp : Spec) (now : Nat),
    Sim st sp now → noWrapAll sp now evs →
    (∃ i, sp.toks tok = some i ∧ i.loggedOut = true) →
    ∃ i, (runLock st sp now evs).2.1.toks tok = some i ∧ i.loggedOut = true
  | [], _, _, _, _, _, hl => hl
  | .advance d :: evs, st, sp, now, h, hw, hl => loggedOut_runLock tok evs st sp (now + d) (sim_advance d h) hw hl
  | .op o :: evs, st, sp, now, h, hw, hl => by
    refine loggedOut_runLock tok evs _ _ now (sim_step h hw.1 o).2
      (noWrapAll_congr evs now sp _ (specStep_ttl _ _ _ _) hw.2) ?_
    obtain ⟨i, hi, hlo⟩ := hl
    have hlt : tok < st.nextTok := by
      have := h.2.fresh tok
      rcases Nat.lt_or_ge tok st.nextTok with hlt | hge
      · exact hlt
      · rw [this hge] at hi; cases hi
    cases o with
    | login req good user =>
      simp only [step, specStep, handleLogin_eq]
      generalize req.peer = addr
      -- a new token, if any, is `st.nextTok ≠ tok`
      have hres : ∀ t, (login st now addr good user).1 = .ok t → t = st.nextTok := by
        intro t ht
        unfold login at ht
        cases hrl : st.rl with
        | none =>
          rw [hrl] at ht
          simp only [evalLogin] at ht
          split at ht
          · simp at ht; exact ht.symm
          · cases ht
        | some l =>
          rw [hrl] at ht
          simp only at ht
          split at ht
          · cases ht
          · simp only [evalLogin] at ht
            split at ht
            · simp at ht; exact ht.symm
            · cases ht
      cases hr : (login st now addr good user).1 with
      | tooMany r => exact ⟨i, hi, hlo⟩
      | forbidden => exact ⟨i, hi, hlo⟩
      | ok t =>
        have := hres t hr
        subst this
        refine ⟨i, ?_, hlo⟩
        simp only [FMap.set]
        have : tok ≠ st.nextTok := by omega
        simp [this, hi]
      | passed => exact ⟨i, hi, hlo⟩
    | basic req good =>
      simp only [step, specStep]
      split <;> exact ⟨i, hi, hlo⟩
    | request t =>
      simp only [step, specStep]
      cases ht : sp.toks t with
      | none => exact ⟨i, hi, hlo⟩
      | some i' =>
        simp only
        split
        · by_cases e : t = tok
          · subst e
            rw [hi] at ht; cases ht
            exact ⟨{ i with lastOK := nowS now }, by simp [FMap.set], hlo⟩
          · exact ⟨i, by simp [FMap.set, Ne.symm e, hi], hlo⟩
        · exact ⟨i, hi, hlo⟩
    | logout t =>
      simp only [step, specStep]
      cases ht : sp.toks t with
      | none => exact ⟨i, hi, hlo⟩
      | some i' =>
        simp only
        by_cases e : t = tok
        · subst e
          exact ⟨{ i' with loggedOut := true }, by simp [FMap.set], rfl⟩
        · exact ⟨i, by simp [FMap.set, Ne.symm e, hi], hlo⟩
    | restart => exact ⟨i, hi, hlo⟩

end AGH.C12
