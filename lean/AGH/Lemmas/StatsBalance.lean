/-
C09: every counted query is in exactly one result category — in every unit
the total equals the sum of the five categories, for every history.
-/
import AGH.Lemmas.StatsRead
namespace AGH.C09

/-- `NTotal = NResult[1] + … + NResult[5]` -/
def Bal (u : UnitDB) : Prop :=
  u.nTotal = u.nResult 1 + u.nResult 2 + u.nResult 3 + u.nResult 4 + u.nResult 5

def BalState (s : State) : Prop := Bal s.curr.serialize ∧ ∀ x ∈ s.db, Bal x.2

theorem bal_empty : Bal UnitDB.empty := by simp [Bal, UnitDB.empty]

theorem bal_newUnit (id : Nat) : Bal (newUnit id).serialize := by simp [Bal, newUnit, MemUnit.serialize]

theorem bal_update {s s' : State} {e : Entry} (h : BalState s) (hu : update s e = .ok s') : BalState s' := by
  unfold update at hu
  by_cases h1 : (!s.enabled || s.limit == 0) = true
  · simp only [h1, if_true, Except.ok.injEq] at hu; subst hu; exact h
  · by_cases hv : e.valid = true
    · by_cases hr : e.result < 0 ∨ e.result ≥ 6
      · simp [h1, hv, MemUnit.add, hr] at hu
      · simp only [h1, hv, MemUnit.add, hr, if_false, Bool.not_true, Bool.false_eq_true, Except.ok.injEq] at hu
        subst hu
        refine ⟨?_, h.2⟩
        have h0 : ¬ e.result = 0 := by
          intro h0; simp [Entry.valid, h0] at hv
        have hb := h.1
        simp only [Bal, MemUnit.serialize] at hb ⊢
        have hcases : e.result.toNat = 1 ∨ e.result.toNat = 2 ∨ e.result.toNat = 3 ∨ e.result.toNat = 4 ∨
            e.result.toNat = 5 := by omega
        rcases hcases with hc | hc | hc | hc | hc <;> simp [hc] <;> omega
    · have hv' : e.valid = false := by simpa using hv
      simp [h1, hv'] at hu
      subst hu; exact h

theorem bal_updateN {s : State} (e : Entry) (n : Nat) (h : BalState s) : BalState (updateN s e n).1 := by
  induction n generalizing s with
  | zero => exact h
  | succ n ih =>
    simp only [updateN]
    cases hu : update s e with
    | ok s' => simp only []; exact ih (bal_update h hu)
    | error f => simp only []; exact ih h

theorem bal_flush {s : State} (h : BalState s) : BalState (flush s) := by
  simp only [flush]
  by_cases hc : s.limitHours = 0 ∨ s.curr.id = s.clock
  · simp only [hc, if_true]; exact h
  · simp only [hc, if_false]
    refine ⟨bal_newUnit _, ?_⟩
    intro x hx
    rcases mem_put (mem_del hx) with hx | hx
    · rw [hx]; exact h.1
    · exact h.2 x hx

theorem bal_clear {s : State} : BalState (clear s) := ⟨bal_newUnit _, fun x hx => by simp [clear] at hx⟩

theorem bal_new {db : DB} {clock ms : Nat} {en : Bool} {s : State} (hdb : ∀ x ∈ db, Bal x.2)
    (hn : new db clock ms en = some s) : BalState s := by
  unfold new at hn
  split at hn
  · cases hn
  · simp only [Option.some.injEq] at hn
    subst hn
    refine ⟨?_, fun x hx => hdb x (mem_deleteOld hx)⟩
    cases hg : (deleteOldUnits (sub32 (sub32 clock (ms / msPerHour)) 1) db).get clock with
    | none => exact bal_newUnit _
    | some v =>
      have := hdb _ (mem_deleteOld (get_some_mem hg))
      simpa [MemUnit.deserialize, MemUnit.serialize, Bal] using this

theorem bal_step {s s' : State} (h : BalState s) (op : Op) (hs : step s op = some s') : BalState s' := by
  cases op with
  | upd e n => simp only [step, Option.some.injEq] at hs; subst hs; exact bal_updateN e n h
  | tick id =>
    simp only [step, Option.some.injEq] at hs; subst hs
    exact bal_flush (s := { s with clock := id }) h
  | advance h' =>
    simp only [step, Option.some.injEq] at hs; subst hs
    exact h
  | restart id l en =>
    simp only [step, restart] at hs
    refine bal_new ?_ hs
    intro x hx
    rcases mem_put hx with hx | hx
    · rw [hx]; exact h.1
    · exact h.2 x hx
  | setDays d =>
    simp only [step, Option.some.injEq] at hs; subst hs
    unfold setLimitDays
    split
    · exact h
    · split
      · exact h
      · exact bal_clear
  | putConf ms en =>
    simp only [step, Option.some.injEq] at hs; subst hs
    unfold putConf
    split <;> exact h
  | clear => simp only [step, Option.some.injEq] at hs; subst hs; exact bal_clear
  | read => simp only [step, Option.some.injEq] at hs; subst hs; exact h

theorem bal_run {s s' : State} (ops : List Op) (h : BalState s) (hs : runOps s ops = some s') : BalState s' := by
  induction ops generalizing s with
  | nil => simp only [runOps, Option.some.injEq] at hs; subst hs; exact h
  | cons op ops ih =>
    simp only [runOps] at hs
    cases h1 : step s op with
    | none => simp [h1] at hs
    | some s1 => simp only [h1] at hs; exact ih (bal_step h op h1) hs

theorem sum_bal (units : List UnitDB) (h : ∀ u ∈ units, Bal u) :
    sumBy (·.nTotal) units = sumBy (·.nResult 1) units + sumBy (·.nResult 2) units + sumBy (·.nResult 3) units +
      sumBy (·.nResult 4) units + sumBy (·.nResult 5) units := by
  induction units with
  | nil => simp [sumBy]
  | cons u us ih =>
    have h1 := ih (fun x hx => h x (List.mem_cons_of_mem _ hx))
    have h2 := h u (List.mem_cons_self ..)
    simp only [sumBy, List.map_cons, List.sum_cons, Bal] at h1 h2 ⊢
    omega

theorem bal_units {s : State} (h : BalState s) (L : Nat) :
    ∀ u ∈ storedUnits s L ++ [s.curr.serialize], Bal u := by
  intro u hu
  rcases List.mem_append.mp hu with hu | hu
  · simp only [storedUnits, List.mem_map] at hu
    obtain ⟨k, _, rfl⟩ := hu
    cases hg : s.db.get (add32 (add32 (sub32 s.curr.id L) 1) k) with
    | none => simpa using bal_empty
    | some v => simpa using h.2 _ (get_some_mem hg)
  · simp only [List.mem_singleton] at hu
    rw [hu]; exact h.1

end AGH.C09
