/-
Helper lemmas for C03 (access lists).  Core Lean only.
-/
import AGH.Spec.Access
namespace AGH.C03
open AGH AGH.Bytes

/-! ### prefix containment -/

theorem xor_eq_zero_iff (x y : Nat) : x ^^^ y = 0 ↔ x = y := by
  constructor
  · intro h
    apply Nat.eq_of_testBit_eq
    intro i
    have := congrArg (fun n => n.testBit i) h
    simp only [Nat.testBit_xor, Nat.zero_testBit] at this
    cases hx : x.testBit i <;> cases hy : y.testBit i <;> simp_all
  · rintro rfl
    exact Nat.xor_self x

/-- Go's "xor, shift, compare with zero" is "same network number". -/
theorem xor_shift_eq_zero_iff (x y k : Nat) :
    ((x ^^^ y) >>> k == 0) = (x / 2 ^ k == y / 2 ^ k) := by
  rw [Nat.shiftRight_xor_distrib, Nat.shiftRight_eq_div_pow, Nat.shiftRight_eq_div_pow]
  apply Bool.eq_iff_iff.mpr
  simp only [beq_iff_eq]
  exact xor_eq_zero_iff _ _

/-- `ipnet.Contains(ip.WithZone(""))` is the spec's CIDR membership. -/
theorem contains_withoutZone (p : Prefix) (ip : IP) :
    p.contains ip.withoutZone = inCIDR p ip := by
  cases ip with
  | invalid => rfl
  | v4 n => simp only [IP.withoutZone, Prefix.contains, inCIDR, xor_shift_eq_zero_iff]
  | v6 n z =>
    simp only [IP.withoutZone, Prefix.contains, inCIDR, xor_shift_eq_zero_iff, List.isEmpty_nil,
      Bool.true_and]

/-- Same network number = the two numbers agree on every bit above the host part. -/
theorem div_pow_eq_iff_bits (x y k : Nat) :
    x / 2 ^ k = y / 2 ^ k ↔ ∀ i, k ≤ i → x.testBit i = y.testBit i := by
  constructor
  · intro h i hi
    have := congrArg (fun n => n.testBit (i - k)) h
    simp only [Nat.testBit_div_two_pow] at this
    rwa [Nat.sub_add_cancel hi] at this
  · intro h
    apply Nat.eq_of_testBit_eq
    intro i
    simp only [Nat.testBit_div_two_pow]
    exact h (i + k) (Nat.le_add_left k i)

/-! ### what `processAccessClients` puts into the three containers -/

def ipsOf (es : List Entry) : List IP :=
  es.filterMap fun e => match e.parse with | .addr a => some a | _ => none

def netsOf (es : List Entry) : List Prefix :=
  es.filterMap fun e => match e.parse with | .pfx p => some p | _ => none

def idsOf (es : List Entry) : List Bytes :=
  es.filterMap fun e => match e.parse with | .none => some e.raw | _ => none

theorem processFrom_ok {i : Nat} {es : List Entry} {acc l : Lists}
    (h : processFrom i es acc = .ok l) :
    l.ips = acc.ips ++ ipsOf es ∧ l.nets = acc.nets ++ netsOf es ∧ l.ids = acc.ids ++ idsOf es := by
  induction es generalizing i acc with
  | nil =>
    simp only [processFrom, Except.ok.injEq] at h
    subst h
    simp [ipsOf, netsOf, idsOf]
  | cons e rest ih =>
    unfold processFrom at h
    cases hp : e.parse with
    | addr ip =>
      rw [hp] at h
      have := ih h
      simp only [ipsOf, netsOf, idsOf, List.filterMap_cons, hp] at this ⊢
      simpa [List.append_assoc] using this
    | pfx p =>
      rw [hp] at h
      have := ih h
      simp only [ipsOf, netsOf, idsOf, List.filterMap_cons, hp] at this ⊢
      simpa [List.append_assoc] using this
    | none =>
      rw [hp] at h
      simp only at h
      split at h
      · have := ih h
        simp only [ipsOf, netsOf, idsOf, List.filterMap_cons, hp] at this ⊢
        simpa [List.append_assoc] using this
      · cases h

theorem processAccessClients_ok {es : List Entry} {l : Lists} (h : processAccessClients es = .ok l) :
    l.ips = ipsOf es ∧ l.nets = netsOf es ∧ l.ids = idsOf es := by
  have := processFrom_ok h
  simpa using this

/-- The loop succeeds exactly when every entry that is neither an address nor
a CIDR is a valid ClientID label. -/
theorem processFrom_isOk (i : Nat) (es : List Entry) (acc : Lists) :
    (∃ l, processFrom i es acc = .ok l) ↔
      ∀ e ∈ es, e.parse = .none → C16.validLabel e.raw = true := by
  induction es generalizing i acc with
  | nil => simp [processFrom]
  | cons e rest ih =>
    unfold processFrom
    cases hp : e.parse with
    | addr ip => simp [ih, hp]
    | pfx p => simp [ih, hp]
    | none =>
      by_cases hv : C16.validLabel e.raw = true
      · simp [hv, ih, hp]
      · simp [hv, hp]

theorem length_parts (es : List Entry) :
    (ipsOf es).length + (netsOf es).length + (idsOf es).length = es.length := by
  induction es with
  | nil => rfl
  | cons e rest ih =>
    cases hp : e.parse <;>
      simp only [ipsOf, netsOf, idsOf, List.filterMap_cons, hp, List.length_cons] at ih ⊢ <;> omega

theorem mem_ipsOf {es : List Entry} {ip : IP} : ip ∈ ipsOf es ↔ ∃ e ∈ es, e.parse = .addr ip := by
  simp only [ipsOf, List.mem_filterMap]
  constructor
  · rintro ⟨e, he, h⟩
    refine ⟨e, he, ?_⟩
    cases hp : e.parse <;> rw [hp] at h <;> simp_all
  · rintro ⟨e, he, h⟩
    exact ⟨e, he, by rw [h]⟩

theorem mem_netsOf {es : List Entry} {p : Prefix} : p ∈ netsOf es ↔ ∃ e ∈ es, e.parse = .pfx p := by
  simp only [netsOf, List.mem_filterMap]
  constructor
  · rintro ⟨e, he, h⟩
    refine ⟨e, he, ?_⟩
    cases hp : e.parse <;> rw [hp] at h <;> simp_all
  · rintro ⟨e, he, h⟩
    exact ⟨e, he, by rw [h]⟩

theorem mem_idsOf {es : List Entry} {id : Bytes} :
    id ∈ idsOf es ↔ ∃ e ∈ es, e.parse = .none ∧ e.raw = id := by
  simp only [idsOf, List.mem_filterMap]
  constructor
  · rintro ⟨e, he, h⟩
    refine ⟨e, he, ?_⟩
    cases hp : e.parse <;> rw [hp] at h <;> simp_all
  · rintro ⟨e, he, h, rfl⟩
    exact ⟨e, he, by rw [h]⟩

/-! ### the model's list tests are the spec's list tests -/

/-- Address test of `isBlockedIP` against one pair of containers. -/
def addrHit (l : Lists) (ip : IP) : Bool :=
  l.ips.contains ip || l.nets.any (fun ipnet => ipnet.contains ip.withoutZone)

theorem addrHit_eq_addrListed {es : List Entry} {l : Lists} (h : processAccessClients es = .ok l)
    {ip : IP} (hv : ip.isValid = true) : addrHit l ip = addrListed es ip := by
  obtain ⟨h1, h2, _⟩ := processAccessClients_ok h
  apply Bool.eq_iff_iff.mpr
  simp only [addrHit, addrListed, hv, Bool.true_and, h1, h2, Bool.or_eq_true, List.contains_iff_mem,
    List.any_eq_true, mem_ipsOf, mem_netsOf, contains_withoutZone]
  constructor
  · rintro (⟨e, he, hp⟩ | ⟨p, ⟨e, he, hp⟩, hc⟩)
    · exact ⟨e, he, by simp [hp]⟩
    · exact ⟨e, he, by simp [hp, hc]⟩
  · rintro ⟨e, he, hm⟩
    cases hp : e.parse with
    | addr a =>
      rw [hp] at hm
      simp only [beq_iff_eq] at hm
      exact Or.inl ⟨e, he, by rw [hp, hm]⟩
    | pfx p =>
      rw [hp] at hm
      exact Or.inr ⟨p, ⟨e, he, hp⟩, hm⟩
    | none => rw [hp] at hm; cases hm

theorem idsContains_eq_idListed {es : List Entry} {l : Lists} (h : processAccessClients es = .ok l)
    {id : Bytes} (hid : id ≠ []) : l.ids.contains id = idListed es id := by
  obtain ⟨_, _, h3⟩ := processAccessClients_ok h
  apply Bool.eq_iff_iff.mpr
  simp only [idListed, h3, List.contains_iff_mem, mem_idsOf, Bool.and_eq_true, decide_eq_true_eq,
    List.any_eq_true, beq_iff_eq]
  constructor
  · rintro ⟨e, he, hp, hr⟩
    exact ⟨hid, e, he, hp, hr⟩
  · rintro ⟨_, e, he, hp, hr⟩
    exact ⟨e, he, hp, hr⟩

theorem allowlistMode_eq {al bl : List Entry} {a : Access} (h : newAccessCtx al bl = .ok a) :
    a.allowlistMode = !al.isEmpty := by
  unfold newAccessCtx at h
  cases ha : processAccessClients al with
  | error i => rw [ha] at h; cases h
  | ok l =>
    rw [ha] at h
    cases hb : processAccessClients bl with
    | error i => rw [hb] at h; cases h
    | ok l' =>
      rw [hb] at h
      simp only [Except.ok.injEq] at h
      subst h
      obtain ⟨h1, h2, h3⟩ := processAccessClients_ok ha
      have hl := length_parts al
      simp only [Access.allowlistMode, h1, h2, h3]
      cases al with
      | nil => rfl
      | cons e rest =>
        simp only [List.length_cons] at hl
        simp only [List.isEmpty_cons, Bool.not_false]
        apply Bool.eq_iff_iff.mpr
        simp only [Bool.or_eq_true, bne_iff_ne, ne_eq, iff_true]
        omega

theorem newAccessCtx_parts {al bl : List Entry} {a : Access} (h : newAccessCtx al bl = .ok a) :
    processAccessClients al = .ok a.allowed ∧ processAccessClients bl = .ok a.blocked := by
  unfold newAccessCtx at h
  cases ha : processAccessClients al with
  | error i => rw [ha] at h; cases h
  | ok l =>
    rw [ha] at h
    cases hb : processAccessClients bl with
    | error i => rw [hb] at h; cases h
    | ok l' =>
      rw [hb] at h
      simp only [Except.ok.injEq] at h
      subst h
      exact ⟨rfl, rfl⟩

/-! ### projections of the decision functions -/

theorem isBlockedIP_fst (a : Access) (ip : IP) :
    (a.isBlockedIP ip).1 = if a.allowlistMode then !addrHit a.allowed ip else addrHit a.blocked ip := by
  unfold Access.isBlockedIP addrHit
  cases hm : a.allowlistMode <;> simp only [if_true, if_false, Bool.false_eq_true]
  · cases h1 : a.blocked.ips.contains ip <;>
    cases h2 : a.blocked.nets.any (fun ipnet => ipnet.contains ip.withoutZone) <;>
    simp only [if_true, if_false, Bool.false_eq_true, Bool.or_self, Bool.or_true, Bool.or_false,
      Bool.not_true]
  · cases h1 : a.allowed.ips.contains ip <;>
    cases h2 : a.allowed.nets.any (fun ipnet => ipnet.contains ip.withoutZone) <;>
    simp only [if_true, if_false, Bool.false_eq_true, Bool.or_self, Bool.or_true, Bool.or_false,
      Bool.not_true]

theorem isBlockedClient_fst (a : Access) (ip : IP) (id : Bytes) :
    (a.isBlockedClient ip id).1 =
      if a.allowlistMode then (ip.isValid && (a.isBlockedIP ip).1) && a.isBlockedClientID id
      else (ip.isValid && (a.isBlockedIP ip).1) || a.isBlockedClientID id := by
  unfold Access.isBlockedClient
  cases hv : ip.isValid <;> cases hm : a.allowlistMode <;>
    cases hc : a.isBlockedClientID id <;> cases hi : (a.isBlockedIP ip).1 <;> simp [hi]

theorem isBlockedClientID_eq {al bl : List Entry} {a : Access} (h : newAccessCtx al bl = .ok a)
    (id : Bytes) :
    a.isBlockedClientID id = if !al.isEmpty then !idListed al id else idListed bl id := by
  obtain ⟨ha, hb⟩ := newAccessCtx_parts h
  unfold Access.isBlockedClientID
  simp only [allowlistMode_eq h]
  by_cases hid : id = []
  · subst hid
    cases al.isEmpty <;> simp [idListed]
  · simp only [hid, if_false, idsContains_eq_idListed ha hid, idsContains_eq_idListed hb hid]

/-- The decision of `IsBlockedClient` in terms of the two lists as written,
for every address including the zero `netip.Addr`. -/
theorem decision_general {al bl : List Entry} {a : Access} (h : newAccessCtx al bl = .ok a)
    (ip : IP) (id : Bytes) :
    (a.isBlockedClient ip id).1 =
      if !al.isEmpty then (ip.isValid && !addrListed al ip) && !idListed al id
      else addrListed bl ip || idListed bl id := by
  obtain ⟨ha, hb⟩ := newAccessCtx_parts h
  rw [isBlockedClient_fst, isBlockedIP_fst, isBlockedClientID_eq h, allowlistMode_eq h]
  cases hv : ip.isValid
  · have h1 : addrListed bl ip = false := by simp [addrListed, hv]
    cases al.isEmpty <;> simp [h1]
  · rw [addrHit_eq_addrListed ha hv, addrHit_eq_addrListed hb hv]
    cases al.isEmpty <;> simp

/-- What the model produces for one request: the observation the spec judges. -/
def modelObs (a : Access) (r : Request) : Obs :=
  { blocked := (a.isBlockedClient r.addr r.effectiveID).1
    action := (handleBefore a r).1 }

/-- In the domain of the property the decision is "excluded by the settings",
also for the zero address. -/
theorem decision_in_scope {al bl : List Entry} {a : Access} (h : newAccessCtx al bl = .ok a)
    (r : Request) (hs : inScope ⟨al, bl, r⟩ r.effectiveID = true) :
    (a.isBlockedClient r.addr r.effectiveID).1 = excluded al bl r.addr r.effectiveID := by
  rw [decision_general h, excluded]
  cases hv : r.addr.isValid with
  | true => cases al.isEmpty <;> simp
  | false =>
    have h1 : ∀ es, addrListed es r.addr = false := by intro es; simp [addrListed, hv]
    simp only [inScope, hv, Bool.false_or, Bool.or_eq_true] at hs
    cases he : al.isEmpty with
    | true => simp [h1]
    | false =>
      simp only [he, false_or, Bool.false_eq_true] at hs
      simp [h1, hs]

/-- `a` occurs in the event list, and before the first `b` (if any). -/
def occursBefore (l : List Nat) (a b : Nat) : Bool :=
  l.contains a && decide (l.findIdx (· == a) < l.findIdx (· == b))

end AGH.C03
