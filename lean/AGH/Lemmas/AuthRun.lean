/-
C12: runs and traces of the model alone, and what a run of failed logins
does to the throttle — the bridge from histories to `mustReject`.
-/
import AGH.Lemmas.AuthSim
namespace AGH.C12

/-- the model over a timed history: final state and time -/
def runM : St → Nat → List Ev → St × Nat
  | st, now, [] => (st, now)
  | st, now, .advance d :: evs => runM st (now + d) evs
  | st, now, .op o :: evs => runM (step st now o).2 now evs

/-- what happened: (time, operation, observed result) for every operation -/
def traceM : St → Nat → List Ev → List (Nat × Op × Obs)
  | _, _, [] => []
  | st, now, .advance d :: evs => traceM st (now + d) evs
  | st, now, .op o :: evs => (now, o, (step st now o).1) :: traceM (step st now o).2 now evs

/-- the result of a login attempt from address `a`, if the entry is one -/
def loginOf (a : Nat) (e : Nat × Op × Obs) : Option LoginRes :=
  match e.2.1, e.2.2 with
  | .login req _ _, .login r => if attemptAddr req = a then some r else none
  | .basic req _, .login r => if attemptAddr req = a then some r else none
  | _, _ => none

def isRestart (e : Nat × Op × Obs) : Bool :=
  match e.2.1 with
  | .restart => true
  | _ => false

/-- times of the evaluated failed logins (403) from `a` -/
def failTimes (a : Nat) (tr : List (Nat × Op × Obs)) : List Nat :=
  tr.filterMap (fun e => match loginOf a e with | some .forbidden => some e.1 | _ => none)

/-- no restart and no successful login (form or Basic) from `a` -/
def noClear (a : Nat) (tr : List (Nat × Op × Obs)) : Bool :=
  tr.all (fun e => !isRestart e &&
    (match loginOf a e with | some (.ok _) => false | some .passed => false | _ => true))

/-- After the trace nothing is being counted for `a`: scanning forward, the
last relevant event is a restart or a successful login from `a` (or there is
none). -/
def cleanAfter (a : Nat) : Bool → List (Nat × Op × Obs) → Bool
  | c, [] => c
  | c, e :: tr =>
    if isRestart e then cleanAfter a true tr
    else match loginOf a e with
      | some (.ok _) => cleanAfter a true tr
      | some .passed => cleanAfter a true tr
      | some .forbidden => cleanAfter a false tr
      | _ => cleanAfter a c tr

theorem failTimes_cons (a : Nat) (e : Nat × Op × Obs) (tr : List (Nat × Op × Obs)) :
    failTimes a (e :: tr) =
      match loginOf a e with
      | some .forbidden => e.1 :: failTimes a tr
      | _ => failTimes a tr := by
  simp only [failTimes, List.filterMap_cons]
  cases loginOf a e with
  | none => rfl
  | some r => cases r <;> rfl

theorem runLock_model : ∀ (evs : List Ev) (st : St) (sp : Spec) (now : Nat),
    (runLock st sp now evs).1 = (runM st now evs).1 ∧ (runLock st sp now evs).2.2 = (runM st now evs).2
  | [], _, _, _ => ⟨rfl, rfl⟩
  | .advance d :: evs, st, sp, now => runLock_model evs st sp (now + d)
  | .op o :: evs, st, sp, now => runLock_model evs _ _ now

theorem specStep_conf (sp : Spec) (now : Nat) (o : Op) (obs : Obs) :
    (specStep sp now o obs).2.enabled = sp.enabled ∧ (specStep sp now o obs).2.max = sp.max ∧
    (specStep sp now o obs).2.blockDur = sp.blockDur := by
  cases o with
  | login req good user =>
    cases obs with
    | login r => simp only [specStep]; split <;> exact ⟨rfl, rfl, rfl⟩
    | auth b => exact ⟨rfl, rfl, rfl⟩
    | done => exact ⟨rfl, rfl, rfl⟩
  | basic req good =>
    cases obs with
    | login r => simp only [specStep]; split <;> exact ⟨rfl, rfl, rfl⟩
    | auth b => exact ⟨rfl, rfl, rfl⟩
    | done => exact ⟨rfl, rfl, rfl⟩
  | request tok =>
    cases obs with
    | login r => exact ⟨rfl, rfl, rfl⟩
    | auth b =>
      simp only [specStep]
      split
      · exact ⟨rfl, rfl, rfl⟩
      · split <;> exact ⟨rfl, rfl, rfl⟩
    | done => exact ⟨rfl, rfl, rfl⟩
  | logout tok =>
    cases obs with
    | login r => exact ⟨rfl, rfl, rfl⟩
    | auth b => exact ⟨rfl, rfl, rfl⟩
    | done => simp only [specStep]; split <;> exact ⟨rfl, rfl, rfl⟩
  | restart => cases obs <;> exact ⟨rfl, rfl, rfl⟩

theorem runLock_conf : ∀ (evs : List Ev) (st : St) (sp : Spec) (now : Nat),
    (runLock st sp now evs).2.1.enabled = sp.enabled ∧ (runLock st sp now evs).2.1.max = sp.max ∧
    (runLock st sp now evs).2.1.blockDur = sp.blockDur
  | [], _, _, _ => ⟨rfl, rfl, rfl⟩
  | .advance d :: evs, st, sp, now => runLock_conf evs st sp (now + d)
  | .op o :: evs, st, sp, now => by
    obtain ⟨h1, h2, h3⟩ := runLock_conf evs (step st now o).2 (specStep sp now o (step st now o).1).2 now
    obtain ⟨c1, c2, c3⟩ := specStep_conf sp now o (step st now o).1
    exact ⟨by rw [← c1]; exact h1, by rw [← c2]; exact h2, by rw [← c3]; exact h3⟩

/-- How one observed step changes the spec's failure list of address `a`. -/
theorem failsOf_specStep (sp : Spec) (now : Nat) (o : Op) (obs : Obs) (a : Nat) :
    failsOf (specStep sp now o obs).2 a =
      if isRestart (now, o, obs) then (match obs with | .done => [] | _ => failsOf sp a)
      else match loginOf a (now, o, obs) with
        | some (.ok _) => []
        | some .passed => []
        | some .forbidden => counted sp a now ++ [now]
        | _ => failsOf sp a := by
  cases o with
  | login req good user =>
    cases obs with
    | login r =>
      simp only [isRestart, loginOf, Bool.false_eq_true, if_false]
      by_cases ha : attemptAddr req = a
      · subst ha
        simp only [if_true]
        cases r with
        | tooMany x => rfl
        | forbidden => simp [specStep, failsOf, FMap.set]
        | ok t => simp [specStep, failsOf, FMap.set]
        | passed => simp [specStep, failsOf, FMap.set]
      · simp only [ha, if_false]
        have hne : a ≠ attemptAddr req := fun e => ha e.symm
        cases r with
        | tooMany x => rfl
        | forbidden => simp [specStep, failsOf, FMap.set, hne]
        | ok t => simp [specStep, failsOf, FMap.set, hne]
        | passed => simp [specStep, failsOf, FMap.set, hne]
    | auth b => rfl
    | done => rfl
  | basic req good =>
    cases obs with
    | login r =>
      simp only [isRestart, loginOf, Bool.false_eq_true, if_false]
      by_cases ha : attemptAddr req = a
      · subst ha
        simp only [if_true]
        cases r with
        | tooMany x => rfl
        | forbidden => simp [specStep, failsOf, FMap.set]
        | ok t => simp [specStep, failsOf, FMap.set]
        | passed => simp [specStep, failsOf, FMap.set]
      · simp only [ha, if_false]
        have hne : a ≠ attemptAddr req := fun e => ha e.symm
        cases r with
        | tooMany x => rfl
        | forbidden => simp [specStep, failsOf, FMap.set, hne]
        | ok t => simp [specStep, failsOf, FMap.set, hne]
        | passed => simp [specStep, failsOf, FMap.set, hne]
    | auth b => rfl
    | done => rfl
  | request tok =>
    cases obs with
    | login r => rfl
    | auth b =>
      simp only [isRestart, loginOf, Bool.false_eq_true, if_false, specStep]
      split
      · rfl
      · split <;> rfl
    | done => rfl
  | logout tok =>
    cases obs with
    | login r => rfl
    | auth b => rfl
    | done =>
      simp only [isRestart, loginOf, Bool.false_eq_true, if_false, specStep]
      split <;> rfl
  | restart =>
    cases obs with
    | login r => rfl
    | auth b => rfl
    | done => simp [isRestart, specStep, failsOf, FMap.empty]

theorem step_restart_obs (st : St) (now : Nat) : (step st now .restart).1 = .done := rfl

/-- L1: after a trace that is clean for `a`, the spec counts nothing for `a`. -/
theorem failsOf_clean (a : Nat) : ∀ (evs : List Ev) (st : St) (sp : Spec) (now : Nat) (c : Bool),
    (c = true → failsOf sp a = []) → cleanAfter a c (traceM st now evs) = true →
    failsOf (runLock st sp now evs).2.1 a = []
  | [], _, _, _, c, hc, h => hc (by simpa [traceM, cleanAfter] using h)
  | .advance d :: evs, st, sp, now, c, hc, h => failsOf_clean a evs st sp (now + d) c hc h
  | .op o :: evs, st, sp, now, c, hc, h => by
    simp only [traceM, cleanAfter] at h
    simp only [runLock]
    have hf := failsOf_specStep sp now o (step st now o).1 a
    by_cases hr : isRestart (now, o, (step st now o).1) = true
    · simp only [hr, if_true] at h hf
      have ho : o = .restart := by
        cases o <;> simp [isRestart] at hr
        rfl
      subst ho
      rw [step_restart_obs] at hf
      exact failsOf_clean a evs _ _ now true (fun _ => hf) h
    · simp only [hr, Bool.false_eq_true, if_false] at h hf
      cases hl : loginOf a (now, o, (step st now o).1) with
      | none =>
        rw [hl] at h hf
        exact failsOf_clean a evs _ _ now c (fun hc' => by rw [hf]; exact hc hc') h
      | some r =>
        rw [hl] at h hf
        cases r with
        | tooMany x => exact failsOf_clean a evs _ _ now c (fun hc' => by rw [hf]; exact hc hc') h
        | forbidden => exact failsOf_clean a evs _ _ now false (fun hc' => by cases hc') h
        | ok t => exact failsOf_clean a evs _ _ now true (fun _ => hf) h
        | passed => exact failsOf_clean a evs _ _ now true (fun _ => hf) h

/-- L2: with no restart and no success of `a`, failures that all fall within a
minute of the first and do not exceed the limit accumulate in the spec's list. -/
theorem failsOf_run (a : Nat) : ∀ (evs : List Ev) (st : St) (sp : Spec) (now : Nat) (p : List Nat),
    failsOf sp a = p → noClear a (traceM st now evs) = true →
    (p ++ failTimes a (traceM st now evs)).length ≤ sp.max →
    (∀ t ∈ p ++ failTimes a (traceM st now evs),
      t ≤ (p ++ failTimes a (traceM st now evs)).headD 0 + failedAuthTTL) →
    failsOf (runLock st sp now evs).2.1 a = p ++ failTimes a (traceM st now evs)
  | [], _, _, _, p, hp, _, _, _ => by simpa [traceM, failTimes, runLock] using hp
  | .advance d :: evs, st, sp, now, p, hp, hn, hl, hw => failsOf_run a evs st sp (now + d) p hp hn hl hw
  | .op o :: evs, st, sp, now, p, hp, hn, hl, hw => by
    simp only [traceM, noClear, List.all_cons, Bool.and_eq_true, Bool.not_eq_true'] at hn
    obtain ⟨⟨hr, hok⟩, hn'⟩ := hn
    simp only [runLock]
    have hf := failsOf_specStep sp now o (step st now o).1 a
    simp only [hr, Bool.false_eq_true, if_false] at hf
    have hmax := (specStep_conf sp now o (step st now o).1).2.1
    simp only [traceM, failTimes_cons] at hl hw ⊢
    cases hlo : loginOf a (now, o, (step st now o).1) with
    | none =>
      rw [hlo] at hf hl hw
      simp only at hl hw ⊢
      exact failsOf_run a evs _ _ now p (by rw [hf]; exact hp) hn' (by rw [hmax]; exact hl) hw
    | some r =>
      rw [hlo] at hf hl hw hok
      cases r with
      | ok t => simp at hok
      | passed => simp at hok
      | tooMany x =>
        simp only at hl hw ⊢
        exact failsOf_run a evs _ _ now p (by rw [hf]; exact hp) hn' (by rw [hmax]; exact hl) hw
      | forbidden =>
        simp only at hf hl hw ⊢
        -- the failures counted so far are still counted: append
        have hcnt : counted sp a now = p := by
          have hc : counted sp a now = if stillCounts sp (failsOf sp a) now = true then failsOf sp a else [] := rfl
          rw [hc, hp]
          cases p with
          | nil => simp
          | cons f rest =>
            have hlt : (f :: rest).length < sp.max := by
              simp only [List.length_append, List.length_cons] at hl ⊢; omega
            have hnow : now ≤ f + failedAuthTTL := by
              have := hw now (by simp)
              simpa using this
            have : stillCounts sp (f :: rest) now = true := by
              have hlt' : rest.length + 1 < sp.max := by simpa using hlt
              simp [stillCounts, untilOf, hlt', hnow]
            simp [this]
        have ih := failsOf_run a evs (step st now o).2 (specStep sp now o (step st now o).1).2 now (p ++ [now])
          (by rw [hf, hcnt]) hn' (by rw [hmax]; simpa using hl) (by simpa using hw)
        simpa using ih


/-! ### the throttle relation needs no time horizon -/

theorem simThr_login {st : St} {sp : Spec} {now : Nat} (hthr : SimThr st sp now)
    (req : Req) (good : Bool) (user : Nat) :
    SimThr (login st now req.peer good user).2
      (specStep sp now (.login req good user) (.login (login st now req.peer good user).1)).2 now := by
  obtain ⟨addr, hdr, tr⟩ := req
  show SimThr (login st now addr good user).2
      (specStep sp now (.login ⟨addr, hdr, tr⟩ good user) (.login (login st now addr good user).1)).2 now
  cases hrl : st.rl with
  | none =>
    unfold SimThr at hthr
    rw [hrl] at hthr
    rw [login_none hrl]
    cases good with
    | true =>
      rw [evalLogin_good]
      simp only [specStep, attemptAddr]
      unfold SimThr; simp only [Option.map]; exact hthr
    | false =>
      rw [evalLogin_bad]
      simp only [specStep, attemptAddr]
      unfold SimThr; simp only [Option.map]; exact hthr
  | some l =>
    unfold SimThr at hthr
    rw [hrl] at hthr
    obtain ⟨hen, hmax, hbd, hrecs⟩ := hthr
    obtain ⟨c1, c2, c3, c4⟩ := check_spec hen hmax hbd hrecs addr
    by_cases hleft : (l.check addr now).1 > 0
    · rw [login_blocked hrl hleft]
      simp only [specStep]
      exact simThr_of_exact hen c2 c3 c1 _ rfl
    · rw [login_pass hrl hleft]
      cases good with
      | true =>
        rw [evalLogin_good]
        simp only [specStep, attemptAddr]
        refine simThr_of_exact (l := (l.check addr now).2.remove addr) ?_ ?_ ?_ ?_ _ rfl
        · exact hen
        · exact c2
        · exact c3
        · exact remove_spec c1 addr _ _
      | false =>
        rw [evalLogin_bad]
        simp only [specStep, attemptAddr]
        refine simThr_of_exact (l := (l.check addr now).2.inc addr now) ?_ ?_ ?_ ?_ _ rfl
        · exact hen
        · exact c2
        · exact c3
        · exact inc_spec c2 c3 c1 addr

theorem simThr_basic {st : St} {sp : Spec} {now : Nat} (hthr : SimThr st sp now) (req : Req) (good : Bool) :
    SimThr (basicAuthX true st now req good).2
      (specStep sp now (.basic req good) (.login (basicAuthX true st now req good).1)).2 now := by
  obtain ⟨addr, hdr, tr⟩ := req
  cases hrl : st.rl with
  | none =>
    unfold SimThr at hthr
    rw [hrl] at hthr
    rw [basic_none hrl]
    cases good with
    | true =>
      simp only [if_true, specStep, attemptAddr]
      unfold SimThr; rw [hrl]; exact hthr
    | false =>
      simp only [Bool.false_eq_true, if_false, specStep, attemptAddr]
      unfold SimThr; rw [hrl]; exact hthr
  | some l =>
    unfold SimThr at hthr
    rw [hrl] at hthr
    obtain ⟨hen, hmax, hbd, hrecs⟩ := hthr
    obtain ⟨c1, c2, c3, c4⟩ := check_spec hen hmax hbd hrecs addr
    by_cases hleft : (l.check addr now).1 > 0
    · rw [basic_blocked hrl hleft]
      simp only [specStep]
      exact simThr_of_exact hen c2 c3 c1 _ rfl
    · rw [basic_pass hrl hleft]
      cases good with
      | true =>
        simp only [if_true, specStep, attemptAddr]
        refine simThr_of_exact (l := (l.check addr now).2.remove addr) ?_ ?_ ?_ ?_ _ rfl
        · exact hen
        · exact c2
        · exact c3
        · exact remove_spec c1 addr sp.toks sp.issued
      | false =>
        simp only [Bool.false_eq_true, if_false, specStep, attemptAddr]
        refine simThr_of_exact (l := (l.check addr now).2.inc addr now) ?_ ?_ ?_ ?_ _ rfl
        · exact hen
        · exact c2
        · exact c3
        · exact inc_spec c2 c3 c1 addr

theorem checkSession_rl (st : St) (now tok : Nat) : (checkSession st now tok).2.rl = st.rl := by
  unfold checkSession
  cases st.mem tok with
  | none => rfl
  | some s =>
    simp only
    by_cases h1 : s.expire ≤ now32 now
    · simp only [h1, if_true]
    · simp only [h1, if_false]
      by_cases h2 : s.expire / daySec = (now32 now + st.ttl) % u32 / daySec
      · simp [h2]
      · simp [h2]

/-- the throttle relation depends on the spec only through these fields -/
theorem simThr_congr {st st' : St} {sp sp' : Spec} {now : Nat} (h : SimThr st sp now)
    (h0 : st'.rl = st.rl) (h1 : sp'.enabled = sp.enabled) (h2 : sp'.max = sp.max)
    (h3 : sp'.blockDur = sp.blockDur) (h4 : sp'.fails = sp.fails) : SimThr st' sp' now := by
  unfold SimThr at h ⊢
  rw [h0]
  cases hl : st.rl with
  | none => rw [hl] at h; simp only; rw [h1]; exact h
  | some l =>
    rw [hl] at h
    simp only
    refine ⟨by rw [h1]; exact h.1, by rw [h2]; exact h.2.1, by rw [h3]; exact h.2.2.1, fun a => ?_⟩
    have := h.2.2.2 a
    simp only [specRec, stillCounts, untilOf, failsOf, h2, h3, h4] at this ⊢
    exact this

theorem simThr_step {st : St} {sp : Spec} {now : Nat} (h : SimThr st sp now) (op : Op) :
    SimThr (step st now op).2 (specStep sp now op (step st now op).1).2 now := by
  cases op with
  | login req good user => exact simThr_login h req good user
  | basic req good => exact simThr_basic h req good
  | request tok =>
    simp only [step]
    refine simThr_congr h (checkSession_rl st now tok) ?_ ?_ ?_ ?_ <;>
    · simp only [specStep]
      split
      · rfl
      · split <;> rfl
  | logout tok =>
    simp only [step]
    refine simThr_congr h rfl ?_ ?_ ?_ ?_ <;>
    · simp only [specStep]
      split <;> rfl
  | restart =>
    simp only [step, specStep, restart]
    unfold SimThr at h ⊢
    cases hl : st.rl with
    | none => rw [hl] at h; exact h
    | some l =>
      rw [hl] at h
      simp only [Option.map]
      refine ⟨h.1, h.2.1, h.2.2.1, fun a => ?_⟩
      simp [liveRec, FMap.empty, failsOf, specRec, stillCounts]

theorem simThr_runLock : ∀ (evs : List Ev) (st : St) (sp : Spec) (now : Nat),
    SimThr st sp now →
    SimThr (runLock st sp now evs).1 (runLock st sp now evs).2.1 (runLock st sp now evs).2.2
  | [], _, _, _, h => h
  | .advance d :: evs, st, sp, now, h => simThr_runLock evs st sp (now + d) (simThr_advance d h)
  | .op o :: evs, st, sp, now, h => simThr_runLock evs _ _ now (simThr_step h o)

/-- `C12_threshold` from the throttle relation alone. -/
theorem threshold_thr {st : St} {sp : Spec} {now : Nat} (hthr : SimThr st sp now)
    (req : Req) (good : Bool) (user : Nat) (hrej : mustReject sp (attemptAddr req) now = true) :
    (∃ r, (handleLogin st now req good user).1 = .tooMany r) ∧
    (handleLogin st now req good user).2.evals = st.evals ∧
    (handleLogin st now req good user).2.mem = st.mem ∧ (handleLogin st now req good user).2.db = st.db := by
  rw [handleLogin_eq]
  have hrej : mustReject sp req.peer now = true := hrej
  generalize req.peer = addr at hrej ⊢
  unfold SimThr at hthr
  cases hrl : st.rl with
  | none =>
    rw [hrl] at hthr
    simp [mustReject, hthr] at hrej
  | some l =>
    rw [hrl] at hthr
    obtain ⟨hen, hmax, hbd, hrecs⟩ := hthr
    obtain ⟨_, _, _, c4⟩ := check_spec hen hmax hbd hrecs addr
    have hleft : (l.check addr now).1 > 0 := by
      rw [hrej] at c4; simpa using c4
    rw [login_blocked hrl hleft]
    exact ⟨⟨_, rfl⟩, rfl, rfl, rfl⟩


/-- the same for HTTP Basic credentials (with the repair) -/
theorem threshold_thr_basic {st : St} {sp : Spec} {now : Nat} (hthr : SimThr st sp now)
    (req : Req) (good : Bool) (hrej : mustReject sp (attemptAddr req) now = true) :
    (∃ r, (basicAuthX true st now req good).1 = .tooMany r) ∧
    (basicAuthX true st now req good).2.evals = st.evals := by
  have hrej : mustReject sp req.peer now = true := hrej
  unfold SimThr at hthr
  cases hrl : st.rl with
  | none =>
    rw [hrl] at hthr
    simp [mustReject, hthr] at hrej
  | some l =>
    rw [hrl] at hthr
    obtain ⟨hen, hmax, hbd, hrecs⟩ := hthr
    obtain ⟨_, _, _, c4⟩ := check_spec hen hmax hbd hrecs req.peer
    have hleft : (l.check req.peer now).1 > 0 := by
      rw [hrej] at c4; simpa using c4
    rw [basic_blocked hrl hleft]
    exact ⟨⟨_, rfl⟩, rfl⟩

end AGH.C12
