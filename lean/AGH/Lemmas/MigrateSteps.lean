/-
C13: every step satisfies `StepOK` on every non-nil map document (no panic,
stamp, untouched top-level keys), for all documents and oracles.
-/
import AGH.Lemmas.Migrate
namespace AGH.C13
open AGH

theorem step1_ok (es) : StepOK 1 (.obj es) (migrateTo1 (.obj es)) := by
  open_step; fin

theorem step2_ok (es) : StepOK 2 (.obj es) (migrateTo2 (.obj es)) := by
  open_step; auto_step

theorem step3_ok (es) : StepOK 3 (.obj es) (migrateTo3 (.obj es)) := by
  open_step; auto_step

theorem step5_ok (es) : StepOK 5 (.obj es) (migrateTo5 (.obj es)) := by
  open_step; auto_step

theorem step8_ok (es) : StepOK 8 (.obj es) (migrateTo8 (.obj es)) := by
  open_step; auto_step

theorem step9_ok (es) : StepOK 9 (.obj es) (migrateTo9 (.obj es)) := by
  open_step; auto_step

theorem step11_ok (es) : StepOK 11 (.obj es) (migrateTo11 (.obj es)) := by
  open_step; auto_step

theorem step12_ok (es) : StepOK 12 (.obj es) (migrateTo12 (.obj es)) := by
  open_step; auto_step

theorem step13_ok (es) : StepOK 13 (.obj es) (migrateTo13 (.obj es)) := by
  open_step; auto_step

theorem step14_ok (es) : StepOK 14 (.obj es) (migrateTo14 (.obj es)) := by
  open_step; auto_step

theorem step16_ok (es) : StepOK 16 (.obj es) (migrateTo16 (.obj es)) := by
  open_step; auto_step

theorem step17_ok (es) : StepOK 17 (.obj es) (migrateTo17 (.obj es)) := by
  open_step; auto_step

theorem step18_ok (es) : StepOK 18 (.obj es) (migrateTo18 (.obj es)) := by
  open_step; auto_step

theorem step20_ok (es) : StepOK 20 (.obj es) (migrateTo20 (.obj es)) := by
  open_step; auto_step

theorem step21_ok (es) : StepOK 21 (.obj es) (migrateTo21 (.obj es)) := by
  open_step; auto_step

theorem step23_ok (o) (es) : StepOK 23 (.obj es) (migrateTo23 o (.obj es)) := by
  open_step; auto_step

theorem step25_ok (es) : StepOK 25 (.obj es) (migrateTo25 (.obj es)) := by
  open_step; auto_step

theorem step28_ok (es) : StepOK 28 (.obj es) (migrateTo28 (.obj es)) := by
  open_step; auto_step

/-! ### steps that loop over an array -/

macro "np_fin" : tactic => `(tactic| (
  (try pre_simp) <;> (repeat' split) <;> (try (intro p hp; simp_all (config := {decide := true}) [NoPanic, typeErr, setK]))))

theorem v4Client_noPanic (c : YVal) : NoPanic (v4Client c) := by
  unfold v4Client; cases c <;> simp [NoPanic, setK]

theorem v6Ids_noPanic (c : YVal) (ids : List Key) : NoPanic (v6Ids c ids) := by
  induction ids with
  | nil => simp [NoPanic, v6Ids]
  | cons id rest ih =>
    intro p h
    unfold v6Ids at h
    cases hr : v6Ids c rest with
    | error e =>
      simp only [hr] at h
      split at h
      · simp at h
      · simp at h; subst h; exact ih p hr
    | ok ids =>
      simp only [hr] at h
      split at h
      · simp at h
      · split at h <;> simp at h

theorem v6Client_noPanic (c : YVal) : NoPanic (v6Client c) := by
  unfold v6Client
  cases c <;> try (simp [NoPanic, typeErr])
  rename_i es
  cases hr : v6Ids (.obj es) [kIp, kMac] with
  | error e => intro p h; simp at h; subst h; exact v6Ids_noPanic _ _ p hr
  | ok ids => simp [NoPanic, setK]

theorem v10Ups_noPanic (o : Oracles) (u : YVal) : NoPanic (v10Ups o u) := by
  unfold v10Ups
  cases u <;> simp [NoPanic, typeErr]
  split <;> simp

theorem v19Client_noPanic (c : YVal) : NoPanic (v19Client c) := by
  unfold v19Client
  cases c <;> try (simp [NoPanic])
  simp only [moveVal, safeSearchDefault, setK]
  fv_split <;> simp [NoPanic, delK]

theorem v22Client_noPanic (c : YVal) : NoPanic (v22Client c) := by
  unfold v22Client
  cases c <;> try (simp [NoPanic, typeErr])
  fv_split <;> simp [NoPanic, typeErr, setK]

/-- The common shape `match mapM' f xs with | .error f => .error f | .ok xs' => .ok (g xs')`. -/
theorem stepOK_mapM' {n d} {f : YVal → M YVal} (hf : ∀ x, NoPanic (f x)) (xs : List YVal) (g : List YVal → YVal)
    (hg : ∀ ys, StepOK n d (.ok (g ys))) :
    StepOK n d (match mapM' f xs with | .error e => .error e | .ok ys => .ok (g ys)) := by
  cases hm : mapM' f xs with
  | error e => exact stepOK_of_noPanic_error (mapM'_noPanic hf xs) hm
  | ok ys => exact hg ys

theorem step4_ok (es) : StepOK 4 (.obj es) (migrateTo4 (.obj es)) := by
  simp only [migrateTo4, stamp, setK]
  split
  · exact stepOK_mapM' v4Client_noPanic _ _ (fun ys => by fin)
  · fin

theorem step6_ok (es) : StepOK 6 (.obj es) (migrateTo6 (.obj es)) := by
  simp only [migrateTo6, stamp, setK]
  fv_split
  · split
    · fin
    · exact stepOK_mapM' v6Client_noPanic _ _ (fun ys => by fin)
    · fin
  · fin
  · fin

theorem step19_ok (es) : StepOK 19 (.obj es) (migrateTo19 (.obj es)) := by
  simp only [migrateTo19, stamp, setK]
  fv_split
  · split
    · exact stepOK_mapM' v19Client_noPanic _ _ (fun ys => by fin)
    · fin
  · fin
  · fin

theorem step22_ok (es) : StepOK 22 (.obj es) (migrateTo22 (.obj es)) := by
  simp only [migrateTo22, stamp, setK]
  fv_split
  · fv_split
    · split
      · fin
      · exact stepOK_mapM' v22Client_noPanic _ _ (fun ys => by fin)
      · fin
    · fin
    · fin
  · fin
  · fin

/-- One block of `migrateTo10`: no panic, and the result is a non-nil map. -/
theorem v10Field_spec (o : Oracles) (ds : List (Key × YVal)) (k : Key) :
    (∃ ds', v10Field o (.obj ds) k = .ok (.obj ds')) ∨ (∃ e, v10Field o (.obj ds) k = .error e ∧ ∀ p, e ≠ .panic p) := by
  unfold v10Field
  fv_split
  · rename_i w
    cases hm : mapM' (v10Ups o) w with
    | error e =>
      right; refine ⟨e, by simp, fun p hp => ?_⟩
      subst hp; exact mapM'_noPanic (v10Ups_noPanic o) w p hm
    | ok ys => left; exact ⟨insert k (.arr ys) ds, by simp [setK]⟩
  · left; exact ⟨ds, by simp⟩
  · right; exact ⟨.err .type, by simp [typeErr], by simp⟩

theorem step10_ok (o) (es) : StepOK 10 (.obj es) (migrateTo10 o (.obj es)) := by
  simp only [migrateTo10, stamp, setK]
  fv_split
  · rename_i w
    rcases v10Field_spec o w kUpstreamDns with ⟨d1, h1⟩ | ⟨e, h1, he⟩
    · simp only [h1]
      rcases v10Field_spec o d1 kLocalPtrUpstreams with ⟨d2, h2⟩ | ⟨e, h2, he⟩
      · simp only [h2]; fin
      · simp only [h2]; cases e <;> simp_all [StepOK]
    · simp only [h1]; cases e <;> simp_all [StepOK]
  · fin
  · fin

/-! ### steps built on `errors.Join(moveVal…)` -/

theorem step7_ok (es) : StepOK 7 (.obj es) (migrateTo7 (.obj es)) := by
  simp only [migrateTo7, stamp, setK]
  fv_split
  · rename_i w
    obtain ⟨s', d', e, hm, _, ho⟩ := moves_spec v7Moves (.obj w) []
    obtain ⟨ss, rfl⟩ := (ho trivial).elim
    simp only [hm]; fin
  · fin
  · fin

theorem step15_ok (es) : StepOK 15 (.obj es) (migrateTo15 (.obj es)) := by
  simp only [migrateTo15, stamp, setK, v15Qlog]
  fv_split
  · rename_i w
    obtain ⟨s', d', e, hm, _, ho⟩ := moves_spec v15Moves (.obj w)
      [(kIgnored, .arr []), (kEnabled, .bool true), (kFileEnabled, .bool true),
        (kInterval, .str s2160h), (kSizeMemory, .int 1000)]
    obtain ⟨ss, rfl⟩ := (ho trivial).elim
    simp only [hm]; fin
  · fin
  · fin

theorem step26_ok (es) : StepOK 26 (.obj es) (migrateTo26 (.obj es)) := by
  simp only [migrateTo26, stamp, setK]
  fv_split
  · rename_i w
    obtain ⟨s', d', e, hm, _, ho⟩ := moves_spec v26Moves (.obj w) []
    obtain ⟨ss, rfl⟩ := (ho trivial).elim
    simp only [hm]
    cases d' <;> fin
  · fin
  · fin

theorem step24_ok (es) : StepOK 24 (.obj es) (migrateTo24 (.obj es)) := by
  simp only [migrateTo24, stamp, setK]
  obtain ⟨s', d', e, hm, hf, ho⟩ := moves_spec v24Moves (.obj (insert kSchemaVersion (.int ((24 : Nat) : Int)) es)) []
  obtain ⟨ss, rfl⟩ := (ho trivial).elim
  simp only [hm]
  have hsv := hf kSchemaVersion (by decide)
  have hfr : ∀ k, k ∉ topKeys (touched 24) → getK (.obj ss) k = getK (.obj es) k := by
    intro k hk
    have h1 : k ∉ srcKeys v24Moves := by
      intro hmem; apply hk
      simp [srcKeys, v24Moves] at hmem
      simp [topKeys, touched, sv, pk, stampKey]
      rcases hmem with h | h | h | h | h | h | h <;> simp [h]
    rw [hf k h1]
    have h2 : ¬ k = kSchemaVersion := by
      intro h; apply hk; simp [topKeys, touched, sv, pk, stampKey, h]
    simp [getK, lookup_insert_ne' _ _ _ _ h2]
  have hk2 : ∀ k, k ∉ topKeys (touched 24) → ¬ k = kLog := by
    intro k hk h; apply hk; simp [topKeys, touched, sv, pk, stampKey, h]
  simp only [getK] at hsv hfr
  rw [lookup_insert_same] at hsv
  by_cases he : e = true
  · simp [he, typeErr, StepOK]
  · simp only [he]
    by_cases hemp : isEmptyObj (.obj d') = true
    · simp only [hemp, if_true, if_false, Bool.false_eq_true, StepOK, IsObj, getK, true_and]
      exact ⟨hsv, hfr⟩
    · simp only [hemp, if_true, if_false, Bool.false_eq_true, StepOK, IsObj, getK, true_and]
      refine ⟨?_, fun k hk => ?_⟩
      · rw [lookup_insert_ne' _ _ _ _ (by decide)]; exact hsv
      · rw [lookup_insert_ne' _ _ _ _ (hk2 k hk)]; exact hfr k hk

/-! ### v27, v29 -/

theorem replaceDot_spec (ds : List (Key × YVal)) (key : Key) :
    (∃ ds', replaceDot (.obj ds) key = .ok (.obj ds') ∧ ∀ k, ¬ k = key → lookup k ds' = lookup k ds) ∨
    replaceDot (.obj ds) key = typeErr := by
  unfold replaceDot
  fv_split
  · fv_split
    · split
      · left; exact ⟨_, rfl, fun k hk => by simp [lookup_insert_ne' _ _ _ _ hk]⟩
      · left; exact ⟨ds, rfl, fun _ _ => rfl⟩
    · left; exact ⟨ds, rfl, fun _ _ => rfl⟩
    · right; first | rfl | trivial
  · left; exact ⟨ds, rfl, fun _ _ => rfl⟩
  · right; first | rfl | trivial

theorem step27_ok (es) : StepOK 27 (.obj es) (migrateTo27 (.obj es)) := by
  simp only [migrateTo27, stamp, setK]
  rcases replaceDot_spec (insert kSchemaVersion (.int ((27 : Nat) : Int)) es) kQuerylog with ⟨d1, h1, f1⟩ | h1
  · simp only [h1]
    rcases replaceDot_spec d1 kStatistics with ⟨d2, h2, f2⟩ | h2
    · simp only [h2, StepOK, IsObj, getK, true_and]
      refine ⟨?_, fun k hk => ?_⟩
      · rw [f2 _ (by decide), f1 _ (by decide), lookup_insert_same]
      · simp [topKeys, touched, sv, pk, stampKey] at hk
        rw [f2 _ hk.2.2, f1 _ hk.2.1, lookup_insert_ne' _ _ _ _ hk.1]
    · simp only [h2]; simp [typeErr, StepOK]
  · simp only [h1]; simp [typeErr, StepOK]

theorem v29Paths_noPanic (xs : List YVal) : NoPanic (v29Paths xs) := by
  induction xs with
  | nil => simp [NoPanic, v29Paths]
  | cons f rest ih =>
    intro p h
    unfold v29Paths at h
    cases f <;> simp at h
    cases hr : v29Paths rest with
    | error e => rw [hr] at h; simp at h; subst h; exact ih p hr
    | ok ps => rw [hr] at h; dsimp only at h; split at h <;> simp at h

theorem step29_ok (o) (es) : StepOK 29 (.obj es) (migrateTo29 o (.obj es)) := by
  simp only [migrateTo29, stamp, setK]
  fv_split
  · rename_i w
    cases hp : v29Paths w with
    | error e =>
      have := v29Paths_noPanic w
      cases e <;> simp_all [StepOK, NoPanic]
    | ok ps => dsimp only; fv_split <;> fin
  · fin
  · fin

end AGH.C13
