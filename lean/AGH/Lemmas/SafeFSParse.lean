/-
C17 helper lemmas: the declarative pattern parser (`parseGlobF`) — fuel
monotonicity, sufficiency of the canonical fuel, and stability under
appending more pattern text.  Core Lean only.
-/
import AGH.Spec.SafeFS
namespace AGH.C17
open AGH AGH.Bytes

/-! ### decodeRune -/

theorem decodeRune_append (s b : Bytes) (h : ¬ ((decodeRune s).1 = runeError ∧ (decodeRune s).2 = 1))
    (hs : s ≠ []) : decodeRune (s ++ b) = decodeRune s := by
  match s, hs with
  | b0 :: t, _ =>
    by_cases h1 : b0 < 0x80
    · simp [decodeRune, h1]
    by_cases h2 : b0 < 0xC2
    · simp [decodeRune, h1, h2]
    by_cases h3 : b0 < 0xE0
    · rcases t with _ | ⟨b1, t⟩
      · simp [decodeRune, h1, h2, h3] at h
      · simp [decodeRune, h1, h2, h3]
    by_cases h4 : b0 < 0xF0
    · rcases t with _ | ⟨b1, _ | ⟨b2, t⟩⟩
      · simp [decodeRune, h1, h2, h3, h4] at h
      · simp [decodeRune, h1, h2, h3, h4] at h
      · simp [decodeRune, h1, h2, h3, h4]
    by_cases h5 : b0 < 0xF5
    · rcases t with _ | ⟨b1, _ | ⟨b2, _ | ⟨b3, t⟩⟩⟩
      · simp [decodeRune, h1, h2, h3, h4, h5] at h
      · simp [decodeRune, h1, h2, h3, h4, h5] at h
      · simp [decodeRune, h1, h2, h3, h4, h5] at h
      · simp [decodeRune, h1, h2, h3, h4, h5]
    · simp [decodeRune, h1, h2, h3, h4, h5]

theorem ite_snd_bound {C : Prop} [Decidable C] {x e k n : Nat} (hk : 1 ≤ k) (hkn : k ≤ n) (h1 : 1 ≤ n) :
    1 ≤ (if C then (x, k) else (e, 1)).2 ∧ (if C then (x, k) else (e, 1)).2 ≤ n := by
  split <;> simp <;> omega

/-- A decoded rune takes between 1 byte and the whole (non-empty) string. -/
theorem decodeRune_size (s : Bytes) (hs : s ≠ []) :
    1 ≤ (decodeRune s).2 ∧ (decodeRune s).2 ≤ s.length := by
  match s, hs with
  | b0 :: t, _ =>
    by_cases h1 : b0 < 0x80
    · simp [decodeRune, h1]
    by_cases h2 : b0 < 0xC2
    · simp [decodeRune, h1, h2]
    by_cases h3 : b0 < 0xE0
    · rcases t with _ | ⟨b1, t⟩
      · simp [decodeRune, h1, h2, h3]
      · simp [decodeRune, h1, h2, h3]; exact ite_snd_bound (by omega) (by omega) (by omega)
    by_cases h4 : b0 < 0xF0
    · rcases t with _ | ⟨b1, _ | ⟨b2, t⟩⟩
      · simp [decodeRune, h1, h2, h3, h4]
      · simp [decodeRune, h1, h2, h3, h4]
      · simp [decodeRune, h1, h2, h3, h4]; exact ite_snd_bound (by omega) (by omega) (by omega)
    by_cases h5 : b0 < 0xF5
    · rcases t with _ | ⟨b1, _ | ⟨b2, _ | ⟨b3, t⟩⟩⟩
      · simp [decodeRune, h1, h2, h3, h4, h5]
      · simp [decodeRune, h1, h2, h3, h4, h5]
      · simp [decodeRune, h1, h2, h3, h4, h5]
      · simp [decodeRune, h1, h2, h3, h4, h5]; exact ite_snd_bound (by omega) (by omega) (by omega)
    · simp [decodeRune, h1, h2, h3, h4, h5]

/-! ### classChar -/

theorem ite_none_some {α : Type} {P : Prop} [Decidable P] {x y : α}
    (h : (if P then none else some x) = some y) : ¬P ∧ x = y := by
  split at h <;> simp_all

theorem classChar_cons (c : Nat) (cs : Bytes) :
    classChar (c :: cs) =
      if c = dash ∨ c = cRBr ∨ (if c = cBsl then cs else c :: cs) = [] ∨
          ((decodeRune (if c = cBsl then cs else c :: cs)).1 = runeError ∧
           (decodeRune (if c = cBsl then cs else c :: cs)).2 = 1) ∨
          (if c = cBsl then cs else c :: cs).drop (decodeRune (if c = cBsl then cs else c :: cs)).2 = []
      then none
      else some ((decodeRune (if c = cBsl then cs else c :: cs)).1,
                 (if c = cBsl then cs else c :: cs).drop (decodeRune (if c = cBsl then cs else c :: cs)).2) := rfl

theorem classChar_some {s : Bytes} {r : Nat} {s1 : Bytes} (h : classChar s = some (r, s1)) :
    ∃ c cs, s = c :: cs ∧ c ≠ dash ∧ c ≠ cRBr ∧
      (if c = cBsl then cs else c :: cs) ≠ [] ∧
      ¬ ((decodeRune (if c = cBsl then cs else c :: cs)).1 = runeError ∧
         (decodeRune (if c = cBsl then cs else c :: cs)).2 = 1) ∧
      s1 = (if c = cBsl then cs else c :: cs).drop (decodeRune (if c = cBsl then cs else c :: cs)).2 ∧
      s1 ≠ [] ∧ r = (decodeRune (if c = cBsl then cs else c :: cs)).1 := by
  match s with
  | [] => simp [classChar] at h
  | c :: cs =>
    rw [classChar_cons] at h
    obtain ⟨hn, h⟩ := ite_none_some h
    simp only [not_or] at hn
    simp only [Prod.mk.injEq] at h
    obtain ⟨h1, h2, h3, h4, h5⟩ := hn
    exact ⟨c, cs, rfl, h1, h2, h3, h4, h.2.symm, by rw [← h.2]; exact h5, h.1.symm⟩

theorem classChar_len {s : Bytes} {r : Nat} {s1 : Bytes} (h : classChar s = some (r, s1)) :
    s1 ≠ [] ∧ s1.length < s.length := by
  obtain ⟨c, cs, rfl, _, _, hb, _, rfl, hne, _⟩ := classChar_some h
  refine ⟨hne, ?_⟩
  have hsz := decodeRune_size _ hb
  rw [List.length_drop]
  have : (if c = cBsl then cs else c :: cs).length ≤ (c :: cs).length := by
    split <;> simp
  omega

theorem classChar_append {s : Bytes} {r : Nat} {s1 : Bytes} (b : Bytes)
    (h : classChar s = some (r, s1)) : classChar (s ++ b) = some (r, s1 ++ b) := by
  obtain ⟨c, cs, rfl, h1, h2, hb, hd, rfl, hne, rfl⟩ := classChar_some h
  have hsz := decodeRune_size _ hb
  have hbody : (if c = cBsl then cs ++ b else c :: (cs ++ b)) = (if c = cBsl then cs else c :: cs) ++ b := by
    split <;> simp
  have hdec := decodeRune_append _ b hd hb
  have hlt : (decodeRune (if c = cBsl then cs else c :: cs)).2 < (if c = cBsl then cs else c :: cs).length := by
    have := List.length_pos_iff.mpr hne
    rw [List.length_drop] at this
    omega
  rw [List.cons_append, classChar_cons]
  simp only [hbody, hdec]
  rw [List.drop_append_of_le_length (by omega)]
  rw [if_neg]
  simp only [not_or]
  refine ⟨h1, h2, by simp [hb], hd, by simp [hne]⟩

/-! ### parseRanges -/

theorem parseRanges_succ (f : Nat) (s : Bytes) (acc : List (Nat × Nat)) :
    parseRanges (f + 1) s acc =
      if s.head? = some cRBr ∧ acc ≠ [] then some (acc.reverse, s.tail)
      else match classChar s with
        | none => none
        | some (lo, s1) =>
          if s1.head? = some dash then
            match classChar s1.tail with
            | none => none
            | some (hi, s3) => parseRanges f s3 ((lo, hi) :: acc)
          else parseRanges f s1 ((lo, lo) :: acc) := rfl

theorem head?_append_of_ne_nil {s b : Bytes} (h : s ≠ []) : (s ++ b).head? = s.head? := by
  cases s with
  | nil => exact absurd rfl h
  | cons a t => rfl

theorem tail_append_of_ne_nil' {s b : Bytes} (h : s ≠ []) : (s ++ b).tail = s.tail ++ b := by
  cases s with
  | nil => exact absurd rfl h
  | cons a t => rfl

/-- More pattern text after a complete class does not change its parse. -/
theorem parseRanges_append (b : Bytes) : ∀ (f : Nat) (s : Bytes) (acc : List (Nat × Nat))
    (rs : List (Nat × Nat)) (rest : Bytes),
    parseRanges f s acc = some (rs, rest) → parseRanges f (s ++ b) acc = some (rs, rest ++ b) := by
  intro f
  induction f with
  | zero => intro s acc rs rest h; simp [parseRanges] at h
  | succ f ih =>
    intro s acc rs rest h
    rw [parseRanges_succ] at h ⊢
    have hs : s ≠ [] := by
      intro h0; subst h0
      simp [classChar] at h
    rw [head?_append_of_ne_nil hs, tail_append_of_ne_nil' hs]
    split
    · rename_i hc
      rw [if_pos hc] at h
      simp only [Option.some.injEq, Prod.mk.injEq] at h
      simp [h.1, h.2]
    · rename_i hc
      rw [if_neg hc] at h
      cases hcc : classChar s with
      | none => rw [hcc] at h; simp at h
      | some p =>
        obtain ⟨lo, s1⟩ := p
        rw [hcc] at h
        rw [classChar_append b hcc]
        have hs1 := (classChar_len hcc).1
        simp only at h ⊢
        rw [head?_append_of_ne_nil hs1, tail_append_of_ne_nil' hs1]
        split
        · rename_i hd
          rw [if_pos hd] at h
          cases hc2 : classChar s1.tail with
          | none => rw [hc2] at h; simp at h
          | some q =>
            obtain ⟨hi, s3⟩ := q
            rw [hc2] at h
            rw [classChar_append b hc2]
            exact ih _ _ _ _ h
        · rename_i hd
          rw [if_neg hd] at h
          exact ih _ _ _ _ h

/-- The rest after a class is strictly shorter. -/
theorem parseRanges_len : ∀ (f : Nat) (s : Bytes) (acc : List (Nat × Nat))
    (rs : List (Nat × Nat)) (rest : Bytes),
    parseRanges f s acc = some (rs, rest) → rest.length < s.length := by
  intro f
  induction f with
  | zero => intro s acc rs rest h; simp [parseRanges] at h
  | succ f ih =>
    intro s acc rs rest h
    rw [parseRanges_succ] at h
    split at h
    · rename_i hc
      simp only [Option.some.injEq, Prod.mk.injEq] at h
      cases s with
      | nil => simp at hc
      | cons a t => simp [← h.2]
    · cases hcc : classChar s with
      | none => rw [hcc] at h; simp at h
      | some p =>
        obtain ⟨lo, s1⟩ := p
        rw [hcc] at h
        have hl1 := (classChar_len hcc).2
        simp only at h
        split at h
        · cases hc2 : classChar s1.tail with
          | none => rw [hc2] at h; simp at h
          | some q =>
            obtain ⟨hi, s3⟩ := q
            rw [hc2] at h
            have hl2 := (classChar_len hc2).2
            have := ih _ _ _ _ h
            simp at hl2
            omega
        · have := ih _ _ _ _ h
          omega

/-- Any fuel that succeeded gives the same answer as any fuel above the length. -/
theorem parseRanges_suff : ∀ (f : Nat) (s : Bytes) (acc : List (Nat × Nat)) (x : List (Nat × Nat) × Bytes),
    parseRanges f s acc = some x → ∀ g, s.length + 1 ≤ g → parseRanges g s acc = some x := by
  intro f
  induction f with
  | zero => intro s acc x h; simp [parseRanges] at h
  | succ f ih =>
    intro s acc x h g hg
    obtain ⟨g, rfl⟩ : ∃ g', g = g' + 1 := ⟨g - 1, by omega⟩
    rw [parseRanges_succ] at h ⊢
    split
    · rename_i hc; rw [if_pos hc] at h; exact h
    · rename_i hc
      rw [if_neg hc] at h
      cases hcc : classChar s with
      | none => rw [hcc] at h; simp at h
      | some p =>
        obtain ⟨lo, s1⟩ := p
        rw [hcc] at h
        have hl1 := (classChar_len hcc).2
        simp only at h ⊢
        split
        · rename_i hd
          rw [if_pos hd] at h
          cases hc2 : classChar s1.tail with
          | none => rw [hc2] at h; simp at h
          | some q =>
            obtain ⟨hi, s3⟩ := q
            rw [hc2] at h
            have hl2 := (classChar_len hc2).2
            simp at hl2
            exact ih _ _ _ h g (by omega)
        · rename_i hd
          rw [if_neg hd] at h
          exact ih _ _ _ h g (by omega)

/-! ### parseGlobF -/

theorem parseGlobF_cons (f : Nat) (c : Nat) (cs : Bytes) :
    parseGlobF (f + 1) (c :: cs) =
      if c = cStar then (parseGlobF f cs).map (Term.star :: ·)
      else if c = cQuest then (parseGlobF f cs).map (Term.any :: ·)
      else if c = cBsl then
        match cs with
        | [] => none
        | d :: ds => (parseGlobF f ds).map (Term.lit d :: ·)
      else if c = cLBr then
        match parseRanges ((if (cs.head? == some cCaret) = true then cs.tail else cs).length + 1)
            (if (cs.head? == some cCaret) = true then cs.tail else cs) [] with
        | none => none
        | some (rs, rest) => (parseGlobF f rest).map (Term.cls (cs.head? == some cCaret) rs :: ·)
      else (parseGlobF f cs).map (Term.lit c :: ·) := rfl

theorem map_eq_some_cons {α : Type} {o : Option (List α)} {a : α} {t : List α}
    (h : o.map (a :: ·) = some t) : ∃ t', o = some t' ∧ t = a :: t' := by
  cases o with
  | none => simp at h
  | some t' => simp at h; exact ⟨t', rfl, h.symm⟩

theorem class_body_len (cs : Bytes) :
    (if (cs.head? == some cCaret) = true then cs.tail else cs).length ≤ cs.length := by
  split <;> simp

/-- Any fuel that succeeded gives the same answer as any fuel above the length. -/
theorem parseGlobF_suff : ∀ (f : Nat) (p : Bytes) (t : List Term),
    parseGlobF f p = some t → ∀ g, p.length + 1 ≤ g → parseGlobF g p = some t := by
  intro f
  induction f with
  | zero => intro p t h; simp [parseGlobF] at h
  | succ f ih =>
    intro p t h g hg
    obtain ⟨g, rfl⟩ : ∃ g', g = g' + 1 := ⟨g - 1, by omega⟩
    cases p with
    | nil => simp [parseGlobF] at h ⊢; exact h
    | cons c cs =>
      rw [parseGlobF_cons] at h ⊢
      simp only [List.length_cons] at hg
      split
      · rename_i h1; rw [if_pos h1] at h
        obtain ⟨t', ht', rfl⟩ := map_eq_some_cons h
        rw [ih _ _ ht' g (by omega)]; rfl
      · rename_i h1; rw [if_neg h1] at h
        split
        · rename_i h2; rw [if_pos h2] at h
          obtain ⟨t', ht', rfl⟩ := map_eq_some_cons h
          rw [ih _ _ ht' g (by omega)]; rfl
        · rename_i h2; rw [if_neg h2] at h
          split
          · rename_i h3; rw [if_pos h3] at h
            cases cs with
            | nil => simp at h
            | cons d ds =>
              simp only at h ⊢
              obtain ⟨t', ht', rfl⟩ := map_eq_some_cons h
              simp only [List.length_cons] at hg
              rw [ih _ _ ht' g (by omega)]; rfl
          · rename_i h3; rw [if_neg h3] at h
            split
            · rename_i h4; rw [if_pos h4] at h
              cases hr : parseRanges ((if (cs.head? == some cCaret) = true then cs.tail else cs).length + 1)
                  (if (cs.head? == some cCaret) = true then cs.tail else cs) [] with
              | none => rw [hr] at h; simp at h
              | some q =>
                obtain ⟨rs, rest⟩ := q
                rw [hr] at h
                simp only at h ⊢
                obtain ⟨t', ht', rfl⟩ := map_eq_some_cons h
                have hl := parseRanges_len _ _ _ _ _ hr
                have hb := class_body_len cs
                rw [ih _ _ ht' g (by omega)]; rfl
            · rename_i h4; rw [if_neg h4] at h
              obtain ⟨t', ht', rfl⟩ := map_eq_some_cons h
              rw [ih _ _ ht' g (by omega)]; rfl

theorem parseGlob_of_fuel {f : Nat} {p : Bytes} {t : List Term} (h : parseGlobF f p = some t) :
    parseGlob p = some t := parseGlobF_suff f p t h _ (Nat.le_refl _)

/-- Concatenating two complete patterns concatenates their term lists. -/
theorem parseGlobF_append (b : Bytes) (tb : List Term) (g : Nat) (hb : parseGlobF g b = some tb) :
    ∀ (f : Nat) (a : Bytes) (ta : List Term), parseGlobF f a = some ta →
      ∀ h, (a ++ b).length + 1 ≤ h → parseGlobF h (a ++ b) = some (ta ++ tb) := by
  intro f
  induction f with
  | zero => intro a ta h; simp [parseGlobF] at h
  | succ f ih =>
    intro a ta h k hk
    cases a with
    | nil =>
      simp [parseGlobF] at h
      subst h
      simpa using parseGlobF_suff g b tb hb k (by simpa using hk)
    | cons c cs =>
      obtain ⟨k, rfl⟩ : ∃ k', k = k' + 1 := ⟨k - 1, by omega⟩
      rw [List.cons_append, parseGlobF_cons]
      rw [parseGlobF_cons] at h
      simp only [List.cons_append, List.length_cons] at hk
      split
      · rename_i h1; rw [if_pos h1] at h
        obtain ⟨t', ht', rfl⟩ := map_eq_some_cons h
        rw [ih _ _ ht' k (by omega)]; rfl
      · rename_i h1; rw [if_neg h1] at h
        split
        · rename_i h2; rw [if_pos h2] at h
          obtain ⟨t', ht', rfl⟩ := map_eq_some_cons h
          rw [ih _ _ ht' k (by omega)]; rfl
        · rename_i h2; rw [if_neg h2] at h
          split
          · rename_i h3; rw [if_pos h3] at h
            cases cs with
            | nil => simp at h
            | cons d ds =>
              simp only [List.cons_append] at h ⊢
              obtain ⟨t', ht', rfl⟩ := map_eq_some_cons h
              simp only [List.length_cons, List.length_append] at hk
              rw [ih _ _ ht' k (by simp only [List.length_append]; omega)]; rfl
          · rename_i h3; rw [if_neg h3] at h
            split
            · rename_i h4; rw [if_pos h4] at h
              cases hr : parseRanges ((if (cs.head? == some cCaret) = true then cs.tail else cs).length + 1)
                  (if (cs.head? == some cCaret) = true then cs.tail else cs) [] with
              | none => rw [hr] at h; simp at h
              | some q =>
                obtain ⟨rs, rest⟩ := q
                rw [hr] at h
                simp only at h
                obtain ⟨t', ht', rfl⟩ := map_eq_some_cons h
                have hl := parseRanges_len _ _ _ _ _ hr
                have hbl := class_body_len cs
                -- the class body is non-empty, so head?/tail commute with the append
                have hcs : cs ≠ [] := by
                  intro h0; subst h0
                  simp [parseRanges_succ, classChar] at hr
                have hbody : (if ((cs ++ b).head? == some cCaret) = true then (cs ++ b).tail else cs ++ b)
                    = (if (cs.head? == some cCaret) = true then cs.tail else cs) ++ b := by
                  rw [head?_append_of_ne_nil hcs, tail_append_of_ne_nil' hcs]
                  split <;> rfl
                rw [hbody, head?_append_of_ne_nil hcs]
                have hr' := parseRanges_append b _ _ _ _ _ hr
                have hr'' := parseRanges_suff _ _ _ _ hr'
                  (((if (cs.head? == some cCaret) = true then cs.tail else cs) ++ b).length + 1) (Nat.le_refl _)
                rw [hr'']
                simp only
                rw [ih _ _ ht' k (by simp only [List.length_append] at hk ⊢; omega)]; rfl
            · rename_i h4; rw [if_neg h4] at h
              obtain ⟨t', ht', rfl⟩ := map_eq_some_cons h
              rw [ih _ _ ht' k (by omega)]; rfl
