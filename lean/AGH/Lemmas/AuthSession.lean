/-
C12 lemmas, session part: the relation between the session tables of the
model (memory map and sessions.db bucket) and what the spec remembers about
every token, kept by every operation.
-/
import AGH.Spec.Auth
namespace AGH.C12

structure TokRel (st : St) (sp : Spec) (S : Nat) (t : Nat) (i : TokInfo) : Prop where
  order : i.created ≤ i.lastOK ∧ i.lastOK ≤ S
  out : i.loggedOut = true → st.mem t = none
  bounds : ∀ s, st.mem t = some s → i.created + sp.ttl ≤ s.expire ∧ s.expire ≤ i.lastOK + sp.ttl
  gone : st.mem t = none → i.loggedOut = false → i.created + sp.ttl ≤ S

structure SimSess (st : St) (sp : Spec) (now : Nat) : Prop where
  ttl : st.ttl = sp.ttl
  ttlLt : sp.ttl < u32
  issued : sp.issued = st.nextTok
  memDb : ∀ t, st.mem t = st.db t
  unknown : ∀ t, sp.toks t = none → st.mem t = none
  fresh : ∀ t, st.nextTok ≤ t → sp.toks t = none
  rel : ∀ t i, sp.toks t = some i → TokRel st sp (nowS now) t i

theorem nowS_mono (now d : Nat) : nowS now ≤ nowS (now + d) := by
  unfold nowS
  exact Nat.div_le_div_right (by omega)

theorem simSess_advance {st : St} {sp : Spec} {now : Nat} (d : Nat) (h : SimSess st sp now) :
    SimSess st sp (now + d) := by
  have hm := nowS_mono now d
  refine { h with rel := fun t i hi => ?_ }
  have r := h.rel t i hi
  exact ⟨⟨r.order.1, by have := r.order.2; omega⟩, r.out, r.bounds,
    fun h1 h2 => by have := r.gone h1 h2; omega⟩

theorem now32_eq {sp : Spec} {now : Nat} (h : noWrap sp now = true) : now32 now = nowS now := by
  simp only [noWrap, decide_eq_true_eq] at h
  unfold now32 nowS at *
  exact Nat.mod_eq_of_lt (by omega)

theorem newExpire_eq {sp : Spec} {now : Nat} (h : noWrap sp now = true) :
    (now32 now + sp.ttl) % u32 = nowS now + sp.ttl := by
  rw [now32_eq h]
  simp only [noWrap, decide_eq_true_eq] at h
  exact Nat.mod_eq_of_lt h

/-- A request carrying token `tok`. -/
theorem sess_request {st : St} {sp : Spec} {now : Nat} (h : SimSess st sp now)
    (hw : noWrap sp now = true) (tok : Nat) :
    (specStep sp now (.request tok) (.auth ((checkSession st now tok).1 == .ok))).1 = true ∧
    SimSess (checkSession st now tok).2
      (specStep sp now (.request tok) (.auth ((checkSession st now tok).1 == .ok))).2 now := by
  have h32 := now32_eq hw
  have hne : (nowS now + sp.ttl) % u32 = nowS now + sp.ttl := by
    have := newExpire_eq hw; rw [h32] at this; exact this
  unfold checkSession
  cases hm : st.mem tok with
  | none =>
    -- not found
    simp only [specStep]
    cases hi : sp.toks tok with
    | none => exact ⟨by simp, h⟩
    | some i =>
      have r := h.rel tok i hi
      have hb : (CheckRes.notFound == CheckRes.ok) = false := by decide
      simp only [hb]
      refine ⟨?_, by simpa using h⟩
      cases hlo : i.loggedOut with
      | true => simp
      | false =>
        have := r.gone hm hlo
        simp; omega
  | some s =>
    have hi' : sp.toks tok ≠ none := fun e => by have := h.unknown tok e; rw [hm] at this; cases this
    cases hi : sp.toks tok with
    | none => exact absurd hi hi'
    | some i =>
      have r := h.rel tok i hi
      have hb := r.bounds s hm
      have hlo : i.loggedOut = false := by
        cases hl : i.loggedOut with
        | false => rfl
        | true => have := r.out hl; rw [hm] at this; cases this
      simp only [h32]
      by_cases hexp : s.expire ≤ nowS now
      · -- expired: lazily deleted from both tables
        simp only [hexp, if_true, specStep, hi]
        refine ⟨?_, ?_⟩
        · simp [hlo]; omega
        · simp only [reduceCtorEq, beq_iff_eq, Bool.false_eq_true, if_false]
          refine { h with memDb := ?_, unknown := ?_, rel := ?_ }
          · intro t; simp only [FMap.erase]; split
            · rfl
            · exact h.memDb t
          · intro t ht; simp only [FMap.erase]; split
            · rfl
            · exact h.unknown t ht
          · intro t i' hi''
            have r' := h.rel t i' hi''
            by_cases ht : t = tok
            · subst ht
              rw [hi] at hi''; cases hi''
              exact ⟨r.order, fun _ => by simp [FMap.erase], fun s' hs' => by simp [FMap.erase] at hs',
                fun _ _ => by omega⟩
            · exact ⟨r'.order, fun hl => by simp [FMap.erase, ht, r'.out hl],
                fun s' hs' => by simp [FMap.erase, ht] at hs'; exact r'.bounds s' hs',
                fun h1 h2 => by simp [FMap.erase, ht] at h1; exact r'.gone h1 h2⟩
      · simp only [hexp, if_false, h.ttl, hne]
        have hspec : (specStep sp now (.request tok) (.auth true)) =
            (true, { sp with toks := sp.toks.set tok { i with lastOK := nowS now } }) := by
          simp only [specStep, hi, hlo]
          have h1 : nowS now < i.lastOK + sp.ttl := by omega
          simp [h1]
        -- both outcomes authenticate; the tables differ only in the expiry of `tok`
        have key : ∀ (e : Nat), i.created + sp.ttl ≤ e → e ≤ nowS now + sp.ttl →
            ∀ st' : St, st'.mem = st.mem.set tok { s with expire := e } →
              st'.db = st.db.set tok { s with expire := e } →
              st'.ttl = st.ttl → st'.nextTok = st.nextTok →
            SimSess st' { sp with toks := sp.toks.set tok { i with lastOK := nowS now } } now := by
          intro e he1 he2 st' hmem hdb httl hnt
          refine ⟨by rw [httl]; exact h.ttl, h.ttlLt, by rw [hnt]; exact h.issued, ?_, ?_, ?_, ?_⟩
          · intro t; rw [hmem, hdb]; simp only [FMap.set]; split
            · rfl
            · exact h.memDb t
          · intro t ht
            simp only [FMap.set] at ht
            split at ht
            · cases ht
            · next hne' => rw [hmem]; simp only [FMap.set, hne', if_false]; exact h.unknown t ht
          · intro t ht
            simp only [FMap.set]
            split
            · next e' => subst e'; rw [hnt] at ht; have := h.fresh t ht; rw [hi] at this; cases this
            · rw [hnt] at ht; exact h.fresh t ht
          · intro t i' hi''
            simp only [FMap.set] at hi''
            split at hi''
            · next e' =>
              subst e'; cases hi''
              refine ⟨⟨by have := r.order; simp; omega, by simp⟩, fun hl => by simp [hlo] at hl, ?_, ?_⟩
              · intro s' hs'
                rw [hmem] at hs'; simp [FMap.set] at hs'; subst hs'
                simp; omega
              · intro h1; rw [hmem] at h1; simp [FMap.set] at h1
            · next hne' =>
              have r' := h.rel t i' hi''
              refine ⟨r'.order, fun hl => by rw [hmem]; simp [FMap.set, hne', r'.out hl], ?_, ?_⟩
              · intro s' hs'; rw [hmem] at hs'; simp [FMap.set, hne'] at hs'; exact r'.bounds s' hs'
              · intro h1 h2; rw [hmem] at h1; simp [FMap.set, hne'] at h1; exact r'.gone h1 h2
        split
        · -- daily refresh of the expiry
          simp only [beq_self_eq_true]
          rw [hspec]
          exact ⟨rfl, key _ (by have := r.order; omega) (by omega) _ rfl rfl h.ttl.symm rfl⟩
        · simp only [beq_self_eq_true]
          rw [hspec]
          refine ⟨rfl, key s.expire hb.1 (by have := r.order; omega) st ?_ ?_ rfl rfl⟩
          · funext t; simp only [FMap.set]; split
            · next e => subst e; rw [hm]
            · rfl
          · funext t; simp only [FMap.set]; split
            · next e => subst e; rw [← h.memDb, hm]
            · rfl


/-- operations that do not touch the session tables keep the relation -/
theorem simSess_congr {st st' : St} {sp sp' : Spec} {now : Nat} (h : SimSess st sp now)
    (h1 : st'.mem = st.mem) (h2 : st'.db = st.db) (h3 : st'.ttl = st.ttl) (h4 : st'.nextTok = st.nextTok)
    (h5 : sp'.toks = sp.toks) (h6 : sp'.issued = sp.issued) (h7 : sp'.ttl = sp.ttl) :
    SimSess st' sp' now := by
  refine ⟨by rw [h3, h7]; exact h.ttl, by rw [h7]; exact h.ttlLt, by rw [h6, h4]; exact h.issued, ?_, ?_, ?_, ?_⟩
  · intro t; rw [h1, h2]; exact h.memDb t
  · intro t ht; rw [h1]; rw [h5] at ht; exact h.unknown t ht
  · intro t ht; rw [h5]; rw [h4] at ht; exact h.fresh t ht
  · intro t i hi
    rw [h5] at hi
    have r := h.rel t i hi
    exact ⟨r.order, by rw [h1]; exact r.out, by rw [h1, h7]; exact r.bounds, by rw [h1, h7]; exact r.gone⟩

/-- a successful login creates a fresh token valid for `ttl` seconds -/
theorem sess_newToken {st st' : St} {sp : Spec} {now : Nat} (h : SimSess st sp now)
    (hw : noWrap sp now = true) (user : Nat) (f : FMap (List Nat))
    (h1 : st'.mem = st.mem.set st.nextTok ⟨user, (now32 now + st.ttl) % u32⟩)
    (h2 : st'.db = st.db.set st.nextTok ⟨user, (now32 now + st.ttl) % u32⟩)
    (h3 : st'.ttl = st.ttl) (h4 : st'.nextTok = st.nextTok + 1) :
    SimSess st' { sp with fails := f, toks := sp.toks.set st.nextTok ⟨nowS now, nowS now, false⟩,
                          issued := sp.issued + 1 } now := by
  have hne := newExpire_eq hw
  rw [h.ttl, hne] at h1 h2
  have hfresh := h.fresh st.nextTok (Nat.le_refl _)
  refine ⟨by rw [h3]; exact h.ttl, h.ttlLt, by simp [h4, h.issued], ?_, ?_, ?_, ?_⟩
  · intro t; rw [h1, h2]; simp only [FMap.set]; split
    · rfl
    · exact h.memDb t
  · intro t ht
    simp only [FMap.set] at ht
    split at ht
    · cases ht
    · next hne' => rw [h1]; simp only [FMap.set, hne', if_false]; exact h.unknown t ht
  · intro t ht
    rw [h4] at ht
    simp only [FMap.set]
    split
    · omega
    · exact h.fresh t (by omega)
  · intro t i hi
    simp only [FMap.set] at hi
    split at hi
    · next e =>
      subst e; cases hi
      refine ⟨⟨Nat.le_refl _, Nat.le_refl _⟩, fun hl => by simp at hl, ?_, ?_⟩
      · intro s hs; rw [h1] at hs; simp [FMap.set] at hs; subst hs; simp
      · intro hn; rw [h1] at hn; simp [FMap.set] at hn
    · next hne' =>
      have r := h.rel t i hi
      refine ⟨r.order, fun hl => by rw [h1]; simp [FMap.set, hne', r.out hl], ?_, ?_⟩
      · intro s hs; rw [h1] at hs; simp [FMap.set, hne'] at hs; exact r.bounds s hs
      · intro hn hl; rw [h1] at hn; simp [FMap.set, hne'] at hn; exact r.gone hn hl

theorem sess_logout {st : St} {sp : Spec} {now : Nat} (h : SimSess st sp now) (tok : Nat) :
    SimSess (logout st tok) (specStep sp now (.logout tok) .done).2 now := by
  have hmem : ∀ t, (logout st tok).mem t = if t = tok then none else st.mem t := fun t => rfl
  have hdb : ∀ t, (logout st tok).db t = if t = tok then none else st.db t := fun t => rfl
  simp only [specStep]
  cases hi : sp.toks tok with
  | none =>
    simp only
    refine ⟨h.ttl, h.ttlLt, h.issued, ?_, ?_, h.fresh, ?_⟩
    · intro t; rw [hmem, hdb]; split
      · rfl
      · exact h.memDb t
    · intro t ht; rw [hmem]; split
      · rfl
      · exact h.unknown t ht
    · intro t i hi'
      have r := h.rel t i hi'
      have hne : t ≠ tok := by rintro rfl; rw [hi] at hi'; cases hi'
      exact ⟨r.order, fun hl => by rw [hmem]; simp [hne, r.out hl],
        fun s hs => by rw [hmem] at hs; simp [hne] at hs; exact r.bounds s hs,
        fun hn hl => by rw [hmem] at hn; simp [hne] at hn; exact r.gone hn hl⟩
  | some i =>
    simp only
    refine ⟨h.ttl, h.ttlLt, h.issued, ?_, ?_, ?_, ?_⟩
    · intro t; rw [hmem, hdb]; split
      · rfl
      · exact h.memDb t
    · intro t ht
      simp only [FMap.set] at ht
      split at ht
      · cases ht
      · next hne => rw [hmem]; simp only [hne, if_false]; exact h.unknown t ht
    · intro t ht
      simp only [FMap.set]
      split
      · next e => subst e; have := h.fresh t ht; rw [hi] at this; cases this
      · exact h.fresh t ht
    · intro t i' hi'
      simp only [FMap.set] at hi'
      split at hi'
      · next e =>
        subst e; cases hi'
        have r := h.rel t i hi
        exact ⟨r.order, fun _ => by rw [hmem]; simp, fun s hs => by rw [hmem] at hs; simp at hs,
          fun _ hl => by simp at hl⟩
      · next hne =>
        have r := h.rel t i' hi'
        exact ⟨r.order, fun hl => by rw [hmem]; simp [hne, r.out hl],
          fun s hs => by rw [hmem] at hs; simp [hne] at hs; exact r.bounds s hs,
          fun hn hl => by rw [hmem] at hn; simp [hne] at hn; exact r.gone hn hl⟩

theorem sess_restart {st : St} {sp : Spec} {now : Nat} (h : SimSess st sp now) (hw : noWrap sp now = true) :
    SimSess (restart st now) { sp with fails := FMap.empty } now := by
  have h32 := now32_eq hw
  have hmem : ∀ t, (restart st now).mem t = (st.mem t).filter (fun s => !decide (s.expire ≤ nowS now)) := by
    intro t; simp only [restart, h32, ← h.memDb t]
  have hdb : ∀ t, (restart st now).db t = (restart st now).mem t := fun t => rfl
  refine ⟨h.ttl, h.ttlLt, h.issued, fun t => (hdb t).symm, ?_, h.fresh, ?_⟩
  · intro t ht; rw [hmem, h.unknown t ht]; rfl
  · intro t i hi
    have r := h.rel t i hi
    refine ⟨r.order, fun hl => by rw [hmem, r.out hl]; rfl, ?_, ?_⟩
    · intro s hs
      rw [hmem] at hs
      cases hm : st.mem t with
      | none => rw [hm] at hs; cases hs
      | some s0 =>
        rw [hm] at hs
        simp only [Option.filter] at hs
        split at hs
        · cases hs; exact r.bounds s hm
        · cases hs
    · intro hn hl
      rw [hmem] at hn
      cases hm : st.mem t with
      | none => exact r.gone hm hl
      | some s0 =>
        rw [hm] at hn
        simp only [Option.filter] at hn
        split at hn
        · cases hn
        · next hc =>
          simp at hc
          have := (r.bounds s0 hm).1
          show i.created + sp.ttl ≤ nowS now
          omega

end AGH.C12
