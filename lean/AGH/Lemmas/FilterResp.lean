/-
Helper lemmas for C01 / C02: the response-filtering loop expressed in the
spec's vocabulary (first offending record, position independent).
-/
import AGH.Lemmas.Filter
set_option linter.unusedSimpArgs false
namespace AGH.Filter
open AGH AGH.Bytes

/-- the record as the loop leaves it behind -/
def stripC (c : Conf) (rr : RR) : RR := if c.aaaaDisabled then stripRR rr else rr

/-- a filtered rule result for the revealed name `(h, t)` -/
def BlockedRes (e : Engines) (c : Conf) (h : Bytes) (t : Nat) (r : Result) : Prop :=
  r.isFiltered = true ∧ r.reason = .blockList ∧ r.ips = hostRuleIPs e c h t t ∧ r.svcName = []

/-- the first revealed name of a record that the rules block -/
def firstBlocked (e : Engines) (c : Conf) (rr : RR) : Option (Bytes × Nat) :=
  (revealed c rr).find? (fun (h, t) => ruleBlockedName e c h t)

theorem offending_eq (e : Engines) (c : Conf) (rr : RR) :
    offending e c rr = (firstBlocked e c rr).isSome := by
  unfold offending firstBlocked
  generalize revealed c rr = l
  induction l with
  | nil => rfl
  | cons x xs ih =>
    simp only [List.any_cons, List.find?_cons]
    cases hx : ruleBlockedName e c x.1 x.2 <;> simp [hx, ih]

/-- the link between one rule check of the model and the spec's `ruleBlockedName` -/
theorem matchHost_cases (e : Engines) (hwf : EnginesWF e) (c : Conf) (h : Bytes) (t : Nat)
    (hp : protectionOn c = true) (hf : filteringOn c = true) :
    ∃ r, matchHost e h t (settings c) = .ok r ∧
      (ruleBlockedName e c h t = true → BlockedRes e c h t r) ∧
      (ruleBlockedName e c h t = false → r.isFiltered = false) := by
  obtain ⟨r, hr, hfilt, _, hblk, _⟩ := matchHost_on e hwf c h t hp hf
  refine ⟨r, hr, ?_, ?_⟩
  · intro hb
    have : r.isFiltered = true := by rw [hfilt, hb]
    obtain ⟨h1, h2, h3⟩ := hblk this
    exact ⟨this, h1, h2, h3⟩
  · intro hb; rw [hfilt, hb]

theorem filterSVCBHint_spec (e : Engines) (hwf : EnginesWF e) (c : Conf)
    (hp : protectionOn c = true) (hf : filteringOn c = true) (l : List IP) :
    ∃ ro, filterSVCBHint e (settings c) l = .ok ro ∧
      (match l.find? (fun ip => ruleBlockedName e c (lower ip.str) tHTTPS) with
       | none => ro = none
       | some ip => ∃ r, ro = some r ∧ BlockedRes e c (lower ip.str) tHTTPS r) := by
  induction l with
  | nil => exact ⟨none, rfl, rfl⟩
  | cons ip rest ih =>
    obtain ⟨r, hr, hyes, hno⟩ := matchHost_cases e hwf c (lower ip.str) tHTTPS hp hf
    unfold filterSVCBHint
    rw [hr]
    simp only [List.find?_cons]
    cases hb : ruleBlockedName e c (lower ip.str) tHTTPS
    · simp only [hno hb]
      exact ih
    · have hB := hyes hb
      simp only [hB.1, if_true]
      exact ⟨some r, rfl, r, rfl, hB⟩

/-- all hint addresses of a parameter list, in order -/
def hintsOf (ps : List SvcParam) : List IP :=
  ps.flatMap SvcParam.ips

theorem filterHTTPSParams_spec (e : Engines) (hwf : EnginesWF e) (c : Conf)
    (hp : protectionOn c = true) (hf : filteringOn c = true) (ps : List SvcParam) :
    ∃ ro, filterHTTPSParams e (settings c) ps = .ok ro ∧
      (match (hintsOf ps).find? (fun ip => ruleBlockedName e c (lower ip.str) tHTTPS) with
       | none => ro = none
       | some ip => ∃ r, ro = some r ∧ BlockedRes e c (lower ip.str) tHTTPS r) := by
  induction ps with
  | nil => exact ⟨none, rfl, rfl⟩
  | cons p rest ih =>
    unfold filterHTTPSParams
    have hh : hintsOf (p :: rest) = p.ips ++ hintsOf rest := by
      simp [hintsOf]
    rw [hh]
    generalize p.ips = ips
    obtain ⟨ro, hro, hspec⟩ := filterSVCBHint_spec e hwf c hp hf ips
    simp only [hro, List.find?_append]
    cases hfd : ips.find? (fun ip => ruleBlockedName e c (lower ip.str) tHTTPS) with
    | none =>
      rw [hfd] at hspec
      subst hspec
      simpa using ih
    | some ip =>
      rw [hfd] at hspec
      obtain ⟨r, hr, hB⟩ := hspec
      subst hr
      exact ⟨some r, rfl, r, rfl, hB⟩

theorem hintsOf_strip (c : Conf) (ps : List SvcParam) :
    (hintsOf (if c.aaaaDisabled then removeIPv6Hints ps else ps)) =
      ps.flatMap (fun p => match p with
        | .hint4 l => l
        | .hint6 l => if c.aaaaDisabled then [] else l
        | .other _ => []) := by
  cases hd : c.aaaaDisabled
  · simp only [hintsOf]
    congr 1
  · simp only [if_true, hintsOf, removeIPv6Hints]
    induction ps with
    | nil => rfl
    | cons p rest ih =>
      cases p <;> simp [List.filter_cons, ih, SvcParam.ips]

theorem find_map_ip (e : Engines) (c : Conf) (l : List IP) :
    (l.map (fun ip => (lower ip.str, tHTTPS))).find? (fun (h, t) => ruleBlockedName e c h t) =
      (l.find? (fun ip => ruleBlockedName e c (lower ip.str) tHTTPS)).map (fun ip => (lower ip.str, tHTTPS)) := by
  induction l with
  | nil => rfl
  | cons ip rest ih =>
    simp only [List.map_cons, List.find?_cons]
    cases ruleBlockedName e c (lower ip.str) tHTTPS <;> simp [ih]

/-- One record: what is left behind and whether (and why) it is filtered. -/
theorem checkRR_spec (e : Engines) (hwf : EnginesWF e) (c : Conf)
    (hp : protectionOn c = true) (hf : filteringOn c = true) (rr : RR) :
    ∃ ro, checkRR e c (settings c) rr = .ok (stripC c rr, ro) ∧
      (match firstBlocked e c rr with
       | none => ∀ r, ro = some r → r.isFiltered = false
       | some (h, t) => ∃ r, ro = some r ∧ BlockedRes e c h t r) := by
  rcases rr with ⟨name, ttl, data⟩
  cases data with
  | cname tg =>
    obtain ⟨r, hr, hyes, hno⟩ := matchHost_cases e hwf c (lower (trimDot tg)) tCNAME hp hf
    refine ⟨some r, ?_, ?_⟩
    · simp [checkRR, hr, stripC, stripRR, Except.map]
    · simp only [firstBlocked, revealed, List.find?_cons, List.find?_nil]
      cases hb : ruleBlockedName e c (lower (trimDot tg)) tCNAME
      · intro r' h'; cases h'; exact hno hb
      · exact ⟨r, rfl, hyes hb⟩
  | a ip =>
    cases ip with
    | none =>
      obtain ⟨r, hr, hyes, hno⟩ := matchHost_cases e hwf c (lower []) tA hp hf
      have hb : ruleBlockedName e c (lower []) tA = false := by
        have h2 := hwf.block_empty (reqFor c [] tA) rfl
        simp [ruleBlockedName, lower, h2]
      refine ⟨some r, ?_, ?_⟩
      · simp [checkRR, hr, stripC, stripRR, Except.map]
      · simp only [firstBlocked, revealed, List.find?_nil]
        intro r' h'; cases h'; exact hno hb
    | some i =>
      obtain ⟨r, hr, hyes, hno⟩ := matchHost_cases e hwf c (lower i.str) tA hp hf
      refine ⟨some r, ?_, ?_⟩
      · simp [checkRR, hr, stripC, stripRR, Except.map]
      · simp only [firstBlocked, revealed, List.find?_cons, List.find?_nil]
        cases hb : ruleBlockedName e c (lower i.str) tA
        · intro r' h'; cases h'; exact hno hb
        · exact ⟨r, rfl, hyes hb⟩
  | aaaa ip =>
    cases ip with
    | none =>
      obtain ⟨r, hr, hyes, hno⟩ := matchHost_cases e hwf c (lower []) tAAAA hp hf
      have hb : ruleBlockedName e c (lower []) tAAAA = false := by
        have h2 := hwf.block_empty (reqFor c [] tAAAA) rfl
        simp [ruleBlockedName, lower, h2]
      refine ⟨some r, ?_, ?_⟩
      · simp [checkRR, hr, stripC, stripRR, Except.map]
      · simp only [firstBlocked, revealed, List.find?_nil]
        intro r' h'; cases h'; exact hno hb
    | some i =>
      obtain ⟨r, hr, hyes, hno⟩ := matchHost_cases e hwf c (lower i.str) tAAAA hp hf
      refine ⟨some r, ?_, ?_⟩
      · simp [checkRR, hr, stripC, stripRR, Except.map]
      · simp only [firstBlocked, revealed, List.find?_cons, List.find?_nil]
        cases hb : ruleBlockedName e c (lower i.str) tAAAA
        · intro r' h'; cases h'; exact hno hb
        · exact ⟨r, rfl, hyes hb⟩
  | https prio tg ps =>
    obtain ⟨ro, hro, hspec⟩ := filterHTTPSParams_spec e hwf c hp hf
      (if c.aaaaDisabled then removeIPv6Hints ps else ps)
    refine ⟨ro, ?_, ?_⟩
    · simp only [checkRR, hro, Except.map, stripC, stripRR]
      cases c.aaaaDisabled <;> rfl
    · rw [hintsOf_strip] at hspec
      simp only [firstBlocked, revealed]
      rw [find_map_ip]
      revert hspec
      cases (List.flatMap (fun p => match p with
          | SvcParam.hint4 l => l
          | SvcParam.hint6 l => if c.aaaaDisabled = true then [] else l
          | SvcParam.other _ => []) ps).find? (fun ip => ruleBlockedName e c (lower ip.str) tHTTPS) with
      | none => intro h; subst h; intro r h'; cases h'
      | some ip => intro h; exact h
  | soa mb => exact ⟨none, by simp [checkRR, stripC, stripRR], by simp [firstBlocked, revealed]⟩
  | ptr tg => exact ⟨none, by simp [checkRR, stripC, stripRR], by simp [firstBlocked, revealed]⟩
  | other ty d => exact ⟨none, by simp [checkRR, stripC, stripRR], by simp [firstBlocked, revealed]⟩

/-- No record reveals a blocked name: the loop runs through, leaving every
record as it was (HTTPS records stripped of IPv6 hints when AAAA is disabled). -/
theorem filterAnswers_clean (e : Engines) (hwf : EnginesWF e) (c : Conf)
    (hp : protectionOn c = true) (hf : filteringOn c = true) (l : List RR)
    (hclean : ∀ rr ∈ l, offending e c rr = false) :
    filterAnswers e c (settings c) l = .ok (l.map (stripC c), none) := by
  induction l with
  | nil => rfl
  | cons rr rest ih =>
    have hrr := hclean rr List.mem_cons_self
    have ih' := ih (fun x hx => hclean x (List.mem_cons_of_mem _ hx))
    obtain ⟨ro, hro, hspec⟩ := checkRR_spec e hwf c hp hf rr
    rw [offending_eq] at hrr
    unfold filterAnswers
    rw [hro]
    cases hfb : firstBlocked e c rr with
    | some x => simp [hfb] at hrr
    | none =>
      rw [hfb] at hspec
      cases ro with
      | none => simp [ih', Except.map]
      | some r => simp [hspec r rfl, ih', Except.map]

/-- Position independence: the first record revealing a blocked name stops the
loop, whatever precedes or follows it. -/
theorem filterAnswers_first (e : Engines) (hwf : EnginesWF e) (c : Conf)
    (hp : protectionOn c = true) (hf : filteringOn c = true) (pre : List RR) (rr : RR) (post : List RR)
    (hpre : ∀ x ∈ pre, offending e c x = false) (h : Bytes) (t : Nat)
    (hfb : firstBlocked e c rr = some (h, t)) :
    ∃ r, filterAnswers e c (settings c) (pre ++ rr :: post) =
        .ok (pre.map (stripC c) ++ stripC c rr :: post, some r) ∧ BlockedRes e c h t r := by
  induction pre with
  | nil =>
    obtain ⟨ro, hro, hspec⟩ := checkRR_spec e hwf c hp hf rr
    rw [hfb] at hspec
    obtain ⟨r, hr, hB⟩ := hspec
    subst hr
    refine ⟨r, ?_, hB⟩
    simp only [List.nil_append, List.map_nil]
    unfold filterAnswers
    rw [hro]
    simp [hB.1]
  | cons x xs ih =>
    have hx := hpre x List.mem_cons_self
    obtain ⟨r, hr, hB⟩ := ih (fun y hy => hpre y (List.mem_cons_of_mem _ hy))
    refine ⟨r, ?_, hB⟩
    obtain ⟨ro, hro, hspec⟩ := checkRR_spec e hwf c hp hf x
    rw [offending_eq] at hx
    simp only [List.cons_append, List.map_cons]
    unfold filterAnswers
    rw [hro]
    cases hfx : firstBlocked e c x with
    | some y => simp [hfx] at hx
    | none =>
      rw [hfx] at hspec
      cases ro with
      | none => simp [hr, Except.map]
      | some r' => simp [hspec r' rfl, hr, Except.map]

/-- splitting a list at the first element satisfying a predicate -/
theorem find_split {α} (p : α → Bool) (l : List α) (x : α) (h : l.find? p = some x) :
    ∃ pre post, l = pre ++ x :: post ∧ (∀ y ∈ pre, p y = false) ∧ p x = true := by
  induction l with
  | nil => simp at h
  | cons a as ih =>
    simp only [List.find?_cons] at h
    cases ha : p a
    · rw [ha] at h
      obtain ⟨pre, post, heq, hpre, hx⟩ := ih h
      refine ⟨a :: pre, post, by simp [heq], ?_, hx⟩
      intro y hy
      rcases List.mem_cons.mp hy with rfl | hy
      · exact ha
      · exact hpre y hy
    · rw [ha] at h
      cases h
      exact ⟨[], as, rfl, by simp, ha⟩

end AGH.Filter
