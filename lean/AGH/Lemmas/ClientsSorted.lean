/-
C04 lemmas, part 2: Go's binary search on a sorted key list is the lower bound,
and `SortedMap.Set` / `SortedMap.Del` keep `keys` sorted, duplicate-free and
equal to the domain of `vals` (and `Del` never panics).  Core Lean only.
-/
import AGH.Lemmas.ClientsOrder
namespace AGH.C04
open AGH AGH.Bytes
open AGH.C03 (IP Prefix)

theorem length_takeWhile_le' {α : Type} (p : α → Bool) (l : List α) : (l.takeWhile p).length ≤ l.length := by
  induction l with
  | nil => simp
  | cons a rest ih =>
    simp only [List.takeWhile_cons]
    split <;> simp <;> omega

theorem of_mem_takeWhile {α : Type} {p : α → Bool} {l : List α} {x : α} (h : x ∈ l.takeWhile p) :
    p x = true := by
  induction l with
  | nil => simp at h
  | cons a rest ih =>
    simp only [List.takeWhile_cons] at h
    split at h
    · rcases List.mem_cons.mp h with rfl | h
      · assumption
      · exact ih h
    · simp at h

theorem set_eq_self {α : Type} {l : List α} {i : Nat} {a : α} (h : l[i]? = some a) : l.set i a = l := by
  induction l generalizing i with
  | nil => simp
  | cons b rest ih =>
    cases i with
    | zero => simp at h; simp [h]
    | succ n => simp at h; simp [ih h]

/-- The test of the search loop: `cmp(x[h], target) < 0`. -/
def below (t : Prefix) (x : Prefix) : Bool := subnetCompare x t == .lt

theorem below_iff {t x : Prefix} : below t x = true ↔ plt x t := by
  simp [below, subnetCompare_lt]

/-- Number of keys strictly before the target. -/
def lb (keys : List Prefix) (t : Prefix) : Nat := (keys.takeWhile (below t)).length

theorem take_lb (keys : List Prefix) (t : Prefix) : keys.take (lb keys t) = keys.takeWhile (below t) := by
  unfold lb
  induction keys with
  | nil => rfl
  | cons a rest ih =>
    simp only [List.takeWhile_cons]
    split
    · simp [ih]
    · simp

theorem drop_lb (keys : List Prefix) (t : Prefix) : keys.drop (lb keys t) = keys.dropWhile (below t) := by
  unfold lb
  induction keys with
  | nil => rfl
  | cons a rest ih =>
    simp only [List.takeWhile_cons, List.dropWhile_cons]
    split
    · simp [ih]
    · simp

theorem lb_le (keys : List Prefix) (t : Prefix) : lb keys t ≤ keys.length := by
  unfold lb
  exact length_takeWhile_le' _ _

/-- Every key before the lower bound is before the target. -/
theorem mem_take_lb {keys : List Prefix} {t x : Prefix} (h : x ∈ keys.take (lb keys t)) : plt x t := by
  rw [take_lb] at h
  exact below_iff.mp (of_mem_takeWhile h)

/-- In a sorted list no key from the lower bound on is before the target. -/
theorem mem_drop_lb {keys : List Prefix} (hs : Sorted keys) {t x : Prefix}
    (h : x ∈ keys.drop (lb keys t)) : ¬ plt x t := by
  rw [drop_lb] at h
  induction keys with
  | nil => simp at h
  | cons a rest ih =>
    have hs' : Sorted rest := (List.pairwise_cons.mp hs).2
    have ha : ∀ y ∈ rest, plt a y := (List.pairwise_cons.mp hs).1
    simp only [List.dropWhile_cons] at h
    split at h
    · exact ih hs' h
    · next hb =>
      have hnb : ¬ plt a t := fun hp => hb (below_iff.mpr hp)
      rcases List.mem_cons.mp h with rfl | hx
      · exact hnb
      · exact fun hxt => hnb (plt_trans (ha x hx) hxt)

/-- Position in a sorted list decides on which side of the target a key is. -/
theorem getElem_lt_lb {keys : List Prefix} (hs : Sorted keys) {t x : Prefix} {h : Nat}
    (hx : keys[h]? = some x) : plt x t ↔ h < lb keys t := by
  constructor
  · intro hp
    apply Classical.byContradiction
    intro hn
    have : x ∈ keys.drop (lb keys t) := by
      rw [List.mem_iff_getElem?]
      refine ⟨h - lb keys t, ?_⟩
      rw [List.getElem?_drop]
      have : lb keys t + (h - lb keys t) = h := by omega
      rw [this]; exact hx
    exact mem_drop_lb hs this hp
  · intro hl
    apply mem_take_lb (keys := keys)
    rw [List.mem_iff_getElem?]
    refine ⟨h, ?_⟩
    rw [List.getElem?_take]
    simp [hl, hx]

/-- Go's binary search loop finds the lower bound of a sorted list. -/
theorem bsearchLoop_eq {keys : List Prefix} (hs : Sorted keys) (t : Prefix) (i j : Nat)
    (hi : i ≤ lb keys t) (hj : lb keys t ≤ j) (hlen : j ≤ keys.length) :
    bsearchLoop keys t i j = lb keys t := by
  fun_induction bsearchLoop keys t i j with
  | case1 i j hij h k hk hlt ih =>
    -- keys[h] < target: continue right of h
    have : plt k t := subnetCompare_lt.mp hlt
    have hh : h < lb keys t := (getElem_lt_lb hs hk).mp this
    exact ih (by omega) hj hlen
  | case2 i j hij h k hk hnlt ih =>
    have : ¬ plt k t := fun hp => hnlt (subnetCompare_lt.mpr hp)
    have hh : ¬ h < lb keys t := fun hl => this ((getElem_lt_lb hs hk).mpr hl)
    exact ih hi (by omega) (by omega)
  | case3 i j hij h hnone =>
    -- x[h] out of range is impossible
    have : h < keys.length := by omega
    simp at hnone
    omega
  | case4 i j hij => omega

theorem bsearch_fst {keys : List Prefix} (hs : Sorted keys) (t : Prefix) :
    (bsearch keys t).1 = lb keys t := by
  unfold bsearch
  exact bsearchLoop_eq hs t 0 keys.length (Nat.zero_le _) (lb_le keys t) (Nat.le_refl _)

/-- If the target is in the sorted list, it sits exactly at the lower bound. -/
theorem getElem_lb_of_mem {keys : List Prefix} (hs : Sorted keys) {t : Prefix} (hm : t ∈ keys) :
    keys[lb keys t]? = some t := by
  -- t is in take ++ drop; it cannot be in take (t < t), so it is in drop, at its head
  have hsplit : keys = keys.take (lb keys t) ++ keys.drop (lb keys t) := (List.take_append_drop _ _).symm
  have hmd : t ∈ keys.drop (lb keys t) := by
    rw [hsplit] at hm
    rcases List.mem_append.mp hm with h | h
    · exact absurd (mem_take_lb h) (plt_irrefl t)
    · exact h
  cases hd : keys.drop (lb keys t) with
  | nil => rw [hd] at hmd; cases hmd
  | cons y rest =>
    have hy : keys[lb keys t]? = some y := by
      have := List.getElem?_drop (xs := keys) (i := lb keys t) (j := 0)
      rw [hd] at this
      simpa using this.symm
    rw [hy]
    congr 1
    rw [hd] at hmd
    rcases List.mem_cons.mp hmd with h | h
    · exact h.symm
    · -- t is after y in a sorted list, so y < t; but y is not before t
      have hsd : Sorted (keys.drop (lb keys t)) := by
        unfold Sorted at *
        exact hs.sublist (List.drop_sublist _ _)
      rw [hd] at hsd
      have hyt : plt y t := (List.pairwise_cons.mp hsd).1 t h
      have : y ∈ keys.drop (lb keys t) := by rw [hd]; exact List.mem_cons_self
      exact absurd hyt (mem_drop_lb hs this)

theorem bsearch_snd {keys : List Prefix} (hs : Sorted keys) (t : Prefix) :
    (bsearch keys t).2 = true ↔ t ∈ keys := by
  have h1 := bsearch_fst hs t
  unfold bsearch at h1 ⊢
  simp only at h1 ⊢
  rw [h1]
  constructor
  · intro h
    cases hk : keys[lb keys t]? with
    | none => rw [hk] at h; cases h
    | some k =>
      rw [hk] at h
      have : k = t := subnetCompare_eq.mp (by simpa using h)
      subst this
      exact List.mem_of_getElem? hk
  · intro hm
    rw [getElem_lb_of_mem hs hm]
    simp [subnetCompare_eq]

/-! ### SortedMap -/

/-- `keys` is sorted and is the domain of `vals`. -/
structure SMInv (m : SortedMap) : Prop where
  sorted : Sorted m.keys
  dom : ∀ k, k ∈ m.keys ↔ (m.vals k).isSome = true

theorem SMInv.empty : SMInv SortedMap.empty :=
  ⟨List.Pairwise.nil, by intro k; simp [SortedMap.empty, FMap.empty]⟩

/-- Inserting the target at the lower bound keeps the list sorted. -/
theorem sorted_insert {keys : List Prefix} (hs : Sorted keys) {t : Prefix} (hn : t ∉ keys) :
    Sorted (keys.take (lb keys t) ++ t :: keys.drop (lb keys t)) := by
  unfold Sorted at *
  rw [List.pairwise_append]
  refine ⟨hs.sublist (List.take_sublist _ _), ?_, ?_⟩
  · rw [List.pairwise_cons]
    refine ⟨?_, hs.sublist (List.drop_sublist _ _)⟩
    intro y hy
    rcases plt_trichotomy t y with h | h | h
    · subst h; exact absurd (List.mem_of_mem_drop hy) hn
    · exact h
    · exact absurd h (mem_drop_lb hs hy)
  · intro x hx y hy
    rcases List.mem_cons.mp hy with rfl | hy
    · exact mem_take_lb hx
    · -- x in take, y in drop: order of the original list
      have := hs
      rw [← List.take_append_drop (lb keys t) keys, List.pairwise_append] at this
      exact this.2.2 x hx y hy

theorem SortedMap.set_vals (m : SortedMap) (k : Prefix) (u : UID) :
    (m.set k u).vals = m.vals.set k u := by
  unfold SortedMap.set
  simp only
  split <;> rfl

theorem SMInv.set {m : SortedMap} (h : SMInv m) (k : Prefix) (u : UID) : SMInv (m.set k u) := by
  have hv := SortedMap.set_vals m k u
  have hfst := bsearch_fst h.sorted k
  have hsnd := bsearch_snd h.sorted k
  constructor
  · unfold SortedMap.set
    simp only
    cases hb : bsearch m.keys k with
    | mk i has =>
      rw [hb] at hfst hsnd
      simp only at hfst hsnd
      cases has with
      | true =>
        simp only [if_true]
        have hm : k ∈ m.keys := hsnd.mp rfl
        have : m.keys.set i k = m.keys := by
          rw [hfst]
          exact set_eq_self (getElem_lb_of_mem h.sorted hm)
        rw [this]
        exact h.sorted
      | false =>
        simp only [Bool.false_eq_true, if_false]
        have hn : k ∉ m.keys := fun hm => by simpa using hsnd.mpr hm
        rw [hfst]
        exact sorted_insert h.sorted hn
  · intro x
    rw [hv]
    unfold SortedMap.set
    simp only
    cases hb : bsearch m.keys k with
    | mk i has =>
      rw [hb] at hfst hsnd
      simp only at hfst hsnd
      cases has with
      | true =>
        simp only [if_true]
        have hm : k ∈ m.keys := hsnd.mp rfl
        have : m.keys.set i k = m.keys := by
          rw [hfst]
          exact set_eq_self (getElem_lb_of_mem h.sorted hm)
        rw [this, h.dom x]
        unfold FMap.set
        by_cases hx : x = k
        · subst hx
          simp [(h.dom x).mp hm]
        · simp [hx]
      | false =>
        simp only [Bool.false_eq_true, if_false]
        rw [hfst]
        have : x ∈ m.keys.take (lb m.keys k) ++ k :: m.keys.drop (lb m.keys k) ↔ x = k ∨ x ∈ m.keys := by
          rw [List.mem_append, List.mem_cons]
          constructor
          · rintro (hx | hx | hx)
            · exact Or.inr (List.mem_of_mem_take hx)
            · exact Or.inl hx
            · exact Or.inr (List.mem_of_mem_drop hx)
          · rintro (hx | hx)
            · exact Or.inr (Or.inl hx)
            · rw [← List.take_append_drop (lb m.keys k) m.keys] at hx
              rcases List.mem_append.mp hx with hx | hx
              · exact Or.inl hx
              · exact Or.inr (Or.inr hx)
        rw [this, h.dom x]
        unfold FMap.set
        by_cases hx : x = k
        · simp [hx]
        · simp [hx]

theorem split_at {α : Type} {l : List α} {i : Nat} {a : α} (h : l[i]? = some a) :
    l = l.take i ++ a :: l.drop (i + 1) := by
  induction l generalizing i with
  | nil => simp at h
  | cons b rest ih =>
    cases i with
    | zero => simp at h; simp [h]
    | succ n =>
      simp at h
      simp only [List.take_succ_cons, List.drop_succ_cons, List.cons_append]
      rw [← ih h]

theorem FMap.del_of_none {κ : Type} [DecidableEq κ] (m : FMap κ) (k : κ) (h : m k = none) :
    m.del k = m := by
  funext x
  unfold FMap.del
  by_cases hx : x = k
  · simp [hx, h]
  · simp [hx]

/-- `SortedMap.Del` never panics on a well-formed map, and keeps it well-formed. -/
theorem SMInv.del {m : SortedMap} (h : SMInv m) (k : Prefix) :
    ∃ m', m.del k = some m' ∧ SMInv m' ∧ m'.vals = m.vals.del k := by
  unfold SortedMap.del
  cases hv : m.vals k with
  | none => exact ⟨m, rfl, h, (FMap.del_of_none m.vals k hv).symm⟩
  | some u =>
    have hm : k ∈ m.keys := (h.dom k).mpr (by simp [hv])
    have hfst := bsearch_fst h.sorted k
    have hget := getElem_lb_of_mem h.sorted hm
    have hlt : lb m.keys k < m.keys.length := by
      have := List.getElem?_eq_some_iff.mp hget
      exact this.1
    simp only
    cases hb : bsearch m.keys k with
    | mk i has =>
      rw [hb] at hfst
      simp only at hfst
      subst hfst
      simp only
      have hle : lb m.keys k + 1 ≤ m.keys.length := hlt
      simp only [hle, if_true]
      refine ⟨_, rfl, ?_, rfl⟩
      have hsplit := split_at hget
      have hnd : (m.keys.take (lb m.keys k) ++ k :: m.keys.drop (lb m.keys k + 1)).Nodup := by
        rw [← hsplit]; exact h.sorted.nodup
      constructor
      · show Sorted (m.keys.take (lb m.keys k) ++ m.keys.drop (lb m.keys k + 1))
        have hs := h.sorted
        unfold Sorted at hs ⊢
        rw [hsplit] at hs
        exact hs.sublist (List.Sublist.append (List.Sublist.refl _) (List.sublist_cons_self _ _))
      · intro x
        show x ∈ m.keys.take (lb m.keys k) ++ m.keys.drop (lb m.keys k + 1) ↔ ((m.vals.del k) x).isSome = true
        have hx : x ∈ m.keys ↔ x ∈ m.keys.take (lb m.keys k) ++ k :: m.keys.drop (lb m.keys k + 1) := by
          rw [← hsplit]
        unfold FMap.del
        by_cases hxk : x = k
        · subst hxk
          simp only [if_true, Option.isSome_none, Bool.false_eq_true, iff_false]
          intro hmem
          rw [List.nodup_append] at hnd
          rcases List.mem_append.mp hmem with h1 | h1
          · exact hnd.2.2 x h1 x List.mem_cons_self rfl
          · exact (List.nodup_cons.mp hnd.2.1).1 h1
        · simp only [hxk, if_false]
          rw [← h.dom x, hx]
          simp only [List.mem_append, List.mem_cons, hxk, false_or]

end AGH.C04
