/-
C12: the sessions.db record codec, the code-level switch, and the serial
comparison of the proposed horizon repair.
-/
import AGH.Lemmas.AuthConc
namespace AGH.C12

theorem length_be (n : Nat) : ∀ k, (be n k).length = k
  | 0 => rfl
  | k + 1 => by simp [be, length_be n k]

theorem unbe_be (n : Nat) : ∀ k, unbe (be n k) = n % 256 ^ k
  | 0 => by simp [be, unbe, Nat.mod_one]
  | k + 1 => by
    simp only [be, unbe, length_be, unbe_be n k]
    rw [Nat.pow_succ, Nat.mod_mul]
    rw [Nat.mul_comm (n / 256 ^ k % 256)]
    omega

theorem decode_encode (name : List Nat) (expire : Nat) (he : expire < u32) (hn : name.length < 65536) :
    decodeSess (encodeSess name expire) = some (name, expire) := by
  have h4 : (encodeSess name expire).take 4 = be expire 4 := by
    simp [encodeSess, List.take_append_of_le_length, length_be]
  have h2 : ((encodeSess name expire).drop 4).take 2 = be name.length 2 := by
    simp [encodeSess, List.drop_append_of_le_length, length_be, List.take_append_of_le_length]
  have h6 : (encodeSess name expire).drop 6 = name := by
    have : encodeSess name expire = (be expire 4 ++ be name.length 2) ++ name := by simp [encodeSess]
    rw [this, List.drop_append_of_le_length (by simp [length_be])]
    simp [length_be]
  have hl : ¬ (encodeSess name expire).length < 6 := by
    simp [encodeSess, length_be]; omega
  unfold decodeSess
  simp only [hl, if_false, h4, h2, h6, unbe_be]
  have e1 : expire % 256 ^ 4 = expire := Nat.mod_eq_of_lt (by unfold u32 at he; omega)
  have e2 : name.length % 256 ^ 2 = name.length := Nat.mod_eq_of_lt (by omega)
  simp [e1, e2]

theorem decode_short (data : List Nat) (h : data.length < 6) : decodeSess data = none := by
  simp [decodeSess, h]

theorem stepFX_false (st : St) (now : Nat) (dbOK : Bool) (o : Op) :
    stepFX false true st now dbOK o = stepF st now dbOK o := by
  cases o with
  | login req good user => rfl
  | basic req good => rfl
  | request tok =>
    simp only [stepFX, stepF, checkSessionFX, checkSessionF, expiredAt, Bool.false_eq_true, if_false,
      decide_eq_true_eq]
  | logout tok => rfl
  | restart =>
    simp only [stepFX, stepF, restartX, restart, expiredAt, Bool.false_eq_true, if_false]

/-- The serial comparison of the repair decides "expired" exactly, for real
(unbounded) times: `E` the real expiry of a session, at most `ttl` ahead of
the clock, looked at less than `2^32 − ttl` seconds after it expired. -/
theorem expiredAt_fixed_exact (E nowS ttl : Nat) (httl : ttl < u32) (hE : E ≤ nowS + ttl)
    (hgap : E ≤ nowS → nowS - E < u32 - ttl) :
    expiredAt true (E % u32) (nowS % u32) ttl = decide (E ≤ nowS) := by
  unfold expiredAt u32 at *
  simp only [if_true]
  by_cases h : E ≤ nowS
  · have hg := hgap h
    simp only [h, decide_true, Bool.or_eq_true, beq_iff_eq, decide_eq_true_eq]
    omega
  · simp only [h, decide_false, Bool.or_eq_false_iff, beq_eq_false_iff_ne, ne_eq, decide_eq_false_iff_not]
    omega

end AGH.C12
