/-
C08 lemmas: one step of the model against the monitor, and the invariant that
every stored address is a valid (4- or 16-byte) canonical address.
-/
import AGH.Lemmas.RecordAnon
import AGH.Lemmas.RecordOwner
import AGH.Lemmas.RecordMultiset
set_option linter.unusedSimpArgs false
set_option linter.unusedVariables false
namespace AGH.C08
open AGH AGH.Bytes

/-! ## processQuery -/

/-- The log condition and the count condition of `processQueryLogsAndStats`. -/
def logCond (s : State) (q : Query) : Bool :=
  shouldLog s.conf (Ignore.normalize q.name) q.qtype (queryIDs q) && s.conf.qlogOn

def countCond (s : State) (q : Query) : Bool :=
  shouldCount s.conf (Ignore.normalize q.name) (queryIDs q) && s.conf.statsOn &&
    decide (Ignore.normalize q.name ≠ [])

theorem processQuery_eq (s : State) (q : Query) :
    processQuery s q =
      { s with
        mem := if logCond s q then s.mem ++ [logEntry s.conf q] else s.mem,
        sClients := if countCond s q then bump s.sClients (statKey s.conf q) else s.sClients,
        sDomains := if countCond s q then bump s.sDomains (Ignore.normalize q.name) else s.sDomains } := by
  have e1 : processQuery s q =
      (let s1 := if logCond s q then { s with mem := s.mem ++ [logEntry s.conf q] } else s
       if countCond s q then
         { s1 with sClients := bump s1.sClients (statKey s.conf q),
                   sDomains := bump s1.sDomains (Ignore.normalize q.name) }
       else s1) := rfl
  rw [e1]
  cases logCond s q <;> cases countCond s q <;> rfl

theorem logCond_false_of_name {s : State} {q : Query} (h : nameIgnoredLog s.conf q.name = true) :
    logCond s q = false := by
  unfold nameIgnoredLog at h
  simp [logCond, shouldLog, qlogShouldLog, h]

theorem logCond_false_of_client {s : State} {q : Query}
    (h : fromIgnoredLog s.conf q.cid (canon q.addr) q.zone = true) : logCond s q = false := by
  have := fromIgnoredLog_findMultiple h
  simp [logCond, shouldLog, qlogShouldLog, queryIDs_eq, this]

theorem countCond_false_of_name {s : State} {q : Query} (h : nameIgnoredStat s.conf q.name = true) :
    countCond s q = false := by
  unfold nameIgnoredStat at h
  simp [countCond, shouldCount, h]

theorem countCond_false_of_client {s : State} {q : Query} (hz : ZoneOK s.conf)
    (h : fromIgnoredStat s.conf q.cid (canon q.addr) q.zone = true) : countCond s q = false := by
  have := fromIgnoredStat_shouldCount hz h
  simp [countCond, shouldCount, queryIDs_eq, this]

/-! ## The stored-address invariant -/

def validAddr (a : Bytes) : Prop := a.length = 4 ∨ a.length = 16

/-- Every record of the memory buffer and of the file holds a valid address. -/
def Inv (s : State) : Prop := ∀ e ∈ s.mem ++ s.file, validAddr e.ip

theorem ipMut_canon_valid (anon : Bool) {a : Bytes} (h : validAddr a) : validAddr (canon (ipMut anon a)) := by
  unfold ipMut
  cases anon
  · exact canon_length a h
  · apply canon_length
    simp only [if_true]
    show (anonymize a).length = 4 ∨ (anonymize a).length = 16
    rw [anonymize_length]
    exact h

theorem masked_ipMut_true {a : Bytes} (h : validAddr a) : masked (canon (ipMut true a)) = true :=
  masked_canon_anonymize a h

theorem Inv_step {s : State} (hi : Inv s) (op : Op) (hv : op.valid = true) : Inv (step s op).1 := by
  cases op with
  | query q =>
    have hq : validAddr q.addr := by
      simp [Op.valid] at hv
      exact hv
    simp only [step, processQuery_eq]
    intro e he
    simp only [List.mem_append] at he
    rcases he with he | he
    · by_cases hc : logCond s q = true
      · simp only [hc, if_true, List.mem_append, List.mem_singleton] at he
        rcases he with he | he
        · exact hi e (List.mem_append_left _ he)
        · subst he
          exact ipMut_canon_valid _ hq
      · simp only [hc] at he
        exact hi e (List.mem_append_left _ he)
    · exact hi e (List.mem_append_right _ he)
  | flush =>
    simp only [step, flush]
    intro e he
    simp only [List.append_nil, List.nil_append, List.mem_append] at he
    rcases he with he | he
    · exact hi e (List.mem_append_right _ he)
    · exact hi e (List.mem_append_left _ he)
  | qlogConf en an ign => exact hi
  | statsConf en ign => exact hi
  | setFlags n lg st =>
    simp only [step]
    cases setFlags s.conf.clients n lg st <;> exact hi
  | rmClient n =>
    simp only [step]
    cases rmClient s.conf.clients n <;> exact hi
  | search => exact hi
  | stats => exact hi
  | edit n id =>
    simp only [step]
    cases h1 : editClient s.conf.clients n id with
    | none => exact hi
    | some r => cases r <;> exact hi
  | runtime a h o => exact hi
  | tick => exact hi
  | restart =>
    simp only [step, flush]
    intro e he
    simp only [List.append_nil, List.nil_append, List.mem_append] at he
    rcases he with he | he
    · exact hi e (List.mem_append_right _ he)
    · exact hi e (List.mem_append_left _ he)
  | rotate =>
    simp only [step]
    by_cases hr : s.rotated = true
    · simp only [hr, if_true]; exact hi
    · simp only [hr]
      by_cases hf : s.file.isEmpty = true
      · simp only [hf, if_true]; exact hi
      · simp only [hf]; exact hi

theorem zips_nil_setFlags {cs cs' : List PClient} {n : Bytes} {lg st : Bool}
    (h : ∀ p ∈ cs, p.zips = []) (hs : setFlags cs n lg st = some cs') : ∀ p ∈ cs', p.zips = [] := by
  unfold setFlags at hs
  cases hf : cs.find? (·.name == n) with
  | none => rw [hf] at hs; cases hs
  | some p0 =>
    rw [hf] at hs
    simp only [Option.some.injEq] at hs
    subst hs
    intro p hp
    rcases List.mem_append.mp hp with hp | hp
    · exact h p (List.mem_filter.mp hp).1
    · simp only [List.mem_singleton] at hp
      subst hp
      exact h p0 (List.mem_of_find?_eq_some hf)

theorem zips_nil_rmClient {cs cs' : List PClient} {n : Bytes}
    (h : ∀ p ∈ cs, p.zips = []) (hs : rmClient cs n = some cs') : ∀ p ∈ cs', p.zips = [] := by
  unfold rmClient at hs
  by_cases ha : cs.any (·.name == n) = true
  · rw [if_pos ha] at hs
    simp only [Option.some.injEq] at hs
    subst hs
    intro p hp
    exact h p (List.mem_filter.mp hp).1
  · rw [if_neg ha] at hs; cases hs

/-- No operation of a history takes the repair away or configures a zoned address. -/
theorem ZoneOK_step {s : State} (hz : ZoneOK s.conf) (op : Op) (hv : op.valid = true) :
    ZoneOK (step s op).1.conf := by
  cases op with
  | query q => simp only [step, processQuery_eq]; exact hz
  | flush => exact hz
  | qlogConf en an ign => exact hz
  | statsConf en ign => exact hz
  | setFlags n lg st =>
    simp only [step]
    cases hs : setFlags s.conf.clients n lg st with
    | none => exact hz
    | some cs =>
      rcases hz with hz | hz
      · exact Or.inl hz
      · exact Or.inr (zips_nil_setFlags hz hs)
  | rmClient n =>
    simp only [step]
    cases hs : rmClient s.conf.clients n with
    | none => exact hz
    | some cs =>
      rcases hz with hz | hz
      · exact Or.inl hz
      · exact Or.inr (zips_nil_rmClient hz hs)
  | search => exact hz
  | stats => exact hz
  | edit n id =>
    simp only [step]
    cases h1 : editClient s.conf.clients n id with
    | none => exact hz
    | some r =>
      cases r with
      | none => exact hz
      | some cs =>
        rcases hz with hz | hz
        · exact Or.inl hz
        · right
          unfold editClient at h1
          cases hf : s.conf.clients.find? (·.name == n) with
          | none => rw [hf] at h1; cases h1
          | some p0 =>
            rw [hf] at h1
            simp only at h1
            by_cases hcl : clashes (s.conf.clients.filter (·.name != n)) (p0.addID id) = true
            · rw [if_pos hcl] at h1; cases h1
            · rw [if_neg hcl] at h1
              simp only [Option.some.injEq] at h1
              subst h1
              intro p hp
              rcases List.mem_append.mp hp with hp | hp
              · exact hz p (List.mem_filter.mp hp).1
              · simp only [List.mem_singleton] at hp
                subst hp
                have h0 := hz p0 (List.mem_of_find?_eq_some hf)
                cases id with
                | zip a z => simp [Op.valid] at hv
                | ip a => simpa [PClient.addID] using h0
                | net a b => simpa [PClient.addID] using h0
                | mac m => simpa [PClient.addID] using h0
                | cid c => simpa [PClient.addID] using h0
  | runtime a h o => exact hz
  | tick => exact hz
  | restart => exact hz
  | rotate =>
    simp only [step]
    by_cases hr : s.rotated = true
    · simp only [hr, if_true]; exact hz
    · simp only [hr]
      by_cases hf : s.file.isEmpty = true
      · simp only [hf, if_true]; exact hz
      · simp only [hf]; exact hz

/-! ## The model's observation satisfies the monitor -/

theorem and_not_ne_true {a b : Bool} (h : a = true → b = true) : ¬ ((a && !b) = true) := by
  cases a <;> cases b <;> simp_all

theorem specQuery_model (s : State) (q : Query) (hq : validAddr q.addr) (hz : ZoneOK s.conf) :
    specQuery s.conf s.shadow q (processQuery s q).mem (processQuery s q).sClients
      (processQuery s q).sDomains = none := by
  rw [processQuery_eq]
  simp only [State.shadow]
  -- facts about the log part
  have added : minus (if logCond s q then s.mem ++ [logEntry s.conf q] else s.mem) s.mem =
      if logCond s q then [logEntry s.conf q] else [] := by
    by_cases hc : logCond s q = true
    · rw [if_pos hc, if_pos hc]; exact minus_append_self _ _
    · rw [if_neg hc, if_neg hc]; exact minus_self _
  have gC : ∀ x ∈ grown (if countCond s q then bump s.sClients (statKey s.conf q) else s.sClients) s.sClients,
      countCond s q = true ∧ x = statKey s.conf q := by
    intro x hx
    by_cases hc : countCond s q = true
    · rw [if_pos hc] at hx
      exact ⟨hc, grown_bump hx⟩
    · rw [if_neg hc, grown_self] at hx
      simp at hx
  have gD : countCond s q = false →
      grown (if countCond s q then bump s.sDomains (Ignore.normalize q.name) else s.sDomains) s.sDomains = [] := by
    intro hc
    simp [hc, grown_self]
  have gC0 : countCond s q = false →
      grown (if countCond s q then bump s.sClients (statKey s.conf q) else s.sClients) s.sClients = [] := by
    intro hc
    simp [hc, grown_self]
  unfold specQuery
  simp only [added]
  rw [if_neg, if_neg, if_neg, if_neg, if_neg, if_neg]
  · -- stats-unmasked
    apply and_not_ne_true
    intro ha
    apply List.all_eq_true.mpr
    intro x hx
    obtain ⟨_, rfl⟩ := gC x hx
    unfold statKey
    by_cases hc : q.cid ≠ []
    · rw [if_pos hc]; rfl
    · rw [if_neg hc]
      simp only [keyMasked, ha]
      exact masked_ipMut_true hq
  · -- log-unmasked
    apply and_not_ne_true
    intro ha
    by_cases hc : logCond s q = true
    · rw [if_pos hc]
      simp only [List.all_cons, List.all_nil, Bool.and_true, logEntry, ha]
      exact masked_ipMut_true hq
    · rw [if_neg hc]; rfl
  · -- stats-ignored-client
    apply and_not_ne_true
    intro h
    have := countCond_false_of_client hz h
    simp [gC0 this, gD this]
  · -- stats-ignored-name
    apply and_not_ne_true
    intro h
    have := countCond_false_of_name h
    simp [gC0 this, gD this]
  · -- log-ignored-client
    apply and_not_ne_true
    intro h
    simp [logCond_false_of_client h]
  · -- log-ignored-name
    apply and_not_ne_true
    intro h
    simp [logCond_false_of_name h]

theorem specFlush_model (s : State) : specFlush s.shadow (flush s).mem (flush s).file = none := by
  simp [specFlush, State.shadow, flush, minus_append_self, minus_self, minus_nil_left]

theorem firstSome_none {α : Type} {f : α → Option String} {l : List α} (h : ∀ x ∈ l, f x = none) :
    firstSome f l = none := by
  induction l with
  | nil => rfl
  | cons x rest ih =>
    simp only [firstSome, h x (List.mem_cons_self ..)]
    exact ih (fun y hy => h y (List.mem_cons_of_mem _ hy))

/-- What `search` returns: the report of a stored record that is kept. -/
theorem mem_search {s : State} {r : Entry} (h : r ∈ search s) :
    ∃ e, e ∈ s.mem ++ s.file ∧ keeps s.conf e = true ∧ r = report s.conf e := by
  unfold search at h
  obtain ⟨e, he, rfl⟩ := List.mem_map.mp h
  refine ⟨e, ?_, ?_, rfl⟩
  · rcases List.mem_append.mp he with he | he
    · exact List.mem_append_left _ (List.mem_reverse.mp (List.mem_filter.mp he).1)
    · exact List.mem_append_right _ (List.mem_reverse.mp (List.mem_filter.mp he).1)
  · rcases List.mem_append.mp he with he | he <;> exact (List.mem_filter.mp he).2

theorem entry_ids (e : Entry) :
    ((if e.cid ≠ [] then [QID.cid e.cid] else []) ++ [QID.ip e.ip]) = idsOf e.cid e.ip := by
  unfold idsOf
  by_cases h : e.cid ≠ [] <;> simp [h]

/-- A kept record is neither for an ignored name nor from an ignored client. -/
theorem keeps_sound {c : Conf} {e : Entry} (h : keeps c e = true) :
    Ignore.has c.ignQ e.name = false ∧ fromIgnoredLog c e.cid e.ip = false := by
  simp only [keeps, Bool.and_eq_true, Bool.not_eq_true'] at h
  refine ⟨h.1, ?_⟩
  cases hf : fromIgnoredLog c e.cid e.ip
  · rfl
  · have := fromIgnoredLog_findMultiple hf
    have h2 := h.2
    simp only [entryClientIgnored, entry_ids, this] at h2
    simp at h2

theorem specFound_model {s : State} (hi : Inv s) {r : Entry} (h : r ∈ search s) :
    specFound s.conf s.shadow r = none := by
  obtain ⟨e, he, hk, rfl⟩ := mem_search h
  obtain ⟨hn, hc⟩ := keeps_sound hk
  have hin : e ∈ standsFor s.conf s.shadow (report s.conf e) := by
    unfold standsFor
    apply List.mem_filter.mpr
    exact ⟨he, by simp⟩
  unfold specFound
  rw [if_neg, if_neg, if_neg, if_neg]
  · -- search-ignored-client
    intro hall
    have := List.all_eq_true.mp hall e hin
    simp [hc] at this
  · -- search-ignored-name
    simp [report, hn]
  · -- search-foreign-record
    intro hem
    cases hl : standsFor s.conf s.shadow (report s.conf e) with
    | nil => rw [hl] at hin; simp at hin
    | cons _ _ => rw [hl] at hem; simp at hem
  · -- search-unmasked
    apply and_not_ne_true
    intro ha
    simp only [report, ha]
    exact masked_ipMut_true (hi e he)

theorem grown_of_subset {α : Type} [BEq α] [LawfulBEq α] {a m : List (α × Nat)} (h : ∀ kv ∈ a, kv ∈ m) :
    grown a m = [] := by
  unfold grown
  have : a.filter (fun kv => decide (kv.2 > cnt m kv.1)) = [] := by
    apply List.filter_eq_nil_iff.mpr
    intro kv hkv
    have := le_cnt_of_mem (m := m) (k := kv.1) (n := kv.2) (h kv hkv)
    simp
    omega
  simp [this]

theorem specReport_model (s : State) :
    (match statsReport s with
     | .report sc sd => specReport s.shadow sc sd
     | _ => none) = none := by
  have h1 : grown ((s.dClients ++ s.sClients).filter
      (fun kv => shouldCountClient s.conf.fixZone s.conf.clients s.conf.leases [kv.1.qid]))
      (s.dClients ++ s.sClients) = [] := grown_of_subset (fun kv h => (List.mem_filter.mp h).1)
  have h2 : grown ((s.dDomains ++ s.sDomains).filter (fun kv => !Ignore.has s.conf.ignS kv.1))
      (s.dDomains ++ s.sDomains) = [] :=
    grown_of_subset (fun kv h => (List.mem_filter.mp h).1)
  simp only [statsReport, specReport, State.shadow, h1, h2]
  rfl

/-- Storing units: the database tables are the concatenation of what the
database and the memory unit held. -/
theorem specDisk_model (sh : Shadow) (sc : List (Key × Nat)) (sd : List (Bytes × Nat))
    (hc : ∀ kv ∈ sc, kv ∈ sh.sc) (hd : ∀ kv ∈ sd, kv ∈ sh.sd) :
    specDisk sh (sh.dc ++ sh.sc) (sh.dd ++ sh.sd) sc sd = none := by
  simp only [specDisk, grown_self, grown_of_subset hc, grown_of_subset hd]
  rfl

/-! ## The full finder and the reported record -/

theorem isBlocked_rule_ip {acc : Access} {id : QID} {a : Bytes} (h : (isBlocked acc id).2 = .ip a) :
    id = .ip a := by
  cases id with
  | cid c => simp [isBlocked] at h
  | ip b =>
    simp only [isBlocked] at h
    split at h
    · simp at h; rw [h]
    · split at h
      · simp at h
      · simp at h; rw [h]

theorem clientFull_rule (c : Conf) (rt : List RT) (id : QID) :
    (clientFull c rt id).1.rule = (isBlocked c.access id).2 := by
  unfold clientFull
  cases storageFindLoose c.clients c.leases id with
  | some p => rfl
  | none =>
    cases id with
    | cid x => rfl
    | ip a => simp only; cases rtFind rt a <;> rfl

/-- An address-valued `disallowed_rule` is the text of one of the looked-up ids. -/
theorem findFull_rule_ip {c : Conf} {rt : List RT} {ids : List QID} {i : Info} {g : Bool} {a : Bytes}
    (h : findFull c rt ids = some (i, g)) (hr : i.rule = .ip a) : QID.ip a ∈ ids := by
  induction ids with
  | nil => simp [findFull] at h
  | cons id rest ih =>
    simp only [findFull] at h
    have here : (clientFull c rt id).1.rule = .ip a → QID.ip a ∈ id :: rest := by
      intro h1
      rw [clientFull_rule] at h1
      rw [isBlocked_rule_ip h1]
      exact List.mem_cons_self ..
    by_cases hart : (clientFull c rt id).2.1 = true
    · simp only [hart, if_true] at h
      cases hf : findFull c rt rest with
      | some x =>
        rw [hf] at h
        simp only [Option.some.injEq] at h
        subst h
        exact List.mem_cons_of_mem _ (ih hf)
      | none =>
        rw [hf] at h
        simp only [Option.some.injEq, Prod.mk.injEq] at h
        exact here (by rw [h.1]; exact hr)
    · simp only [hart] at h
      simp only [Bool.false_eq_true, if_false, Option.some.injEq, Prod.mk.injEq] at h
      exact here (by rw [h.1]; exact hr)

theorem entryIDs_eq (e : Entry) : entryIDs e = idsOf e.cid e.ip := by
  unfold entryIDs idsOf
  by_cases h : e.cid ≠ [] <;> simp [h]

theorem mem_entryIDs_ip {e : Entry} {a : Bytes} (h : QID.ip a ∈ entryIDs e) : a = e.ip := by
  unfold entryIDs at h
  by_cases hc : e.cid ≠ []
  · simp [hc] at h; exact h
  · simp [hc] at h; exact h

/-- The ignore flag the full finder (with runtime records and access settings)
hands to `ShouldLog` and to the search is the one of the reduced finder: runtime
records and the access settings never change the decision. -/
theorem findFull_flag (c : Conf) (rt : List RT) (cid a : Bytes) :
    ((findFull c rt (idsOf cid a)).map (·.2) == some true) =
      (findMultiple c.clients c.leases (idsOf cid a) == some true) := by
  have last : ((findFull c rt [QID.ip a]).map (·.2) == some true) =
      (findMultiple c.clients c.leases [QID.ip a] == some true) := by
    cases h1 : storageFindLoose c.clients c.leases (.ip a) with
    | some p => cases hp : p.ignLog <;> simp [findFull, findMultiple, clientFull, h1, hp]
    | none => cases h2 : rtFind rt a <;> simp [findFull, findMultiple, clientFull, h1, h2]
  unfold idsOf
  by_cases hc : cid ≠ []
  · rw [if_pos hc]
    cases h0 : storageFindLoose c.clients c.leases (.cid cid) with
    | some p => cases hp : p.ignLog <;> simp [findFull, findMultiple, clientFull, h0, hp]
    | none =>
      have e1 : findFull c rt [QID.cid cid, QID.ip a] =
          (match findFull c rt [QID.ip a] with
           | some x => some x
           | none => some ((clientFull c rt (.cid cid)).1, false)) := by
        have hart : (clientFull c rt (.cid cid)).2.1 = true := by simp [clientFull, h0]
        conv => lhs; unfold findFull
        simp only [hart, if_true]
        cases findFull c rt [QID.ip a] <;> rfl
      have e2 : findMultiple c.clients c.leases [QID.cid cid, QID.ip a] =
          findMultiple c.clients c.leases [QID.ip a] := by
        simp [findMultiple, h0]
      rw [e1, e2, ← last]
      cases hf : findFull c rt [QID.ip a] with
      | some x => rfl
      | none =>
        exfalso
        cases h1 : storageFindLoose c.clients c.leases (.ip a) with
        | some p => simp [findFull, clientFull, h1] at hf
        | none => cases h2 : rtFind rt a <;> simp [findFull, clientFull, h1, h2] at hf
  · rw [if_neg hc]; exact last

theorem mem_searchFull {s : State} {r : Reported} (h : r ∈ searchFull s) :
    ∃ e, e ∈ s.mem ++ s.file ∧ keeps s.conf e = true ∧ r = reportFull s e := by
  unfold searchFull at h
  obtain ⟨e, he, rfl⟩ := List.mem_map.mp h
  refine ⟨e, ?_, ?_, rfl⟩
  · rcases List.mem_append.mp he with he | he
    · exact List.mem_append_left _ (List.mem_reverse.mp (List.mem_filter.mp he).1)
    · exact List.mem_append_right _ (List.mem_reverse.mp (List.mem_filter.mp he).1)
  · rcases List.mem_append.mp he with he | he <;> exact (List.mem_filter.mp he).2

theorem search_eq_searchFull (s : State) : search s = (searchFull s).map (·.entry) := by
  simp [search, searchFull, List.map_map, Function.comp_def, reportFull]

/-- With anonymisation on, an included `client_info` carries no unmasked address. -/
theorem reportFull_info_masked {s : State} (hi : Inv s) {e : Entry} (he : e ∈ s.mem ++ s.file)
    (ha : s.conf.anon = true) : infoUnmasked (reportFull s e).info = false := by
  unfold reportFull
  simp only
  by_cases hinc : (canon (ipMut s.conf.anon e.ip) == e.ip) = true
  · simp only [hinc, if_true]
    cases hf : findFull s.conf s.runtime (entryIDs e) with
    | none => rfl
    | some x =>
      obtain ⟨i, g⟩ := x
      simp only [Option.map, infoUnmasked]
      cases hr : i.rule with
      | net _ _ => rfl
      | str _ => rfl
      | ip a =>
        have := mem_entryIDs_ip (findFull_rule_ip hf hr)
        subst this
        have hm := masked_ipMut_true (hi e he)
        rw [ha] at hinc
        have heq : canon (ipMut true e.ip) = e.ip := by simpa using hinc
        rw [heq] at hm
        simp [hm]
  · simp only [hinc]; rfl

theorem specReported_model {s : State} (hi : Inv s) {r : Reported} (h : r ∈ searchFull s) :
    specReported s.conf s.shadow r = none := by
  obtain ⟨e, he, hk, rfl⟩ := mem_searchFull h
  have hin : (reportFull s e).entry ∈ search s := by
    rw [search_eq_searchFull]
    exact List.mem_map.mpr ⟨_, h, rfl⟩
  unfold specReported
  rw [specFound_model hi hin]
  simp only
  rw [if_neg, if_neg]
  · intro hh
    simp only [Bool.and_eq_true] at hh
    rw [reportFull_info_masked hi he hh.1] at hh
    exact absurd hh.2 (by simp)
  · simp [reportFull]

/-- One step of the model always passes the monitor (run on its own stores). -/
theorem specStep_model {s : State} (hi : Inv s) (hz : ZoneOK s.conf) (op : Op) (hv : op.valid = true) :
    specStep s.conf s.shadow op (step s op).2 = none := by
  cases op with
  | query q =>
    have hq : validAddr q.addr := by simp [Op.valid] at hv; exact hv
    simp only [step, specStep]
    exact specQuery_model s q hq hz
  | flush => simp only [step, specStep]; exact specFlush_model s
  | qlogConf en an ign => rfl
  | statsConf en ign => rfl
  | setFlags n lg st =>
    simp only [step]
    cases setFlags s.conf.clients n lg st <;> rfl
  | rmClient n =>
    simp only [step]
    cases rmClient s.conf.clients n <;> rfl
  | search =>
    simp only [step, specStep]
    exact firstSome_none (fun r hr => specReported_model hi hr)
  | stats =>
    simp only [step, specStep]
    have := specReport_model s
    unfold statsReport at this ⊢
    exact this
  | edit n id =>
    simp only [step]
    cases h1 : editClient s.conf.clients n id with
    | none => rfl
    | some r => cases r <;> rfl
  | runtime a h o => rfl
  | tick =>
    simp only [step, specStep, tick]
    exact specDisk_model s.shadow [] [] (by simp) (by simp)
  | restart =>
    simp only [step, specStep]
    rw [specFlush_model s]
    exact specDisk_model s.shadow s.sClients s.sDomains (fun _ h => h) (fun _ h => h)
  | rotate =>
    simp only [step]
    by_cases hr : s.rotated = true
    · simp only [hr, if_true]; rfl
    · simp only [hr]
      by_cases hf : s.file.isEmpty = true
      · simp only [hf, if_true]; rfl
      · simp only [hf]
        simp [specStep, State.shadow, minus_self]

end AGH.C08
