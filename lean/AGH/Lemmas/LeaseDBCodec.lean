/-
C10 — the JSON string codec of `leases.json` round-trips every ASCII hostname
(`encoding/json` escaping incl. the HTML-safe escapes, read back by the decoder).
-/
import AGH.Model.LeaseDB
namespace AGH.C10
open AGH

theorem unhexd_hexd : ∀ n, n < 16 → unhexd (hexd n) = some n := by
  intro n hn
  have : ∀ k : Fin 16, unhexd (hexd k.val) = some k.val := by decide
  exact this ⟨n, hn⟩

/-- One escaped byte is read back as that byte, for one unit of fuel. -/
theorem readBody_escByte (b : Nat) (hb : b < 128) (f : Nat) (acc tail : Bytes) :
    readBody (f + 1) acc (escByte b ++ tail) = readBody f (b :: acc) tail := by
  unfold escByte
  by_cases h1 : b = 34
  · subst h1; simp [readBody]
  rw [if_neg h1]
  by_cases h2 : b = 92
  · subst h2; simp [readBody]
  rw [if_neg h2]
  by_cases h3 : b = 8
  · subst h3; simp [readBody]
  rw [if_neg h3]
  by_cases h4 : b = 12
  · subst h4; simp [readBody]
  rw [if_neg h4]
  by_cases h5 : b = 10
  · subst h5; simp [readBody]
  rw [if_neg h5]
  by_cases h6 : b = 13
  · subst h6; simp [readBody]
  rw [if_neg h6]
  by_cases h7 : b = 9
  · subst h7; simp [readBody]
  rw [if_neg h7]
  by_cases h8 : b < 32 ∨ b = 60 ∨ b = 62 ∨ b = 38
  · rw [if_pos h8]
    have hx := unhexd_hexd (b / 16) (by omega)
    have hy := unhexd_hexd (b % 16) (Nat.mod_lt _ (by decide))
    have hsum : b / 16 * 16 + b % 16 = b := by omega
    simp only [List.cons_append, List.nil_append, readBody, hx, hy, hsum]
    simp
  · rw [if_neg h8]
    simp only [List.cons_append, List.nil_append, readBody, if_neg h1, if_neg h2]

theorem readBody_escape : ∀ (h : Bytes), (∀ b ∈ h, b < 128) → ∀ (f : Nat) (acc rest : Bytes), h.length < f →
    readBody f acc (escape h ++ 34 :: rest) = some (acc.reverse ++ h, rest) := by
  intro h
  induction h with
  | nil =>
    intro _ f acc rest hf
    cases f with
    | zero => omega
    | succ f => simp [escape, readBody]
  | cons b t ih =>
    intro hb f acc rest hf
    cases f with
    | zero => omega
    | succ f =>
      have hbb : b < 128 := hb b List.mem_cons_self
      have : escape (b :: t) ++ 34 :: rest = escByte b ++ (escape t ++ 34 :: rest) := by
        simp [escape, List.flatMap_cons, List.append_assoc]
      rw [this, readBody_escByte b hbb f acc]
      rw [ih (fun x hx => hb x (List.mem_cons_of_mem _ hx)) f (b :: acc) rest (by simpa using hf)]
      simp

theorem escape_length_le (h : Bytes) : h.length ≤ (escape h).length := by
  induction h with
  | nil => simp [escape]
  | cons b t ih =>
    have : 1 ≤ (escByte b).length := by
      unfold escByte
      repeat' split
      all_goals simp
    simp only [escape, List.flatMap_cons, List.length_append, List.length_cons] at ih ⊢
    omega

/-- `decode (encode h) = h` for the hostname field: whatever ASCII bytes a
hostname has (quotes, backslashes, control characters, `<`, `>`, `&` included),
the JSON string the encoder writes is read back as exactly that hostname, and
the reader stops right behind the closing quote. -/
theorem readString_jsonString (h rest : Bytes) (hb : ∀ b ∈ h, b < 128) :
    readString (jsonString h ++ rest) = some (h, rest) := by
  unfold readString jsonString
  simp only [List.cons_append, List.append_assoc, List.singleton_append]
  have := readBody_escape h hb ((escape h ++ 34 :: rest).length + 1) [] rest
    (by have := escape_length_le h; simp only [List.length_append, List.length_cons]; omega)
  simpa using this

end AGH.C10
