/-
C10 — helper lemmas, part 5: the database file mirrors the table after every
operation other than a restart.
-/
import AGH.Lemmas.DHCPStep
namespace AGH.C10
open AGH

theorem Mirror_congr {s s' : State} (h : Mirror s) (h1 : s'.leases = s.leases) (h2 : s'.disk = s.disk) : Mirror s' := by
  unfold Mirror at *
  rw [h1, h2]; exact h

/-- The operation ended with `dbStore`. -/
def Stores (p : State × Reply) : Prop := ∃ x : State, p.1 = x.store

theorem Stores.mirror {p : State × Reply} (h : Stores p) : Mirror p.1 := by
  obtain ⟨x, hx⟩ := h
  rw [hx]; exact Mirror_store x

theorem handleDiscover_stores (c : Conf) (mac : Bytes) (s : State) : Stores (handleDiscover c mac s) := by
  unfold handleDiscover
  cases findLease mac s with
  | some l => exact ⟨_, rfl⟩
  | none =>
    simp only []
    rcases allocateLease c mac s with ⟨s1, r⟩
    rcases r with _ | _ | l <;> exact ⟨_, rfl⟩

theorem handleDecline_stores (c : Conf) (mac : Bytes) (rp : Bool) (rip ci : Nat) (s : State) :
    Stores (handleDecline c mac rp rip ci s) := by
  unfold handleDecline
  simp only []
  cases s.leases.find? (fun l => l.mac == mac && l.ip == msgIP rp rip ci) with
  | none => exact ⟨_, rfl⟩
  | some old =>
    simp only []
    rcases rmDynamicLease c old.mac old.ip old.host s with ⟨s1, e⟩
    cases e with
    | true => exact ⟨_, rfl⟩
    | false =>
      simp only []
      rcases allocateLease c mac s1 with ⟨s2, r⟩
      rcases r with _ | _ | nl <;> exact ⟨_, rfl⟩

theorem handleRelease_stores (c : Conf) (mac : Bytes) (rp : Bool) (rip ci : Nat) (s : State) :
    Stores (handleRelease c mac rp rip ci s) := by
  unfold handleRelease
  simp only []
  rcases releaseLoop c mac (msgIP rp rip ci) s.leases.length 0 { s with stale := [] } with ⟨s1, e⟩
  cases e <;> exact ⟨_, rfl⟩

theorem addStaticCore_stores (c : Conf) (mac : Bytes) (ip : Nat) (host : Bytes) (s : State) :
    Stores (addStaticCore c mac ip host s) := by
  unfold addStaticCore
  rcases rmDynamicLease c mac ip host s with ⟨s1, e⟩
  cases e with
  | true => exact ⟨_, rfl⟩
  | false =>
    simp only []
    cases addLease c { id := s1.nextId, mac := mac, ip := ip, host := host, static := true, exp := 0 } s1.fresh.2 with
    | error e => exact ⟨_, rfl⟩
    | ok s2 => exact ⟨_, rfl⟩

/-- One step other than a restart either ends with `dbStore` or leaves table
and file as they were.  (In `UpdateStaticLease` the second `addLease` cannot
fail once the checks have passed.) -/
theorem step_store_or_same {O : Oracle} {c : Conf} {s : State} {op : Op} (h : Inv c s) (hne : op ≠ .restart)
    (hnr : ∀ d, op ≠ .reorder d) :
    Stores (step O c s op) ∨ ((step O c s op).1.leases = s.leases ∧ (step O c s op).1.disk = s.disk) := by
  have h0 : Inv c { s with stale := [] } := Inv_congr h rfl rfl rfl rfl rfl rfl
  unfold step
  simp only []
  cases op with
  | discover mac =>
    simp only []
    split
    · exact .inr ⟨rfl, rfl⟩
    · exact .inl (handleDiscover_stores _ _ _)
  | request mac sid rp rip ci hn =>
    simp only []
    split
    · exact .inr ⟨rfl, rfl⟩
    · unfold handleRequest
      rcases handleByRequestType c mac sid rp rip ci { s with stale := [] } with ⟨lo, b⟩
      rcases lo with _ | l
      · cases b <;> exact .inr ⟨rfl, rfl⟩
      · simp only []
        split <;> exact .inl ⟨_, rfl⟩
  | decline mac rp rip ci =>
    simp only []
    split
    · exact .inr ⟨rfl, rfl⟩
    · exact .inl (handleDecline_stores _ _ _ _ _ _)
  | release mac rp rip ci =>
    simp only []
    split
    · exact .inr ⟨rfl, rfl⟩
    · exact .inl (handleRelease_stores _ _ _ _ _ _)
  | addStatic mac ip hn =>
    simp only []
    unfold addStatic
    split
    · exact .inr ⟨rfl, rfl⟩
    split
    · exact .inr ⟨rfl, rfl⟩
    split
    · exact .inr ⟨rfl, rfl⟩
    · exact .inl (addStaticCore_stores _ _ _ _ _)
  | updStatic mac ip hn =>
    simp only []
    unfold updStatic
    cases hf : findLease mac { s with stale := [] } with
    | none => exact .inr ⟨rfl, rfl⟩
    | some found =>
      simp only []
      split
      · exact .inr ⟨rfl, rfl⟩
      · next host _ =>
        split
        · exact .inr ⟨rfl, rfl⟩
        · next hchk =>
          obtain ⟨h1, h2, _, h4⟩ := updStaticCheck_none hchk
          unfold updStaticCore
          split
          · exact .inr ⟨rfl, rfl⟩
          · exact .inr ⟨rfl, rfl⟩
          · next s1 hr =>
            obtain ⟨_, _, _, hok⟩ := updStatic_add_ok (host := host) h0 hf h1 h2 h4 hr
            obtain ⟨s2, hs2⟩ := hok s1.nextId
            rw [hs2]
            exact .inl ⟨_, rfl⟩
  | rmStatic mac ip hn =>
    simp only []
    unfold rmStatic
    split
    · exact .inr ⟨rfl, rfl⟩
    · split
      · exact .inr ⟨rfl, rfl⟩
      · exact .inr ⟨rfl, rfl⟩
      · exact .inl ⟨_, rfl⟩
  | sleep d => exact .inr ⟨rfl, rfl⟩
  | restart => exact absurd rfl hne
  | reorder d => exact absurd rfl (hnr d)
  | resetLeases => exact .inl ⟨_, rfl⟩

/-- One step other than a restart keeps (or re-establishes) the mirror. -/
theorem Mirror_step {O : Oracle} {c : Conf} {s : State} {op : Op} (h : Inv c s) (hm : Mirror s)
    (hne : op ≠ .restart) : Mirror (step O c s op).1 := by
  by_cases hr : ∃ d, op = .reorder d
  · obtain ⟨d, rfl⟩ := hr
    exact Mirror_reorder d (Mirror_congr hm rfl rfl)
  · rcases step_store_or_same (O := O) h hne (fun d e => hr ⟨d, e⟩) with hs | ⟨h1, h2⟩
    · exact hs.mirror
    · exact Mirror_congr hm h1 h2

end AGH.C10
