/-
C13: every step frames its input at every depth — what is read back of the result
differs from what is read back of the input only on the paths `touched n`.
-/
import AGH.Lemmas.MigrateFrame
namespace AGH.C13
open AGH

/-- A successful step frames the re-read input and the re-read result. -/
def FrameOK (o : Oracles) (n : Nat) (es : List (Key × YVal)) (r : M YVal) : Prop :=
  match r with
  | .ok d => frameV (touched n) [] (er o (.obj es)) (some (er o d)) = true
  | .error _ => True

/-- `fieldVal` with the link to the map it read from. -/
theorem fieldVal_cases2 {T : Ty} {m : YVal} {k : Key} {r : FV} (h : fieldVal T m k = r) :
    (∃ v, r = ⟨v, true, false⟩ ∧ TyVal T v ∧ (getK m k = some v ∨ (getK m k = some .null ∧ v = zeroOf T))) ∨
    r = ⟨zeroOf T, false, false⟩ ∨ r = ⟨zeroOf T, false, true⟩ := by
  subst h
  unfold fieldVal
  cases hg : getK m k with
  | none => simp
  | some v =>
    cases T <;> cases v <;> simp [hasTy, zeroOf, TyVal]

/-- Split on the next `fieldVal`, keeping where its value came from (`hsrc`). -/
macro "fv_split2" : tactic => `(tactic| (
  generalize hfv : fieldVal _ _ _ = r at *
  fail_if_success (clear hfv r)
  rcases fieldVal_cases2 hfv with ⟨v, hr, hty, hsrc⟩ | hr | hr <;> subst hr <;> clear hfv <;>
  simp only [if_true, if_false, Bool.false_eq_true, Bool.not_true, Bool.not_false, Bool.and_true,
    Bool.and_false, Bool.true_and, Bool.false_and, Bool.or_false, Bool.or_true] <;>
  (try (simp only [TyVal] at hty; obtain ⟨w, hw⟩ := hty; subst hw)) <;> (try dsimp only) <;>
  (try (simp (config := {decide := true}) only [zeroOf, reduceCtorEq, and_false, or_false, getK,
    lookup_insert_ne, ne_eq, not_false_eq_true] at hsrc))))

/-- What `frameV_obj_mod` asks of one key. -/
def KeyFr (fp : List Path) (rp : Path) (A B : List (Key × YVal)) (k : Key) : Prop :=
  (∀ v, lookup k A = some v → frameV fp (pk k :: rp) v (lookup k B) = true) ∧
    ((lookup k B).isSome = true → (lookup k A).isSome = true ∨ isTouched fp (pk k :: rp).reverse = true)

theorem frameV_obj_mod' (fp : List Path) (rp : Path) (A B : List (Key × YVal)) (K : List Key)
    (hr : isTouched fp rp.reverse = true ∨ reaches fp rp.reverse = true)
    (hdiff : ∀ k, k ∉ K → lookup k B = lookup k A) (hK : ∀ k ∈ K, KeyFr fp rp A B k) :
    frameV fp rp (.obj A) (some (.obj B)) = true :=
  frameV_obj_mod fp rp A B K hr hdiff hK

theorem allKeys_nil {P : Key → Prop} : ∀ k ∈ ([] : List Key), P k := by simp
theorem allKeys_cons {P : Key → Prop} {k : Key} {K : List Key} (h : P k) (hK : ∀ k' ∈ K, P k') :
    ∀ k' ∈ k :: K, P k' := by
  intro k' hk'; simp at hk'; rcases hk' with rfl | hk'
  · exact h
  · exact hK k' hk'

theorem key_touched {fp : List Path} {rp : Path} {k : Key} {A B : List (Key × YVal)}
    (h : isTouched fp (pk k :: rp).reverse = true) : KeyFr fp rp A B k :=
  ⟨fun v _ => frameV_touched fp _ v _ h, fun _ => Or.inr h⟩

theorem key_same {fp : List Path} {rp : Path} {k : Key} {A B : List (Key × YVal)}
    (h : lookup k B = lookup k A) : KeyFr fp rp A B k :=
  ⟨fun v hv => by rw [h, hv]; exact frameV_self fp _ v, fun hs => Or.inl (h ▸ hs)⟩

/-- The field is a section that the step changed: frame it one level down. -/
theorem key_sub (o : Oracles) {fp : List Path} {rp : Path} {k : Key} {es B : List (Key × YVal)} {x : YVal}
    (hs : lookup k es = some x) (h : frameV fp (pk k :: rp) (er o x) (lookup k B) = true) :
    KeyFr fp rp (erEnts o es) B k :=
  ⟨fun v hv => by rw [lookup_erEnts, hs] at hv; cases hv; exact h,
   fun _ => Or.inl (by simp [lookup_erEnts, hs])⟩

/-- `lookup` through inserts and erases at other keys. -/
macro "lk_diff" : tactic => `(tactic| (
  intro k hk
  simp only [List.mem_cons, List.mem_nil_iff, or_false, not_or] at hk
  simp (config := {decide := true}) [lookup_erEnts, lookup_insert_ne', lookup_erase_ne', hk]))

macro "lk_simp" : tactic => `(tactic| (
  simp (config := {decide := true}) [lookup_erEnts, lookup_insert_same, lookup_insert_ne, lookup_erase_ne, *]))

/-- Normal form of the goal: `er` pushed to the leaves. -/
macro "fr_norm" : tactic => `(tactic| (
  simp (config := {decide := true}) only [FrameOK, typeErr, bail, putK, delK, setK, er_obj, er_arr, er_str, er_int, er_bool,
    er_null, er_dur, er_strs, er_umode, erEnts_insert, erEnts_erase, erList_cons, erList_nil, erEnts_cons, erEnts_nil,
    intOf, bytesOf, boolOf, isEmptyObj, zeroOf, v14Runtime, v14Clients, v15Qlog, v16Stats, safeSearchDefault,
    scheduleDefault, v25Pprof, if_true, if_false, Bool.false_eq_true]))

/-- One level: the mapping under the current path changed at most at the keys given;
keys that are concerned as a whole, or unchanged, are discharged. -/
macro "fr_level" "[" ks:term,* "]" : tactic => `(tactic| (
  refine frameV_obj_mod' _ _ _ _ [$ks,*] (Or.inr (by decide)) (by lk_diff) ?_
  (repeat' (first | apply allKeys_nil | apply allKeys_cons))
  all_goals (first | exact key_touched (by decide) | exact key_same (by lk_simp) | skip)))

/-- Enter a changed section (a mapping that was read with `fieldVal[yobj]`). -/
macro "fr_sub" o:term : tactic => `(tactic| (
  refine key_sub $o (by assumption) ?_
  simp only [lookup_insert_same, er_obj, erEnts_insert, erEnts_erase]))

theorem step1_frame (o : Oracles) (es) : FrameOK o 1 es (migrateTo1 (.obj es)) := by
  open_step
  (repeat' fv_split2) <;> fr_norm <;> (repeat' split) <;> (try fr_norm) <;> (try trivial) <;>
    fr_level [kSchemaVersion]

theorem step2_frame (o : Oracles) (es) : FrameOK o 2 es (migrateTo2 (.obj es)) := by
  open_step
  (repeat' fv_split2) <;> fr_norm <;> (repeat' split) <;> (try fr_norm) <;> (try trivial) <;>
    fr_level [kSchemaVersion, kCoredns, kDns]

theorem step3_frame (o : Oracles) (es) : FrameOK o 3 es (migrateTo3 (.obj es)) := by
  open_step
  (repeat' fv_split2) <;> fr_norm <;> (repeat' split) <;> (try fr_norm) <;> (try trivial) <;>
    fr_level [kSchemaVersion, kDns]
  all_goals (fr_sub o; fr_level [kBootstrapDns])

theorem step5_frame (o : Oracles) (es) : FrameOK o 5 es (migrateTo5 (.obj es)) := by
  open_step
  (repeat' fv_split2) <;> fr_norm <;> (repeat' split) <;> (try fr_norm) <;> (try trivial) <;>
    fr_level [kSchemaVersion, kAuthName, kAuthPass, kUsers]

theorem step8_frame (o : Oracles) (es) : FrameOK o 8 es (migrateTo8 (.obj es)) := by
  open_step
  (repeat' fv_split2) <;> fr_norm <;> (repeat' split) <;> (try fr_norm) <;> (try trivial) <;>
    fr_level [kSchemaVersion, kDns]
  all_goals (fr_sub o; fr_level [kBindHost, kBindHosts])

theorem step9_frame (o : Oracles) (es) : FrameOK o 9 es (migrateTo9 (.obj es)) := by
  open_step
  (repeat' fv_split2) <;> fr_norm <;> (repeat' split) <;> (try fr_norm) <;> (try trivial) <;>
    fr_level [kSchemaVersion, kDns]
  all_goals (fr_sub o; fr_level [kAutohostTld, kLocalDomainName])

theorem step11_frame (o : Oracles) (es) : FrameOK o 11 es (migrateTo11 (.obj es)) := by
  open_step
  (repeat' fv_split2) <;> fr_norm <;> (repeat' split) <;> (try fr_norm) <;> (try trivial) <;>
    fr_level [kSchemaVersion, kRlimitNofile, kOs]

theorem step12_frame (o : Oracles) (es) : FrameOK o 12 es (migrateTo12 (.obj es)) := by
  open_step
  (repeat' fv_split2) <;> fr_norm <;> (repeat' split) <;> (try fr_norm) <;> (try trivial) <;>
    fr_level [kSchemaVersion, kDns]
  all_goals (fr_sub o; fr_level [kQuerylogInterval])

theorem step13_frame (o : Oracles) (es) : FrameOK o 13 es (migrateTo13 (.obj es)) := by
  open_step
  (repeat' fv_split2) <;> fr_norm <;> (repeat' split) <;> (try fr_norm) <;> (try trivial) <;>
    fr_level [kSchemaVersion, kDns, kDhcp]
  all_goals (fr_sub o; fr_level [kLocalDomainName])

theorem step14_frame (o : Oracles) (es) : FrameOK o 14 es (migrateTo14 (.obj es)) := by
  open_step
  (repeat' fv_split2) <;> fr_norm <;> (repeat' split) <;> (try fr_norm) <;> (try trivial) <;>
    fr_level [kSchemaVersion, kClients, kDns]
  all_goals (fr_sub o; fr_level [kResolveClients])

theorem step16_frame (o : Oracles) (es) : FrameOK o 16 es (migrateTo16 (.obj es)) := by
  open_step
  (repeat' fv_split2) <;> fr_norm <;> (repeat' split) <;> (try fr_norm) <;> (try trivial) <;>
    fr_level [kSchemaVersion, kDns, kStatistics]
  all_goals (fr_sub o; fr_level [kStatisticsInterval])

theorem step17_frame (o : Oracles) (es) : FrameOK o 17 es (migrateTo17 (.obj es)) := by
  open_step
  (repeat' fv_split2) <;> fr_norm <;> (repeat' split) <;> (try fr_norm) <;> (try trivial) <;>
    fr_level [kSchemaVersion, kDns]
  all_goals (fr_sub o; fr_level [kEdnsClientSubnet])

theorem step18_frame (o : Oracles) (es) : FrameOK o 18 es (migrateTo18 (.obj es)) := by
  open_step
  (repeat' fv_split2) <;> fr_norm <;> (repeat' split) <;> (try fr_norm) <;> (try trivial) <;>
    fr_level [kSchemaVersion, kDns]
  all_goals (fr_sub o; fr_level [kSafesearchEnabled, kSafeSearch])

theorem step20_frame (o : Oracles) (es) : FrameOK o 20 es (migrateTo20 (.obj es)) := by
  open_step
  (repeat' fv_split2) <;> fr_norm <;> (repeat' split) <;> (try fr_norm) <;> (try trivial) <;>
    fr_level [kSchemaVersion, kStatistics]
  all_goals (fr_sub o; fr_level [kInterval])

theorem step21_frame (o : Oracles) (es) : FrameOK o 21 es (migrateTo21 (.obj es)) := by
  open_step
  (repeat' fv_split2) <;> fr_norm <;> (repeat' split) <;> (try fr_norm) <;> (try trivial) <;>
    fr_level [kSchemaVersion, kDns]
  all_goals (fr_sub o; fr_level [kBlockedServices])

theorem step23_frame (o : Oracles) (es) : FrameOK o 23 es (migrateTo23 o (.obj es)) := by
  open_step
  (repeat' fv_split2) <;> fr_norm <;> (repeat' split) <;> (try fr_norm) <;> (try trivial) <;>
    fr_level [kSchemaVersion, kBindHost, kBindPort, kWebSessionTtl, kHttp]

theorem step25_frame (o : Oracles) (es) : FrameOK o 25 es (migrateTo25 (.obj es)) := by
  open_step
  (repeat' fv_split2) <;> fr_norm <;> (repeat' split) <;> (try fr_norm) <;> (try trivial) <;>
    fr_level [kSchemaVersion, kDebugPprof, kHttp]
  all_goals (fr_sub o; fr_level [kPprof])

theorem step28_frame (o : Oracles) (es) : FrameOK o 28 es (migrateTo28 (.obj es)) := by
  open_step
  (repeat' fv_split2) <;> fr_norm <;> (repeat' split) <;> (try fr_norm) <;> (try trivial) <;>
    fr_level [kSchemaVersion, kDns]
  all_goals (fr_sub o; fr_level [kAllServers, kFastestAddr, kUpstreamMode])

end AGH.C13
