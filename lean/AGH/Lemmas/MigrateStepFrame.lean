/-
C13: every step frames its input at every depth — what is read back of the result
differs from what is read back of the input only on the paths `touched n`.
-/
import AGH.Lemmas.MigrateFrame
namespace AGH.C13
open AGH

/-- A successful step frames the re-read input and the re-read result. -/
def FrameOK (o : Oracles) (n : Nat) (es : List (Key × YVal)) (r : M YVal) : Prop :=
  match r with
  | .ok d => frameV (touched n) [] (er o (.obj es)) (some (er o d)) = true
  | .error _ => True

/-- `fieldVal` with the link to the map it read from. -/
theorem fieldVal_cases2 {T : Ty} {m : YVal} {k : Key} {r : FV} (h : fieldVal T m k = r) :
    (∃ v, r = ⟨v, true, false⟩ ∧ TyVal T v ∧ (getK m k = some v ∨ (getK m k = some .null ∧ v = zeroOf T))) ∨
    r = ⟨zeroOf T, false, false⟩ ∨ r = ⟨zeroOf T, false, true⟩ := by
  subst h
  unfold fieldVal
  cases hg : getK m k with
  | none => simp
  | some v =>
    cases T <;> cases v <;> simp [hasTy, zeroOf, TyVal]

/-- Split on the next `fieldVal`, keeping where its value came from (`hsrc`). -/
macro "fv_split2" : tactic => `(tactic| (
  generalize hfv : fieldVal _ _ _ = r at *
  fail_if_success (clear hfv r)
  rcases fieldVal_cases2 hfv with ⟨v, hr, hty, hsrc⟩ | hr | hr <;> subst hr <;> clear hfv <;>
  simp only [if_true, if_false, Bool.false_eq_true, Bool.not_true, Bool.not_false, Bool.and_true,
    Bool.and_false, Bool.true_and, Bool.false_and, Bool.or_false, Bool.or_true] <;>
  (try (simp only [TyVal] at hty; obtain ⟨w, hw⟩ := hty; subst hw)) <;> (try dsimp only) <;>
  (try (simp (config := {decide := true}) only [zeroOf, reduceCtorEq, and_false, or_false, getK,
    lookup_insert_ne, ne_eq, not_false_eq_true] at hsrc))))

/-- What `frameV_obj_mod` asks of one key. -/
def KeyFr (fp : List Path) (rp : Path) (A B : List (Key × YVal)) (k : Key) : Prop :=
  (∀ v, lookup k A = some v → frameV fp (pk k :: rp) v (lookup k B) = true) ∧
    ((lookup k B).isSome = true → (lookup k A).isSome = true ∨ isTouched fp (pk k :: rp).reverse = true)

theorem frameV_obj_mod' (fp : List Path) (rp : Path) (A B : List (Key × YVal)) (K : List Key)
    (hr : isTouched fp rp.reverse = true ∨ reaches fp rp.reverse = true)
    (hdiff : ∀ k, k ∉ K → lookup k B = lookup k A) (hK : ∀ k ∈ K, KeyFr fp rp A B k) :
    frameV fp rp (.obj A) (some (.obj B)) = true :=
  frameV_obj_mod fp rp A B K hr hdiff hK

theorem allKeys_nil {P : Key → Prop} : ∀ k ∈ ([] : List Key), P k := by simp
theorem allKeys_cons {P : Key → Prop} {k : Key} {K : List Key} (h : P k) (hK : ∀ k' ∈ K, P k') :
    ∀ k' ∈ k :: K, P k' := by
  intro k' hk'; simp at hk'; rcases hk' with rfl | hk'
  · exact h
  · exact hK k' hk'

theorem key_touched {fp : List Path} {rp : Path} {k : Key} {A B : List (Key × YVal)}
    (h : isTouched fp (pk k :: rp).reverse = true) : KeyFr fp rp A B k :=
  ⟨fun v _ => frameV_touched fp _ v _ h, fun _ => Or.inr h⟩

theorem key_same {fp : List Path} {rp : Path} {k : Key} {A B : List (Key × YVal)}
    (h : lookup k B = lookup k A) : KeyFr fp rp A B k :=
  ⟨fun v hv => by rw [h, hv]; exact frameV_self fp _ v, fun hs => Or.inl (h ▸ hs)⟩

/-- The field is a section that the step changed: frame it one level down. -/
theorem key_sub (o : Oracles) {fp : List Path} {rp : Path} {k : Key} {es B : List (Key × YVal)} {x : YVal}
    (hs : lookup k es = some x) (h : frameV fp (pk k :: rp) (er o x) (lookup k B) = true) :
    KeyFr fp rp (erEnts o es) B k :=
  ⟨fun v hv => by rw [lookup_erEnts, hs] at hv; cases hv; exact h,
   fun _ => Or.inl (by simp [lookup_erEnts, hs])⟩

/-- `lookup` through inserts and erases at other keys. -/
macro "lk_diff" : tactic => `(tactic| (
  intro k hk
  simp only [List.mem_cons, List.mem_nil_iff, or_false, not_or] at hk
  simp (config := {decide := true}) [lookup_erEnts, lookup_insert_ne', lookup_erase_ne', hk]))

macro "lk_simp" : tactic => `(tactic| (
  simp (config := {decide := true}) [lookup_erEnts, lookup_insert_same, lookup_insert_ne, lookup_erase_ne, *]))

/-- Normal form of the goal: `er` pushed to the leaves. -/
macro "fr_norm" : tactic => `(tactic| (
  simp (config := {decide := true}) only [FrameOK, typeErr, bail, putK, delK, setK, er_obj, er_arr, er_str, er_int, er_bool,
    er_null, er_dur, er_strs, er_umode, erEnts_insert, erEnts_erase, erList_cons, erList_nil, erEnts_cons, erEnts_nil,
    intOf, bytesOf, boolOf, isEmptyObj, zeroOf, v14Runtime, v14Clients, v15Qlog, v16Stats, safeSearchDefault,
    scheduleDefault, v25Pprof, if_true, if_false, Bool.false_eq_true]))

/-- The same without unfolding `FrameOK` (so that `split` works on the step, not on it). -/
macro "fr_pre" : tactic => `(tactic| (
  simp (config := {decide := true}) only [typeErr, bail, putK, delK, setK,
    intOf, bytesOf, boolOf, isEmptyObj, zeroOf, v14Runtime, v14Clients, v15Qlog, v16Stats, safeSearchDefault,
    scheduleDefault, v25Pprof, if_true, if_false, Bool.false_eq_true]))

/-- One level: the mapping under the current path changed at most at the keys given;
keys that are concerned as a whole, or unchanged, are discharged. -/
macro "fr_level" "[" ks:term,* "]" : tactic => `(tactic| (
  refine frameV_obj_mod' _ _ _ _ [$ks,*] (Or.inr (by decide)) (by lk_diff) ?_
  (repeat' (first | exact allKeys_nil | refine allKeys_cons ?_ ?_))
  all_goals (first | exact key_touched (by decide) | (refine key_same ?_; lk_simp; done) | skip)))

/-- Enter a changed section (a mapping that was read with `fieldVal[yobj]`). -/
macro "fr_sub" o:term : tactic => `(tactic| (
  refine key_sub $o (by assumption) ?_
  simp (config := {decide := true}) only [lookup_insert_same, lookup_insert_ne, ne_eq, not_false_eq_true, er_obj,
    erEnts_insert, erEnts_erase]))

theorem step1_frame (o : Oracles) (es) : FrameOK o 1 es (migrateTo1 (.obj es)) := by
  open_step
  (repeat' fv_split2) <;> (try fr_pre) <;> (repeat' split) <;> (try fr_norm) <;> (try trivial) <;>
    fr_level [kSchemaVersion]

theorem step2_frame (o : Oracles) (es) : FrameOK o 2 es (migrateTo2 (.obj es)) := by
  open_step
  (repeat' fv_split2) <;> (try fr_pre) <;> (repeat' split) <;> (try fr_norm) <;> (try trivial) <;>
    fr_level [kSchemaVersion, kCoredns, kDns]

theorem step3_frame (o : Oracles) (es) : FrameOK o 3 es (migrateTo3 (.obj es)) := by
  open_step
  (repeat' fv_split2) <;> (try fr_pre) <;> (repeat' split) <;> (try fr_norm) <;> (try trivial) <;>
    fr_level [kSchemaVersion, kDns]
  all_goals (fr_sub o; fr_level [kBootstrapDns])

theorem step5_frame (o : Oracles) (es) : FrameOK o 5 es (migrateTo5 (.obj es)) := by
  open_step
  (repeat' fv_split2) <;> (try fr_pre) <;> (repeat' split) <;> (try fr_norm) <;> (try trivial) <;>
    fr_level [kSchemaVersion, kAuthName, kAuthPass, kUsers]

theorem step8_frame (o : Oracles) (es) : FrameOK o 8 es (migrateTo8 (.obj es)) := by
  open_step
  (repeat' fv_split2) <;> (try fr_pre) <;> (repeat' split) <;> (try fr_norm) <;> (try trivial) <;>
    fr_level [kSchemaVersion, kDns]
  all_goals (fr_sub o; fr_level [kBindHost, kBindHosts])

theorem step9_frame (o : Oracles) (es) : FrameOK o 9 es (migrateTo9 (.obj es)) := by
  open_step
  (repeat' fv_split2) <;> (try fr_pre) <;> (repeat' split) <;> (try fr_norm) <;> (try trivial) <;>
    fr_level [kSchemaVersion, kDns]
  all_goals (fr_sub o; fr_level [kAutohostTld, kLocalDomainName])

theorem step11_frame (o : Oracles) (es) : FrameOK o 11 es (migrateTo11 (.obj es)) := by
  open_step
  (repeat' fv_split2) <;> (try fr_pre) <;> (repeat' split) <;> (try fr_norm) <;> (try trivial) <;>
    fr_level [kSchemaVersion, kRlimitNofile, kOs]

theorem step12_frame (o : Oracles) (es) : FrameOK o 12 es (migrateTo12 (.obj es)) := by
  open_step
  (repeat' fv_split2) <;> (try fr_pre) <;> (repeat' split) <;> (try fr_norm) <;> (try trivial) <;>
    fr_level [kSchemaVersion, kDns]
  all_goals (fr_sub o; fr_level [kQuerylogInterval])

theorem step13_frame (o : Oracles) (es) : FrameOK o 13 es (migrateTo13 (.obj es)) := by
  open_step
  (repeat' fv_split2) <;> (try fr_pre) <;> (repeat' split) <;> (try fr_norm) <;> (try trivial) <;>
    fr_level [kSchemaVersion, kDns, kDhcp]
  all_goals (fr_sub o; fr_level [kLocalDomainName])

theorem step14_frame (o : Oracles) (es) : FrameOK o 14 es (migrateTo14 (.obj es)) := by
  open_step
  (repeat' fv_split2) <;> (try fr_pre) <;> (repeat' split) <;> (try fr_norm) <;> (try trivial) <;>
    fr_level [kSchemaVersion, kClients, kDns]
  all_goals (fr_sub o; fr_level [kResolveClients])

theorem step16_frame (o : Oracles) (es) : FrameOK o 16 es (migrateTo16 (.obj es)) := by
  open_step
  (repeat' fv_split2) <;> (try fr_pre) <;> (repeat' split) <;> (try fr_norm) <;> (try trivial) <;>
    fr_level [kSchemaVersion, kDns, kStatistics]
  all_goals (fr_sub o; fr_level [kStatisticsInterval])

theorem step17_frame (o : Oracles) (es) : FrameOK o 17 es (migrateTo17 (.obj es)) := by
  open_step
  (repeat' fv_split2) <;> (try fr_pre) <;> (repeat' split) <;> (try fr_norm) <;> (try trivial) <;>
    fr_level [kSchemaVersion, kDns]
  all_goals (fr_sub o; fr_level [kEdnsClientSubnet])

theorem step18_frame (o : Oracles) (es) : FrameOK o 18 es (migrateTo18 (.obj es)) := by
  open_step
  (repeat' fv_split2) <;> (try fr_pre) <;> (repeat' split) <;> (try fr_norm) <;> (try trivial) <;>
    fr_level [kSchemaVersion, kDns]
  all_goals (fr_sub o; fr_level [kSafesearchEnabled, kSafeSearch])

theorem step20_frame (o : Oracles) (es) : FrameOK o 20 es (migrateTo20 (.obj es)) := by
  open_step
  (repeat' fv_split2) <;> (try fr_pre) <;> (repeat' split) <;> (try fr_norm) <;> (try trivial) <;>
    fr_level [kSchemaVersion, kStatistics]
  all_goals (fr_sub o; fr_level [kInterval])

theorem step21_frame (o : Oracles) (es) : FrameOK o 21 es (migrateTo21 (.obj es)) := by
  open_step
  (repeat' fv_split2) <;> (try fr_pre) <;> (repeat' split) <;> (try fr_norm) <;> (try trivial) <;>
    fr_level [kSchemaVersion, kDns]
  all_goals (fr_sub o; fr_level [kBlockedServices])

theorem step23_frame (o : Oracles) (es) : FrameOK o 23 es (migrateTo23 o (.obj es)) := by
  open_step
  (repeat' fv_split2) <;> (try fr_pre) <;> (repeat' split) <;> (try fr_norm) <;> (try trivial) <;>
    fr_level [kSchemaVersion, kBindHost, kBindPort, kWebSessionTtl, kHttp]

theorem step25_frame (o : Oracles) (es) : FrameOK o 25 es (migrateTo25 (.obj es)) := by
  open_step
  (repeat' fv_split2) <;> (try fr_pre) <;> (repeat' split) <;> (try fr_norm) <;> (try trivial) <;>
    fr_level [kSchemaVersion, kDebugPprof, kHttp]
  all_goals (fr_sub o; fr_level [kPprof])

theorem step28_frame (o : Oracles) (es) : FrameOK o 28 es (migrateTo28 (.obj es)) := by
  open_step
  (repeat' fv_split2) <;> (try fr_pre) <;> (repeat' split) <;> (try fr_norm) <;> (try trivial) <;>
    fr_level [kSchemaVersion, kDns]
  all_goals (fr_sub o; fr_level [kAllServers, kFastestAddr, kUpstreamMode])

/-! ### steps built on `errors.Join(moveVal…)` -/

/-- After the moves the source map is the old one outside the moved keys. -/
theorem moves_src_er (o : Oracles) (ms : List (Ty × Key × Key)) (w ds : List (Key × YVal))
    {ss dd : List (Key × YVal)} {e : Bool} (hm : moves ms (.obj w) (.obj ds) = .ok (.obj ss, .obj dd, e))
    (k : Key) (hk : k ∉ srcKeys ms) : lookup k (erEnts o ss) = lookup k (erEnts o w) := by
  obtain ⟨s', d', e', hm', hf, _⟩ := moves_spec ms (.obj w) ds
  rw [hm] at hm'
  simp at hm'
  obtain ⟨rfl, _, _⟩ := hm'
  have := hf k hk
  simp only [getK] at this
  rw [lookup_erEnts, lookup_erEnts, this]

theorem step7_frame (o : Oracles) (es) : FrameOK o 7 es (migrateTo7 (.obj es)) := by
  simp only [migrateTo7, stamp, setK]
  fv_split2
  · rename_i w hs
    obtain ⟨s', d', e, hm, _, ho⟩ := moves_spec v7Moves (.obj w) []
    obtain ⟨ss, rfl⟩ := (ho trivial).elim
    simp only [hm]
    (try fr_pre) <;> (repeat' split) <;> (try fr_norm) <;> (try trivial) <;> fr_level [kSchemaVersion, kDhcp]
    fr_sub o
    refine frameV_obj_mod' _ _ _ _ [kGatewayIp, kSubnetMask, kRangeStart, kRangeEnd, kLeaseDuration, kIcmpTimeoutMsec,
      kDhcpv4] (Or.inr (by decide)) ?_ ?_
    · intro k hk
      simp only [List.mem_cons, List.mem_nil_iff, or_false, not_or] at hk
      rw [lookup_insert_ne' _ _ _ _ hk.2.2.2.2.2.2]
      exact moves_src_er o v7Moves w [] hm k (by simp [srcKeys, v7Moves, hk])
    · (repeat' (first | exact allKeys_nil | refine allKeys_cons ?_ ?_))
      all_goals exact key_touched (by decide)
  · (try fr_pre) <;> (try fr_norm) <;> fr_level [kSchemaVersion, kDhcp]
  · (try fr_pre) <;> (try fr_norm) <;> fr_level [kSchemaVersion, kDhcp]

theorem step15_frame (o : Oracles) (es) : FrameOK o 15 es (migrateTo15 (.obj es)) := by
  simp only [migrateTo15, stamp, setK, v15Qlog]
  fv_split2
  · rename_i w hs
    obtain ⟨s', d', e, hm, _, ho⟩ := moves_spec v15Moves (.obj w)
      [(kIgnored, .arr []), (kEnabled, .bool true), (kFileEnabled, .bool true),
        (kInterval, .str s2160h), (kSizeMemory, .int 1000)]
    obtain ⟨ss, rfl⟩ := (ho trivial).elim
    simp only [hm]
    (try fr_pre) <;> (repeat' split) <;> (try fr_norm) <;> (try trivial) <;>
      fr_level [kSchemaVersion, kDns, kQuerylog]
    fr_sub o
    refine frameV_obj_mod' _ _ _ _ [kQuerylogEnabled, kQuerylogFileEnabled, kQuerylogInterval, kQuerylogSizeMemory]
      (Or.inr (by decide)) ?_ ?_
    · intro k hk
      simp only [List.mem_cons, List.mem_nil_iff, or_false, not_or] at hk
      exact moves_src_er o v15Moves w _ hm k (by simp [srcKeys, v15Moves, hk])
    · (repeat' (first | exact allKeys_nil | refine allKeys_cons ?_ ?_))
      all_goals exact key_touched (by decide)
  · (try fr_pre) <;> (try fr_norm) <;> fr_level [kSchemaVersion, kDns, kQuerylog]
  · (try fr_pre) <;> (try fr_norm) <;> fr_level [kSchemaVersion, kDns, kQuerylog]

theorem step26_frame (o : Oracles) (es) : FrameOK o 26 es (migrateTo26 (.obj es)) := by
  simp only [migrateTo26, stamp, setK]
  fv_split2
  · rename_i w hs
    obtain ⟨s', d', e, hm, _, ho⟩ := moves_spec v26Moves (.obj w) []
    obtain ⟨ss, rfl⟩ := (ho trivial).elim
    simp only [hm]
    cases d' <;> (try fr_pre) <;> (repeat' split) <;> (try fr_norm) <;> (try trivial) <;>
      fr_level [kSchemaVersion, kDns, kFiltering]
    all_goals
      fr_sub o
      refine frameV_obj_mod' _ _ _ _ (srcKeys v26Moves) (Or.inr (by decide)) ?_ ?_
      · intro k hk
        exact moves_src_er o v26Moves w [] hm k hk
      · simp only [srcKeys, v26Moves]
        (repeat' (first | exact allKeys_nil | refine allKeys_cons ?_ ?_))
        all_goals exact key_touched (by decide)
  · (try fr_pre) <;> (try fr_norm) <;> fr_level [kSchemaVersion, kDns, kFiltering]
  · (try fr_pre) <;> (try fr_norm) <;> fr_level [kSchemaVersion, kDns, kFiltering]

theorem step24_frame (o : Oracles) (es) : FrameOK o 24 es (migrateTo24 (.obj es)) := by
  simp only [migrateTo24, stamp, setK]
  obtain ⟨s', d', e, hm, _, ho⟩ := moves_spec v24Moves (.obj (insert kSchemaVersion (.int ((24 : Nat) : Int)) es)) []
  obtain ⟨ss, rfl⟩ := (ho trivial).elim
  simp only [hm]
  have hag : ∀ k, k ∉ kSchemaVersion :: kLog :: srcKeys v24Moves →
      lookup k (erEnts o ss) = lookup k (erEnts o es) := by
    intro k hk
    simp only [List.mem_cons, not_or] at hk
    rw [moves_src_er o v24Moves _ [] hm k hk.2.2, erEnts_insert, lookup_insert_ne' _ _ _ _ hk.1]
  cases d' <;> (try fr_pre) <;> (repeat' split) <;> (try fr_norm) <;> (try trivial)
  all_goals
    refine frameV_obj_mod' _ _ _ _ (kSchemaVersion :: kLog :: srcKeys v24Moves) (Or.inr (by decide)) ?_ ?_
    · intro k hk
      first
        | exact hag k hk
        | (have h2 := hk; simp only [List.mem_cons, not_or] at h2; rw [lookup_insert_ne' _ _ _ _ h2.2.1]; exact hag k hk)
    · simp only [srcKeys, v24Moves]
      (repeat' (first | exact allKeys_nil | refine allKeys_cons ?_ ?_))
      all_goals exact key_touched (by decide)

/-! ### steps that change the elements of a sequence -/

theorem frameList_mapM' (o : Oracles) (fp : List Path) (rp : Path) {f : YVal → M YVal}
    (hf : ∀ x y, f x = .ok y → frameV fp (.each :: rp) (er o x) (some (er o y)) = true) :
    ∀ xs ys, mapM' f xs = .ok ys → frameList fp rp (erList o xs) (erList o ys) = true
  | [], ys, h => by simp [mapM'] at h; subst h; simp [frameList]
  | x :: xs, ys, h => by
    unfold mapM' at h
    cases hx : f x with
    | error e => simp [hx] at h
    | ok y =>
      cases hxs : mapM' f xs with
      | error e => simp [hx, hxs] at h
      | ok ys' =>
        simp [hx, hxs] at h; subst h
        simp only [erList_cons, frameList, Bool.and_eq_true]
        exact ⟨hf x y hx, frameList_mapM' o fp rp hf xs ys' hxs⟩

/-- The field is a sequence whose elements the step changed. -/
theorem key_arr (o : Oracles) {fp : List Path} {rp : Path} {k : Key} {es B : List (Key × YVal)} {xs ys : List YVal}
    (hs : lookup k es = some (.arr xs)) (hB : lookup k B = some (.arr (erList o ys)))
    (hr : isTouched fp (pk k :: rp).reverse = true ∨ reaches fp (pk k :: rp).reverse = true)
    (h : frameList fp (pk k :: rp) (erList o xs) (erList o ys) = true) :
    KeyFr fp rp (erEnts o es) B k :=
  ⟨fun v hv => by
    rw [lookup_erEnts, hs] at hv; cases hv; rw [hB, er_arr]; exact frameV_arr_of fp _ _ _ hr h,
   fun _ => Or.inl (by simp [lookup_erEnts, hs])⟩

theorem v4Client_frame (o : Oracles) (n : Nat) (rp : Path)
    (ht : isTouched (touched n) (pk kUseGlobalBlockedServices :: .each :: rp).reverse = true)
    (hr : reaches (touched n) (PC.each :: rp).reverse = true) (x y : YVal)
    (h : v4Client x = .ok y) : frameV (touched n) (.each :: rp) (er o x) (some (er o y)) = true := by
  unfold v4Client at h
  cases x <;> simp [setK] at h <;> subst h <;> try exact frameV_self _ _ _
  simp only [er_obj, erEnts_insert]
  refine frameV_obj_mod' _ _ _ _ [kUseGlobalBlockedServices] (Or.inr hr) (by lk_diff) ?_
  exact allKeys_cons (key_touched ht) allKeys_nil

theorem step4_frame (o : Oracles) (es) : FrameOK o 4 es (migrateTo4 (.obj es)) := by
  simp only [migrateTo4, stamp, setK, getK, lookup_insert_ne _ _ _ _ (by decide : kSchemaVersion ≠ kClients)]
  split
  · rename_i xs hg
    cases hm : mapM' v4Client xs with
    | error e => simp [FrameOK]
    | ok ys =>
      fr_norm
      refine frameV_obj_mod' _ _ _ _ [kSchemaVersion, kClients] (Or.inr (by decide)) (by lk_diff) ?_
      refine allKeys_cons (key_touched (by decide)) (allKeys_cons ?_ allKeys_nil)
      refine key_arr o hg (by lk_simp) (Or.inr (by decide))
        (frameList_mapM' o _ _ (v4Client_frame o 4 _ (by decide) (by decide)) xs ys hm)
  · fr_norm; fr_level [kSchemaVersion, kClients]

theorem v6Client_frame (o : Oracles) (n : Nat) (rp : Path)
    (ht : isTouched (touched n) (pk kIds :: .each :: rp).reverse = true)
    (hr : reaches (touched n) (PC.each :: rp).reverse = true) (x y : YVal)
    (h : v6Client x = .ok y) : frameV (touched n) (.each :: rp) (er o x) (some (er o y)) = true := by
  unfold v6Client at h
  cases x <;> simp [typeErr] at h
  rename_i ws
  cases hi : v6Ids (.obj ws) [kIp, kMac] with
  | error e => simp [hi] at h
  | ok ids =>
    simp [hi, setK] at h; subst h
    simp only [er_obj, erEnts_insert]
    refine frameV_obj_mod' _ _ _ _ [kIds] (Or.inr hr) (by lk_diff) ?_
    exact allKeys_cons (key_touched ht) allKeys_nil

theorem step6_frame (o : Oracles) (es) : FrameOK o 6 es (migrateTo6 (.obj es)) := by
  simp only [migrateTo6, stamp, setK]
  fv_split2
  · rename_i xs hs
    cases xs with
    | nil => (try fr_pre) <;> (try fr_norm) <;> fr_level [kSchemaVersion, kClients]
    | cons x xs =>
      simp at hs
      cases hm : mapM' v6Client (x :: xs) with
      | error e => simp [FrameOK, hm]
      | ok ys =>
        simp only [hm]
        fr_norm
        refine frameV_obj_mod' _ _ _ _ [kSchemaVersion, kClients] (Or.inr (by decide)) (by lk_diff) ?_
        refine allKeys_cons (key_touched (by decide)) (allKeys_cons ?_ allKeys_nil)
        refine key_arr o hs (by lk_simp) (Or.inr (by decide))
          (frameList_mapM' o _ _ (v6Client_frame o 6 _ (by decide) (by decide)) _ ys hm)
  · (try fr_pre) <;> (try fr_norm) <;> fr_level [kSchemaVersion, kClients]
  · (try fr_pre) <;> (try fr_norm) <;> (try trivial)

theorem v19Client_frame (o : Oracles) (n : Nat) (rp : Path)
    (ht1 : isTouched (touched n) (pk kSafesearchEnabled :: .each :: rp).reverse = true)
    (ht2 : isTouched (touched n) (pk kSafeSearch :: .each :: rp).reverse = true)
    (hr : reaches (touched n) (PC.each :: rp).reverse = true) (x y : YVal)
    (h : v19Client x = .ok y) : frameV (touched n) (.each :: rp) (er o x) (some (er o y)) = true := by
  unfold v19Client at h
  cases x <;> simp at h <;> try (subst h; exact frameV_self _ _ _)
  rename_i ws
  simp only [moveVal, safeSearchDefault, setK] at h
  revert h
  fv_split <;> intro h <;> simp [delK] at h <;> subst h <;> simp only [er_obj, erEnts_insert, erEnts_erase] <;>
    refine frameV_obj_mod' _ _ _ _ [kSafesearchEnabled, kSafeSearch] (Or.inr hr) (by lk_diff) ?_ <;>
    exact allKeys_cons (key_touched ht1) (allKeys_cons (key_touched ht2) allKeys_nil)

theorem v22Client_frame (o : Oracles) (n : Nat) (rp : Path)
    (ht : isTouched (touched n) (pk kBlockedServices :: .each :: rp).reverse = true)
    (hr : reaches (touched n) (PC.each :: rp).reverse = true) (x y : YVal)
    (h : v22Client x = .ok y) : frameV (touched n) (.each :: rp) (er o x) (some (er o y)) = true := by
  unfold v22Client at h
  cases x <;> simp [typeErr] at h
  rename_i ws
  revert h
  fv_split <;> intro h <;> simp [setK, typeErr] at h <;> subst h <;> (try exact frameV_self _ _ _) <;>
    simp only [er_obj, erEnts_insert] <;>
    refine frameV_obj_mod' _ _ _ _ [kBlockedServices] (Or.inr hr) (by lk_diff) ?_ <;>
    exact allKeys_cons (key_touched ht) allKeys_nil

theorem step19_frame (o : Oracles) (es) : FrameOK o 19 es (migrateTo19 (.obj es)) := by
  simp only [migrateTo19, stamp, setK]
  fv_split2
  · rename_i w hs
    split
    · rename_i xs hg
      simp only [getK] at hg
      cases hm : mapM' v19Client xs with
      | error e => simp [FrameOK, hm]
      | ok ys =>
        simp only [hm]
        fr_norm
        refine frameV_obj_mod' _ _ _ _ [kSchemaVersion, kClients] (Or.inr (by decide)) (by lk_diff) ?_
        refine allKeys_cons (key_touched (by decide)) (allKeys_cons ?_ allKeys_nil)
        fr_sub o
        refine frameV_obj_mod' _ _ _ _ [kPersistent] (Or.inr (by decide)) (by lk_diff) ?_
        refine allKeys_cons ?_ allKeys_nil
        refine key_arr o hg (by lk_simp) (Or.inr (by decide))
          (frameList_mapM' o _ _ (v19Client_frame o 19 _ (by decide) (by decide) (by decide)) xs ys hm)
    · (try fr_pre) <;> (try fr_norm) <;> fr_level [kSchemaVersion, kClients]
  · (try fr_pre) <;> (try fr_norm) <;> fr_level [kSchemaVersion, kClients]
  · (try fr_pre) <;> (try fr_norm) <;> (try trivial)

theorem step22_frame (o : Oracles) (es) : FrameOK o 22 es (migrateTo22 (.obj es)) := by
  simp only [migrateTo22, stamp, setK]
  fv_split2
  · rename_i w hs
    fv_split2
    · rename_i xs hp
      cases xs with
      | nil => (try fr_pre) <;> (try fr_norm) <;> fr_level [kSchemaVersion, kClients]
      | cons x xs =>
        simp at hp
        cases hm : mapM' v22Client (x :: xs) with
        | error e => simp [FrameOK, hm]
        | ok ys =>
          simp only [hm]
          fr_norm
          refine frameV_obj_mod' _ _ _ _ [kSchemaVersion, kClients] (Or.inr (by decide)) (by lk_diff) ?_
          refine allKeys_cons (key_touched (by decide)) (allKeys_cons ?_ allKeys_nil)
          fr_sub o
          refine frameV_obj_mod' _ _ _ _ [kPersistent] (Or.inr (by decide)) (by lk_diff) ?_
          refine allKeys_cons ?_ allKeys_nil
          refine key_arr o hp (by lk_simp) (Or.inr (by decide))
            (frameList_mapM' o _ _ (v22Client_frame o 22 _ (by decide) (by decide)) _ ys hm)
    · (try fr_pre) <;> (try fr_norm) <;> fr_level [kSchemaVersion, kClients]
    · (try fr_pre) <;> (try fr_norm) <;> (try trivial)
  · (try fr_pre) <;> (try fr_norm) <;> fr_level [kSchemaVersion, kClients]
  · (try fr_pre) <;> (try fr_norm) <;> (try trivial)

/-! ### v10, v27, v29 -/

theorem v10Field_lookup (o : Oracles) (w : List (Key × YVal)) (k : Key) {w' : List (Key × YVal)}
    (h : v10Field o (.obj w) k = .ok (.obj w')) : ∀ k', ¬ k' = k → lookup k' w' = lookup k' w := by
  unfold v10Field at h
  dsimp only at h
  split at h
  · simp [typeErr] at h
  · split at h
    · split at h
      · rename_i xs _
        cases hm : mapM' (v10Ups o) xs with
        | error e => simp [hm] at h
        | ok ys =>
          simp [hm, setK] at h; subst h
          intro k' hk'; exact lookup_insert_ne' _ _ _ _ hk'
      · simp at h
    · simp at h; subst h; intro _ _; rfl

theorem step10_frame (o : Oracles) (es) : FrameOK o 10 es (migrateTo10 o (.obj es)) := by
  simp only [migrateTo10, stamp, setK]
  fv_split2
  · rename_i w hs
    have hk : subOK o [] (.obj w) = true ∨ True := Or.inr trivial
    cases h1 : v10Field o (.obj w) kUpstreamDns with
    | error e => simp [FrameOK]
    | ok d1 =>
      -- the result of a block is a map
      have ho1 : ∃ w1, d1 = .obj w1 := by
        rcases v10Field_spec o w kUpstreamDns with ⟨w1, hw⟩ | ⟨e, he, _⟩
        · rw [h1] at hw; exact ⟨w1, by simpa using hw⟩
        · rw [h1] at he; simp at he
      obtain ⟨w1, rfl⟩ := ho1
      dsimp only
      cases h2 : v10Field o (.obj w1) kLocalPtrUpstreams with
      | error e => simp [FrameOK]
      | ok d2 =>
        have ho2 : ∃ w2, d2 = .obj w2 := by
          rcases v10Field_spec o w1 kLocalPtrUpstreams with ⟨w2, hw⟩ | ⟨e, he, _⟩
          · rw [h2] at hw; exact ⟨w2, by simpa using hw⟩
          · rw [h2] at he; simp at he
        obtain ⟨w2, rfl⟩ := ho2
        fr_norm
        fr_level [kSchemaVersion, kDns]
        fr_sub o
        refine frameV_obj_mod' _ _ _ _ [kUpstreamDns, kLocalPtrUpstreams] (Or.inr (by decide)) ?_ ?_
        · intro k hk
          simp only [List.mem_cons, List.mem_nil_iff, or_false, not_or] at hk
          rw [lookup_erEnts, lookup_erEnts, v10Field_lookup o w1 _ h2 k hk.2, v10Field_lookup o w _ h1 k hk.1]
        · exact allKeys_cons (key_touched (by decide)) (allKeys_cons (key_touched (by decide)) allKeys_nil)
  · (try fr_pre) <;> (try fr_norm) <;> fr_level [kSchemaVersion, kDns]
  · (try fr_pre) <;> (try fr_norm) <;> (try trivial)

/-- What `replaceDot` does to the document. -/
theorem replaceDot_shape (es : List (Key × YVal)) (key : Key) {d : YVal} (h : replaceDot (.obj es) key = .ok d) :
    d = .obj es ∨ ∃ (w : List (Key × YVal)) (xs : List YVal), lookup key es = some (.obj w) ∧
      d = .obj (insert key (.obj (insert kIgnored (.arr (xs.map v27Host)) w)) es) := by
  unfold replaceDot at h
  dsimp only at h
  revert h
  fv_split2
  · rename_i w hs
    fv_split2
    · split
      · rename_i xs hg
        intro h; simp [putK] at h
        exact Or.inr ⟨w, xs, by simpa [getK] using hs, h.symm⟩
      · intro h; simp at h; exact Or.inl h.symm
    · intro h; simp at h; exact Or.inl h.symm
    · intro h; simp [typeErr] at h
  · intro h; simp at h; exact Or.inl h.symm
  · intro h; simp [typeErr] at h

theorem step27_frame (o : Oracles) (es) : FrameOK o 27 es (migrateTo27 (.obj es)) := by
  simp only [migrateTo27, stamp, setK]
  cases h1 : replaceDot (.obj (insert kSchemaVersion (.int ((27 : Nat) : Int)) es)) kQuerylog with
  | error e => simp [FrameOK]
  | ok d1 =>
    dsimp only
    rcases replaceDot_shape _ _ h1 with rfl | ⟨q, xs, hq, rfl⟩
    · cases h2 : replaceDot (.obj (insert kSchemaVersion (.int ((27 : Nat) : Int)) es)) kStatistics with
      | error e => simp [FrameOK]
      | ok d2 =>
        rcases replaceDot_shape _ _ h2 with rfl | ⟨st, ys, hst, rfl⟩
        · fr_norm; fr_level [kSchemaVersion, kQuerylog, kStatistics]
        · simp (config := {decide := true}) only [lookup_insert_ne, ne_eq, not_false_eq_true] at hst
          fr_norm; fr_level [kSchemaVersion, kQuerylog, kStatistics]
          fr_sub o; fr_level [kIgnored]
    · simp (config := {decide := true}) only [lookup_insert_ne, ne_eq, not_false_eq_true] at hq
      cases h2 : replaceDot (.obj (insert kQuerylog (.obj (insert kIgnored (.arr (xs.map v27Host)) q))
          (insert kSchemaVersion (.int ((27 : Nat) : Int)) es))) kStatistics with
      | error e => simp [FrameOK]
      | ok d2 =>
        rcases replaceDot_shape _ _ h2 with rfl | ⟨st, ys, hst, rfl⟩
        · fr_norm; fr_level [kSchemaVersion, kQuerylog, kStatistics]
          fr_sub o; fr_level [kIgnored]
        · simp (config := {decide := true}) only [lookup_insert_ne, ne_eq, not_false_eq_true] at hst
          fr_norm; fr_level [kSchemaVersion, kQuerylog, kStatistics]
          all_goals (fr_sub o; fr_level [kIgnored])

theorem step29_frame (o : Oracles) (es) : FrameOK o 29 es (migrateTo29 o (.obj es)) := by
  simp only [migrateTo29, stamp, setK]
  fv_split2
  · rename_i xs hx
    cases hp : v29Paths xs with
    | error e => simp [FrameOK]
    | ok ps =>
      dsimp only
      fv_split2 <;> (try fr_pre) <;> (try fr_norm) <;> (try trivial) <;> fr_level [kSchemaVersion, kFiltering]
      all_goals (fr_sub o; fr_level [kSafeFsPatterns])
  · (try fr_pre) <;> (try fr_norm) <;> fr_level [kSchemaVersion, kFiltering]
  · (try fr_pre) <;> (try fr_norm) <;> (try trivial)

end AGH.C13
