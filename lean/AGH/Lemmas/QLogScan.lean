/-
C20 helper lemmas, part 1: the byte-level scans and one `ReadNext` /
`readProbeLine` on a file position that lies in a line (`LineAt`).  Core only.
-/
import AGH.Model.QLogFile
namespace AGH.C20
open AGH

theorem scanBack_eq (g : Nat → Nat) (s : Nat) :
    ∀ rel, s ≤ rel → (∀ i, s ≤ i → i < rel → g i ≠ 10) → (s = 0 ∨ g (s - 1) = 10) →
      scanBack g rel = s := by
  intro rel
  induction rel with
  | zero => intro h _ _; simp [scanBack]; omega
  | succ r ih =>
    intro hle hbody hbef
    unfold scanBack
    by_cases hs : s = r + 1
    · subst hs
      rcases hbef with h | h
      · omega
      · simp at h; simp [h]
    · have : g r ≠ 10 := hbody r (by omega) (by omega)
      simp [this]
      exact ih (by omega) (fun i h1 h2 => hbody i h1 (by omega)) hbef

theorem scanFwd_eq (g : Nat → Nat) (e : Nat) (he : g e = 10) :
    ∀ n rel, rel ≤ e → e < rel + n → (∀ i, rel ≤ i → i < e → g i ≠ 10) →
      scanFwd g rel n = some e := by
  intro n
  induction n with
  | zero => intro rel h1 h2; omega
  | succ n ih =>
    intro rel h1 h2 hbody
    unfold scanFwd
    by_cases hre : rel = e
    · subst hre; simp [he]
    · have : g rel ≠ 10 := hbody rel (by omega) (by omega)
      simp [this]
      exact ih (rel + 1) (by omega) (by omega) (fun i h3 h4 => hbody i (by omega) h4)

/-- `[s, e)` is a line of `f`: newline at `e`, none inside, and `s` is the file
start or follows a newline. -/
structure LineAt (f : File) (s e : Nat) : Prop where
  le : s ≤ e
  lt : e < f.size
  nl : f.byte e = 10
  body : ∀ i, s ≤ i → i < e → f.byte i ≠ 10
  before : s = 0 ∨ f.byte (s - 1) = 10

/-- Buffer invariant of a `qLogFile`: a live buffer is the window the code
thinks it is and the position is not beyond it. -/
def Inv (P : Params) (f : File) (q : QState) : Prop :=
  q.hasBuf = true →
    q.position ≤ q.bufStart + P.bufSize ∧ q.bufLen = min P.bufSize (f.size - q.bufStart)

/-- The backward scan inside a valid window finds the start of the line. -/
theorem scanBack_window (P : Params) (f : File) (q : QState) (s e : Nat)
    (hl : LineAt f s e) (hlen : e - s < P.maxEntry)
    (hbs : q.bufStart = 0 ∨ q.bufStart + P.maxEntry ≤ e)
    (hcap : e ≤ q.bufStart + P.bufSize)
    (hlenb : q.bufLen = min P.bufSize (f.size - q.bufStart)) :
    q.bufStart ≤ s ∧ scanBack (bufByte f q) (e - q.bufStart) = s - q.bufStart := by
  have hse := hl.le
  have hlt := hl.lt
  have h1 : q.bufStart ≤ s := by rcases hbs with h | h <;> omega
  refine ⟨h1, ?_⟩
  apply scanBack_eq
  · omega
  · intro i hi1 hi2
    have : i < q.bufLen := by rw [hlenb]; omega
    simp only [bufByte, this, if_true]
    exact hl.body _ (by omega) (by omega)
  · by_cases hs : s = q.bufStart
    · left; omega
    · right
      have hlt2 : s - q.bufStart - 1 < q.bufLen := by rw [hlenb]; omega
      simp only [bufByte, hlt2, if_true]
      have : q.bufStart + (s - q.bufStart - 1) = s - 1 := by omega
      rw [this]
      rcases hl.before with h | h
      · omega
      · exact h

theorem readNextLine_line (P : Params) (f : File) (q : QState) (s e : Nat)
    (hP : P.maxEntry ≤ P.bufSize) (hl : LineAt f s e) (hlen : e - s < P.maxEntry)
    (hpos : q.position = e) (hinv : Inv P f q) :
    ∃ q', readNextLine P f q e = (q', .ok (s, e)) ∧ q'.hasBuf = true ∧ q'.position = e ∧
      e ≤ q'.bufStart + P.bufSize ∧ q'.bufLen = min P.bufSize (f.size - q'.bufStart) := by
  have hse := hl.le
  have hlt := hl.lt
  -- the state after the (possible) re-initialisation
  by_cases hinit : (!q.hasBuf || (decide (e < q.bufStart + P.maxEntry) && q.bufStart != 0)) = true
  · -- initBuffer
    let bs := if e > P.bufSize then e - P.bufSize else 0
    let q1 : QState := { q with hasBuf := true, bufStart := bs, bufLen := min P.bufSize (f.size - bs) }
    have hbs0 : bs = 0 ∨ bs + P.maxEntry ≤ e := by
      show (if e > P.bufSize then e - P.bufSize else 0) = 0 ∨ (if e > P.bufSize then e - P.bufSize else 0) + P.maxEntry ≤ e
      split <;> omega
    have hbsle : bs ≤ e := by
      show (if e > P.bufSize then e - P.bufSize else 0) ≤ e
      split <;> omega
    have hcap : e ≤ bs + P.bufSize := by
      show e ≤ (if e > P.bufSize then e - P.bufSize else 0) + P.bufSize
      split <;> omega
    have hn : min P.bufSize (f.size - bs) ≠ 0 := by omega
    obtain ⟨h1, h2⟩ := scanBack_window P f q1 s e hl hlen hbs0 hcap rfl
    refine ⟨q1, ?_, rfl, hpos, hcap, rfl⟩
    unfold readNextLine
    simp only [hinit, if_true, initBuffer]
    have hn' : (min P.bufSize (f.size - bs) != 0) = true := by simp [hn]
    show (if (!(min P.bufSize (f.size - bs) != 0)) = true then _ else _) = _
    simp only [hn', Bool.not_true, Bool.false_eq_true, if_false]
    have hrel : ¬ (e - bs > P.bufSize) := by omega
    show (if e - q1.bufStart > P.bufSize then _ else _) = _
    simp only [show q1.bufStart = bs from rfl, hrel, if_false]
    show (q1, Except.ok (bs + scanBack (bufByte f q1) (e - q1.bufStart), bs + (e - bs))) = _
    rw [h2]
    have : q1.bufStart = bs := rfl
    simp only [this]
    congr 3 <;> omega
  · -- the live buffer is used
    have hb : q.hasBuf = true := by
      cases h : q.hasBuf <;> simp [h] at hinit ⊢
    have hcond : ¬ (e < q.bufStart + P.maxEntry ∧ q.bufStart ≠ 0) := by
      intro ⟨h1, h2⟩
      apply hinit
      simp [h1, h2]
    obtain ⟨hcap, hlenb⟩ := hinv hb
    rw [hpos] at hcap
    have hbs0 : q.bufStart = 0 ∨ q.bufStart + P.maxEntry ≤ e := by
      by_cases h0 : q.bufStart = 0
      · left; exact h0
      · right
        have : ¬ (e < q.bufStart + P.maxEntry) := fun h => hcond ⟨h, h0⟩
        omega
    obtain ⟨h1, h2⟩ := scanBack_window P f q s e hl hlen hbs0 hcap hlenb
    refine ⟨q, ?_, hb, hpos, hcap, hlenb⟩
    unfold readNextLine
    simp only [hinit, Bool.false_eq_true, if_false]
    have hrel : ¬ (e - q.bufStart > P.bufSize) := by omega
    simp only [Bool.not_true, Bool.false_eq_true, if_false, hrel]
    rw [h2]
    congr 3 <;> omega

/-- One `ReadNext` from the newline of a line returns that line and steps to the
newline of the previous one (or to 0). -/
theorem readNext_line (P : Params) (f : File) (q : QState) (s e : Nat)
    (hP : P.maxEntry ≤ P.bufSize) (hl : LineAt f s e) (hlen : e - s < P.maxEntry)
    (hpos : q.position = e) (he : 0 < e) (hinv : Inv P f q) :
    ∃ q', readNext P f q = (q', .ok (s, e)) ∧ q'.position = s - 1 ∧ Inv P f q' := by
  obtain ⟨q1, h1, hb, hp, hcap, hlenb⟩ := readNextLine_line P f q s e hP hl hlen hpos hinv
  refine ⟨{ q1 with position := if s = 0 then 0 else s - 1 }, ?_, ?_, ?_⟩
  · unfold readNext
    have : ¬ (e = 0) := by omega
    simp only [hpos, this, if_false, h1]
  · show (if s = 0 then 0 else s - 1) = s - 1
    split <;> omega
  · intro _
    have := hl.le
    refine ⟨?_, hlenb⟩
    show (if s = 0 then 0 else s - 1) ≤ q1.bufStart + P.bufSize
    split <;> omega

theorem readNext_eof (P : Params) (f : File) (q : QState) (h : q.position = 0) :
    readNext P f q = (q, .error .eof) := by
  unfold readNext; simp [h]

end AGH.C20
