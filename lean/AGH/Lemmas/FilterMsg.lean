/-
Helper lemmas for C01 / C02: the blocking-mode responses built by the model
satisfy the spec's mode table.
-/
import AGH.Lemmas.Filter
set_option linter.unusedSimpArgs false
namespace AGH.Filter
open AGH AGH.Bytes

theorem dedupIPs_mem (l acc : List IP) : ∀ x ∈ dedupIPs l acc, x ∈ l ∨ x ∈ acc := by
  induction l generalizing acc with
  | nil => intro x hx; simp [dedupIPs] at hx; exact Or.inr hx
  | cons ip rest ih =>
    intro x hx
    unfold dedupIPs at hx
    split at hx
    · rcases ih acc x hx with h | h
      · exact Or.inl (List.mem_cons_of_mem _ h)
      · exact Or.inr h
    · rcases ih (ip :: acc) x hx with h | h
      · exact Or.inl (List.mem_cons_of_mem _ h)
      · rcases List.mem_cons.mp h with h | h
        · exact Or.inl (h ▸ List.mem_cons_self)
        · exact Or.inr h

theorem dedupIPs_length (l acc : List IP) : acc.length ≤ (dedupIPs l acc).length := by
  induction l generalizing acc with
  | nil => simp [dedupIPs]
  | cons ip rest ih =>
    unfold dedupIPs
    split
    · exact ih acc
    · have := ih (ip :: acc); simp at this; omega

theorem dedupIPs_isEmpty (l : List IP) : (dedupIPs l []).isEmpty = l.isEmpty := by
  cases l with
  | nil => rfl
  | cons ip rest =>
    have h : [ip].length ≤ (dedupIPs rest [ip]).length := dedupIPs_length rest [ip]
    simp only [dedupIPs, List.any_nil, List.isEmpty_cons]
    cases hd : dedupIPs rest [ip] with
    | nil => rw [hd] at h; simp at h
    | cons _ _ => rfl

theorem filter_fam_id (l : List IP) (b : Bool) (h : ∀ ip ∈ l, ip.v6 = b) :
    l.filter (fun ip => ip.v6 == b) = l := by
  apply List.filter_eq_self.mpr
  intro ip hip; simp [h ip hip]

/-- `C01_mode_table` in lemma form: whatever the rule addresses (of the query's
family), the response generated for a filtered result is the one the configured
blocking mode prescribes. -/
theorem genDNSFilterMessage_synthetic (c : Conf) (q : Query) (res : Result)
    (hA : q.qtype = tA → ∀ ip ∈ res.ips, ip.v6 = false)
    (hAAAA : q.qtype = tAAAA → ∀ ip ∈ res.ips, ip.v6 = true) :
    syntheticOK c q res.ips (genDNSFilterMessage c q res) = true := by
  rcases q with ⟨qn, qt⟩
  simp only at hA hAAAA
  unfold syntheticOK genDNSFilterMessage
  by_cases h1 : qt = tA
  · -- A
    subst h1
    have hA' := hA rfl
    have hfam : res.ips.filter (fun ip => ip.v6 == (tA == tAAAA)) = res.ips :=
      filter_fam_id _ _ hA'
    have hall : (dedupIPs res.ips []).all (fun ip => !ip.v6) = true := by
      rw [List.all_eq_true]; intro x hx
      rcases dedupIPs_mem _ _ x hx with h | h
      · simp [hA' x h]
      · simp at h
    simp only [hfam]
    cases hm : c.mode <;> cases hemp : res.ips.isEmpty <;>
      simp [hm, hemp, hall, genForBlockingMode, responseCustomIP, responseNullIP, responseWithIPs, answersV4,
        reply, msgNXDOMAIN, genSOA, isLocalNs, addrAnswers, eraseAll, RR.erase, RData.erase, ansA, IP.erase,
        tA, tAAAA, tHTTPS, rcSuccess, rcNXDomain, rcRefused, ip4Zero, dedupIPs_isEmpty, List.map_map,
        Function.comp_def]
  · by_cases h2 : qt = tAAAA
    · subst h2
      have hA' := hAAAA rfl
      have hfam : res.ips.filter (fun ip => ip.v6 == (tAAAA == tAAAA)) = res.ips :=
        filter_fam_id _ _ hA'
      have hflt : (dedupIPs res.ips []).filter (fun ip => ip.v6) = dedupIPs res.ips [] := by
        apply List.filter_eq_self.mpr
        intro x hx
        rcases dedupIPs_mem _ _ x hx with h | h
        · exact hA' x h
        · simp at h
      simp only [hfam]
      cases hm : c.mode <;> cases hemp : res.ips.isEmpty <;>
        simp [hm, hemp, hflt, genForBlockingMode, responseCustomIP, responseNullIP, responseWithIPs,
          reply, msgNXDOMAIN, genSOA, isLocalNs, addrAnswers, eraseAll, RR.erase, RData.erase, ansAAAA, IP.erase,
          tA, tAAAA, tHTTPS, rcSuccess, rcNXDomain, rcRefused, ip6Zero, dedupIPs_isEmpty, List.map_map,
          Function.comp_def]
    · -- HTTPS and every other type: a local, record-free answer
      by_cases h3 : qt = tHTTPS
      · subst h3
        cases hm : c.mode <;> cases hemp : res.ips.isEmpty <;>
          simp [hm, hemp, genForBlockingMode, responseCustomIP, responseNullIP, responseWithIPs, reply,
            msgNXDOMAIN, genSOA, isLocalNs, modeRcode, tA, tAAAA, tHTTPS, rcSuccess, rcNXDomain,
            rcRefused, dedupIPs_isEmpty]
      · cases hm : c.mode <;>
          simp [h1, h2, h3, hm, reply, msgNODATA, genSOA, isLocalNs, modeRcode, rcSuccess]

/-- Outside default mode, and for non-address queries, the rule addresses play no role. -/
theorem genDNSFilterMessage_synthetic_nil (c : Conf) (q : Query) (res : Result)
    (h : c.mode ≠ .default ∨ (q.qtype ≠ tA ∧ q.qtype ≠ tAAAA)) :
    syntheticOK c q [] (genDNSFilterMessage c q res) = true := by
  rcases q with ⟨qn, qt⟩
  unfold syntheticOK genDNSFilterMessage
  by_cases h1 : qt = tA
  · subst h1
    cases hm : c.mode <;> simp [hm] at h <;>
      simp [hm, genForBlockingMode, responseCustomIP, responseNullIP, responseWithIPs, answersV4,
        reply, msgNXDOMAIN, genSOA, isLocalNs, addrAnswers, eraseAll, RR.erase, RData.erase, ansA, IP.erase,
        tA, tAAAA, tHTTPS, rcSuccess, rcNXDomain, rcRefused, ip4Zero]
    all_goals simp [tA, tAAAA] at h
  · by_cases h2 : qt = tAAAA
    · subst h2
      cases hm : c.mode <;> simp [hm] at h <;>
        simp [hm, genForBlockingMode, responseCustomIP, responseNullIP, responseWithIPs,
          reply, msgNXDOMAIN, genSOA, isLocalNs, addrAnswers, eraseAll, RR.erase, RData.erase, ansAAAA, IP.erase,
          tA, tAAAA, tHTTPS, rcSuccess, rcNXDomain, rcRefused, ip6Zero]
      all_goals simp [tA, tAAAA] at h
    · by_cases h3 : qt = tHTTPS
      · subst h3
        cases hm : c.mode <;> cases hemp : (dedupIPs res.ips []).isEmpty <;>
          simp [hm, hemp, genForBlockingMode, responseCustomIP, responseNullIP, responseWithIPs, reply,
            msgNXDOMAIN, genSOA, isLocalNs, modeRcode, tA, tAAAA, tHTTPS, rcSuccess, rcNXDomain,
            rcRefused]
      · cases hm : c.mode <;>
          simp [h1, h2, h3, hm, reply, msgNODATA, genSOA, isLocalNs, modeRcode, rcSuccess]

/-- QUIRK: default mode, address query, rule addresses all of the other family
⇒ an empty NOERROR response. -/
theorem genDNSFilterMessage_cross_family (c : Conf) (q : Query) (res : Result)
    (hm : c.mode = .default) (hne : res.ips.isEmpty = false)
    (h : (q.qtype = tA ∧ ∀ ip ∈ res.ips, ip.v6 = true) ∨ (q.qtype = tAAAA ∧ ∀ ip ∈ res.ips, ip.v6 = false)) :
    genDNSFilterMessage c q res = reply q rcSuccess := by
  rcases q with ⟨qn, qt⟩
  have hd : (dedupIPs res.ips []).isEmpty = false := by rw [dedupIPs_isEmpty]; exact hne
  rcases h with ⟨hq, hall⟩ | ⟨hq, hall⟩
  · simp only at hq; subst hq
    have hnot : (dedupIPs res.ips []).all (fun ip => !ip.v6) = false := by
      cases hl : dedupIPs res.ips [] with
      | nil => rw [hl] at hd; simp at hd
      | cons x xs =>
        have hx : x ∈ dedupIPs res.ips [] := by rw [hl]; exact List.mem_cons_self
        rcases dedupIPs_mem _ _ x hx with h | h
        · simp [hall x h]
        · simp at h
    simp [genDNSFilterMessage, genForBlockingMode, hm, hd, responseWithIPs, answersV4, hnot, reply, tA, tAAAA, tHTTPS]
  · simp only at hq; subst hq
    have hflt : (dedupIPs res.ips []).filter (fun ip => ip.v6) = [] := by
      apply List.filter_eq_nil_iff.mpr
      intro x hx
      rcases dedupIPs_mem _ _ x hx with h | h
      · simp [hall x h]
      · simp at h
    simp [genDNSFilterMessage, genForBlockingMode, hm, hd, responseWithIPs, hflt, reply, tA, tAAAA, tHTTPS]

end AGH.Filter
