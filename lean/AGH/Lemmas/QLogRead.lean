/-
Lemmas for C07: lists sorted by time, `readEntries`, the list-level file seek.
Core Lean only.
-/
import AGH.Model.QLog
namespace AGH.C07
open AGH

/-- newest first, strictly -/
def Desc (l : List Entry) : Prop := l.Pairwise (fun a b => b.ts < a.ts)

theorem insertDesc_of_all_lt (e : Entry) (l : List Entry) (h : ∀ x ∈ l, x.ts < e.ts) :
    insertDesc e l = e :: l := by
  cases l with
  | nil => rfl
  | cons x xs => simp [insertDesc, h x (by simp)]

theorem sortDesc_of_desc (l : List Entry) (h : Desc l) : sortDesc l = l := by
  induction l with
  | nil => rfl
  | cons e rest ih =>
    have h' := List.pairwise_cons.mp h
    simp only [sortDesc, ih h'.2]
    exact insertDesc_of_all_lt e rest h'.1

theorem desc_filter_ge_prefix (P S : List Entry) (x : Entry) (h : Desc (P ++ x :: S)) :
    (P ++ x :: S).filter (fun e => decide (e.ts ≥ x.ts)) = P ++ [x] := by
  have h1 := List.pairwise_append.mp h
  have h2 := List.pairwise_cons.mp h1.2.1
  rw [List.filter_append, List.filter_cons]
  have hP : P.filter (fun e => decide (e.ts ≥ x.ts)) = P := by
    apply List.filter_eq_self.mpr
    intro a ha
    have := h1.2.2 a ha x (by simp)
    simp; omega
  have hS : S.filter (fun e => decide (e.ts ≥ x.ts)) = [] := by
    apply List.filter_eq_nil_iff.mpr
    intro a ha
    have := h2.1 a ha
    simp; omega
  simp [hP, hS]

theorem take_append_take (A B : List α) (n : Nat) :
    (A ++ B.take n).take n = (A ++ B).take n := by
  rw [List.take_append, List.take_append, List.take_take]
  congr 2
  omega


/-- Unlimited scan: the file part is the first `TL - |acc|` kept records. -/
theorem readEntries_unlimited (keep : Entry → Bool) (scan TL : Int) (hscan : scan ≤ 0) :
    ∀ (rem acc : List Entry) (total : Int) (o : Option Int), (acc.length : Int) < TL →
      (readEntries keep scan TL rem acc total o).1 = acc ++ (rem.filter keep).take (TL.toNat - acc.length) := by
  intro rem
  induction rem with
  | nil => intro acc total o _; simp [readEntries]; split <;> rfl
  | cons e rest ih =>
    intro acc total o hlt
    have hc : total < scan ∨ scan ≤ 0 := Or.inr hscan
    simp only [readEntries, hc, if_true]
    by_cases hk : keep e = true
    · simp only [hk, if_true, List.filter_cons_of_pos]
      by_cases hfull : ((acc ++ [e]).length : Int) = TL
      · simp only [hfull, if_true]
        have : TL.toNat - acc.length = 1 := by simp at hfull; omega
        rw [this]; simp
      · simp only [hfull, if_false]
        have hlt' : ((acc ++ [e]).length : Int) < TL := by simp at hfull ⊢; omega
        rw [ih (acc ++ [e]) (total + 1) (some e.ts) hlt']
        have : TL.toNat - acc.length = (TL.toNat - (acc ++ [e]).length) + 1 := by simp at hlt' ⊢; omega
        rw [this]; simp
    · have hk' : keep e = false := by simpa using hk
      simp only [hk', Bool.false_eq_true, if_false]
      rw [ih acc (total + 1) (some e.ts) hlt]
      simp [hk']


/-- Result of `readEntries` in general: the kept records among the first `n`
read; the reported timestamp is that of the last record read; it stops before
the end of the file and before the limit only when the scan budget is used up. -/
theorem readEntries_spec (keep : Entry → Bool) (scan TL : Int) :
    ∀ (rem acc : List Entry) (total : Int) (o : Option Int), (acc.length : Int) < TL →
      ((total < scan ∨ scan ≤ 0) ∨ o.isSome) →
      ∃ n, n ≤ rem.length ∧
        (readEntries keep scan TL rem acc total o).1 = acc ++ (rem.take n).filter keep ∧
        (((readEntries keep scan TL rem acc total o).1.length : Int) ≤ TL) ∧
        ((readEntries keep scan TL rem acc total o).2 = none → n = rem.length) ∧
        (∀ c, (readEntries keep scan TL rem acc total o).2 = some c →
          ((n = 0 ∧ o = some c ∧ ¬(total < scan ∨ scan ≤ 0)) ∨
           (∃ e, rem[n - 1]? = some e ∧ 1 ≤ n ∧ e.ts = c ∧
              (((readEntries keep scan TL rem acc total o).1.length : Int) < TL →
                0 < scan ∧ scan ≤ total + n)))) := by
  intro rem
  induction rem with
  | nil =>
    intro acc total o hlt hl
    refine ⟨0, by simp, ?_⟩
    by_cases hc : total < scan ∨ scan ≤ 0
    · have hr : readEntries keep scan TL [] acc total o = (acc, none) := by simp [readEntries, hc]
      rw [hr]; simp; omega
    · have hr : readEntries keep scan TL [] acc total o = (acc, o) := by simp [readEntries, hc]
      rw [hr]
      refine ⟨by simp, by simp; omega, by simp, ?_⟩
      intro c hc'
      left
      exact ⟨rfl, hc', hc⟩
  | cons e rest ih =>
    intro acc total o hlt hl
    by_cases hc : total < scan ∨ scan ≤ 0
    · -- the step after reading `e`, whatever `acc'` is
      have stepCase : ∀ acc' : List Entry, (acc'.length : Int) < TL →
          acc' = acc ++ ([e].filter keep) →
          ∃ n, n ≤ (e :: rest).length ∧
            (readEntries keep scan TL rest acc' (total + 1) (some e.ts)).1 = acc ++ ((e :: rest).take n).filter keep ∧
            (((readEntries keep scan TL rest acc' (total + 1) (some e.ts)).1.length : Int) ≤ TL) ∧
            ((readEntries keep scan TL rest acc' (total + 1) (some e.ts)).2 = none → n = (e :: rest).length) ∧
            (∀ c, (readEntries keep scan TL rest acc' (total + 1) (some e.ts)).2 = some c →
              ((n = 0 ∧ o = some c ∧ ¬(total < scan ∨ scan ≤ 0)) ∨
               (∃ e', (e :: rest)[n - 1]? = some e' ∧ 1 ≤ n ∧ e'.ts = c ∧
                  (((readEntries keep scan TL rest acc' (total + 1) (some e.ts)).1.length : Int) < TL →
                    0 < scan ∧ scan ≤ total + n)))) := by
        intro acc' hlt' hacc'
        obtain ⟨n, hn, h1, h2, h3, h4⟩ := ih acc' (total + 1) (some e.ts) hlt' (Or.inr rfl)
        refine ⟨n + 1, by simp; omega, ?_, h2, ?_, ?_⟩
        · rw [h1, hacc']; simp [List.filter_cons]; split <;> simp
        · intro hnone; simp [h3 hnone]
        · intro c hsome
          right
          rcases h4 c hsome with ⟨h0, hc0, hnc⟩ | ⟨e', he', h1n, hts, hb⟩
          · subst h0
            simp only [Option.some.injEq] at hc0
            refine ⟨e, by simp, by omega, hc0, ?_⟩
            intro _
            constructor
            · by_cases h : 0 < scan
              · exact h
              · exact absurd (Or.inr (by omega)) hnc
            · have : ¬ (total + 1 < scan) := fun h => hnc (Or.inl h)
              simp; omega
          · refine ⟨e', ?_, by omega, hts, ?_⟩
            · have : n + 1 - 1 = (n - 1) + 1 := by omega
              rw [this]; simpa using he'
            · intro hl'
              have := hb hl'
              constructor
              · exact this.1
              · have := this.2; simp at this ⊢; omega
      by_cases hk : keep e = true
      · by_cases hfull : ((acc ++ [e]).length : Int) = TL
        · have hr : readEntries keep scan TL (e :: rest) acc total o = (acc ++ [e], some e.ts) := by
            simp only [readEntries, hc, if_true, hk, hfull]
          rw [hr]
          refine ⟨1, by simp, by simp [hk], by dsimp only; omega, by simp, ?_⟩
          intro c hc'
          right
          simp only [Option.some.injEq] at hc'
          refine ⟨e, by simp, by omega, hc', ?_⟩
          intro hl'; dsimp only at hl'; omega
        · have hr : readEntries keep scan TL (e :: rest) acc total o =
              readEntries keep scan TL rest (acc ++ [e]) (total + 1) (some e.ts) := by
            simp only [readEntries, hc, if_true, hk, hfull, if_false]
          rw [hr]
          have hlt' : ((acc ++ [e]).length : Int) < TL := by simp at hfull ⊢; omega
          exact stepCase (acc ++ [e]) hlt' (by simp [hk])
      · have hk' : keep e = false := by simpa using hk
        have hr : readEntries keep scan TL (e :: rest) acc total o =
            readEntries keep scan TL rest acc (total + 1) (some e.ts) := by
          simp only [readEntries, hc, if_true, hk', Bool.false_eq_true, if_false]
        rw [hr]
        exact stepCase acc hlt (by simp [hk'])
    · have hr : readEntries keep scan TL (e :: rest) acc total o = (acc, o) := by
        simp only [readEntries, hc, if_false]
      rw [hr]
      have ho : o.isSome := by rcases hl with h | h; exact absurd h hc; exact h
      refine ⟨0, by simp, by simp, by dsimp only; omega, ?_, ?_⟩
      · intro hnone; dsimp only at hnone; simp [hnone] at ho
      · intro c hc'
        left
        exact ⟨rfl, hc', hc⟩


/-- oldest first, strictly -/
def Asc (l : List Entry) : Prop := l.Pairwise (fun a b => a.ts < b.ts)

theorem fileSeek_found {f : List Entry} {t : Int} {k : Nat} (hA : Asc f) (h : fileSeek f t = .found k) :
    ∃ x, f = f.take k ++ x :: f.drop (k + 1) ∧ x.ts = t ∧
      (∀ e ∈ f.drop (k + 1), t < e.ts) ∧ (∀ e ∈ f.take k, e.ts < t) ∧ f[k]? = some x := by
  unfold fileSeek at h
  cases hf : f.findIdx? (fun e => e.ts == t) with
  | none => rw [hf] at h; simp only at h; split at h <;> (try split at h) <;> cases h
  | some k' =>
    rw [hf] at h
    simp only [SeekRes.found.injEq] at h
    subst h
    obtain ⟨hk, hx, _⟩ := List.findIdx?_eq_some_iff_getElem.mp hf
    have hts : f[k'].ts = t := by simpa using hx
    have hsplit : f = f.take k' ++ f[k'] :: f.drop (k' + 1) := by
      have := List.take_append_drop k' f
      rw [List.drop_eq_getElem_cons hk] at this
      exact this.symm
    refine ⟨f[k'], hsplit, hts, ?_, ?_, List.getElem?_eq_getElem hk⟩
    · unfold Asc at hA
      rw [hsplit] at hA
      have h1 := (List.pairwise_append.mp hA).2.1
      have h2 := (List.pairwise_cons.mp h1).1
      intro e he
      have := h2 e he
      omega
    · unfold Asc at hA
      rw [hsplit] at hA
      have h3 := (List.pairwise_append.mp hA).2.2
      intro e he
      have := h3 e he f[k'] List.mem_cons_self
      omega

theorem fileSeek_tooEarly {f : List Entry} {t : Int} (h : fileSeek f t = .tooEarly) :
    ∀ e ∈ f, t < e.ts := by
  unfold fileSeek at h
  cases hf : f.findIdx? (fun e => e.ts == t) with
  | some k => rw [hf] at h; cases h
  | none =>
    rw [hf] at h
    simp only at h
    split at h
    · rename_i hall
      intro e he
      have := List.all_eq_true.mp hall e he
      simpa using this
    · split at h <;> cases h

/-- Where `seekRecord` succeeds, it only skips records that are not older than the cursor. -/
theorem seekRecord_some {rot cur : List Entry} {ot : Option Int} {rem : List Entry}
    (hA : Asc (rot ++ cur)) (h : seekRecord rot cur ot = some rem) :
    ∃ pre, filesRev rot cur = pre ++ rem ∧ ∀ e ∈ pre, ∀ t, ot = some t → t < e.ts := by
  have hAr : Asc rot := (List.pairwise_append.mp hA).1
  have hAc : Asc cur := (List.pairwise_append.mp hA).2.1
  cases ot with
  | none =>
    simp only [seekRecord, Option.some.injEq] at h
    exact ⟨[], by simp [h], by simp⟩
  | some t =>
    simp only [seekRecord] at h
    -- the rotated file
    have hrot : ∀ rem, seekRot rot cur t = some rem →
        (∀ e ∈ cur, t < e.ts) →
        ∃ pre, filesRev rot cur = pre ++ rem ∧ ∀ e ∈ pre, ∀ t', some t = some t' → t' < e.ts := by
      intro rem hr hcur
      unfold seekRot at hr
      cases hs : fileSeek rot t with
      | found k =>
        rw [hs] at hr
        simp only [Option.some.injEq] at hr
        obtain ⟨x, hsplit, _, hafter, _, _⟩ := fileSeek_found hAr hs
        refine ⟨cur.reverse ++ (rot.drop (k + 1)).reverse, ?_, ?_⟩
        · rw [← hr, filesRev, List.append_assoc]
          congr 1
          rw [← List.reverse_append, List.take_append_drop]
        · intro e he t' ht'
          cases ht'
          simp only [List.mem_append, List.mem_reverse] at he
          rcases he with he | he
          · exact hcur e he
          · exact hafter e he
      | tooLate =>
        rw [hs] at hr
        simp only [Option.some.injEq] at hr
        exact ⟨[], by simp [hr], by simp⟩
      | tooEarly => rw [hs] at hr; cases hr
      | notFound => rw [hs] at hr; cases hr
    unfold seekFiles at h
    by_cases hc : cur ≠ []
    · simp only [hc, if_true, ne_eq, not_false_eq_true] at h
      cases hs : fileSeek cur t with
      | found k =>
        rw [hs] at h
        simp only [Option.some.injEq] at h
        obtain ⟨x, hsplit, _, hafter, _, _⟩ := fileSeek_found hAc hs
        refine ⟨(cur.drop (k + 1)).reverse, ?_, ?_⟩
        · rw [← h, filesRev, ← List.append_assoc]
          congr 1
          rw [← List.reverse_append, List.take_append_drop]
        · intro e he t' ht'
          cases ht'
          exact hafter e (by simpa using he)
      | tooLate =>
        rw [hs] at h
        simp only [Option.some.injEq] at h
        exact ⟨[], by simp [h], by simp⟩
      | notFound => rw [hs] at h; cases h
      | tooEarly =>
        rw [hs] at h
        simp only at h
        by_cases hr : rot ≠ []
        · simp only [hr, if_true, not_false_eq_true] at h
          exact hrot rem h (fileSeek_tooEarly hs)
        · simp [hr] at h
    · have hc' : cur = [] := by simpa using hc
      simp only [hc', ne_eq, not_true_eq_false, if_false] at h
      by_cases hr : rot ≠ []
      · simp only [hr, if_true, not_false_eq_true] at h
        subst hc'
        exact hrot rem h (by simp)
      · have hr' : rot = [] := by simpa using hr
        simp only [hr', not_true_eq_false, if_false, Option.some.injEq] at h
        exact ⟨[], by subst h; simp [filesRev, hc', hr'], by simp⟩


theorem fileSeek_mem {f : List Entry} {t : Int} {e : Entry} (he : e ∈ f) (ht : e.ts = t) :
    ∃ k, fileSeek f t = .found k := by
  unfold fileSeek
  cases hf : f.findIdx? (fun e => e.ts == t) with
  | some k => exact ⟨k, rfl⟩
  | none =>
    have := List.findIdx?_eq_none_iff.mp hf e he
    simp [ht] at this

theorem fileSeek_all_lt {f : List Entry} {t : Int} (hne : f ≠ []) (h : ∀ e ∈ f, e.ts < t) :
    fileSeek f t = .tooLate := by
  unfold fileSeek
  have hf : f.findIdx? (fun e => e.ts == t) = none := by
    apply List.findIdx?_eq_none_iff.mpr
    intro x hx
    have := h x hx
    simp; omega
  rw [hf]
  have h1 : f.all (fun e => decide (t < e.ts)) = false := by
    cases f with
    | nil => exact absurd rfl hne
    | cons x xs =>
      have := h x (by simp)
      simp only [List.all_cons, Bool.and_eq_false_iff]
      left; simp; omega
  have h2 : f.all (fun e => decide (e.ts < t)) = true := by
    apply List.all_eq_true.mpr
    intro x hx
    simpa using h x hx
  simp [h1, h2]

theorem fileSeek_all_gt {f : List Entry} {t : Int} (h : ∀ e ∈ f, t < e.ts) :
    fileSeek f t = .tooEarly := by
  unfold fileSeek
  have hf : f.findIdx? (fun e => e.ts == t) = none := by
    apply List.findIdx?_eq_none_iff.mpr
    intro x hx
    have := h x hx
    simp; omega
  rw [hf]
  have h1 : f.all (fun e => decide (t < e.ts)) = true := by
    apply List.all_eq_true.mpr
    intro x hx
    simpa using h x hx
  simp [h1]

theorem tail_take_succ_reverse {f R : List Entry} {k : Nat} {x : Entry} (h : f[k]? = some x) :
    ((f.take (k + 1)).reverse ++ R).tail = (f.take k).reverse ++ R := by
  rw [List.take_add_one, h]
  simp

/-- A cursor that is the time of a logged entry can always be positioned, and
everything after the first record read is older than the cursor. -/
theorem seekRecord_cursor {rot cur mem : List Entry} {t : Int} (hA : Asc (rot ++ cur ++ mem))
    (ht : ∃ e ∈ rot ++ cur ++ mem, e.ts = t) :
    ∃ rem, seekRecord rot cur (some t) = some rem ∧ ∀ x ∈ rem.tail, x.ts < t := by
  obtain ⟨e, he, hts⟩ := ht
  have h1 := List.pairwise_append.mp hA
  have h2 := List.pairwise_append.mp h1.1
  have hAr : Asc rot := h2.1
  have hAc : Asc cur := h2.2.1
  simp only [seekRecord, seekFiles]
  simp only [List.mem_append] at he
  have hrotfound : e ∈ rot → ∃ rem, seekRot rot cur t = some rem ∧ ∀ x ∈ rem.tail, x.ts < t := by
    intro her
    obtain ⟨k, hk⟩ := fileSeek_mem her hts
    obtain ⟨x, _, _, _, hbefore, hkx⟩ := fileSeek_found hAr hk
    refine ⟨(rot.take (k + 1)).reverse, by simp [seekRot, hk], ?_⟩
    intro y hy
    have := tail_take_succ_reverse (R := []) hkx
    simp only [List.append_nil] at this
    rw [this] at hy
    exact hbefore y (by simpa using hy)
  have hlate : (∀ x ∈ rot ++ cur, x.ts < t) → ∀ x ∈ (filesRev rot cur).tail, x.ts < t := by
    intro hall x hx
    have hx' : x ∈ filesRev rot cur := List.mem_of_mem_tail hx
    simp only [filesRev, List.mem_append, List.mem_reverse] at hx'
    exact hall x (by simp only [List.mem_append]; exact hx'.symm)
  rcases he with (her | hec) | hem
  · -- in the rotated file: every record of the current file is newer
    have hcur : ∀ x ∈ cur, t < x.ts := fun x hx => hts ▸ h2.2.2 e her x hx
    have hr : rot ≠ [] := List.ne_nil_of_mem her
    by_cases hc : cur = []
    · simp only [hc, ne_eq, not_true_eq_false, if_false, hr, not_false_eq_true, if_true]
      subst hc
      exact hrotfound her
    · simp only [ne_eq, hc, not_false_eq_true, if_true, fileSeek_all_gt hcur, hr]
      exact hrotfound her
  · have hc : cur ≠ [] := List.ne_nil_of_mem hec
    obtain ⟨k, hk⟩ := fileSeek_mem hec hts
    obtain ⟨x, _, hxt, _, hbefore, hkx⟩ := fileSeek_found hAc hk
    simp only [ne_eq, hc, not_false_eq_true, if_true, hk]
    refine ⟨_, rfl, ?_⟩
    intro y hy
    rw [tail_take_succ_reverse hkx] at hy
    simp only [List.mem_append, List.mem_reverse] at hy
    rcases hy with hy | hy
    · exact hbefore y hy
    · have hxc : x ∈ cur := List.mem_of_getElem? hkx
      have := h2.2.2 y hy x hxc
      omega
  · -- in memory: every file record is older
    have hfiles : ∀ x ∈ rot ++ cur, x.ts < t := fun x hx => hts ▸ h1.2.2 x hx e hem
    by_cases hc : cur = []
    · subst hc
      simp only [ne_eq, not_true_eq_false, if_false]
      by_cases hr : rot = []
      · simp only [hr, not_true_eq_false, if_false]
        exact ⟨[], rfl, by simp⟩
      · simp only [hr, not_false_eq_true, if_true]
        refine ⟨filesRev rot [], ?_, hlate hfiles⟩
        simp [seekRot, fileSeek_all_lt hr (fun x hx => hfiles x (by simp [hx]))]
    · have := fileSeek_all_lt hc (fun x hx => hfiles x (by simp [hx]))
      simp only [ne_eq, hc, not_false_eq_true, if_true, this]
      exact ⟨_, rfl, hlate hfiles⟩

end AGH.C07
