/-
C09: the invariant tying the model state to the ghost record, and its
preservation by every operation.
-/
import AGH.Lemmas.StatsRead
namespace AGH.C09

/-- The counter of a stored unit that a selector looks at. -/
def Sel.val : Sel → UnitDB → Nat
  | .total, u => u.nTotal
  | .cat c, u => u.nResult c

def optVal (sel : Sel) : Option UnitDB → Nat
  | none => 0
  | some u => sel.val u

/-- Model state `s` carries the ghost record `g`. -/
structure Inv (g : Ghost) (s : State) : Prop where
  clock : s.clock = g.clock
  nowClock : g.now ≤ g.clock
  chi : g.clock < U32
  cur : s.curr.id = g.now
  lim : s.limitHours = g.limit
  ivl : validIvl s.limit = true
  en : s.enabled = g.enabled
  lo : minHour ≤ g.now
  hi : g.now < U32
  evHour : ∀ e ∈ g.evs, e.hour ≤ g.now
  evKept : ∀ e ∈ g.evs, e.kept = true → inWindow g.now g.limit e.hour = true
  dbUp : ∀ k v, (k, v) ∈ s.db → k ≤ g.now ∧ ∀ sel : Sel, sel.val v ≤ upperAt g k sel
  curUp : ∀ sel : Sel, sel.val s.curr.serialize ≤ upperAt g g.now sel
  curLo : ∀ sel : Sel, lowerAt g g.now sel ≤ sel.val s.curr.serialize
  dbLo : ∀ h, h ≠ g.now → ∀ sel : Sel, lowerAt g h sel ≤ optVal sel (s.db.get h)

theorem validIvl_iff (ms : Nat) : validIvl ms = true ↔ 3600000 ≤ ms ∧ ms ≤ 31536000000 := by
  unfold validIvl maxLimitMs msPerHour
  cases h1 : decide (ms < 3600000) <;> cases h2 : decide (ms > 365 * 24 * 3600000) <;>
    simp only [decide_eq_true_eq, decide_eq_false_iff_not] at h1 h2 <;> simp <;> omega

theorem validIvl_range {ms : Nat} (h : validIvl ms = true) : 1 ≤ ms / msPerHour ∧ ms / msPerHour ≤ 8760 := by
  rw [validIvl_iff] at h
  simp only [msPerHour]
  omega

theorem okIvl_eq (ms : Nat) : okIvl ms = validIvl ms := by
  rw [Bool.eq_iff_iff, validIvl_iff]
  unfold okIvl msPerHour
  cases h1 : decide (3600000 ≤ ms) <;> cases h2 : decide (ms ≤ 365 * 24 * 3600000) <;>
    simp only [decide_eq_true_eq, decide_eq_false_iff_not] at h1 h2 <;> simp <;> omega

theorem Inv.limit_range {g : Ghost} {s : State} (h : Inv g s) : 1 ≤ g.limit ∧ g.limit ≤ 8760 := by
  have := validIvl_range h.ivl
  rw [← h.lim]; exact this

/-! ### re-evaluating `kept` -/

/-- `kept := kept && w hour` on every event. -/
def rekeep (w : Nat → Bool) (evs : List Ev) : List Ev :=
  evs.map fun e => { e with kept := e.kept && w e.hour }

theorem sees_kept (sel : Sel) (e : Ev) (b : Bool) : sel.sees { e with kept := b } = sel.sees e := by
  cases sel <;> rfl

theorem upAt_rekeep (w : Nat → Bool) (evs : List Ev) (h : Nat) (sel : Sel) :
    cnt (fun e => e.hour == h && sel.sees e) (rekeep w evs) = cnt (fun e => e.hour == h && sel.sees e) evs := by
  unfold rekeep
  rw [cnt_map (fun e => { e with kept := e.kept && w e.hour }) _ (fun _ => rfl)]
  exact cnt_congr _ (fun e _ => by simp [sees_kept])

theorem loAt_rekeep_le (w : Nat → Bool) (evs : List Ev) (h : Nat) (sel : Sel) :
    cnt (fun e => e.kept && e.hour == h && sel.sees e) (rekeep w evs) ≤
      cnt (fun e => e.kept && e.hour == h && sel.sees e) evs := by
  unfold rekeep
  rw [cnt_map (fun e => { e with kept := e.kept && w e.hour }) _ (fun _ => rfl)]
  apply cnt_le_of_imp
  intro e _ hp
  simp only [sees_kept, Bool.and_eq_true] at hp ⊢
  exact ⟨⟨hp.1.1.1, hp.1.2⟩, hp.2⟩

theorem loAt_rekeep_zero (w : Nat → Bool) (evs : List Ev) (h : Nat) (sel : Sel) (hw : w h = false) :
    cnt (fun e => e.kept && e.hour == h && sel.sees e) (rekeep w evs) = 0 := by
  unfold rekeep
  rw [cnt_map (fun e => { e with kept := e.kept && w e.hour }) _ (fun _ => rfl)]
  apply cnt_false
  intro e _
  by_cases he : e.hour = h
  · simp [he, hw]
  · simp [he]

theorem mem_rekeep {w : Nat → Bool} {evs : List Ev} {e' : Ev} (h : e' ∈ rekeep w evs) :
    ∃ e ∈ evs, e'.hour = e.hour ∧ e'.kept = (e.kept && w e.hour) := by
  unfold rekeep at h
  obtain ⟨e, he, rfl⟩ := List.mem_map.mp h
  exact ⟨e, he, rfl, rfl⟩

/-- Lower counts vanish outside the window (kept events are inside it). -/
theorem Inv.lowerAt_zero {g : Ghost} {s : State} (hi : Inv g s) (h : Nat) (sel : Sel)
    (hw : inWindow g.now g.limit h = false) : lowerAt g h sel = 0 := by
  unfold lowerAt
  apply cnt_false
  intro e he
  by_cases hk : e.kept = true
  · have := hi.evKept e he hk
    by_cases hh : e.hour = h
    · rw [hh, hw] at this; cases this
    · simp [hh]
  · simp [hk]

theorem optVal_le_upperAt {g : Ghost} {s : State} (hi : Inv g s) (h : Nat) (sel : Sel) :
    optVal sel (s.db.get h) ≤ upperAt g h sel := by
  cases hg : s.db.get h with
  | none => simp [optVal]
  | some v => exact (hi.dbUp h v (get_some_mem hg)).2 sel

/-! ### a configuration change that keeps the clock -/

/-- New limit / enabled flag at the same hour (`setDays`, `putConf`). -/
theorem inv_reconf {g : Ghost} {s : State} (hi : Inv g s) (ms : Nat) (en : Bool) (hv : validIvl ms = true) :
    Inv ({ g with limit := ms / msPerHour, enabled := en } : Ghost).refresh
        { s with limit := ms, enabled := en } := by
  refine { clock := hi.clock, nowClock := hi.nowClock, chi := hi.chi, cur := hi.cur, lim := rfl, ivl := hv,
           en := rfl, lo := hi.lo, hi := hi.hi,
           evHour := ?_, evKept := ?_, dbUp := ?_, curUp := ?_, curLo := ?_, dbLo := ?_ }
  · intro e' he'
    obtain ⟨e, he, h1, _⟩ := mem_rekeep he'
    rw [h1]; exact hi.evHour e he
  · intro e' he' hk
    obtain ⟨e, he, h1, h2⟩ := mem_rekeep he'
    rw [h2, Bool.and_eq_true] at hk
    rw [h1]; exact hk.2
  · intro k v hkv
    refine ⟨(hi.dbUp k v hkv).1, fun sel => ?_⟩
    have := (hi.dbUp k v hkv).2 sel
    simp only [upperAt, Ghost.refresh] at this ⊢
    rw [show (List.map _ g.evs) = rekeep (inWindow g.now (ms / msPerHour)) g.evs from rfl, upAt_rekeep]
    exact this
  · intro sel
    have := hi.curUp sel
    simp only [upperAt, Ghost.refresh] at this ⊢
    rw [show (List.map _ g.evs) = rekeep (inWindow g.now (ms / msPerHour)) g.evs from rfl, upAt_rekeep]
    exact this
  · intro sel
    have := hi.curLo sel
    simp only [lowerAt, Ghost.refresh] at this ⊢
    rw [show (List.map _ g.evs) = rekeep (inWindow g.now (ms / msPerHour)) g.evs from rfl]
    exact Nat.le_trans (loAt_rekeep_le ..) this
  · intro h hh sel
    have := hi.dbLo h hh sel
    simp only [lowerAt, Ghost.refresh] at this ⊢
    rw [show (List.map _ g.evs) = rekeep (inWindow g.now (ms / msPerHour)) g.evs from rfl]
    exact Nat.le_trans (loAt_rekeep_le ..) this

/-- Everything forgotten; the fresh unit is for the hour the clock shows
(`clear`, `setDays 0`). -/
theorem inv_clear {g : Ghost} {s : State} (hi : Inv g s) (en : Bool) :
    Inv { g with enabled := en, evs := [], now := g.clock } (clear { s with enabled := en }) := by
  refine { clock := hi.clock, nowClock := Nat.le_refl _, chi := hi.chi, cur := ?_, lim := hi.lim, ivl := hi.ivl,
           en := rfl, lo := Nat.le_trans hi.lo hi.nowClock, hi := hi.chi,
           evHour := ?_, evKept := ?_, dbUp := ?_, curUp := ?_, curLo := ?_, dbLo := ?_ }
  · simp [clear, newUnit, hi.clock]
  · intro e he; simp at he
  · intro e he; simp at he
  · intro k v hkv; simp [clear] at hkv
  · intro sel; cases sel <;> simp [clear, newUnit, MemUnit.serialize, Sel.val]
  · intro sel; simp [lowerAt, cnt]
  · intro h _ sel; simp [lowerAt, cnt]

/-- The clock moves on, the module has not noticed. -/
theorem inv_advance {g : Ghost} {s : State} (hi : Inv g s) (h : Nat) (d : Bool) (h1 : g.clock ≤ h) (h2 : h < U32) :
    Inv { g with clock := h, dom := d } (advance s h) :=
  { clock := rfl, nowClock := Nat.le_trans hi.nowClock h1, chi := h2, cur := hi.cur, lim := hi.lim, ivl := hi.ivl,
    en := hi.en, lo := hi.lo, hi := hi.hi, evHour := hi.evHour, evKept := hi.evKept, dbUp := hi.dbUp,
    curUp := hi.curUp, curLo := hi.curLo, dbLo := hi.dbLo }

end AGH.C09
