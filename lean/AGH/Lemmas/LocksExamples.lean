/-
C05 — non-vacuity of the lock-machine theorems: a disciplined program that
really contends, an undisciplined one with a reachable race, a lock-order
inversion with a reachable deadlock (and wait-for cycle), and the RWMutex
recursive-read-lock deadlock.  Core Lean only.
-/
import AGH.Lemmas.LocksExec
namespace AGH.C05

open Event Mode

/-! ### a disciplined, ranked program whose goroutines really contend -/

/-- Two goroutines, each `mu.Lock(); x = …; mu.Unlock()`. -/
def exGood : Prog :=
  [[acq 0 excl, wr 0, rel 0 excl], [acq 0 excl, wr 0, rel 0 excl]]

example : progDisc (fun _ => 0) exGood = true := by decide
example : progRanked (fun l => l) exGood = true := by decide

/-- Both goroutines acquire lock 0 exclusively and write variable 0. -/
example : exGood.all (fun t => t.contains (acq 0 excl) && t.contains (wr 0)) = true := by decide

/-- The lock really arbitrates: while goroutine 0 is inside, goroutine 1's pick
is refused; afterwards it is granted, and both run to completion. -/
example : modelSched exGood [0, 1, 0, 1, 0, 1, 1, 1] =
    [true, false, true, false, true, true, true, true] := by decide

example : (statesFrom (init exGood) [0, 1, 0, 1, 0, 1, 1, 1]).getLast?.map unfinished = some false := by
  decide

/-- The theorems apply to it. -/
example : ∀ s, Reach (init exGood) s → ¬ Race s ∧ ¬ Deadlock s ∧ ∀ i, ¬ WaitChain s i i :=
  fun s hr =>
    ⟨lockset_sound (fun _ => 0) exGood (by decide) s hr,
     order_sound (fun l => l) exGood (by decide) s hr,
     no_wait_cycle (fun l => l) exGood (by decide) s hr⟩

/-! ### an undisciplined program with a reachable race -/

/-- Goroutine 0 writes under the lock, goroutine 1 reads without it. -/
def exRacy : Prog := [[acq 0 excl, wr 0, rel 0 excl], [rd 0]]

/-- No guard assignment makes it disciplined. -/
example : ∀ guard, progDisc guard exRacy = false := by
  intro guard
  simp [progDisc, exRacy, discOK, mayRead, holdsMode]

example : ∃ s, Reach (init exRacy) s ∧ Race s := by
  refine ⟨(statesFrom (init exRacy) [0]).getLast (by decide), ?_, ?_⟩
  · exact statesFrom_reach _ _ Reach.refl [0] _ (List.getLast_mem _)
  · exact (raceB_iff _).1 (by decide)

/-- The same state, with the `Reach` derivation and the `Race` witnesses spelled out. -/
example : ∃ s, Reach (init exRacy) s ∧ Race s := by
  refine ⟨[⟨[(0, excl)], false, [wr 0, rel 0 excl]⟩, ⟨[], false, [rd 0]⟩], ?_, ?_⟩
  · exact Reach.step Reach.refl (Step.run 0 (by decide))
  · exact ⟨0, 1, 0, true, false, by decide, rfl, rfl, Or.inl rfl⟩

/-! ### lock-order inversion: a reachable deadlock and wait-for cycle -/

def exInversion : Prog :=
  [[acq 0 excl, acq 1 excl, rel 1 excl, rel 0 excl],
   [acq 1 excl, acq 0 excl, rel 0 excl, rel 1 excl]]

/-- It is perfectly disciplined in the lockset sense (no accesses at all), … -/
example : progDisc (fun _ => 0) exInversion = true := by decide

/-- … but no rank function orders its acquisitions. -/
example : ∀ rank, progRanked rank exInversion = false := by
  intro rank
  simp only [progRanked, exInversion, List.all_cons, List.all_nil, rankOK, Bool.and_true,
    Bool.true_and]
  cases h1 : decide (rank 0 < rank 1) with
  | false => simp
  | true =>
    have : rank 0 < rank 1 := of_decide_eq_true h1
    have h2 : decide (rank 1 < rank 0) = false := decide_eq_false (by omega)
    simp [h2]

/-- After each goroutine took its first lock. -/
def exInversionStuck : State :=
  [⟨[(0, excl)], false, [acq 1 excl, rel 1 excl, rel 0 excl]⟩,
   ⟨[(1, excl)], false, [acq 0 excl, rel 0 excl, rel 1 excl]⟩]

example : (statesFrom (init exInversion) [0, 1]).getLast? = some exInversionStuck := by decide

theorem exInversion_reach : Reach (init exInversion) exInversionStuck :=
  statesFrom_reach _ _ Reach.refl [0, 1] _ (by decide)

example : ∃ s, Reach (init exInversion) s ∧ Deadlock s :=
  ⟨exInversionStuck, exInversion_reach, (deadlockB_iff _).1 (by decide)⟩

example : ∃ s i, Reach (init exInversion) s ∧ WaitChain s i i := by
  refine ⟨exInversionStuck, 0, exInversion_reach, ?_⟩
  refine WaitChain.cons (k := 1) ?_ (WaitChain.one ?_)
  · exact ⟨_, _, 1, excl, _, rfl, rfl, rfl, by decide, by decide⟩
  · exact ⟨_, _, 0, excl, _, rfl, rfl, rfl, by decide, by decide⟩

/-! ### RWMutex: recursive read lock with a pending writer -/

/-- A: `RLock; RLock; RUnlock; RUnlock`.  B: `Lock; Unlock`. -/
def exRecursiveRead : Prog :=
  [[acq 0 shared, acq 0 shared, rel 0 shared, rel 0 shared], [acq 0 excl, rel 0 excl]]

/-- Accepted by no rank function: lock 0 is acquired while held. -/
example : ∀ rank, progRanked rank exRecursiveRead = false := by
  intro rank
  simp [progRanked, exRecursiveRead, rankOK]

/-- After A's first `RLock` and B's announcement. -/
def exRecursiveReadStuck : State :=
  [⟨[(0, shared)], false, [acq 0 shared, rel 0 shared, rel 0 shared]⟩,
   ⟨[], true, [acq 0 excl, rel 0 excl]⟩]

theorem exRecursiveRead_reach : Reach (init exRecursiveRead) exRecursiveReadStuck :=
  Reach.step (Reach.step Reach.refl (Step.run 0 (s' :=
    [⟨[(0, shared)], false, [acq 0 shared, rel 0 shared, rel 0 shared]⟩,
     ⟨[], false, [acq 0 excl, rel 0 excl]⟩]) (by decide)))
    (Step.ann 1 (by decide))

example : ∃ s, Reach (init exRecursiveRead) s ∧ Deadlock s :=
  ⟨exRecursiveReadStuck, exRecursiveRead_reach, (deadlockB_iff _).1 (by decide)⟩

/-- Without the writer's announcement the second `RLock` is granted: the
deadlock is due to the pending writer. -/
example : grantsFrom (init exRecursiveRead) [0, 0, 0, 0, 1, 1] =
    [true, true, true, true, true, true] := by decide

end AGH.C05
