/-
Lemmas for C07: the string level of the entry codec (`encoding/json` escaping
and un-escaping) round-trips; the raw-line test of `quickMatch` is exact.
Core Lean only.
-/
import AGH.Model.QLogJSON
namespace AGH.C07
open AGH

theorem hexVal_hexLower (n : Nat) (h : n < 16) : hexVal (hexLower n) = some n := by
  unfold hexVal hexLower
  split
  · have : 48 ≤ 48 + n ∧ 48 + n ≤ 57 := by omega
    simp [this]
  · have h1 : ¬ (48 ≤ 87 + n ∧ 87 + n ≤ 57) := by omega
    have h2 : 97 ≤ 87 + n ∧ 87 + n ≤ 102 := by omega
    simp [h1, h2]

theorem unescape_raw (b : Nat) (t : Bytes) (h1 : b ≠ 92) (h2 : b ≠ 34) (h3 : ¬ b < 32) :
    unescape (b :: t) = (unescape t).map (b :: ·) := by
  conv => lhs; unfold unescape
  split
  · rename_i h; cases h
  · rename_i h; simp at h; exact absurd h.1 h1
  · rename_i h; simp at h; exact absurd h.1 h1
  · rename_i h; simp at h; exact absurd h.1 h1
  · rename_i b' r' _ _ _ h
    simp only [List.cons.injEq] at h
    obtain ⟨hb, hr⟩ := h
    subst hb hr
    have : ¬ (b = 34 ∨ b < 32) := by omega
    simp only [this, if_false]
    cases unescape t <;> rfl


theorem unescape_simple (c v : Nat) (t : Bytes) (hc : c ≠ 117) (hs : simpleEsc c = some v) :
    unescape (92 :: c :: t) = (unescape t).map (v :: ·) := by
  conv => lhs; unfold unescape
  split
  · rename_i h; cases h
  · rename_i h; cases h
  · rename_i h; simp at h; exact absurd h.1 hc
  · rename_i c' r' _ h
    simp only [List.cons.injEq, true_and] at h
    obtain ⟨hb, hr⟩ := h
    subst hb hr
    rw [hs]
    cases unescape t <;> rfl
  · rename_i b' r' _ _ hne h
    simp only [List.cons.injEq] at h
    exact (hne c t h.1.symm h.2.symm).elim

theorem unescape_u (h1 h2 h3 h4 v : Nat) (t : Bytes) (hu : uEsc h1 h2 h3 h4 = some v) :
    unescape (92 :: 117 :: h1 :: h2 :: h3 :: h4 :: t) = (unescape t).map (v :: ·) := by
  conv => lhs; unfold unescape
  split
  · rename_i h; cases h
  · rename_i h; cases h
  · rename_i a b c d r h
    simp only [List.cons.injEq, true_and] at h
    obtain ⟨ha, hb, hc, hd, hr⟩ := h
    subst ha hb hc hd hr
    rw [hu]
    cases unescape t <;> rfl
  · rename_i c' r' hne h
    simp only [List.cons.injEq, true_and] at h
    exact (hne h1 h2 h3 h4 t h.1.symm h.2.symm).elim
  · rename_i b' r' _ hne2 _ h
    simp only [List.cons.injEq] at h
    exact (hne2 h1 h2 h3 h4 t h.1.symm h.2.symm).elim


theorem unescape_escapeByte (b : Nat) (t : Bytes) :
    unescape (escapeByte b ++ t) = (unescape t).map (b :: ·) := by
  unfold escapeByte
  split
  · rename_i h; subst h; exact unescape_simple 34 34 t (by decide) (by decide)
  split
  · rename_i h; subst h; exact unescape_simple 92 92 t (by decide) (by decide)
  split
  · rename_i h; subst h; exact unescape_simple 98 8 t (by decide) (by decide)
  split
  · rename_i h; subst h; exact unescape_simple 102 12 t (by decide) (by decide)
  split
  · rename_i h; subst h; exact unescape_simple 110 10 t (by decide) (by decide)
  split
  · rename_i h; subst h; exact unescape_simple 114 13 t (by decide) (by decide)
  split
  · rename_i h; subst h; exact unescape_simple 116 9 t (by decide) (by decide)
  split
  · rename_i h
    have hb : b < 64 := by omega
    apply unescape_u
    unfold uEsc
    rw [hexVal_hexLower _ (by omega), hexVal_hexLower _ (by omega)]
    have : hexVal 48 = some 0 := by decide
    simp only [this]
    have hv : ((0 * 16 + 0) * 16 + b / 16) * 16 + b % 16 = b := by omega
    simp only [hv]
    have : b < 128 := by omega
    simp [this]
  · rename_i h1 h2 _ _ _ _ _ h8
    exact unescape_raw b t h2 h1 (by omega)

/-- ROUND TRIP of a string value: the decoder reads back what the encoder wrote. -/
theorem unescape_escape (s : Bytes) : unescape (escape s) = some s := by
  induction s with
  | nil => rfl
  | cons b rest ih =>
    have : escape (b :: rest) = escapeByte b ++ escape rest := by simp [escape]
    rw [this, unescape_escapeByte, ih]; rfl

theorem escapeByte_contains (b : Nat) : (escapeByte b).contains 92 = jsonEscapedByte b := by
  unfold escapeByte jsonEscapedByte
  repeat' split
  all_goals simp_all
  · omega
  · rw [Bool.eq_iff_iff]; simp; omega


/-- `quickMatch`'s test "the raw value contains a backslash" is exactly the
model's `jsonEscaped`. -/
theorem escape_contains_backslash (s : Bytes) : (escape s).contains 92 = jsonEscaped s := by
  induction s with
  | nil => rfl
  | cons b rest ih =>
    have : escape (b :: rest) = escapeByte b ++ escape rest := by simp [escape]
    rw [this, List.contains_eq_any_beq, List.any_append, ← List.contains_eq_any_beq,
      ← List.contains_eq_any_beq, ih, escapeByte_contains]
    simp [jsonEscaped]

theorem escapeByte_raw (b : Nat) (h : jsonEscapedByte b = false) : escapeByte b = [b] ∧ b ≠ 34 := by
  unfold jsonEscapedByte at h
  simp only [Bool.or_eq_false_iff, decide_eq_false_iff_not, beq_eq_false_iff_ne] at h
  unfold escapeByte
  obtain ⟨⟨⟨⟨⟨h0, h1⟩, h2⟩, h3⟩, h4⟩, h5⟩ := h
  have e1 : ¬ b = 8 := by omega
  have e2 : ¬ b = 12 := by omega
  have e3 : ¬ b = 10 := by omega
  have e4 : ¬ b = 13 := by omega
  have e5 : ¬ b = 9 := by omega
  have e6 : ¬ (b < 32 ∨ b = 60 ∨ b = 62 ∨ b = 38) := by omega
  simp only [h1, h2, e1, e2, e3, e4, e5, e6, if_false]
  exact ⟨trivial, h1⟩

/-- Without an escape the raw text that `readJSONValue` cuts out of the line is
the decoded value itself: for such records the quick match on the raw line and
the full match see the same host / ClientID. -/
theorem rawValue_unescaped (s rest : Bytes) (h : jsonEscaped s = false) :
    rawValue (escape s ++ 34 :: rest) = s := by
  induction s with
  | nil => simp [escape, rawValue]
  | cons b t ih =>
    simp only [jsonEscaped, List.any_cons, Bool.or_eq_false_iff] at h
    have hb := escapeByte_raw b h.1
    have : escape (b :: t) = escapeByte b ++ escape t := by simp [escape]
    rw [this, hb.1]
    simp only [rawValue, List.cons_append, List.nil_append, List.takeWhile_cons, ne_eq, hb.2,
      not_false_eq_true, decide_true, if_true]
    congr 1
    exact ih (by simpa [jsonEscaped] using h.2)


end AGH.C07
