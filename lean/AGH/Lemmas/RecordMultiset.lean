/-
C08 lemmas: multiset difference of record lists and growth of counters.
-/
import AGH.Spec.Record
set_option linter.unusedSimpArgs false
set_option linter.unusedSimpArgs false
set_option linter.unusedSectionVars false
namespace AGH.C08
open AGH AGH.Bytes

variable {α : Type} [BEq α] [LawfulBEq α]

theorem minus_nil_left (b : List α) : minus ([] : List α) b = [] := by
  unfold minus
  induction b with
  | nil => rfl
  | cons x rest ih => simpa using ih

theorem minus_append_self (m x : List α) : minus (m ++ x) m = x := by
  unfold minus
  induction m with
  | nil => rfl
  | cons y rest ih =>
    simp only [List.foldl_cons, List.cons_append, List.erase_cons_head]
    exact ih

theorem minus_self (m : List α) : minus m m = [] := by
  have := minus_append_self m ([] : List α)
  simpa using this

theorem le_cnt_of_mem {m : List (α × Nat)} {k : α} {n : Nat} (h : (k, n) ∈ m) : n ≤ cnt m k := by
  induction m with
  | nil => simp at h
  | cons kv rest ih =>
    obtain ⟨k', n'⟩ := kv
    simp only [cnt]
    rcases List.mem_cons.mp h with heq | hr
    · cases heq
      simp
    · have := ih hr
      omega

/-- Unchanged counters: nothing has grown. -/
theorem grown_self (m : List (α × Nat)) : grown m m = [] := by
  unfold grown
  have : m.filter (fun kv => decide (kv.2 > cnt m kv.1)) = [] := by
    apply List.filter_eq_nil_iff.mpr
    intro kv hkv
    have := le_cnt_of_mem (m := m) (k := kv.1) (n := kv.2) hkv
    simp
    omega
  simp [this]

theorem mem_bump_ne {m : List (α × Nat)} {k x : α} {n : Nat} (h : (x, n) ∈ bump m k) (hne : (x == k) = false) :
    (x, n) ∈ m := by
  induction m with
  | nil =>
    simp [bump] at h
    obtain ⟨rfl, _⟩ := h
    simp at hne
  | cons kv rest ih =>
    obtain ⟨k', n'⟩ := kv
    simp only [bump] at h
    by_cases hk : (k' == k) = true
    · simp only [hk, if_true] at h
      rcases List.mem_cons.mp h with heq | hr
      · cases heq
        rw [hk] at hne; simp at hne
      · exact List.mem_cons_of_mem _ hr
    · simp only [hk] at h
      rcases List.mem_cons.mp h with heq | hr
      · cases heq; exact List.mem_cons_self ..
      · exact List.mem_cons_of_mem _ (ih hr)

/-- After `map[k]++` only `k` can have grown. -/
theorem grown_bump {m : List (α × Nat)} {k x : α} (h : x ∈ grown (bump m k) m) : x = k := by
  unfold grown at h
  obtain ⟨kv, hkv, rfl⟩ := List.mem_map.mp h
  obtain ⟨hin, hgt⟩ := List.mem_filter.mp hkv
  cases hk : kv.1 == k
  · exfalso
    have hm : (kv.1, kv.2) ∈ m := mem_bump_ne (by simpa using hin) hk
    have := le_cnt_of_mem hm
    simp at hgt
    omega
  · exact eq_of_beq hk

end AGH.C08
