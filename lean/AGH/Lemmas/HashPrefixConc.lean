/-
C19: overlapping lookups on one Checker are serialisable.
-/
import AGH.Lemmas.HashPrefixCodec
namespace AGH.C19
open AGH AGH.Bytes

theorem check_two_steps (cf : Conf) (now : Nat) (hashes : List Hash)
    (exchange : Bytes → Option (List RR)) (ord : List Hash → List (Prefix × List Hash)) (c : Cache) :
    check cf now hashes exchange ord c =
      match findInCache now hashes c with
      | (.cached b, c1) => (⟨.blocked b, none⟩, c1)
      | (.ask toReq, c1) => checkAnswer cf now toReq exchange ord c1 := by
  unfold check checkAnswer
  generalize findInCache now hashes c = r
  obtain ⟨f, c1⟩ := r
  cases f with
  | cached b => rfl
  | ask toReq => simp only

/-- what the cache scan promises about a pending lookup, independent of what
happens to the cache afterwards -/
def Pending (db hashes toReq : List Hash) : Prop :=
  (∀ y ∈ toReq, y ∈ hashes) ∧ (∀ y ∈ hashes, y ∈ toReq ∨ y ∉ db)

theorem checkAnswer_none {cf : Conf} {now : Nat} {toReq : List Hash} {exch : Bytes → Option (List RR)}
    {ord : List Hash → List (Prefix × List Hash)} {c : Cache}
    (h : exch (getQuestion cf.suffix toReq) = none) :
    checkAnswer cf now toReq exch ord c = (⟨.upstreamErr, some (getQuestion cf.suffix toReq)⟩, c) := by
  simp [checkAnswer, h]

theorem checkAnswer_some {cf : Conf} {now : Nat} {toReq : List Hash} {exch : Bytes → Option (List RR)}
    {ord : List Hash → List (Prefix × List Hash)} {c : Cache} {answer : List RR}
    (h : exch (getQuestion cf.suffix toReq) = some answer) :
    checkAnswer cf now toReq exch ord c =
      (⟨.blocked (findMatch toReq (receivedHashes answer)), some (getQuestion cf.suffix toReq)⟩,
       storeInCache now cf.ttl toReq (ord (receivedHashes answer)) c) := by
  simp [checkAnswer, h]

/-- second half of a lookup on ANY cache satisfying the invariant -/
theorem checkAnswer_sound (db : List Hash) (cf : Conf) (now : Nat) (hashes toReq : List Hash)
    (exch : Bytes → Option (List RR)) (ord : List Hash → List (Prefix × List Hash)) (c : Cache)
    (hinv : Inv db now c) (hp : Pending db hashes toReq)
    (henv : ∀ answer, exch (getQuestion cf.suffix toReq) = some answer →
      Honest db toReq (receivedHashes answer) ∧
      validGroups (receivedHashes answer) (ord (receivedHashes answer)) = true) :
    Inv db now (checkAnswer cf now toReq exch ord c).2 ∧
    (∀ b, (checkAnswer cf now toReq exch ord c).1.verdict = .blocked b →
      b = hashes.any (fun h => db.contains h)) ∧
    (checkAnswer cf now toReq exch ord c).1.question = some (getQuestion cf.suffix toReq) := by
  cases he : exch (getQuestion cf.suffix toReq) with
  | none =>
    rw [checkAnswer_none he]
    exact ⟨hinv, fun b hb => (by cases hb), rfl⟩
  | some answer =>
    rw [checkAnswer_some he]
    obtain ⟨hh, hv⟩ := henv answer he
    refine ⟨inv_storeInCache hh hv hinv, ?_, rfl⟩
    intro b hb
    cases hb
    rw [Bool.eq_iff_iff, findMatch_iff]
    simp only [List.any_eq_true, List.contains_iff_mem]
    constructor
    · rintro ⟨y, hy1, hy2⟩
      exact ⟨y, hp.1 y hy1, ((hh y).mp hy2).1⟩
    · rintro ⟨y, hy1, hy2⟩
      rcases hp.2 y hy1 with h | h
      · exact ⟨y, h, (hh y).mpr ⟨hy2, List.mem_map.mpr ⟨y, h, rfl⟩⟩⟩
      · exact absurd hy2 h

/-- invariant of the concurrent system -/
structure ConcInv (db : List Hash) (now : Nat) (hs : Nat → List Hash) (s : ConcC) : Prop where
  inv : Inv db now s.cache
  pending : ∀ i, s.pc i = 1 → Pending db (hs i) (s.pend i)
  done : ∀ i o, s.res i = some o →
    (∀ b, o.verdict = .blocked b → b = (hs i).any (fun h => db.contains h))

theorem concInv_step {db : List Hash} {cf : Conf} {now : Nat} {hs : Nat → List Hash}
    {exch : Bytes → Option (List RR)} {ord : List Hash → List (Prefix × List Hash)} {s : ConcC}
    (h : ConcInv db now hs s)
    (henv : ∀ toReq answer, exch (getQuestion cf.suffix toReq) = some answer →
      Honest db toReq (receivedHashes answer) ∧
      validGroups (receivedHashes answer) (ord (receivedHashes answer)) = true) (i : Nat) :
    ConcInv db now hs (stepC cf now hs exch ord s i) := by
  unfold stepC
  by_cases h0 : s.pc i = 0
  · simp only [h0, if_true]
    obtain ⟨f1, f2⟩ := findInCache_sound db now (hs i) s.cache h.inv
    generalize findInCache now (hs i) s.cache = r at f1 f2
    obtain ⟨f, c1⟩ := r
    cases f with
    | cached b =>
      simp only at f2 ⊢
      refine ⟨f1, ?_, ?_⟩
      · intro k hk
        by_cases e : k = i
        · subst e; simp at hk
        · simp only [e, if_false] at hk; exact h.pending k hk
      · intro k o ho
        by_cases e : k = i
        · subst e
          simp only [if_true, Option.some.injEq] at ho
          subst ho
          intro b' hb'; cases hb'; exact f2
        · simp only [e, if_false] at ho; exact h.done k o ho
    | ask toReq =>
      simp only at f2 ⊢
      refine ⟨f1, ?_, h.done⟩
      intro k hk
      by_cases e : k = i
      · subst e; simp only [if_true]; exact f2
      · simp only [e, if_false] at hk ⊢; exact h.pending k hk
  · simp only [h0, if_false]
    by_cases h1 : s.pc i = 1
    · simp only [h1, if_true]
      obtain ⟨g1, g2, _⟩ := checkAnswer_sound db cf now (hs i) (s.pend i) exch ord s.cache h.inv
        (h.pending i h1) (fun answer he => henv _ answer he)
      refine ⟨g1, ?_, ?_⟩
      · intro k hk
        by_cases e : k = i
        · subst e; simp at hk
        · simp only [e, if_false] at hk; exact h.pending k hk
      · intro k o ho
        by_cases e : k = i
        · subst e
          simp only [if_true, Option.some.injEq] at ho
          subst ho
          exact g2
        · simp only [e, if_false] at ho; exact h.done k o ho
    · simp only [h1, if_false]; exact h

end AGH.C19
