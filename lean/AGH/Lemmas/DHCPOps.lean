/-
C10 — helper lemmas, part 3: every operation keeps the invariant.
-/
import AGH.Lemmas.DHCPTable
namespace AGH.C10
open AGH

/-! ### small facts -/

theorem mapId_split {f : Lease → Lease} {A B : List Lease} {l : Lease}
    (h : ((A ++ l :: B).map (·.id)).Nodup) : mapId l.id f (A ++ l :: B) = A ++ f l :: B := by
  have hm := (nodup_map_middle h).2
  unfold mapId
  rw [List.map_append, List.map_cons, if_pos rfl]
  have hA : A.map (fun x => if x.id = l.id then f x else x) = A := by
    conv => rhs; rw [← List.map_id A]
    apply List.map_congr_left
    intro x hx
    rw [if_neg (hm x (List.mem_append.2 (.inl hx)))]; rfl
  have hB : B.map (fun x => if x.id = l.id then f x else x) = B := by
    conv => rhs; rw [← List.map_id B]
    apply List.map_congr_left
    intro x hx
    rw [if_neg (hm x (List.mem_append.2 (.inr hx)))]; rfl
  rw [hA, hB]

theorem find_id_mem {L : List Lease} {y : Lease} (h : (L.map (·.id)).Nodup) (hy : y ∈ L) :
    L.find? (fun l => l.id == y.id) = some y := by
  induction L with
  | nil => cases hy
  | cons x xs ih =>
    rw [List.map_cons, List.nodup_cons] at h
    rw [List.find?_cons]
    rcases List.mem_cons.1 hy with rfl | hy'
    · simp
    · have : x.id ≠ y.id := fun e => h.1 (List.mem_map.2 ⟨y, hy', e.symm⟩)
      have : (x.id == y.id) = false := by simpa using this
      rw [this]
      exact ih h.2 hy'

theorem deref_mem {c : Conf} {s : State} (h : Inv c s) {y : Lease} (hy : y ∈ s.leases) : s.deref y.id = some y := by
  unfold State.deref
  rw [List.find?_append, find_id_mem h.idNodup hy]
  rfl

theorem findLease_some {mac : Bytes} {s : State} {l : Lease} (h : findLease mac s = some l) :
    l ∈ s.leases ∧ l.mac = mac := by
  unfold findLease at h
  exact ⟨List.mem_of_find?_eq_some h, by simpa using List.find?_some h⟩

theorem findLease_none {mac : Bytes} {s : State} (h : findLease mac s = none) : ∀ y ∈ s.leases, y.mac ≠ mac := by
  unfold findLease at h
  intro y hy
  have := List.find?_eq_none.1 h y hy
  simpa using this

theorem findExpired_some {now : Nat} {L : List Lease} {l : Lease} (h : findExpired now L = some l) :
    l ∈ L ∧ l.static = false ∧ l.exp < now := by
  induction L with
  | nil => cases h
  | cons x xs ih =>
    unfold findExpired at h
    split at h
    · next hx =>
      cases h
      simp only [Bool.and_eq_true, Bool.not_eq_true', decide_eq_true_eq] at hx
      exact ⟨List.mem_cons_self, hx.1, hx.2⟩
    · obtain ⟨h1, h2, h3⟩ := ih h
      exact ⟨List.mem_cons_of_mem _ h1, h2, h3⟩

theorem findExpired_none {now : Nat} {L : List Lease} (h : findExpired now L = none) :
    ∀ l ∈ L, l.static = true ∨ now ≤ l.exp := by
  induction L with
  | nil => intro l hl; cases hl
  | cons x xs ih =>
    unfold findExpired at h
    split at h
    · cases h
    · next hx =>
      intro l hl
      rcases List.mem_cons.1 hl with rfl | hl'
      · simp only [Bool.and_eq_true, Bool.not_eq_true', decide_eq_true_eq, not_and, Nat.not_lt] at hx
        cases hs : l.static
        · exact .inr (hx hs)
        · exact .inl rfl
      · exact ih h l hl'

theorem firstClear_some (bits : Nat → Bool) : ∀ (n o r : Nat), firstClear bits n o = some r →
    o ≤ r ∧ r < o + n ∧ bits r = false := by
  intro n
  induction n with
  | zero => intro o r h; cases h
  | succ n ih =>
    intro o r h
    unfold firstClear at h
    split at h
    · obtain ⟨h1, h2, h3⟩ := ih (o + 1) r h
      exact ⟨by omega, by omega, h3⟩
    · next hb =>
      cases h
      exact ⟨Nat.le_refl _, by omega, by simpa using hb⟩

theorem firstClear_none (bits : Nat → Bool) : ∀ (n o : Nat), firstClear bits n o = none →
    ∀ r, o ≤ r → r < o + n → bits r = true := by
  intro n
  induction n with
  | zero => intro o _ r h1 h2; omega
  | succ n ih =>
    intro o h r h1 h2
    unfold firstClear at h
    split at h
    · next hb =>
      by_cases hr : r = o
      · subst hr; exact hb
      · exact ih (o + 1) h r (by omega) (by omega)
    · cases h

/-- Bumping the id counter. -/
theorem Inv_fresh {c : Conf} {s : State} (h : Inv c s) : Inv c s.fresh.2 := by
  refine { h with idLt := ?_ }
  intro l hl
  have := h.idLt l hl
  simp only [State.fresh]
  omega

theorem Inv_setIP_same {c : Conf} {s : State} (h : Inv c s) {y : Lease} (hy : y ∈ s.leases) :
    Inv c (s.setIP y.ip y.id) := by
  refine Inv_congr h rfl rfl ?_ rfl rfl rfl
  have : s.ips y.ip = some y.id := (h.ipsIff y.ip y.id).2 ⟨y, hy, rfl, rfl⟩
  funext x
  simp only [State.setIP, setFn]
  split
  · next hx => rw [hx, this]
  · rfl

/-! ### a lease gets another hardware address (`copy(l.HWAddr, mac)`) -/

theorem Inv_setMac {c : Conf} {s : State} {A B : List Lease} {l : Lease} (m : Bytes)
    (h : Inv c { s with leases := A ++ l :: B }) (hm : ∀ y ∈ A ++ B, y.mac ≠ m) :
    Inv c { s with leases := A ++ { l with mac := m } :: B } := by
  have hmem : ∀ y, y ∈ A ++ { l with mac := m } :: B →
      ∃ y0 ∈ A ++ l :: B, y0.id = y.id ∧ y0.ip = y.ip ∧ y0.static = y.static ∧ y0.host = y.host ∧
        (y.mac = m ∨ y0 = y) := by
    intro y hy
    rcases mem_middle.1 hy with rfl | hy'
    · exact ⟨l, mem_middle.2 (.inl rfl), rfl, rfl, rfl, rfl, .inl rfl⟩
    · exact ⟨y, mem_middle.2 (.inr hy'), rfl, rfl, rfl, rfl, .inr rfl⟩
  have hmem' : ∀ y0, y0 ∈ A ++ l :: B →
      ∃ y ∈ A ++ { l with mac := m } :: B, y0.id = y.id ∧ y0.ip = y.ip ∧ y0.static = y.static ∧ y0.host = y.host := by
    intro y hy
    rcases mem_middle.1 hy with rfl | hy'
    · exact ⟨_, mem_middle.2 (.inl rfl), rfl, rfl, rfl, rfl⟩
    · exact ⟨y, mem_middle.2 (.inr hy'), rfl, rfl, rfl, rfl⟩
  constructor
  · have := h.ipNodup; simpa [List.map_append] using this
  · have h0 := (nodup_map_middle h.macNodup).1
    have hp : ((A ++ { l with mac := m } :: B).map (·.mac)).Perm (m :: (A ++ B).map (·.mac)) := by
      simp
    refine hp.nodup_iff.2 (List.nodup_cons.2 ⟨?_, h0⟩)
    intro hin
    rcases List.mem_map.1 hin with ⟨y, hy, hye⟩
    exact hm y hy hye
  · intro y hy hs
    obtain ⟨y0, hy0, _, hi, hst, _⟩ := hmem y hy
    rw [← hi]; exact h.dynPool y0 hy0 (hst ▸ hs)
  · intro o
    rw [show ({ s with leases := A ++ { l with mac := m } :: B } : State).bits o =
      ({ s with leases := A ++ l :: B } : State).bits o from rfl, h.bitsIff o]
    constructor
    · rintro ⟨y0, hy0, h1, h2⟩
      obtain ⟨y, hy, _, hi, _⟩ := hmem' y0 hy0
      exact ⟨y, hy, hi ▸ h1, hi ▸ h2⟩
    · rintro ⟨y, hy, h1, h2⟩
      obtain ⟨y0, hy0, _, hi, _⟩ := hmem y hy
      exact ⟨y0, hy0, hi ▸ h1, hi ▸ h2⟩
  · intro ip id
    rw [show ({ s with leases := A ++ { l with mac := m } :: B } : State).ips ip =
      ({ s with leases := A ++ l :: B } : State).ips ip from rfl, h.ipsIff ip id]
    constructor
    · rintro ⟨y0, hy0, h1, h2⟩
      obtain ⟨y, hy, hid, hi, _⟩ := hmem' y0 hy0
      exact ⟨y, hy, hi ▸ h1, hid ▸ h2⟩
    · rintro ⟨y, hy, h1, h2⟩
      obtain ⟨y0, hy0, hid, hi, _⟩ := hmem y hy
      exact ⟨y0, hy0, hi ▸ h1, hid ▸ h2⟩
  · intro k id hk
    obtain ⟨y0, hy0, h1, h2⟩ := h.hostsSound k id hk
    obtain ⟨y, hy, hid, _, _, hh⟩ := hmem' y0 hy0
    exact ⟨y, hy, hid ▸ h1, hh ▸ h2⟩
  · exact h.hostsNil
  · have := h.idNodup; simpa [List.map_append] using this
  · intro y hy
    obtain ⟨y0, hy0, hid, _⟩ := hmem y hy
    rw [← hid]; exact h.idLt y0 hy0
  · exact h.disk

/-! ### `allocateLease` -/

/-- What `allocateLease` returns, under the invariant, for a client without a lease. -/
theorem allocate_spec {c : Conf} {s : State} {mac : Bytes} (h : Inv c s)
    (hmac : ∀ y ∈ s.leases, y.mac ≠ mac) :
    Inv c (allocateLease c mac s).1 ∧ (allocateLease c mac s).1.now = s.now ∧
    (allocateLease c mac s).1.disk = s.disk ∧
    (((allocateLease c mac s).2 = some none ∧ nextIP c s = none ∧ findExpired s.now s.leases = none ∧
        (allocateLease c mac s).1 = s) ∨
     (∃ l A B, (allocateLease c mac s).2 = some (some l) ∧ (allocateLease c mac s).1.leases = A ++ l :: B ∧
        l.mac = mac ∧ l.static = false ∧ c.start ≤ l.ip ∧ l.ip ≤ c.stop)) := by
  unfold allocateLease
  cases hn : nextIP c s with
  | none =>
    simp only []
    cases hf : findExpired s.now s.leases with
    | none => exact ⟨h, rfl, rfl, .inl ⟨rfl, by trivial, rfl, rfl⟩⟩
    | some l =>
      simp only []
      obtain ⟨hl, hst, _⟩ := findExpired_some hf
      obtain ⟨A, B, hs⟩ := List.append_of_mem hl
      have hupd : (s.update l.id (fun x => { x with mac := mac })) =
          { s with leases := A ++ { l with mac := mac } :: B } := by
        unfold State.update
        rw [hs, mapId_split (by rw [← hs]; exact h.idNodup)]
      have h' : Inv c { s with leases := A ++ l :: B } := by rw [← hs]; exact h
      have hAB : ∀ y ∈ A ++ B, y.mac ≠ mac := by
        intro y hy
        exact hmac y (by rw [hs]; exact mem_middle.2 (.inr hy))
      rw [hupd]
      refine ⟨Inv_setMac mac h' hAB, rfl, rfl, .inr ⟨_, A, B, rfl, rfl, rfl, hst, ?_⟩⟩
      exact h.dynPool l hl hst
  | some ip =>
    simp only []
    unfold nextIP at hn
    cases hfc : firstClear s.bits (c.stop + 1 - c.start) 0 with
    | none => rw [hfc] at hn; cases hn
    | some o =>
      rw [hfc] at hn
      simp only [Option.map_some, Option.some.injEq] at hn
      obtain ⟨_, ho2, ho3⟩ := firstClear_some s.bits _ _ _ hfc
      have hip1 : c.start ≤ ip := by omega
      have hip2 : ip ≤ c.stop := by omega
      have hfree : ∀ y ∈ s.leases, y.ip ≠ ip := by
        intro y hy he
        have : s.bits o = true := (h.bitsIff o).2 ⟨y, hy, by omega, by omega⟩
        rw [ho3] at this; cases this
      have hoff : offset c ip = some (ip - c.start) := offset_eq_some.2 ⟨hip1, hip2, rfl⟩
      have hadd : addLease c { id := s.nextId, mac := mac, ip := ip, host := [], static := false, exp := 0 } s.fresh.2 =
          .ok (addLeaseOK c { id := s.nextId, mac := mac, ip := ip, host := [], static := false, exp := 0 } s.fresh.2) := by
        unfold addLease
        simp [hoff]
      rw [hadd]
      simp only []
      refine ⟨?_, rfl, rfl, .inr ⟨_, s.leases, [], rfl, rfl, rfl, rfl, hip1, hip2⟩⟩
      refine Inv_add (Inv_fresh h) hadd ?_ ?_ ?_ ?_
      · exact hfree
      · exact hmac
      · simp [State.fresh]
      · intro y hy
        have := h.idLt y hy
        simp only [State.fresh] at hy ⊢
        omega

/-! ### hostname changes on a table lease (`commitLease`, DECLINE) -/

theorem Inv_renameState {c : Conf} {s s' : State} {A B : List Lease} {l : Lease} (h : Inv c s)
    (hs : s.leases = A ++ l :: B) (h' : Bytes) (e : Nat)
    (e1 : s'.leases = A ++ { l with host := h', exp := e } :: B)
    (e2 : s'.hosts =
      if h' ≠ [] then setFn (if l.host ≠ [] ∧ l.host ≠ h' then setFn s.hosts l.host none else s.hosts) h' (some l.id)
      else (if l.host ≠ [] ∧ l.host ≠ h' then setFn s.hosts l.host none else s.hosts))
    (e3 : s'.bits = s.bits) (e4 : s'.ips = s.ips) (e5 : s'.nextId = s.nextId) (e6 : s'.disk = s.disk) :
    Inv c s' := by
  have h0 : Inv c { s with leases := A ++ l :: B } := by rw [← hs]; exact h
  exact Inv_congr (Inv_rename h' e h0) e1 e3 e4 e2 e5 e6

theorem renameLease_inv {c : Conf} {s : State} {l : Lease} (hn : Bytes) (e : Nat) (h : Inv c s)
    (hl : l ∈ s.leases) : Inv c (renameLease l hn e s) := by
  obtain ⟨A, B, hs⟩ := List.append_of_mem hl
  unfold renameLease
  have hupd : (s.update l.id (fun x => { x with host := hn, exp := e })) =
      { s with leases := A ++ { l with host := hn, exp := e } :: B } := by
    unfold State.update
    rw [hs, mapId_split (by rw [← hs]; exact h.idNodup)]
  simp only []
  rw [hupd]
  by_cases hd : l.host ≠ [] ∧ l.host ≠ hn <;> by_cases hne : hn ≠ []
  · rw [if_pos hd, if_pos hne]
    exact Inv_renameState h hs hn e rfl (by simp [State.setHost, State.delHost, if_pos hd, if_pos hne]) rfl rfl rfl rfl
  · rw [if_pos hd, if_neg hne]
    exact Inv_renameState h hs hn e rfl (by simp [State.delHost, if_pos hd, if_neg hne]) rfl rfl rfl rfl
  · rw [if_neg hd, if_pos hne]
    exact Inv_renameState h hs hn e rfl (by simp [State.setHost, if_neg hd, if_pos hne]) rfl rfl rfl rfl
  · rw [if_neg hd, if_neg hne]
    exact Inv_renameState h hs hn e rfl (by simp [if_neg hd, if_neg hne]) rfl rfl rfl rfl

/-- `renameLease` keeps every lease's id, MAC, address and kind, in order. -/
theorem renameLease_frame {s : State} (l : Lease) (hn : Bytes) (e : Nat) :
    (renameLease l hn e s).leases = mapId l.id (fun x => { x with host := hn, exp := e }) s.leases ∧
    (renameLease l hn e s).now = s.now ∧ (renameLease l hn e s).disk = s.disk ∧
    (renameLease l hn e s).nextId = s.nextId := by
  unfold renameLease
  simp only []
  split <;> split <;> exact ⟨rfl, rfl, rfl, rfl⟩

theorem commitLease_inv {O : Oracle} {c : Conf} {s : State} {l : Lease} (hostname : Bytes) (h : Inv c s)
    (hl : l ∈ s.leases) : Inv c (commitLease O c l hostname s) := by
  unfold commitLease
  have hi := renameLease_inv (commitName O c l hostname s) (s.now + c.leaseTime) h hl
  obtain ⟨A, B, hs⟩ := List.append_of_mem hl
  have hle := (renameLease_frame (s := s) l (commitName O c l hostname s) (s.now + c.leaseTime)).1
  rw [hs, mapId_split (by rw [← hs]; exact h.idNodup)] at hle
  have hmem : ({ l with host := commitName O c l hostname s, exp := s.now + c.leaseTime } : Lease) ∈
      (renameLease l (commitName O c l hostname s) (s.now + c.leaseTime) s).leases := by
    rw [hle]; exact mem_middle.2 (.inl rfl)
  exact Inv_setIP_same hi (y := { l with host := commitName O c l hostname s, exp := s.now + c.leaseTime }) hmem

end AGH.C10
