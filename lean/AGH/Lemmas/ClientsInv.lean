/-
C04 lemmas, part 3: the consistency invariant of the client index and its
preservation by `index.add` / `index.remove`.  Core Lean only.
-/
import AGH.Lemmas.ClientsSorted
namespace AGH.C04
open AGH AGH.Bytes
open AGH.C03 (IP Prefix)

/-! ### Go maps -/

section fmap
variable {κ : Type} [DecidableEq κ]

theorem FMap.setAll_apply (m : FMap κ) (ks : List κ) (u : UID) (k : κ) :
    (m.setAll ks u) k = if k ∈ ks then some u else m k := by
  unfold FMap.setAll
  induction ks generalizing m with
  | nil => simp
  | cons a rest ih =>
    simp only [List.foldl_cons, ih, List.mem_cons]
    unfold FMap.set
    by_cases h1 : k ∈ rest
    · simp [h1]
    · by_cases h2 : k = a <;> simp [h1, h2]

theorem FMap.delAll_apply (m : FMap κ) (ks : List κ) (k : κ) :
    (m.delAll ks) k = if k ∈ ks then none else m k := by
  unfold FMap.delAll
  induction ks generalizing m with
  | nil => simp
  | cons a rest ih =>
    simp only [List.foldl_cons, ih, List.mem_cons]
    unfold FMap.del
    by_cases h1 : k ∈ rest
    · simp [h1]
    · by_cases h2 : k = a <;> simp [h1, h2]

theorem FMap.set_eq_setAll (m : FMap κ) (k : κ) (u : UID) : m.set k u = m.setAll [k] u := rfl
theorem FMap.del_eq_delAll (m : FMap κ) (k : κ) : m.del k = m.delAll [k] := rfl

end fmap

/-! ### one map against the list of clients -/

/-- UIDs identify clients. -/
def UidsDistinct (cl : List Client) : Prop := cl.Pairwise (fun a b => a.uid ≠ b.uid)

theorem UidsDistinct.eq_of_uid {cl : List Client} (h : UidsDistinct cl) {a b : Client}
    (ha : a ∈ cl) (hb : b ∈ cl) (he : a.uid = b.uid) : a = b := by
  unfold UidsDistinct at h
  induction h with
  | nil => cases ha
  | cons hx _ ih =>
    rcases List.mem_cons.mp ha with rfl | ha' <;> rcases List.mem_cons.mp hb with rfl | hb'
    · rfl
    · exact absurd he (hx b hb')
    · exact absurd he.symm (hx a ha')
    · exact ih ha' hb'

/-- The map sends exactly the identifiers listed by the clients to their UIDs. -/
def MapInv {κ : Type} (m : FMap κ) (cl : List Client) (ids : Client → List κ) : Prop :=
  ∀ k u, m k = some u ↔ ∃ c, c ∈ cl ∧ c.uid = u ∧ k ∈ ids c

section mapinv
variable {κ : Type} [DecidableEq κ]

omit [DecidableEq κ] in
theorem MapInv.empty (ids : Client → List κ) : MapInv (FMap.empty : FMap κ) [] ids := by
  intro k u; simp [FMap.empty]

theorem MapInv.add {m : FMap κ} {cl : List Client} {ids : Client → List κ} (h : MapInv m cl ids)
    (c : Client) (hfree : ∀ k ∈ ids c, m k = none) :
    MapInv (m.setAll (ids c) c.uid) (cl ++ [c]) ids := by
  intro k u
  rw [FMap.setAll_apply]
  by_cases hk : k ∈ ids c
  · simp only [hk, if_true, Option.some.injEq]
    constructor
    · intro hu; exact ⟨c, by simp, hu, hk⟩
    · rintro ⟨c', hc', hu, hk'⟩
      rcases List.mem_append.mp hc' with hc' | hc'
      · have : m k = some u := (h k u).mpr ⟨c', hc', hu, hk'⟩
        rw [hfree k hk] at this; cases this
      · simp at hc'; subst hc'; exact hu
  · simp only [hk, if_false]
    rw [h k u]
    constructor
    · rintro ⟨c', hc', hu, hk'⟩; exact ⟨c', by simp [hc'], hu, hk'⟩
    · rintro ⟨c', hc', hu, hk'⟩
      rcases List.mem_append.mp hc' with hc' | hc'
      · exact ⟨c', hc', hu, hk'⟩
      · simp at hc'; subst hc'; exact absurd hk' hk

theorem MapInv.remove {m : FMap κ} {cl : List Client} {ids : Client → List κ} (h : MapInv m cl ids)
    (hu : UidsDistinct cl) {c : Client} (hc : c ∈ cl) :
    MapInv (m.delAll (ids c)) (cl.filter (·.uid != c.uid)) ids := by
  intro k u
  rw [FMap.delAll_apply]
  by_cases hk : k ∈ ids c
  · simp only [hk, if_true]
    constructor
    · intro hn; cases hn
    · rintro ⟨c', hc', hu', hk'⟩
      have hm := List.mem_filter.mp hc'
      have h1 : m k = some c'.uid := (h k c'.uid).mpr ⟨c', hm.1, rfl, hk'⟩
      have h2 : m k = some c.uid := (h k c.uid).mpr ⟨c, hc, rfl, hk⟩
      rw [h1] at h2
      have : c'.uid = c.uid := Option.some.inj h2
      simp [this] at hm
  · simp only [hk, if_false]
    rw [h k u]
    constructor
    · rintro ⟨c', hc', hu', hk'⟩
      refine ⟨c', List.mem_filter.mpr ⟨hc', ?_⟩, hu', hk'⟩
      simp only [bne_iff_ne, ne_eq]
      intro he
      have := hu.eq_of_uid hc' hc he
      subst this
      exact hk hk'
    · rintro ⟨c', hc', hu', hk'⟩
      exact ⟨c', (List.mem_filter.mp hc').1, hu', hk'⟩

end mapinv

/-! ### the sorted subnet map under a client's subnets -/

theorem sm_setAll {sm : SortedMap} (h : SMInv sm) (ps : List Prefix) (u : UID) :
    SMInv (ps.foldl (fun m p => m.set p u) sm) ∧
    (ps.foldl (fun m p => m.set p u) sm).vals = sm.vals.setAll ps u := by
  induction ps generalizing sm with
  | nil => exact ⟨h, rfl⟩
  | cons p rest ih =>
    simp only [List.foldl_cons]
    have := ih (h.set p u)
    refine ⟨this.1, ?_⟩
    rw [this.2, SortedMap.set_vals]
    rfl

theorem sm_delAll {sm : SortedMap} (h : SMInv sm) (ps : List Prefix) :
    ∃ sm', ps.foldlM (fun m p => SortedMap.del m p) sm = some sm' ∧ SMInv sm' ∧
      sm'.vals = sm.vals.delAll ps := by
  induction ps generalizing sm with
  | nil => exact ⟨sm, rfl, h, rfl⟩
  | cons p rest ih =>
    obtain ⟨m1, h1, hi1, hv1⟩ := h.del p
    obtain ⟨m2, h2, hi2, hv2⟩ := ih hi1
    refine ⟨m2, ?_, hi2, ?_⟩
    · simp only [List.foldlM_cons, h1]
      exact h2
    · rw [hv2, hv1]; rfl

/-! ### the invariant -/

/-- Every index entry points at a stored client that lists that identifier,
every identifier of every stored client is indexed to it, UIDs are unique, and
the sorted key list of the subnet map is sorted and is its domain. -/
structure Inv (ci : Index) : Prop where
  uids : UidsDistinct ci.clients
  names : MapInv ci.nameToUID ci.clients (fun c => [c.name])
  cids : MapInv ci.clientIDToUID ci.clients (·.cids)
  ips : MapInv ci.ipToUID ci.clients (·.ips)
  macs : MapInv ci.macToUID ci.clients (·.macs)
  subs : MapInv ci.subnetToUID.vals ci.clients (·.subnets)
  sm : SMInv ci.subnetToUID

theorem Inv.empty : Inv Index.empty :=
  { uids := List.Pairwise.nil
    names := MapInv.empty _, cids := MapInv.empty _, ips := MapInv.empty _, macs := MapInv.empty _
    subs := MapInv.empty _, sm := SMInv.empty }

theorem Index.client_eq_some {ci : Index} (h : UidsDistinct ci.clients) {u : UID} {c : Client} :
    ci.client u = some c ↔ c ∈ ci.clients ∧ c.uid = u := by
  unfold Index.client
  constructor
  · intro hf
    have h1 := List.find?_some hf
    exact ⟨List.mem_of_find?_eq_some hf, by simpa using h1⟩
  · rintro ⟨hc, hu⟩
    cases hf : ci.clients.find? (·.uid == u) with
    | none =>
      have := List.find?_eq_none.mp hf c hc
      simp [hu] at this
    | some c' =>
      have h1 := List.find?_some hf
      have hm := List.mem_of_find?_eq_some hf
      have : c'.uid = c.uid := by rw [hu]; simpa using h1
      rw [h.eq_of_uid hm hc this]

theorem Index.client_eq_none {ci : Index} {u : UID} :
    ci.client u = none ↔ ∀ c ∈ ci.clients, c.uid ≠ u := by
  unfold Index.client
  rw [List.find?_eq_none]
  simp

/-- A fresh UID: filtering it out changes nothing. -/
theorem filter_fresh {cl : List Client} {u : UID} (h : ∀ c ∈ cl, c.uid ≠ u) :
    cl.filter (·.uid != u) = cl := by
  rw [List.filter_eq_self]
  intro c hc
  simp [h c hc]

/-- `index.add` of a client with a fresh UID and free identifiers keeps the invariant. -/
theorem Inv.add {ci : Index} (h : Inv ci) (c : Client)
    (hfresh : ∀ d ∈ ci.clients, d.uid ≠ c.uid)
    (hname : ci.nameToUID c.name = none)
    (hcids : ∀ k ∈ c.cids, ci.clientIDToUID k = none)
    (hips : ∀ k ∈ c.ips, ci.ipToUID k = none)
    (hsubs : ∀ k ∈ c.subnets, ci.subnetToUID.vals k = none)
    (hmacs : ∀ k ∈ c.macs, ci.macToUID k = none) :
    Inv (ci.add c) ∧ (ci.add c).clients = ci.clients ++ [c] := by
  have hcl : (ci.add c).clients = ci.clients ++ [c] := by
    unfold Index.add; simp only; rw [filter_fresh hfresh]
  have hsm := sm_setAll h.sm c.subnets c.uid
  refine ⟨?_, hcl⟩
  constructor
  · rw [hcl]
    unfold UidsDistinct
    rw [List.pairwise_append]
    refine ⟨h.uids, List.pairwise_singleton _ _, ?_⟩
    intro a ha b hb
    simp at hb; subst hb
    exact hfresh a ha
  · rw [hcl]
    show MapInv (ci.nameToUID.set c.name c.uid) _ _
    rw [FMap.set_eq_setAll]
    exact h.names.add c (by intro k hk; simp at hk; subst hk; exact hname)
  · rw [hcl]; exact h.cids.add c hcids
  · rw [hcl]; exact h.ips.add c hips
  · rw [hcl]; exact h.macs.add c hmacs
  · rw [hcl]
    show MapInv (c.subnets.foldl (fun m p => m.set p c.uid) ci.subnetToUID).vals _ _
    rw [hsm.2]
    exact h.subs.add c hsubs
  · exact hsm.1

/-- `index.remove` of a stored client never panics and keeps the invariant. -/
theorem Inv.remove {ci : Index} (h : Inv ci) {c : Client} (hc : c ∈ ci.clients) :
    ∃ ci', ci.remove c = some ci' ∧ Inv ci' ∧
      ci'.clients = ci.clients.filter (·.uid != c.uid) ∧
      ci'.nameToUID = ci.nameToUID.delAll [c.name] ∧
      ci'.clientIDToUID = ci.clientIDToUID.delAll c.cids ∧
      ci'.ipToUID = ci.ipToUID.delAll c.ips ∧
      ci'.macToUID = ci.macToUID.delAll c.macs ∧
      ci'.subnetToUID.vals = ci.subnetToUID.vals.delAll c.subnets := by
  obtain ⟨sm', hf, hi, hv⟩ := sm_delAll h.sm c.subnets
  unfold Index.remove
  rw [hf]
  refine ⟨_, rfl, ?_, rfl, rfl, rfl, rfl, rfl, hv⟩
  constructor
  · exact h.uids.sublist List.filter_sublist
  · exact h.names.remove h.uids hc
  · exact h.cids.remove h.uids hc
  · exact h.ips.remove h.uids hc
  · exact h.macs.remove h.uids hc
  · show MapInv sm'.vals _ _
    rw [hv]; exact h.subs.remove h.uids hc
  · exact hi

end AGH.C04
