/-
C06 — why an evaluation sees the table of ONE instant.

`Model.Rewrites.evalDuring` lets an evaluation read `states[i]` for a single
`i`.  That is a statement about `confMu`, not about the rewrite logic: it holds
because `processRewrites` keeps the read lock for the whole call and every
writer of `conf.Rewrites` holds the write lock.  This file states the argument
as a theorem about a readers–writer lock machine; the premises about the CODE
(which sites hold which lock) are the regenerated facts of `AGH.Gen.C06Sites`,
checked in `Props/C06.lean` (`C06_T_*`).

Machine: threads take and release the lock for reading or writing, read the
table and write it (a write bumps a version counter).  `step` is partial:
`none` stands both for "the lock does not admit this step now" (the schedule
does not take it) and for "this access is not under the lock it needs" (a
program outside the discipline).  For every schedule the machine accepts,
every read made under one read hold returns the version current when the hold
began: no write falls inside a read hold.
-/
namespace AGH.C06.Lock

inductive Ev where
  | rlock (t : Nat)
  | runlock (t : Nat)
  | lock (t : Nat)
  | unlock (t : Nat)
  | read (t : Nat)
  | write (t : Nat)
deriving Repr, DecidableEq

structure LS where
  /-- read holders with the table version at acquisition -/
  held : List (Nat × Nat) := []
  writer : Option Nat := none
  version : Nat := 0
  /-- reads made under a read hold: (thread, version at acquisition, version read) -/
  seen : List (Nat × Nat × Nat) := []

def acq (s : LS) (t : Nat) : Option Nat := (s.held.find? (fun p => p.1 == t)).map (·.2)

def step (s : LS) : Ev → Option LS
  | .rlock t => if s.writer.isNone then some { s with held := (t, s.version) :: s.held } else none
  | .runlock t =>
    if (acq s t).isSome then some { s with held := s.held.filter (fun p => p.1 != t) } else none
  | .lock t => if s.writer.isNone && s.held.isEmpty then some { s with writer := some t } else none
  | .unlock t => if s.writer == some t then some { s with writer := none } else none
  | .read t =>
    match acq s t with
    | some v => some { s with seen := (t, v, s.version) :: s.seen }
    | none => if s.writer == some t then some s else none
  | .write t => if s.writer == some t then some { s with version := s.version + 1 } else none

def run (s : LS) : List Ev → Option LS
  | [] => some s
  | e :: es => (step s e).bind (fun s' => run s' es)

def Inv (s : LS) : Prop :=
  (s.writer.isSome = true → s.held = []) ∧ (∀ p ∈ s.held, p.2 = s.version) ∧
    (∀ r ∈ s.seen, r.2.1 = r.2.2)

theorem inv_init : Inv {} := by
  refine ⟨fun _ => rfl, ?_, ?_⟩ <;> intro _ h <;> cases h

theorem acq_mem {s : LS} {t v : Nat} (h : acq s t = some v) : (t, v) ∈ s.held := by
  unfold acq at h
  cases hf : s.held.find? (fun p => p.1 == t) with
  | none => rw [hf] at h; cases h
  | some p =>
    rw [hf] at h
    simp only [Option.map_some, Option.some.injEq] at h
    have hm := List.mem_of_find?_eq_some hf
    have hp := List.find?_some hf
    simp only [beq_iff_eq] at hp
    cases p with
    | mk a b =>
      simp only at hp h
      subst hp; subst h
      exact hm

theorem step_inv {s s' : LS} {e : Ev} (hi : Inv s) (hs : step s e = some s') : Inv s' := by
  obtain ⟨hw, hh, hr⟩ := hi
  cases e with
  | rlock t =>
    simp only [step] at hs
    split at hs
    · rename_i hn
      cases hs
      refine ⟨?_, ?_, hr⟩
      · intro hsome
        simp only at hsome
        rw [Option.isNone_iff_eq_none] at hn
        rw [hn] at hsome
        cases hsome
      · intro p hp
        simp only [List.mem_cons] at hp
        cases hp with
        | inl h => subst h; rfl
        | inr h => exact hh p h
    · cases hs
  | runlock t =>
    simp only [step] at hs
    split at hs
    · cases hs
      refine ⟨?_, ?_, hr⟩
      · intro hsome
        simp only at hsome ⊢
        rw [hw hsome]
        rfl
      · intro p hp
        exact hh p (List.mem_filter.mp hp).1
    · cases hs
  | lock t =>
    simp only [step] at hs
    split at hs
    · rename_i hc
      cases hs
      simp only [Bool.and_eq_true, List.isEmpty_iff] at hc
      refine ⟨fun _ => hc.2, hh, hr⟩
    · cases hs
  | unlock t =>
    simp only [step] at hs
    split at hs
    · cases hs
      refine ⟨?_, hh, hr⟩
      intro hsome
      cases hsome
    · cases hs
  | read t =>
    simp only [step] at hs
    split at hs
    · rename_i v hv
      cases hs
      refine ⟨hw, hh, ?_⟩
      intro r hm
      simp only [List.mem_cons] at hm
      cases hm with
      | inl h =>
        subst h
        exact hh (t, v) (acq_mem hv)
      | inr h => exact hr r h
    · split at hs
      · cases hs
        exact ⟨hw, hh, hr⟩
      · cases hs
  | write t =>
    simp only [step] at hs
    split at hs
    · rename_i hwt
      cases hs
      have hsome : s.writer.isSome = true := by
        simp only [beq_iff_eq] at hwt
        rw [hwt]
        rfl
      have hemp := hw hsome
      refine ⟨fun _ => hemp, ?_, hr⟩
      intro p hp
      simp only at hp
      rw [hemp] at hp
      cases hp
    · cases hs

theorem run_inv (es : List Ev) : ∀ {s s' : LS}, Inv s → run s es = some s' → Inv s' := by
  induction es with
  | nil =>
    intro s s' hi hr
    simp only [run, Option.some.injEq] at hr
    subst hr
    exact hi
  | cons e es ih =>
    intro s s' hi hr
    simp only [run] at hr
    cases hs : step s e with
    | none => rw [hs] at hr; cases hr
    | some s1 =>
      rw [hs] at hr
      exact ih (step_inv hi hs) hr

/-- Every accepted schedule: each read made under a read hold returns the
version that was current when the hold began. -/
theorem reads_of_one_hold_one_version (es : List Ev) (s : LS) (h : run {} es = some s) :
    ∀ r ∈ s.seen, r.2.1 = r.2.2 :=
  (run_inv es inv_init h).2.2

/-- A write while a reader holds is never accepted (the schedule that would put
an update between two lookups of one evaluation does not exist). -/
theorem no_write_inside_read_hold (es : List Ev) (s : LS) (t : Nat) (h : run {} es = some s)
    (hheld : s.held ≠ []) : step s (.write t) = none := by
  have hi := run_inv es inv_init h
  simp only [step]
  split
  · rename_i hwt
    have hsome : s.writer.isSome = true := by
      simp only [beq_iff_eq] at hwt
      rw [hwt]
      rfl
    exact absurd (hi.1 hsome) hheld
  · rfl

/-- non-vacuity: a reader's two lookups around which a writer tries to update -/
example : (run {} [.rlock 1, .read 1, .read 1, .runlock 1, .lock 2, .write 2, .unlock 2,
    .rlock 1, .read 1, .runlock 1]).map (·.seen) = some [(1, 1, 1), (1, 0, 0), (1, 0, 0)] := by
  decide
example : run {} [.rlock 1, .read 1, .lock 2] = none := by decide
/-- without the lock spanning both lookups the mixture exists (what seed C06-17 did) -/
example : (run {} [.rlock 1, .read 1, .runlock 1, .lock 2, .write 2, .unlock 2, .rlock 1, .read 1,
    .runlock 1]).map (fun s => s.seen.map (·.2.2)) = some [1, 0] := by decide

end AGH.C06.Lock
