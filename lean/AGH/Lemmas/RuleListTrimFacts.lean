/-
C15: the three facts about `bytes.TrimSpace` the parser theorems use, proved
for the model of Go's algorithm (ASCII fast path + `TrimFunc` with
`utf8.DecodeRune` / `utf8.DecodeLastRune`), for ALL byte strings including
invalid UTF-8.
-/
import AGH.Lemmas.RuleListParse
import AGH.Lemmas.RuleListIdem
namespace AGH.C15

theorem trimFacts : TrimFacts := ⟨trimSpace_sub, trimSpace_idem, trimSpace_noCR⟩

end AGH.C15
