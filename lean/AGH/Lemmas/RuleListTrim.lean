/-
C15 helper lemmas about the model of `bytes.TrimSpace`: the result is what
remains of the input after deleting bytes (so it has no byte the input does not
have, and is not longer).
-/
import AGH.Model.RuleList
namespace AGH.C15
open AGH AGH.Bytes

theorem trimLeftF_sub : ∀ (f : Nat) (s : Bytes), (trimLeftF f s).Sublist s := by
  intro f
  induction f with
  | zero => intro s; simp [trimLeftF]
  | succ f ih =>
    intro s
    unfold trimLeftF
    cases s with
    | nil => simp
    | cons c t =>
      simp only
      split
      · exact List.Sublist.refl _
      · exact (ih _).trans (List.drop_sublist _ _)

theorem trimRightFunc_sub (s : Bytes) : (trimRightFunc s).Sublist s := by
  unfold trimRightFunc
  split
  · split <;> exact List.take_sublist _ _
  · exact List.nil_sublist _

theorem trimFunc_sub (s : Bytes) : (trimFunc s).Sublist s :=
  (trimRightFunc_sub _).trans (trimLeftF_sub _ _)

theorem trimSpaceBack_sub : ∀ (rev : Bytes), (trimSpaceBack rev).Sublist rev.reverse := by
  intro rev
  induction rev with
  | nil => simp [trimSpaceBack]
  | cons c r ih =>
    unfold trimSpaceBack
    split
    · exact trimFunc_sub _
    · split
      · refine ih.trans ?_
        rw [List.reverse_cons]
        exact List.sublist_append_left _ _
      · exact List.Sublist.refl _

theorem trimSpace_sub : ∀ (x : Bytes), (trimSpace x).Sublist x := by
  intro x
  induction x with
  | nil => simp [trimSpace]
  | cons c rest ih =>
    unfold trimSpace
    split
    · exact trimFunc_sub _
    · split
      · exact ih.trans (List.sublist_cons_self _ _)
      · have := trimSpaceBack_sub (c :: rest).reverse
        rwa [List.reverse_reverse] at this

end AGH.C15

namespace AGH.C15
open AGH AGH.Bytes
open AGH.C17 (decodeRune runeError isCont)

/-! ### No trailing carriage return -/

/-- A rune of two or more bytes starts with a lead byte. -/
theorem decodeRune_lead (c : Nat) (t : Bytes) (h : 2 ≤ (decodeRune (c :: t)).2) : 0xC2 ≤ c := by
  by_cases h1 : c < 0x80
  · simp [decodeRune, h1] at h
  by_cases h2 : c < 0xC2
  · simp [decodeRune, h1, h2] at h
  omega

theorem isCont_ge {b : Nat} (h : isCont b = true) : 0x80 ≤ b := by
  simp [isCont] at h; omega

theorem take_ite_last {C : Prop} [Decidable C] {x e k : Nat} {l : Bytes}
    (hk : C → ∃ b, (l.take k).getLast? = some b ∧ 0x80 ≤ b)
    (h1 : ∃ b, (l.take 1).getLast? = some b ∧ 0x80 ≤ b) :
    ∃ b, (l.take (if C then (x, k) else (e, 1)).2).getLast? = some b ∧ 0x80 ≤ b := by
  split
  · rename_i h; exact hk h
  · exact h1

/-- The bytes of the first rune of a string that starts with a non-ASCII byte
end with a non-ASCII byte. -/
theorem decodeRune_take_last (c : Nat) (t : Bytes) (hc : 0x80 ≤ c) :
    ∃ b, ((c :: t).take (decodeRune (c :: t)).2).getLast? = some b ∧ 0x80 ≤ b := by
  have one : ∃ b, ((c :: t).take 1).getLast? = some b ∧ 0x80 ≤ b := ⟨c, by simp, hc⟩
  have h1 : ¬ c < 0x80 := by omega
  by_cases h2 : c < 0xC2
  · simp only [decodeRune, h1, h2, if_true, if_false]; exact one
  by_cases h3 : c < 0xE0
  · rcases t with _ | ⟨b1, t⟩
    · simp only [decodeRune, h1, h2, h3, if_true, if_false]; exact one
    · simp only [decodeRune, h1, h2, h3, if_true, if_false]
      apply take_ite_last _ one
      intro hb
      exact ⟨b1, by simp, isCont_ge hb⟩
  by_cases h4 : c < 0xF0
  · rcases t with _ | ⟨b1, _ | ⟨b2, t⟩⟩
    · simp only [decodeRune, h1, h2, h3, h4, if_true, if_false]; exact one
    · simp only [decodeRune, h1, h2, h3, h4, if_true, if_false]; exact one
    · simp only [decodeRune, h1, h2, h3, h4, if_true, if_false]
      apply take_ite_last _ one
      intro hb
      simp only [Bool.and_eq_true] at hb
      exact ⟨b2, by simp, isCont_ge hb.2⟩
  by_cases h5 : c < 0xF5
  · rcases t with _ | ⟨b1, _ | ⟨b2, _ | ⟨b3, t⟩⟩⟩
    · simp only [decodeRune, h1, h2, h3, h4, h5, if_true, if_false]; exact one
    · simp only [decodeRune, h1, h2, h3, h4, h5, if_true, if_false]; exact one
    · simp only [decodeRune, h1, h2, h3, h4, h5, if_true, if_false]; exact one
    · simp only [decodeRune, h1, h2, h3, h4, h5, if_true, if_false]
      apply take_ite_last _ one
      intro hb
      simp only [Bool.and_eq_true] at hb
      exact ⟨b3, by simp, isCont_ge hb.2⟩
  · simp only [decodeRune, h1, h2, h3, h4, h5, if_false]; exact one

theorem opt_true_lt {L : Bytes} {j : Nat}
    (h : (match L[j]? with | some x => runeStart x | none => false) = true) : j + 1 ≤ L.length := by
  cases hL : L[j]? with
  | none => rw [hL] at h; cases h
  | some x => obtain ⟨hl, _⟩ := List.getElem?_eq_some_iff.mp hL; omega

/-- What `DecodeLastRune` returns for a string ending in a non-ASCII byte:
size 1, or a size `n ≥ 2` such that the last `n` bytes decode (forwards) to a
rune of exactly `n` bytes. -/
theorem decodeLastRev_spec (b : Nat) (rest : Bytes) (hb : ¬ b < 0x80) :
    (decodeLastRev (b :: rest)).2 = 1 ∨
    (2 ≤ (decodeLastRev (b :: rest)).2 ∧ (decodeLastRev (b :: rest)).2 ≤ (b :: rest).length ∧
      decodeRune (((b :: rest).take (decodeLastRev (b :: rest)).2).reverse) = decodeLastRev (b :: rest)) := by
  unfold decodeLastRev
  simp only [hb, if_false]
  generalize hk : (if (match (b :: rest)[1]? with | some x => runeStart x | none => false) = true then 2
        else if (match (b :: rest)[2]? with | some x => runeStart x | none => false) = true then 3
        else if (match (b :: rest)[3]? with | some x => runeStart x | none => false) = true then 4
        else min (b :: rest).length 5) = k
  have hkle : k ≤ (b :: rest).length := by
    rw [← hk]
    by_cases p1 : (match (b :: rest)[1]? with | some x => runeStart x | none => false) = true
    · rw [if_pos p1]; exact opt_true_lt p1
    · rw [if_neg p1]
      by_cases p2 : (match (b :: rest)[2]? with | some x => runeStart x | none => false) = true
      · rw [if_pos p2]; exact opt_true_lt p2
      · rw [if_neg p2]
        by_cases p3 : (match (b :: rest)[3]? with | some x => runeStart x | none => false) = true
        · rw [if_pos p3]; exact opt_true_lt p3
        · rw [if_neg p3]; exact Nat.min_le_left _ _
  have hk1 : 1 ≤ k := by
    rw [← hk]
    by_cases p1 : (match (b :: rest)[1]? with | some x => runeStart x | none => false) = true
    · rw [if_pos p1]; omega
    · rw [if_neg p1]
      by_cases p2 : (match (b :: rest)[2]? with | some x => runeStart x | none => false) = true
      · rw [if_pos p2]; omega
      · rw [if_neg p2]
        by_cases p3 : (match (b :: rest)[3]? with | some x => runeStart x | none => false) = true
        · rw [if_pos p3]; omega
        · rw [if_neg p3]; simp only [List.length_cons]; omega
  by_cases hd : (decodeRune ((b :: rest).take k).reverse).2 ≠ k
  · rw [if_pos hd]; left; rfl
  · rw [if_neg hd]
    simp only [ne_eq, Decidable.not_not] at hd
    by_cases h1 : k = 1
    · left; rw [hd, h1]
    · right
      refine ⟨by rw [hd]; omega, by rw [hd]; exact hkle, by rw [hd]⟩

end AGH.C15

namespace AGH.C15
open AGH AGH.Bytes
open AGH.C17 (decodeRune runeError isCont)

theorem lastIdxF_succ (f : Nat) (z : Bytes) (e : Nat) :
    lastIdxF (f + 1) z e =
      if e = 0 then none
      else
        if (!isSpaceRune (if z.getD (e - 1) 0 < 0x80 then (z.getD (e - 1) 0, 1) else decodeLastRune (z.take e)).1) = true
        then some (e - (if z.getD (e - 1) 0 < 0x80 then (z.getD (e - 1) 0, 1) else decodeLastRune (z.take e)).2)
        else lastIdxF f z (e - (if z.getD (e - 1) 0 < 0x80 then (z.getD (e - 1) 0, 1) else decodeLastRune (z.take e)).2) := rfl

theorem take_reverse_cons (z : Bytes) (e : Nat) (he : 1 ≤ e) (hle : e ≤ z.length) :
    (z.take e).reverse = z.getD (e - 1) 0 :: (z.take (e - 1)).reverse := by
  obtain ⟨e, rfl⟩ : ∃ e', e = e' + 1 := ⟨e - 1, by omega⟩
  have hlt : e < z.length := by omega
  rw [List.take_succ_eq_append_getElem hlt, List.reverse_append]
  simp [List.getD_eq_getElem?_getD, List.getElem?_eq_getElem hlt]

/-- The index found by `lastIndexFunc`: inside the prefix, and if the byte
there is ASCII it is not a space. -/
theorem lastIdxF_spec : ∀ (f : Nat) (z : Bytes) (e i : Nat), lastIdxF f z e = some i → e ≤ z.length →
    i < e ∧ (z.getD i 0 < 0x80 → isSpaceRune (z.getD i 0) = false) := by
  intro f
  induction f with
  | zero => intro z e i h; simp [lastIdxF] at h
  | succ f ih =>
    intro z e i h hle
    rw [lastIdxF_succ] at h
    by_cases he : e = 0
    · rw [if_pos he] at h; cases h
    rw [if_neg he] at h
    have he1 : 1 ≤ e := by omega
    -- facts about the rune just examined
    have hstep : ∀ (d : Nat × Nat),
        d = (if z.getD (e - 1) 0 < 0x80 then (z.getD (e - 1) 0, 1) else decodeLastRune (z.take e)) →
        1 ≤ d.2 ∧ d.2 ≤ e ∧
        (isSpaceRune d.1 = false → z.getD (e - d.2) 0 < 0x80 → isSpaceRune (z.getD (e - d.2) 0) = false) := by
      intro d hd
      by_cases hb : z.getD (e - 1) 0 < 0x80
      · rw [if_pos hb] at hd
        subst hd
        exact ⟨by simp, by simpa using he1, fun hns _ => by simpa using hns⟩
      · rw [if_neg hb] at hd
        have hrev := take_reverse_cons z e he1 hle
        have hdl : decodeLastRune (z.take e) = decodeLastRev (z.getD (e - 1) 0 :: (z.take (e - 1)).reverse) := by
          unfold decodeLastRune; rw [hrev]
        rw [hdl] at hd
        have hlen : (z.getD (e - 1) 0 :: (z.take (e - 1)).reverse).length = e := by
          simp only [List.length_cons, List.length_reverse, List.length_take]; omega
        rcases decodeLastRev_spec (z.getD (e - 1) 0) (z.take (e - 1)).reverse hb with h1 | ⟨h2, h3, h4⟩
        · rw [← hd] at h1
          refine ⟨by omega, by omega, ?_⟩
          intro _ hlt
          rw [h1] at hlt
          exact absurd hlt hb
        · rw [← hd] at h2 h3 h4
          rw [hlen] at h3
          refine ⟨by omega, h3, ?_⟩
          intro _ hlt
          exfalso
          -- the last d.2 bytes of the prefix start with a lead byte, which sits at index e - d.2
          rw [← hrev] at h4
          rw [List.take_reverse, List.reverse_reverse, List.length_take, Nat.min_eq_left hle] at h4
          have hne : (z.take e).drop (e - d.2) ≠ [] := by
            intro h0
            have := congrArg List.length h0
            simp only [List.length_drop, List.length_take, List.length_nil] at this
            omega
          cases hdr : (z.take e).drop (e - d.2) with
          | nil => exact hne hdr
          | cons c t =>
            rw [hdr] at h4
            have hlead := decodeRune_lead c t (by rw [h4]; exact h2)
            have hc : z.getD (e - d.2) 0 = c := by
              have h0 : ((z.take e).drop (e - d.2))[0]? = some c := by rw [hdr]; rfl
              rw [List.getElem?_drop, List.getElem?_take] at h0
              simp only [Nat.add_zero] at h0
              rw [if_pos (by omega)] at h0
              simp [List.getD_eq_getElem?_getD, h0]
            rw [hc] at hlt
            omega
    obtain ⟨hd1, hd2, hd3⟩ := hstep _ rfl
    by_cases hns : (!isSpaceRune (if z.getD (e - 1) 0 < 0x80 then (z.getD (e - 1) 0, 1)
        else decodeLastRune (z.take e)).1) = true
    · rw [if_pos hns] at h
      simp only [Option.some.injEq] at h
      subst h
      exact ⟨by omega, hd3 (by simpa using hns)⟩
    · rw [if_neg hns] at h
      obtain ⟨h1, h2⟩ := ih z _ i h (by omega)
      exact ⟨by omega, h2⟩

end AGH.C15

namespace AGH.C15
open AGH AGH.Bytes
open AGH.C17 (decodeRune runeError isCont)

theorem getLast?_append_ne_nil {a b : Bytes} (h : b ≠ []) : (a ++ b).getLast? = b.getLast? := by
  cases b with
  | nil => exact absurd rfl h
  | cons x t =>
    rw [List.getLast?_append]
    cases hx : (x :: t).getLast? with
    | none => simp at hx
    | some y => rfl

theorem trimRightFunc_noCR (z : Bytes) : (trimRightFunc z).getLast? ≠ some 13 := by
  unfold trimRightFunc
  cases hl : lastIdxF (z.length + 1) z z.length with
  | none => simp
  | some i =>
    obtain ⟨hi, hsp⟩ := lastIdxF_spec _ _ _ _ hl (Nat.le_refl _)
    simp only
    have hgi : z.getD i 0 = z[i] := by
      simp [List.getD_eq_getElem?_getD, List.getElem?_eq_getElem hi]
    by_cases hge : z.getD i 0 ≥ 0x80
    · rw [if_pos hge]
      have hdrop : z.drop i = z[i] :: z.drop (i + 1) := List.drop_eq_getElem_cons hi
      rw [hdrop]
      obtain ⟨b, hb, hb80⟩ := decodeRune_take_last z[i] (z.drop (i + 1)) (by rw [← hgi]; exact hge)
      have hsplit : z.take (i + (decodeRune (z[i] :: z.drop (i + 1))).2) =
          z.take i ++ (z[i] :: z.drop (i + 1)).take (decodeRune (z[i] :: z.drop (i + 1))).2 := by
        rw [← hdrop, List.take_add]
      rw [hsplit]
      have hne : (z[i] :: z.drop (i + 1)).take (decodeRune (z[i] :: z.drop (i + 1))).2 ≠ [] := by
        intro h0; rw [h0] at hb; simp at hb
      rw [getLast?_append_ne_nil hne, hb]
      intro h; simp only [Option.some.injEq] at h; omega
    · rw [if_neg hge]
      have hlt : z.getD i 0 < 0x80 := by omega
      have hns := hsp hlt
      rw [List.take_succ_eq_append_getElem hi, getLast?_append_ne_nil (by simp)]
      simp only [List.getLast?_singleton, ne_eq, Option.some.injEq]
      intro h13
      rw [hgi, h13] at hns
      revert hns; decide

theorem trimSpaceBack_noCR : ∀ (rev : Bytes), (trimSpaceBack rev).getLast? ≠ some 13 := by
  intro rev
  induction rev with
  | nil => simp [trimSpaceBack]
  | cons c r ih =>
    unfold trimSpaceBack
    split
    · exact trimRightFunc_noCR _
    · split
      · exact ih
      · rename_i h1 h2
        rw [List.reverse_cons, getLast?_append_ne_nil (by simp)]
        simp only [List.getLast?_singleton, ne_eq, Option.some.injEq]
        intro h13
        rw [h13] at h2
        revert h2; decide

theorem trimSpace_noCR : ∀ (x : Bytes), (trimSpace x).getLast? ≠ some 13 := by
  intro x
  induction x with
  | nil => simp [trimSpace]
  | cons c rest ih =>
    unfold trimSpace
    split
    · exact trimRightFunc_noCR _
    · split
      · exact ih
      · exact trimSpaceBack_noCR _

end AGH.C15
