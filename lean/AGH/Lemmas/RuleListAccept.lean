/-
C15 helper lemmas: which byte strings the parser accepts.
-/
import AGH.Lemmas.RuleListLink
namespace AGH.C15
open AGH AGH.Bytes

theorem isHTMLLine_noncontent (t : Bytes) (h : isContent t = false) : isHTMLLine t = false := by
  cases t with
  | nil => decide
  | cons c s =>
    simp only [isContent, Bool.and_eq_false_iff, bne_eq_false_iff_eq] at h
    have hl : lowerB c ≠ 60 := by
      rcases h with h | h <;> (subst h; decide)
    simp only [isHTMLLine, hasPrefixFold, htmlP, doctypeP, Bool.or_eq_false_iff, Bool.and_eq_false_iff]
    constructor <;> right
    all_goals
      simp only [List.length_cons, List.length_nil]
      cases hq : (lower (List.take _ (c :: s)) == _) with
      | false => rfl
      | true =>
        exfalso
        have := congrArg List.head? (eq_of_beq hq)
        simp [lower, List.take] at this
        exact hl this

/-- The scanner reaches EOF exactly when no line (LF-split, CR included) is
65 536 bytes or longer. -/
theorem scanLines_eof_iff : ∀ (f : Nat) (data : Bytes), data.length + 1 ≤ f →
    ((scanLines f data true).2 = .eof ↔ ∀ l ∈ splitOn nl data, l.length < maxToken) := by
  intro f
  induction f with
  | zero => intro data h; omega
  | succ f ih =>
    intro data hf
    rw [splitOn_splitNL]
    unfold scanLines
    cases data with
    | nil => simp [splitNL, maxToken]
    | cons a s =>
      simp only
      by_cases h1 : (splitNL (a :: s)).1.length ≥ maxToken
      · rw [if_pos h1]
        simp only [List.mem_cons, forall_eq_or_imp]
        constructor
        · intro h; cases h
        · intro h; omega
      · rw [if_neg h1]
        by_cases h2 : (splitNL (a :: s)).2.2 = true
        · rw [if_pos h2, if_pos h2]
          have hlt : (splitNL (a :: s)).2.1.length + 1 ≤ f := by
            have hj := splitNL_found_len (a :: s) h2
            simp only [List.length_cons] at hf hj
            omega
          simp only [List.mem_cons, forall_eq_or_imp]
          rw [ih _ hlt]
          constructor
          · intro h; exact ⟨by omega, h⟩
          · intro h; exact h.2
        · rw [if_neg h2, if_neg h2]
          simp only [List.mem_cons, List.not_mem_nil, or_false, forall_eq]
          constructor
          · intro _; omega
          · intro _; rfl

/-- The loop accepts every line list whose kept lines are free of binary
bytes and do not start with an HTML opener. -/
theorem runLines_accepts : ∀ (ls : List Bytes) (st : PState) (out : Bytes) (n : Nat),
    (∀ k ∈ keptLines ls, k.any likelyBinary = false) →
    (st.written = 0 → ∀ k rest, keptLines ls = k :: rest → isHTMLLine k = false) →
    (runLines st out ls n .eof).err = none := by
  intro ls
  induction ls with
  | nil => intro st out n _ _; simp [runLines]
  | cons l ls ih =>
    intro st out n hb hh
    unfold runLines
    by_cases hc : isContent (trimSpace l) = true
    · have hk : keptLines (l :: ls) = trimSpace l :: keptLines ls := by simp [keptLines, hc]
      have hnh : ¬ (st.written = 0 ∧ isHTMLLine (trimSpace l) = true) := by
        rintro ⟨hw, hx⟩
        rw [hh hw _ _ hk] at hx; cases hx
      rw [processLine_keep st l n hc hnh (hb _ (by rw [hk]; simp))]
      simp only
      apply ih
      · intro k hk'; exact hb k (by rw [hk]; simp [hk'])
      · intro hw; simp [bump] at hw
    · simp only [Bool.not_eq_true] at hc
      have hk : keptLines (l :: ls) = keptLines ls := by simp [keptLines, hc]
      have hnh : ¬ (st.written = 0 ∧ isHTMLLine (trimSpace l) = true) := by
        rintro ⟨_, hx⟩
        rw [isHTMLLine_noncontent _ hc] at hx; cases hx
      obtain ⟨st', hp, _, hw2, _⟩ := processLine_skip st l n hc hnh
      rw [hp]
      simp only
      apply ih
      · intro k hk'; exact hb k (by rw [hk]; exact hk')
      · intro hw; rw [hw2] at hw; rw [← hk]; exact hh hw

/-- **Which byte strings the parser accepts**: exactly those that are not an
HTML document, have no binary byte in a rule line, and have no line of 65 536
bytes or more. -/
theorem parse_accepts_iff (src : Bytes) :
    (parse src true).err = none ↔
      (htmlDoc src = false ∧ binaryDoc src = false ∧ ∀ l ∈ splitOn nl src, l.length < maxToken) := by
  constructor
  · intro h
    obtain ⟨_, _, _, h4, h5⟩ := parse_normal src h
    exact ⟨h4, h5, (scanLines_eof_iff _ src (Nat.le_refl _)).mp (parse_ok_eof h)⟩
  · rintro ⟨h4, h5, h6⟩
    have he := (scanLines_eof_iff _ src (Nat.le_refl _)).mpr h6
    have hk := scanLines_specLines (src.length + 1) src (Nat.le_refl _) he
    rw [parse_def, he]
    apply runLines_accepts
    · rw [hk]
      intro k hk'
      unfold binaryDoc at h5
      rw [List.any_eq_false] at h5
      have := h5 k hk'
      simpa using this
    · intro _ k rest hkr
      rw [hk] at hkr
      unfold htmlDoc at h4
      rw [hkr] at h4
      exact h4

end AGH.C15
