/-
C18 helper lemmas: digit strings, duration tokens, Week traversals (core Lean only).
-/
import AGH.Spec.Schedule
namespace AGH.C18
open AGH

instance : DecidableEq (Except VErr Unit) := fun a b =>
  match a, b with
  | .ok (), .ok () => isTrue rfl
  | .error e, .error e' => if h : e = e' then isTrue (h ▸ rfl) else isFalse (fun hh => h (by injection hh))
  | .ok (), .error _ => isFalse (fun hh => by cases hh)
  | .error _, .ok () => isFalse (fun hh => by cases hh)

/-- `Weekly.Contains` computes the wall-clock time of day: hours, minutes and
seconds of `Clock()` recombine to the second of the day. -/
theorem clockOffset_eq (abs : Int) (nsec : Nat) :
    clockOffset abs nsec = (abs % 86400) * 1000000000 + (nsec : Int) := by
  simp only [clockOffset, clockOf, secondsPerDay, nsPerHour, nsPerMinute, nsPerSec]
  omega

theorem isDigit_digit (d : Nat) (h : d < 10) : isDigit (48 + d) = true := by
  simp [isDigit]; omega

theorem renderNat_lt (n : Nat) (h : n < 10) : renderNat n = [48 + n] := by
  rw [renderNat]; simp [h]

theorem renderNat_ge (n : Nat) (h : ¬ n < 10) : renderNat n = renderNat (n / 10) ++ [48 + n % 10] := by
  rw [renderNat]; simp [h]

/-- the first character of a rendered number is a digit -/
theorem renderNat_head (n : Nat) : ∃ c cs, renderNat n = c :: cs ∧ isDigit c = true := by
  induction n using Nat.strongRecOn with
  | _ n ih =>
    by_cases h : n < 10
    · exact ⟨48 + n, [], renderNat_lt n h, isDigit_digit n h⟩
    · obtain ⟨c, cs, hc, hd⟩ := ih (n / 10) (by omega)
      exact ⟨c, cs ++ [48 + n % 10], by rw [renderNat_ge n h, hc]; rfl, hd⟩

theorem leadingInt_renderNat (n : Nat) : ∀ rest, leadingInt 0 (renderNat n ++ rest) = leadingInt n rest := by
  induction n using Nat.strongRecOn with
  | _ n ih =>
    intro rest
    by_cases h : n < 10
    · rw [renderNat_lt n h]
      simp [leadingInt, isDigit_digit n h]
    · rw [renderNat_ge n h, List.append_assoc, ih (n / 10) (by omega)]
      simp only [List.singleton_append, leadingInt, isDigit_digit (n % 10) (by omega), if_true]
      congr 1
      omega

theorem leadingInt_stop (n : Nat) (rest : Bytes) (h : rest = [] ∨ ∃ c cs, rest = c :: cs ∧ isDigit c = false) :
    leadingInt n rest = (n, rest) := by
  rcases h with rfl | ⟨c, cs, rfl, hc⟩
  · rfl
  · simp [leadingInt, hc]

theorem leadingInt_length (acc : Nat) (s : Bytes) : (leadingInt acc s).2.length ≤ s.length := by
  induction s generalizing acc with
  | nil => simp [leadingInt]
  | cons c cs ih =>
    simp only [leadingInt]
    split
    · have := ih (acc * 10 + (c - 48)); simp; omega
    · simp

theorem leadingInt_digit_length (acc c : Nat) (cs : Bytes) (h : isDigit c = true) :
    (leadingInt acc (c :: cs)).2.length < (c :: cs).length := by
  simp only [leadingInt, h, if_true]
  have := leadingInt_length (acc * 10 + (c - 48)) cs
  simp; omega

theorem spanUnit_length (s : Bytes) : (spanUnit s).1.length + (spanUnit s).2.length = s.length := by
  induction s with
  | nil => simp [spanUnit]
  | cons c cs ih =>
    simp only [spanUnit]
    split
    · simp
    · simp; omega


theorem parseDurLoop_no_fuel : ∀ (fuel : Nat) (d : Int) (s : Bytes), s.length < fuel → parseDurLoop fuel d s ≠ .fuel := by
  intro fuel
  induction fuel with
  | zero => intro d s h; omega
  | succ f ih =>
    intro d s hlen
    cases s with
    | nil => simp [parseDurLoop]
    | cons c cs =>
      simp only [parseDurLoop]
      split
      · simp
      · next hc =>
        have hc' : isDigit c = true ∨ c = 46 := by
          simp at hc
          by_cases h46 : c = 46
          · exact Or.inr h46
          · exact Or.inl (by simpa [h46] using hc)
        split
        · simp
        · next s1 hs1 =>
          split
          · simp
          · split
            · simp
            · split
              · simp
              · apply ih
                next hu _ _ _ _ =>
                have h1 := spanUnit_length (leadingInt 0 (c :: cs)).snd
                have h2 := leadingInt_length 0 (c :: cs)
                have h3 : (spanUnit (leadingInt 0 (c :: cs)).snd).fst.length ≠ 0 := by
                  intro h0; exact hu (List.eq_nil_of_length_eq_zero h0)
                simp at hlen h2
                omega


theorem parseDur_no_fuel (tok : Bytes) : parseDur tok ≠ .fuel := by
  simp only [parseDur]
  split
  · simp
  · split
    · simp
    · have := parseDurLoop_no_fuel ((stripSign tok).2.length + 1) 0 (stripSign tok).2 (by omega)
      split <;> simp_all


theorem stripMinus_digit (c : Nat) (cs : Bytes) (h : isDigit c = true) : stripMinus (c :: cs) = (false, c :: cs) := by
  unfold stripMinus
  split
  · next r heq => injection heq with h1 _; subst h1; simp [isDigit] at h
  · rfl

theorem stripSign_digit (c : Nat) (cs : Bytes) (h : isDigit c = true) : stripSign (c :: cs) = (false, c :: cs) := by
  unfold stripSign
  split
  · next r heq => injection heq with h1 _; subst h1; simp [isDigit] at h
  · next r heq => injection heq with h1 _; subst h1; simp [isDigit] at h
  · rfl

/-- JSON duration token round trip, whole modelled domain (negative values included). -/
theorem jsonDur_roundtrip (ns : Int) (tok : Bytes) (h : jsonDurEncode ns = some tok) :
    jsonDurDecode tok = some ns := by
  unfold jsonDurEncode at h
  split at h
  · next hdom =>
    obtain ⟨hmod, hbound⟩ := hdom
    injection h with h
    subst h
    obtain ⟨c, cs, hc, hd⟩ := renderNat_head (ns / 1000000).natAbs
    have hli : leadingInt 0 (c :: cs) = ((ns / 1000000).natAbs, []) := by
      rw [← hc]
      have := leadingInt_renderNat (ns / 1000000).natAbs []
      simpa [leadingInt] using this
    have hb : (ns / 1000000).natAbs ≤ 9007199254 := by omega
    unfold renderInt
    by_cases hneg : ns / 1000000 < 0
    · simp only [hneg, if_true, jsonDurDecode, hc, stripMinus, hli, hb]
      simp
      omega
    · simp only [hneg, if_false, jsonDurDecode, hc, stripMinus_digit c cs hd, hli, hb]
      simp
      omega
  · simp at h


theorem spanUnit_single (ch : Nat) (rest : Bytes) (h46 : ch ≠ 46) (hnd : isDigit ch = false)
    (hrest : rest = [] ∨ ∃ c cs, rest = c :: cs ∧ isDigit c = true) :
    spanUnit (ch :: rest) = ([ch], rest) := by
  have hr : spanUnit rest = ([], rest) := by
    rcases hrest with rfl | ⟨c, cs, rfl, hc⟩
    · rfl
    · simp [spanUnit, hc]
  simp [spanUnit, h46, hnd, hr]

/-- One `<digits><unit>` group of the `time.ParseDuration` loop (one-letter unit). -/
theorem parseDurLoop_group (f : Nat) (d : Int) (n ch : Nat) (unit : Int) (rest : Bytes)
    (hu : unitNs [ch] = some unit) (h46 : ch ≠ 46) (hnd : isDigit ch = false)
    (hrest : rest = [] ∨ ∃ c cs, rest = c :: cs ∧ isDigit c = true)
    (hlim : d + (n : Int) * unit < durModelLimit) :
    parseDurLoop (f + 1) d (renderNat n ++ ch :: rest) = parseDurLoop f (d + (n : Int) * unit) rest := by
  obtain ⟨c, cs, hc, hd⟩ := renderNat_head n
  have hli : leadingInt 0 (renderNat n ++ ch :: rest) = (n, ch :: rest) := by
    rw [leadingInt_renderNat]
    exact leadingInt_stop n _ (Or.inr ⟨ch, rest, rfl, hnd⟩)
  have hs : renderNat n ++ ch :: rest = c :: (cs ++ ch :: rest) := by rw [hc]; rfl
  rw [hs] at hli
  rw [hs]
  simp only [parseDurLoop, hd, hli, spanUnit_single ch rest h46 hnd hrest, hu]
  simp [h46, Int.not_le.mpr hlim]


theorem parseDurLoop_nil (f : Nat) (d : Int) : parseDurLoop (f + 1) d [] = .ok d := by
  simp [parseDurLoop]

theorem parseDur_of_digit_start (c : Nat) (cs : Bytes) (hd : isDigit c = true) (hcs : cs ≠ []) (d : Int)
    (h : parseDurLoop ((c :: cs).length + 1) 0 (c :: cs) = .ok d) : parseDur (c :: cs) = .ok d := by
  simp only [parseDur, stripSign_digit c cs hd, h]
  have h1 : ¬ (c :: cs = [48]) := by
    intro hh; injection hh with _ h2; exact hcs h2
  simp [h1]

theorem yamlDur_roundtrip (ns : Int) (tok : Bytes) (h : yamlDurEncode ns = some tok)
    (hlim : ns < durModelLimit) : parseDur tok = .ok ns := by
  unfold yamlDurEncode at h
  split at h
  · simp at h
  · next hdom =>
    have hnn : 0 ≤ ns := by omega
    have hmod : ns % 60000000000 = 0 := by simp [nsPerMinute] at hdom; omega
    simp only [nsPerMinute] at h
    obtain ⟨mins, hmins⟩ : ∃ mins, (ns / 60000000000).toNat = mins := ⟨_, rfl⟩
    simp only [hmins] at h
    have hns : ns = (mins : Int) * 60000000000 := by omega
    unfold durModelLimit at hlim
    split at h
    · next h0 =>
      injection h with h; subst h
      have : ns = 0 := by omega
      subst this
      decide
    · split at h
      · next hm0 hm =>
        injection h with h; subst h
        obtain ⟨c, cs, hc, hd⟩ := renderNat_head (mins / 60)
        have hs : renderNat (mins / 60) ++ [104] = c :: (cs ++ [104]) := by rw [hc]; rfl
        rw [hs]
        apply parseDur_of_digit_start c _ hd (by simp)
        rw [← hs]
        have hg := parseDurLoop_group ((renderNat (mins / 60) ++ [104]).length) 0 (mins / 60) 104 3600000000000 []
          (by decide) (by decide) (by decide) (Or.inl rfl) (by simp [durModelLimit]; omega)
        rw [hg]
        rw [hs]
        simp only [List.length_cons]
        rw [parseDurLoop_nil]
        congr 1
        omega
      · split at h
        · next hm0 hm hh =>
          injection h with h; subst h
          obtain ⟨c, cs, hc, hd⟩ := renderNat_head (mins % 60)
          have hs : renderNat (mins % 60) ++ [109] = c :: (cs ++ [109]) := by rw [hc]; rfl
          rw [hs]
          apply parseDur_of_digit_start c _ hd (by simp)
          rw [← hs]
          have hg := parseDurLoop_group ((renderNat (mins % 60) ++ [109]).length) 0 (mins % 60) 109 60000000000 []
            (by decide) (by decide) (by decide) (Or.inl rfl) (by simp [durModelLimit]; omega)
          rw [hg]
          rw [hs]
          simp only [List.length_cons]
          rw [parseDurLoop_nil]
          congr 1
          omega
        · next hm0 hm hh =>
          injection h with h; subst h
          obtain ⟨c, cs, hc, hd⟩ := renderNat_head (mins / 60)
          obtain ⟨c2, cs2, hc2, hd2⟩ := renderNat_head (mins % 60)
          have hs : renderNat (mins / 60) ++ [104] ++ renderNat (mins % 60) ++ [109]
              = c :: (cs ++ [104] ++ renderNat (mins % 60) ++ [109]) := by rw [hc]; rfl
          rw [hs]
          apply parseDur_of_digit_start c _ hd (by simp)
          rw [← hs]
          have e1 : renderNat (mins / 60) ++ [104] ++ renderNat (mins % 60) ++ [109]
              = renderNat (mins / 60) ++ 104 :: (renderNat (mins % 60) ++ 109 :: []) := by simp
          rw [e1]
          generalize hL : (renderNat (mins / 60) ++ 104 :: (renderNat (mins % 60) ++ [109])).length = L
          have hL2 : ∃ k, L = k + 2 := by
            rw [hc, hc2] at hL
            simp at hL
            exact ⟨cs.length + cs2.length + 2, by omega⟩
          obtain ⟨k, rfl⟩ := hL2
          have hg := parseDurLoop_group (k + 2) 0 (mins / 60) 104 3600000000000 (renderNat (mins % 60) ++ 109 :: [])
            (by decide) (by decide) (by decide) (Or.inr ⟨c2, cs2 ++ [109], by rw [hc2]; rfl, hd2⟩)
            (by simp [durModelLimit]; omega)
          rw [hg]
          have hg2 := parseDurLoop_group (k + 1) (0 + ((mins / 60 : Nat) : Int) * 3600000000000) (mins % 60) 109 60000000000 []
            (by decide) (by decide) (by decide) (Or.inl rfl) (by simp [durModelLimit]; omega)
          rw [hg2, parseDurLoop_nil]
          congr 1
          omega


/-! validation -/

theorem truncate_minute_eq_iff (d : Int) (hd : 0 ≤ d) : truncate d nsPerMinute = d ↔ d % 60000000000 = 0 := by
  simp only [truncate, nsPerMinute]
  rw [Int.tmod_eq_emod_of_nonneg hd]
  simp
  omega

/-- What `(*Weekly).validate` accepts, exactly. -/
theorem validate_ok_iff (r : DayRange) :
    validate r = .ok () ↔
      r = DayRange.zero ∨
      (0 ≤ r.start ∧ r.start < r.stop ∧ r.stop ≤ 86400000000000 ∧
        r.start % 60000000000 = 0 ∧ r.stop % 60000000000 = 0) := by
  rcases r with ⟨s, e⟩
  simp only [validate, DayRange.validate, DayRange.zero, DayRange.mk.injEq, maxDayRange]
  by_cases hz : s = 0 ∧ e = 0
  · obtain ⟨rfl, rfl⟩ := hz
    simp [truncate, nsPerMinute]
  · simp only [hz, if_false, false_or]
    by_cases h1 : s < 0
    · simp [h1]; intro; omega
    · by_cases h2 : e < 0
      · simp [h1, h2]; intro; omega
      · by_cases h3 : s ≥ e
        · simp [h1, h2, h3]; intro; omega
        · by_cases h4 : s ≥ 86400000000000
          · simp [h1, h2, h3, h4]; intro; omega
          · by_cases h5 : e > 86400000000000
            · simp [h1, h2, h3, h4, h5]; intro _ _ ; omega
            · simp only [h1, h2, h3, h4, h5, if_false]
              have hs := truncate_minute_eq_iff s (by omega)
              have he := truncate_minute_eq_iff e (by omega)
              by_cases h6 : truncate s nsPerMinute = s
              · by_cases h7 : truncate e nsPerMinute = e
                · simp [h6, h7]
                  exact ⟨by omega, by omega, by omega, hs.mp h6, he.mp h7⟩
                · simp [h6, h7]
                  intro _ _ _ _ h; exact h7 (he.mpr h)
              · simp [h6]
                intro _ _ _ h; exact absurd (hs.mpr h) h6

theorem mustAccept_validate (r : DayRange) (h : mustAccept r = true) : validate r = .ok () := by
  rw [validate_ok_iff]
  simp only [mustAccept, wholeMinutes, Bool.or_eq_true, Bool.and_eq_true, decide_eq_true_eq, beq_iff_eq] at h
  rcases h with h | h
  · exact Or.inl h
  · exact Or.inr ⟨h.1.1.1.1, h.1.1.1.2, h.1.1.2, h.1.2, h.2⟩

theorem validate_not_mustReject (r : DayRange) (h : validate r = .ok ()) : mustReject r = false := by
  rw [validate_ok_iff] at h
  simp only [mustReject, wholeMinutes]
  rcases h with h | ⟨h1, h2, h3, h4, h5⟩
  · subst h; decide
  · simp [h4, h5]; omega


/-! Week traversals -/

theorem Week.mapM_ok_iff {α β ε} (f : Nat → α → Except ε β) (w : Week α) (w' : Week β) :
    w.mapM f = .ok w' ↔
      f 0 w.sun = .ok w'.sun ∧ f 1 w.mon = .ok w'.mon ∧ f 2 w.tue = .ok w'.tue ∧ f 3 w.wed = .ok w'.wed ∧
      f 4 w.thu = .ok w'.thu ∧ f 5 w.fri = .ok w'.fri ∧ f 6 w.sat = .ok w'.sat := by
  rcases w' with ⟨b0, b1, b2, b3, b4, b5, b6⟩
  simp only [Week.mapM, bind, Except.bind, pure, Except.pure]
  cases f 0 w.sun <;> simp
  cases f 1 w.mon <;> simp
  cases f 2 w.tue <;> simp
  cases f 3 w.wed <;> simp
  cases f 4 w.thu <;> simp
  cases f 5 w.fri <;> simp
  cases f 6 w.sat <;> simp

theorem Week.mapO_some_iff {α β} (f : α → Option β) (w : Week α) (w' : Week β) :
    w.mapO f = some w' ↔
      f w.sun = some w'.sun ∧ f w.mon = some w'.mon ∧ f w.tue = some w'.tue ∧ f w.wed = some w'.wed ∧
      f w.thu = some w'.thu ∧ f w.fri = some w'.fri ∧ f w.sat = some w'.sat := by
  rcases w' with ⟨b0, b1, b2, b3, b4, b5, b6⟩
  simp only [Week.mapO]
  cases f w.sun <;> simp
  cases f w.mon <;> simp
  cases f w.tue <;> simp
  cases f w.wed <;> simp
  cases f w.thu <;> simp
  cases f w.fri <;> simp
  cases f w.sat <;> simp

theorem Week.forall_get {α} (w : Week α) (p : α → Prop) :
    (∀ i, p (w.get i)) ↔ p w.sun ∧ p w.mon ∧ p w.tue ∧ p w.wed ∧ p w.thu ∧ p w.fri ∧ p w.sat := by
  constructor
  · intro h
    exact ⟨h 0, h 1, h 2, h 3, h 4, h 5, h 6⟩
  · rintro ⟨h0, h1, h2, h3, h4, h5, h6⟩ i
    match i with
    | 0 => exact h0 | 1 => exact h1 | 2 => exact h2 | 3 => exact h3 | 4 => exact h4 | 5 => exact h5
    | n + 6 => simpa [Week.get] using h6


/-- the loop body of `Unmarshal{JSON,YAML}` -/
def decodeOneDay (i : Nat) (d : Option DayRange) : Except DErr DayRange :=
  let r := d.getD DayRange.zero
  match validate r with
  | .ok () => .ok r
  | .error e => .error (DErr.day i e)

theorem decodeOneDay_ok_iff (i : Nat) (d : Option DayRange) (r : DayRange) :
    decodeOneDay i d = .ok r ↔ validate (d.getD DayRange.zero) = .ok () ∧ r = d.getD DayRange.zero := by
  simp only [decodeOneDay]
  cases h : validate (d.getD DayRange.zero) with
  | error e => simp
  | ok u => cases u; simp; exact eq_comm

theorem decodeConf_eq (tzOK : Bytes → Bool) (c : Conf) :
    decodeConf tzOK c =
      if !tzOK c.tz then .error .tz
      else match c.days.mapM decodeOneDay with
        | .error e => .error e
        | .ok days => .ok ⟨locName c.tz, days⟩ := rfl

theorem decodeConf_ok_iff (tzOK : Bytes → Bool) (c : Conf) (w : Weekly) :
    decodeConf tzOK c = .ok w ↔
      tzOK c.tz = true ∧ w.loc = locName c.tz ∧ w.days = c.days.map (fun d => d.getD DayRange.zero) ∧
      ∀ i, validate (w.days.get i) = .ok () := by
  rw [decodeConf_eq]
  rcases w with ⟨loc, days⟩
  by_cases htz : tzOK c.tz = true
  · simp only [htz, Bool.not_true, Bool.false_eq_true, if_false, true_and]
    constructor
    · intro h
      cases hm : c.days.mapM decodeOneDay with
      | error e => rw [hm] at h; simp at h
      | ok ds =>
        rw [hm] at h
        simp only [Except.ok.injEq, Weekly.mk.injEq] at h
        obtain ⟨h1, h2⟩ := h
        subst h1 h2
        rw [Week.mapM_ok_iff] at hm
        simp only [decodeOneDay_ok_iff] at hm
        obtain ⟨⟨v0, e0⟩, ⟨v1, e1⟩, ⟨v2, e2⟩, ⟨v3, e3⟩, ⟨v4, e4⟩, ⟨v5, e5⟩, ⟨v6, e6⟩⟩ := hm
        refine ⟨rfl, ?_, ?_⟩
        · rcases ds with ⟨d0, d1, d2, d3, d4, d5, d6⟩
          simp only [Week.map] at *
          simp [e0, e1, e2, e3, e4, e5, e6]
        · apply (Week.forall_get ds (fun r => validate r = .ok ())).mpr
          exact ⟨e0 ▸ v0, e1 ▸ v1, e2 ▸ v2, e3 ▸ v3, e4 ▸ v4, e5 ▸ v5, e6 ▸ v6⟩
    · rintro ⟨h1, h2, h3⟩
      subst h1 h2
      have h3 := (Week.forall_get _ (fun r => validate r = .ok ())).mp h3
      simp only [Week.map] at h3
      obtain ⟨v0, v1, v2, v3, v4, v5, v6⟩ := h3
      have hm : c.days.mapM decodeOneDay = .ok (c.days.map (fun d => d.getD DayRange.zero)) := by
        rw [Week.mapM_ok_iff]
        simp only [decodeOneDay_ok_iff, Week.map, and_true]
        exact ⟨v0, v1, v2, v3, v4, v5, v6⟩
      rw [hm]
  · simp [htz]


theorem decodeConf_yamlAbsentAsZero (tzOK : Bytes → Bool) (c : Conf) :
    decodeConf tzOK (yamlAbsentAsZero c) = decodeConf tzOK c := by
  simp only [decodeConf_eq, yamlAbsentAsZero, Week.mapM, Week.map, decodeOneDay, Option.getD_some]

theorem toDayConfJSON_getD (r : DayRange) : (toDayConfJSON r).getD DayRange.zero = r := by
  unfold toDayConfJSON
  split
  · next h => simp [h]
  · simp

theorem yamlOmitEmpty_eq (r : DayRange) : yamlOmitEmpty (some r) = toDayConfJSON r := rfl

theorem jsonDurEncode_valid (ns : Int) (h0 : 0 ≤ ns) (h1 : ns ≤ 86400000000000) (hm : ns % 60000000000 = 0) :
    ∃ tok, jsonDurEncode ns = some tok ∧ jsonDurDecode tok = some ns := by
  have : jsonDurEncode ns = some (renderInt (ns / 1000000)) := by
    simp only [jsonDurEncode]
    rw [if_pos]
    constructor <;> omega
  exact ⟨_, this, jsonDur_roundtrip ns _ this⟩

theorem yamlDurEncode_valid (ns : Int) (h0 : 0 ≤ ns) (h1 : ns ≤ 86400000000000) (hm : ns % 60000000000 = 0) :
    ∃ tok, yamlDurEncode ns = some tok ∧ yamlDurDecode tok = some ns := by
  have hdom : ¬ (ns < 0 ∨ ns % nsPerMinute ≠ 0) := by simp [nsPerMinute]; omega
  have : ∃ tok, yamlDurEncode ns = some tok := by
    simp only [yamlDurEncode, hdom, if_false]
    split
    · exact ⟨_, rfl⟩
    · split
      · exact ⟨_, rfl⟩
      · split <;> exact ⟨_, rfl⟩
  obtain ⟨tok, ht⟩ := this
  refine ⟨tok, ht, ?_⟩
  simp [yamlDurDecode, yamlDur_roundtrip ns tok ht (by simp [durModelLimit]; omega)]

/-- One day through a duration codec and back. -/
theorem day_roundtrip (enc : Int → Option Bytes) (dec : Bytes → Option Int)
    (hcodec : ∀ ns : Int, 0 ≤ ns → ns ≤ 86400000000000 → ns % 60000000000 = 0 →
      ∃ tok, enc ns = some tok ∧ dec tok = some ns)
    (r : DayRange) (hv : validate r = .ok ()) :
    ∃ x, encodeDay enc (toDayConfJSON r) = some x ∧ decodeDay dec x = some (toDayConfJSON r) := by
  rw [validate_ok_iff] at hv
  unfold toDayConfJSON
  split
  · exact ⟨none, rfl, rfl⟩
  · next hz =>
    rcases hv with hv | ⟨h1, h2, h3, h4, h5⟩
    · exact absurd hv hz
    · obtain ⟨a, ha, ha'⟩ := hcodec r.start h1 (by omega) h4
      obtain ⟨b, hb, hb'⟩ := hcodec r.stop (by omega) h3 h5
      exact ⟨some (a, b), by simp [encodeDay, ha, hb], by simp [decodeDay, ha', hb']⟩

/-- A valid schedule through a duration codec and back (token level). -/
theorem week_roundtrip (enc : Int → Option Bytes) (dec : Bytes → Option Int)
    (hcodec : ∀ ns : Int, 0 ≤ ns → ns ≤ 86400000000000 → ns % 60000000000 = 0 →
      ∃ tok, enc ns = some tok ∧ dec tok = some ns)
    (tzOK : Bytes → Bool) (w : Weekly) (hw : Valid tzOK w) :
    ∃ d, docOfConf enc ⟨w.loc, w.days.map toDayConfJSON⟩ = some d ∧
      (confOfDoc dec d).map (decodeConf tzOK) = some (.ok w) := by
  obtain ⟨hloc, htz, hv⟩ := hw
  have hv' := (Week.forall_get _ (fun r => validate r = .ok ())).mp hv
  obtain ⟨v0, v1, v2, v3, v4, v5, v6⟩ := hv'
  obtain ⟨x0, e0, d0⟩ := day_roundtrip enc dec hcodec _ v0
  obtain ⟨x1, e1, d1⟩ := day_roundtrip enc dec hcodec _ v1
  obtain ⟨x2, e2, d2⟩ := day_roundtrip enc dec hcodec _ v2
  obtain ⟨x3, e3, d3⟩ := day_roundtrip enc dec hcodec _ v3
  obtain ⟨x4, e4, d4⟩ := day_roundtrip enc dec hcodec _ v4
  obtain ⟨x5, e5, d5⟩ := day_roundtrip enc dec hcodec _ v5
  obtain ⟨x6, e6, d6⟩ := day_roundtrip enc dec hcodec _ v6
  refine ⟨⟨w.loc, ⟨x0, x1, x2, x3, x4, x5, x6⟩⟩, ?_, ?_⟩
  · have : (w.days.map toDayConfJSON).mapO (encodeDay enc) = some ⟨x0, x1, x2, x3, x4, x5, x6⟩ := by
      rw [Week.mapO_some_iff]; exact ⟨e0, e1, e2, e3, e4, e5, e6⟩
    simp [docOfConf, this]
  · have : (⟨x0, x1, x2, x3, x4, x5, x6⟩ : Week _).mapO (decodeDay dec) = some (w.days.map toDayConfJSON) := by
      rw [Week.mapO_some_iff]; exact ⟨d0, d1, d2, d3, d4, d5, d6⟩
    simp only [confOfDoc, this, Option.map_some]
    congr 1
    rw [decodeConf_ok_iff]
    refine ⟨htz, ?_, ?_, hv⟩
    · simp [locName, hloc]
    · rcases w with ⟨loc, ⟨a0, a1, a2, a3, a4, a5, a6⟩⟩
      simp [Week.map, toDayConfJSON_getD]

end AGH.C18
