/-
C09: while the retention limit does not change and the clock moves forward,
every counted query inside the window has always been inside it.
-/
import AGH.Lemmas.StatsSpecOK
namespace AGH.C09

/-- `AllKept` strengthened so that it is inductive. -/
def AK (g : Ghost) : Prop :=
  g.now ≤ g.clock ∧
  ∀ e ∈ g.evs, e.hour ≤ g.now ∧ (inWindow g.now g.limit e.hour = true → e.kept = true)

theorem AK.allKept {g : Ghost} (h : AK g) : AllKept g := fun e he => (h.2 e he).2

theorem ak_rekeep {g : Ghost} (h : AK g) (id : Nat) (hid : g.now ≤ id) (en d : Bool) :
    AK { evs := rekeep (inWindow id g.limit) g.evs, now := id, clock := id, limit := g.limit, enabled := en,
         dom := d } := by
  refine ⟨Nat.le_refl _, ?_⟩
  intro e' he'
  obtain ⟨e, he, h1, h2⟩ := mem_rekeep he'
  obtain ⟨a1, a2⟩ := h.2 e he
  refine ⟨by rw [h1]; exact Nat.le_trans a1 hid, ?_⟩
  intro hw
  rw [h1] at hw
  have hw' := hw
  simp only [inWindow, Bool.and_eq_true, decide_eq_true_eq] at hw'
  have hwin : inWindow g.now g.limit e.hour = true := by
    simp only [inWindow, Bool.and_eq_true, decide_eq_true_eq]
    omega
  rw [h2, a2 hwin, hw]
  rfl

/-- Re-evaluating `kept` at the same hour with the same limit changes nothing. -/
theorem ak_same {g : Ghost} (h : AK g) (en : Bool) :
    AK { g with evs := rekeep (inWindow g.now g.limit) g.evs, enabled := en } := by
  refine ⟨h.1, ?_⟩
  intro e' he'
  obtain ⟨e, he, h1, h2⟩ := mem_rekeep he'
  obtain ⟨a1, a2⟩ := h.2 e he
  refine ⟨by rw [h1]; exact a1, ?_⟩
  intro hw
  rw [h1] at hw
  rw [h2, a2 hw, hw]
  rfl

theorem ak_step {g : Ghost} {L : Nat} (hl : g.limit = L) (h : AK g) (op : Op) (hk : keepsLimit L op)
    (hd : (ghostStep g op).dom = true) : AK (ghostStep g op) ∧ (ghostStep g op).limit = L := by
  cases op with
  | upd e n =>
    simp only [ghostStep]
    split
    · refine ⟨⟨h.1, ?_⟩, hl⟩
      intro e' he'
      rcases List.mem_cons.mp he' with rfl | he'
      · exact ⟨Nat.le_refl _, fun _ => rfl⟩
      · exact h.2 e' he'
    · exact ⟨h, hl⟩
  | tick id =>
    simp only [ghostStep, Ghost.refresh, Ghost.advance, Bool.and_eq_true, decide_eq_true_eq] at hd
    exact ⟨ak_rekeep h id (Nat.le_trans h.1 hd.1.2) _ _, hl⟩
  | advance h' =>
    simp only [ghostStep, Ghost.wall, Bool.and_eq_true, decide_eq_true_eq] at hd
    exact ⟨⟨Nat.le_trans h.1 hd.1.2, h.2⟩, hl⟩
  | restart id l en =>
    simp only [ghostStep, Ghost.refresh, Ghost.advance, Bool.and_eq_true, decide_eq_true_eq] at hd
    simp only [keepsLimit] at hk
    have : l / msPerHour = g.limit := by rw [hk, hl]
    refine ⟨?_, hk⟩
    simp only [ghostStep, Ghost.advance, refresh_eq, this]
    exact ak_rekeep h id (Nat.le_trans h.1 hd.1.2) _ _
  | setDays d =>
    simp only [keepsLimit] at hk
    simp only [ghostStep]
    split
    · rename_i h1
      have : d * 24 = g.limit := by rw [hk h1, hl]
      refine ⟨?_, hk h1⟩
      simp only [refresh_eq, this]
      exact ak_same h true
    · split
      · exact ⟨⟨Nat.le_refl _, fun e he => by simp at he⟩, hl⟩
      · exact ⟨h, hl⟩
  | putConf ms en =>
    simp only [keepsLimit] at hk
    simp only [ghostStep]
    split
    · rename_i h1
      have : ms / msPerHour = g.limit := by rw [hk h1, hl]
      refine ⟨?_, hk h1⟩
      simp only [refresh_eq, this]
      exact ak_same h en
    · exact ⟨h, hl⟩
  | clear => exact ⟨⟨Nat.le_refl _, fun e he => by simp [ghostStep] at he⟩, hl⟩
  | read => exact ⟨h, hl⟩

theorem ak_run {g : Ghost} {L : Nat} (ops : List Op) (hl : g.limit = L) (h : AK g)
    (hk : ∀ op ∈ ops, keepsLimit L op) (hd : (ghostRun g ops).dom = true) : AK (ghostRun g ops) := by
  induction ops generalizing g with
  | nil => exact h
  | cons op ops ih =>
    simp only [ghostRun, List.foldl_cons] at hd ⊢
    obtain ⟨h1, h2⟩ := ak_step hl h op (hk op (List.mem_cons_self ..)) (dom_run hd)
    exact ih h2 h1 (fun o ho => hk o (List.mem_cons_of_mem _ ho)) hd

theorem ak_init (clock ms : Nat) (en : Bool) : AK (Ghost.init clock ms en) :=
  ⟨Nat.le_refl _, fun e he => by simp [Ghost.init] at he⟩

end AGH.C09
