/-
C20 helper lemmas, part 6: the multi-file reader (`qLogReader.ReadNext`) in terms
of the sequence of lines still to be returned.  Core only.
-/
import AGH.Lemmas.QLogFileLevel
namespace AGH.C20
open AGH

/-- The file described by a `FileDesc` (what the harness writes to disk). -/
def fileOfDesc (d : FileDesc) : File :=
  File.ofBytes (if d.complete then render d.lines else (render d.lines).dropLast)

theorem readable_iff (d : FileDesc) :
    readable d = true ↔ d.complete = true ∧ ∀ l ∈ d.lines, lineOK l = true := by
  simp [readable, List.all_eq_true]

theorem fileOfDesc_readable (d : FileDesc) (h : readable d = true) :
    fileOfDesc d = fileOfLines d.lines := by
  have := ((readable_iff d).1 h).1
  simp [fileOfDesc, fileOfLines, this]

theorem getD_set_eq {α : Type} (l : List α) (i : Nat) (a d : α) (h : i < l.length) :
    (l.set i a).getD i d = a := by
  simp [List.getD_eq_getElem?_getD, h]

theorem getD_set_ne {α : Type} (l : List α) (i j : Nat) (a d : α) (h : i ≠ j) :
    (l.set i a).getD j d = l.getD j d := by
  simp [List.getD_eq_getElem?_getD, h]

theorem getD_map_fileOfDesc (ds : List FileDesc) (j : Nat) (d : FileDesc) (h : ds[j]? = some d) :
    (ds.map fileOfDesc).getD j noFile = fileOfDesc d := by
  simp [List.getD_eq_getElem?_getD, h]

theorem allRev_take_succ (ds : List FileDesc) (j : Nat) (d : FileDesc) (h : ds[j]? = some d) :
    allRev (ds.take (j + 1)) = d.lines.reverse ++ allRev (ds.take j) := by
  rw [List.take_add_one, h]
  simp [allRev, List.reverse_append]

/-- The reader is positioned so that the lines still to be returned are `rem`. -/
def RPos (P : Params) (ds : List FileDesc) (r : RState) (rem : List Bytes) : Prop :=
  (r.curN = 0 ∧ rem = []) ∨
  ∃ j d c, r.curN = j + 1 ∧ ds[j]? = some d ∧ FilePos P d.lines c (r.files.getD j {}) ∧
    rem = (d.lines.take c).reverse ++ allRev (ds.take j)

section
variable (P : Params) (ds : List FileDesc)

theorem rReadLoop_spec (hP1 : entryLimit ≤ P.maxEntry) (hP2 : P.maxEntry ≤ P.bufSize)
    (hrd : ∀ d ∈ ds, readable d = true) :
    ∀ (j : Nat) (files : List QState) (d : FileDesc) (c : Nat),
      files.length = ds.length → ds[j]? = some d → FilePos P d.lines c (files.getD j {}) →
      ((d.lines.take c).reverse ++ allRev (ds.take j) = [] →
        ∃ files', rReadLoop P (ds.map fileOfDesc) files (j + 1) = (⟨files', 0⟩, .error .eof) ∧
          files'.length = ds.length) ∧
      (∀ l rem', (d.lines.take c).reverse ++ allRev (ds.take j) = l :: rem' →
        ∃ r' k a b, rReadLoop P (ds.map fileOfDesc) files (j + 1) = (r', .ok (k, a, b)) ∧
          ((ds.map fileOfDesc).getD k noFile).slice a b = l ∧ RPos P ds r' rem' ∧
          r'.files.length = ds.length) := by
  intro j
  induction j with
  | zero =>
    intro files d c hlen hd hq
    have hmem : d ∈ ds := List.mem_of_getElem? hd
    have hf : (ds.map fileOfDesc).getD 0 noFile = fileOfLines d.lines := by
      rw [getD_map_fileOfDesc ds 0 d hd, fileOfDesc_readable d (hrd d hmem)]
    have h0 : 0 < files.length := by
      rw [hlen]; exact (List.getElem?_eq_some_iff.1 hd).1
    cases c with
    | zero =>
      have heof := readNext_filePos_zero P d.lines _ hq
      constructor
      · intro _
        refine ⟨files.set 0 (files.getD 0 {}), ?_, by simp [hlen]⟩
        rw [rReadLoop, hf, heof]
      · intro l rem' h
        simp [allRev] at h
    | succ c =>
      have hc : c < d.lines.length := hq.1
      obtain ⟨q', a, b, h1, h2, h3⟩ :=
        readNext_filePos P d.lines c _ hP1 hP2 ((readable_iff d).1 (hrd d hmem)).2 hc hq
      have hrem : ∀ X : List Bytes, (d.lines.take (c + 1)).reverse ++ X =
          d.lines[c] :: ((d.lines.take c).reverse ++ X) := by
        intro X; rw [List.take_succ_eq_append_getElem hc, List.reverse_append]; rfl
      constructor
      · intro h
        rw [hrem] at h
        exact absurd h (List.cons_ne_nil _ _)
      · intro l rem' h
        rw [hrem] at h
        obtain ⟨hl, hr⟩ := List.cons.inj h
        refine ⟨⟨files.set 0 q', 1⟩, 0, a, b, ?_, ?_, ?_, by simp [hlen]⟩
        · rw [rReadLoop, hf, h1]
        · rw [hf, h2]; exact hl
        · right
          refine ⟨0, d, c, rfl, hd, ?_, hr.symm⟩
          show FilePos P d.lines c ((files.set 0 q').getD 0 {})
          rw [getD_set_eq _ _ _ _ h0]; exact h3
  | succ j ih =>
    intro files d c hlen hd hq
    have hmem : d ∈ ds := List.mem_of_getElem? hd
    have hf : (ds.map fileOfDesc).getD (j + 1) noFile = fileOfLines d.lines := by
      rw [getD_map_fileOfDesc ds (j + 1) d hd, fileOfDesc_readable d (hrd d hmem)]
    have hj1 : j + 1 < files.length := by
      rw [hlen]; exact (List.getElem?_eq_some_iff.1 hd).1
    cases c with
    | zero =>
      have heof := readNext_filePos_zero P d.lines _ hq
      -- move to the older file
      have hjlt : j < ds.length := by omega
      let d' := ds[j]
      have hd' : ds[j]? = some d' := List.getElem?_eq_getElem hjlt
      have hmem' : d' ∈ ds := List.getElem_mem hjlt
      have hf' : (ds.map fileOfDesc).getD j noFile = fileOfLines d'.lines := by
        rw [getD_map_fileOfDesc ds j d' hd', fileOfDesc_readable d' (hrd d' hmem')]
      let files1 := files.set (j + 1) (files.getD (j + 1) {})
      let files2 := files1.set j (seekStart (fileOfLines d'.lines) (files1.getD j {}))
      have hlen2 : files2.length = ds.length := by simp [files2, files1, hlen]
      have hq2 : FilePos P d'.lines d'.lines.length (files2.getD j {}) := by
        show FilePos P d'.lines d'.lines.length ((files1.set j _).getD j {})
        rw [getD_set_eq _ _ _ _ (by simp [files1]; omega)]
        exact filePos_seekStart P d'.lines _
      have hrem : (d.lines.take 0).reverse ++ allRev (ds.take (j + 1)) =
          (d'.lines.take d'.lines.length).reverse ++ allRev (ds.take j) := by
        rw [allRev_take_succ ds j d' hd']; simp
      have hloop : rReadLoop P (ds.map fileOfDesc) files (j + 1 + 1) =
          rReadLoop P (ds.map fileOfDesc) files2 (j + 1) := by
        rw [rReadLoop, hf, heof]
        simp only [hf']
        rfl
      obtain ⟨ih1, ih2⟩ := ih files2 d' d'.lines.length hlen2 hd' hq2
      rw [hrem, hloop]
      exact ⟨ih1, ih2⟩
    | succ c =>
      have hc : c < d.lines.length := hq.1
      obtain ⟨q', a, b, h1, h2, h3⟩ :=
        readNext_filePos P d.lines c _ hP1 hP2 ((readable_iff d).1 (hrd d hmem)).2 hc hq
      have hrem : ∀ X : List Bytes, (d.lines.take (c + 1)).reverse ++ X =
          d.lines[c] :: ((d.lines.take c).reverse ++ X) := by
        intro X; rw [List.take_succ_eq_append_getElem hc, List.reverse_append]; rfl
      constructor
      · intro h
        rw [hrem] at h
        exact absurd h (List.cons_ne_nil _ _)
      · intro l rem' h
        rw [hrem] at h
        obtain ⟨hl, hr⟩ := List.cons.inj h
        refine ⟨⟨files.set (j + 1) q', j + 1 + 1⟩, j + 1, a, b, ?_, ?_, ?_, by simp [hlen]⟩
        · rw [rReadLoop, hf, h1]
        · rw [hf, h2]; exact hl
        · right
          refine ⟨j + 1, d, c, rfl, hd, ?_, hr.symm⟩
          show FilePos P d.lines c ((files.set (j + 1) q').getD (j + 1) {})
          rw [getD_set_eq _ _ _ _ hj1]; exact h3

/-- One `qLogReader.ReadNext`: the head of the promise, or `io.EOF` when it is empty. -/
theorem rReadNext_spec (hP1 : entryLimit ≤ P.maxEntry) (hP2 : P.maxEntry ≤ P.bufSize)
    (hrd : ∀ d ∈ ds, readable d = true) (r : RState) (rem : List Bytes)
    (hlen : r.files.length = ds.length) (hpos : RPos P ds r rem) :
    (rem = [] → ∃ r', rReadNext P (ds.map fileOfDesc) r = (r', .error .eof) ∧ RPos P ds r' [] ∧
        r'.files.length = ds.length) ∧
    (∀ l rem', rem = l :: rem' →
      ∃ r' k a b, rReadNext P (ds.map fileOfDesc) r = (r', .ok (k, a, b)) ∧
        ((ds.map fileOfDesc).getD k noFile).slice a b = l ∧ RPos P ds r' rem' ∧
        r'.files.length = ds.length) := by
  rcases hpos with ⟨h0, hrem⟩ | ⟨j, d, c, hcur, hd, hq, hrem⟩
  · subst hrem
    constructor
    · intro _
      refine ⟨if ds.length = 0 then r else ⟨r.files, 0⟩, ?_, ?_, ?_⟩
      · unfold rReadNext
        by_cases hn : ds.length = 0
        · simp [hn]
        · simp only [List.length_map, hn, if_false, h0, rReadLoop]
      · left; by_cases hn : ds.length = 0 <;> simp [hn, h0]
      · by_cases hn : ds.length = 0 <;> simp [hn, hlen]
    · intro l rem' h; cases h
  · have hne : ¬ ((ds.map fileOfDesc).length = 0) := by
      have := (List.getElem?_eq_some_iff.1 hd).1
      simp; intro h; subst h; simp at this
    obtain ⟨h1, h2⟩ := rReadLoop_spec P ds hP1 hP2 hrd j r.files d c hlen hd hq
    rw [← hrem] at h1 h2
    constructor
    · intro he
      obtain ⟨files', h3, h4⟩ := h1 he
      refine ⟨⟨files', 0⟩, ?_, Or.inl ⟨rfl, rfl⟩, h4⟩
      unfold rReadNext
      simp only [hne, if_false, hcur, h3]
    · intro l rem' he
      obtain ⟨r', k, a, b, h3, h4, h5, h6⟩ := h2 l rem' he
      refine ⟨r', k, a, b, ?_, h4, h5, h6⟩
      unfold rReadNext
      simp only [hne, if_false, hcur, h3]

/-- `n` reader-level reads against the promise `rem`. -/
theorem rReadMany_spec (hP1 : entryLimit ≤ P.maxEntry) (hP2 : P.maxEntry ≤ P.bufSize)
    (hrd : ∀ d ∈ ds, readable d = true) :
    ∀ (n : Nat) (r : RState) (rem : List Bytes) (acc : List (Nat × Nat × Nat)),
      r.files.length = ds.length → RPos P ds r rem →
      ∃ r' xs, rReadMany P (ds.map fileOfDesc) n r acc =
          (r', acc.reverse ++ xs, if n > rem.length then some Err.eof else none) ∧
        xs.map (fun x => ((ds.map fileOfDesc).getD x.1 noFile).slice x.2.1 x.2.2) = rem.take n ∧
        RPos P ds r' (rem.drop n) ∧ r'.files.length = ds.length := by
  intro n
  induction n with
  | zero =>
    intro r rem acc hlen hpos
    exact ⟨r, [], by simp [rReadMany], by simp, by simpa using hpos, hlen⟩
  | succ n ih =>
    intro r rem acc hlen hpos
    obtain ⟨h1, h2⟩ := rReadNext_spec P ds hP1 hP2 hrd r rem hlen hpos
    cases rem with
    | nil =>
      obtain ⟨r', h3, h4, h5⟩ := h1 rfl
      refine ⟨r', [], ?_, by simp, by simpa using h4, h5⟩
      rw [rReadMany, h3]; simp
    | cons l rem' =>
      obtain ⟨r1, k, a, b, h3, h4, h5, h6⟩ := h2 l rem' rfl
      obtain ⟨r', xs, h7, h8, h9, h10⟩ := ih r1 rem' ((k, a, b) :: acc) h6 h5
      refine ⟨r', (k, a, b) :: xs, ?_, ?_, by simpa using h9, h10⟩
      · rw [rReadMany, h3]
        simp only [h7, List.reverse_cons, List.append_assoc, List.singleton_append, List.length_cons]
        congr 2
        simp
      · rw [List.map_cons, List.take_succ_cons, h8, h4]

end
end AGH.C20
