/-
C19 lemmas about the names that are hashed: `subdomains`, `lastLabels`,
`hashedNames` against the declarative `allowedNames`.
-/
import AGH.Spec.HashPrefix
namespace AGH.C19
open AGH AGH.Bytes

theorem mem_subTail (s : Bytes) : ∀ d : Bytes, s ∈ subTail d ↔ ∃ pre, d = pre ++ dot :: s := by
  intro d
  induction d with
  | nil => simp [subTail]
  | cons b rest ih =>
    unfold subTail
    by_cases hb : b = dot
    · subst hb
      simp only [if_true, List.mem_cons, ih]
      constructor
      · rintro (rfl | ⟨pre, rfl⟩)
        · exact ⟨[], rfl⟩
        · exact ⟨dot :: pre, rfl⟩
      · rintro ⟨pre, h⟩
        cases pre with
        | nil => simp at h; exact Or.inl h.symm
        | cons p pre' =>
          simp at h
          exact Or.inr ⟨pre', h.2⟩
    · simp only [hb, if_false, ih]
      constructor
      · rintro ⟨pre, rfl⟩
        exact ⟨b :: pre, rfl⟩
      · rintro ⟨pre, h⟩
        cases pre with
        | nil => simp at h; exact absurd h.1 hb
        | cons p pre' =>
          simp at h
          exact ⟨pre', h.2⟩

theorem mem_subdomains (s d : Bytes) :
    s ∈ subdomains d ↔ d ≠ [] ∧ (s = d ∨ ∃ pre, d = pre ++ dot :: s) := by
  cases d with
  | nil => simp [subdomains]
  | cons b rest =>
    simp only [subdomains, List.mem_cons, mem_subTail]
    simp

theorem dots_append (a b : Bytes) : dots (a ++ b) = dots a + dots b := by
  simp [dots, List.count_append]

theorem dots_cons_dot (a : Bytes) : dots (dot :: a) = dots a + 1 := by
  simp [dots]

theorem dots_cons_ne {b : Nat} (h : b ≠ dot) (a : Bytes) : dots (b :: a) = dots a := by
  simp [dots, h]

/-- Shape of the reversed scan: what is kept, what is cut. -/
theorem takeLabelsRev_spec : ∀ (r : Bytes) (k : Nat), 1 ≤ k →
    ∃ cut, r = takeLabelsRev k r ++ cut ∧ dots (takeLabelsRev k r) ≤ k - 1 ∧
      (cut = [] ∨ ((∃ c', cut = dot :: c') ∧ dots (takeLabelsRev k r) = k - 1)) := by
  intro r
  induction r with
  | nil => intro k _; exact ⟨[], by simp [takeLabelsRev, dots]⟩
  | cons b rest ih =>
    intro k hk
    unfold takeLabelsRev
    by_cases hb : b = dot
    · subst hb
      simp only [if_true]
      by_cases hk1 : k ≤ 1
      · simp only [hk1, if_true]
        refine ⟨dot :: rest, by simp, by simp [dots], Or.inr ⟨⟨rest, rfl⟩, ?_⟩⟩
        simp [dots]; omega
      · simp only [hk1, if_false]
        obtain ⟨cut, h1, h2, h3⟩ := ih (k - 1) (by omega)
        refine ⟨cut, ?_, ?_, ?_⟩
        · simp; exact h1
        · rw [dots_cons_dot]; omega
        · rcases h3 with h3 | ⟨h3, h4⟩
          · exact Or.inl h3
          · refine Or.inr ⟨h3, ?_⟩
            rw [dots_cons_dot]; omega
    · simp only [hb, if_false]
      obtain ⟨cut, h1, h2, h3⟩ := ih k hk
      refine ⟨cut, ?_, ?_, ?_⟩
      · simp; exact h1
      · rw [dots_cons_ne hb]; exact h2
      · rcases h3 with h3 | ⟨h3, h4⟩
        · exact Or.inl h3
        · exact Or.inr ⟨h3, by rw [dots_cons_ne hb]; exact h4⟩

theorem dots_reverse (a : Bytes) : dots a.reverse = dots a := by
  simp [dots]

/-- `lastLabels host` is `host` cut right after a dot (or not cut), has at most
three dots, and exactly three when something was cut. -/
theorem lastLabels_spec (host : Bytes) :
    ∃ pre, host = pre ++ lastLabels host ∧ dots (lastLabels host) ≤ 3 ∧
      (pre = [] ∨ ((∃ p', pre = p' ++ [dot]) ∧ dots (lastLabels host) = 3)) := by
  obtain ⟨cut, h1, h2, h3⟩ := takeLabelsRev_spec host.reverse 4 (by omega)
  refine ⟨cut.reverse, ?_, ?_, ?_⟩
  · have := congrArg List.reverse h1
    simp at this
    simpa [lastLabels] using this
  · simp only [lastLabels, dots_reverse]; omega
  · rcases h3 with h3 | ⟨⟨c', h3⟩, h4⟩
    · exact Or.inl (by simp [h3])
    · refine Or.inr ⟨⟨c'.reverse, by simp [h3]⟩, ?_⟩
      simp only [lastLabels, dots_reverse]; omega

theorem lastLabels_eq_nil {host : Bytes} (h : lastLabels host = []) : host = [] := by
  obtain ⟨pre, h1, _, h3⟩ := lastLabels_spec host
  rcases h3 with h3 | ⟨_, h4⟩
  · rw [h1, h3, h]; rfl
  · rw [h] at h4; simp [dots] at h4


theorem length_lt_of_dotSuffix {s d pre : Bytes} (h : d = pre ++ dot :: s) : s.length < d.length := by
  rw [h]; simp; omega

/-- Names of the truncated host = names of the host with at most three dots. -/
theorem mem_subdomains_lastLabels (host s : Bytes) :
    s ∈ subdomains (lastLabels host) ↔ s ∈ subdomains host ∧ dots s ≤ 3 := by
  obtain ⟨pre, h1, h2, h3⟩ := lastLabels_spec host
  generalize hll : lastLabels host = ll at h1 h2 h3
  rw [mem_subdomains, mem_subdomains]
  constructor
  · rintro ⟨hne, hs⟩
    have hhost : host ≠ [] := by
      intro h; rw [h] at h1
      have : ll = [] := by
        cases pre <;> simp at h1
        exact h1
      exact hne this
    have hdots : dots s ≤ 3 := by
      rcases hs with rfl | ⟨p, rfl⟩
      · exact h2
      · rw [dots_append, dots_cons_dot] at h2; omega
    refine ⟨⟨hhost, ?_⟩, hdots⟩
    rcases hs with rfl | ⟨p, rfl⟩
    · rcases h3 with h3 | ⟨⟨p', h3⟩, _⟩
      · left; rw [h1, h3]; rfl
      · right; exact ⟨p', by rw [h1, h3]; simp⟩
    · right; exact ⟨pre ++ p, by rw [h1]; simp⟩
  · rintro ⟨⟨hhost, hs⟩, hd⟩
    have hne : ll ≠ [] := by
      intro h; rw [← hll] at h; exact hhost (lastLabels_eq_nil h)
    refine ⟨hne, ?_⟩
    rcases h3 with h3 | ⟨⟨p', h3⟩, h4⟩
    · -- nothing was cut
      have : host = ll := by rw [h1, h3]; rfl
      rw [← this]; exact hs
    · -- host = p' ++ "." ++ ll with exactly three dots in ll
      rcases hs with rfl | ⟨q, hq⟩
      · -- s = host has more than three dots
        rw [h1, h3, dots_append, dots_append] at hd
        simp [dots] at hd
        simp [dots] at h4
        omega
      · -- two suffixes of host
        have e : q ++ dot :: s = p' ++ dot :: ll := by
          rw [← hq, h1, h3]; simp
        rcases List.append_eq_append_iff.mp e with ⟨a', ha, hb⟩ | ⟨c', ha, hb⟩
        · -- p' = q ++ a', dot :: s = a' ++ dot :: ll
          cases a' with
          | nil => simp at hb; left; exact hb
          | cons x a'' =>
            simp at hb
            -- s = a'' ++ dot :: ll : too many dots
            rw [hb.2, dots_append, dots_cons_dot] at hd
            omega
        · -- q = p' ++ c', dot :: ll = c' ++ dot :: s
          cases c' with
          | nil => simp at hb; left; exact hb.symm
          | cons x c'' =>
            simp at hb
            right; exact ⟨c'', hb.2⟩

/-- In `subTail d`, the elements strictly before `P` are exactly those that
are neither `P` nor a parent of `P`. -/
theorem mem_takeWhile_subTail (P : Bytes) : ∀ d : Bytes, P ∈ subTail d → ∀ s,
    s ∈ (subTail d).takeWhile (fun x => x ≠ P) ↔ (s ∈ subTail d ∧ isDotSuffixOrEq s P = false) := by
  intro d
  induction d with
  | nil => intro h; simp [subTail] at h
  | cons b rest ih =>
    intro hP s
    unfold subTail at hP ⊢
    by_cases hb : b = dot
    · simp only [hb, if_true] at hP ⊢
      by_cases hPr : rest = P
      · -- stops immediately; every element is P or a parent of P
        subst hPr
        simp only [List.takeWhile_cons, ne_eq, not_true_eq_false, decide_false]
        simp only [Bool.false_eq_true, if_false, List.not_mem_nil, false_iff, not_and,
          Bool.not_eq_false, List.mem_cons]
        rintro (rfl | hs)
        · simp [isDotSuffixOrEq]
        · obtain ⟨pre, hpre⟩ := (mem_subTail s rest).mp hs
          simp only [isDotSuffixOrEq, Bool.or_eq_true, beq_iff_eq]
          right
          rw [hpre]
          exact List.isSuffixOf_iff_suffix.mpr ⟨pre, rfl⟩
      · have hP' : P ∈ subTail rest := by
          rcases List.mem_cons.mp hP with h | h
          · exact absurd h.symm hPr
          · exact h
        have hdec : decide (rest ≠ P) = true := by simp [hPr]
        rw [List.takeWhile_cons, hdec]
        simp only [if_true, List.mem_cons]
        constructor
        · rintro (rfl | hs)
          · refine ⟨Or.inl rfl, ?_⟩
            obtain ⟨pre, hpre⟩ := (mem_subTail P s).mp hP'
            have hlen := length_lt_of_dotSuffix hpre
            simp only [isDotSuffixOrEq, Bool.or_eq_false_iff, beq_eq_false_iff_ne, ne_eq]
            refine ⟨hPr, ?_⟩
            cases hsuf : (dot :: s).isSuffixOf P with
            | false => rfl
            | true =>
              have := (List.isSuffixOf_iff_suffix.mp hsuf).length_le
              simp at this; omega
          · have := (ih hP' s).mp hs
            exact ⟨Or.inr this.1, this.2⟩
        · rintro ⟨hs | hs, hn⟩
          · exact Or.inl hs
          · exact Or.inr ((ih hP' s).mpr ⟨hs, hn⟩)
    · simp only [hb, if_false] at hP ⊢
      exact ih hP s


theorem isDotSuffixOrEq_iff (s t : Bytes) :
    isDotSuffixOrEq s t = true ↔ (s = t ∨ ∃ pre, t = pre ++ dot :: s) := by
  simp only [isDotSuffixOrEq, Bool.or_eq_true, beq_iff_eq, List.isSuffixOf_iff_suffix]
  constructor
  · rintro (h | ⟨pre, h⟩)
    · exact Or.inl h
    · exact Or.inr ⟨pre, h.symm⟩
  · rintro (h | ⟨pre, h⟩)
    · exact Or.inl h
    · exact Or.inr ⟨pre, h.symm⟩

theorem isDotSuffixOrEq_false_of_longer {s t : Bytes} (h : t.length < s.length) :
    isDotSuffixOrEq s t = false := by
  cases hh : isDotSuffixOrEq s t with
  | false => rfl
  | true =>
    rcases (isDotSuffixOrEq_iff s t).mp hh with rfl | ⟨pre, rfl⟩
    · omega
    · simp at h; omega

/-- Elements of `subdomains d` are totally ordered by "is a parent of". -/
theorem subdomains_total {d s t : Bytes} (hs : s ∈ subdomains d) (ht : t ∈ subdomains d) :
    isDotSuffixOrEq s t = true ∨ isDotSuffixOrEq t s = true := by
  rw [mem_subdomains] at hs ht
  rw [isDotSuffixOrEq_iff, isDotSuffixOrEq_iff]
  rcases hs.2 with rfl | ⟨a, ha⟩
  · rcases ht.2 with rfl | ⟨b, hb⟩
    · exact Or.inl (Or.inl rfl)
    · exact Or.inr (Or.inr ⟨b, hb⟩)
  · rcases ht.2 with rfl | ⟨b, hb⟩
    · exact Or.inl (Or.inr ⟨a, ha⟩)
    · have e : a ++ dot :: s = b ++ dot :: t := by rw [← ha, ← hb]
      rcases List.append_eq_append_iff.mp e with ⟨a', h1, h2⟩ | ⟨c', h1, h2⟩
      · cases a' with
        | nil => simp at h2; exact Or.inl (Or.inl h2)
        | cons x a'' =>
          simp at h2
          exact Or.inr (Or.inr ⟨a'', h2.2⟩)
      · cases c' with
        | nil => simp at h2; exact Or.inl (Or.inl h2.symm)
        | cons x c'' =>
          simp at h2
          exact Or.inl (Or.inr ⟨c'', h2.2⟩)

theorem mem_takeWhile_subdomains {P d : Bytes} (hP : P ∈ subdomains d) (s : Bytes) :
    s ∈ (subdomains d).takeWhile (fun x => x ≠ P) ↔ (s ∈ subdomains d ∧ isDotSuffixOrEq s P = false) := by
  cases d with
  | nil => simp [subdomains] at hP
  | cons c cs =>
    simp only [subdomains] at hP ⊢
    by_cases hd : c :: cs = P
    · subst hd
      simp only [List.takeWhile_cons, ne_eq, not_true_eq_false, decide_false, Bool.false_eq_true,
        if_false, List.not_mem_nil, false_iff, not_and, Bool.not_eq_false, List.mem_cons]
      rintro (rfl | hs)
      · simp [isDotSuffixOrEq]
      · obtain ⟨pre, hpre⟩ := (mem_subTail s _).mp hs
        exact (isDotSuffixOrEq_iff _ _).mpr (Or.inr ⟨pre, hpre⟩)
    · have hP' : P ∈ subTail (c :: cs) := by
        rcases List.mem_cons.mp hP with h | h
        · exact absurd h.symm hd
        · exact h
      have hdec : decide (c :: cs ≠ P) = true := by simp [hd]
      rw [List.takeWhile_cons, hdec]
      simp only [if_true, List.mem_cons]
      constructor
      · rintro (rfl | hs)
        · refine ⟨Or.inl rfl, ?_⟩
          obtain ⟨pre, hpre⟩ := (mem_subTail P _).mp hP'
          exact isDotSuffixOrEq_false_of_longer (length_lt_of_dotSuffix hpre)
        · have := (mem_takeWhile_subTail P _ hP' s).mp hs
          exact ⟨Or.inr this.1, this.2⟩
      · rintro ⟨hs | hs, hn⟩
        · exact Or.inl hs
        · exact Or.inr ((mem_takeWhile_subTail P _ hP' s).mpr ⟨hs, hn⟩)

theorem takeWhile_eq_self_of_all {α} (p : α → Bool) : ∀ l : List α, (∀ x ∈ l, p x = true) → l.takeWhile p = l
  | [], _ => rfl
  | x :: xs, h => by
    have hx := h x (by simp)
    rw [List.takeWhile_cons, hx]
    simp only [if_true]
    rw [takeWhile_eq_self_of_all p xs (fun y hy => h y (by simp [hy]))]

theorem mem_allowedNames (ps : Bytes) (icann : Bool) (host s : Bytes) :
    s ∈ allowedNames ps icann host ↔
      (s ∈ subdomains host ∧ s ≠ [] ∧ dots s ≤ 3 ∧ ¬ (icann = true ∧ isDotSuffixOrEq s ps = true)) := by
  simp only [allowedNames, nameAndParents, allowedName, List.mem_filter, decide_eq_true_eq,
    Bool.and_eq_true, Bool.not_eq_true', Bool.and_eq_false_iff]
  constructor
  · rintro ⟨⟨h1, h2⟩, h3, h4⟩
    refine ⟨h1, h2, h3, ?_⟩
    rintro ⟨hi, hd⟩
    rcases h4 with h4 | h4
    · rw [hi] at h4; cases h4
    · rw [hd] at h4; cases h4
  · rintro ⟨h1, h2, h3, h4⟩
    refine ⟨⟨h1, h2⟩, h3, ?_⟩
    cases icann with
    | false => exact Or.inl rfl
    | true =>
      right
      cases hd : isDotSuffixOrEq s ps with
      | false => rfl
      | true => exact absurd ⟨rfl, hd⟩ h4

/-- **The hashed names are exactly the allowed names** (given a sane
public-suffix oracle). -/
theorem mem_hashedNames {ps : Bytes} {icann : Bool} {host : Bytes} (hps : psOK ps icann host = true) (s : Bytes) :
    s ∈ hashedNames ps icann host ↔ s ∈ allowedNames ps icann host := by
  rw [mem_allowedNames]
  unfold hashedNames
  simp only
  generalize hP : (if icann = true then ps else []) = P
  by_cases hmem : P ∈ subdomains (lastLabels host)
  · rw [mem_takeWhile_subdomains hmem, mem_subdomains_lastLabels]
    cases icann with
    | false =>
      simp only [Bool.false_eq_true, if_false] at hP
      subst hP
      have : ∀ s : Bytes, isDotSuffixOrEq s [] = false ↔ s ≠ [] := by
        intro s
        cases s <;> simp [isDotSuffixOrEq]
      rw [this]
      constructor
      · rintro ⟨⟨h1, h2⟩, h3⟩; exact ⟨h1, h3, h2, by simp⟩
      · rintro ⟨h1, h2, h3, _⟩; exact ⟨⟨h1, h3⟩, h2⟩
    | true =>
      simp only [if_true] at hP
      subst hP
      constructor
      · rintro ⟨⟨h1, h2⟩, h3⟩
        refine ⟨h1, ?_, h2, by simp [h3]⟩
        rintro rfl
        have hs : ([] : Bytes) ∈ subdomains (lastLabels host) := (mem_subdomains_lastLabels host []).mpr ⟨h1, h2⟩
        rcases subdomains_total hs hmem with h | h
        · rw [h3] at h; cases h
        · have : ps = [] := by
            rcases (isDotSuffixOrEq_iff _ _).mp h with h | ⟨pre, h⟩
            · exact h
            · simp at h
          subst this
          simp [isDotSuffixOrEq] at h3
      · rintro ⟨h1, _, h3, h4⟩
        refine ⟨⟨h1, h3⟩, ?_⟩
        cases hd : isDotSuffixOrEq s ps with
        | false => rfl
        | true => exact absurd ⟨rfl, hd⟩ h4
  · -- the stop name does not occur: everything is hashed
    rw [takeWhile_eq_self_of_all _ _ (by
      intro x hx
      simp only [ne_eq, decide_eq_true_eq]
      rintro rfl; exact hmem hx)]
    rw [mem_subdomains_lastLabels]
    cases icann with
    | false =>
      simp only [Bool.false_eq_true, if_false] at hP
      subst hP
      constructor
      · rintro ⟨h1, h2⟩
        refine ⟨h1, ?_, h2, by simp⟩
        rintro rfl
        exact hmem ((mem_subdomains_lastLabels host []).mpr ⟨h1, h2⟩)
      · rintro ⟨h1, _, h3, _⟩; exact ⟨h1, h3⟩
    | true =>
      simp only [if_true] at hP
      subst hP
      -- psOK puts P among the names unless the host is empty
      simp only [psOK, Bool.not_true, Bool.false_or, Bool.and_eq_true, decide_eq_true_eq] at hps
      by_cases hh : host = []
      · subst hh
        simp [subdomains]
      · exfalso
        apply hmem
        rw [mem_subdomains_lastLabels]
        refine ⟨?_, hps.2⟩
        rw [mem_subdomains]
        exact ⟨hh, (isDotSuffixOrEq_iff _ _).mp hps.1⟩


/-! ### how many names are hashed -/

theorem length_subTail : ∀ d : Bytes, (subTail d).length = dots d
  | [] => rfl
  | b :: rest => by
    unfold subTail
    by_cases hb : b = dot
    · subst hb; simp [length_subTail rest, dots_cons_dot]
    · simp [hb, length_subTail rest, dots_cons_ne hb]

theorem length_subdomains {d : Bytes} (h : d ≠ []) : (subdomains d).length = dots d + 1 := by
  cases d with
  | nil => exact absurd rfl h
  | cons b rest => simp [subdomains, length_subTail]

theorem length_takeWhile_subTail (P : Bytes) : ∀ d : Bytes, P ∈ subTail d →
    ((subTail d).takeWhile (fun x => x ≠ P)).length + dots P + 1 = dots d
  | [], h => by simp [subTail] at h
  | b :: rest, h => by
    unfold subTail at h ⊢
    by_cases hb : b = dot
    · subst hb
      simp only [if_true] at h ⊢
      rw [dots_cons_dot]
      by_cases hP : rest = P
      · subst hP; simp
      · have h' : P ∈ subTail rest := by
          rcases List.mem_cons.mp h with h | h
          · exact absurd h.symm hP
          · exact h
        have ih := length_takeWhile_subTail P rest h'
        have hdec : decide (rest ≠ P) = true := by simp [hP]
        rw [List.takeWhile_cons, hdec]
        simp only [if_true, List.length_cons]
        omega
    · simp only [hb, if_false] at h ⊢
      rw [dots_cons_ne hb]
      exact length_takeWhile_subTail P rest h

theorem length_takeWhile_subdomains {P d : Bytes} (h : P ∈ subdomains d) :
    ((subdomains d).takeWhile (fun x => x ≠ P)).length + dots P = dots d := by
  cases d with
  | nil => simp [subdomains] at h
  | cons c cs =>
    simp only [subdomains] at h ⊢
    by_cases hd : c :: cs = P
    · subst hd; simp
    · have h' : P ∈ subTail (c :: cs) := by
        rcases List.mem_cons.mp h with h | h
        · exact absurd h.symm hd
        · exact h
      have := length_takeWhile_subTail P _ h'
      have hdec : decide (c :: cs ≠ P) = true := by simp [hd]
      rw [List.takeWhile_cons, hdec]
      simp only [if_true, List.length_cons]
      omega

theorem dots_lastLabels (host : Bytes) : dots (lastLabels host) = min (dots host) 3 := by
  obtain ⟨pre, h1, h2, h3⟩ := lastLabels_spec host
  rcases h3 with h3 | ⟨⟨p', h3⟩, h4⟩
  · have : host = lastLabels host := by rw [h3] at h1; simpa using h1
    rw [← this] at h2 ⊢
    omega
  · have : dots host = dots p' + 1 + dots (lastLabels host) := by
      conv => lhs; rw [h1, h3]
      simp [dots]; omega
    omega

theorem length_hashedNames_le (ps : Bytes) (icann : Bool) (host : Bytes) :
    (hashedNames ps icann host).length ≤ 4 := by
  unfold hashedNames
  simp only
  refine Nat.le_trans (List.takeWhile_sublist _).length_le ?_
  by_cases h : lastLabels host = []
  · rw [h]; simp [subdomains]
  · rw [length_subdomains h, dots_lastLabels]; omega

theorem getLast_ne_dot_subTail : ∀ d : Bytes, d.getLast? ≠ some dot → [] ∉ subTail d
  | [], _ => by simp [subTail]
  | [b], h => by
    have : b ≠ dot := by simpa using h
    simp [subTail, this]
  | b :: c :: rest, h => by
    have h' : (c :: rest).getLast? ≠ some dot := by simpa [List.getLast?_cons_cons] using h
    have ih := getLast_ne_dot_subTail (c :: rest) h'
    unfold subTail
    by_cases hb : b = dot
    · simp only [hb, if_true, List.mem_cons, not_or]
      exact ⟨by simp, ih⟩
    · simp only [hb, if_false]; exact ih

/-- **Exactly how many names are hashed**: the host is cut to its last four
labels first, then the ICANN suffix (with all its labels) is left out. -/
theorem length_hashedNames {ps : Bytes} {icann : Bool} {host : Bytes} (hps : psOK ps icann host = true)
    (hne : host ≠ []) (hdot : host.getLast? ≠ some dot) :
    (hashedNames ps icann host).length =
      min (dots host + 1) 4 - (if icann then dots ps + 1 else 0) := by
  have hll : lastLabels host ≠ [] := fun e => hne (lastLabels_eq_nil e)
  unfold hashedNames
  simp only
  cases icann with
  | false =>
    simp only [Bool.false_eq_true, if_false]
    -- the empty name does not occur: everything is hashed
    have hnil : ([] : Bytes) ∉ subdomains (lastLabels host) := by
      intro hmem
      have := (mem_subdomains_lastLabels host []).mp hmem
      rw [mem_subdomains] at this
      rcases this.1.2 with e | ⟨pre, e⟩
      · exact hne e.symm
      · apply hdot; rw [e]; simp
    rw [takeWhile_eq_self_of_all _ _ (by
      intro x hx
      simp only [ne_eq, decide_eq_true_eq]
      rintro rfl; exact hnil hx)]
    rw [length_subdomains hll, dots_lastLabels]; omega
  | true =>
    simp only [if_true]
    simp only [psOK, Bool.not_true, Bool.false_or, Bool.and_eq_true, decide_eq_true_eq] at hps
    have hmem : ps ∈ subdomains (lastLabels host) := by
      rw [mem_subdomains_lastLabels, mem_subdomains]
      exact ⟨⟨hne, (isDotSuffixOrEq_iff _ _).mp hps.1⟩, hps.2⟩
    have := length_takeWhile_subdomains hmem
    rw [dots_lastLabels] at this
    omega

end AGH.C19
