/-
C04 lemmas, part 8: the abstraction commutes with every operation, and the
monitor (`specStep`) never fires on the model along any history.  Core Lean only.
-/
import AGH.Lemmas.ClientsRefine
namespace AGH.C04
open AGH AGH.Bytes
open AGH.C03 (IP Prefix inCIDR)

theorem pd_of_mem {reg : Registry} (h : reg.Pairwise DisjointP) {a b : Client} (ha : a ∈ reg)
    (hb : b ∈ reg) (hne : a ≠ b) : DisjointP a b := by
  induction h with
  | nil => cases ha
  | cons hx _ ih =>
    rcases List.mem_cons.mp ha with rfl | ha' <;> rcases List.mem_cons.mp hb with rfl | hb'
    · exact absurd rfl hne
    · exact hx b hb'
    · exact (hx a ha').symm
    · exact ih ha' hb'

/-- Other clients have another name and another UID. -/
theorem other_client {reg : Registry} (h : reg.Pairwise DisjointP) {stored d : Client}
    (hs : stored ∈ reg) (hd : d ∈ reg) (hne : d ≠ stored) :
    d.name ≠ stored.name ∧ d.uid ≠ stored.uid := by
  have := pd_of_mem h hd hs hne
  refine ⟨?_, this.1⟩
  intro he
  exact this.2 (.name d.name) (by simp) (by simp [he])

/-- Replacing the client named `n` in place is removing it and appending the new one. -/
theorem map_replace_perm {reg : Registry} (h : reg.Pairwise DisjointP) {stored : Client}
    (hs : stored ∈ reg) (c : Client) :
    (reg.map fun d => if d.name = stored.name then { c with uid := d.uid } else d).Perm
      (reg.filter (·.uid != stored.uid) ++ [{ c with uid := stored.uid }]) := by
  induction reg with
  | nil => cases hs
  | cons d rest ih =>
    have hp := List.pairwise_cons.mp h
    by_cases hd : d = stored
    · subst hd
      have hrest : ∀ e ∈ rest, e.name ≠ d.name ∧ e.uid ≠ d.uid := by
        intro e he
        have := other_client h (stored := d) List.mem_cons_self (List.mem_cons_of_mem _ he)
        apply this
        intro hed
        subst hed
        exact (hp.1 e he).1 rfl
      have h1 : rest.map (fun e => if e.name = d.name then { c with uid := e.uid } else e) = rest := by
        conv => rhs; rw [← List.map_id rest]
        apply List.map_congr_left
        intro e he
        simp [(hrest e he).1]
      have h2 : rest.filter (·.uid != d.uid) = rest := by
        rw [List.filter_eq_self]
        intro e he
        simp [(hrest e he).2]
      simp only [List.map_cons, if_true, h1, List.filter_cons, bne_self_eq_false, Bool.false_eq_true,
        if_false, h2]
      exact (List.perm_append_comm (l₁ := [{ c with uid := d.uid }]) (l₂ := rest))
    · have hsr : stored ∈ rest := by
        rcases List.mem_cons.mp hs with h' | h'
        · exact absurd h'.symm hd
        · exact h'
      have hne := other_client h hs List.mem_cons_self hd
      simp only [List.map_cons, hne.1, if_false, List.filter_cons]
      have : (d.uid != stored.uid) = true := by simp [hne.2]
      simp only [this, if_true, List.cons_append]
      exact (ih hp.2 hsr).cons d

theorem filter_name_eq_filter_uid {reg : Registry} (h : reg.Pairwise DisjointP) {stored : Client}
    (hs : stored ∈ reg) :
    reg.filter (·.name != stored.name) = reg.filter (·.uid != stored.uid) := by
  apply List.filter_congr
  intro d hd
  show (d.name != stored.name) = (d.uid != stored.uid)
  by_cases hds : d = stored
  · subst hds; simp
  · have := other_client h hs hd hds
    have h1 : (d.name != stored.name) = true := bne_iff_ne.mpr this.1
    have h2 : (d.uid != stored.uid) = true := bne_iff_ne.mpr this.2
    rw [h1, h2]

/-- The abstraction commutes with every operation: accepted ones change the
registry as `applyAccepted` says, all others change nothing. -/
theorem step_refines {s : Storage} {w : World} (hr : Refines s w) (op : Op) :
    Refines (step s op).1 (if (step s op).2 = .ok then applyAccepted w op else w) := by
  cases op with
  | add c =>
    show Refines (s.add c).1 (if (s.add c).2 = .ok then applyAccepted w (.add c) else w)
    by_cases hres : (s.add c).2 = .ok
    · have : s.add c = ((s.add c).1, .ok) := by rw [← hres]
      obtain ⟨_, _, _, hi, hcl, hd⟩ := Storage.add_ok hr.inv this
      rw [if_pos hres]
      simp only [applyAccepted]
      exact ⟨hi, by rw [hcl]; exact hr.perm.append_right _, by rw [hd]; exact hr.dhcp⟩
    · rw [if_neg hres, Storage.add_rejected s c hres]
      exact hr
  | update n c =>
    show Refines (s.update n c).1 (if (s.update n c).2 = .ok then applyAccepted w (.update n c) else w)
    by_cases hres : (s.update n c).2 = .ok
    · have : s.update n c = ((s.update n c).1, .ok) := by rw [← hres]
      obtain ⟨stored, hst, hname, _, _, hi, hcl, hd⟩ := Storage.update_ok hr.inv this
      rw [if_pos hres]
      simp only [applyAccepted]
      refine ⟨hi, ?_, by rw [hd]; exact hr.dhcp⟩
      rw [hcl]
      have h1 := (hr.perm.filter (·.uid != stored.uid)).append_right [{ c with uid := stored.uid }]
      have h2 := map_replace_perm hr.pd (hr.mem.mp hst) c
      rw [hname] at h2
      exact h1.trans h2.symm
    · rw [if_neg hres, Storage.update_rejected s n c hres]
      exact hr
  | remove n =>
    show Refines (s.removeByName n).1 (if (s.removeByName n).2 = .ok then applyAccepted w (.remove n) else w)
    by_cases hres : (s.removeByName n).2 = .ok
    · have : s.removeByName n = ((s.removeByName n).1, .ok) := by rw [← hres]
      obtain ⟨stored, hst, hname, hi, hcl, hd⟩ := Storage.remove_ok hr.inv this
      rw [if_pos hres]
      simp only [applyAccepted]
      refine ⟨hi, ?_, by rw [hd]; exact hr.dhcp⟩
      rw [hcl, ← hname, filter_name_eq_filter_uid hr.pd (hr.mem.mp hst)]
      exact hr.perm.filter _
    · rw [if_neg hres, Storage.remove_rejected s n hres]
      exact hr
  | dhcpSet ip mac =>
    simp only [step, if_true, applyAccepted]
    exact ⟨hr.inv, hr.perm, by simp [hr.dhcp]⟩
  | dhcpDel ip =>
    simp only [step, if_true, applyAccepted]
    exact ⟨hr.inv, hr.perm, by simp [hr.dhcp]⟩

/-! ### the listing of all clients -/

theorem insertByName_perm (c : Client) (l : List Client) : (insertByName c l).Perm (c :: l) := by
  induction l with
  | nil => exact List.Perm.refl _
  | cons d rest ih =>
    unfold insertByName
    split
    · exact List.Perm.refl _
    · exact ((ih.cons d).trans (List.Perm.swap c d rest))

theorem rangeByName_perm (ci : Index) : ci.rangeByName.Perm ci.clients := by
  unfold Index.rangeByName
  induction ci.clients with
  | nil => exact List.Perm.refl _
  | cons c rest ih =>
    simp only [List.foldr_cons]
    exact (insertByName_perm c _).trans (ih.cons c)

theorem sameMembers_of_perm {a b : List (Nat × Nat)} (h : a.Perm b) : sameMembers a b = true := by
  unfold sameMembers
  simp only [Bool.and_eq_true, beq_iff_eq, List.all_eq_true, List.contains_iff_mem]
  exact ⟨⟨h.length_eq, fun x hx => h.mem_iff.mp hx⟩, fun x hx => h.mem_iff.mpr hx⟩

/-! ### the monitor along a history -/

/-- Run the model and the spec monitor side by side on a history, looking at
`probes` after every operation; true when the monitor never fires. -/
def monitorRun (probes : List Probe) : Storage → World → List Op → Bool
  | _, _, [] => true
  | s, w, op :: rest =>
    let r := step s op
    let obs := probes.map fun p => (p, modelSeen r.1 p)
    let all := r.1.index.rangeByName.map fun c => (c.uid, c.ver)
    let m := specStep w op (r.2 == .ok) obs all
    m.2.isNone && monitorRun probes r.1 m.1 rest

theorem monitorRun_of_refines (probes : List Probe) {s : Storage} {w : World} (hr : Refines s w)
    (ops : List Op) : monitorRun probes s w ops = true := by
  induction ops generalizing s w with
  | nil => rfl
  | cons op rest ih =>
    have hstep := step_refines hr op
    unfold monitorRun
    simp only [Bool.and_eq_true]
    have hw : (specStep w op ((step s op).2 == .ok)
        (probes.map fun p => (p, modelSeen (step s op).1 p))
        ((step s op).1.index.rangeByName.map fun c => (c.uid, c.ver))).1 =
        (if (step s op).2 = .ok then applyAccepted w op else w) := by
      unfold specStep
      simp only [beq_iff_eq]
    refine ⟨?_, ?_⟩
    · unfold specStep
      simp only [beq_iff_eq]
      have hns := hstep.noSharing
      simp only [hns, Bool.not_true, Bool.false_eq_true, if_false]
      have hprobes : (probes.map fun p => (p, modelSeen (step s op).1 p)).findSome?
          (fun ps => probeFail (if (step s op).2 = .ok then applyAccepted w op else w) ps.1 ps.2) = none := by
        rw [List.findSome?_eq_none_iff]
        intro ps hps
        obtain ⟨p, _, rfl⟩ := List.mem_map.mp hps
        exact probeFail_model hstep p
      simp only [hprobes]
      have hperm : ((step s op).1.index.rangeByName.map fun c => (c.uid, c.ver)).Perm
          (regPairs (if (step s op).2 = .ok then applyAccepted w op else w).reg) := by
        unfold regPairs
        exact ((rangeByName_perm _).trans hstep.perm).map _
      simp [sameMembers_of_perm hperm]
    · rw [hw]
      exact ih hstep

/-- The storage and the registry after a history: the registry changes by the
operations the storage accepted. -/
def track : Storage → World → List Op → Storage × World
  | s, w, [] => (s, w)
  | s, w, op :: rest => track (step s op).1 (if (step s op).2 = .ok then applyAccepted w op else w) rest

theorem track_refines {s : Storage} {w : World} (hr : Refines s w) (ops : List Op) :
    Refines (track s w ops).1 (track s w ops).2 := by
  induction ops generalizing s w with
  | nil => exact hr
  | cons op rest ih => exact ih (step_refines hr op)

theorem track_fst (s : Storage) (w : World) (ops : List Op) : (track s w ops).1 = run s ops := by
  induction ops generalizing s w with
  | nil => rfl
  | cons op rest ih => exact ih _ _

/-- Under the invariant a map lookup finds exactly the stored client that lists the key. -/
theorem Inv.deref_map {κ : Type} {ci : Index} (h : Inv ci) {m : FMap κ} {ids : Client → List κ}
    (hm : MapInv m ci.clients ids) (k : κ) :
    (ci.deref (m k) = .none ↔ ∀ c ∈ ci.clients, k ∉ ids c) ∧
    (∀ c, ci.deref (m k) = .found c ↔ (c ∈ ci.clients ∧ k ∈ ids c)) ∧
    ci.deref (m k) ≠ .dangling := by
  unfold Index.deref
  cases hk : m k with
  | none =>
    refine ⟨?_, ?_, by simp⟩
    · simp only [true_iff]
      intro c hc hkc
      have := (hm k c.uid).mpr ⟨c, hc, rfl, hkc⟩
      rw [hk] at this; cases this
    · intro c
      constructor
      · intro hh; cases hh
      · rintro ⟨hc, hkc⟩
        have := (hm k c.uid).mpr ⟨c, hc, rfl, hkc⟩
        rw [hk] at this; cases this
  | some u =>
    obtain ⟨c, hcl, hc, hcu, hkc⟩ := hm.client_isSome h.uids hk
    simp only [hcl]
    refine ⟨?_, ?_, by simp⟩
    · simp only [reduceCtorEq, false_iff]
      intro hall; exact hall c hc hkc
    · intro c'
      simp only [Look.found.injEq]
      constructor
      · rintro rfl; exact ⟨hc, hkc⟩
      · rintro ⟨hc', hkc'⟩
        have := (hm k c'.uid).mpr ⟨c', hc', rfl, hkc'⟩
        rw [hk] at this
        exact h.uids.eq_of_uid hc hc' (by rw [hcu]; exact Option.some.inj this)

end AGH.C04
