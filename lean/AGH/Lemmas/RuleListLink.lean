/-
C15 helper lemmas: the monitor's normal form (split at LF, trim, drop blank
lines and comments) is what the model's scanner-based parser stores.
Needs: a trailing CR does not survive `bytes.TrimSpace`, so `dropCR` of
`bufio.ScanLines` is invisible after trimming.
-/
import AGH.Lemmas.RuleListIdem
import AGH.Lemmas.RuleListParse
import AGH.Lemmas.SafeFSClean
namespace AGH.C15
open AGH AGH.Bytes
open AGH.C17 (decodeRune runeError isCont decodeRune_append decodeRune_size)

/-! ### A trailing carriage return -/

theorem isCont_cr : isCont 13 = false := by decide

/-- Appending a CR (not a continuation byte) to a non-empty string does not
change its first rune. -/
theorem decodeRune_snoc_cr (s : Bytes) (hs : s ≠ []) : decodeRune (s ++ [13]) = decodeRune s := by
  match s, hs with
  | b0 :: t, _ =>
    by_cases h1 : b0 < 0x80
    · simp [decodeRune, h1]
    by_cases h2 : b0 < 0xC2
    · simp [decodeRune, h1, h2]
    by_cases h3 : b0 < 0xE0
    · rcases t with _ | ⟨b1, t⟩
      · simp [decodeRune, h1, h2, h3, isCont_cr]
      · simp [decodeRune, h1, h2, h3]
    by_cases h4 : b0 < 0xF0
    · rcases t with _ | ⟨b1, _ | ⟨b2, t⟩⟩
      · simp [decodeRune, h1, h2, h3, h4]
      · simp [decodeRune, h1, h2, h3, h4, isCont_cr]
      · simp [decodeRune, h1, h2, h3, h4]
    by_cases h5 : b0 < 0xF5
    · rcases t with _ | ⟨b1, _ | ⟨b2, _ | ⟨b3, t⟩⟩⟩
      · simp [decodeRune, h1, h2, h3, h4, h5]
      · simp [decodeRune, h1, h2, h3, h4, h5]
      · simp [decodeRune, h1, h2, h3, h4, h5, isCont_cr]
      · simp [decodeRune, h1, h2, h3, h4, h5]
    · simp [decodeRune, h1, h2, h3, h4, h5]

theorem isSpaceRune_cr : isSpaceRune 13 = true := by decide

/-- `TrimLeftFunc` on a string with a CR appended. -/
theorem trimLeftF_snoc_cr : ∀ (f : Nat) (s : Bytes), s.length + 1 ≤ f →
    trimLeftF (f + 1) (s ++ [13]) = (if trimLeftF f s = [] then [] else trimLeftF f s ++ [13]) := by
  intro f
  induction f with
  | zero => intro s h; omega
  | succ f ih =>
    intro s h
    cases s with
    | nil =>
      simp [trimLeftF, decodeRune, isSpaceRune_cr]
    | cons c t =>
      have hd := decodeRune_snoc_cr (c :: t) (by simp)
      have hsz := decodeRune_size (c :: t) (by simp)
      rw [List.cons_append] at hd ⊢
      unfold trimLeftF
      simp only [hd]
      by_cases hns : (!isSpaceRune (decodeRune (c :: t)).1) = true
      · rw [if_pos hns, if_pos hns]; simp
      · rw [if_neg hns, if_neg hns]
        have hdrop : (c :: (t ++ [13])).drop (decodeRune (c :: t)).2 = (c :: t).drop (decodeRune (c :: t)).2 ++ [13] := by
          rw [← List.cons_append, List.drop_append_of_le_length hsz.2]
        rw [hdrop]
        have hlen : ((c :: t).drop (decodeRune (c :: t)).2).length + 1 ≤ f := by
          simp only [List.length_drop, List.length_cons] at h ⊢
          simp only [List.length_cons] at hsz
          omega
        exact ih _ hlen

theorem trimLeftFunc_snoc_cr (s : Bytes) :
    trimLeftFunc (s ++ [13]) = (if trimLeftFunc s = [] then [] else trimLeftFunc s ++ [13]) := by
  unfold trimLeftFunc
  have := trimLeftF_snoc_cr (s.length + 1) s (Nat.le_refl _)
  simpa using this

theorem lastD_append (z t : Bytes) (e : Nat) (he : 1 ≤ e) (hle : e ≤ z.length) :
    lastD (z ++ t) e = lastD z e := by
  unfold lastD
  have h1 : (z ++ t).getD (e - 1) 0 = z.getD (e - 1) 0 := by
    simp [List.getD_eq_getElem?_getD, List.getElem?_append_left (show e - 1 < z.length by omega)]
  rw [h1, List.take_append_of_le_length hle]

theorem lastIdxF_append (t : Bytes) : ∀ (f : Nat) (z : Bytes) (e : Nat), e ≤ z.length →
    lastIdxF f (z ++ t) e = lastIdxF f z e := by
  intro f
  induction f with
  | zero => intro z e _; rfl
  | succ f ih =>
    intro z e hle
    rw [lastIdxF_lastD, lastIdxF_lastD]
    by_cases he : e = 0
    · rw [if_pos he, if_pos he]
    · rw [if_neg he, if_neg he, lastD_append z t e (by omega) hle]
      split
      · rfl
      · exact ih z _ (by omega)

theorem trimRightFunc_snoc_cr (z : Bytes) : trimRightFunc (z ++ [13]) = trimRightFunc z := by
  rw [trimRightFunc_fwdW, trimRightFunc_fwdW]
  have hlen : (z ++ [13]).length = z.length + 1 := by simp
  rw [hlen, lastIdxF_lastD]
  have hne : z.length + 1 ≠ 0 := by omega
  have hd : lastD (z ++ [13]) (z.length + 1) = (13, 1) := by
    unfold lastD
    have : (z ++ [13]).getD (z.length + 1 - 1) 0 = 13 := by
      simp [List.getD_eq_getElem?_getD]
    rw [this]; rfl
  rw [if_neg hne, hd]
  simp only [isSpaceRune_cr, Bool.not_true, Bool.false_eq_true, if_false, Nat.add_sub_cancel]
  rw [lastIdxF_append [13] (z.length + 1) z z.length (Nat.le_refl _)]
  cases hl : lastIdxF (z.length + 1) z z.length with
  | none => rfl
  | some i =>
    simp only
    obtain ⟨hi, _⟩ := lastIdxF_spec _ _ _ _ hl (Nat.le_refl _)
    have hgi : (z ++ [13]).getD i 0 = z.getD i 0 := by
      simp [List.getD_eq_getElem?_getD, List.getElem?_append_left hi]
    have hdrop : (z ++ [13]).drop i = z.drop i ++ [13] := List.drop_append_of_le_length (by omega)
    have hne' : z.drop i ≠ [] := by
      intro h0
      have := congrArg List.length h0
      simp only [List.length_drop, List.length_nil] at this
      omega
    have hw : fwdW (z ++ [13]) i = fwdW z i := by
      unfold fwdW
      rw [hgi, hdrop, decodeRune_snoc_cr _ hne']
    rw [hw]
    have hle : i + fwdW z i ≤ z.length := by
      unfold fwdW
      split
      · have := (decodeRune_size _ hne').2
        simp only [List.length_drop] at this
        omega
      · omega
    exact List.take_append_of_le_length hle

theorem trimFunc_snoc_cr (s : Bytes) : trimFunc (s ++ [13]) = trimFunc s := by
  unfold trimFunc
  rw [trimLeftFunc_snoc_cr]
  by_cases h : trimLeftFunc s = []
  · rw [if_pos h, h]
  · rw [if_neg h, trimRightFunc_snoc_cr]

/-- **A trailing CR is trimmed away.** -/
theorem trimSpace_snoc_cr : ∀ (l : Bytes), trimSpace (l ++ [13]) = trimSpace l := by
  intro l
  induction l with
  | nil => decide
  | cons c rest ih =>
    rw [List.cons_append]
    unfold trimSpace
    by_cases hc : c ≥ 0x80
    · rw [if_pos hc, if_pos hc, ← List.cons_append]; exact trimFunc_snoc_cr _
    · rw [if_neg hc, if_neg hc]
      by_cases hsp : isAsciiSpace c = true
      · rw [if_pos hsp, if_pos hsp]; exact ih
      · rw [if_neg hsp, if_neg hsp]
        rw [← List.cons_append, List.reverse_append]
        simp only [List.reverse_cons, List.reverse_nil, List.nil_append, List.singleton_append]
        rw [trimSpaceBack]
        simp [show ¬ (13 : Nat) ≥ 0x80 by omega, show isAsciiSpace 13 = true by decide]

/-- `bufio.ScanLines`' `dropCR` is invisible after trimming. -/
theorem trimSpace_dropCR (l : Bytes) : trimSpace (dropCR l) = trimSpace l := by
  unfold dropCR
  split
  · rename_i h
    have hl : l = l.dropLast ++ [13] := by
      have hne : l ≠ [] := by intro h0; rw [h0] at h; simp at h
      have := List.dropLast_concat_getLast hne
      rw [List.getLast?_eq_some_getLast hne] at h
      simp only [Option.some.injEq] at h
      rw [h] at this
      exact this.symm
    conv => rhs; rw [hl]
    rw [trimSpace_snoc_cr]
  · rfl

end AGH.C15

namespace AGH.C15
open AGH AGH.Bytes

/-! ### Splitting at LF: `strings.Split`-style versus the scanner -/

theorem splitOn_splitNL : ∀ (s : Bytes),
    splitOn nl s = (splitNL s).1 :: (if (splitNL s).2.2 = true then splitOn nl (splitNL s).2.1 else []) := by
  intro s
  induction s with
  | nil => simp [splitOn, splitNL]
  | cons c t ih =>
    by_cases hc : c = nl
    · subst hc; simp [splitOn, splitNL]
    · have h1 : splitNL (c :: t) = (c :: (splitNL t).1, (splitNL t).2.1, (splitNL t).2.2) := by
        simp [splitNL, hc]
      rw [h1]
      simp only
      exact AGH.C17.splitOn_cons_ne hc ih

theorem splitNL_found_len : ∀ (s : Bytes), (splitNL s).2.2 = true → (splitNL s).2.1.length + 1 ≤ s.length := by
  intro s
  induction s with
  | nil => intro h; simp [splitNL] at h
  | cons c t ih =>
    intro h
    by_cases hc : c = nl
    · simp [splitNL, hc]
    · simp only [splitNL, hc, if_false] at h ⊢
      have := ih h
      simp only [List.length_cons]; omega

theorem specLines_cons (seg : Bytes) (rest : List Bytes) :
    ((seg :: rest).map trimSpace).filter isContent =
      (if isContent (trimSpace seg) = true then [trimSpace seg] else []) ++ (rest.map trimSpace).filter isContent := by
  simp only [List.map_cons, List.filter_cons]
  split <;> simp

theorem keptLines_cons (seg : Bytes) (rest : List Bytes) :
    keptLines (dropCR seg :: rest) =
      (if isContent (trimSpace seg) = true then [trimSpace seg] else []) ++ keptLines rest := by
  unfold keptLines
  simp only [List.map_cons, List.filter_cons, trimSpace_dropCR]
  split <;> simp

/-- On every input the scanner accepts, the kept lines of the scanner's
tokens are the monitor's rule lines. -/
theorem scanLines_specLines : ∀ (f : Nat) (data : Bytes), data.length + 1 ≤ f →
    (scanLines f data true).2 = .eof → keptLines (scanLines f data true).1 = specLines data := by
  intro f
  induction f with
  | zero => intro data h; omega
  | succ f ih =>
    intro data hf he
    unfold specLines
    rw [splitOn_splitNL]
    unfold scanLines at he ⊢
    cases data with
    | nil => simp [splitNL, keptLines, trimSpace, isContent]
    | cons a s =>
      simp only at he ⊢
      by_cases h1 : (splitNL (a :: s)).1.length ≥ maxToken
      · rw [if_pos h1] at he; cases he
      · rw [if_neg h1] at he ⊢
        by_cases h2 : (splitNL (a :: s)).2.2 = true
        · rw [if_pos h2] at he ⊢
          rw [if_pos h2]
          simp only
          rw [keptLines_cons, specLines_cons]
          congr 1
          have hlen := splitNL_len (a :: s)
          have hlt : (splitNL (a :: s)).2.1.length + 1 ≤ f := by
            -- a newline was consumed, so the rest is strictly shorter
            have : (splitNL (a :: s)).2.1.length < (a :: s).length := by
              have hj := splitNL_found_len (a :: s) h2
              omega
            simp only [List.length_cons] at hf this
            omega
          exact ih _ hlt he
        · rw [if_neg h2] at he ⊢
          rw [if_neg h2]
          simp only
          rw [keptLines_cons, specLines_cons]
          simp [keptLines]

end AGH.C15

namespace AGH.C15
open AGH AGH.Bytes

/-- A successful parse of a complete body stores the monitor's normal form of
that body, counts its rule lines and checksums them; and the body is neither
an HTML document nor binary in the monitor's sense. -/
theorem parse_normal (src : Bytes) (h : (parse src true).err = none) :
    (parse src true).out = normalForm src ∧
    (parse src true).st.count = (specLines src).length ∧
    (parse src true).st.crc = crcLines 0 (specLines src) ∧
    htmlDoc src = false ∧ binaryDoc src = false := by
  have he := parse_ok_eof h
  have hk := scanLines_specLines (src.length + 1) src (Nat.le_refl _) he
  rw [parse_def, he] at h ⊢
  obtain ⟨h1, h2, h3, _, h5, h6⟩ := runLines_ok _ _ _ _ _ rfl h
  rw [hk] at h1 h2 h3 h5 h6
  refine ⟨by simpa [normalForm] using h1, by simpa [PState.init] using h2, by simpa [PState.init] using h3, ?_, ?_⟩
  · unfold htmlDoc
    cases hs : specLines src with
    | nil => rfl
    | cons l rest => exact h6 rfl l rest hs
  · unfold binaryDoc
    rw [List.any_eq_false]
    intro k hk'
    simp [h5 k hk']

/-- The enumerated content failures of the property are failures of the model. -/
theorem fetchBad_fails (f : Fetch) (h : fetchBad f = true) : fetchFails f = true := by
  cases f with
  | fail => rfl
  | body data c =>
    simp only [fetchFails]
    cases hp : (parse data c).err with
    | some e => rfl
    | none =>
      exfalso
      cases c with
      | false => exact parse_incomplete data hp
      | true =>
        obtain ⟨_, _, _, h4, h5⟩ := parse_normal data hp
        simp [fetchBad, h4, h5] at h

end AGH.C15

namespace AGH.C15
open AGH AGH.Bytes

/-- The list at index `i` after a `tryRefreshFilters` call. -/
theorem refreshStep_flt (rq : Req) (ls : List LState) (ins : List (Bool × Fetch)) (i : Nat)
    (l l' : LState) (due : Bool) (f : Fetch) (hl : ls[i]? = some l) (hi : ins[i]? = some (due, f))
    (hl' : (refreshStep rq ls ins)[i]? = some l') :
    l'.flt = if attempted rq l due then refreshOne l.flt f else l.flt := by
  have hp := phase1_get rq ls ins i l due f hl hi
  unfold refreshStep at hl'
  simp only [List.getElem?_map] at hl'
  cases hg : (phase1 rq ls ins)[i]? with
  | none => rw [hg] at hp; simp at hp
  | some r =>
    rw [hg] at hp hl'
    simp only [Option.map_some, Option.some.injEq] at hp hl'
    rw [← hl', reload_flt, hp]
    split <;> rfl

end AGH.C15

namespace AGH.C15
open AGH AGH.Bytes

theorem setDownload_cases (old flt2 : Flt) (changed : Bool) (f : Fetch) :
    (∃ c k out, updateIntl flt2.checksum f = some (c, k, out) ∧
      setDownload old flt2 changed f = ⟨⟨true, c, k, some out⟩, changed, .ok true⟩) ∨
    (updateIntl flt2.checksum f = none ∧ fetchFails f = true ∧
      setDownload old flt2 changed f = ⟨⟨old.enabled, old.count, flt2.checksum, old.file⟩, false, .err⟩) ∨
    (updateIntl flt2.checksum f = none ∧ fetchFails f = false ∧
      setDownload old flt2 changed f = ⟨flt2, changed, .ok true⟩) := by
  unfold setDownload
  cases hu : updateIntl flt2.checksum f with
  | some p => obtain ⟨c, k, out⟩ := p; exact Or.inl ⟨c, k, out, rfl, rfl⟩
  | none =>
    cases hff : fetchFails f with
    | true => exact Or.inr (Or.inl ⟨rfl, rfl, by simp⟩)
    | false => exact Or.inr (Or.inr ⟨rfl, rfl, by simp⟩)

/-- The shapes of `setProps`: refused duplicate; list disabled; nothing to
download; or a download against the list `flt2` (count and checksum zeroed
after a URL change). -/
theorem setProps_cases (flt : Flt) (rq : SetReq) (f : Fetch) :
    (setProps flt rq f = ⟨flt, false, .err⟩) ∨
    (rq.enabled = false ∧ ∃ r, setProps flt rq f = ⟨⟨false, 0, 0, flt.file⟩, rq.changed, .ok r⟩) ∨
    (rq.enabled = true ∧ rq.changed = false ∧
      setProps flt rq f = ⟨⟨true, flt.count, flt.checksum, flt.file⟩, false, .ok false⟩) ∨
    (rq.enabled = true ∧ setProps flt rq f =
      setDownload flt ⟨true, if rq.changed then 0 else flt.count, if rq.changed then 0 else flt.checksum, flt.file⟩
        rq.changed f) := by
  obtain ⟨fe, cnt, ck, file⟩ := flt
  obtain ⟨changed, dup, en⟩ := rq
  cases changed <;> cases dup <;> cases en <;> cases fe <;>
    first
    | exact Or.inl rfl
    | exact Or.inr (Or.inl ⟨rfl, _, rfl⟩)
    | exact Or.inr (Or.inr (Or.inl ⟨rfl, rfl, rfl⟩))
    | exact Or.inr (Or.inr (Or.inr ⟨rfl, rfl⟩))

/-- Unless `setProps` asks for a rebuild, the list's enabled flag and file are
what they were. -/
theorem setProps_no_restart (flt : Flt) (rq : SetReq) (f : Fetch) (h : (setProps flt rq f).res ≠ .ok true) :
    (setProps flt rq f).flt.enabled = flt.enabled ∧ (setProps flt rq f).flt.file = flt.file := by
  obtain ⟨fe, cnt, ck, file⟩ := flt
  obtain ⟨changed, dup, en⟩ := rq
  have dl : ∀ (old flt2 : Flt) (ch : Bool), (setDownload old flt2 ch f).res ≠ .ok true →
      (setDownload old flt2 ch f).flt.enabled = old.enabled ∧ (setDownload old flt2 ch f).flt.file = old.file := by
    intro old flt2 ch hne
    rcases setDownload_cases old flt2 ch f with ⟨c, k, out, _, hs⟩ | ⟨_, _, hs⟩ | ⟨_, _, hs⟩
    · rw [hs] at hne; exact absurd rfl hne
    · rw [hs]; exact ⟨rfl, rfl⟩
    · rw [hs] at hne; exact absurd rfl hne
  cases changed <;> cases dup <;> cases en <;> cases fe <;>
    first
    | exact ⟨rfl, rfl⟩
    | exact absurd rfl h
    | exact dl _ _ _ h

/-- The engine's view stays in sync with the files across a set_url request. -/
theorem setURLStep_insync (ls : List LState) (i : Nat) (rq : SetReq) (f : Fetch)
    (h : ∀ l ∈ ls, insync l) : ∀ l' ∈ (setURLStep ls i rq f).1, insync l' := by
  unfold setURLStep
  cases hl : ls[i]? with
  | none => simpa using h
  | some l =>
    simp only
    have hlm : l ∈ ls := List.mem_of_getElem? hl
    cases hres : (setProps l.flt rq f).res with
    | err =>
      simp only
      obtain ⟨he, hfl⟩ := setProps_no_restart l.flt rq f (by rw [hres]; intro hh; cases hh)
      intro l' hl'
      rcases List.mem_or_eq_of_mem_set hl' with hm | rfl
      · exact h l' hm
      · have := h l hlm
        unfold insync at this ⊢
        simp only [he, hfl]; exact this
    | ok r =>
      cases r with
      | true =>
        simp only
        intro l' hl'
        simp only [List.mem_map] at hl'
        obtain ⟨x, _, rfl⟩ := hl'
        rfl
      | false =>
        simp only
        obtain ⟨he, hfl⟩ := setProps_no_restart l.flt rq f (by rw [hres]; intro hh; cases hh)
        intro l' hl'
        rcases List.mem_or_eq_of_mem_set hl' with hm | rfl
        · exact h l' hm
        · have := h l hlm
          unfold insync at this ⊢
          simp only [he, hfl]; exact this

end AGH.C15

namespace AGH.C15
open AGH AGH.Bytes

theorem splitOn_joinLines : ∀ (ks : List Bytes), (∀ k ∈ ks, nl ∉ k) →
    splitOn nl (joinLines ks) = ks ++ [[]] := by
  intro ks
  induction ks with
  | nil => intro _; simp [joinLines, splitOn]
  | cons k ks ih =>
    intro h
    have hk := h k (by simp)
    have hj : joinLines (k :: ks) = k ++ nl :: joinLines ks := rfl
    rw [hj, splitOn_splitNL, splitNL_join k _ hk]
    simp only [if_true, List.cons_append]
    rw [ih (fun k' hk' => h k' (by simp [hk']))]

theorem specLines_facts (src : Bytes) : ∀ k ∈ specLines src,
    trimSpace k = k ∧ isContent k = true ∧ nl ∉ k := by
  intro k hk
  simp only [specLines, List.mem_filter, List.mem_map] at hk
  obtain ⟨⟨l, hl, rfl⟩, hc⟩ := hk
  refine ⟨trimSpace_idem l, hc, ?_⟩
  intro hm
  exact splitOn_no_sep nl src l hl ((trimSpace_sub l).subset hm)

/-- The rule lines of a normal form are the lines it was built from. -/
theorem specLines_joinLines (ks : List Bytes)
    (h : ∀ k ∈ ks, trimSpace k = k ∧ isContent k = true ∧ nl ∉ k) :
    specLines (joinLines ks) = ks := by
  unfold specLines
  rw [splitOn_joinLines ks (fun k hk => (h k hk).2.2)]
  rw [List.map_append, List.filter_append]
  have h1 : ks.map trimSpace = ks := by
    conv => rhs; rw [← List.map_id ks]
    apply List.map_congr_left
    intro k hk; simpa using (h k hk).1
  rw [h1]
  have h2 : ks.filter isContent = ks := by
    rw [List.filter_eq_self]; intro k hk; exact (h k hk).2.1
  rw [h2]
  simp [trimSpace, isContent]

end AGH.C15
