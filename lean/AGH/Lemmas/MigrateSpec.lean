/-
C13: helper lemmas between the run-level facts and the property theorems
(`Props/C13.lean`): what a produced document looks like, and the spec's
clause predicates on the model's results.
-/
import AGH.Lemmas.MigrateRun
namespace AGH.C13
open AGH

/-- A null document is treated like an empty one. -/
theorem migrateMem_null (o : Oracles) (target : Nat) :
    migrateMem o (some .null) target = migrateMem o (some (.obj [])) target := rfl


/-- The in-memory document `Migrate` encodes: a map, stamped, top-level frame. -/
theorem migrateMem_up (o : Oracles) (es : List (Key × YVal)) (target : Nat) (d : YVal)
    (h : migrateMem o (some (.obj es)) target = .up d) :
    ∃ cur, versionOf (.obj es) = some cur ∧ cur < target ∧ target ≤ 29 ∧ IsObj d ∧
      getK d kSchemaVersion = some (.int target) ∧
      ∀ k, k ∉ topKeys (touchedRange (target - cur) cur) → getK d k = lookup k es := by
  rcases migrateMem_obj o es target with ⟨⟨k, hk⟩, _⟩ | ⟨hs, _, _⟩ | ⟨cur, hv, hlt, h29, hu⟩
  · rw [hk] at h; simp at h
  · rw [hs] at h; simp at h
  · rw [hu] at h
    have hup := upgrade_ok o (target - cur) cur (by omega) es
    cases hr : upgrade o (target - cur) cur (.obj es) with
    | error fs => obtain ⟨f, s⟩ := fs; rw [hr] at h; cases f <;> simp [upgradeOutcome] at h
    | ok d' =>
      rw [hr] at h hup
      simp [upgradeOutcome] at h; subst h
      obtain ⟨ho, hs, hf⟩ := hup
      refine ⟨cur, hv, hlt, h29, ho, ?_, hf⟩
      have := hs (by omega)
      rw [this]; congr 2; omega


/-- A document `Migrate` produces carries the requested version. -/
theorem migrate_stamped (o : Oracles) (parsed : Option YVal) (target : Nat) (d : YVal) (hd : DocLike parsed)
    (h : migrate o parsed target = .up d) : getK d kSchemaVersion = some (.int target) := by
  have key : ∀ es, migrate o (some (.obj es)) target = .up d → getK d kSchemaVersion = some (.int target) := by
    intro es h
    unfold migrate at h
    cases hm : migrateMem o (some (.obj es)) target with
    | up d0 =>
      rw [hm] at h; dsimp only at h
      obtain ⟨cur, _, _, _, ho, hs, _⟩ := migrateMem_up o es target d0 hm
      obtain ⟨es0, rfl⟩ := ho.elim
      cases hr : reparse o (.obj es0) with
      | none => rw [hr] at h; simp at h
      | some d1 =>
        rw [hr] at h; simp at h; subst h
        obtain ⟨es1, rfl, he⟩ := reparse_obj o es0 d1 hr
        simp only [getK] at hs ⊢
        rw [reparseEntries_lookup o _ es0 es1 he, hs]
        simp [reparse_int]
    | err k s => rw [hm] at h; simp at h
    | same => rw [hm] at h; simp at h
    | panic p s => rw [hm] at h; simp at h
    | oracle => rw [hm] at h; simp at h
  cases parsed with
  | none => simp [migrate, migrateMem] at h
  | some d0 =>
    cases d0 <;> simp [DocLike] at hd
    · exact key [] (by simpa [migrate, migrateMem_null] using h)
    · exact key _ h


/-- A produced document is a map carrying the requested stamp. -/
theorem migrate_up_obj (o : Oracles) (parsed : Option YVal) (t : Nat) (d : YVal) (hd : DocLike parsed)
    (h : migrate o parsed t = .up d) : ∃ es, d = .obj es ∧ lookup kSchemaVersion es = some (.int t) := by
  have hs := migrate_stamped o parsed t d hd h
  cases d <;> simp [getK] at hs
  exact ⟨_, rfl, hs⟩


theorem firstSome_none {α β} (f : α → Option β) (xs : List α) (h : ∀ x ∈ xs, f x = none) :
    firstSome f xs = none := by
  induction xs with
  | nil => rfl
  | cons x xs ih =>
    simp only [firstSome, h x (by simp)]
    exact ih (fun y hy => h y (by simp [hy]))

theorem toRes_panicWhy (r : Outcome) (h : ∀ p s, r ≠ .panic p s) : (r.toRes).panicWhy = none := by
  cases r <;> simp [Outcome.toRes, Res.panicWhy]
  exact absurd rfl (h _ _)

theorem toRes_wrapperOK (r : Outcome) : (r.toRes).wrapperOK = true := by
  cases r <;> simp [Outcome.toRes, Res.wrapperOK]

theorem stampedWith_of_lookup (es : List (Key × YVal)) (n : Nat)
    (h : lookup kSchemaVersion es = some (.int n)) : stampedWith n (some (.obj es)) = true := by
  simp [stampedWith, lookupE_eq_lookup, stampKey, h]

theorem migrate_stampOK (o : Oracles) (parsed : Option YVal) (t : Nat) (hd : DocLike parsed) :
    ((migrate o parsed t).toRes).stampOK t = true := by
  cases h : migrate o parsed t <;> simp [Outcome.toRes, Res.stampOK]
  obtain ⟨es, rfl, hs⟩ := migrate_up_obj o parsed t _ hd h
  exact stampedWith_of_lookup es t hs

theorem migrate_same_version (o : Oracles) (es : List (Key × YVal)) (t : Nat)
    (h : migrate o (some (.obj es)) t = .same) : versionOf (.obj es) = some t := by
  unfold migrate at h
  rcases migrateMem_obj o es t with ⟨⟨k, hk⟩, _⟩ | ⟨_, hv, _⟩ | ⟨cur, _, _, _, hu⟩
  · rw [hk] at h; simp at h
  · exact hv
  · rw [hu] at h
    cases hr : upgrade o (t - cur) cur (.obj es) with
    | error fs => obtain ⟨f, s⟩ := fs; rw [hr] at h; cases f <;> simp [upgradeOutcome] at h
    | ok d => rw [hr] at h; simp [upgradeOutcome] at h; split at h <;> simp at h

theorem splitRun_stampOK (o : Oracles) (parsed : Option YVal) (target k : Nat) (hd : DocLike parsed) :
    (((splitRun o parsed target k).2).toRes).stampOK target = true := by
  unfold splitRun
  cases h1 : migrate o parsed k with
  | same => exact migrate_stampOK o parsed target hd
  | up d1 =>
    obtain ⟨es1, rfl, hs1⟩ := migrate_up_obj o parsed k d1 hd h1
    dsimp only
    cases h2 : migrate o (some (.obj es1)) target with
    | same =>
      have hv := migrate_same_version o es1 target h2
      simp [versionOf, lookupE_eq_lookup, stampKey, hs1] at hv
      subst hv
      simp [Outcome.toRes, Res.stampOK, stampedWith_of_lookup es1 k hs1]
    | up d2 =>
      have := migrate_stampOK o (some (.obj es1)) target trivial
      rw [h2] at this; simpa using this
    | err k' s' => simp [Outcome.toRes, Res.stampOK]
    | panic p' s' => simp [Outcome.toRes, Res.stampOK]
    | oracle => simp [Outcome.toRes, Res.stampOK]
  | err k' s' => simp [Outcome.toRes, Res.stampOK]
  | panic p' s' => simp [Outcome.toRes, Res.stampOK]
  | oracle => simp [Outcome.toRes, Res.stampOK]

theorem migrate_null (o : Oracles) (t : Nat) : migrate o (some .null) t = migrate o (some (.obj [])) t := by
  simp [migrate, migrateMem_null]


/-! ### composition of runs -/

theorem upgrade_append (o : Oracles) (a b : Nat) : ∀ (cur : Nat) (d : YVal),
    upgrade o (a + b) cur d =
      (match upgrade o a cur d with
       | .error e => .error e
       | .ok d' => upgrade o b (cur + a) d') := by
  induction a with
  | zero => intro cur d; simp [upgrade]
  | succ a ih =>
    intro cur d
    have : a + 1 + b = (a + b) + 1 := by omega
    rw [this]
    simp only [upgrade]
    cases hs : step o (cur + 1) d with
    | error f => rfl
    | ok d1 =>
      dsimp only
      rw [ih (cur + 1) d1]
      have : cur + 1 + a = cur + (a + 1) := by omega
      rw [this]

/-- `migrateMem` on a map document of version `cur < target ≤ 29` is the run of the steps. -/
theorem migrateMem_run (o : Oracles) (es : List (Key × YVal)) (cur target : Nat)
    (hv : versionOf (.obj es) = some cur) (hlt : cur < target) (h29 : target ≤ 29) :
    migrateMem o (some (.obj es)) target = upgradeOutcome (upgrade o (target - cur) cur (.obj es)) := by
  rcases migrateMem_obj o es target with ⟨_, hn | ⟨c, hc, hgt⟩⟩ | ⟨_, hv', _⟩ | ⟨c, hc, _, _, hu⟩
  · rw [hv] at hn; simp at hn
  · rw [hv] at hc; simp at hc; subst hc; omega
  · rw [hv] at hv'; simp at hv'; omega
  · rw [hv] at hc; simp at hc; subst hc; exact hu

end AGH.C13
