/-
Helper lemmas for C01 / C02: `handle` split by the spec's three classes
(blocked at the request stage / service block with filtering off / forwarded).
-/
import AGH.Lemmas.FilterMsg
import AGH.Lemmas.FilterResp
set_option linter.unusedSimpArgs false
namespace AGH.Filter
open AGH AGH.Bytes

theorem reserved_parts (c : Conf) (q : Query) (h : reserved c q = false) :
    ¬(c.aaaaDisabled = true ∧ q.qtype = tAAAA) ∧ ¬((q.qtype = tA ∨ q.qtype = tAAAA) ∧ q.name = mozillaFQDN) ∧
    q.name ≠ healthcheckFQDN ∧ dhcpHost c q = none := by
  unfold reserved at h
  simp only [Bool.or_eq_false_iff, Bool.and_eq_false_iff, beq_eq_false_iff_ne, ne_eq] at h
  obtain ⟨⟨⟨h1, h2⟩, h3⟩, h4⟩ := h
  refine ⟨?_, ?_, h3, ?_⟩
  · intro ⟨a, b⟩; rcases h1 with h1 | h1
    · simp [a] at h1
    · exact h1 b
  · intro ⟨a, b⟩; rcases h2 with h2 | h2
    · rcases a with a | a <;> simp [a] at h2
    · exact h2 b
  · cases hd : dhcpHost c q with
    | none => rfl
    | some x => simp [hd] at h4

theorem shortCircuit_none (c : Conf) (q : Query) (h : reserved c q = false) : shortCircuit c q = none := by
  obtain ⟨e1, e2, h3, _⟩ := reserved_parts c q h
  unfold shortCircuit
  simp [e1, e2, h3]

theorem dhcpStage_none (e : Engines) (c : Conf) (u : Upstream) (q : Query) (h : reserved c q = false) :
    dhcpStage e c u q = none := by
  unfold dhcpStage
  rw [(reserved_parts c q h).2.2.2]

/-- outside the reserved names the request goes through the filtering stages -/
theorem handle_eq_main (e : Engines) (c : Conf) (u : Upstream) (q : Query) (h : reserved c q = false) :
    handle e c u q = handleMain e c u q := by
  unfold handle
  rw [shortCircuit_none c q h, dhcpStage_none e c u q h]

theorem genDNSFilterMessage_question (c : Conf) (q : Query) (r : Result) :
    (genDNSFilterMessage c q r).qname = q.name ∧ (genDNSFilterMessage c q r).qtype = q.qtype := by
  unfold genDNSFilterMessage genForBlockingMode responseCustomIP responseNullIP responseWithIPs
    msgNODATA msgNXDOMAIN reply
  constructor <;> (repeat' split) <;> rfl

/-- the rule addresses of a request-stage block are of the query's family -/
theorem hostRuleIPs_family (e : Engines) (hwf : EnginesWF e) (c : Conf) (h : Bytes) (qt : Nat) :
    (qt = tA → ∀ ip ∈ hostRuleIPs e c h qt qt, ip.v6 = false) ∧
    (qt = tAAAA → ∀ ip ∈ hostRuleIPs e c h qt qt, ip.v6 = true) := by
  unfold hostRuleIPs
  cases hb : e.block (reqFor c h qt) with
  | none => simp
  | some rb =>
    cases rb with
    | net wl => simp
    | hosts v4 v6 =>
      constructor
      · intro hq; subst hq; simpa [tA, tAAAA] using hwf.block_v4 _ _ _ hb
      · intro hq; subst hq; simpa [tA, tAAAA] using hwf.block_v6 _ _ _ hb

theorem hostRuleIPs_other (e : Engines) (c : Conf) (h : Bytes) (t : Nat) (h1 : t ≠ tA) (h2 : t ≠ tAAAA) :
    hostRuleIPs e c h t t = [] := by
  unfold hostRuleIPs
  cases e.block (reqFor c h t) with
  | none => rfl
  | some rb => cases rb <;> simp [h1, h2]

/-- The response generated for a record blocked at the response stage is an
acceptable replacement in the sense of the spec. -/
theorem respBlock_ok (e : Engines) (hwf : EnginesWF e) (c : Conf) (q : Query) (h : Bytes) (t : Nat) (r : Result)
    (hB : BlockedRes e c h t r) :
    respBlockOK c q t (hostRuleIPs e c h t t) (genDNSFilterMessage c q r) = true := by
  obtain ⟨_, _, hips, _⟩ := hB
  have hfam := hostRuleIPs_family e hwf c h t
  unfold respBlockOK
  by_cases hq : t = q.qtype
  · -- checked under the query's own type: the request-stage table applies
    have := genDNSFilterMessage_synthetic c q r
      (by intro hA; rw [hips]; exact hfam.1 (hq.trans hA))
      (by intro hA; rw [hips]; exact hfam.2 (hq.trans hA))
    rw [hips] at this
    simp only [hq, if_true] at this ⊢
    simp [this]
  · simp only [hq, if_false]
    by_cases hnd : c.mode ≠ .default ∨ (q.qtype ≠ tA ∧ q.qtype ≠ tAAAA)
    · simp [genDNSFilterMessage_synthetic_nil c q r hnd]
    · have hm : c.mode = .default := by
        cases hmm : c.mode <;> simp [hmm] at hnd ⊢
      have hqa : q.qtype = tA ∨ q.qtype = tAAAA := by
        by_cases h1 : q.qtype = tA
        · exact Or.inl h1
        · by_cases h2 : q.qtype = tAAAA
          · exact Or.inr h2
          · exact absurd (Or.inr ⟨h1, h2⟩) hnd
      cases hemp : (hostRuleIPs e c h t t).isEmpty
      · -- addresses of the other family: the quirk
        have hcross : (q.qtype = tA ∧ ∀ ip ∈ r.ips, ip.v6 = true) ∨ (q.qtype = tAAAA ∧ ∀ ip ∈ r.ips, ip.v6 = false) := by
          rw [hips]
          by_cases ht1 : t = tA
          · rcases hqa with h1 | h2
            · exact absurd (ht1.trans h1.symm) hq
            · exact Or.inr ⟨h2, hfam.1 ht1⟩
          · by_cases ht2 : t = tAAAA
            · rcases hqa with h1 | h2
              · exact Or.inl ⟨h1, hfam.2 ht2⟩
              · exact absurd (ht2.trans h2.symm) hq
            · rw [hostRuleIPs_other e c h t ht1 ht2] at hemp; simp at hemp
        have hmsg := genDNSFilterMessage_cross_family c q r hm (by rw [hips]; exact hemp) hcross
        have hqb : (q.qtype == tA || q.qtype == tAAAA) = true := by
          rcases hqa with h1 | h2
          · simp [h1]
          · simp [h2]
        have hne : (t != q.qtype) = true := by simp [hq]
        simp [hmsg, hm, hqb, hne, hemp, reply]
      · have he : hostRuleIPs e c h t t = [] := by simpa using hemp
        have := genDNSFilterMessage_synthetic c q r (by rw [hips, he]; simp) (by rw [hips, he]; simp)
        rw [hips, he] at this
        simp [this]

theorem notPreceded_of_blocked (e : Engines) (c : Conf) (q : Query) (hb : blockedByRules e c q = true) :
    precededByOther e c q = false := by
  unfold blockedByRules at hb
  simp only [Bool.and_eq_true, Bool.not_eq_true'] at hb
  exact hb.1.2

theorem notPreceded_of_filtOff (e : Engines) (c : Conf) (q : Query) (hf : filteringOn c = false) :
    precededByOther e c q = false := by
  simp [precededByOther, hf]

theorem notPreceded_of_serviceMayBlock (e : Engines) (c : Conf) (q : Query) (hs : serviceMayBlock e c q = true) :
    precededByOther e c q = false := by
  apply notPreceded_of_filtOff
  unfold serviceMayBlock at hs
  simp only [Bool.and_eq_true, Bool.not_eq_true'] at hs
  exact hs.1.1.2

/-- the dispatch of `handleMain` on a result of the rule / service checkers -/
theorem handleMain_of_ruleBlock (e : Engines) (c : Conf) (u : Upstream) (q : Query) (res : Result)
    (hres : checkHost e c (trimDot q.name) q.qtype (settings c) = .ok res)
    (hf : res.isFiltered = true) (hr : res.reason = .blockList ∨ res.reason = .blockedService) :
    handleMain e c u q = .done (genDNSFilterMessage c q res) []
        (some { reason := res.reason, isFiltered := true, svcName := res.svcName, origAnswer := none }) := by
  unfold handleMain
  rw [hres]
  have h1 : ¬(res.reason = .rewritten ∧ res.canon ≠ [] ∧ res.ipList = []) := by
    intro ⟨h, _⟩; rcases hr with hr | hr <;> rw [hr] at h <;> cases h
  have hbm : blockedMessage c u q res = (genDNSFilterMessage c q res, []) := by
    unfold blockedMessage
    have n1 : ¬((q.qtype = tA ∨ q.qtype = tAAAA ∨ q.qtype = tHTTPS) ∧ res.reason = .safeBrowsing) := by
      intro ⟨_, h⟩; rcases hr with hr | hr <;> rw [hr] at h <;> cases h
    have n2 : ¬((q.qtype = tA ∨ q.qtype = tAAAA ∨ q.qtype = tHTTPS) ∧ res.reason = .parental) := by
      intro ⟨_, h⟩; rcases hr with hr | hr <;> rw [hr] at h <;> cases h
    rw [if_neg n1, if_neg n2]
  dsimp only
  rw [if_neg h1]
  simp only [hf, if_true, hbm]

theorem handleMain_of_plain (e : Engines) (c : Conf) (u : Upstream) (q : Query) (res : Result)
    (hres : checkHost e c (trimDot q.name) q.qtype (settings c) = .ok res)
    (hf : res.isFiltered = false) (hr : res.reason = .notFound ∨ res.reason = .allowList) :
    handleMain e c u q = forwardStage e c u q res := by
  unfold handleMain
  rw [hres]
  have h1 : ¬(res.reason = .rewritten ∧ res.canon ≠ [] ∧ res.ipList = []) := by
    intro ⟨h, _⟩; rcases hr with hr | hr <;> rw [hr] at h <;> cases h
  have h2 : ¬(res.reason = .rewritten) := by
    intro h; rcases hr with hr | hr <;> rw [hr] at h <;> cases h
  have h3 : ¬(res.reason = .autoHosts) := by
    intro h; rcases hr with hr | hr <;> rw [hr] at h <;> cases h
  dsimp only
  rw [if_neg h1]
  simp only [h2, h3, if_false, hf, Bool.false_eq_true]

/-- A name blocked at the request stage: nothing is sent upstream and the
blocking-mode response for the matched result is produced. -/
theorem handleMain_blocked (e : Engines) (hwf : EnginesWF e) (c : Conf) (u : Upstream) (q : Query)
    (hb : blockedByRules e c q = true) :
    ∃ res, handleMain e c u q = .done (genDNSFilterMessage c q res) []
        (some { reason := res.reason, isFiltered := true, svcName := res.svcName, origAnswer := none }) ∧
      (res.reason = .blockList ∨ res.reason = .blockedService) ∧
      res.ips = hostRuleIPs e c (qhost q) q.qtype q.qtype := by
  obtain ⟨res, hres, h1, _, _, _⟩ := checkHost_spec e hwf c q (notPreceded_of_blocked e c q hb)
  obtain ⟨hf, hr, hips⟩ := h1 hb
  exact ⟨res, handleMain_of_ruleBlock e c u q res hres hf hr, hr, hips⟩

theorem handleMain_serviceOnly (e : Engines) (hwf : EnginesWF e) (c : Conf) (u : Upstream) (q : Query)
    (hb : blockedByRules e c q = false) (hs : serviceMayBlock e c q = true) :
    ∃ res, handleMain e c u q = .done (genDNSFilterMessage c q res) []
        (some { reason := .blockedService, isFiltered := true, svcName := res.svcName, origAnswer := none }) ∧
      res.ips = [] := by
  obtain ⟨res, hres, _, h2, _, _⟩ := checkHost_spec e hwf c q (notPreceded_of_serviceMayBlock e c q hs)
  obtain ⟨hf, hr, hips⟩ := h2 hb hs
  have := handleMain_of_ruleBlock e c u q res hres hf (Or.inr hr)
  rw [hr] at this
  exact ⟨res, this, hips⟩

/-- What happens to a name that is not blocked at the request stage (no rewrite
or hosts entry in front, no other checker blocking). -/
theorem handleMain_forward (e : Engines) (hwf : EnginesWF e) (c : Conf) (u : Upstream) (q : Query)
    (hpre : precededByOther e c q = false)
    (hb : blockedByRules e c q = false) (hs : serviceMayBlock e c q = false) (hob : otherBlocks e c q = false) :
    (respFilterApplies e c q = false →
      ∃ ql, handleMain e c u q = .done (u.exchange q) [q] (some ql) ∧ ql.isFiltered = false ∧ ql.origAnswer = none) ∧
    (respFilterApplies e c q = true → (∀ rr ∈ u.answer, offending e c rr = false) →
      ∃ ql, handleMain e c u q = .done { u.exchange q with answer := u.answer.map (stripC c) } [q] (some ql) ∧
        ql.isFiltered = false ∧ ql.origAnswer = none) ∧
    (respFilterApplies e c q = true →
      ∀ pre rr post h t, u.answer = pre ++ rr :: post → (∀ x ∈ pre, offending e c x = false) →
        firstBlocked e c rr = some (h, t) →
        ∃ r, BlockedRes e c h t r ∧
          handleMain e c u q = .done (genDNSFilterMessage c q r) [q]
            (some { reason := .blockList, isFiltered := true, svcName := [],
                    origAnswer := some (pre.map (stripC c) ++ stripC c rr :: post) })) := by
  obtain ⟨res, hres, _, _, h3, _⟩ := checkHost_spec e hwf c q hpre
  obtain ⟨hnf, hreason, hallow⟩ := h3 hb hs hob
  have hmain := handleMain_of_plain e c u q res hres hnf hreason
  have hcond : (res.reason = .allowList ∨ (!(settings c).protection) = true ∨ (!(settings c).filtering) = true) ↔
      respFilterApplies e c q = false := by
    rw [settings_protection, settings_filtering]
    unfold respFilterApplies
    cases hp : protectionOn c <;> cases hf : filteringOn c <;> simp [hp, hf] at hallow ⊢
    cases ha : allowedName e c (qhost q) q.qtype <;> simp [ha] at hallow ⊢ <;> exact hallow
  refine ⟨?_, ?_, ?_⟩
  · intro happ
    refine ⟨{ reason := res.reason, isFiltered := false, svcName := res.svcName, origAnswer := none }, ?_, rfl, rfl⟩
    rw [hmain]
    simp only [forwardStage]
    rw [if_pos (hcond.mpr happ)]
  · intro happ hclean
    have hp : protectionOn c = true := by
      unfold respFilterApplies at happ; simp at happ; exact happ.1.1
    have hf : filteringOn c = true := by
      unfold respFilterApplies at happ; simp at happ; exact happ.1.2
    have hnc : ¬(res.reason = .allowList ∨ (!(settings c).protection) = true ∨ (!(settings c).filtering) = true) := by
      rw [hcond, happ]; simp
    refine ⟨{ reason := res.reason, isFiltered := false, svcName := res.svcName, origAnswer := none }, ?_, rfl, rfl⟩
    rw [hmain]
    simp only [forwardStage]
    rw [if_neg hnc]
    have := filterAnswers_clean e hwf c hp hf u.answer hclean
    simp only [Upstream.exchange]
    rw [this]
  · intro happ pre rr post h t hsplit hpre' hfb
    have hp : protectionOn c = true := by
      unfold respFilterApplies at happ; simp at happ; exact happ.1.1
    have hf : filteringOn c = true := by
      unfold respFilterApplies at happ; simp at happ; exact happ.1.2
    have hnc : ¬(res.reason = .allowList ∨ (!(settings c).protection) = true ∨ (!(settings c).filtering) = true) := by
      rw [hcond, happ]; simp
    obtain ⟨r, hr, hB⟩ := filterAnswers_first e hwf c hp hf pre rr post hpre' h t hfb
    refine ⟨r, hB, ?_⟩
    rw [hmain]
    simp only [forwardStage]
    rw [if_neg hnc]
    simp only [Upstream.exchange, hsplit]
    rw [hr]
    simp [hB.2.1, hB.2.2.2]

/-- safe browsing / parental block: answered locally (possibly after resolving the block host) -/
theorem handleMain_otherBlocks (e : Engines) (hwf : EnginesWF e) (c : Conf) (u : Upstream) (q : Query)
    (hpre : precededByOther e c q = false)
    (hb : blockedByRules e c q = false) (hs : serviceMayBlock e c q = false) (hob : otherBlocks e c q = true) :
    ∃ res, (res.reason = .safeBrowsing ∨ res.reason = .parental) ∧
      handleMain e c u q = .done (blockedMessage c u q res).1 (blockedMessage c u q res).2
        (some { reason := res.reason, isFiltered := true, svcName := res.svcName, origAnswer := none }) := by
  obtain ⟨res, hres, _, _, _, h4⟩ := checkHost_spec e hwf c q hpre
  obtain ⟨hf, hr⟩ := h4 hb hs hob
  refine ⟨res, hr, ?_⟩
  unfold handleMain
  rw [hres]
  have h1 : ¬(res.reason = .rewritten ∧ res.canon ≠ [] ∧ res.ipList = []) := by
    intro ⟨h, _⟩; rcases hr with hr | hr <;> rw [hr] at h <;> cases h
  dsimp only
  rw [if_neg h1]
  simp only [hf, if_true]

/-- the addresses of a legacy rewrite as the pipeline uses them -/
def rewriteIPs (e : Engines) (c : Conf) (q : Query) : List IP :=
  (C06.processRewritesWith e.srt c.rewrites (qhost q) q.qtype).ips.filterMap parseAddr

def rewriteCanon (e : Engines) (c : Conf) (q : Query) : Bytes :=
  (C06.processRewritesWith e.srt c.rewrites (qhost q) q.qtype).canon

/-- A legacy rewrite is consulted before every host checker. -/
theorem checkHost_rewritten (e : Engines) (c : Conf) (q : Query)
    (hf : filteringOn c = true) (hq : qhost q ≠ [])
    (hrw : legacyRewritten e c (qhost q) q.qtype = true) :
    checkHost e c (trimDot q.name) q.qtype (settings c) =
      .ok { reason := .rewritten, canon := rewriteCanon e c q, ipList := rewriteIPs e c q } := by
  have hh : trimDot q.name ≠ [] := by
    intro h; apply hq; unfold qhost; rw [h]; rfl
  unfold checkHost
  simp only [hh, if_false]
  have hqh : lower (trimDot q.name) = qhost q := rfl
  rw [hqh, settings_filtering, hf]
  unfold legacyRewritten at hrw
  simp [rewriteResult, hrw, rewriteCanon, rewriteIPs]

/-- What the pipeline does with a rewritten name: resolve the canonical name
upstream (restoring the question and prepending the CNAME afterwards), or answer
locally with the optional CNAME and the addresses. -/
theorem handleMain_rewritten (e : Engines) (c : Conf) (u : Upstream) (q : Query)
    (hf : filteringOn c = true) (hq : qhost q ≠ [])
    (hrw : legacyRewritten e c (qhost q) q.qtype = true) :
    handleMain e c u q =
      if rewriteCanon e c q ≠ [] ∧ rewriteIPs e c q = [] then
        .done { u.exchange { q with name := fqdn (rewriteCanon e c q) } with
                qname := q.name,
                answer := { name := q.name, ttl := c.ttl, data := .cname (fqdn (rewriteCanon e c q)) } ::
                  (u.exchange { q with name := fqdn (rewriteCanon e c q) }).answer }
          [{ q with name := fqdn (rewriteCanon e c q) }]
          (some { reason := .rewritten, isFiltered := false, svcName := [], origAnswer := none })
      else
        .done (cnameWithIPs c q (rewriteIPs e c q) (rewriteCanon e c q)) []
          (some { reason := .rewritten, isFiltered := false, svcName := [], origAnswer := none }) := by
  unfold handleMain
  rw [checkHost_rewritten e c q hf hq hrw]
  dsimp only
  by_cases h : rewriteCanon e c q ≠ [] ∧ rewriteIPs e c q = []
  · rw [if_pos h, if_pos ⟨rfl, h⟩]
  · have h' : ¬(Reason.rewritten = Reason.rewritten ∧ rewriteCanon e c q ≠ [] ∧ rewriteIPs e c q = []) :=
      fun ⟨_, hh⟩ => h hh
    rw [if_neg h, if_neg h']
    simp

theorem sameModuloStrip_refl (c : Conf) (l : List RR) : sameModuloStrip c l l = true := by
  induction l with
  | nil => rfl
  | cons x xs ih => simp [sameModuloStrip, ih]

theorem sameModuloStrip_stripC (c : Conf) (pre : List RR) (x : RR) (post : List RR) :
    sameModuloStrip c (pre.map (stripC c) ++ stripC c x :: post) (pre ++ x :: post) = true := by
  have hone : ∀ y : RR, ((stripC c y).erase == y.erase || (c.aaaaDisabled && (stripC c y).erase == (stripRR y).erase)) = true := by
    intro y
    cases hd : c.aaaaDisabled <;> simp [stripC, hd]
  induction pre with
  | nil => simp [sameModuloStrip, hone, sameModuloStrip_refl]
  | cons a as ih => simp [sameModuloStrip, hone, ih]

theorem firstBlocked_candidate (e : Engines) (c : Conf) (rr : RR) (h : Bytes) (t : Nat)
    (hfb : firstBlocked e c rr = some (h, t)) :
    (t, hostRuleIPs e c h t t) ∈ respCandidates e c rr := by
  unfold firstBlocked at hfb
  unfold respCandidates
  have hmem := List.mem_of_find?_eq_some hfb
  have hp := List.find?_some hfb
  apply List.mem_map.mpr
  exact ⟨(h, t), List.mem_filter.mpr ⟨hmem, hp⟩, rfl⟩

/-! ### the question section is echoed byte for byte -/

theorem genBlockedHost_question (c : Conf) (u : Upstream) (q : Query) (bh : BlockHost) :
    (genBlockedHost c u q bh).1.qname = q.name ∧ (genBlockedHost c u q bh).1.qtype = q.qtype := by
  unfold genBlockedHost
  cases bh <;> simp [reply, responseWithIPs]

theorem blockedMessage_question (c : Conf) (u : Upstream) (q : Query) (res : Result) :
    (blockedMessage c u q res).1.qname = q.name ∧ (blockedMessage c u q res).1.qtype = q.qtype := by
  unfold blockedMessage
  split
  · exact genBlockedHost_question c u q _
  · split
    · exact genBlockedHost_question c u q _
    · exact genDNSFilterMessage_question c q res

theorem forwardStage_question (e : Engines) (c : Conf) (u : Upstream) (q : Query) (res : Result)
    (m : Msg) (log : List Query) (ql : Option QLog) (h : forwardStage e c u q res = .done m log ql) :
    m.qname = q.name ∧ m.qtype = q.qtype ∧ log = [q] := by
  unfold forwardStage at h
  dsimp only at h
  split at h
  · cases h; exact ⟨rfl, rfl, rfl⟩
  · split at h
    · cases h
    · cases h
      exact ⟨(genDNSFilterMessage_question c q _).1, (genDNSFilterMessage_question c q _).2, rfl⟩
    · cases h; exact ⟨rfl, rfl, rfl⟩

/-- whatever the filtering stages decide, the response carries the question of
the request, spelled as the client spelled it -/
theorem handleMain_question (e : Engines) (c : Conf) (u : Upstream) (q : Query)
    (m : Msg) (log : List Query) (ql : Option QLog) (h : handleMain e c u q = .done m log ql) :
    m.qname = q.name ∧ m.qtype = q.qtype := by
  unfold handleMain at h
  split at h
  · cases h
  · dsimp only at h
    split at h
    · cases h; exact ⟨rfl, rfl⟩
    · split at h
      · cases h; exact blockedMessage_question c u q _
      · split at h
        · cases h; simp [cnameWithIPs, reply]
        · split at h
          · cases h; simp [hostsResponse, reply]
          · have := forwardStage_question e c u q _ m log ql h
            exact ⟨this.1, this.2.1⟩

theorem shortCircuit_question (c : Conf) (q : Query) (m : Msg) (log : List Query) (ql : Option QLog)
    (h : shortCircuit c q = some (.done m log ql)) : m.qname = q.name ∧ m.qtype = q.qtype := by
  unfold shortCircuit at h
  split at h
  · cases h; simp [msgNODATA, reply]
  · split at h
    · cases h; simp [msgNXDOMAIN, reply]
    · split at h
      · cases h; simp [reply]
      · cases h

theorem handle_question (e : Engines) (c : Conf) (u : Upstream) (q : Query) (hd : dhcpHost c q = none)
    (m : Msg) (log : List Query) (ql : Option QLog) (h : handle e c u q = .done m log ql) :
    m.qname = q.name ∧ m.qtype = q.qtype := by
  unfold handle dhcpStage at h
  rw [hd] at h
  split at h
  · rename_i o ho; subst h; exact shortCircuit_question c q m log ql ho
  · exact handleMain_question e c u q m log ql h

/-- with no legacy rewrite / hosts entry in front and no safe-browsing or parental
block, the only question ever sent upstream is the client's own, letter case included -/
theorem handleMain_log (e : Engines) (hwf : EnginesWF e) (c : Conf) (u : Upstream) (q : Query)
    (hpre : precededByOther e c q = false) (hob : otherBlocks e c q = false)
    (m : Msg) (log : List Query) (ql : Option QLog) (h : handleMain e c u q = .done m log ql) :
    ∀ x ∈ log, x = q := by
  cases hb : blockedByRules e c q with
  | true =>
    obtain ⟨res, hm, _⟩ := handleMain_blocked e hwf c u q hb
    rw [hm] at h; cases h; intro x hx; cases hx
  | false =>
    cases hs : serviceMayBlock e c q with
    | true =>
      obtain ⟨res, hm, _⟩ := handleMain_serviceOnly e hwf c u q hb hs
      rw [hm] at h; cases h; intro x hx; cases hx
    | false =>
      obtain ⟨res, hres, _, _, h3, _⟩ := checkHost_spec e hwf c q hpre
      obtain ⟨hnf, hreason, _⟩ := h3 hb hs hob
      rw [handleMain_of_plain e c u q res hres hnf hreason] at h
      have := (forwardStage_question e c u q res m log ql h).2.2
      rw [this]; intro x hx; simpa using hx

end AGH.Filter
