/-
C15 helper lemmas: the asynchronous engine rebuild with bursts of handler
calls ("latest request wins") keeps the invariant `BInv`.
-/
import AGH.Lemmas.RuleListLink
namespace AGH.C15
open AGH AGH.Bytes

theorem refreshOne_enabled (flt : Flt) (f : Fetch) : (refreshOne flt f).enabled = flt.enabled := by
  unfold refreshOne
  cases updateIntl flt.checksum f with
  | none => rfl
  | some p => rfl

theorem phase1_enabled (rq : Req) : ∀ (ls : List LState) (ins : List (Bool × Fetch)),
    (phase1 rq ls ins).map (·.1.flt.enabled) = enabledFlags ls := by
  intro ls
  induction ls with
  | nil => intro ins; cases ins <;> simp [phase1, enabledFlags]
  | cons l ls ih =>
    intro ins
    cases ins with
    | nil => simp [phase1, enabledFlags, List.map_map, Function.comp_def]
    | cons i ins =>
      obtain ⟨due, f⟩ := i
      simp only [phase1, List.map_cons, enabledFlags]
      congr 1
      · split
        · exact refreshOne_enabled _ _
        · rfl
      · exact ih ins

theorem refreshStep_enabled (rq : Req) (ls : List LState) (ins : List (Bool × Fetch)) :
    enabledFlags (refreshStep rq ls ins) = enabledFlags ls := by
  unfold refreshStep enabledFlags
  rw [List.map_map]
  have : ((fun (x : LState) => x.flt.enabled) ∘ fun (r : LState × Bool × Bool × Bool) =>
      if ((if rq.block = true then updCount false (phase1 rq ls ins) else 0) +
          (if rq.allow = true then updCount true (phase1 rq ls ins) else 0) != 0) = true
      then { r.1 with inForce := if r.1.flt.enabled = true then r.1.flt.file else none } else r.1)
      = fun r => r.1.flt.enabled := by
    funext r
    simp only [Function.comp]
    exact congrArg Flt.enabled (reload_flt _ r.1)
  rw [this]
  exact phase1_enabled rq ls ins

theorem applySnap_enabled : ∀ (ls : List LState) (snap : List Bool),
    enabledFlags (applySnap ls snap) = enabledFlags ls := by
  intro ls
  induction ls with
  | nil => intro snap; cases snap <;> rfl
  | cons l ls ih =>
    intro snap
    cases snap with
    | nil => rfl
    | cons e es => simp only [applySnap, enabledFlags, List.map_cons] at ih ⊢; rw [ih es]

theorem applySnap_insync : ∀ (ls : List LState), ∀ l' ∈ applySnap ls (enabledFlags ls), insync l' := by
  intro ls
  induction ls with
  | nil => intro l' h; simp [applySnap, enabledFlags] at h
  | cons l ls ih =>
    intro l' h
    simp only [enabledFlags, List.map_cons, applySnap, List.mem_cons] at h
    rcases h with rfl | h
    · rfl
    · exact ih l' h

theorem set_same : ∀ (l : List Bool) (i : Nat) (a : Bool), l[i]? = some a → l.set i a = l := by
  intro l
  induction l with
  | nil => intro i a h; simp at h
  | cons x t ih =>
    intro i a h
    cases i with
    | zero => simp only [List.getElem?_cons_zero, Option.some.injEq] at h; simp [h]
    | succ i => simp only [List.getElem?_cons_succ] at h; simp [ih i a h]

theorem set_enabled (ls : List LState) (i : Nat) (l : LState) (flt' : Flt) (hl : ls[i]? = some l)
    (he : flt'.enabled = l.flt.enabled) :
    enabledFlags (ls.set i { l with flt := flt' }) = enabledFlags ls := by
  unfold enabledFlags
  rw [List.map_set]
  simp only [he]
  have hget : (ls.map fun x => x.flt.enabled)[i]? = some l.flt.enabled := by
    rw [List.getElem?_map, hl]; rfl
  exact set_same _ i _ hget

theorem insync_iff (l : LState) : insync l ↔ InSync l := Iff.rfl

/-- `BInv` is kept by every event. -/
theorem stepB_inv (s : BState) (op : BOp) (h : BInv s) : BInv (stepB s op) := by
  obtain ⟨hp, hs⟩ := h
  cases op with
  | refresh rq ins =>
    simp only [stepB, refreshB]
    refine ⟨?_, ?_⟩
    · intro snap hsn
      rw [refreshStep_enabled]; exact hp snap hsn
    · intro hn
      exact refreshStep_insync rq s.ls ins (hs hn)
  | enqueue =>
    simp only [stepB, enqueue]
    exact ⟨fun snap hsn => (by simp only [Option.some.injEq] at hsn; exact hsn.symm), fun hn => (by cases hn)⟩
  | remove i =>
    simp only [stepB, removeAsync]
    cases hl : s.ls[i]? with
    | none => simp only; exact ⟨hp, hs⟩
    | some l =>
      simp only
      exact ⟨fun snap hsn => (by simp only [Option.some.injEq] at hsn; exact hsn.symm), fun hn => (by cases hn)⟩
  | loop =>
    simp only [stepB, drain]
    cases hpe : s.pending with
    | none => simp only; exact ⟨fun snap hsn => (by rw [hpe] at hsn; cases hsn), fun _ => hs hpe⟩
    | some snap =>
      simp only
      refine ⟨fun sn hsn => (by cases hsn), fun _ => ?_⟩
      rw [hp snap hpe]
      exact applySnap_insync s.ls
  | setURL i rq f =>
    simp only [stepB, setURLAsync]
    cases hl : s.ls[i]? with
    | none => simp only; exact ⟨hp, hs⟩
    | some l =>
      simp only
      cases hres : (setProps l.flt rq f).res with
      | ok r =>
        cases r with
        | true => simp only; exact ⟨fun snap hsn => (by simp only [Option.some.injEq] at hsn; exact hsn.symm), fun hn => (by cases hn)⟩
        | false =>
          simp only
          obtain ⟨he, hfl⟩ := setProps_no_restart l.flt rq f (by rw [hres]; intro hh; cases hh)
          refine ⟨?_, ?_⟩
          · intro snap hsn; rw [set_enabled s.ls i l _ hl he]; exact hp snap hsn
          · intro hn l' hl'
            rcases List.mem_or_eq_of_mem_set hl' with hm | rfl
            · exact hs hn l' hm
            · have := hs hn l (List.mem_of_getElem? hl)
              unfold InSync at this ⊢
              simp only [he, hfl]; exact this
      | err =>
        simp only
        obtain ⟨he, hfl⟩ := setProps_no_restart l.flt rq f (by rw [hres]; intro hh; cases hh)
        refine ⟨?_, ?_⟩
        · intro snap hsn; rw [set_enabled s.ls i l _ hl he]; exact hp snap hsn
        · intro hn l' hl'
          rcases List.mem_or_eq_of_mem_set hl' with hm | rfl
          · exact hs hn l' hm
          · have := hs hn l (List.mem_of_getElem? hl)
            unfold InSync at this ⊢
            simp only [he, hfl]; exact this

end AGH.C15
