/-
C17 helper lemmas about `pathMatchesAny`, `download` and `validateFilterURL`.
-/
import AGH.Lemmas.SafeFSMatch
namespace AGH.C17
open AGH AGH.Bytes

theorem matchAny_true : ∀ (gs : List Bytes) (p : Bytes), matchAny gs p = .ok true →
    ∃ g ∈ gs, goMatch g p = .ok true := by
  intro gs
  induction gs with
  | nil => intro p h; simp [matchAny] at h
  | cons g gs ih =>
    intro p h
    unfold matchAny at h
    cases hg : goMatch g p with
    | error e => rw [hg] at h; cases h
    | ok b =>
      rw [hg] at h
      cases b with
      | true => exact ⟨g, by simp, hg⟩
      | false =>
        obtain ⟨g', hm, hg'⟩ := ih p h
        exact ⟨g', by simp [hm], hg'⟩

theorem pathMatchesAny_true {pats : List Bytes} {p : Bytes} (h : pathMatchesAny pats p = .ok true) :
    pats ≠ [] ∧ ∃ g ∈ pats, globMatches g p = true := by
  unfold pathMatchesAny at h
  by_cases h0 : pats = []
  · rw [if_pos h0] at h; cases h
  · rw [if_neg h0] at h
    split at h
    · cases h
    · obtain ⟨g, hm, hg⟩ := matchAny_true _ _ h
      exact ⟨h0, g, hm, goMatch_sound hg⟩

theorem opens_spec {pats : List Bytes} {loc p : Bytes} (h : opens pats loc = some p) :
    isAbs loc = true ∧ p = pathClean loc ∧ pats ≠ [] ∧ ∃ g ∈ pats, globMatches g p = true := by
  unfold opens reader at h
  by_cases ha : isAbs loc = true
  · simp only [ha, Bool.not_true, Bool.false_eq_true, if_false] at h
    cases hm : pathMatchesAny pats (pathClean loc) with
    | error e => rw [hm] at h; cases h
    | ok b =>
      rw [hm] at h
      cases b with
      | false => cases h
      | true =>
        simp only [Option.some.injEq] at h
        subst h
        obtain ⟨h0, hg⟩ := pathMatchesAny_true hm
        exact ⟨ha, rfl, h0, hg⟩
  · simp [ha] at h

theorem download_file {e : Env} {p : Bytes} (h : download e = .ok (some (.file p))) :
    opens e.pats e.loc = some p ∧ e.kind = .file := by
  unfold download at h
  unfold opens
  cases hr : reader e.pats e.loc with
  | http => rw [hr] at h; simp only at h; split at h <;> simp at h
  | noMatch => rw [hr] at h; simp at h
  | panic q => rw [hr] at h; simp at h
  | opened q =>
    rw [hr] at h
    simp only at h
    by_cases hk : e.kind = .file
    · rw [if_pos hk] at h
      simp only [Except.ok.injEq, Option.some.injEq, Src.file.injEq] at h
      subst h
      exact ⟨rfl, hk⟩
    · rw [if_neg hk] at h; simp at h

theorem validate_ok_abs {pats : List Bytes} {loc : Bytes} {kind : Kind} {urlOK : Bool}
    (hv : validateFilterURL pats loc kind urlOK = .ok) (ha : isAbs loc = true) :
    matchesSome pats (pathClean loc) = true := by
  unfold validateFilterURL at hv
  simp only [ha, if_true] at hv
  split at hv
  · cases hv
  · cases hm : pathMatchesAny pats (pathClean loc) with
    | error q => rw [hm] at hv; cases hv
    | ok b =>
      rw [hm] at hv
      cases b with
      | false => cases hv
      | true =>
        obtain ⟨_, g, hg, hgm⟩ := pathMatchesAny_true hm
        simp only [matchesSome, List.any_eq_true]
        exact ⟨g, hg, hgm⟩

end AGH.C17
