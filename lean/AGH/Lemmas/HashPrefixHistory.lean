/-
C19: histories of checks / clock advances / database changes sharing one
cache, the environment assumptions on them, and the shape of the question.
-/
import AGH.Lemmas.HashPrefixNames
import AGH.Lemmas.HashPrefixCache
namespace AGH.C19
open AGH AGH.Bytes

/-! ### shape of the question -/

theorem hexBytes_two (x y : Nat) :
    hexBytes [x, y] = [hexNib ((x / 16) % 16), hexNib (x % 16), hexNib ((y / 16) % 16), hexNib (y % 16)] := rfl

theorem questionShape_of_prefixes (allowed : List Bytes) (suffix : Bytes) :
    ∀ (ps : List Prefix) (fuel : Nat), 5 * ps.length ≤ fuel →
      (∀ p ∈ ps, p.length = 2 ∧ hexBytes p ∈ allowed) →
      questionShape allowed suffix fuel (questionOfPrefixes suffix ps) = true
  | [], fuel, _, _ => by
    cases fuel <;> simp [questionShape, questionOfPrefixes]
  | p :: ps, fuel, hf, hp => by
    obtain ⟨hl, hmem⟩ := hp p (by simp)
    match p, hl, hmem with
    | [x, y], _, hmem =>
      match fuel, hf with
      | f + 1, hf =>
        have ih := questionShape_of_prefixes allowed suffix ps f (by simp at hf; omega)
          (fun p' hp' => hp p' (List.mem_cons_of_mem _ hp'))
        rw [hexBytes_two] at hmem
        simp only [questionOfPrefixes, hexBytes_two, List.cons_append, List.nil_append, questionShape]
        simp [ih, hmem]

theorem questionOfPrefixes_length (suffix : Bytes) : ∀ ps : List Prefix, (∀ p ∈ ps, p.length = 2) →
    5 * ps.length ≤ (questionOfPrefixes suffix ps).length
  | [], _ => by simp
  | p :: ps, hp => by
    have ih := questionOfPrefixes_length suffix ps (fun p' hp' => hp p' (List.mem_cons_of_mem _ hp'))
    have hl := hp p (by simp)
    match p, hl with
    | [x, y], _ =>
      simp only [questionOfPrefixes, hexBytes_two, List.cons_append, List.nil_append, List.length_cons]
      omega

theorem prefix2_length {h : Hash} (hl : h.length = 32) : (prefix2 h).length = 2 := by
  simp [prefix2, hl]

/-! ### histories -/

/-- One check: the name, the oracle values for it, and the environment's
behaviour (upstream failure, the answer to a question, map iteration order). -/
structure CheckOp where
  host : Bytes
  ps : Bytes
  icann : Bool
  H : Bytes → Hash
  err : Bool
  answer : Bytes → List RR
  ord : List Hash → List (Prefix × List Hash)

inductive Op where
  | check (o : CheckOp)
  | advance (d : Nat)
  | setDb (db : List Hash)

structure World where
  cache : Cache
  now : Nat
  db : List Hash

def CheckOp.exchange (o : CheckOp) : Bytes → Option (List RR) :=
  fun q => if o.err then none else some (o.answer q)

def CheckOp.hashes (o : CheckOp) : List Hash := hostnameToHashes o.H o.ps o.icann o.host

def CheckOp.input (o : CheckOp) (cf : Conf) (w : World) : CheckIn :=
  ⟨cf.suffix, w.db, o.host, o.ps, o.icann, o.H, o.err⟩

def doCheck (cf : Conf) (w : World) (o : CheckOp) : Outcome × World :=
  let r := check cf w.now o.hashes o.exchange o.ord w.cache
  (r.1, { w with cache := r.2 })

def step (cf : Conf) (w : World) : Op → World
  | .check o => (doCheck cf w o).2
  | .advance d => { w with now := w.now + d }
  | .setDb db => { w with db := db }

/-- Environment assumptions for one operation in world `w`. -/
def OpOK (cf : Conf) (w : World) : Op → Prop
  | .check o =>
    -- the public-suffix oracle is sane, hashes are 32 bytes long
    psOK o.ps o.icann o.host = true ∧ (∀ s, (o.H s).length = 32) ∧
    -- the service answers the question actually asked completely and only for
    -- the prefixes asked; the map iteration order is a real one
    (∀ toReq, (findInCache w.now o.hashes w.cache).1 = .ask toReq →
      Honest w.db toReq (receivedHashes (o.answer (getQuestion cf.suffix toReq))) ∧
      validGroups (receivedHashes (o.answer (getQuestion cf.suffix toReq)))
        (o.ord (receivedHashes (o.answer (getQuestion cf.suffix toReq)))) = true)
  | .advance _ => True
  | .setDb db' =>
    -- the database does not change for a prefix while a cache item for it is live
    ∀ it ∈ w.cache.lru, expired w.now it = false → ∀ x, prefix2 x = it.key → (x ∈ db' ↔ x ∈ w.db)

/-- The assumptions hold along the whole history. -/
def Valid (cf : Conf) : World → List Op → Prop
  | _, [] => True
  | w, op :: ops => OpOK cf w op ∧ Valid cf (step cf w op) ops

/-- `P` holds for every check of the history (world before it, outcome). -/
def ForallChecks (cf : Conf) (P : World → CheckOp → Outcome → Prop) : World → List Op → Prop
  | _, [] => True
  | w, op :: ops =>
    (match op with | .check o => P w o (doCheck cf w o).1 | _ => True) ∧
    ForallChecks cf P (step cf w op) ops

/-- The fresh verdict in the spec's vocabulary. -/
theorem any_hashes_eq_fresh (o : CheckOp) (db : List Hash) (hps : psOK o.ps o.icann o.host = true) :
    o.hashes.any (fun h => db.contains h) = freshVerdict o.H db o.ps o.icann o.host := by
  rw [Bool.eq_iff_iff]
  simp only [CheckOp.hashes, hostnameToHashes, freshVerdict, List.any_eq_true, List.mem_map,
    List.contains_iff_mem]
  constructor
  · rintro ⟨y, ⟨s, hs, rfl⟩, hy⟩
    exact ⟨s, (mem_hashedNames hps s).mp hs, hy⟩
  · rintro ⟨s, hs, hy⟩
    exact ⟨_, ⟨s, (mem_hashedNames hps s).mpr hs, rfl⟩, hy⟩

theorem expired_mono {now d : Nat} {it : Item} (h : expired (now + d) it = false) : expired now it = false := by
  simp only [expired, decide_eq_false_iff_not] at h ⊢
  omega

theorem inv_step {cf : Conf} {w : World} {op : Op} (hinv : Inv w.db w.now w.cache) (hok : OpOK cf w op) :
    Inv (step cf w op).db (step cf w op).now (step cf w op).cache := by
  cases op with
  | check o =>
    obtain ⟨_, _, henv⟩ := hok
    have := (check_sound w.db cf w.now o.hashes o.exchange o.ord w.cache hinv (by
      intro toReq answer hask hex
      simp only [CheckOp.exchange] at hex
      split at hex
      · cases hex
      · cases hex; exact henv toReq hask)).1
    exact this
  | advance d =>
    intro it hit hexp
    exact hinv it hit (expired_mono hexp)
  | setDb db' =>
    intro it hit hexp x
    have hc := hinv it hit hexp x
    have := hok it hit hexp x
    simp only [step] at *
    constructor
    · intro hx
      have h1 := hc.mp hx
      exact ⟨(this h1.2).mpr h1.1, h1.2⟩
    · rintro ⟨h1, h2⟩
      exact hc.mpr ⟨(this h2).mp h1, h2⟩

/-- A property of single checks that follows from the invariant holds along
every valid history. -/
theorem forallChecks_of_inv {cf : Conf} {P : World → CheckOp → Outcome → Prop}
    (hP : ∀ w o, Inv w.db w.now w.cache → OpOK cf w (.check o) → P w o (doCheck cf w o).1) :
    ∀ (ops : List Op) (w : World), Inv w.db w.now w.cache → Valid cf w ops → ForallChecks cf P w ops
  | [], _, _, _ => trivial
  | op :: ops, w, hinv, hv => by
    refine ⟨?_, forallChecks_of_inv hP ops _ (inv_step hinv hv.1) hv.2⟩
    cases op with
    | check o => exact hP w o hinv hv.1
    | advance d => trivial
    | setDb db => trivial

theorem inv_empty (db : List Hash) (now size : Nat) : Inv db now (Cache.new size) := by
  intro it hit; simp [Cache.new] at hit

end AGH.C19
