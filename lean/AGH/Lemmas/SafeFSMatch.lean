/-
C17 helper lemmas: Go's `filepath.Match` (model `goMatch`) is SOUND with
respect to the declarative pattern semantics (`parseGlob` + `matchesT`).
-/
import AGH.Lemmas.SafeFSParse
namespace AGH.C17
open AGH AGH.Bytes

/-! ### getEsc is the spec's classChar -/

theorem getEsc_cons (c : Nat) (cs : Bytes) :
    getEsc (c :: cs) =
      if c = dash ∨ c = cRBr then .error .badPattern
      else if (if c = cBsl then cs else c :: cs) = [] then .error .badPattern
      else if (decodeRune (if c = cBsl then cs else c :: cs)).1 = runeError ∧
              (decodeRune (if c = cBsl then cs else c :: cs)).2 = 1 then .error .badPattern
      else if (if c = cBsl then cs else c :: cs).drop (decodeRune (if c = cBsl then cs else c :: cs)).2 = []
        then .error .badPattern
      else .ok ((decodeRune (if c = cBsl then cs else c :: cs)).1,
                (if c = cBsl then cs else c :: cs).drop (decodeRune (if c = cBsl then cs else c :: cs)).2) := rfl

theorem getEsc_classChar {chunk : Bytes} {x : Nat × Bytes} (h : getEsc chunk = .ok x) :
    classChar chunk = some x := by
  cases chunk with
  | nil => simp [getEsc] at h
  | cons c cs =>
    rw [classChar_cons]
    rw [getEsc_cons] at h
    by_cases h1 : c = dash ∨ c = cRBr
    · rw [if_pos h1] at h; cases h
    rw [if_neg h1] at h
    by_cases h2 : (if c = cBsl then cs else c :: cs) = []
    · rw [if_pos h2] at h; cases h
    rw [if_neg h2] at h
    by_cases h3 : (decodeRune (if c = cBsl then cs else c :: cs)).1 = runeError ∧
              (decodeRune (if c = cBsl then cs else c :: cs)).2 = 1
    · rw [if_pos h3] at h; cases h
    rw [if_neg h3] at h
    by_cases h4 : (if c = cBsl then cs else c :: cs).drop (decodeRune (if c = cBsl then cs else c :: cs)).2 = []
    · rw [if_pos h4] at h; cases h
    rw [if_neg h4] at h
    simp only [not_or] at h1
    rw [if_neg (by simp only [not_or]; exact ⟨h1.1, h1.2, h2, h3, h4⟩)]
    cases h; rfl

/-! ### classLoop computes membership in the parsed ranges -/

theorem inRanges_cons (r lo hi : Nat) (acc : List (Nat × Nat)) :
    inRanges r ((lo, hi) :: acc) = ((decide (lo ≤ r) && decide (r ≤ hi)) || inRanges r acc) := by
  simp [inRanges]

theorem inRanges_reverse (r : Nat) (acc : List (Nat × Nat)) :
    inRanges r acc.reverse = inRanges r acc := by
  simp [inRanges]

theorem classLoop_parse : ∀ (f : Nat) (chunk : Bytes) (r : Nat) (acc : List (Nat × Nat)) (m : Bool) (rest : Bytes),
    classLoop f chunk r acc.length (inRanges r acc) = .ok (m, rest) →
    ∃ rs, parseRanges f chunk acc = some (rs, rest) ∧ m = inRanges r rs := by
  intro f
  induction f with
  | zero => intro chunk r acc m rest h; simp [classLoop] at h
  | succ f ih =>
    intro chunk r acc m rest h
    rw [parseRanges_succ]
    unfold classLoop at h
    split at h
    · rename_i hc
      simp only [Except.ok.injEq, Prod.mk.injEq] at h
      have hacc : acc ≠ [] := by
        intro h0; subst h0; simp at hc
      rw [if_pos ⟨hc.1, hacc⟩]
      exact ⟨acc.reverse, by rw [h.2], by rw [inRanges_reverse, h.1]⟩
    · rename_i hc
      have hc' : ¬ (chunk.head? = some cRBr ∧ acc ≠ []) := by
        intro hh; apply hc; refine ⟨hh.1, ?_⟩
        exact List.length_pos_iff.mpr hh.2
      rw [if_neg hc']
      cases hg : getEsc chunk with
      | error e => rw [hg] at h; simp at h
      | ok p =>
        obtain ⟨lo, chunk1⟩ := p
        rw [hg] at h
        rw [getEsc_classChar hg]
        simp only at h ⊢
        split at h
        · rename_i hd
          rw [if_pos hd]
          cases hg2 : getEsc chunk1.tail with
          | error e => rw [hg2] at h; simp at h
          | ok q =>
            obtain ⟨hi, chunk2⟩ := q
            rw [hg2] at h
            rw [getEsc_classChar hg2]
            simp only at h ⊢
            have := ih chunk2 r ((lo, hi) :: acc) m rest (by
              rw [inRanges_cons, List.length_cons, Bool.or_comm]; exact h)
            exact this
        · rename_i hd
          rw [if_neg hd]
          have := ih chunk1 r ((lo, lo) :: acc) m rest (by
            rw [inRanges_cons, List.length_cons, Bool.or_comm]; exact h)
          exact this

/-! ### matchesT helpers -/

theorem matchesT_star (ts : List Term) (n : Bytes) :
    matchesT (.star :: ts) n = true ↔
      ∃ k, k ≤ n.length ∧ (n.take k).contains slash = false ∧ matchesT ts (n.drop k) = true := by
  simp only [matchesT, List.any_eq_true, List.mem_range, Bool.and_eq_true, Bool.not_eq_true']
  constructor
  · rintro ⟨k, hk, h1, h2⟩; exact ⟨k, by omega, h1, h2⟩
  · rintro ⟨k, hk, h1, h2⟩; exact ⟨k, by omega, h1, h2⟩

theorem matchesT_star_zero (ts : List Term) (n : Bytes) (h : matchesT ts n = true) :
    matchesT (.star :: ts) n = true :=
  (matchesT_star ts n).mpr ⟨0, by omega, by simp, by simpa using h⟩

theorem matchesT_stars_zero (k : Nat) (ts : List Term) (n : Bytes) (h : matchesT ts n = true) :
    matchesT (List.replicate k .star ++ ts) n = true := by
  induction k with
  | zero => simpa using h
  | succ k ih => rw [List.replicate_succ, List.cons_append]; exact matchesT_star_zero _ _ ih

theorem matchesT_stars_split (k : Nat) (hk : 0 < k) (ts : List Term) (pre suf : Bytes)
    (hpre : pre.contains slash = false) (h : matchesT ts suf = true) :
    matchesT (List.replicate k .star ++ ts) (pre ++ suf) = true := by
  obtain ⟨k, rfl⟩ : ∃ k', k = k' + 1 := ⟨k - 1, by omega⟩
  rw [List.replicate_succ, List.cons_append]
  refine (matchesT_star _ _).mpr ⟨pre.length, by simp, ?_, ?_⟩
  · simpa using hpre
  · simp only [List.drop_left']
    exact matchesT_stars_zero k ts suf h

/-! ### One chunk -/

theorem matchChunkF_cons (f : Nat) (c : Nat) (cs s : Bytes) (failed0 : Bool) :
    matchChunkF (f + 1) (c :: cs) s failed0 =
      if c = cLBr then
        match classLoop f (if (cs.head? == some cCaret) = true then cs.tail else cs)
            (if (failed0 || s.isEmpty) = true then 0 else (decodeRune s).1) 0 false with
        | .error e => .error e
        | .ok (m, chunk2) =>
          matchChunkF f chunk2 (if (failed0 || s.isEmpty) = true then s else s.drop (decodeRune s).2)
            ((failed0 || s.isEmpty) || (m == (cs.head? == some cCaret)))
      else if c = cQuest then
        if (failed0 || s.isEmpty) = true then matchChunkF f cs s true
        else matchChunkF f cs (s.drop (decodeRune s).2) (s.head? == some slash)
      else if c = cBsl then
        match cs with
        | [] => .error .badPattern
        | d :: ds =>
          if (failed0 || s.isEmpty) = true then matchChunkF f ds s true
          else matchChunkF f ds s.tail (s.head? != some d)
      else
        if (failed0 || s.isEmpty) = true then matchChunkF f cs s true
        else matchChunkF f cs s.tail (s.head? != some c) := rfl

theorem parseGlobF_succ_mono {f : Nat} {p : Bytes} {t : List Term} (h : parseGlobF f p = some t) :
    ∃ g, p.length + 1 ≤ g ∧ ∀ k, g ≤ k → parseGlobF k p = some t :=
  ⟨p.length + 1, Nat.le_refl _, fun k hk => parseGlobF_suff f p t h k hk⟩

/-- A successful chunk match: the chunk is a complete well-formed piece of
pattern and its terms match exactly the consumed part of `s`. -/
theorem matchChunkF_sound : ∀ (f : Nat) (chunk s : Bytes) (failed : Bool) (t : Bytes),
    matchChunkF f chunk s failed = .ok (some t) →
    failed = false ∧ ∃ ts, parseGlob chunk = some ts ∧
      ∀ tail, matchesT tail t = true → matchesT (ts ++ tail) s = true := by
  intro f
  induction f with
  | zero => intro chunk s failed t h; simp [matchChunkF] at h
  | succ f ih =>
    intro chunk s failed t h
    cases chunk with
    | nil =>
      simp only [matchChunkF] at h
      cases failed with
      | true => simp at h
      | false =>
        simp at h
        subst h
        exact ⟨rfl, [], by simp [parseGlob, parseGlobF], fun tail ht => by simpa using ht⟩
    | cons c cs =>
      rw [matchChunkF_cons] at h
      by_cases h1 : c = cLBr
      · rw [if_pos h1] at h
        cases hcl : classLoop f (if (cs.head? == some cCaret) = true then cs.tail else cs)
            (if (failed || s.isEmpty) = true then 0 else (decodeRune s).1) 0 false with
        | error e => rw [hcl] at h; cases h
        | ok q =>
          obtain ⟨m, chunk2⟩ := q
          rw [hcl] at h
          simp only at h
          obtain ⟨hf, ts2, hp2, hm2⟩ := ih _ _ _ _ h
          simp only [Bool.or_eq_false_iff] at hf
          obtain ⟨⟨hf0, hse⟩, hmn⟩ := hf
          refine ⟨hf0, ?_⟩
          have hfe : (failed || s.isEmpty) = false := by simp [hf0, hse]
          rw [hfe] at hcl h
          simp only [Bool.false_eq_true, if_false] at hcl h
          simp only [hfe, Bool.false_eq_true, if_false] at hm2
          obtain ⟨rs, hpr, hmr⟩ := classLoop_parse f (if (cs.head? == some cCaret) = true then cs.tail else cs)
            (decodeRune s).1 [] m chunk2 hcl
          refine ⟨Term.cls (cs.head? == some cCaret) rs :: ts2, ?_, ?_⟩
          · apply parseGlob_of_fuel (f := chunk2.length + 2)
            rw [parseGlobF_cons, if_neg (by rw [h1]; decide), if_neg (by rw [h1]; decide),
              if_neg (by rw [h1]; decide), if_pos h1]
            rw [parseRanges_suff _ _ _ _ hpr _ (Nat.le_refl _)]
            simp only
            rw [show parseGlobF (chunk2.length + 1) chunk2 = some ts2 from hp2]
            rfl
          · intro tail ht
            have := hm2 tail ht
            cases s with
            | nil => simp at hse
            | cons a s' =>
              simp only [List.cons_append, matchesT, Bool.and_eq_true, bne_iff_ne, ne_eq]
              refine ⟨?_, this⟩
              rw [← hmr]
              intro heq
              rw [heq] at hmn
              simp at hmn
      · rw [if_neg h1] at h
        by_cases h2 : c = cQuest
        · rw [if_pos h2] at h
          by_cases hfe : (failed || s.isEmpty) = true
          · rw [if_pos hfe] at h
            have := (ih _ _ _ _ h).1
            cases this
          · rw [if_neg hfe] at h
            obtain ⟨hf, ts2, hp2, hm2⟩ := ih _ _ _ _ h
            simp only [Bool.not_eq_true, Bool.or_eq_false_iff] at hfe
            refine ⟨hfe.1, Term.any :: ts2, ?_, ?_⟩
            · apply parseGlob_of_fuel (f := cs.length + 2)
              rw [parseGlobF_cons, if_neg (by rw [h2]; decide), if_pos h2]
              rw [show parseGlobF (cs.length + 1) cs = some ts2 from hp2]
              rfl
            · intro tail ht
              have := hm2 tail ht
              cases s with
              | nil => simp at hfe
              | cons a s' =>
                simp only [List.cons_append, matchesT, Bool.and_eq_true, bne_iff_ne, ne_eq]
                refine ⟨?_, this⟩
                intro ha
                simp [ha] at hf
        · rw [if_neg h2] at h
          by_cases h3 : c = cBsl
          · rw [if_pos h3] at h
            cases cs with
            | nil => cases h
            | cons d ds =>
              simp only at h
              by_cases hfe : (failed || s.isEmpty) = true
              · rw [if_pos hfe] at h
                have := (ih _ _ _ _ h).1
                cases this
              · rw [if_neg hfe] at h
                obtain ⟨hf, ts2, hp2, hm2⟩ := ih _ _ _ _ h
                simp only [Bool.not_eq_true, Bool.or_eq_false_iff] at hfe
                refine ⟨hfe.1, Term.lit d :: ts2, ?_, ?_⟩
                · apply parseGlob_of_fuel (f := ds.length + 2)
                  rw [parseGlobF_cons, if_neg (by rw [h3]; decide), if_neg (by rw [h3]; decide), if_pos h3]
                  simp only
                  rw [show parseGlobF (ds.length + 1) ds = some ts2 from hp2]
                  rfl
                · intro tail ht
                  have := hm2 tail ht
                  cases s with
                  | nil => simp at hfe
                  | cons a s' =>
                    simp only [List.head?_cons, bne_eq_false_iff_eq, Option.some.injEq] at hf
                    simp only [List.cons_append, matchesT, Bool.and_eq_true, beq_iff_eq]
                    exact ⟨hf, this⟩
          · rw [if_neg h3] at h
            by_cases hfe : (failed || s.isEmpty) = true
            · rw [if_pos hfe] at h
              have := (ih _ _ _ _ h).1
              cases this
            · rw [if_neg hfe] at h
              obtain ⟨hf, ts2, hp2, hm2⟩ := ih _ _ _ _ h
              simp only [Bool.not_eq_true, Bool.or_eq_false_iff] at hfe
              refine ⟨hfe.1, ?_⟩
              cases s with
              | nil => simp at hfe
              | cons a s' =>
                simp only [List.head?_cons, bne_eq_false_iff_eq, Option.some.injEq] at hf
                by_cases h4 : c = cStar
                · -- a `*` the scanner left inside the chunk is compared literally;
                  -- the declarative star matches that one byte as well
                  refine ⟨Term.star :: ts2, ?_, ?_⟩
                  · apply parseGlob_of_fuel (f := cs.length + 2)
                    rw [parseGlobF_cons, if_pos h4]
                    rw [show parseGlobF (cs.length + 1) cs = some ts2 from hp2]
                    rfl
                  · intro tail ht
                    have := hm2 tail ht
                    rw [List.cons_append]
                    refine (matchesT_star _ _).mpr ⟨1, by simp, ?_, by simpa using this⟩
                    simp only [List.take_succ_cons, List.take_zero, List.contains_cons, List.contains_nil,
                      Bool.or_false, beq_eq_false_iff_ne, ne_eq]
                    rw [hf, h4]; decide
                · refine ⟨Term.lit c :: ts2, ?_, ?_⟩
                  · apply parseGlob_of_fuel (f := cs.length + 2)
                    rw [parseGlobF_cons, if_neg h4, if_neg h2, if_neg h3, if_neg h1]
                    rw [show parseGlobF (cs.length + 1) cs = some ts2 from hp2]
                    rfl
                  · intro tail ht
                    have := hm2 tail ht
                    simp only [List.cons_append, matchesT, Bool.and_eq_true, beq_iff_eq]
                    exact ⟨hf, this⟩

/-! ### The pattern loop -/

theorem dropStars_spec : ∀ p : Bytes, ∃ k, p = List.replicate k cStar ++ (dropStars p).2 ∧
    ((dropStars p).1 = true ↔ 0 < k) ∧ (dropStars p).2.head? ≠ some cStar := by
  intro p
  induction p with
  | nil => exact ⟨0, by simp [dropStars], by simp [dropStars], by simp [dropStars]⟩
  | cons c cs ih =>
    by_cases hc : c = cStar
    · obtain ⟨k, h1, _, h3⟩ := ih
      refine ⟨k + 1, ?_, ?_, ?_⟩
      · simp only [dropStars, if_pos hc, List.replicate_succ, List.cons_append]
        rw [← h1, hc]
      · simp [dropStars, if_pos hc]
      · simpa [dropStars, if_pos hc] using h3
    · refine ⟨0, by simp [dropStars, if_neg hc], by simp [dropStars, if_neg hc], ?_⟩
      simp [dropStars, hc]

theorem scanSplit_append : ∀ (n : Nat) (p : Bytes) (inr : Bool), p.length ≤ n →
    (scanSplit p inr).1 ++ (scanSplit p inr).2 = p := by
  intro n
  induction n with
  | zero =>
    intro p inr h
    have : p = [] := List.length_eq_zero_iff.mp (by omega)
    subst this; simp [scanSplit]
  | succ n ih =>
    intro p inr h
    cases p with
    | nil => simp [scanSplit]
    | cons c rest =>
      simp only [List.length_cons] at h
      unfold scanSplit
      by_cases h1 : c = cBsl
      · rw [if_pos h1]
        cases rest with
        | nil => simp
        | cons d rest' =>
          simp only [List.length_cons] at h
          simp only [List.cons_append]
          rw [ih rest' inr (by omega)]
      · rw [if_neg h1]
        by_cases h2 : c = cLBr
        · rw [if_pos h2]; simp only [List.cons_append]; rw [ih rest true (by omega)]
        · rw [if_neg h2]
          by_cases h3 : c = cRBr
          · rw [if_pos h3]; simp only [List.cons_append]; rw [ih rest false (by omega)]
          · rw [if_neg h3]
            by_cases h4 : c = cStar ∧ inr = false
            · rw [if_pos h4]; simp
            · rw [if_neg h4]; simp only [List.cons_append]; rw [ih rest inr (by omega)]

theorem scanSplit_nil {p : Bytes} (hp : p.head? ≠ some cStar) (h : (scanSplit p false).1 = []) : p = [] := by
  cases p with
  | nil => rfl
  | cons c rest =>
    exfalso
    have hc : c ≠ cStar := by simpa using hp
    unfold scanSplit at h
    by_cases h1 : c = cBsl
    · rw [if_pos h1] at h
      cases rest with
      | nil => simp at h
      | cons d rest' => simp at h
    · rw [if_neg h1] at h
      by_cases h2 : c = cLBr
      · rw [if_pos h2] at h; simp at h
      · rw [if_neg h2] at h
        by_cases h3 : c = cRBr
        · rw [if_pos h3] at h; simp at h
        · rw [if_neg h3] at h
          rw [if_neg (by intro hh; exact hc hh.1)] at h
          simp at h

theorem parseGlobF_stars (k : Nat) : ∀ (g : Nat) (p : Bytes) (t : List Term), parseGlobF g p = some t →
    parseGlobF (g + k) (List.replicate k cStar ++ p) = some (List.replicate k Term.star ++ t) := by
  induction k with
  | zero => intro g p t h; simpa using h
  | succ k ih =>
    intro g p t h
    rw [List.replicate_succ, List.cons_append, ← Nat.add_assoc, parseGlobF_cons, if_pos rfl, ih g p t h]
    rfl

theorem starLoop_spec (chunk : Bytes) (last : Bool) : ∀ (name t : Bytes),
    starLoop chunk last name = .ok (some t) →
    ∃ pre suf, name = pre ++ suf ∧ pre.contains slash = false ∧ pre ≠ [] ∧
      matchChunk chunk suf = .ok (some t) := by
  intro name
  induction name with
  | nil => intro t h; simp [starLoop] at h
  | cons c tl ih =>
    intro t h
    unfold starLoop at h
    by_cases hc : c = slash
    · rw [if_pos hc] at h; cases h
    · rw [if_neg hc] at h
      have step : ∀ {t'}, starLoop chunk last tl = .ok (some t') →
          ∃ pre suf, c :: tl = pre ++ suf ∧ pre.contains slash = false ∧ pre ≠ [] ∧
            matchChunk chunk suf = .ok (some t') := by
        intro t' h'
        obtain ⟨pre, suf, h1, h2, _, h4⟩ := ih t' h'
        refine ⟨c :: pre, suf, by rw [h1]; rfl, ?_, by simp, h4⟩
        simp only [List.contains_cons, Bool.or_eq_false_iff, beq_eq_false_iff_ne, ne_eq]
        exact ⟨fun hh => hc hh.symm, h2⟩
      cases hm : matchChunk chunk tl with
      | error e => rw [hm] at h; cases h
      | ok r =>
        rw [hm] at h
        cases r with
        | none => exact step h
        | some t0 =>
          simp only at h
          by_cases hl : last = true ∧ t0 ≠ []
          · rw [if_pos hl] at h; exact step h
          · rw [if_neg hl] at h
            cases h
            refine ⟨[c], tl, rfl, ?_, by simp, hm⟩
            simp only [List.contains_cons, List.contains_nil, Bool.or_false, beq_eq_false_iff_ne, ne_eq]
            exact fun hh => hc hh.symm

theorem matchLoop_succ (f : Nat) (pattern name : Bytes) :
    matchLoop (f + 1) pattern name =
      if pattern = [] then .ok name.isEmpty
      else
        if (dropStars pattern).1 = true ∧ (scanSplit (dropStars pattern).2 false).1 = [] then
          .ok (!name.contains slash)
        else
          match matchChunk (scanSplit (dropStars pattern).2 false).1 name with
          | .error e => .error e
          | .ok r =>
            match (match r with
              | some t => if t = [] ∨ (scanSplit (dropStars pattern).2 false).2 ≠ [] then some t else none
              | none => none : Option Bytes) with
            | some t => matchLoop f (scanSplit (dropStars pattern).2 false).2 t
            | none =>
              if (dropStars pattern).1 = true then
                match starLoop (scanSplit (dropStars pattern).2 false).1
                    (decide ((scanSplit (dropStars pattern).2 false).2 = [])) name with
                | .error e => .error e
                | .ok (some t) => matchLoop f (scanSplit (dropStars pattern).2 false).2 t
                | .ok none => .ok false
              else .ok false := rfl

theorem matchChunk_sound {chunk s t : Bytes} (h : matchChunk chunk s = .ok (some t)) :
    ∃ ts, parseGlob chunk = some ts ∧ ∀ tail, matchesT tail t = true → matchesT (ts ++ tail) s = true :=
  (matchChunkF_sound _ _ _ _ _ h).2

/-- Assemble: stars, one chunk, the rest. -/
theorem assemble {pattern chunk rest : Bytes} {k : Nat} {tc tr : List Term}
    (hp : pattern = List.replicate k cStar ++ (chunk ++ rest))
    (hc : parseGlob chunk = some tc) (hr : parseGlob rest = some tr) :
    parseGlob pattern = some (List.replicate k Term.star ++ (tc ++ tr)) := by
  have h1 := parseGlobF_append rest tr _ hr _ chunk tc hc _ (Nat.le_refl _)
  have h2 := parseGlobF_stars k _ _ _ h1
  rw [← hp] at h2
  exact parseGlob_of_fuel h2

theorem matchLoop_sound : ∀ (f : Nat) (pattern name : Bytes), matchLoop f pattern name = .ok true →
    ∃ ts, parseGlob pattern = some ts ∧ matchesT ts name = true := by
  intro f
  induction f with
  | zero => intro pattern name h; simp [matchLoop] at h
  | succ f ih =>
    intro pattern name h
    rw [matchLoop_succ] at h
    by_cases hp : pattern = []
    · rw [if_pos hp] at h
      subst hp
      refine ⟨[], by simp [parseGlob, parseGlobF], ?_⟩
      simpa [matchesT] using h
    rw [if_neg hp] at h
    obtain ⟨k, hk1, hk2, hk3⟩ := dropStars_spec pattern
    have hsplit := scanSplit_append _ (dropStars pattern).2 false (Nat.le_refl _)
    generalize hchunk : (scanSplit (dropStars pattern).2 false).1 = chunk at h hsplit
    generalize hrest : (scanSplit (dropStars pattern).2 false).2 = rest at h hsplit
    have hpat : pattern = List.replicate k cStar ++ (chunk ++ rest) := by rw [hsplit]; exact hk1
    by_cases hA : (dropStars pattern).1 = true ∧ chunk = []
    · rw [if_pos hA] at h
      have hp1 : (dropStars pattern).2 = [] := scanSplit_nil hk3 (by rw [hchunk]; exact hA.2)
      have hkpos : 0 < k := hk2.mp hA.1
      have hcr : chunk ++ rest = [] := by rw [hsplit]; exact hp1
      have hnil : parseGlob ([] : Bytes) = some [] := by simp [parseGlob, parseGlobF]
      have hparse := assemble (pattern := pattern) (chunk := []) (rest := []) (k := k)
        (by rw [hpat, hcr]; rfl) hnil hnil
      refine ⟨_, hparse, ?_⟩
      have := matchesT_stars_split k hkpos ([] ++ []) name [] (by simpa using h) (by simp [matchesT])
      simpa using this
    rw [if_neg hA] at h
    cases hm : matchChunk chunk name with
    | error e => rw [hm] at h; cases h
    | ok r =>
      rw [hm] at h
      simp only at h
      -- common continuation: the chunk matched `suf` (rest of name `t`), skipped `pre`
      have finish : ∀ (pre suf t : Bytes), name = pre ++ suf → pre.contains slash = false →
          (pre ≠ [] → 0 < k) → matchChunk chunk suf = .ok (some t) → matchLoop f rest t = .ok true →
          ∃ ts, parseGlob pattern = some ts ∧ matchesT ts name = true := by
        intro pre suf t hn hpre hk hmc hml
        obtain ⟨tr, hpr, hmr⟩ := ih _ _ hml
        obtain ⟨tc, hpc, hmc'⟩ := matchChunk_sound hmc
        refine ⟨_, assemble hpat hpc hpr, ?_⟩
        have hbody := hmc' tr hmr
        rw [hn]
        cases pre with
        | nil => simpa using matchesT_stars_zero k _ _ hbody
        | cons a pre' => exact matchesT_stars_split k (hk (by simp)) _ _ _ hpre hbody
      have viaStar : (dropStars pattern).1 = true →
          (match starLoop chunk (decide (rest = [])) name with
            | .error e => .error e
            | .ok (some t) => matchLoop f rest t
            | .ok none => .ok false) = Except.ok true →
          ∃ ts, parseGlob pattern = some ts ∧ matchesT ts name = true := by
        intro hstar hs
        cases hsl : starLoop chunk (decide (rest = [])) name with
        | error e => rw [hsl] at hs; cases hs
        | ok o =>
          rw [hsl] at hs
          cases o with
          | none => cases hs
          | some t =>
            obtain ⟨pre, suf, h1, h2, _, h4⟩ := starLoop_spec _ _ _ _ hsl
            exact finish pre suf t h1 h2 (fun _ => hk2.mp hstar) h4 hs
      cases r with
      | none =>
        simp only at h
        by_cases hstar : (dropStars pattern).1 = true
        · rw [if_pos hstar] at h; exact viaStar hstar h
        · rw [if_neg hstar] at h; cases h
      | some t =>
        simp only at h
        by_cases hd : t = [] ∨ rest ≠ []
        · rw [if_pos hd] at h
          exact finish [] name t rfl rfl (fun hh => absurd rfl hh) hm h
        · rw [if_neg hd] at h
          simp only at h
          by_cases hstar : (dropStars pattern).1 = true
          · rw [if_pos hstar] at h; exact viaStar hstar h
          · rw [if_neg hstar] at h; cases h

/-- **Soundness of Go's matcher**: whatever `filepath.Match` accepts is a
well-formed pattern that matches the whole name in the declarative semantics. -/
theorem goMatch_sound {pat name : Bytes} (h : goMatch pat name = .ok true) :
    globMatches pat name = true := by
  obtain ⟨ts, hp, hm⟩ := matchLoop_sound _ _ _ h
  simp [globMatches, hp, hm]

end AGH.C17
