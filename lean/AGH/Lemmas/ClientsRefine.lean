/-
C04 lemmas, part 7: under the invariant the index answers every lookup exactly
as the abstract registry does (refinement), and the abstraction commutes with
the operations.  Core Lean only.
-/
import AGH.Lemmas.ClientsSpec
namespace AGH.C04
open AGH AGH.Bytes
open AGH.C03 (IP Prefix inCIDR)

/-- The storage implements the world: consistent index, same clients, same DHCP table. -/
structure Refines (s : Storage) (w : World) : Prop where
  inv : Inv s.index
  perm : s.index.clients.Perm w.reg
  dhcp : s.dhcp = w.dhcp

theorem Refines.empty : Refines Storage.empty World.empty :=
  ⟨Inv.empty, List.Perm.refl _, rfl⟩

/-! ### the invariant implies no sharing -/

theorem Inv.pairwise_disjoint {ci : Index} (h : Inv ci) : ci.clients.Pairwise DisjointP := by
  refine List.Pairwise.imp_of_mem ?_ h.uids
  intro a b ha hb hne
  refine ⟨hne, ?_⟩
  intro k hka hkb
  have key : ∀ {κ : Type} {m : FMap κ} {ids : Client → List κ}, MapInv m ci.clients ids →
      ∀ x, x ∈ ids a → x ∈ ids b → False := by
    intro κ m ids hm x hxa hxb
    have h1 := (hm x a.uid).mpr ⟨a, ha, rfl, hxa⟩
    have h2 := (hm x b.uid).mpr ⟨b, hb, rfl, hxb⟩
    rw [h1] at h2
    exact hne (Option.some.inj h2)
  cases k with
  | name n =>
    rw [mem_idents_name] at hka hkb
    exact key h.names n (by simp [hka]) (by simp [hkb])
  | cid x => rw [mem_idents_cid] at hka hkb; exact key h.cids x hka hkb
  | ip x => rw [mem_idents_ip] at hka hkb; exact key h.ips x hka hkb
  | subnet x => rw [mem_idents_subnet] at hka hkb; exact key h.subs x hka hkb
  | mac x => rw [mem_idents_mac] at hka hkb; exact key h.macs x hka hkb

theorem Refines.pd {s : Storage} {w : World} (h : Refines s w) : w.reg.Pairwise DisjointP :=
  (h.perm.pairwise_iff DisjointP.symm).mp h.inv.pairwise_disjoint

theorem Refines.noSharing {s : Storage} {w : World} (h : Refines s w) : noSharing w.reg = true :=
  noSharing_iff.mpr h.pd

theorem Refines.mem {s : Storage} {w : World} (h : Refines s w) {c : Client} :
    c ∈ s.index.clients ↔ c ∈ w.reg := h.perm.mem_iff

/-! ### lookups -/

def Look.opt : Look → Option Client
  | .found c => Option.some c
  | _ => Option.none

def gotOf : Option Client → Got
  | none => .none
  | some c => .client c

theorem Look.got_eq {l : Look} (h : l ≠ .dangling) : l.got = gotOf l.opt := by
  cases l <;> simp_all [Look.got, gotOf, Look.opt]

/-- A map lookup followed by `uidToClient[...]` is the owner of the identifier. -/
theorem look_owner {s : Storage} {w : World} (hr : Refines s w) {κ : Type} {m : FMap κ}
    {ids : Client → List κ} (hm : MapInv m s.index.clients ids) (mk : κ → Ident)
    (hmk : ∀ c k, mk k ∈ c.idents ↔ k ∈ ids c) (k : κ) :
    s.index.deref (m k) ≠ .dangling ∧ (s.index.deref (m k)).opt = owner w.reg (mk k) := by
  unfold Index.deref
  cases hk : m k with
  | none =>
    refine ⟨by simp, ?_⟩
    simp only [Look.opt]
    symm
    rw [owner_eq_none_iff]
    intro c hc hkc
    have := (hm k c.uid).mpr ⟨c, hr.mem.mpr hc, rfl, (hmk c k).mp hkc⟩
    rw [hk] at this; cases this
  | some u =>
    obtain ⟨c, hcl, hc, hcu, hkc⟩ := hm.client_isSome hr.inv.uids hk
    simp only [hcl]
    refine ⟨by simp, ?_⟩
    simp only [Look.opt]
    symm
    rw [owner_eq_some_iff hr.pd]
    exact ⟨hr.mem.mp hc, (hmk c k).mpr hkc⟩

theorem findByName_owner {s : Storage} {w : World} (hr : Refines s w) (n : Bytes) :
    s.index.findByName n ≠ .dangling ∧ (s.index.findByName n).opt = owner w.reg (.name n) := by
  unfold Index.findByName
  exact look_owner hr hr.inv.names Ident.name (by intro c k; simp) n

theorem findByClientID_owner {s : Storage} {w : World} (hr : Refines s w) (k : Bytes) :
    s.index.findByClientID k ≠ .dangling ∧ (s.index.findByClientID k).opt = owner w.reg (.cid k) := by
  unfold Index.findByClientID
  exact look_owner hr hr.inv.cids Ident.cid (by intro c k; simp) k

theorem findByMAC_owner {s : Storage} {w : World} (hr : Refines s w) {m : MAC} (hv : validMAC m = true) :
    ∃ l, s.index.findByMAC m = some l ∧ l ≠ .dangling ∧ l.opt = owner w.reg (.mac m) := by
  unfold Index.findByMAC
  have : macOK m = true := hv
  simp only [this, if_true]
  exact ⟨_, rfl, look_owner hr hr.inv.macs Ident.mac (by intro c k; simp) m⟩

/-- The first match in a sorted list is the least match. -/
theorem find?_sorted {keys : List Prefix} (hs : Sorted keys) (P : Prefix → Bool) {p : Prefix}
    (h : keys.find? P = some p) : ∀ q ∈ keys, P q = true → q = p ∨ plt p q := by
  induction keys with
  | nil => simp at h
  | cons a rest ih =>
    have hs' := List.pairwise_cons.mp hs
    simp only [List.find?_cons] at h
    cases hP : P a with
    | true =>
      rw [hP] at h
      have := Option.some.inj h; subst this
      intro q hq _
      rcases List.mem_cons.mp hq with rfl | hq
      · exact Or.inl rfl
      · exact Or.inr (hs'.1 q hq)
    | false =>
      rw [hP] at h
      intro q hq hPq
      rcases List.mem_cons.mp hq with rfl | hq
      · rw [hP] at hPq; cases hPq
      · exact ih hs'.2 h q hq hPq

theorem inCIDR_family {p q : Prefix} {ip : IP} (hp : inCIDR p ip = true) (hq : inCIDR q ip = true) :
    p.is6 = q.is6 := by
  cases ip <;> simp [inCIDR] at hp hq
  · rw [hp.1, hq.1]
  · rw [hp.1, hq.1]

/-- `findByIP` is the owner of the address, else the owner of the most specific CIDR. -/
theorem findByIP_byAddress {s : Storage} {w : World} (hr : Refines s w) (ip : IP) :
    s.index.findByIP ip ≠ .dangling ∧ (s.index.findByIP ip).opt = byAddress w.reg ip := by
  have hip := look_owner hr hr.inv.ips Ident.ip (by intro c k; simp) ip
  unfold Index.findByIP byAddress
  cases hk : s.index.ipToUID ip with
  | some u =>
    rw [hk] at hip
    simp only
    refine ⟨hip.1, ?_⟩
    rw [hip.2]
    cases ho : owner w.reg (.ip ip) with
    | some c => rfl
    | none =>
      -- impossible: the map has an entry, so the owner exists
      exfalso
      obtain ⟨c, hcl, _⟩ := hr.inv.ips.client_isSome hr.inv.uids hk
      have := hip.2
      rw [ho] at this
      simp [Index.deref, hcl, Look.opt] at this
  | none =>
    rw [hk] at hip
    have hown : owner w.reg (.ip ip) = none := by
      rw [← hip.2]; simp [Index.deref, Look.opt]
    simp only [hown, Option.orElse]
    -- the keys are the subnets of the stored clients
    have hkeys : ∀ q, q ∈ s.index.subnetToUID.keys ↔ ∃ c, c ∈ w.reg ∧ q ∈ c.subnets := by
      intro q
      rw [hr.inv.sm.dom q]
      constructor
      · intro hsome
        cases hv : s.index.subnetToUID.vals q with
        | none => rw [hv] at hsome; cases hsome
        | some u =>
          obtain ⟨c, hc, _, hq⟩ := (hr.inv.subs q u).mp hv
          exact ⟨c, hr.mem.mp hc, hq⟩
      · rintro ⟨c, hc, hq⟩
        rw [(hr.inv.subs q c.uid).mpr ⟨c, hr.mem.mpr hc, rfl, hq⟩]; rfl
    cases hf : s.index.subnetToUID.keys.find? (fun pref => pref.contains ip.withoutZone) with
    | none =>
      simp only
      refine ⟨by simp, ?_⟩
      have : containing w.reg ip = [] := by
        cases hc : containing w.reg ip with
        | nil => rfl
        | cons x rest =>
          exfalso
          have hx : (x.1, x.2) ∈ containing w.reg ip := by rw [hc]; exact List.mem_cons_self
          obtain ⟨hcr, hps, hin⟩ := mem_containing.mp hx
          have hkq := (hkeys x.1).mpr ⟨x.2, hcr, hps⟩
          have := List.find?_eq_none.mp hf x.1 hkq
          rw [C03.contains_withoutZone] at this
          exact this hin
      rw [mostSpecific_none.mpr this]
      rfl
    | some pref =>
      simp only
      have hpk : pref ∈ s.index.subnetToUID.keys := List.mem_of_find?_eq_some hf
      have hpc : inCIDR pref ip = true := by
        have := List.find?_some hf
        rwa [C03.contains_withoutZone] at this
      have hsome := (hr.inv.sm.dom pref).mp hpk
      cases hv : s.index.subnetToUID.vals pref with
      | none => rw [hv] at hsome; cases hsome
      | some u =>
        simp only [Option.getD_some]
        obtain ⟨c, hcl, hc, hcu, hpc'⟩ := hr.inv.subs.client_isSome hr.inv.uids hv
        simp only [Index.deref, hcl]
        refine ⟨by simp, ?_⟩
        simp only [Look.opt]
        have hcand : (pref, c) ∈ containing w.reg ip := mem_containing.mpr ⟨hr.mem.mp hc, hpc', hpc⟩
        cases hms : mostSpecific w.reg ip with
        | none =>
          rw [mostSpecific_none.mp hms] at hcand; cases hcand
        | some b =>
          obtain ⟨hb, hbest⟩ := mostSpecific_some hms
          have hb' : (b.1, b.2) ∈ containing w.reg ip := hb
          obtain ⟨hbr, hbs, hbin⟩ := mem_containing.mp hb'
          have hbk := (hkeys b.1).mpr ⟨b.2, hbr, hbs⟩
          have hmin := find?_sorted hr.inv.sm.sorted _ hf b.1 hbk (by rw [C03.contains_withoutZone]; exact hbin)
          have hnb := hbest (pref, c) hcand
          have hpb : b.1 = pref := by
            rcases hmin with h | h
            · exact h
            · exfalso
              have hfam := inCIDR_family hpc hbin
              have : moreSpecific pref b.1 = true := by
                rw [moreSpecific_iff]
                unfold plt at h
                rcases h with h | ⟨h1, h2 | h2⟩
                · exact Or.inl h
                · rw [h2.1, h2.2] at hfam; cases hfam
                · exact Or.inr ⟨h1, h2.2⟩
              simp only at hnb
              rw [this] at hnb; cases hnb
          -- same prefix, hence same owner
          have : b.2 = c := by
            have hbm := hr.mem.mpr hbr
            have h1 := (hr.inv.subs pref b.2.uid).mpr ⟨b.2, hbm, rfl, hpb ▸ hbs⟩
            rw [hv] at h1
            exact hr.inv.uids.eq_of_uid hbm hc ((Option.some.inj h1).symm.trans hcu.symm)
          simp [this]

/-! ### what the model shows, as the spec's `Seen` -/

def Look.seen : Look → Seen
  | .none => .none
  | .found c => .client c.uid c.ver
  | .dangling => .broken

def Got.seen : Got → Seen
  | .none => .none
  | .client c => .client c.uid c.ver
  | .panic => .broken

/-- The model's observation for a probe (what the driver prints, parsed). -/
def modelSeen (s : Storage) : Probe → Seen
  | .name n => (s.findByName n).seen
  | .cid c => (s.index.findByClientID c).seen
  | .ip a => (s.index.findByIP a).seen
  | .mac m => match s.index.findByMAC m with
    | some l => l.seen
    | none => .broken
  | .apply cid a => match s.applyClientFiltering cid a globalSettings with
    | some st => .setts st
    | none => .broken
  | .find id => (s.find id).seen

theorem Look.seen_eq {l : Look} (h : l ≠ .dangling) : l.seen = seenOf l.opt := by
  cases l <;> simp_all [Look.seen, seenOf, Look.opt]

theorem gotOf_seen (o : Option Client) : (gotOf o).seen = seenOf o := by
  cases o <;> rfl

theorem Client.apply_eq (c : Client) (g : Settings) : c.apply g = effective (some c) g := by
  obtain ⟨uid, name, ips, subnets, macs, cids, inv, own, f, ss, sb, par, ownSvc, svc, sso, tags, ver, _, _, _, _, _, _⟩ := c
  unfold Client.apply effective
  cases own <;> cases ownSvc <;> simp

theorem macByIP_eq {s : Storage} {w : World} (hr : Refines s w) (ip : IP) : s.macByIP ip = w.lease ip := by
  unfold Storage.macByIP World.lease
  rw [hr.dhcp]

theorem findByMAC_got {s : Storage} {w : World} (hr : Refines s w) {m : MAC} (hv : validMAC m = true) :
    s.findByMAC m = gotOf (owner w.reg (.mac m)) := by
  obtain ⟨l, hl, hnd, hopt⟩ := findByMAC_owner hr hv
  unfold Storage.findByMAC
  rw [hl]
  simp only
  rw [Look.got_eq hnd, hopt]

theorem findByLease_got {s : Storage} {w : World} (hr : Refines s w) (ip : IP)
    (hsc : ∀ m, w.lease ip = some m → validMAC m = true) :
    s.findByLease ip = gotOf ((w.lease ip).bind fun m => owner w.reg (.mac m)) := by
  unfold Storage.findByLease
  rw [macByIP_eq hr]
  cases hl : w.lease ip with
  | none => rfl
  | some m => simp only [Option.bind]; exact findByMAC_got hr (hsc m hl)

theorem seenOf_ne_broken (o : Option Client) : seenOf o ≠ .broken := by
  cases o <;> simp [seenOf]

theorem expected_ne_broken (w : World) (p : Probe) : expected w p ≠ .broken := by
  cases p <;> simp only [expected] <;> first | exact seenOf_ne_broken _ | (intro h; cases h)

/-- `ApplyClientFiltering` picks the client the precedence rule names. -/
theorem resolve_attributed {s : Storage} {w : World} (hr : Refines s w) (cid : Bytes) (a : IP)
    (hsc : ∀ m, w.lease a = some m → validMAC m = true) :
    s.resolve cid a = gotOf (attributed w.reg (w.lease a) cid a) := by
  have h1 := findByClientID_owner hr cid
  have h2 := findByIP_byAddress hr a
  unfold Storage.resolve attributed
  cases hc : s.index.findByClientID cid with
  | dangling => exact absurd hc h1.1
  | found c =>
    rw [hc] at h1
    simp only [Look.opt] at h1
    simp [← h1.2, gotOf]
  | none =>
    rw [hc] at h1
    simp only [Look.opt] at h1
    simp only [← h1.2, Option.orElse]
    cases hi : s.index.findByIP a with
    | dangling => exact absurd hi h2.1
    | found c =>
      rw [hi] at h2
      simp only [Look.opt] at h2
      simp [← h2.2, gotOf]
    | none =>
      rw [hi] at h2
      simp only [Look.opt] at h2
      simp only [← h2.2]
      exact findByLease_got hr a hsc

/-- `Storage.Find` is: owner of the ClientID, else of the address, else of the
MAC, else of the MAC the DHCP server leased the address to. -/
theorem find_expected {s : Storage} {w : World} (hr : Refines s w) (id : IdStr)
    (hm : ∀ m, id.asMAC = some m → validMAC m = true)
    (hl : ∀ m, id.asIP.bind w.lease = some m → validMAC m = true) :
    (s.find id).seen = expected w (.find id) := by
  have h1 := findByClientID_owner hr id.raw
  unfold Storage.find expected
  cases hc : s.index.findByClientID id.raw with
  | dangling => exact absurd hc h1.1
  | found c =>
    rw [hc] at h1
    simp only [Look.opt] at h1
    simp [← h1.2, Got.seen, seenOf]
  | none =>
    rw [hc] at h1
    simp only [Look.opt] at h1
    simp only [← h1.2, Option.orElse]
    cases hip : id.asIP with
    | none =>
      simp only [Option.bind]
      cases hmac : id.asMAC with
      | none => simp [Got.seen, seenOf]
      | some m =>
        simp only
        rw [findByMAC_got hr (hm m hmac)]
        cases owner w.reg (.mac m) <;> simp [gotOf, Got.seen, seenOf]
    | some ip =>
      have h2 := findByIP_byAddress hr ip
      simp only [Option.bind]
      cases hi : s.index.findByIP ip with
      | dangling => exact absurd hi h2.1
      | found c =>
        rw [hi] at h2
        simp only [Look.opt] at h2
        simp [← h2.2, Got.seen, seenOf]
      | none =>
        rw [hi] at h2
        simp only [Look.opt] at h2
        simp only [← h2.2]
        have hlease : ∀ m, w.lease ip = some m → validMAC m = true := by
          intro m hm'; exact hl m (by simp [hip, Option.bind, hm'])
        have hdh := findByLease_got hr ip hlease
        cases hmac : id.asMAC with
        | none =>
          simp only
          rw [hdh, gotOf_seen]
          cases w.lease ip <;> rfl
        | some m =>
          simp only
          rw [findByMAC_got hr (hm m hmac)]
          cases ho : owner w.reg (.mac m) with
          | some c => simp [gotOf, Got.seen, seenOf]
          | none =>
            simp only [gotOf]
            rw [hdh, gotOf_seen]
            cases w.lease ip <;> rfl

/-- Every probe inside the property's domain shows what the registry says. -/
theorem modelSeen_expected {s : Storage} {w : World} (hr : Refines s w) (p : Probe)
    (hsc : probeInScope w p = true) : modelSeen s p = expected w p := by
  cases p with
  | name n =>
    have := findByName_owner hr n
    simp only [modelSeen, expected, Storage.findByName]
    rw [Look.got_eq this.1, gotOf_seen, this.2]
  | cid c =>
    have := findByClientID_owner hr c
    simp only [modelSeen, expected]
    rw [Look.seen_eq this.1, this.2]
  | ip a =>
    have := findByIP_byAddress hr a
    simp only [modelSeen, expected]
    rw [Look.seen_eq this.1, this.2]
  | mac m =>
    obtain ⟨l, hl, hnd, hopt⟩ := findByMAC_owner hr (by simpa [probeInScope] using hsc)
    simp only [modelSeen, expected, hl]
    rw [Look.seen_eq hnd, hopt]
  | apply cid a =>
    have hl : ∀ m, w.lease a = some m → validMAC m = true := by
      intro m hm
      simp only [probeInScope, hm] at hsc
      exact hsc
    have := resolve_attributed hr cid a hl
    simp only [modelSeen, expected, Storage.applyClientFiltering, this]
    cases attributed w.reg (w.lease a) cid a with
    | none => simp [gotOf, effective]
    | some c => simp [gotOf, Client.apply_eq]
  | find id =>
    simp only [modelSeen]
    simp only [probeInScope, Bool.and_eq_true] at hsc
    apply find_expected hr id
    · intro m hm; have := hsc.1; simp only [hm] at this; exact this
    · intro m hm; have := hsc.2; simp only [hm] at this; exact this

theorem probeFail_model {s : Storage} {w : World} (hr : Refines s w) (p : Probe) :
    probeFail w p (modelSeen s p) = none := by
  unfold probeFail
  cases hsc : probeInScope w p with
  | false => simp
  | true =>
    have := modelSeen_expected hr p hsc
    simp only [Bool.not_true, Bool.false_eq_true, if_false, this]
    simp [expected_ne_broken w p]

end AGH.C04
