/-
C13, independence from partial runs: every successful step keeps the invariant
`inv` (Go-typed values only where later steps never ask for a string or a sequence).
-/
import AGH.Lemmas.MigrateSim
namespace AGH.C13
open AGH

/-- A successful step keeps the invariant. -/
def InvOK (o : Oracles) (r : M YVal) : Prop :=
  match r with
  | .ok d => inv o d = true
  | .error _ => True

theorem inv_erase {o : Oracles} {es} {k : Key} (h : inv o (.obj es) = true) : inv o (.obj (erase k es)) = true := by
  simp only [inv, List.all_eq_true] at h ⊢
  exact fun e he => h e (mem_erase he)

theorem fv_kid_exc {o : Oracles} {ex : List Key} {m : YVal} (h : subOK o ex m = true) (k : Key) (T : Ty) :
    excOK o (fieldVal T m k).v = true := by
  rcases fv_v_cases T m k with hz | hg
  · rw [hz]; simp [excOK, clean_zeroOf]
  · cases m <;> simp [getK] at hg
    simp [subOK] at h
    have := h k _ (mem_of_lookup hg)
    split at this
    · exact this
    · simp [excOK, this]

theorem fv_clean_top {o : Oracles} {D : YVal} (hD : inv o D = true) (T : Ty) {k : Key} (hk : exc k = []) :
    clean o (fieldVal T D k).v = true := by
  have := fv_sub hD T k
  rwa [hk, subOK_nil] at this

macro "inv_simp" : tactic => `(tactic| (
  simp (config := {decide := true}) [InvOK, exc, subOK_nil, subOK, excOK, clean, cleanList, cleanEnts, isTypedLeaf, C13.insert,
    typeErr, bail, putK, delK, setK, intOf, bytesOf, boolOf, isEmptyObj, zeroOf,
    v14Runtime, v14Clients, v15Qlog, v16Stats, safeSearchDefault, scheduleDefault, v25Pprof] at *))

macro "inv_fin" : tactic => `(tactic| (
  (try (simp (config := {decide := true}) only [typeErr, bail, putK, delK, setK, intOf, bytesOf, boolOf, isEmptyObj,
    zeroOf, v14Runtime, v14Clients, v15Qlog, v16Stats, safeSearchDefault, scheduleDefault, v25Pprof,
    if_true, if_false, Bool.false_eq_true])) <;>
  (repeat' split) <;>
  (try (simp only [InvOK])) <;>
  (repeat' (first
    | assumption
    | apply inv_insert
    | apply inv_erase
    | apply subOK_insert
    | apply subOK_erase
    | apply subOK_of_clean)) <;>
  (try inv_simp) <;> (try (simp_all (config := {decide := true}))) <;>
  (try ((repeat' split) <;> (simp_all (config := {decide := true}) [clean])))))

theorem step1_inv (o : Oracles) (es) (h : inv o (.obj es) = true) : InvOK o (migrateTo1 (.obj es)) := by
  have hD := inv_stamp h ((1 : Nat) : Int)
  open_step
  repeat' fv_split
  all_goals inv_fin

theorem step2_inv (o : Oracles) (es) (h : inv o (.obj es) = true) : InvOK o (migrateTo2 (.obj es)) := by
  have hD := inv_stamp h ((2 : Nat) : Int)
  have hc := fv_clean_top hD .any (k := kCoredns) (by decide)
  open_step
  repeat' fv_split
  all_goals inv_fin

theorem step3_inv (o : Oracles) (es) (h : inv o (.obj es) = true) : InvOK o (migrateTo3 (.obj es)) := by
  have hD := inv_stamp h ((3 : Nat) : Int)
  have hk := fv_sub hD .obj kDns
  have hb := fv_kid hk (k := kBootstrapDns) (by decide) .any
  open_step
  repeat' fv_split
  all_goals inv_fin

theorem step5_inv (o : Oracles) (es) (h : inv o (.obj es) = true) : InvOK o (migrateTo5 (.obj es)) := by
  have hD := inv_stamp h ((5 : Nat) : Int)
  open_step
  repeat' fv_split
  all_goals inv_fin

theorem step8_inv (o : Oracles) (es) (h : inv o (.obj es) = true) : InvOK o (migrateTo8 (.obj es)) := by
  have hD := inv_stamp h ((8 : Nat) : Int)
  have hk := fv_sub hD .obj kDns
  open_step
  repeat' fv_split
  all_goals inv_fin

theorem step9_inv (o : Oracles) (es) (h : inv o (.obj es) = true) : InvOK o (migrateTo9 (.obj es)) := by
  have hD := inv_stamp h ((9 : Nat) : Int)
  have hk := fv_sub hD .obj kDns
  open_step
  repeat' fv_split
  all_goals inv_fin

theorem step11_inv (o : Oracles) (es) (h : inv o (.obj es) = true) : InvOK o (migrateTo11 (.obj es)) := by
  have hD := inv_stamp h ((11 : Nat) : Int)
  open_step
  repeat' fv_split
  all_goals inv_fin

theorem step12_inv (o : Oracles) (es) (h : inv o (.obj es) = true) : InvOK o (migrateTo12 (.obj es)) := by
  have hD := inv_stamp h ((12 : Nat) : Int)
  have hk := fv_sub hD .obj kDns
  open_step
  repeat' fv_split
  all_goals inv_fin

theorem step13_inv (o : Oracles) (es) (h : inv o (.obj es) = true) : InvOK o (migrateTo13 (.obj es)) := by
  have hD := inv_stamp h ((13 : Nat) : Int)
  have hk := fv_sub hD .obj kDns
  have hh := fv_sub hD .obj kDhcp
  open_step
  repeat' fv_split
  all_goals inv_fin

theorem step14_inv (o : Oracles) (es) (h : inv o (.obj es) = true) : InvOK o (migrateTo14 (.obj es)) := by
  have hD := inv_stamp h ((14 : Nat) : Int)
  have hk := fv_sub hD .obj kDns
  have hc := fv_clean_top hD .arr (k := kClients) (by decide)
  open_step
  simp only [fieldVal_insert_ne .obj kClients kDns _ _ (by decide)]
  repeat' fv_split
  all_goals inv_fin

theorem step17_inv (o : Oracles) (es) (h : inv o (.obj es) = true) : InvOK o (migrateTo17 (.obj es)) := by
  have hD := inv_stamp h ((17 : Nat) : Int)
  have hk := fv_sub hD .obj kDns
  open_step
  repeat' fv_split
  all_goals inv_fin

theorem step18_inv (o : Oracles) (es) (h : inv o (.obj es) = true) : InvOK o (migrateTo18 (.obj es)) := by
  have hD := inv_stamp h ((18 : Nat) : Int)
  have hk := fv_sub hD .obj kDns
  open_step
  repeat' fv_split
  all_goals inv_fin

theorem step20_inv (o : Oracles) (es) (h : inv o (.obj es) = true) : InvOK o (migrateTo20 (.obj es)) := by
  have hD := inv_stamp h ((20 : Nat) : Int)
  have hk := fv_sub hD .obj kStatistics
  open_step
  repeat' fv_split
  all_goals inv_fin

theorem step21_inv (o : Oracles) (es) (h : inv o (.obj es) = true) : InvOK o (migrateTo21 (.obj es)) := by
  have hD := inv_stamp h ((21 : Nat) : Int)
  have hk := fv_sub hD .obj kDns
  have hb := fv_kid hk (k := kBlockedServices) (by decide) .arr
  open_step
  repeat' fv_split
  all_goals inv_fin

theorem step23_inv (o : Oracles) (es) (h : inv o (.obj es) = true) : InvOK o (migrateTo23 o (.obj es)) := by
  have hD := inv_stamp h ((23 : Nat) : Int)
  open_step
  repeat' fv_split
  all_goals inv_fin

theorem step25_inv (o : Oracles) (es) (h : inv o (.obj es) = true) : InvOK o (migrateTo25 (.obj es)) := by
  have hD := inv_stamp h ((25 : Nat) : Int)
  have hk := fv_sub hD .obj kHttp
  open_step
  repeat' fv_split
  all_goals inv_fin

theorem step28_inv (o : Oracles) (es) (h : inv o (.obj es) = true) : InvOK o (migrateTo28 (.obj es)) := by
  have hD := inv_stamp h ((28 : Nat) : Int)
  have hk := fv_sub hD .obj kDns
  open_step
  repeat' fv_split
  all_goals inv_fin

/-! ### `errors.Join(moveVal…)` keeps Go-typed values where they may be -/

theorem excOK_of_clean {o : Oracles} {v : YVal} (h : clean o v = true) : excOK o v = true := by simp [excOK, h]

/-- One move between two sections: a value from a place where a Go-typed value may sit
must land at such a place. -/
theorem moveVal_sub {o : Oracles} {ex ex' : List Key} {src dst : YVal} (T : Ty) (sk dk : Key)
    (hs : subOK o ex src = true) (hd : subOK o ex' dst = true) (hdo : IsObj dst) (hk : sk ∈ ex → dk ∈ ex')
    {s d : YVal} {e : Bool} (h : moveVal T src dst sk dk = .ok (s, d, e)) :
    subOK o ex s = true ∧ subOK o ex' d = true ∧ IsObj d := by
  obtain ⟨ds, rfl⟩ := hdo.elim
  unfold moveVal at h
  dsimp only at h
  split at h
  · simp [setK] at h
    obtain ⟨rfl, rfl, _⟩ := h
    refine ⟨?_, subOK_insert hd ?_, trivial⟩
    · cases src <;> simp_all [delK]
      exact subOK_erase hs
    · by_cases hdk : dk ∈ ex'
      · simp only [hdk, if_true]
        by_cases hsk : sk ∈ ex
        · exact fv_kid_exc hs sk T
        · exact excOK_of_clean (fv_kid hs hsk T)
      · simp only [hdk, if_false]
        exact fv_kid hs (fun hsk => hdk (hk hsk)) T
  · simp at h
    obtain ⟨rfl, rfl, _⟩ := h
    exact ⟨hs, hd, trivial⟩

theorem moves_sub {o : Oracles} {ex ex' : List Key} : ∀ (ms : List (Ty × Key × Key)) {src dst : YVal},
    subOK o ex src = true → subOK o ex' dst = true → IsObj dst → (∀ m ∈ ms, m.2.1 ∈ ex → m.2.2 ∈ ex') →
    ∀ {s d : YVal} {e : Bool}, moves ms src dst = .ok (s, d, e) →
      subOK o ex s = true ∧ subOK o ex' d = true ∧ IsObj d
  | [], src, dst, hs, hd, hdo, _, s, d, e, h => by
    simp [moves] at h; obtain ⟨rfl, rfl, _⟩ := h; exact ⟨hs, hd, hdo⟩
  | (T, sk, dk) :: rest, src, dst, hs, hd, hdo, hk, s, d, e, h => by
    unfold moves at h
    cases hm : moveVal T src dst sk dk with
    | error f => simp [hm] at h
    | ok t =>
      obtain ⟨s1, d1, e1⟩ := t
      obtain ⟨hs1, hd1, hdo1⟩ := moveVal_sub T sk dk hs hd hdo (hk (T, sk, dk) (by simp)) hm
      simp only [hm] at h
      cases hr : moves rest s1 d1 with
      | error f => simp [hr] at h
      | ok t' =>
        obtain ⟨s2, d2, e2⟩ := t'
        simp [hr] at h
        obtain ⟨rfl, rfl, _⟩ := h
        exact moves_sub rest hs1 hd1 hdo1 (fun m hm' => hk m (by simp [hm'])) hr

/-- Moves out of the top level of the document (v24). -/
theorem moves_top {o : Oracles} : ∀ (ms : List (Ty × Key × Key)) {es : List (Key × YVal)} {dst : YVal},
    inv o (.obj es) = true → clean o dst = true → IsObj dst → (∀ m ∈ ms, exc m.2.1 = []) →
    ∀ {s d : YVal} {e : Bool}, moves ms (.obj es) dst = .ok (s, d, e) →
      (∃ es', s = .obj es' ∧ inv o (.obj es') = true) ∧ clean o d = true ∧ IsObj d
  | [], es, dst, hD, hd, hdo, _, s, d, e, h => by
    simp [moves] at h; obtain ⟨rfl, rfl, _⟩ := h; exact ⟨⟨es, rfl, hD⟩, hd, hdo⟩
  | (T, sk, dk) :: rest, es, dst, hD, hd, hdo, hk, s, d, e, h => by
    unfold moves at h
    cases hm : moveVal T (.obj es) dst sk dk with
    | error f => simp [hm] at h
    | ok t =>
      obtain ⟨s1, d1, e1⟩ := t
      have h1 : (∃ es1, s1 = .obj es1 ∧ inv o (.obj es1) = true) ∧ clean o d1 = true ∧ IsObj d1 := by
        obtain ⟨ds, rfl⟩ := hdo.elim
        unfold moveVal at hm
        dsimp only at hm
        split at hm
        · simp [setK, delK] at hm
          obtain ⟨rfl, rfl, _⟩ := hm
          refine ⟨⟨_, rfl, inv_erase hD⟩, ?_, trivial⟩
          have hv := fv_clean_top hD T (hk (T, sk, dk) (by simp))
          have := subOK_insert (ex := []) (k := dk) (by rw [subOK_nil]; exact hd) (by simpa using hv)
          rwa [subOK_nil] at this
        · simp at hm
          obtain ⟨rfl, rfl, _⟩ := hm
          exact ⟨⟨es, rfl, hD⟩, hd, trivial⟩
      obtain ⟨⟨es1, rfl, hD1⟩, hd1, hdo1⟩ := h1
      simp only [hm] at h
      cases hr : moves rest (.obj es1) d1 with
      | error f => simp [hr] at h
      | ok t' =>
        obtain ⟨s2, d2, e2⟩ := t'
        simp [hr] at h
        obtain ⟨rfl, rfl, _⟩ := h
        exact moves_top rest hD1 hd1 hdo1 (fun m hm' => hk m (by simp [hm'])) hr

theorem step16_inv (o : Oracles) (es) (h : inv o (.obj es) = true) : InvOK o (migrateTo16 (.obj es)) := by
  have hD := inv_stamp h ((16 : Nat) : Int)
  have hk := fv_sub hD .obj kDns
  open_step
  fv_split
  · fv_split
    · rename_i i
      by_cases hi : i = 0 <;> simp only [intOf, hi, if_true, if_false] <;> inv_fin
    · inv_fin
    · inv_fin
  · inv_fin
  · inv_fin

theorem step7_inv (o : Oracles) (es) (h : inv o (.obj es) = true) : InvOK o (migrateTo7 (.obj es)) := by
  have hD := inv_stamp h ((7 : Nat) : Int)
  have hk := fv_sub hD .obj kDhcp
  simp only [migrateTo7, stamp_obj]
  fv_split
  · rename_i w
    obtain ⟨s', d', e, hm, _, ho⟩ := moves_spec v7Moves (.obj w) []
    obtain ⟨ss, rfl⟩ := (ho trivial).elim
    obtain ⟨hs, hd, _⟩ := moves_sub (ex' := []) (dst := .obj []) v7Moves hk (by simp [subOK]) (isObj_obj _)
      (by decide) hm
    have hdc : clean o (.obj d') = true := by rw [← subOK_nil]; exact hd
    simp only [hm]
    inv_fin
  · inv_fin
  · inv_fin

theorem step15_inv (o : Oracles) (es) (h : inv o (.obj es) = true) : InvOK o (migrateTo15 (.obj es)) := by
  have hD := inv_stamp h ((15 : Nat) : Int)
  have hk := fv_sub hD .obj kDns
  simp only [migrateTo15, stamp_obj, v15Qlog]
  fv_split
  · rename_i w
    obtain ⟨s', d', e, hm, _, ho⟩ := moves_spec v15Moves (.obj w)
      [(kIgnored, .arr []), (kEnabled, .bool true), (kFileEnabled, .bool true),
        (kInterval, .str s2160h), (kSizeMemory, .int 1000)]
    obtain ⟨ss, rfl⟩ := (ho trivial).elim
    obtain ⟨hs, hd, _⟩ := moves_sub (ex' := exc kQuerylog) v15Moves hk
      (by simp (config := {decide := true}) [subOK, clean, cleanList, exc, excOK]) (isObj_obj _) (by decide) hm
    simp only [hm]
    inv_fin
  · inv_fin
  · inv_fin

theorem step26_inv (o : Oracles) (es) (h : inv o (.obj es) = true) : InvOK o (migrateTo26 (.obj es)) := by
  have hD := inv_stamp h ((26 : Nat) : Int)
  have hk := fv_sub hD .obj kDns
  simp only [migrateTo26, stamp_obj]
  fv_split
  · rename_i w
    obtain ⟨s', d', e, hm, _, ho⟩ := moves_spec v26Moves (.obj w) []
    obtain ⟨ss, rfl⟩ := (ho trivial).elim
    obtain ⟨hs, hd, _⟩ := moves_sub (ex' := exc kFiltering) (dst := .obj []) v26Moves hk (by simp [subOK])
      (isObj_obj _) (by decide) hm
    simp only [hm]
    cases d' <;> inv_fin
  · inv_fin
  · inv_fin

theorem step24_inv (o : Oracles) (es) (h : inv o (.obj es) = true) : InvOK o (migrateTo24 (.obj es)) := by
  have hD := inv_stamp h ((24 : Nat) : Int)
  simp only [migrateTo24, stamp_obj]
  obtain ⟨s', d', e, hm, _, ho⟩ := moves_spec v24Moves (.obj (insert kSchemaVersion (.int ((24 : Nat) : Int)) es)) []
  obtain ⟨ss, rfl⟩ := (ho trivial).elim
  obtain ⟨⟨es', he, hD'⟩, hd, _⟩ := moves_top (dst := .obj []) v24Moves hD (by simp [clean, cleanEnts]) (isObj_obj _)
    (by decide) hm
  cases he
  simp only [hm]
  cases d' <;> inv_fin

/-! ### loops over sequences keep them clean -/

theorem clean_insert {o : Oracles} {ws : List (Key × YVal)} {k : Key} {v : YVal}
    (h : clean o (.obj ws) = true) (hv : clean o v = true) : clean o (.obj (insert k v ws)) = true := by
  rw [← subOK_nil] at h ⊢
  exact subOK_insert h (by simpa using hv)

theorem mapM'_clean {o : Oracles} {f : YVal → M YVal}
    (hf : ∀ x y, clean o x = true → f x = .ok y → clean o y = true) :
    ∀ xs ys, cleanList o xs = true → mapM' f xs = .ok ys → cleanList o ys = true
  | [], ys, _, h => by simp [mapM'] at h; subst h; rfl
  | x :: xs, ys, hc, h => by
    simp [cleanList] at hc
    unfold mapM' at h
    cases hx : f x with
    | error e => simp [hx] at h
    | ok y =>
      cases hxs : mapM' f xs with
      | error e => simp [hx, hxs] at h
      | ok ys' =>
        simp [hx, hxs] at h; subst h
        simp [cleanList, hf x y hc.1 hx, mapM'_clean hf xs ys' hc.2 hxs]

theorem v4Client_clean (o : Oracles) (x y : YVal) (hc : clean o x = true) (h : v4Client x = .ok y) :
    clean o y = true := by
  unfold v4Client at h
  cases x <;> simp [setK] at h <;> try (subst h; exact hc)
  subst h; exact clean_insert hc rfl

theorem v6Ids_clean (o : Oracles) (c : YVal) (hc : clean o c = true) :
    ∀ (ids : List Key) (vs : List YVal), v6Ids c ids = .ok vs → cleanList o vs = true
  | [], vs, h => by simp [v6Ids] at h; subst h; rfl
  | id :: rest, vs, h => by
    unfold v6Ids at h
    dsimp only at h
    have hv : clean o (fieldVal .str c id).v = true :=
      fv_kid (ex := []) (by rw [subOK_nil]; exact hc) (by simp) .str
    split at h
    · simp at h
    · cases hr : v6Ids c rest with
      | error e => simp [hr] at h
      | ok vs' =>
        have ih := v6Ids_clean o c hc rest vs' hr
        simp only [hr] at h
        split at h
        · simp at h; subst h; exact ih
        · simp at h; subst h; simp [cleanList, hv, ih]

theorem v6Client_clean (o : Oracles) (x y : YVal) (hc : clean o x = true) (h : v6Client x = .ok y) :
    clean o y = true := by
  unfold v6Client at h
  cases x <;> simp [typeErr] at h
  rename_i ws
  cases hi : v6Ids (.obj ws) [kIp, kMac] with
  | error e => simp [hi] at h
  | ok ids =>
    simp [hi, setK] at h; subst h
    exact clean_insert hc (by simp [clean, v6Ids_clean o _ hc _ _ hi])

theorem v19Client_clean (o : Oracles) (x y : YVal) (hc : clean o x = true) (h : v19Client x = .ok y) :
    clean o y = true := by
  unfold v19Client at h
  cases x <;> simp at h <;> try (subst h; exact hc)
  rename_i ws
  cases hm : moveVal .bool (.obj ws) safeSearchDefault kSafesearchEnabled kEnabled with
  | error f => simp [hm] at h
  | ok t =>
    obtain ⟨c', ss, e⟩ := t
    obtain ⟨hs, hd, _⟩ := moveVal_sub (o := o) (ex := []) (ex' := []) .bool kSafesearchEnabled kEnabled
      (by rw [subOK_nil]; exact hc) (by simp [safeSearchDefault, subOK, clean]) (by simp [safeSearchDefault, IsObj])
      (by simp) hm
    rw [subOK_nil] at hs hd
    simp only [hm] at h
    -- `c'` is the client or the client without a key: a map
    have hobj : IsObj c' := by
      unfold moveVal at hm; dsimp only at hm
      split at hm
      · simp [safeSearchDefault, setK, delK] at hm; rw [← hm.1]; trivial
      · simp at hm; rw [← hm.1]; trivial
    obtain ⟨cs, rfl⟩ := hobj.elim
    simp [setK] at h; subst h
    exact clean_insert hs hd

theorem v22Client_clean (o : Oracles) (x y : YVal) (hc : clean o x = true) (h : v22Client x = .ok y) :
    clean o y = true := by
  unfold v22Client at h
  cases x <;> simp [typeErr] at h
  rename_i ws
  have hv : clean o (fieldVal .arr (.obj ws) kBlockedServices).v = true :=
    fv_kid (ex := []) (by rw [subOK_nil]; exact hc) (by simp) .arr
  split at h
  · simp at h
  · split at h
    · simp [setK] at h; subst h
      exact clean_insert hc (by simp [clean, cleanEnts, hv, scheduleDefault])
    · simp at h; subst h; exact hc

theorem step4_inv (o : Oracles) (es) (h : inv o (.obj es) = true) : InvOK o (migrateTo4 (.obj es)) := by
  have hD := inv_stamp h ((4 : Nat) : Int)
  simp only [migrateTo4, stamp_obj]
  split
  · rename_i xs hg
    have hc : clean o (.arr xs) = true := top_read hD (by decide) _ hg
    simp only [clean] at hc
    cases hm : mapM' v4Client xs with
    | error e => simp [InvOK]
    | ok ys =>
      have := mapM'_clean (v4Client_clean o) xs ys hc hm
      inv_fin
  · inv_fin

theorem step6_inv (o : Oracles) (es) (h : inv o (.obj es) = true) : InvOK o (migrateTo6 (.obj es)) := by
  have hD := inv_stamp h ((6 : Nat) : Int)
  have hc := fv_clean_top hD .arr (k := kClients) (by decide)
  simp only [migrateTo6, stamp_obj]
  fv_split
  · rename_i xs
    simp only [clean] at hc
    cases xs with
    | nil => inv_fin
    | cons x xs =>
      cases hm : mapM' v6Client (x :: xs) with
      | error e => simp [InvOK, hm]
      | ok ys =>
        have := mapM'_clean (v6Client_clean o) _ ys hc hm
        inv_fin
  · inv_fin
  · inv_fin

theorem step19_inv (o : Oracles) (es) (h : inv o (.obj es) = true) : InvOK o (migrateTo19 (.obj es)) := by
  have hD := inv_stamp h ((19 : Nat) : Int)
  have hc := fv_clean_top hD .obj (k := kClients) (by decide)
  simp only [migrateTo19, stamp_obj]
  fv_split
  · rename_i w
    split
    · rename_i xs hg
      have hx : clean o (.arr xs) = true := clean_kid hc hg
      simp only [clean] at hx
      cases hm : mapM' v19Client xs with
      | error e => simp [InvOK]
      | ok ys =>
        have := mapM'_clean (v19Client_clean o) xs ys hx hm
        have hp : clean o (.obj (insert kPersistent (.arr ys) w)) = true := clean_insert hc (by simpa [clean] using this)
        simp only [InvOK, putK]
        exact inv_insert hD (by rw [show exc kClients = [] by decide, subOK_nil]; exact hp)
    · inv_fin
  · inv_fin
  · inv_fin

theorem step22_inv (o : Oracles) (es) (h : inv o (.obj es) = true) : InvOK o (migrateTo22 (.obj es)) := by
  have hD := inv_stamp h ((22 : Nat) : Int)
  have hc := fv_clean_top hD .obj (k := kClients) (by decide)
  simp only [migrateTo22, stamp_obj]
  fv_split
  · rename_i w
    have hx := fv_kid (ex := []) (by rw [subOK_nil]; exact hc) (k := kPersistent) (by simp) .arr
    fv_split
    · rename_i xs
      simp only [clean] at hx
      cases xs with
      | nil => inv_fin
      | cons x xs =>
        cases hm : mapM' v22Client (x :: xs) with
        | error e => simp [InvOK, hm]
        | ok ys =>
          have := mapM'_clean (v22Client_clean o) _ ys hx hm
          have hp : clean o (.obj (insert kPersistent (.arr ys) w)) = true :=
            clean_insert hc (by simpa [clean] using this)
          simp only [hm, InvOK, putK]
          exact inv_insert hD (by rw [show exc kClients = [] by decide, subOK_nil]; exact hp)
    · inv_fin
    · inv_fin
  · inv_fin
  · inv_fin

theorem step10_inv (o : Oracles) (es) (h : inv o (.obj es) = true) : InvOK o (migrateTo10 o (.obj es)) := by
  have hD := inv_stamp h ((10 : Nat) : Int)
  have hk := fv_sub hD .obj kDns
  simp only [migrateTo10, stamp_obj]
  fv_split
  · rename_i w
    cases h1 : v10Field o (.obj w) kUpstreamDns with
    | error e => simp [InvOK]
    | ok d1 =>
      obtain ⟨w1, rfl, hk1⟩ := v10Field_sub hk (by decide) h1
      dsimp only
      cases h2 : v10Field o (.obj w1) kLocalPtrUpstreams with
      | error e => simp [InvOK]
      | ok d2 =>
        obtain ⟨w2, rfl, hk2⟩ := v10Field_sub hk1 (by decide) h2
        simp only [InvOK, putK]
        exact inv_insert hD hk2
  · inv_fin
  · inv_fin

theorem step27_inv (o : Oracles) (es) (h : inv o (.obj es) = true) : InvOK o (migrateTo27 (.obj es)) := by
  have hD := inv_stamp h ((27 : Nat) : Int)
  simp only [migrateTo27, stamp_obj]
  cases h1 : replaceDot (.obj (insert kSchemaVersion (.int ((27 : Nat) : Int)) es)) kQuerylog with
  | error e => simp [InvOK]
  | ok d1 =>
    obtain ⟨es1, rfl, hD1⟩ := replaceDot_inv hD kQuerylog (by decide) h1
    dsimp only
    cases h2 : replaceDot (.obj es1) kStatistics with
    | error e => simp [InvOK]
    | ok d2 =>
      obtain ⟨es2, rfl, hD2⟩ := replaceDot_inv hD1 kStatistics (by decide) h2
      exact hD2

theorem step29_inv (o : Oracles) (es) (h : inv o (.obj es) = true) : InvOK o (migrateTo29 o (.obj es)) := by
  have hD := inv_stamp h ((29 : Nat) : Int)
  simp only [migrateTo29, stamp_obj]
  fv_split
  · rename_i xs
    cases hp : v29Paths xs with
    | error e => simp [InvOK]
    | ok ps =>
      dsimp only
      have hk := fv_sub hD .obj kFiltering
      fv_split <;> inv_fin
  · inv_fin
  · inv_fin

end AGH.C13
