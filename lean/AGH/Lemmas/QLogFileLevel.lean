/-
C20 helper lemmas, part 5: `qLogFile.seekTS` on a line file, in terms of line
indices; link between the Bool-valued spec predicates and the Prop-level
hypotheses.  Core only.
-/
import AGH.Lemmas.QLogSeek
namespace AGH.C20
open AGH

theorem increasing_pairwise : ∀ st : List Int, increasing st = true → st.Pairwise (· < ·)
  | [], _ => List.Pairwise.nil
  | [a], _ => by simp
  | a :: b :: rest, h => by
    simp only [increasing, Bool.and_eq_true, decide_eq_true_eq] at h
    have ih := increasing_pairwise (b :: rest) h.2
    rw [List.pairwise_cons]
    refine ⟨?_, ih⟩
    rw [List.pairwise_cons] at ih
    intro x hx
    rcases List.mem_cons.1 hx with h1 | h1
    · subst h1; exact h.1
    · have := ih.1 x h1; omega

theorem seekCtx_of_stampsOK (tsOf : Bytes → Int) (lines : List Bytes)
    (hok : ∀ l ∈ lines, lineOK l = true) (hst : stampsOK (lines.map tsOf) = true) :
    SeekCtx tsOf lines := by
  simp only [stampsOK, Bool.and_eq_true, List.all_eq_true, List.mem_map, bne_iff_ne, ne_eq,
    forall_exists_index, and_imp, forall_apply_eq_imp_iff₂] at hst
  refine ⟨hok, hst.1, ?_⟩
  have := increasing_pairwise _ hst.2
  rwa [List.pairwise_map] at this

theorem sorted_inj (tsOf : Bytes → Int) (lines : List Bytes)
    (h : lines.Pairwise (fun a b => tsOf a < tsOf b)) (i j : Nat) (hi : i < lines.length)
    (hj : j < lines.length) (he : tsOf lines[i] = tsOf lines[j]) : i = j := by
  rw [List.pairwise_iff_getElem] at h
  rcases Nat.lt_trichotomy i j with h1 | h1 | h1
  · have := h i j hi hj h1; omega
  · exact h1
  · have := h j i hj hi h1; omega

section
variable (P : Params) (tsOf : Bytes → Int) (target : Int) (lines : List Bytes)

/-- Seeking the timestamp of entry `i` succeeds and leaves the reader standing on
that entry (`i+1` lines left to return), with the buffer dropped. -/
theorem seekTS_found (hP : entryLimit ≤ P.maxEntry) (ctx : SeekCtx tsOf lines)
    (hsize : (render lines).length < 2 ^ 63) (i : Nat) (hi : i < lines.length)
    (hts : tsOf lines[i] = target) (q : QState) :
    ∃ d, 2 ^ d ≤ (render lines).length ∧ seekTS P (fileOfLines lines) tsOf q target =
      ({ q with hasBuf := false, position := (render (lines.take (i + 1))).length - 1 },
       .ok ((render (lines.take (i + 1))).length - 1, d)) := by
  have hne : (fileOfLines lines).size ≠ 0 := by
    rw [fileOfLines_size]
    intro h
    have := (render_nil_iff lines).1 h
    subst this; simp at hi
  obtain ⟨N1, x, N2, d', hM, hx, hbound, hloop⟩ :=
    seekLoop_found P tsOf target lines hP ctx.le hsize lines.length [] lines [] maxDepth 0 0
      (fileOfLines lines).size (((fileOfLines lines).size - 0) / 2) none (Nat.le_refl _) (by simp)
      ⟨lines[i], List.getElem_mem hi, hts⟩ rfl rfl (by simp [fileOfLines_size]) (by omega)
      (by intro y hy; cases hy) (by simp)
  -- the line found is line `i`
  have hlen : N1.length < lines.length := by rw [hM]; simp
  have hxi : lines[N1.length] = x := by simp [hM]
  have hidx : N1.length = i :=
    sorted_inj tsOf lines ctx.sorted _ _ hlen hi (by rw [hxi, hx, hts])
  have htake : lines.take (i + 1) = N1 ++ [x] := by
    rw [← hidx]; conv => lhs; rw [hM]
    simp [List.take_append, List.take_of_length_le]
  have hpos : (render (lines.take (i + 1))).length - 1 = (render ([] ++ N1)).length + x.length := by
    rw [htake, render_snoc_length]; simp
  refine ⟨d', hbound, ?_⟩
  unfold seekTS
  simp only [hne, if_false, hloop, hpos]

/-- Seeking an absent timestamp fails with the report of its position and leaves
the position untouched (the buffer is dropped).  An empty file reports
`tooEarly` (repair daf1642), which is `absentErr` of no lines. -/
theorem seekTS_absent_le (hP : entryLimit ≤ P.maxEntry) (ctx : SeekCtxLe tsOf lines)
    (hsize : (render lines).length < 2 ^ 63) (habs : ∀ l ∈ lines, tsOf l ≠ target) (q : QState) :
    seekTS P (fileOfLines lines) tsOf q target =
      ({ q with hasBuf := false }, .error (absentErr tsOf target lines)) := by
  by_cases hne : lines = []
  · subst hne
    unfold seekTS
    simp [fileOfLines, File.ofBytes, render, absentErr]
  · have hsz : (fileOfLines lines).size ≠ 0 := by
      rw [fileOfLines_size]; intro h; exact hne ((render_nil_iff lines).1 h)
    have hloop :=
      seekLoop_absent P tsOf target lines hP ctx hne hsize lines.length [] lines [] maxDepth 0 0
        (fileOfLines lines).size (((fileOfLines lines).size - 0) / 2) none (Nat.le_refl _) (by simp)
        habs (by simp) (by simp) rfl rfl (by simp [fileOfLines_size]) (by omega)
        (by intro y hy; cases hy) (by intro _; simp) (by intro _; omega)
    unfold seekTS
    simp only [hsz, if_false, hloop]

theorem seekTS_absent (hP : entryLimit ≤ P.maxEntry) (ctx : SeekCtx tsOf lines)
    (hsize : (render lines).length < 2 ^ 63) (habs : ∀ l ∈ lines, tsOf l ≠ target) (q : QState) :
    seekTS P (fileOfLines lines) tsOf q target =
      ({ q with hasBuf := false }, .error (absentErr tsOf target lines)) :=
  seekTS_absent_le P tsOf target lines hP ctx.le hsize habs q

/-- Equal timestamps in neighbouring lines (weakly increasing): seeking a stored
timestamp still succeeds, and lands on SOME entry carrying it — the one the
binary search probes first, not necessarily the first or the last of the run. -/
theorem seekTS_found_le (hP : entryLimit ≤ P.maxEntry) (ctx : SeekCtxLe tsOf lines)
    (hsize : (render lines).length < 2 ^ 63) (hex : ∃ l ∈ lines, tsOf l = target) (q : QState) :
    ∃ (i : Nat) (hi : i < lines.length) (d : Nat), tsOf lines[i] = target ∧
      2 ^ d ≤ (render lines).length ∧
      seekTS P (fileOfLines lines) tsOf q target =
        ({ q with hasBuf := false, position := (render (lines.take (i + 1))).length - 1 },
         .ok ((render (lines.take (i + 1))).length - 1, d)) := by
  obtain ⟨l, hl, hlt⟩ := hex
  have hne : (fileOfLines lines).size ≠ 0 := by
    rw [fileOfLines_size]
    intro h
    have := (render_nil_iff lines).1 h
    subst this; simp at hl
  obtain ⟨N1, x, N2, d', hM, hx, hbound, hloop⟩ :=
    seekLoop_found P tsOf target lines hP ctx hsize lines.length [] lines [] maxDepth 0 0
      (fileOfLines lines).size (((fileOfLines lines).size - 0) / 2) none (Nat.le_refl _) (by simp)
      ⟨l, hl, hlt⟩ rfl rfl (by simp [fileOfLines_size]) (by omega)
      (by intro y hy; cases hy) (by simp)
  have hlen : N1.length < lines.length := by rw [hM]; simp
  have hxi : lines[N1.length] = x := by simp [hM]
  have htake : lines.take (N1.length + 1) = N1 ++ [x] := by
    conv => lhs; rw [hM]
    simp [List.take_append, List.take_of_length_le]
  have hpos : (render (lines.take (N1.length + 1))).length - 1 = (render ([] ++ N1)).length + x.length := by
    rw [htake, render_snoc_length]; simp
  refine ⟨N1.length, hlen, d', by rw [hxi]; exact hx, hbound, ?_⟩
  unfold seekTS
  simp only [hne, if_false, hloop, hpos]

/-- What the code does with a stored timestamp of exactly 0 ns (1970-01-01T00:00:00Z,
or any record whose timestamp `readQLogTimestamp` cannot read): when the first
probe (the middle of the file) falls into such a record, `seekTS` fails with the
generic "record … has empty timestamp" error for EVERY target — including the
target 0 itself, because `ts == 0` is tested before `ts == timestamp` — and the
position is untouched. -/
theorem seekTS_zero_stamp (hP : entryLimit ≤ P.maxEntry) (A B : List Bytes) (x : Bytes)
    (hl : lines = A ++ x :: B) (hx : lineOK x = true) (hz : tsOf x = 0)
    (h1 : (render A).length ≤ (render lines).length / 2)
    (h2 : (render lines).length / 2 ≤ (render A).length + x.length) (q : QState) :
    seekTS P (fileOfLines lines) tsOf q target = ({ q with hasBuf := false }, .error .emptyTS) := by
  obtain ⟨_, hnl, hxlen⟩ := (lineOK_iff x).1 hx
  have hLA := lineAt_split A B x hnl
  rw [← hl] at hLA
  have hslice := slice_line A B x
  rw [← hl] at hslice
  have hsz : (fileOfLines lines).size = (render lines).length := rfl
  have hlt := hLA.lt
  have hne : (fileOfLines lines).size ≠ 0 := by omega
  have hprobe := readProbeLine_line P (fileOfLines lines) _ _ (((fileOfLines lines).size - 0) / 2) hLA
    (by omega) (by rw [hsz]; simpa using h1) (by rw [hsz]; simpa using h2)
  have hval : validateIdx (render A).length none (fileOfLines lines).size = none := by
    unfold validateIdx
    have : ¬ ((render A).length = (fileOfLines lines).size) := by omega
    simp [this]
  unfold seekTS
  simp only [hne, if_false]
  have : maxDepth = 99 + 1 := rfl
  rw [this, seekLoop, hprobe]
  simp only [hval, hslice, hz, if_true]

end
end AGH.C20
