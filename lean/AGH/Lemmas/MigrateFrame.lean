/-
C13, settings a step does not concern are preserved at every depth: general facts
about the spec's frame predicate `frameV` (reflexive, monotone in the concerned
paths, transitive, implies equality of every unconcerned path) and the lemma by
which the per-step proofs establish it (`frameV_obj_mod`).
-/
import AGH.Lemmas.MigratePath
namespace AGH.C13
open AGH

/-! ### equality of documents is equality -/

mutual
theorem YVal.eq_of_beq : ∀ a b : YVal, YVal.beq a b = true → a = b
  | .null, b, h => by cases b <;> simp [YVal.beq] at h ⊢
  | .bool _, b, h => by cases b <;> simp [YVal.beq] at h ⊢; exact h
  | .int _, b, h => by cases b <;> simp [YVal.beq] at h ⊢; exact h
  | .str _, b, h => by cases b <;> simp [YVal.beq] at h ⊢; exact h
  | .opaque _ _, b, h => by cases b <;> simp [YVal.beq] at h ⊢; exact h
  | .arr xs, b, h => by
    cases b <;> simp [YVal.beq] at h ⊢
    exact YVal.eq_of_beqList xs _ h
  | .obj es, b, h => by
    cases b <;> simp [YVal.beq] at h ⊢
    exact YVal.eq_of_beqEntries es _ h
  | .dur _, b, h => by cases b <;> simp [YVal.beq] at h ⊢; exact h
  | .strs _, b, h => by cases b <;> simp [YVal.beq] at h ⊢; exact h
  | .umode _, b, h => by cases b <;> simp [YVal.beq] at h ⊢; exact h
theorem YVal.eq_of_beqList : ∀ xs ys : List YVal, YVal.beqList xs ys = true → xs = ys
  | [], ys, h => by cases ys <;> simp [YVal.beqList] at h ⊢
  | x :: xs, ys, h => by
    cases ys with
    | nil => simp [YVal.beqList] at h
    | cons y ys =>
      simp [YVal.beqList] at h
      rw [YVal.eq_of_beq x y h.1, YVal.eq_of_beqList xs ys h.2]
theorem YVal.eq_of_beqEntries : ∀ es fs : List (Key × YVal), YVal.beqEntries es fs = true → es = fs
  | [], fs, h => by cases fs <;> simp [YVal.beqEntries] at h ⊢
  | (k, x) :: es, fs, h => by
    cases fs with
    | nil => simp [YVal.beqEntries] at h
    | cons f fs =>
      obtain ⟨l, y⟩ := f
      simp [YVal.beqEntries] at h
      rw [h.1.1, YVal.eq_of_beq x y h.1.2, YVal.eq_of_beqEntries es fs h.2]
end

theorem YVal.beq_iff (a b : YVal) : (a == b) = true ↔ a = b :=
  ⟨YVal.eq_of_beq a b, fun h => h ▸ YVal.beq_refl a⟩

theorem optBeq_iff (a b : Option YVal) : (a == b) = true ↔ a = b := by
  cases a <;> cases b <;> simp [YVal.beq_iff]

/-! ### the equations of `frameV` -/

/-- The shape part of `frameV`. -/
def frameShape (fp : List Path) (rp : Path) (din : YVal) (dout : Option YVal) : Bool :=
  match din, dout with
  | .obj es, some (.obj fs) => frameEs fp rp [] es fs && newKeysOK fp rp es fs
  | .arr xs, some (.arr ys) => frameList fp rp xs ys
  | _, _ => dout == some din

theorem frameV_eq (fp : List Path) (rp : Path) (din : YVal) (dout : Option YVal) :
    frameV fp rp din dout =
      (if isTouched fp rp.reverse then true
       else if !reaches fp rp.reverse then dout == some din
       else frameShape fp rp din dout) := by
  cases din <;> cases dout <;> (try (rename_i v; cases v)) <;> simp [frameV, frameShape]

/-- The fields of a mapping, by key. -/
theorem frameEs_iff (fp : List Path) (rp : Path) : ∀ (es : List (Key × YVal)) (seen : List Key) (fs),
    frameEs fp rp seen es fs = true ↔
      ∀ k v, k ∉ seen → lookup k es = some v → frameV fp (pk k :: rp) v (lookup k fs) = true := by
  intro es
  induction es with
  | nil => intro seen fs; simp [frameEs, lookup]
  | cons e es ih =>
    intro seen fs
    obtain ⟨k0, v0⟩ := e
    rw [frameEs, Bool.and_eq_true, Bool.or_eq_true, ih, lookupE_eq_lookup, List.contains_iff_mem]
    constructor
    · rintro ⟨h1, h2⟩ k v hk hl
      by_cases hk0 : k0 = k
      · subst hk0
        simp [lookup] at hl; subst hl
        rcases h1 with h1 | h1
        · exact absurd h1 hk
        · exact h1
      · simp [lookup, hk0] at hl
        exact h2 k v (by simp [hk, Ne.symm hk0]) hl
    · intro h
      refine ⟨?_, fun k v hk hl => ?_⟩
      · by_cases hs : k0 ∈ seen
        · exact Or.inl hs
        · exact Or.inr (h k0 v0 hs (by simp [lookup]))
      · simp at hk
        exact h k v hk.2 (by simp [lookup, Ne.symm hk.1, hl])

theorem lookup_isSome_of_mem {k : Key} {w : YVal} {fs : List (Key × YVal)} (h : (k, w) ∈ fs) :
    (lookup k fs).isSome = true := by
  induction fs with
  | nil => simp at h
  | cons f fs ih =>
    obtain ⟨l, y⟩ := f
    by_cases hl : l = k
    · simp [lookup, hl]
    · simp [lookup, hl]
      simp at h
      rcases h with ⟨rfl, _⟩ | h
      · exact absurd rfl hl
      · exact ih h

theorem newKeysOK_of (fp : List Path) (rp : Path) (es : List (Key × YVal)) : ∀ (fs : List (Key × YVal)),
    (∀ k, (lookup k fs).isSome = true → (lookup k es).isSome = true ∨ isTouched fp (pk k :: rp).reverse = true) →
    newKeysOK fp rp es fs = true := by
  intro fs
  -- generalise: the condition is used for the keys of a suffix
  suffices h : ∀ (gs : List (Key × YVal)), (∀ k w, (k, w) ∈ gs →
      (lookup k es).isSome = true ∨ isTouched fp (pk k :: rp).reverse = true) → newKeysOK fp rp es gs = true by
    intro hk
    exact h fs (fun k w hm => hk k (lookup_isSome_of_mem hm))
  intro gs
  induction gs with
  | nil => intro _; rfl
  | cons g gs ih =>
    intro hk
    obtain ⟨k, w⟩ := g
    rw [newKeysOK, Bool.and_eq_true, Bool.or_eq_true, lookupE_eq_lookup]
    exact ⟨hk k w (by simp), ih (fun k' w' hm => hk k' w' (by simp [hm]))⟩

theorem newKeysOK_elim (fp : List Path) (rp : Path) (es : List (Key × YVal)) : ∀ (fs : List (Key × YVal)),
    newKeysOK fp rp es fs = true → ∀ k, (lookup k fs).isSome = true →
      (lookup k es).isSome = true ∨ isTouched fp (pk k :: rp).reverse = true := by
  intro fs
  induction fs with
  | nil => intro _ k hk; simp [lookup] at hk
  | cons f fs ih =>
    intro h k hk
    obtain ⟨l, y⟩ := f
    rw [newKeysOK, Bool.and_eq_true, Bool.or_eq_true, lookupE_eq_lookup] at h
    by_cases hl : l = k
    · subst hl; exact h.1
    · simp [lookup, hl] at hk
      exact ih h.2 k (by simpa using hk)

/-! ### a document is a frame of itself -/

theorem sizeOf_lookup {k : Key} {v : YVal} {es : List (Key × YVal)} (h : lookup k es = some v) :
    sizeOf v < sizeOf es := by
  have hm := List.sizeOf_lt_of_mem (mem_of_lookup h)
  have : sizeOf v < sizeOf (k, v) := by simp; omega
  omega

theorem frameList_of (fp : List Path) (rp : Path) : ∀ (xs ys : List YVal), xs.length = ys.length →
    (∀ i (hx : i < xs.length) (hy : i < ys.length), frameV fp (.each :: rp) xs[i] (some ys[i]) = true) →
    frameList fp rp xs ys = true
  | [], [], _, _ => by simp [frameList]
  | [], _ :: _, h, _ => by simp at h
  | _ :: _, [], h, _ => by simp at h
  | x :: xs, y :: ys, hl, h => by
    rw [frameList, Bool.and_eq_true]
    refine ⟨h 0 (by simp) (by simp), frameList_of fp rp xs ys (by simpa using hl) (fun i hx hy => ?_)⟩
    have := h (i + 1) (by simp; omega) (by simp; omega)
    simpa using this

theorem frameList_elim (fp : List Path) (rp : Path) : ∀ (xs ys : List YVal), frameList fp rp xs ys = true →
    xs.length = ys.length ∧
    ∀ i (hx : i < xs.length) (hy : i < ys.length), frameV fp (.each :: rp) xs[i] (some ys[i]) = true
  | [], [], _ => by simp
  | [], _ :: _, h => by simp [frameList] at h
  | _ :: _, [], h => by simp [frameList] at h
  | x :: xs, y :: ys, h => by
    rw [frameList, Bool.and_eq_true] at h
    obtain ⟨hl, hi⟩ := frameList_elim fp rp xs ys h.2
    refine ⟨by simp [hl], fun i hx hy => ?_⟩
    cases i with
    | zero => simpa using h.1
    | succ i => simpa using hi i (by simpa using hx) (by simpa using hy)

theorem frameV_self_aux (n : Nat) : ∀ (v : YVal), sizeOf v ≤ n → ∀ (fp : List Path) (rp : Path),
    frameV fp rp v (some v) = true := by
  induction n with
  | zero => intro v hv; cases v <;> simp at hv <;> omega
  | succ n ih =>
    intro v hv fp rp
    rw [frameV_eq]
    split
    · rfl
    · split
      · exact (optBeq_iff _ _).2 rfl
      · cases v with
        | obj es =>
          simp only [frameShape, Bool.and_eq_true]
          refine ⟨(frameEs_iff fp rp es [] es).2 (fun k w _ hl => ?_), newKeysOK_of fp rp es es (fun k hk => Or.inl hk)⟩
          rw [hl]
          have := sizeOf_lookup hl
          simp at hv
          exact ih w (by omega) fp _
        | arr xs =>
          simp only [frameShape]
          refine frameList_of fp rp xs xs rfl (fun i hx _ => ?_)
          have := List.sizeOf_lt_of_mem (List.getElem_mem hx)
          simp at hv
          exact ih _ (by omega) fp _
        | _ => simp only [frameShape]; exact (optBeq_iff _ _).2 rfl

theorem frameV_self (fp : List Path) (rp : Path) (v : YVal) : frameV fp rp v (some v) = true :=
  frameV_self_aux (sizeOf v) v (Nat.le_refl _) fp rp

/-! ### a mapping changed at a few keys -/

/-- `B` is `A` except at the keys `K`; at each of them the field is concerned, or framed below. -/
theorem frame_obj_mod (fp : List Path) (rp : Path) (A B : List (Key × YVal)) (K : List Key)
    (hdiff : ∀ k, k ∉ K → lookup k B = lookup k A)
    (hK : ∀ k ∈ K, (∀ v, lookup k A = some v → frameV fp (pk k :: rp) v (lookup k B) = true) ∧
      ((lookup k B).isSome = true → (lookup k A).isSome = true ∨ isTouched fp (pk k :: rp).reverse = true)) :
    (frameEs fp rp [] A B && newKeysOK fp rp A B) = true := by
  rw [Bool.and_eq_true]
  constructor
  · rw [frameEs_iff]
    intro k v _ hl
    by_cases hk : k ∈ K
    · exact (hK k hk).1 v hl
    · rw [hdiff k hk, hl]; exact frameV_self fp _ v
  · apply newKeysOK_of
    intro k hs
    by_cases hk : k ∈ K
    · exact (hK k hk).2 hs
    · rw [hdiff k hk] at hs; exact Or.inl hs

/-- The same one level up: the frame of a mapping below a path that is not itself concerned. -/
theorem frameV_obj_mod (fp : List Path) (rp : Path) (A B : List (Key × YVal)) (K : List Key)
    (hr : isTouched fp rp.reverse = true ∨ reaches fp rp.reverse = true)
    (hdiff : ∀ k, k ∉ K → lookup k B = lookup k A)
    (hK : ∀ k ∈ K, (∀ v, lookup k A = some v → frameV fp (pk k :: rp) v (lookup k B) = true) ∧
      ((lookup k B).isSome = true → (lookup k A).isSome = true ∨ isTouched fp (pk k :: rp).reverse = true)) :
    frameV fp rp (.obj A) (some (.obj B)) = true := by
  rw [frameV_eq]
  split
  · rfl
  · rename_i ht
    have hr' : reaches fp rp.reverse = true := by
      rcases hr with h | h
      · exact absurd h ht
      · exact h
    simp only [hr', Bool.not_true, Bool.false_eq_true, if_false, frameShape]
    exact frame_obj_mod fp rp A B K hdiff hK

theorem frameV_touched (fp : List Path) (rp : Path) (v : YVal) (w : Option YVal)
    (h : isTouched fp rp.reverse = true) : frameV fp rp v w = true := by
  rw [frameV_eq, h]; rfl

theorem frameV_arr_of (fp : List Path) (rp : Path) (xs ys : List YVal)
    (hr : isTouched fp rp.reverse = true ∨ reaches fp rp.reverse = true)
    (h : frameList fp rp xs ys = true) : frameV fp rp (.arr xs) (some (.arr ys)) = true := by
  rw [frameV_eq]
  split
  · rfl
  · rename_i ht
    have hr' : reaches fp rp.reverse = true := by
      rcases hr with h | h
      · exact absurd h ht
      · exact h
    simp only [hr', Bool.not_true, Bool.false_eq_true, if_false, frameShape]
    exact h

/-! ### more concerned paths, and frames in sequence -/

theorem isTouched_append (f1 f2 : List Path) (p : Path) :
    isTouched (f1 ++ f2) p = (isTouched f1 p || isTouched f2 p) := by
  simp [isTouched, List.any_append]

theorem reaches_append (f1 f2 : List Path) (p : Path) :
    reaches (f1 ++ f2) p = (reaches f1 p || reaches f2 p) := by
  simp [reaches, List.any_append]

theorem isTouched_mono {f1 f : List Path} (hsub : ∀ q ∈ f1, q ∈ f) {p : Path} (h : isTouched f1 p = true) :
    isTouched f p = true := by
  simp only [isTouched, List.any_eq_true] at h ⊢
  obtain ⟨q, hq, he⟩ := h
  exact ⟨q, hsub q hq, he⟩

theorem reaches_mono {f1 f : List Path} (hsub : ∀ q ∈ f1, q ∈ f) {p : Path} (h : reaches f1 p = true) :
    reaches f p = true := by
  simp only [reaches, List.any_eq_true] at h ⊢
  obtain ⟨q, hq, he⟩ := h
  exact ⟨q, hsub q hq, he⟩

/-- An absent field is framed only when it is concerned. -/
theorem frameV_none {fp : List Path} {rp : Path} {v : YVal} (h : frameV fp rp v none = true) :
    isTouched fp rp.reverse = true := by
  rw [frameV_eq] at h
  split at h
  · assumption
  · split at h
    · simp at h
    · cases v <;> simp [frameShape] at h

theorem frameV_mono_aux (n : Nat) : ∀ (a : YVal), sizeOf a ≤ n → ∀ (f1 f : List Path), (∀ q ∈ f1, q ∈ f) →
    ∀ (rp : Path) (c : Option YVal), frameV f1 rp a c = true → frameV f rp a c = true := by
  induction n with
  | zero => intro a ha; cases a <;> simp at ha <;> omega
  | succ n ih =>
    intro a ha f1 f hsub rp c h
    by_cases ht : isTouched f rp.reverse = true
    · exact frameV_touched f rp a c ht
    have ht1 : ¬ isTouched f1 rp.reverse = true := fun h1 => ht (isTouched_mono hsub h1)
    rw [frameV_eq] at h
    simp only [ht1, if_false] at h
    by_cases hr1 : reaches f1 rp.reverse = true
    · have hr : reaches f rp.reverse = true := reaches_mono hsub hr1
      simp only [hr1, Bool.not_true, Bool.false_eq_true, if_false] at h
      rw [frameV_eq]
      simp only [ht, hr, Bool.not_true, Bool.false_eq_true, if_false]
      cases a with
      | obj es =>
        cases c with
        | none => simp [frameShape] at h
        | some c' =>
          cases c' <;> try (simpa [frameShape] using h)
          rename_i fs
          simp only [frameShape, Bool.and_eq_true] at h ⊢
          refine ⟨(frameEs_iff f rp es [] fs).2 (fun k v _ hl => ?_), newKeysOK_of f rp es fs (fun k hk => ?_)⟩
          · have := (frameEs_iff f1 rp es [] fs).1 h.1 k v (by simp) hl
            have hs := sizeOf_lookup hl
            simp at ha
            exact ih v (by omega) f1 f hsub _ _ this
          · rcases newKeysOK_elim f1 rp es fs h.2 k hk with h' | h'
            · exact Or.inl h'
            · exact Or.inr (isTouched_mono hsub h')
      | arr xs =>
        cases c with
        | none => simp [frameShape] at h
        | some c' =>
          cases c' <;> try (simpa [frameShape] using h)
          rename_i ys
          simp only [frameShape] at h ⊢
          obtain ⟨hl, hi⟩ := frameList_elim f1 rp xs ys h
          refine frameList_of f rp xs ys hl (fun i hx hy => ?_)
          have hs := List.sizeOf_lt_of_mem (List.getElem_mem hx)
          simp at ha
          exact ih _ (by omega) f1 f hsub _ _ (hi i hx hy)
      | _ => simpa [frameShape] using h
    · simp only [hr1, Bool.not_false, if_true] at h
      rw [(optBeq_iff _ _).1 h]
      exact frameV_self f rp a

theorem frameV_mono {f1 f : List Path} (hsub : ∀ q ∈ f1, q ∈ f) {rp : Path} {a : YVal} {c : Option YVal}
    (h : frameV f1 rp a c = true) : frameV f rp a c = true :=
  frameV_mono_aux (sizeOf a) a (Nat.le_refl _) f1 f hsub rp c h

/-- The three ways the shape part can hold. -/
theorem frameShape_cases {f : List Path} {rp : Path} {b : YVal} {c : Option YVal}
    (h : frameShape f rp b c = true) :
    c = some b ∨
    (∃ fs gs, b = .obj fs ∧ c = some (.obj gs) ∧ frameEs f rp [] fs gs = true ∧ newKeysOK f rp fs gs = true) ∨
    (∃ ys zs, b = .arr ys ∧ c = some (.arr zs) ∧ frameList f rp ys zs = true) := by
  cases b <;> cases c <;> (try (rename_i c'; cases c')) <;>
    simp_all [frameShape, optBeq_iff, YVal.beq_iff] <;> (try (subst h; simp))

theorem frameV_trans_aux (n : Nat) : ∀ (a : YVal), sizeOf a ≤ n → ∀ (f1 f2 : List Path) (rp : Path)
    (b : YVal) (c : Option YVal), frameV f1 rp a (some b) = true → frameV f2 rp b c = true →
    frameV (f1 ++ f2) rp a c = true := by
  induction n with
  | zero => intro a ha; cases a <;> simp at ha <;> omega
  | succ n ih =>
    intro a ha f1 f2 rp b c h1 h2
    have sub1 : ∀ q ∈ f1, q ∈ f1 ++ f2 := fun q hq => by simp [hq]
    have sub2 : ∀ q ∈ f2, q ∈ f1 ++ f2 := fun q hq => by simp [hq]
    by_cases ht : isTouched (f1 ++ f2) rp.reverse = true
    · exact frameV_touched _ rp a c ht
    have htf := ht
    rw [isTouched_append] at ht
    simp only [Bool.or_eq_true, not_or] at ht
    have h1' := h1
    have h2' := h2
    rw [frameV_eq] at h1' h2'
    simp only [ht.1, ht.2, if_false] at h1' h2'
    by_cases hr1 : reaches f1 rp.reverse = true
    · by_cases hr2 : reaches f2 rp.reverse = true
      · simp only [hr1, hr2, Bool.not_true, Bool.false_eq_true, if_false] at h1' h2'
        have hr : reaches (f1 ++ f2) rp.reverse = true := by rw [reaches_append, hr1]; rfl
        rcases frameShape_cases h1' with hb | ⟨es, fs, rfl, hb, he1, hn1⟩ | ⟨xs, ys, rfl, hb, hl1⟩
        · -- the first run left this subtree as it was
          cases hb; exact frameV_mono sub2 h2
        · cases hb
          rcases frameShape_cases h2' with hc | ⟨fs', gs, hfs, rfl, he2, hn2⟩ | ⟨_, _, hfs, _, _⟩
          · subst hc; exact frameV_mono sub1 h1
          · cases hfs
            rw [frameV_eq]
            simp only [htf, hr, Bool.not_true, Bool.false_eq_true, if_false, frameShape, Bool.and_eq_true]
            refine ⟨(frameEs_iff _ rp es [] gs).2 (fun k v _ hl => ?_), newKeysOK_of _ rp es gs (fun k hk => ?_)⟩
            · have hv := (frameEs_iff f1 rp es [] fs).1 he1 k v (by simp) hl
              cases hf : lookup k fs with
              | none =>
                rw [hf] at hv
                exact frameV_touched _ _ _ _ (isTouched_mono sub1 (frameV_none hv))
              | some w =>
                rw [hf] at hv
                have hw := (frameEs_iff f2 rp fs [] gs).1 he2 k w (by simp) hf
                have hs := sizeOf_lookup hl
                simp at ha
                exact ih v (by omega) f1 f2 _ w _ hv hw
            · rcases newKeysOK_elim f2 rp fs gs hn2 k hk with h' | h'
              · rcases newKeysOK_elim f1 rp es fs hn1 k h' with h'' | h''
                · exact Or.inl h''
                · exact Or.inr (isTouched_mono sub1 h'')
              · exact Or.inr (isTouched_mono sub2 h')
          · cases hfs
        · cases hb
          rcases frameShape_cases h2' with hc | ⟨_, _, hys, _, _, _⟩ | ⟨ys', zs, hys, rfl, hl2⟩
          · subst hc; exact frameV_mono sub1 h1
          · cases hys
          · cases hys
            rw [frameV_eq]
            simp only [htf, hr, Bool.not_true, Bool.false_eq_true, if_false, frameShape]
            obtain ⟨hlen1, hi1⟩ := frameList_elim f1 rp xs ys hl1
            obtain ⟨hlen2, hi2⟩ := frameList_elim f2 rp ys zs hl2
            refine frameList_of _ rp xs zs (by omega) (fun i hx hz => ?_)
            have hy : i < ys.length := by omega
            have hs := List.sizeOf_lt_of_mem (List.getElem_mem hx)
            simp at ha
            exact ih _ (by omega) f1 f2 _ _ _ (hi1 i hx hy) (hi2 i hy hz)
      · simp only [hr2, Bool.not_false, if_true] at h2'
        rw [(optBeq_iff _ _).1 h2']
        exact frameV_mono sub1 h1
    · simp only [hr1, Bool.not_false, if_true] at h1'
      have : b = a := by simpa using (optBeq_iff _ _).1 h1'
      subst this
      exact frameV_mono sub2 h2

/-- Frames of two consecutive runs compose. -/
theorem frameV_trans {f1 f2 : List Path} {rp : Path} {a b : YVal} {c : Option YVal}
    (h1 : frameV f1 rp a (some b) = true) (h2 : frameV f2 rp b c = true) :
    frameV (f1 ++ f2) rp a c = true :=
  frameV_trans_aux (sizeOf a) a (Nat.le_refl _) f1 f2 rp b c h1 h2

end AGH.C13
