/-
C05 — lemmas about the lock machine, part 3: the Bool monitors decide the
Props, the executable runner stays inside `Reach`, the model meets the schedule
monitor, table obligations + conformance give the disciplines; non-vacuity
examples.  Core Lean only.
-/
import AGH.Lemmas.LocksProgress
namespace AGH.C05

/-! ### 4. the Bool monitors decide the Props -/

theorem raceB_iff (s : State) : raceB s = true ↔ Race s := by
  unfold raceB Race
  simp only [List.any_eq_true, List.mem_range, List.length_map, Bool.and_eq_true,
    List.getElem?_map]
  constructor
  · rintro ⟨i, _, j, _, hij, hm⟩
    cases hsi : s[i]? with
    | none => rw [hsi] at hm; simp at hm
    | some ti =>
      cases hsj : s[j]? with
      | none => rw [hsj] at hm; simp at hm
      | some tj =>
        rw [hsi, hsj] at hm
        simp only [Option.map_some] at hm
        cases hni : nextAccess ti with
        | none => rw [hni] at hm; simp at hm
        | some ai =>
          cases hnj : nextAccess tj with
          | none => rw [hnj] at hm; simp at hm
          | some aj =>
            obtain ⟨x, wi⟩ := ai
            obtain ⟨y, wj⟩ := aj
            rw [hni, hnj] at hm
            simp only [Bool.and_eq_true, beq_iff_eq, Bool.or_eq_true] at hm
            obtain ⟨rfl, hw⟩ := hm
            refine ⟨i, j, x, wi, wj, by simpa using hij, ?_, ?_, hw⟩
            · rw [hsi]; exact hni
            · rw [hsj]; exact hnj
  · rintro ⟨i, j, x, wi, wj, hij, hi, hj, hw⟩
    cases hsi : s[i]? with
    | none => rw [hsi] at hi; cases hi
    | some ti =>
      cases hsj : s[j]? with
      | none => rw [hsj] at hj; cases hj
      | some tj =>
        rw [hsi] at hi; rw [hsj] at hj
        have hi' : nextAccess ti = some (x, wi) := hi
        have hj' : nextAccess tj = some (x, wj) := hj
        have hil : i < s.length := by
          rcases Nat.lt_or_ge i s.length with h | h
          · exact h
          · rw [List.getElem?_eq_none h] at hsi; cases hsi
        have hjl : j < s.length := by
          rcases Nat.lt_or_ge j s.length with h | h
          · exact h
          · rw [List.getElem?_eq_none h] at hsj; cases hsj
        refine ⟨i, hil, j, hjl, by simpa using hij, ?_⟩
        simp only [hsi, hsj, Option.map_some, hi', hj']
        simpa using hw

theorem deadlockB_iff (s : State) : deadlockB s = true ↔ Deadlock s := by
  unfold deadlockB Deadlock
  rw [Bool.and_eq_true, List.all_eq_true]
  constructor
  · rintro ⟨hu, hall⟩
    refine ⟨hu, fun i => ?_⟩
    by_cases hi : i < s.length
    · have := hall i (List.mem_range.2 hi)
      exact Option.isNone_iff_eq_none.1 this
    · unfold stepThread
      rw [List.getElem?_eq_none (Nat.le_of_not_lt hi)]
  · rintro ⟨hu, hall⟩
    exact ⟨hu, fun i _ => by rw [hall i]; rfl⟩

/-! ### 5. the executable runner -/

/-- What `stepForced` does under the model's own grant decision: nothing if
the pick is refused, the machine's `run` step otherwise. -/
theorem stepForced_grant (s : State) (i : Nat) :
    (stepThread s i = none ∧ stepForced s i (grantOf s i) = s) ∨
    stepThread s i = some (stepForced s i (grantOf s i)) := by
  unfold grantOf stepForced stepThread
  cases hs : s[i]? with
  | none => left; simp
  | some t =>
    by_cases he : enabled s t = true
    · right; simp [he]
    · left; simp [he]

theorem stepForced_grant_reach {s₀ s : State} (h : Reach s₀ s) (i : Nat) :
    Reach s₀ (stepForced s i (grantOf s i)) := by
  rcases stepForced_grant s i with ⟨_, he⟩ | hst
  · rw [he]; exact h
  · exact Reach.step h (Step.run i hst)

theorem statesFrom_reach (s₀ s : State) (h : Reach s₀ s) (sched : List Nat) :
    ∀ s' ∈ statesFrom s sched, Reach s₀ s' := by
  induction sched generalizing s with
  | nil =>
    intro s' hs'
    simp only [statesFrom, List.mem_singleton] at hs'
    subst hs'; exact h
  | cons i is ih =>
    intro s' hs'
    simp only [statesFrom, List.mem_cons] at hs'
    rcases hs' with rfl | hs'
    · exact h
    · exact ih _ (stepForced_grant_reach h i) s' hs'

theorem replay_own_grants (s : State) (sched : List Nat) :
    replayFrom s sched (grantsFrom s sched) = statesFrom s sched := by
  induction sched generalizing s with
  | nil => rfl
  | cons i is ih =>
    simp only [grantsFrom, replayFrom, statesFrom]
    rw [ih]

/-! ### 6. the model meets the schedule monitor -/

theorem model_meets_specSched (guard : Var → Lock) (rank : Lock → Nat) (p : Prog)
    (sched : List Nat) :
    specSched guard rank p sched (modelSched p sched) = true := by
  unfold specSched modelSched
  simp only
  rw [replay_own_grants]
  have hreach := statesFrom_reach (init p) (init p) Reach.refl sched
  rw [Bool.and_eq_true]
  constructor
  · cases hd : progDisc guard p with
    | false => rfl
    | true =>
      simp only [Bool.not_true, Bool.false_or]
      rw [List.all_eq_true]
      intro s hs
      cases hr : raceB s with
      | false => rfl
      | true => exact absurd ((raceB_iff s).1 hr) (lockset_sound guard p hd s (hreach s hs))
  · cases hd : progRanked rank p with
    | false => rfl
    | true =>
      simp only [Bool.not_true, Bool.false_or]
      rw [List.all_eq_true]
      intro s hs
      cases hr : deadlockB s with
      | false => rfl
      | true => exact absurd ((deadlockB_iff s).1 hr) (order_sound rank p hd s (hreach s hs))

/-! ### 7. table obligations + conformance give the disciplines -/

theorem row_guard {guards : List (Nat × Nat)} {accs : List AccessRow}
    (ht : tableDisciplined guards accs = true) {a : AccessRow} (ha : a ∈ accs)
    (hk : a.known = false) :
    (a.write = true → a.heldExcl.contains (guardOf guards a.field) = true) ∧
    (a.write = false → (a.heldExcl.contains (guardOf guards a.field) = true ∨
      a.heldShared.contains (guardOf guards a.field) = true)) := by
  have hrow := List.all_eq_true.1 ht a ha
  rw [hk, Bool.false_or] at hrow
  unfold rowOK at hrow
  unfold guardOf
  cases hl : lookup guards a.field with
  | none => rw [hl] at hrow; cases hrow
  | some g =>
    rw [hl] at hrow
    simp only at hrow
    simp only [Option.getD_some]
    constructor
    · intro hw; rw [if_pos hw] at hrow; exact hrow
    · intro hw
      rw [if_neg (by rw [hw]; exact Bool.false_ne_true)] at hrow
      simpa using hrow

theorem disc_of_conforms (guards : List (Nat × Nat)) (accs : List AccessRow)
    (ht : tableDisciplined guards accs = true) :
    ∀ (t : List LEvent) (held : List (Lock × Mode)), conformsAcc accs held t = true →
      discOK (guardOf guards) held (eraseLabels t) = true := by
  intro t
  induction t with
  | nil => intro held _; rfl
  | cons ev r ih =>
    intro held hc
    obtain ⟨e, σ⟩ := ev
    cases e with
    | acq l m => exact ih _ hc
    | rel l m => exact ih _ hc
    | rd x =>
      simp only [conformsAcc, Bool.and_eq_true, List.any_eq_true] at hc
      obtain ⟨⟨a, ha, ⟨⟨⟨⟨⟨_, hk⟩, hf⟩, hw⟩, hsh⟩, hex⟩⟩, hrest⟩ := hc
      have hk' : a.known = false := by simpa using hk
      have hf' : a.field = x := by simpa using hf
      have hw' : a.write = false := by simpa using hw
      have hg := (row_guard ht ha hk').2 hw'
      rw [hf'] at hg
      show (mayRead held (guardOf guards x) && discOK (guardOf guards) held (eraseLabels r)) = true
      rw [ih _ hrest, Bool.and_true]
      unfold mayRead
      rcases hg with hg | hg
      · have := List.all_eq_true.1 hex _ (List.contains_iff_mem.1 hg)
        rw [this, Bool.or_true]
      · have := List.all_eq_true.1 hsh _ (List.contains_iff_mem.1 hg)
        exact this
    | wr x =>
      simp only [conformsAcc, Bool.and_eq_true, List.any_eq_true] at hc
      obtain ⟨⟨a, ha, ⟨⟨⟨⟨⟨_, hk⟩, hf⟩, hw⟩, _⟩, hex⟩⟩, hrest⟩ := hc
      have hk' : a.known = false := by simpa using hk
      have hf' : a.field = x := by simpa using hf
      have hg := (row_guard ht ha hk').1 hw
      rw [hf'] at hg
      show (mayWrite held (guardOf guards x) && discOK (guardOf guards) held (eraseLabels r)) = true
      rw [ih _ hrest, Bool.and_true]
      unfold mayWrite
      exact List.all_eq_true.1 hex _ (List.contains_iff_mem.1 hg)

theorem rank_of_conforms (ranks edges : List (Nat × Nat)) (he : edgesRanked ranks edges = true) :
    ∀ (t : List Event) (held : List (Lock × Mode)), conformsOrd edges held t = true →
      rankOK (rankOf ranks) held t = true := by
  intro t
  induction t with
  | nil => intro held hc; exact hc
  | cons e r ih =>
    intro held hc
    cases e with
    | acq l m =>
      simp only [conformsOrd, Bool.and_eq_true] at hc
      simp only [rankOK, Bool.and_eq_true]
      refine ⟨?_, ih _ hc.2⟩
      rw [List.all_eq_true]
      intro h hh
      have hmem := List.contains_iff_mem.1 (List.all_eq_true.1 hc.1 h hh)
      have := List.all_eq_true.1 he _ hmem
      simpa using this
    | rel l m =>
      simp only [conformsOrd, Bool.and_eq_true] at hc
      simp only [rankOK, Bool.and_eq_true]
      exact ⟨hc.1, ih _ hc.2⟩
    | rd x => exact ih _ hc
    | wr x => exact ih _ hc

end AGH.C05
