/-
C20 helper lemmas, part 12: `readQLogTimestamp` at byte level — the quick scan
for the first `"T":"` (then `"Time":"`) and the value up to the next quote.
Core only.
-/
import AGH.Model.QLogFile
namespace AGH.C20
open AGH

/-- `strings.Index` finds the FIRST occurrence. -/
theorem indexOf_first (pat : Bytes) (hp : pat ≠ []) : ∀ (pre rest : Bytes),
    (∀ j, j < pre.length → pat.isPrefixOf ((pre ++ pat ++ rest).drop j) = false) →
    indexOf pat (pre ++ pat ++ rest) = some pre.length := by
  intro pre
  induction pre with
  | nil =>
    intro rest _
    cases hpr : pat with
    | nil => exact absurd hpr hp
    | cons b t =>
      simp only [List.nil_append, List.cons_append, indexOf]
      have : (b :: t).isPrefixOf (b :: (t ++ rest)) = true := by
        rw [List.isPrefixOf_iff_prefix]; exact List.prefix_append (b :: t) rest
      simp [this]
  | cons a pre ih =>
    intro rest hno
    have h0 := hno 0 (by simp)
    simp only [List.drop_zero, List.cons_append] at h0
    simp only [List.cons_append, indexOf, h0, Bool.false_eq_true, if_false, List.length_cons]
    rw [ih rest (fun j hj => by
      have := hno (j + 1) (by simp; omega)
      simpa using this)]
    rfl

/-- `readJSONValue`: the bytes between the first occurrence of the key and the next quote. -/
theorem readJSONValue_first (key pre v post : Bytes) (hk : key ≠ [])
    (hno : ∀ j, j < pre.length → key.isPrefixOf ((pre ++ key ++ (v ++ 34 :: post)).drop j) = false)
    (hv : ¬ (34 ∈ v)) :
    readJSONValue (pre ++ key ++ (v ++ 34 :: post)) key = v := by
  unfold readJSONValue
  rw [indexOf_first key hk pre _ hno]
  simp only
  have hdrop : (pre ++ key ++ (v ++ 34 :: post)).drop (pre.length + key.length) = v ++ 34 :: post := by
    rw [← List.length_append, List.drop_left']
    rfl
  rw [hdrop]
  have hq : indexOf [34] (v ++ [34] ++ post) = some v.length := by
    apply indexOf_first [34] (by simp) v post
    intro j hj
    have : (v ++ [34] ++ post).drop j = v[j] :: ((v ++ [34] ++ post).drop (j + 1)) := by
      rw [List.drop_eq_getElem_cons (by simp; omega)]
      congr 1
      simp [List.getElem_append_left, hj]
    rw [this]
    have hne : v[j] ≠ 34 := fun h => hv (h ▸ List.getElem_mem hj)
    simp [List.isPrefixOf]
    exact fun h => hne h.symm
  have : v ++ 34 :: post = v ++ [34] ++ post := by simp
  rw [this, hq]
  simp

/-- `time.RFC3339Nano`, the layout `readQLogTimestamp` parses with (the driver's
`parseTime` implements the fixed-day UTC part of it). -/
def rfc3339NanoLayout : Bytes := [50, 48, 48, 54, 45, 48, 49, 45, 48, 50, 84, 49, 53, 58, 48, 52, 58, 48, 53, 46, 57, 57, 57, 57, 57, 57, 57, 57, 57, 90, 48, 55, 58, 48, 48]

end AGH.C20
