/-
C20 ↔ C07: the byte-level two-file reader of C20 implements the abstract reader
the C07 model (`AGH/Model/QLog.lean`, another builder's file, imported
read-only) assumes: `filesRev`, `fileSeek`, `seekFiles`, `seekRecord`.

C07 works on entries, C20 on lines; the composition goes through an explicit
encoding hypothesis `Enc`: every stored entry `e` is the line `enc e`, a line of
the property's kind (non-empty, no newline, shorter than 16 KiB) from which
`readQLogTimestamp` (`tsOf`) reads `e.ts ≠ 0`.

C07 says "a file exists iff it is non-empty".  Here the existence of an EMPTY
file is a free parameter (`exR`, `exC`): the result is the same except when
both lists are empty and some (empty) file exists — see `lineSeek_seekFiles`.
-/
import AGH.Model.QLog
import AGH.Lemmas.QLogLineReader
namespace AGH.C20
open AGH

/-- The line ↔ entry encoding, for the entries stored in a file. -/
structure Enc (enc : C07.Entry → Bytes) (tsOf : Bytes → Int) (f : List C07.Entry) : Prop where
  ok : ∀ e ∈ f, lineOK (enc e) = true
  ts : ∀ e ∈ f, tsOf (enc e) = e.ts
  nz : ∀ e ∈ f, e.ts ≠ 0
  /-- C07's file invariant `Asc`, per file -/
  asc : f.Pairwise (fun a b => a.ts < b.ts)
  small : (render (f.map enc)).length < 2 ^ 63

/-- The files on disk: rotated then current; an empty one may or may not exist. -/
def descsOf (enc : C07.Entry → Bytes) (exR exC : Bool) (rot cur : List C07.Entry) : List FileDesc :=
  (if exR then [{ lines := rot.map enc }] else []) ++ (if exC then [{ lines := cur.map enc }] else [])

section
variable (enc : C07.Entry → Bytes) (tsOf : Bytes → Int)

theorem map_ts (f : List C07.Entry) (h : ∀ e ∈ f, tsOf (enc e) = e.ts) :
    (f.map enc).map tsOf = f.map (·.ts) := by
  rw [List.map_map]
  apply List.map_congr_left
  intro e he; exact h e he

theorem findIdx_map_ts (f : List C07.Entry) (t : Int) :
    (f.map (·.ts)).findIdx? (· == t) = f.findIdx? (fun e => e.ts == t) := by
  induction f with
  | nil => rfl
  | cons a f ih => simp [List.findIdx?_cons, ih]

theorem Enc.seekCtx (f : List C07.Entry) (h : Enc enc tsOf f) : SeekCtx tsOf (f.map enc) := by
  refine ⟨?_, ?_, ?_⟩
  · intro l hl; obtain ⟨e, he, rfl⟩ := List.mem_map.1 hl; exact h.ok e he
  · intro l hl; obtain ⟨e, he, rfl⟩ := List.mem_map.1 hl; rw [h.ts e he]; exact h.nz e he
  · rw [List.pairwise_map]
    exact List.Pairwise.imp_of_mem (fun ha hb hab => by rw [h.ts _ ha, h.ts _ hb]; exact hab) h.asc

/-- C07's `fileSeek` is C20's file-level seek, read through the encoding. -/
theorem lineSeekFile_fileSeek (f : List C07.Entry) (t : Int) (h : ∀ e ∈ f, tsOf (enc e) = e.ts) :
    lineSeekFile tsOf (f.map enc) t =
      match C07.fileSeek f t with
      | .found k => .ok k
      | .tooEarly => .error .tooEarly
      | .tooLate => .error .tooLate
      | .notFound => .error .notFound := by
  unfold lineSeekFile C07.fileSeek findStampIdx
  rw [map_ts enc tsOf f h, findIdx_map_ts]
  cases f.findIdx? (fun e => e.ts == t) with
  | some k => rfl
  | none =>
    simp only
    unfold absentErr
    have h1 : (∀ l ∈ f.map enc, t < tsOf l) ↔ (f.all (fun e => decide (t < e.ts)) = true) := by
      simp only [List.mem_map, forall_exists_index, and_imp, forall_apply_eq_imp_iff₂,
        List.all_eq_true, decide_eq_true_eq]
      exact ⟨fun hh e he => by rw [← h e he]; exact hh e he, fun hh e he => by rw [h e he]; exact hh e he⟩
    have h2 : (∀ l ∈ f.map enc, tsOf l < t) ↔ (f.all (fun e => decide (e.ts < t)) = true) := by
      simp only [List.mem_map, forall_exists_index, and_imp, forall_apply_eq_imp_iff₂,
        List.all_eq_true, decide_eq_true_eq]
      exact ⟨fun hh e he => by rw [← h e he]; exact hh e he, fun hh e he => by rw [h e he]; exact hh e he⟩
    by_cases c1 : f.all (fun e => decide (t < e.ts)) = true
    · rw [if_pos (h1.2 c1), if_pos c1]
    · rw [if_neg (fun hh => c1 (h1.1 hh)), if_neg c1]
      by_cases c2 : f.all (fun e => decide (e.ts < t)) = true
      · rw [if_pos (h2.2 c2), if_pos c2]
      · rw [if_neg (fun hh => c2 (h2.1 hh)), if_neg c2]

theorem fileSeek_nil (t : Int) : C07.fileSeek [] t = .tooEarly := by
  simp [C07.fileSeek]

theorem fileSeek_ne_nil (f : List C07.Entry) (t : Int) (h : C07.fileSeek f t ≠ .tooEarly) : f ≠ [] := by
  intro hf; subst hf; exact h (fileSeek_nil t)

/-- **C07's `seekFiles` is C20's `lineSeek`.**  `rot`/`cur` non-empty files exist;
an empty one may exist or not.  The only difference: both lists empty while
some (empty) file exists — the byte-level reader then reports `not found`
(every file says too-early), C07's model (which has no such file) says
"positioned, nothing to read".  Both give an empty search result. -/
theorem lineSeek_seekFiles (exR exC : Bool) (rot cur : List C07.Entry) (t : Int)
    (hR : rot ≠ [] → exR = true) (hC : cur ≠ [] → exC = true)
    (htsR : ∀ e ∈ rot, tsOf (enc e) = e.ts) (htsC : ∀ e ∈ cur, tsOf (enc e) = e.ts) :
    lineSeek tsOf (descsOf enc exR exC rot cur) t (descsOf enc exR exC rot cur).length =
      if rot = [] ∧ cur = [] ∧ (exR || exC) = true then none
      else (C07.seekFiles rot cur t).map (List.map enc) := by
  have hLR := lineSeekFile_fileSeek enc tsOf rot t htsR
  have hLC := lineSeekFile_fileSeek enc tsOf cur t htsC
  cases exR <;> cases exC
  · -- no file at all
    have hr : rot = [] := by by_cases h : rot = []; exact h; exact absurd (hR h) (by simp)
    have hc : cur = [] := by by_cases h : cur = []; exact h; exact absurd (hC h) (by simp)
    subst hr; subst hc
    simp [descsOf, lineSeek, C07.seekFiles]
  · -- only the current file
    have hr : rot = [] := by by_cases h : rot = []; exact h; exact absurd (hR h) (by simp)
    subst hr
    simp only [descsOf, List.nil_append, List.length_singleton, lineSeek, Bool.false_eq_true,
      if_false, if_true, List.getD_cons_zero, hLC, List.cons_ne_nil, Bool.or_true, true_and, and_true]
    cases hf : C07.fileSeek cur t with
    | found k =>
      have hne := fileSeek_ne_nil cur t (by rw [hf]; intro h; cases h)
      simp [hne, C07.seekFiles, hf, fromEntry, allRev, List.map_take]
    | tooEarly =>
      by_cases hne : cur = []
      · simp [hne]
      · simp [hne, C07.seekFiles, hf]
    | tooLate =>
      have hne := fileSeek_ne_nil cur t (by rw [hf]; intro h; cases h)
      simp [hne, C07.seekFiles, hf, allRev, C07.filesRev]
    | notFound =>
      have hne := fileSeek_ne_nil cur t (by rw [hf]; intro h; cases h)
      simp [hne, C07.seekFiles, hf]
  · -- only the rotated file
    have hc : cur = [] := by by_cases h : cur = []; exact h; exact absurd (hC h) (by simp)
    subst hc
    simp only [descsOf, List.append_nil, List.length_singleton, lineSeek, Bool.false_eq_true,
      if_false, if_true, List.getD_cons_zero, hLR, List.cons_ne_nil, Bool.or_false, and_true]
    cases hf : C07.fileSeek rot t with
    | found k =>
      have hne := fileSeek_ne_nil rot t (by rw [hf]; intro h; cases h)
      simp [hne, C07.seekFiles, C07.seekRot, hf, fromEntry, allRev, List.map_take]
    | tooEarly =>
      by_cases hne : rot = []
      · simp [hne]
      · simp [hne, C07.seekFiles, C07.seekRot, hf]
    | tooLate =>
      have hne := fileSeek_ne_nil rot t (by rw [hf]; intro h; cases h)
      simp [hne, C07.seekFiles, C07.seekRot, hf, allRev, C07.filesRev]
    | notFound =>
      have hne := fileSeek_ne_nil rot t (by rw [hf]; intro h; cases h)
      simp [hne, C07.seekFiles, C07.seekRot, hf]
  · -- both files
    simp only [descsOf, if_true, List.singleton_append, List.length_cons, List.length_nil,
      Nat.zero_add, Nat.reduceAdd, lineSeek, List.cons_ne_nil, if_false, Bool.or_true, and_true]
    have hg1 : ([{ lines := rot.map enc }, { lines := cur.map enc }] : List FileDesc).getD 1 {lines := []} =
        { lines := cur.map enc } := rfl
    have hg0 : ([{ lines := rot.map enc }, { lines := cur.map enc }] : List FileDesc).getD 0 {lines := []} =
        { lines := rot.map enc } := rfl
    rw [hg1, hg0]
    simp only [hLC, hLR]
    cases hfc : C07.fileSeek cur t with
    | found k =>
      have hne := fileSeek_ne_nil cur t (by rw [hfc]; intro h; cases h)
      simp [hne, C07.seekFiles, hfc, fromEntry, allRev, List.map_take]
    | tooLate =>
      have hne := fileSeek_ne_nil cur t (by rw [hfc]; intro h; cases h)
      simp [hne, C07.seekFiles, hfc, allRev, C07.filesRev]
    | notFound =>
      have hne := fileSeek_ne_nil cur t (by rw [hfc]; intro h; cases h)
      simp [hne, C07.seekFiles, hfc]
    | tooEarly =>
      simp only
      cases hfr : C07.fileSeek rot t with
      | found k =>
        have hner := fileSeek_ne_nil rot t (by rw [hfr]; intro h; cases h)
        by_cases hnc : cur = [] <;>
          simp [hner, hnc, C07.seekFiles, C07.seekRot, hfc, hfr, fromEntry, allRev, List.map_take]
      | tooLate =>
        have hner := fileSeek_ne_nil rot t (by rw [hfr]; intro h; cases h)
        by_cases hnc : cur = [] <;>
          simp [hner, hnc, C07.seekFiles, C07.seekRot, hfc, hfr, allRev, C07.filesRev]
      | notFound =>
        have hner := fileSeek_ne_nil rot t (by rw [hfr]; intro h; cases h)
        by_cases hnc : cur = [] <;>
          simp [hner, hnc, C07.seekFiles, C07.seekRot, hfc, hfr]
      | tooEarly =>
        by_cases hnr : rot = [] <;> by_cases hnc : cur = [] <;>
          simp [hnr, hnc, C07.seekFiles, C07.seekRot, hfc, hfr]

theorem allRev_descsOf (exR exC : Bool) (rot cur : List C07.Entry)
    (hR : rot ≠ [] → exR = true) (hC : cur ≠ [] → exC = true) :
    allRev (descsOf enc exR exC rot cur) = (C07.filesRev rot cur).map enc := by
  cases exR <;> cases exC
  · have hr : rot = [] := by by_cases h : rot = []; exact h; exact absurd (hR h) (by simp)
    have hc : cur = [] := by by_cases h : cur = []; exact h; exact absurd (hC h) (by simp)
    subst hr; subst hc; simp [descsOf, allRev, C07.filesRev]
  · have hr : rot = [] := by by_cases h : rot = []; exact h; exact absurd (hR h) (by simp)
    subst hr; simp [descsOf, allRev, C07.filesRev]
  · have hc : cur = [] := by by_cases h : cur = []; exact h; exact absurd (hC h) (by simp)
    subst hc; simp [descsOf, allRev, C07.filesRev]
  · simp [descsOf, allRev, C07.filesRev]

theorem filesCtx_descsOf (exR exC : Bool) (rot cur : List C07.Entry)
    (eR : Enc enc tsOf rot) (eC : Enc enc tsOf cur) :
    FilesCtx tsOf (descsOf enc exR exC rot cur) := by
  have hmem : ∀ d ∈ descsOf enc exR exC rot cur,
      d = { lines := rot.map enc } ∨ d = { lines := cur.map enc } := by
    intro d hd
    cases exR <;> cases exC <;> simp [descsOf] at hd
    · exact Or.inr hd
    · exact Or.inl hd
    · exact hd
  have ctxR := eR.seekCtx enc tsOf rot
  have ctxC := eC.seekCtx enc tsOf cur
  refine ⟨?_, ?_, ?_⟩
  · intro d hd
    rcases hmem d hd with h | h <;> subst h
    · exact (readable_iff _).2 ⟨rfl, ctxR.ok⟩
    · exact (readable_iff _).2 ⟨rfl, ctxC.ok⟩
  · intro d hd
    rcases hmem d hd with h | h <;> subst h
    · exact ctxR
    · exact ctxC
  · intro d hd
    rcases hmem d hd with h | h <;> subst h
    · exact eR.small
    · exact eC.small

/-- search.go `seekRecord` on the byte-level reader (`olderThan.IsZero()` is `none`). -/
def rSeekRecord (P : Params) (fs : List File) (tsOf : Bytes → Int) (r : RState) :
    Option Int → RState × Except Err Unit
  | none => (rSeekStart fs r, .ok ())
  | some t => rSeekTS P fs tsOf r t

/-- **`seekRecord` refinement.**  Whatever C07's `seekRecord` says the following
reads return is where the byte-level reader stands; when it says "error", the
byte-level reader reports `not found` and has not moved. -/
theorem rSeekRecord_refines (P : Params) (hP1 : entryLimit ≤ P.maxEntry)
    (exR exC : Bool) (rot cur : List C07.Entry)
    (hR : rot ≠ [] → exR = true) (hC : cur ≠ [] → exC = true)
    (eR : Enc enc tsOf rot) (eC : Enc enc tsOf cur)
    (hex : ¬ (rot = [] ∧ cur = [] ∧ (exR || exC) = true))
    (o : Option Int) (r : RState)
    (hlen : r.files.length = (descsOf enc exR exC rot cur).length)
    (h0 : descsOf enc exR exC rot cur = [] → r.curN = 0) :
    (∀ rem, C07.seekRecord rot cur o = some rem →
      ∃ r1, rSeekRecord P ((descsOf enc exR exC rot cur).map fileOfDesc) tsOf r o = (r1, .ok ()) ∧
        RPos P (descsOf enc exR exC rot cur) r1 (rem.map enc) ∧
        r1.files.length = (descsOf enc exR exC rot cur).length) ∧
    (C07.seekRecord rot cur o = none →
      ∃ r', rSeekRecord P ((descsOf enc exR exC rot cur).map fileOfDesc) tsOf r o =
          (r', .error .notFound) ∧ SameUpToBuf r r') := by
  have g := filesCtx_descsOf enc tsOf exR exC rot cur eR eC
  cases o with
  | none =>
    obtain ⟨hp, hl⟩ := rSeekStart_rpos' P (descsOf enc exR exC rot cur) r hlen g.rd h0
    constructor
    · intro rem hrem
      simp only [C07.seekRecord, Option.some.injEq] at hrem
      subst hrem
      rw [← allRev_descsOf enc exR exC rot cur hR hC]
      exact ⟨_, rfl, hp, hl⟩
    · intro h; simp [C07.seekRecord] at h
  | some t =>
    obtain ⟨h1, h2⟩ := rSeekLoop_lineSeek P tsOf t _ hP1 g (descsOf enc exR exC rot cur).length r
      (Nat.le_refl _) hlen h0
    have hbr := lineSeek_seekFiles enc tsOf exR exC rot cur t hR hC eR.ts eC.ts
    rw [if_neg hex] at hbr
    simp only [rSeekRecord, rSeekTS, List.length_map, C07.seekRecord]
    constructor
    · intro rem hrem
      rw [hrem] at hbr
      exact h1 _ hbr
    · intro hn
      rw [hn] at hbr
      exact h2 hbr

/-- The corner where the abstractions differ: both files empty, but at least one
(empty) file exists.  C07 (no such file in its model): `some []`.  Byte level:
every file reports too-early, the reader reports `not found`. -/
theorem rSeekTS_empty_existing (P : Params) (exR exC : Bool) (hex : (exR || exC) = true)
    (t : Int) (r : RState) :
    C07.seekFiles [] [] t = some [] ∧
    (rSeekTS P ((descsOf enc exR exC [] []).map fileOfDesc) tsOf r t).2 = .error .notFound := by
  refine ⟨by simp [C07.seekFiles], ?_⟩
  have hf : ∀ q, seekTS P (fileOfDesc { lines := [] }) tsOf q t = ({ q with hasBuf := false }, .error .tooEarly) := by
    intro q; simp [seekTS, fileOfDesc, File.ofBytes, render]
  cases exR <;> cases exC <;> simp at hex <;>
    simp [descsOf, rSeekTS, rSeekLoop, hf]

end
end AGH.C20
