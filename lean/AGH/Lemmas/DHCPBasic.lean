/-
C10 — helper lemmas, part 1: lists, the invariant, the primitives that do not
touch the table (`store`, index updates).
-/
import AGH.Spec.DHCP
namespace AGH.C10
open AGH

/-! ### lists -/

theorem nodup_map_inj {α β : Type} {f : α → β} {L : List α} (h : (L.map f).Nodup) {a b : α}
    (ha : a ∈ L) (hb : b ∈ L) (hab : f a = f b) : a = b := by
  induction L with
  | nil => cases ha
  | cons x xs ih =>
    rw [List.map_cons, List.nodup_cons] at h
    rcases List.mem_cons.1 ha with rfl | ha' <;> rcases List.mem_cons.1 hb with rfl | hb'
    · rfl
    · exact absurd (List.mem_map.2 ⟨b, hb', hab.symm⟩) h.1
    · exact absurd (List.mem_map.2 ⟨a, ha', hab⟩) h.1
    · exact ih h.2 ha' hb'

theorem nodup_map_middle {α β : Type} {f : α → β} {A B : List α} {x : α}
    (h : ((A ++ x :: B).map f).Nodup) : ((A ++ B).map f).Nodup ∧ ∀ y ∈ A ++ B, f y ≠ f x := by
  have hp : ((A ++ x :: B).map f).Perm (f x :: (A ++ B).map f) := by
    simp
  have h' := hp.nodup_iff.1 h
  rw [List.nodup_cons] at h'
  refine ⟨h'.2, ?_⟩
  intro y hy hxy
  exact h'.1 (List.mem_map.2 ⟨y, hy, hxy⟩)

theorem nodup_map_snoc {α β : Type} {f : α → β} {L : List α} {x : α}
    (h : (L.map f).Nodup) (hx : ∀ y ∈ L, f y ≠ f x) : ((L ++ [x]).map f).Nodup := by
  rw [List.map_append, List.nodup_append]
  refine ⟨h, by simp, ?_⟩
  intro a ha b hb
  simp at hb
  subst hb
  rcases List.mem_map.1 ha with ⟨y, hy, rfl⟩
  exact hx y hy

theorem mem_middle {α : Type} {A B : List α} {x y : α} : y ∈ A ++ x :: B ↔ y = x ∨ y ∈ A ++ B := by
  simp [List.mem_append, List.mem_cons]
  constructor
  · rintro (h | h | h)
    · exact .inr (.inl h)
    · exact .inl h
    · exact .inr (.inr h)
  · rintro (h | h | h)
    · exact .inr (.inl h)
    · exact .inl h
    · exact .inr (.inr h)

/-! ### the stable sort of `writeDB` is a permutation -/

theorem insertByHost_perm (x : DLease) (l : List DLease) : (insertByHost x l).Perm (x :: l) := by
  induction l with
  | nil => simp [insertByHost]
  | cons y ys ih =>
    unfold insertByHost
    split
    · exact List.Perm.refl _
    · exact (List.Perm.cons y ih).trans (List.Perm.swap x y ys)

theorem foldl_insert_perm (l acc : List DLease) :
    (l.foldl (fun acc x => insertByHost x acc) acc).Perm (l ++ acc) := by
  induction l generalizing acc with
  | nil => simp
  | cons x xs ih =>
    simp only [List.foldl_cons]
    refine (ih _).trans ?_
    refine (List.Perm.append_left xs (insertByHost_perm x acc)).trans ?_
    simp

theorem sortByHost_perm (l : List DLease) : (sortByHost l).Perm l := by
  simpa [sortByHost] using foldl_insert_perm l []

/-! ### function updates -/

@[simp] theorem setFn_same {α β : Type} [DecidableEq α] (f : α → β) (k : α) (v : β) : setFn f k v k = v := by
  simp [setFn]

theorem setFn_other {α β : Type} [DecidableEq α] (f : α → β) (k : α) (v : β) {x : α} (h : x ≠ k) :
    setFn f k v x = f x := by
  simp [setFn, h]

/-! ### configuration, invariant -/

/-- What `V4ServerConf.Validate` guarantees: a pool of at least two addresses
that does not contain the gateway. -/
theorem validate_spec {c : Conf} (h : validate c = true) :
    c.start < c.stop ∧ ¬ (c.start ≤ c.gw ∧ c.gw ≤ c.stop) ∧ inSubnet c c.start = true ∧ inSubnet c c.stop = true := by
  unfold validate at h
  simp only [Bool.and_eq_true, Bool.not_eq_true', Bool.and_eq_false_iff, decide_eq_true_eq,
    decide_eq_false_iff_not] at h
  obtain ⟨⟨⟨h1, h2⟩, h3⟩, h4⟩ := h
  refine ⟨h1, ?_, h3, h4⟩
  rintro ⟨a, b⟩
  rcases h2 with h2 | h2
  · exact h2 a
  · exact h2 b

def DiskOK (c : Conf) (d : List DLease) : Prop :=
  (d.map (·.ip)).Nodup ∧ (d.map (·.mac)).Nodup ∧
  (∀ x ∈ d, x.static = false → c.start ≤ x.ip ∧ x.ip ≤ c.stop)

/-- The invariant of the lease table. -/
structure Inv (c : Conf) (s : State) : Prop where
  ipNodup : (s.leases.map (·.ip)).Nodup
  macNodup : (s.leases.map (·.mac)).Nodup
  dynPool : ∀ l ∈ s.leases, l.static = false → c.start ≤ l.ip ∧ l.ip ≤ c.stop
  bitsIff : ∀ o, s.bits o = true ↔ ∃ l ∈ s.leases, l.ip = c.start + o ∧ l.ip ≤ c.stop
  ipsIff : ∀ ip id, s.ips ip = some id ↔ ∃ l ∈ s.leases, l.ip = ip ∧ l.id = id
  hostsSound : ∀ h id, s.hosts h = some id → ∃ l ∈ s.leases, l.id = id ∧ l.host = h
  hostsNil : s.hosts [] = none
  idNodup : (s.leases.map (·.id)).Nodup
  idLt : ∀ l ∈ s.leases, l.id < s.nextId
  disk : ∀ d, s.disk = some d → DiskOK c d

/-- The file lists exactly the leases of the table, each once (in whatever
order: `writeDB`'s `slices.SortFunc` is not stable beyond 12 records). -/
def Mirror (s : State) : Prop :=
  (∃ d, s.disk = some d ∧ d.Perm (s.leases.map Lease.toDisk)) ∨ (s.disk = none ∧ s.leases = [])

theorem Mirror_of_eq {s : State} (h : s.disk = some (sortByHost (s.leases.map Lease.toDisk))) : Mirror s :=
  .inl ⟨_, h, sortByHost_perm _⟩

theorem Inv_init (c : Conf) : Inv c State.init := by
  constructor <;> simp [State.init]

theorem Mirror_init : Mirror State.init := .inr ⟨rfl, rfl⟩

theorem offset_eq_some {c : Conf} {ip o : Nat} : offset c ip = some o ↔ (c.start ≤ ip ∧ ip ≤ c.stop ∧ o = ip - c.start) := by
  unfold offset
  split
  · next h =>
    constructor
    · intro e
      simp only [Option.some.injEq] at e
      exact ⟨h.1, h.2, e.symm⟩
    · rintro ⟨_, _, rfl⟩; rfl
  · next h =>
    constructor
    · intro e; cases e
    · rintro ⟨h1, h2, _⟩; exact absurd ⟨h1, h2⟩ h

theorem offset_eq_none {c : Conf} {ip : Nat} : offset c ip = none ↔ ¬ (c.start ≤ ip ∧ ip ≤ c.stop) := by
  unfold offset
  split <;> simp_all

/-- `dbStore` keeps the invariant: the file is a permutation of the table. -/
theorem Inv_store {c : Conf} {s : State} (h : Inv c s) : Inv c s.store := by
  refine { h with disk := ?_ }
  intro d hd
  simp only [State.store, Option.some.injEq] at hd
  subst hd
  have hp := sortByHost_perm (s.leases.map Lease.toDisk)
  refine ⟨?_, ?_, ?_⟩
  · have : (List.map (·.ip) (s.leases.map Lease.toDisk)) = s.leases.map (·.ip) := by
      simp [List.map_map, Function.comp_def, Lease.toDisk]
    exact (hp.map _).nodup_iff.2 (this ▸ h.ipNodup)
  · have : (List.map (·.mac) (s.leases.map Lease.toDisk)) = s.leases.map (·.mac) := by
      simp [List.map_map, Function.comp_def, Lease.toDisk]
    exact (hp.map _).nodup_iff.2 (this ▸ h.macNodup)
  · intro x hx hs
    rcases List.mem_map.1 (hp.mem_iff.1 hx) with ⟨l, hl, rfl⟩
    exact h.dynPool l hl (by simpa [Lease.toDisk] using hs)

theorem Mirror_store (s : State) : Mirror s.store := Mirror_of_eq rfl

/-- Fields the invariant does not read. -/
theorem Inv_congr {c : Conf} {s s' : State} (h : Inv c s)
    (h1 : s'.leases = s.leases) (h2 : s'.bits = s.bits) (h3 : s'.ips = s.ips) (h4 : s'.hosts = s.hosts)
    (h5 : s'.nextId = s.nextId) (h6 : s'.disk = s.disk) : Inv c s' := by
  constructor
  · rw [h1]; exact h.ipNodup
  · rw [h1]; exact h.macNodup
  · rw [h1]; exact h.dynPool
  · rw [h1, h2]; exact h.bitsIff
  · rw [h1, h3]; exact h.ipsIff
  · rw [h1, h4]; exact h.hostsSound
  · rw [h4]; exact h.hostsNil
  · rw [h1]; exact h.idNodup
  · rw [h1, h5]; exact h.idLt
  · rw [h6]; exact h.disk

theorem Inv_emptied {c : Conf} {s : State} (h : Inv c s) :
    Inv c { State.init with nextId := s.nextId, now := s.now, disk := s.disk } := by
  constructor <;> simp [State.init]
  exact h.disk

theorem resetAll_inv {c : Conf} {s : State} (h : Inv c s) : Inv c (resetAll s) := Inv_store (Inv_emptied h)

theorem reorderDisk_spec (d : List DLease) (s : State) :
    (reorderDisk d s).leases = s.leases ∧ (reorderDisk d s).bits = s.bits ∧ (reorderDisk d s).ips = s.ips ∧
    (reorderDisk d s).hosts = s.hosts ∧ (reorderDisk d s).nextId = s.nextId ∧ (reorderDisk d s).now = s.now ∧
    ((reorderDisk d s).disk = s.disk ∨ ∃ d0, s.disk = some d0 ∧ (reorderDisk d s).disk = some d ∧ d.Perm d0) := by
  unfold reorderDisk
  cases hd : s.disk with
  | none => exact ⟨rfl, rfl, rfl, rfl, rfl, rfl, .inl hd⟩
  | some d0 =>
    simp only []
    split
    · next hc =>
      simp only [Bool.and_eq_true] at hc
      exact ⟨rfl, rfl, rfl, rfl, rfl, rfl, .inr ⟨d0, rfl, rfl, List.isPerm_iff.1 hc.1⟩⟩
    · exact ⟨rfl, rfl, rfl, rfl, rfl, rfl, .inl hd⟩

theorem Mirror_reorder {s : State} (d : List DLease) (h : Mirror s) : Mirror (reorderDisk d s) := by
  obtain ⟨h1, _, _, _, _, _, h7⟩ := reorderDisk_spec d s
  rcases h7 with h7 | ⟨d0, hd0, hd, hp⟩
  · unfold Mirror; rw [h1, h7]; exact h
  · rcases h with ⟨d', hd', hp'⟩ | ⟨hn, _⟩
    · rw [hd0] at hd'; cases hd'
      exact .inl ⟨d, hd, by rw [h1]; exact hp.trans hp'⟩
    · rw [hd0] at hn; cases hn

theorem Inv_reorder {c : Conf} {s : State} (d : List DLease) (h : Inv c s) : Inv c (reorderDisk d s) := by
  obtain ⟨h1, h2, h3, h4, h5, _, h7⟩ := reorderDisk_spec d s
  rcases h7 with h7 | ⟨d0, hd0, hd, hp⟩
  · exact Inv_congr h h1 h2 h3 h4 h5 h7
  · have hi : Inv c { reorderDisk d s with disk := s.disk } := Inv_congr h h1 h2 h3 h4 h5 rfl
    refine { hi with disk := ?_ }
    intro d' hd'
    rw [hd] at hd'; cases hd'
    obtain ⟨a, b, e⟩ := h.disk d0 hd0
    refine ⟨(hp.map _).nodup_iff.2 a, (hp.map _).nodup_iff.2 b, ?_⟩
    intro x hx
    exact e x (hp.mem_iff.1 hx)

end AGH.C10
