/-
Helper lemmas for C11 (core Lean only).
-/
import AGH.Spec.Http
set_option linter.unusedSimpArgs false
namespace AGH.C11
open AGH AGH.Bytes

/-! ## Wrappers never invent a handler run, and use the inner handler only at the same request -/

theorem apply_congr (w : Wrapper) (h₁ h₂ : Handler) (req : Req) (hh : h₁ req = h₂ req) :
    w.apply h₁ req = w.apply h₂ req := by
  cases w <;>
    simp only [Wrapper.apply, postInstallW, preInstallW, optionalAuthW, ensureW, hh]

theorem run_cons (w : Wrapper) (c : List Wrapper) (h : Handler) :
    run (w :: c) h = w.apply (run c h) := rfl

theorem run_congr (c : List Wrapper) (h₁ h₂ : Handler) (req : Req) (hh : h₁ req = h₂ req) :
    run c h₁ req = run c h₂ req := by
  induction c with
  | nil => exact hh
  | cons w c ih => rw [run_cons, run_cons]; exact apply_congr w _ _ req ih

theorem optionalAuthThird_ne_ran (req : Req) : optionalAuthThird req ≠ some .ran := by
  unfold optionalAuthThird
  split
  · simp
  · split <;> simp

theorem apply_ran (w : Wrapper) (h : Handler) (req : Req) (hr : w.apply h req = .ran) :
    h req = .ran := by
  cases w with
  | postInstall =>
    simp only [Wrapper.apply, postInstallW] at hr
    split at hr
    · cases hr
    · exact hr
  | preInstall =>
    simp only [Wrapper.apply, preInstallW] at hr
    split at hr
    · cases hr
    · exact hr
  | optionalAuth =>
    simp only [Wrapper.apply, optionalAuthW] at hr
    split at hr
    · split at hr
      · cases hr
      · exact hr
    · split at hr
      · exact hr
      · split at hr
        · split at hr
          · next resp heq =>
            exact absurd (hr ▸ heq) (optionalAuthThird_ne_ran req)
          · exact hr
        · exact hr
  | gzip => exact hr
  | ensure m =>
    simp only [Wrapper.apply, ensureW] at hr
    split at hr
    · cases hr
    · split at hr
      · split at hr
        · exact hr
        · cases hr
      · exact hr

theorem run_ran (c : List Wrapper) (h : Handler) (req : Req) (hr : run c h req = .ran) :
    h req = .ran := by
  induction c with
  | nil => exact hr
  | cons w c ih => exact ih (apply_ran w _ req hr)

theorem run_ran_tail (w : Wrapper) (c : List Wrapper) (h : Handler) (req : Req)
    (hr : run (w :: c) h req = .ran) : run c h req = .ran :=
  apply_ran w _ req hr

/-! ## The gate decides on path, cookie class, basic class, "auth required" and the token verdict only -/

theorem optionalAuthW_decision (g : Handler) (req : Req) :
    optionalAuthW g req =
      (authDecision req.path req.cookie req.basic (authRequired req) req.glMode
        (glProcessCookie req) req.addrBlocked).getD (g req) := by
  unfold optionalAuthW authDecision optionalAuthThird authenticated
  by_cases h1 : req.path = pLoginHtml
  · by_cases h2 : (authRequired req && req.cookie == .valid) = true <;> simp [h1, h2]
  · by_cases h3 : isPublicResource req.path = true
    · simp [h1, h3]
    · cases hu : authRequired req
      · simp [h1, h3]
      · by_cases hr : req.path = pRoot ∨ req.path = pIndex <;>
          cases hg : (glProcessCookie req || sessionOrBasic req.cookie req.basic req.addrBlocked) <;>
          simp [h1, h3, hr, hg]

/-- Two requests that differ at most in the extra headers. -/
def sameButHeaders (a b : Req) : Prop :=
  a.path = b.path ∧ a.method = b.method ∧ a.cookie = b.cookie ∧ a.basic = b.basic ∧
  a.ctype = b.ctype ∧ a.contentLength = b.contentLength ∧ a.firstRun = b.firstRun ∧
  a.usersExist = b.usersExist ∧ a.glMode = b.glMode ∧ a.glCookie = b.glCookie ∧
  a.glStat = b.glStat ∧ a.now = b.now ∧ a.addrBlocked = b.addrBlocked ∧ a.authNil = b.authNil

theorem apply_headers (w : Wrapper) (g : Handler) (a b : Req) (hs : sameButHeaders a b)
    (hg : g a = g b) : w.apply g a = w.apply g b := by
  obtain ⟨h1, h2, h3, h4, h5, h6, h7, h8, h9, h10, h11, h12, h13, h14⟩ := hs
  cases w with
  | postInstall => simp only [Wrapper.apply, postInstallW, h1, h7, hg]
  | preInstall => simp only [Wrapper.apply, preInstallW, h7, hg]
  | optionalAuth =>
    simp only [Wrapper.apply]
    rw [optionalAuthW_decision, optionalAuthW_decision]
    simp only [authRequired, glProcessCookie, glCheckToken, h1, h3, h4, h8, h9, h10, h11, h12, h13, h14, hg]
  | gzip => exact hg
  | ensure m => simp [Wrapper.apply, ensureW, ctypeOK, h2, h5, h6, hg]

/-! ## isPublicResource -/

theorem loginHtml_public : isPublicResource pLoginHtml = true := by decide

theorem globLitStar_iff (lit p : Bytes) :
    globLitStar lit p = true ↔ ∃ s, p = lit ++ s ∧ slash ∉ s := by
  unfold globLitStar
  constructor
  · intro h
    simp only [Bool.and_eq_true, Bool.not_eq_true', List.isPrefixOf_iff_prefix] at h
    obtain ⟨⟨s, hs⟩, hc⟩ := h
    refine ⟨s, hs.symm, ?_⟩
    subst hs
    simp only [List.drop_left] at hc
    intro hm
    have : s.contains slash = true := List.contains_iff_mem.mpr hm
    rw [this] at hc
    cases hc
  · rintro ⟨s, rfl, hs⟩
    simp only [Bool.and_eq_true, Bool.not_eq_true', List.isPrefixOf_iff_prefix, List.drop_left]
    refine ⟨⟨s, rfl⟩, ?_⟩
    cases hc : s.contains slash with
    | false => rfl
    | true => exact absurd (List.contains_iff_mem.mp hc) hs

/-- What the code treats as public stays inside what the property allows. -/
theorem public_sub_spec (p : Bytes) (h : isPublicResource p = true) : specPublicPath p = true := by
  unfold isPublicResource at h
  simp only [Bool.or_eq_true] at h
  unfold specPublicPath
  rcases h with h | h
  · have : isStaticAsset p = true := by
      unfold globLitStar at h
      simp only [Bool.and_eq_true] at h
      exact h.1
    simp [this]
  · have : isLoginPage p = true := h
    simp [this]

/-! ## Authentication -/

/-- The code's token test implies: the value is a plain name, and the file found
is fresh by the spec's (unwrapped) arithmetic — once the clock is past the first
hour of 1970 (a file that cannot be read counts as date 0). -/
theorem glCheck_sub_fresh (req : Req) (hnow : glTimeout < req.now)
    (h : glCheckToken req = true) :
    ∃ v, req.glCookie = some v ∧ plainName v = true ∧ tokenFresh req.now req.glStat = true := by
  unfold glCheckToken at h
  cases hc : req.glCookie with
  | none => simp [hc] at h
  | some v =>
    simp only [hc, Bool.and_eq_true] at h
    refine ⟨v, rfl, h.1, ?_⟩
    have h2 := h.2
    unfold tokenFresh
    cases hs : req.glStat with
    | missing => simp [hs] at h2
    | short =>
      simp [hs, glTimeout] at h2
      simp [glTimeout] at hnow
      omega
    | date d =>
      simp [hs] at h2 ⊢
      have : (d + glTimeout) % 4294967296 ≤ d + glTimeout := Nat.mod_le _ _
      omega

/-- What is assumed of the file system, and only for values WITHOUT a separator:
the OS finds under `glFilePrefix ++ v` the directory entry of exactly that name
(`issued`: what the router issued under it); and a path that ends in a separator
is a directory, which has no readable date.  Nothing is assumed about values
with separators, and nothing about what else the directory holds. -/
def nameResolves (req : Req) (issued : GLStat) : Prop :=
  (∀ v, req.glCookie = some v → slash ∉ v → req.glStat = issued) ∧
  (req.glCookie = some [slash] → ∀ d, req.glStat ≠ .date d)

theorem plainName_cases (v : Bytes) (h : plainName v = true) :
    (v ≠ [] ∧ slash ∉ v) ∨ v = [slash] := by
  unfold plainName at h
  simp only [Bool.or_eq_true, Bool.and_eq_true, bne_iff_ne, ne_eq, Bool.not_eq_true',
    beq_iff_eq] at h
  rcases h with ⟨h1, h2⟩ | h
  · left
    refine ⟨h1, fun hm => ?_⟩
    rw [List.contains_iff_mem.mpr hm] at h2
    cases h2
  · right; exact h

/-- The token gate opens only for a slash-free, non-empty value whose token (the
entry of exactly that name) is fresh. -/
theorem glCheck_by_name (req : Req) (issued : GLStat) (hfs : nameResolves req issued)
    (hnow : glTimeout < req.now) (h : glCheckToken req = true) :
    ∃ v, req.glCookie = some v ∧ v ≠ [] ∧ slash ∉ v ∧ tokenFresh req.now issued = true := by
  obtain ⟨v, hv, hp, hf⟩ := glCheck_sub_fresh req hnow h
  rcases plainName_cases v hp with ⟨hne, hns⟩ | hsl
  · refine ⟨v, hv, hne, hns, ?_⟩
    rw [← hfs.1 v hv hns]; exact hf
  · subst hsl
    exfalso
    unfold tokenFresh at hf
    cases hs : req.glStat with
    | missing => simp [hs] at hf
    | short => simp [hs] at hf
    | date d => exact hfs.2 hv d hs

theorem auth_sub_spec (req : Req) (issued : GLStat) (hfs : nameResolves req issued)
    (hnow : glTimeout < req.now) (h : authenticated req = true) :
    specAuthenticated req issued = true := by
  unfold authenticated at h
  unfold specAuthenticated specGLAuthenticated
  rw [Bool.or_eq_true] at h
  rcases h with h | h
  · unfold glProcessCookie at h
    simp only [Bool.and_eq_true] at h
    obtain ⟨⟨hm, hc⟩, hk⟩ := h
    obtain ⟨v, _, _, _, hf⟩ := glCheck_by_name req issued hfs hnow hk
    simp [hm, hc, hf]
  · unfold sessionOrBasic at h
    cases hc : req.cookie <;> simp [hc] at h ⊢
    simp [h]

/-- With the gate closed, `optionalAuth` answers by itself. -/
theorem optionalAuthW_denied (g : Handler) (req : Req)
    (hu : authRequired req = true) (hp : isPublicResource req.path = false)
    (ha : authenticated req = false) :
    optionalAuthW g req =
      if req.path = pRoot ∨ req.path = pIndex then .redirect (loginTarget req.glMode)
      else .forbiddenAuth := by
  have hl : req.path ≠ pLoginHtml := by
    intro he
    rw [he, loginHtml_public] at hp
    cases hp
  by_cases hr : req.path = pRoot ∨ req.path = pIndex <;>
    simp [optionalAuthW, hl, hp, hu, optionalAuthThird, ha, hr]

/-! ## Chains whose first effective wrapper is the authentication gate -/

theorem authFirst_mem (c : List Wrapper) (h : authFirst c = true) : .optionalAuth ∈ c := by
  induction c with
  | nil => simp [authFirst] at h
  | cons w c ih =>
    cases w with
    | postInstall => exact List.mem_cons_of_mem _ (ih (by simpa [authFirst] using h))
    | gzip => exact List.mem_cons_of_mem _ (ih (by simpa [authFirst] using h))
    | optionalAuth => exact List.mem_cons_self
    | preInstall => simp [authFirst] at h
    | ensure m => simp [authFirst] at h

theorem authFirst_denied (c : List Wrapper) (g : Handler) (req : Req)
    (hc : authFirst c = true) (hu : authRequired req = true) (hf : req.firstRun = false)
    (hp : isPublicResource req.path = false) (ha : authenticated req = false) :
    run c g req =
      if req.path = pRoot ∨ req.path = pIndex then .redirect (loginTarget req.glMode)
      else .forbiddenAuth := by
  induction c with
  | nil => simp [authFirst] at hc
  | cons w c ih =>
    cases w with
    | postInstall =>
      have := ih (by simpa [authFirst] using hc)
      rw [run_cons]
      simp only [Wrapper.apply, postInstallW, hf, Bool.false_and, Bool.false_eq_true, if_false]
      exact this
    | gzip =>
      have := ih (by simpa [authFirst] using hc)
      rw [run_cons]
      exact this
    | optionalAuth =>
      rw [run_cons]
      exact optionalAuthW_denied _ req hu hp ha
    | preInstall => simp [authFirst] at hc
    | ensure m => simp [authFirst] at hc

theorem preInstallFirst_denied (c : List Wrapper) (g : Handler) (req : Req)
    (hc : preInstallFirst c = true) (hf : req.firstRun = false) :
    run c g req = .forbiddenPre := by
  cases c with
  | nil => simp [preInstallFirst] at hc
  | cons w c =>
    cases w <;> simp [preInstallFirst] at hc
    rw [run_cons]
    simp [Wrapper.apply, preInstallW, hf]

/-! ## The method / content-type guard -/

theorem ensure_mem_ran (m : Bytes) (c : List Wrapper) (g : Handler) (req : Req)
    (hm : .ensure m ∈ c) (hr : run c g req = .ran) :
    req.method = m ∧ (modifiesData m = true → ctypeOK req = true) := by
  induction c with
  | nil => cases hm
  | cons w c ih =>
    rcases List.mem_cons.mp hm with he | hin
    · subst he
      rw [run_cons] at hr
      simp only [Wrapper.apply, ensureW] at hr
      split at hr
      · cases hr
      · next hmeq =>
        have hmeq' : req.method = m := Classical.not_not.mp hmeq
        refine ⟨hmeq', ?_⟩
        intro hmod
        rw [hmeq'] at hr
        simp only [hmod, if_true] at hr
        split at hr
        · assumption
        · cases hr
    · exact ih hin (run_ran_tail w c g req hr)

theorem stateChanging_eq (m : Bytes) : stateChanging m = modifiesData m := rfl

theorem ctypeOK_json (req : Req) (h : ctypeOK req = true) : jsonOrEmpty req = true := by
  unfold ctypeOK at h
  unfold jsonOrEmpty
  split at h
  · next h0 => simp [h0, h]
  · simp [h]

/-! ## Allowed patterns serve only public paths -/

theorem allowed_served_public (pat path : Bytes)
    (ha : allowedPattern pat = true) (hs : servedBy pat path = true) :
    specPublicPath path = true := by
  unfold allowedPattern allowedPatterns at ha
  simp only [List.contains_iff_mem, List.mem_cons, List.not_mem_nil, or_false] at ha
  rcases ha with rfl | rfl | rfl | rfl | rfl
  · have : path = pControlLogin := by
      have hl : pControlLogin.getLast? ≠ some slash := by decide
      simpa [servedBy, hl] using hs
    subst this; decide
  · have : path = pDohMobile := by
      have hl : pDohMobile.getLast? ≠ some slash := by decide
      simpa [servedBy, hl] using hs
    subst this; decide
  · have : path = pDotMobile := by
      have hl : pDotMobile.getLast? ≠ some slash := by decide
      simpa [servedBy, hl] using hs
    subst this; decide
  · have : path = pDnsQuery := by
      have hl : pDnsQuery.getLast? ≠ some slash := by decide
      simpa [servedBy, hl] using hs
    subst this; decide
  · have hl : pDnsQuerySlash.getLast? = some slash := by decide
    have hp : pDnsQuerySlash.isPrefixOf path = true := by simpa [servedBy, hl] using hs
    simp [specPublicPath, isDoH, hp]

/-! ## What `specOK` means -/

theorem specOK_iff (req : Req) (d : Option Bytes) (o : Obs) (issued : GLStat) :
    specOK req d o issued = true ↔
      (protectedReq req issued = true → allowedDenial o = true) ∧
      (o = .resp .ran → badStateChange req d = false) := by
  unfold specOK specCheck
  by_cases ho : o = .resp .ran
  · subst ho
    cases hp : protectedReq req issued <;> cases hb : badStateChange req d <;>
      simp [allowedDenial, hp, hb]
  · cases hp : protectedReq req issued <;> cases ha : allowedDenial o <;> simp [hp, ha, ho]

end AGH.C11
