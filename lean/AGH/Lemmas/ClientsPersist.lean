/-
C04 lemmas, part 10: the configuration-file round trip and restart.  Core Lean only.
-/
import AGH.Lemmas.ClientsHistory
import AGH.Lemmas.ClientsSetIDs
namespace AGH.C04
open AGH AGH.Bytes
open AGH.C03 (IP Prefix)

/-- What a stored client must look like for the configuration file to bring it
back unchanged:
* it has a UID;
* its four identifier lists are in the order `SetIDs` leaves them in;
* on the tree as it is (`fix = false`) none of its MACs has 8 bytes (an EUI-64
  printed with colons reads back as an IPv6 address —
  `C04_counterexample_restart_eui64_before_fix`); with the repair no such condition;
* its ClientIDs are non-empty valid labels in lower case (what `SetIDs` stores);
* it has a safe-search engine exactly when its safe-search config is enabled
  (what `toPersistent` and the HTTP API create). -/
structure Persistable (fix : Bool) (c : Client) : Prop where
  uid : c.uid ≠ 0
  ips : sortBy ipLt c.ips = c.ips
  subnets : sortBy (fun x y => subnetCompare x y == .lt) c.subnets = c.subnets
  macs : sortBy (fun x y => compare x y == .lt) c.macs = c.macs
  cids : sortBy (fun x y => compare x y == .lt) c.cids = c.cids
  noEUI64 : fix = false → ∀ m ∈ c.macs, m.length ≠ 8
  labels : ∀ id ∈ c.cids, id ≠ [] ∧ C16.validLabel id = true ∧ Bytes.lower id = id
  engine : c.safeSearch = if c.safeSearchEnabled then 1 else 0

theorem setIDsLoop_append (c : Client) (l1 l2 : List IDString) :
    setIDsLoop c (l1 ++ l2) = match setIDsLoop c l1 with
      | .ok c' => setIDsLoop c' l2
      | .error e => .error e := by
  induction l1 generalizing c with
  | nil => rfl
  | cons id rest ih =>
    simp only [List.cons_append, setIDsLoop]
    cases setID c id with
    | error e => rfl
    | ok c' => exact ih c'

theorem setIDsLoop_ips (c : Client) (l : List IP) :
    setIDsLoop c (l.map fun ip => ⟨[105], some ip, none, none⟩) = .ok { c with ips := c.ips ++ l } := by
  induction l generalizing c with
  | nil => simp [setIDsLoop]
  | cons a rest ih =>
    simp only [List.map_cons, setIDsLoop, setID]
    simp only [List.cons_ne_nil, if_false]
    rw [ih]
    simp [List.append_assoc]

theorem setIDsLoop_subnets (c : Client) (l : List Prefix) :
    setIDsLoop c (l.map fun p => ⟨[115], none, some p, none⟩) = .ok { c with subnets := c.subnets ++ l } := by
  induction l generalizing c with
  | nil => simp [setIDsLoop]
  | cons a rest ih =>
    simp only [List.map_cons, setIDsLoop, setID]
    simp only [List.cons_ne_nil, if_false]
    rw [ih]
    simp [List.append_assoc]

theorem setIDsLoop_macs (fix : Bool) (c : Client) (l : List MAC) (h : fix = false → ∀ m ∈ l, m.length ≠ 8) :
    setIDsLoop c (l.map fun m => ⟨[109], if fix then none else macAsIP m, none, some m⟩) =
      .ok { c with macs := c.macs ++ l } := by
  induction l generalizing c with
  | nil => simp [setIDsLoop]
  | cons a rest ih =>
    have ha : (if fix then none else macAsIP a) = none := by
      cases fix with
      | true => rfl
      | false => simp [macAsIP, h rfl a List.mem_cons_self]
    simp only [List.map_cons, setIDsLoop, setID, ha]
    simp only [List.cons_ne_nil, if_false]
    rw [ih _ (fun hf m hm => h hf m (List.mem_cons_of_mem _ hm))]
    simp [List.append_assoc]

theorem setIDsLoop_cids (c : Client) (l : List Bytes)
    (h : ∀ id ∈ l, id ≠ [] ∧ C16.validLabel id = true ∧ Bytes.lower id = id) :
    setIDsLoop c (l.map fun id => ⟨id, none, none, none⟩) = .ok { c with cids := c.cids ++ l } := by
  induction l generalizing c with
  | nil => simp [setIDsLoop]
  | cons a rest ih =>
    obtain ⟨h1, h2, h3⟩ := h a List.mem_cons_self
    simp only [List.map_cons, setIDsLoop, setID, h1, if_false, h2, if_true, h3]
    rw [ih _ (fun m hm => h m (List.mem_cons_of_mem _ hm))]
    simp [List.append_assoc]

/-- The configuration record of a persistable client reads back as the client. -/
theorem roundtrip {fix : Bool} {c : Client} (h : Persistable fix c) :
    (c.forConfig fix).toPersistent = some (.ok c) := by
  unfold ClientObject.toPersistent
  have hu : (c.forConfig fix).uid ≠ 0 := h.uid
  simp only [hu, if_false]
  congr 1
  unfold setIDs
  simp only [Client.forConfig, Client.idStrings]
  rw [setIDsLoop_append, setIDsLoop_append, setIDsLoop_append, setIDsLoop_ips]
  simp only
  rw [setIDsLoop_subnets]
  simp only
  rw [setIDsLoop_macs fix _ _ h.noEUI64]
  simp only
  rw [setIDsLoop_cids _ _ h.labels]
  simp only [List.nil_append, Bool.not_not, h.ips, h.subnets, h.macs, h.cids]
  have he := h.engine
  cases c
  simp only at he
  simp only [Except.ok.injEq, Client.mk.injEq, true_and, and_true]
  exact he.symm

/-- Adding a list of valid, pairwise disjoint clients none of which shares
anything with the clients already stored succeeds and stores exactly them. -/
theorem addAll_ok {s : Storage} (hi : Inv s.index) (cs : List Client)
    (hv : ∀ c ∈ cs, c.validate = none ∧ ∀ m ∈ c.macs, macOK m = true)
    (hd : (s.index.clients ++ cs).Pairwise DisjointP) :
    ∃ s', addAll s cs = some s' ∧ Inv s'.index ∧ s'.index.clients = s.index.clients ++ cs ∧ s'.dhcp = s.dhcp := by
  induction cs generalizing s with
  | nil => exact ⟨s, rfl, hi, by simp, rfl⟩
  | cons c rest ih =>
    have hp := List.pairwise_append.mp hd
    have hc : ∀ d ∈ s.index.clients, DisjointP d c := fun d hd' => hp.2.2 d hd' c List.mem_cons_self
    have hok : (s.add c).2 = .ok :=
      Storage.add_accepted s hi c (hv c List.mem_cons_self).1 (fun d hd' => (hc d hd').1)
        (hv c List.mem_cons_self).2 (fun d hd' k hk hkd => (hc d hd').2 k hkd hk)
    have heq : s.add c = ((s.add c).1, .ok) := by rw [← hok]
    obtain ⟨_, _, _, hi', hcl', hdh'⟩ := Storage.add_ok hi heq
    unfold addAll
    rw [heq]
    simp only
    have hd' : ((s.add c).1.index.clients ++ rest).Pairwise DisjointP := by
      rw [hcl', List.append_assoc]; exact hd
    obtain ⟨s', h1, h2, h3, h4⟩ := ih hi' (fun x hx => hv x (List.mem_cons_of_mem _ hx)) hd'
    exact ⟨s', h1, h2, by rw [h3, hcl', List.append_assoc]; rfl, by rw [h4, hdh']⟩

theorem mapM_roundtrip (fix : Bool) (l : List Client) (h : ∀ c ∈ l, Persistable fix c) :
    (l.map (Client.forConfig fix)).mapM ClientObject.load = some l := by
  induction l with
  | nil => rfl
  | cons c rest ih =>
    simp only [List.map_cons, List.mapM_cons, ClientObject.load, roundtrip (h c List.mem_cons_self)]
    rw [ih (fun x hx => h x (List.mem_cons_of_mem _ hx))]
    rfl

/-- Restart of a storage whose clients are all persistable and valid: it comes
up, with a consistent index, the same clients and the same DHCP table. -/
theorem restart_ok {fix : Bool} (src : RuntimeSources) {s : Storage} (hi : Inv s.index)
    (hp : ∀ c ∈ s.index.clients, Persistable fix c ∧ c.validate = none ∧ ∀ m ∈ c.macs, macOK m = true) :
    ∃ s', s.restart fix src = (s', .ok) ∧ Inv s'.index ∧ s'.index.clients.Perm s.index.clients ∧ s'.dhcp = s.dhcp := by
  have hperm := rangeByName_perm s.index
  have hp' : ∀ c ∈ s.index.rangeByName, Persistable fix c ∧ c.validate = none ∧ ∀ m ∈ c.macs, macOK m = true :=
    fun c hc => hp c (hperm.mem_iff.mp hc)
  have hd : ((⟨Index.empty, s.dhcp⟩ : Storage).index.clients ++ s.index.rangeByName).Pairwise DisjointP := by
    show ([] ++ s.index.rangeByName).Pairwise DisjointP
    rw [List.nil_append]
    exact (hperm.pairwise_iff DisjointP.symm).mpr hi.pairwise_disjoint
  obtain ⟨s', h1, h2, h3, h4⟩ := addAll_ok (s := ⟨Index.empty, s.dhcp⟩) Inv.empty
    s.index.rangeByName (fun c hc => (hp' c hc).2) hd
  refine ⟨s', ?_, h2, ?_, h4⟩
  · unfold Storage.restart
    simp only [mapM_roundtrip fix _ (fun c hc => (hp' c hc).1), h1]
  · rw [h3]
    show ([] ++ s.index.rangeByName).Perm s.index.clients
    rw [List.nil_append]
    exact hperm

theorem add_dhcp (s : Storage) (c : Client) : (s.add c).1.dhcp = s.dhcp := by
  unfold Storage.add
  cases c.validate with
  | some e => rfl
  | none =>
    simp only
    split
    · rfl
    · cases s.index.clashes c <;> rfl

theorem addAll_dhcp {s s' : Storage} {cs : List Client} (h : addAll s cs = some s') : s'.dhcp = s.dhcp := by
  induction cs generalizing s with
  | nil => simp only [addAll, Option.some.injEq] at h; rw [← h]
  | cons c rest ih =>
    unfold addAll at h
    have hd := add_dhcp s c
    cases hr : s.add c with
    | mk s1 r =>
      rw [hr] at h hd
      cases r with
      | ok => exact (ih h).trans hd
      | err e => cases h
      | panic => cases h

end AGH.C04
